/-
Token-level facts for the text-level theorems of C06, on top of the C07 tokenizer model and
lemmas (imported read-only): what `next` returns on a space, an operator character, a bare or
quoted word followed by a delimiter, and the keywords AND / OR.
-/
import Proofs.Lemmas.C07Quote
namespace C06
open Proc.Tok C07

theorem isCont_ascii (d : UInt8) (hd : d < 0x80) : isCont d = false := by
  simp only [isCont, Bool.and_eq_false_iff, decide_eq_false_iff_not]
  left
  simp only [UInt8.le_iff_toNat_le, UInt8.lt_iff_toNat_lt] at hd ⊢
  simp at hd ⊢; omega

theorem not_le_ascii (lo d : UInt8) (hd : d < 0x80) (hlo : 0x80 ≤ lo) : ¬ (lo ≤ d) := by
  simp only [UInt8.le_iff_toNat_le, UInt8.lt_iff_toNat_lt] at hd hlo ⊢
  simp at hd hlo ⊢; omega

theorem lo3_ge (c : UInt8) : 0x80 ≤ lo3 c := by unfold lo3; split <;> decide
theorem lo4_ge (c : UInt8) : 0x80 ≤ lo4 c := by unfold lo4; split <;> decide

/-- an ASCII byte after a word never completes one of the word's multi-byte runes -/
theorem decodeRune_append_ascii (c : UInt8) (t : Bytes) (d : UInt8) (r : Bytes) (hd : d < 0x80) :
    decodeRune (c :: (t ++ d :: r)) = decodeRune (c :: t) := by
  have hc := isCont_ascii d hd
  have h3 : (lo3 c ≤ d) = False := eq_false (not_le_ascii (lo3 c) d hd (lo3_ge c))
  have h4 : (lo4 c ≤ d) = False := eq_false (not_le_ascii (lo4 c) d hd (lo4_ge c))
  rcases t with _ | ⟨b1, _ | ⟨b2, _ | ⟨b3, t⟩⟩⟩
  · rcases r with _ | ⟨r0, _ | ⟨r1, r⟩⟩ <;> simp only [decodeRune, List.nil_append] <;>
      (repeat' split) <;> (try simp_all) <;>
      (rename_i h; first
        | exact absurd h.1.1 (UInt8.not_le.mpr h3)
        | exact absurd h.1.1.1 (UInt8.not_le.mpr h4))
  · rcases r with _ | ⟨r0, r⟩ <;> simp only [decodeRune, List.cons_append, List.nil_append] <;>
      (repeat' split) <;> simp_all
  · simp only [decodeRune, List.cons_append, List.nil_append] <;>
      (repeat' split) <;> simp_all
  · simp only [decodeRune, List.cons_append]

/-- a delimiter byte: ASCII white space or one of `( ) : @ ,` -/
def isDelim (cx : Ctx) (d : UInt8) : Prop := d < 0x80 ∧ (isSpaceRune cx d.toNat || isOpR d.toNat) = true

/-- what may follow a bare word: nothing, or a delimiter byte -/
def Delim (cx : Ctx) (rest : Bytes) : Prop := rest = [] ∨ ∃ d r, rest = d :: r ∧ isDelim cx d

abbrev wordRune (cx : Ctx) : Nat → Bool := fun r => !(isSpaceRune cx r || isOpR r)

/-- with fuel beyond the length `allRunes` is the full check, whatever the fuel -/
theorem allRunes_fuel (P : Nat → Bool) : ∀ (f : Nat) (q : Bytes), q.length < f → allRunes P f q = true →
    ∀ f', allRunes P f' q = true := by
  intro f
  induction f with
  | zero => intro q h; omega
  | succ f ih =>
    intro q h ha f'
    match q with
    | [] => cases f' <;> simp [allRunes]
    | c :: t =>
      have hsz := decodeRune_size c t
      simp only [allRunes, Bool.and_eq_true] at ha
      have hl : ((c :: t).drop (decodeRune (c :: t)).2).length < f := by
        rw [List.length_drop]; simp at h ⊢; omega
      cases f' with
      | zero => simp [allRunes]
      | succ f' => simp only [allRunes, Bool.and_eq_true]; exact ⟨ha.1, ih _ hl ha.2 f'⟩

/-- the `range` loop of `bareWord` stops exactly at the delimiter -/
theorem bareSplit_stop (cx : Ctx) (rest : Bytes) (hrest : Delim cx rest) :
    ∀ (f : Nat) (w : Bytes), w.length < f → allRunes (wordRune cx) f w = true →
      bareSplit cx f (w ++ rest) = (w, rest) := by
  intro f
  induction f with
  | zero => intro w h; omega
  | succ f ih =>
    intro w h ha
    match w with
    | [] =>
      rcases hrest with rfl | ⟨d, r, rfl, hd, hs⟩
      · simp [bareSplit]
      · simp only [List.nil_append, bareSplit, decodeRune_lo d r hd, hs, if_true]
    | c :: t =>
      have hdec : decodeRune (c :: t ++ rest) = decodeRune (c :: t) := by
        rcases hrest with rfl | ⟨d, r, rfl, hd, _⟩
        · simp
        · exact decodeRune_append_ascii c t d r hd
      have hsz := decodeRune_size c t
      simp only [allRunes, Bool.and_eq_true] at ha
      have hstop : (isSpaceRune cx (decodeRune (c :: t)).1 || isOpR (decodeRune (c :: t)).1) = false := by
        simpa [wordRune] using ha.1
      have hcons : c :: t ++ rest = c :: (t ++ rest) := rfl
      rw [← hcons] at *
      simp only [bareSplit]
      rw [← hcons, hdec]
      simp only [hstop]
      have hdrop : (c :: t ++ rest).drop (decodeRune (c :: t)).2 = (c :: t).drop (decodeRune (c :: t)).2 ++ rest := by
        rw [List.drop_append_of_le_length hsz.2]
      have htake : (c :: t ++ rest).take (decodeRune (c :: t)).2 = (c :: t).take (decodeRune (c :: t)).2 := by
        rw [List.take_append_of_le_length hsz.2]
      have hl : ((c :: t).drop (decodeRune (c :: t)).2).length < f := by
        rw [List.length_drop]; simp at h ⊢; omega
      simp only [Bool.false_eq_true, if_false]
      rw [hdrop, htake, ih _ hl ha.2]
      simp


/-! ### single tokens -/

theorem next_nil (cx : Ctx) (m : Bool) (e : ErrSt) : next cx m [] e = mkTok cx [] 0 [] [] e := by
  simp [next, nextF]

/-- one ASCII space is skipped -/
theorem next_space (cx : Ctx) (m : Bool) (q : Bytes) (e : ErrSt) :
    next cx m (0x20 :: q) e = next cx m q e := by
  have h1 : isStartOpB 0x20 = false := by decide
  have h2 : isSpaceLen cx (0x20 :: q) = 1 := by simp [isSpaceLen]
  simp only [next, List.length_cons]
  rw [nextF]
  simp [h1, h2]

/-- an operator character is a token of its own -/
theorem next_op (cx : Ctx) (m : Bool) (c : UInt8) (r : Bytes) (e : ErrSt) (h : isStartOpB c = true) :
    next cx m (c :: r) e = mkTok cx (c :: r) c [c] r e := by
  simp only [next, List.length_cons]
  rw [nextF]
  simp [h]

/-- the conditions of C07's `bare_word_ok` on a word `c :: t` -/
structure BareOK (cx : Ctx) (m : Bool) (c : UInt8) (t : Bytes) : Prop where
  hop : isStartOpB c = false
  hq : c ≠ cQuote
  hsl : m = true → c ≠ cSlash
  hr : allRunes (wordRune cx) (t.length + 2) (c :: t) = true

/-- `bareWord` on a word followed by a delimiter (or by nothing) -/
theorem next_bareWord (cx : Ctx) (m : Bool) (c : UInt8) (t rest : Bytes) (e : ErrSt)
    (hw : BareOK cx m c t) (hrest : Delim cx rest) :
    next cx m (c :: t ++ rest) e = bareWord cx (c :: t ++ rest) e ∧
    bareSplit cx ((c :: t ++ rest).length + 1) (c :: t ++ rest) = (c :: t, rest) := by
  have hdec : decodeRune (c :: t ++ rest) = decodeRune (c :: t) := by
    rcases hrest with rfl | ⟨d, r, rfl, hd, _⟩
    · simp
    · exact decodeRune_append_ascii c t d r hd
  have hr1 : (isSpaceRune cx (decodeRune (c :: t)).1 || isOpR (decodeRune (c :: t)).1) = false := by
    have := hw.hr
    simp only [allRunes, Bool.and_eq_true] at this
    simpa [wordRune] using this.1
  have hsp : isSpaceLen cx (c :: t ++ rest) = 0 := by
    simp only [Bool.or_eq_false_iff] at hr1
    simp only [List.cons_append, isSpaceLen]
    split
    · rename_i h20
      have : c = 0x20 := by simpa using h20
      subst this
      have := hr1.1
      simp [decodeRune, isSpaceRune] at this
    · have hd' : decodeRune (c :: (t ++ rest)) = decodeRune (c :: t) := hdec
      rw [hd']; simp [hr1.1]
  have hre : (m && c == cSlash) = false := by
    cases m with
    | false => rfl
    | true => simpa using hw.hsl rfl
  constructor
  · simp only [List.cons_append] at hsp ⊢
    simp only [next, List.length_cons]
    rw [nextF]
    simp [hw.hop, hsp, hre, hw.hq]
  · have hfuel : allRunes (wordRune cx) ((c :: t ++ rest).length + 1) (c :: t) = true := by
      exact allRunes_fuel _ _ _ (by simp) hw.hr _
    exact bareSplit_stop cx rest hrest _ (c :: t) (by simp; omega) hfuel


/-! ### words -/

/-- `txt` is a way of writing the word `val` in key (`m = false`) or value (`m = true`) position:
a bare word under the conditions of C07's `bare_word_ok`, or a double-quoted literal whose body is
made of items and which `strconv.Unquote` turns into `val` (e.g. `hexQuote val`, for every `val`).
`kind` is the token kind ('w' or 'q'). -/
inductive Word (cx : Ctx) (m : Bool) : UInt8 → Bytes → Bytes → Prop
  | bare (c : UInt8) (t : Bytes) : BareOK cx m c t → c :: t ≠ wAND → c :: t ≠ wOR →
      Word cx m kW (c :: t) (c :: t)
  | quoted (body val : Bytes) : Items body → unquote (cQuote :: (body ++ [cQuote])) = some val →
      Word cx m kQ (cQuote :: (body ++ [cQuote])) val

theorem Word.hex (cx : Ctx) (m : Bool) (val : Bytes) : Word cx m kQ (hexQuote val) val :=
  Word.quoted _ val (items_hexBody val) (unquote_hexQuote val)

theorem Word.isWord {cx : Ctx} {m : Bool} {k : UInt8} {txt val : Bytes} (h : Word cx m k txt val) :
    Proc.ParseFilter.isWord k = true := by
  cases h <;> decide

theorem Word.ne_nil {cx : Ctx} {m : Bool} {k : UInt8} {txt val : Bytes} (h : Word cx m k txt val) :
    txt ≠ [] := by
  cases h <;> simp

/-- a word followed by a delimiter (or by nothing) is one token carrying its value -/
theorem next_word (cx : Ctx) (m : Bool) {k : UInt8} {txt val : Bytes} (hw : Word cx m k txt val)
    (rest : Bytes) (hrest : Delim cx rest) (e : ErrSt) :
    next cx m (txt ++ rest) e = mkTok cx (txt ++ rest) k val rest e := by
  cases hw with
  | bare c t hb hA hO =>
    obtain ⟨h1, h2⟩ := next_bareWord cx m c t rest e hb hrest
    rw [h1]
    simp only [bareWord, h2]
    simp [hA, hO]
  | quoted body _ hi hu =>
    have hshape : cQuote :: (body ++ [cQuote]) ++ rest = cQuote :: (body ++ cQuote :: rest) := by simp
    rw [hshape, next_quote]
    unfold quotedWord
    simp only [List.drop_succ_cons, List.drop_zero, scanQuote_items hi rest, hu]

theorem bareOK_OR (cx : Ctx) (m : Bool) : BareOK cx m 79 [82] := by
  refine ⟨by decide, by decide, fun _ => by decide, ?_⟩
  simp [allRunes, wordRune, decodeRune, isSpaceRune, isOpR]

theorem bareOK_AND (cx : Ctx) (m : Bool) : BareOK cx m 65 [78, 68] := by
  refine ⟨by decide, by decide, fun _ => by decide, ?_⟩
  simp [allRunes, wordRune, decodeRune, isSpaceRune, isOpR]

/-- the keyword `OR` -/
theorem next_OR (cx : Ctx) (m : Bool) (rest : Bytes) (hrest : Delim cx rest) (e : ErrSt) :
    next cx m (wOR ++ rest) e = mkTok cx (wOR ++ rest) kO wOR rest e := by
  obtain ⟨h1, h2⟩ := next_bareWord cx m 79 [82] rest e (bareOK_OR cx m) hrest
  have : wOR = [79, 82] := rfl
  rw [this, h1]
  simp only [bareWord, h2]
  have e1 : (([79, 82] : Bytes) == wAND) = false := by decide
  have e2 : (([79, 82] : Bytes) == wOR) = true := by decide
  simp [e1, e2]

/-- the keyword `AND` -/
theorem next_AND (cx : Ctx) (m : Bool) (rest : Bytes) (hrest : Delim cx rest) (e : ErrSt) :
    next cx m (wAND ++ rest) e = mkTok cx (wAND ++ rest) kA wAND rest e := by
  obtain ⟨h1, h2⟩ := next_bareWord cx m 65 [78, 68] rest e (bareOK_AND cx m) hrest
  have : wAND = [65, 78, 68] := rfl
  rw [this, h1]
  simp only [bareWord, h2]
  have e1 : (([65, 78, 68] : Bytes) == wAND) = true := by decide
  simp [e1]

theorem delim_space (cx : Ctx) (r : Bytes) : Delim cx (0x20 :: r) :=
  Or.inr ⟨0x20, r, rfl, by decide, by simp [isSpaceRune]⟩

theorem delim_op (cx : Ctx) (c : UInt8) (r : Bytes) (h : isOpR c.toNat = true) (hc : c < 0x80) : Delim cx (c :: r) :=
  Or.inr ⟨c, r, rfl, hc, by simp [h]⟩

theorem delim_rp (cx : Ctx) (r : Bytes) : Delim cx (cRP :: r) := delim_op cx cRP r (by decide) (by decide)
theorem delim_colon (cx : Ctx) (r : Bytes) : Delim cx (cColon :: r) := delim_op cx cColon r (by decide) (by decide)
theorem delim_nil (cx : Ctx) : Delim cx [] := Or.inl rfl

end C06
