/-
C12 — closing the upper bound of the float64 R8 interpolation `a + frac*(b-a) ≤ b`, signs mixed,
on top of the shared float64 library (F64RoundQ / F64Arith, read-only).
-/
import Proofs.Lemmas.F64Arith

namespace F64

/-- value of the rounding of a positive rational -/
def R (q : ℚ) : ℚ := sval (roundQ q)

/-- no overflow when rounding q -/
def NoOv (q : ℚ) : Prop := magBits q.num.natAbs q.den < 0x7FF0000000000000

/-- **the form of a rounded positive rational**: with s the shift of q (q·2^s ∈ [2^52, 2^53) unless
capped at 1074) the result is M·2^-s for a natural M within ½ of q·2^s. -/
theorem posForm (q : ℚ) (hq : 0 < q) (hov : NoOv q) :
    ∃ (s : Int) (M : Nat), s = shiftOf q.num.natAbs q.den ∧ s ≤ 1074 ∧
      q * (2 : ℚ) ^ s < 2 ^ 53 ∧ (s < 1074 → (2 : ℚ) ^ 52 ≤ q * (2 : ℚ) ^ s) ∧
      |(M : ℚ) - q * (2 : ℚ) ^ s| ≤ 1 / 2 ∧ R q = (M : ℚ) * (2 : ℚ) ^ (-s) := by
  have hn : 0 < q.num.natAbs := Int.natAbs_pos.mpr (Rat.num_ne_zero.mpr hq.ne')
  have hd := q.den_pos
  have hqd : ((q.num.natAbs : ℕ) : ℚ) / (q.den : ℚ) = q := by rw [natAbs_div_den, abs_of_pos hq]
  obtain ⟨t1, t2, t3⟩ := shiftOf_specQ q.num.natAbs q.den hn hd
  rw [hqd] at t2 t3
  refine ⟨shiftOf q.num.natAbs q.den,
    rne (scaled q.num.natAbs q.den (shiftOf q.num.natAbs q.den)).1
        (scaled q.num.natAbs q.den (shiftOf q.num.natAbs q.den)).2, rfl, t1, t2, t3, ?_, ?_⟩
  · have := rne_errQ (scaled q.num.natAbs q.den (shiftOf q.num.natAbs q.den)).1
      (scaled q.num.natAbs q.den (shiftOf q.num.natAbs q.den)).2 (scaled_snd_pos _ _ hd)
    rwa [scaled_ratio, hqd] at this
  · unfold R
    rw [sval_roundQ, if_neg (not_lt.mpr hq.le)]
    unfold magQ
    exact val_roundMag _ _ hn hd hov

theorem R_mono {q1 q2 : ℚ} (h : q1 ≤ q2) : R q1 ≤ R q2 := roundQ_mono q1 q2 h

theorem R_zero : R 0 = 0 := by unfold R; rw [roundQ_zero]; exact sval_posZero

theorem R_nonneg {q : ℚ} (h : 0 ≤ q) : 0 ≤ R q := by
  have := R_mono h; rwa [R_zero] at this

/-- monotonicity of the overflow predicate -/
theorem NoOv_of_le {y q : ℚ} (hy : 0 < y) (hyq : y ≤ q) (hov : NoOv q) : NoOv y := by
  have hq : 0 < q := lt_of_lt_of_le hy hyq
  have hny : 0 < y.num.natAbs := Int.natAbs_pos.mpr (Rat.num_ne_zero.mpr hy.ne')
  unfold NoOv at hov ⊢
  have := magBits_mono y.num.natAbs y.den q.num.natAbs q.den hny y.den_pos q.den_pos
    (by rw [frac_le_iff _ _ _ _ y.den_pos q.den_pos, natAbs_div_den, natAbs_div_den, abs_of_pos hy,
          abs_of_pos hq]; exact hyq)
  omega

/-- a power of two 2^52·2^-s (s ≤ 1074) below 2^1024 is a float -/
theorem R_pow (s : Int) (hs : s ≤ 1074) (hov : (2 : ℚ) ^ 52 * (2 : ℚ) ^ (-s) < (2 : ℚ) ^ (1024 : Int)) :
    R ((2 : ℚ) ^ 52 * (2 : ℚ) ^ (-s)) = (2 : ℚ) ^ 52 * (2 : ℚ) ^ (-s) := by
  have hp : (0 : ℚ) < (2 : ℚ) ^ 52 * (2 : ℚ) ^ (-s) := mul_pos (by positivity) (two_zpow_pos _)
  have := roundQ_dyadic ((2 : ℚ) ^ 52 * (2 : ℚ) ^ (-s)) (2 ^ 52) (-s) (by norm_num) (by omega)
    (by rw [abs_of_pos hp]; push_cast; ring) (by rw [abs_of_pos hp]; exact hov)
  exact this.1

/-- **core** — δ > 0 on the grid 2^-1074 whose rounding D = R δ went UP, a factor 0 ≤ f ≤ 1 − 2^-53:
the rounded product R(f·D) is at most δ (it falls on the float below D, which is ≤ δ). -/
theorem round_mul_le (δ f : ℚ) (hδ : 0 < δ) (hov : NoOv δ) (hfin : R δ < (2 : ℚ) ^ (1024 : Int))
    (hgrid : ∃ K : ℕ, δ * (2 : ℚ) ^ (1074 : Int) = K)
    (hup : δ < R δ) (_hf0 : 0 ≤ f) (hf1 : f ≤ 1 - 1 / 2 ^ 53) :
    R (f * R δ) ≤ δ := by
  obtain ⟨s, M, hs, s1, s2, s3, hM, hR⟩ := posForm δ hδ hov
  have hp := two_zpow_pos s
  have hpn := two_zpow_pos (-s)
  have two_ne : (2 : ℚ) ≠ 0 := by norm_num
  have hinv : (2 : ℚ) ^ s * (2 : ℚ) ^ (-s) = 1 := by rw [← zpow_add₀ two_ne, add_neg_cancel, zpow_zero]
  obtain ⟨m, hm⟩ : ∃ m : ℚ, m = δ * (2 : ℚ) ^ s := ⟨_, rfl⟩
  rw [← hm] at s2 s3 hM
  have hδm : δ = m * (2 : ℚ) ^ (-s) := by rw [hm, mul_assoc, hinv, _root_.mul_one]
  -- round-up: M > m
  have hMm : m < M := by
    have : δ < (M : ℚ) * (2 : ℚ) ^ (-s) := by rw [← hR]; exact hup
    rw [hδm] at this
    exact lt_of_mul_lt_mul_right this hpn.le
  have hMle : (M : ℚ) - m ≤ 1 / 2 := by
    have := abs_le.mp hM; linarith [this.2]
  -- s < 1074 (on the grid the rounding is exact)
  have hs' : s < 1074 := by
    by_contra hc
    have hs74 : s = 1074 := by omega
    obtain ⟨K, hK⟩ := hgrid
    have hmK : m = K := by rw [hm, hs74]; exact hK
    -- M is within 1/2 of the integer K and M > K: impossible
    rw [hmK] at hMm hMle
    have h0 : K < M := by exact_mod_cast hMm
    have h1 : (K : ℚ) + 1 ≤ (M : ℚ) := by exact_mod_cast h0
    have h2 : (M : ℚ) - (K : ℚ) ≤ 1 / 2 := hMle
    linarith only [h1, h2]
  have hm52 := s3 hs'
  have hM52 : (2 : ℚ) ^ 52 < M := lt_of_le_of_lt hm52 hMm
  -- y = f·D, scaled: y·2^s = f·M
  obtain ⟨y, hy⟩ : ∃ y : ℚ, y = f * R δ := ⟨_, rfl⟩
  rw [← hy]
  have hyM : y * (2 : ℚ) ^ s = f * M := by
    rw [hy, hR]; rw [mul_assoc, mul_assoc, _root_.mul_comm ((2 : ℚ) ^ (-s)), hinv, _root_.mul_one]
  have hyub : y * (2 : ℚ) ^ s < M - 1 / 2 := by
    rw [hyM]
    have hMpos : (0 : ℚ) < M := lt_trans (by positivity) hM52
    have : f * M ≤ (1 - 1 / 2 ^ 53) * M := mul_le_mul_of_nonneg_right hf1 hMpos.le
    have h2 : (1 : ℚ) / 2 ^ 53 * M > 1 / 2 := by
      have : (1 : ℚ) / 2 ^ 53 * (2 ^ 52) = 1 / 2 := by norm_num
      have h3 : (1 : ℚ) / 2 ^ 53 * (2 : ℚ) ^ 52 < 1 / 2 ^ 53 * M :=
        mul_lt_mul_of_pos_left hM52 (by positivity)
      linarith
    linarith
  have hyδ : y < δ := by
    have : y * (2 : ℚ) ^ s < m := by linarith
    rw [hm] at this
    exact lt_of_mul_lt_mul_right this hp.le
  rcases le_or_gt y 0 with hy0 | hy0
  · have := R_mono hy0; rw [R_zero] at this; linarith
  by_cases hlow : y * (2 : ℚ) ^ s < 2 ^ 52
  · -- below the binade of δ: bounded by the power of two 2^52·2^-s ≤ δ
    have hPδ : (2 : ℚ) ^ 52 * (2 : ℚ) ^ (-s) ≤ δ := by
      rw [hδm]; exact mul_le_mul_of_nonneg_right hm52 hpn.le
    have hyP : y ≤ (2 : ℚ) ^ 52 * (2 : ℚ) ^ (-s) := by
      have : y = y * (2 : ℚ) ^ s * (2 : ℚ) ^ (-s) := by rw [mul_assoc, hinv, _root_.mul_one]
      rw [this]; exact mul_le_mul_of_nonneg_right hlow.le hpn.le
    have hov' : (2 : ℚ) ^ 52 * (2 : ℚ) ^ (-s) < (2 : ℚ) ^ (1024 : Int) :=
      lt_of_le_of_lt hPδ (lt_trans hup hfin)
    calc R y ≤ R ((2 : ℚ) ^ 52 * (2 : ℚ) ^ (-s)) := R_mono hyP
      _ = (2 : ℚ) ^ 52 * (2 : ℚ) ^ (-s) := R_pow s s1 hov'
      _ ≤ δ := hPδ
  · -- same binade: R y = M_y·2^-s with M_y ≤ M − 1 < m
    have hlow' := not_lt.mp hlow
    have hovy : NoOv y := NoOv_of_le hy0 hyδ.le hov
    obtain ⟨sy, My, hsy, _, _, _, hMy, hRy⟩ := posForm y hy0 hovy
    have hny : 0 < y.num.natAbs := Int.natAbs_pos.mpr (Rat.num_ne_zero.mpr hy0.ne')
    have hqd : ((y.num.natAbs : ℕ) : ℚ) / (y.den : ℚ) = y := by rw [natAbs_div_den, abs_of_pos hy0]
    have hsy' : sy = s := by
      rw [hsy]
      apply shiftOf_uniqueQ _ _ hny y.den_pos s s1
      · rw [hqd]
        have : (M : ℚ) ≤ 2 ^ 53 := by
          have := abs_le.mp hM
          have h1 : (M : ℚ) < 2 ^ 53 + 1 := by linarith [this.2]
          have h2 : M < 2 ^ 53 + 1 := by exact_mod_cast h1
          have h3 : M ≤ 2 ^ 53 := by omega
          exact_mod_cast h3
        linarith
      · intro _; rw [hqd]; exact hlow'
    rw [hsy'] at hMy hRy
    have hMyM : (My : ℚ) + 1 ≤ M := by
      have := abs_le.mp hMy
      have h1 : (My : ℚ) < M := by linarith [this.2]
      exact_mod_cast h1
    rw [hRy, hδm]
    apply mul_le_mul_of_nonneg_right _ hpn.le
    linarith


/-! ### assembling the float statement -/

theorem R_sval (x : Bits) (hf : isFinite x = true) : R (sval x) = sval x := by
  unfold R
  cases hz : isZero x
  · rw [roundQ_exact x hf hz]
  · rw [sval_eq_zero_of_isZero hz, roundQ_zero, sval_posZero]

theorem val_lt_two_1024 (x : Bits) (hf : isFinite x = true) : val x < (2 : ℚ) ^ (1024 : Int) := by
  have h1 : expField x ≠ 2047 := by
    unfold isFinite at hf; simpa using hf
  have h2 := expField_lt x
  have := val_lt_of_expField x 972 (by omega) (by norm_num)
  simpa using this

/-- every finite float is an integer multiple of 2^-1074 -/
theorem sval_grid (x : Bits) : ∃ k : ℤ, sval x * (2 : ℚ) ^ (1074 : Int) = k := by
  have two_ne : (2 : ℚ) ≠ 0 := by norm_num
  have he := expo_ge x
  have hv : val x * (2 : ℚ) ^ (1074 : Int) = ((mant x * 2 ^ (expo x + 1074).toNat : Nat) : ℚ) := by
    unfold val
    rw [mul_assoc, ← zpow_add₀ two_ne]
    push_cast
    rw [← zpow_natCast, Int.toNat_of_nonneg (by omega)]
  unfold sval
  split
  · exact ⟨-((mant x * 2 ^ (expo x + 1074).toNat : Nat) : ℤ), by rw [neg_mul, hv]; push_cast; ring⟩
  · exact ⟨((mant x * 2 ^ (expo x + 1074).toNat : Nat) : ℤ), by rw [hv]; push_cast; ring⟩

theorem magQ_toNat (q : ℚ) : (magQ q).toNat = magOf (magQ q) := by
  have := toNat_decomp_full (magQ q)
  rw [magQ_signBit] at this
  simpa using this

/-- a finite float below 1 (and ≥ 0) is at most 1 − 2^-53 -/
theorem sval_le_pred_one (f : Bits) (h0 : 0 ≤ sval f) (h1 : sval f < 1) :
    sval f ≤ 1 - 1 / 2 ^ 53 := by
  have hv : val f = sval f := by rw [← abs_sval, abs_of_nonneg h0]
  have hone : val one = 1 := by
    have h1 : mant one = 2 ^ 52 := by decide
    have h2 : expo one = -52 := by decide
    unfold val; rw [h1, h2]; norm_num
  have hp : val (0x3FEFFFFFFFFFFFFF : Bits) = 1 - 1 / 2 ^ 53 := by
    have h1 : mant (0x3FEFFFFFFFFFFFFF : Bits) = 2 ^ 53 - 1 := by decide
    have h2 : expo (0x3FEFFFFFFFFFFFFF : Bits) = -53 := by decide
    unfold val; rw [h1, h2]; norm_num
  have hlt : val f < val one := by rw [hv, hone]; exact h1
  rw [val_lt_iff] at hlt
  have m1 : magOf one = 0x3FF0000000000000 := by decide
  have m2 : magOf (0x3FEFFFFFFFFFFFFF : Bits) = 0x3FEFFFFFFFFFFFFF := by decide
  have : val f ≤ val (0x3FEFFFFFFFFFFFFF : Bits) := by
    rw [val_le_iff, m2]; omega
  rw [← hv, ← hp]; exact this

/-- the product of a finite float with a factor of magnitude ≤ 1 is finite -/
theorem mul_isFinite_of_le_one (f d : Bits) (hf : isFinite f = true) (hd : isFinite d = true)
    (h1 : val f ≤ 1) : isFinite (mul f d) = true := by
  cases zf : isZero f
  · cases zd : isZero d
    · rw [mul_eq f d hf hd zf zd]
      have hfin : isFinite (magQ (sval f * sval d)) = true := by
        apply isFinite_of_toNat_lt
        have hm := magQ_mono (sval f * sval d) (sval d) (by
          rw [abs_mul, abs_sval, abs_sval]
          have := val_nonneg d
          nlinarith)
        have hdd : magOf (magQ (sval d)) = magOf d := by
          have := roundQ_exact d hd zd
          rw [roundQ_eq] at this
          split at this
          · have e := congrArg magOf this
            rw [magOf_neg] at e; exact e
          · rw [this]
        have := (isFinite_iff d).mp hd
        rw [magQ_toNat] at hm ⊢
        rw [magQ_toNat, hdd] at hm
        omega
      rw [roundQ_eq]; split
      · rw [isFinite_neg]; exact hfin
      · exact hfin
    · unfold mul
      simp only [isNaN_of_finite hf, isNaN_of_finite hd, isInf_of_finite hf, isInf_of_finite hd, zd,
        Bool.or_self, Bool.or_true, Bool.false_eq_true, if_false, if_true]
      cases (signBit f != signBit d) <;> decide
  · unfold mul
    simp only [isNaN_of_finite hf, isNaN_of_finite hd, isInf_of_finite hf, isInf_of_finite hd, zf,
      Bool.or_self, Bool.true_or, Bool.false_eq_true, if_false, if_true]
    cases (signBit f != signBit d) <;> decide


/-- **interp_bounded** — for finite floats a ≤ b of ANY signs whose difference does not overflow,
and a finite fraction 0 ≤ frac < 1, the float64 value of `a + frac*(b - a)` lies in [a, b]. -/
theorem interp_bounded (a b frac : Bits) (ha : isFinite a = true) (hb : isFinite b = true)
    (hab : sval a ≤ sval b) (hd : isFinite (sub b a) = true) (hfr : isFinite frac = true)
    (hf0 : 0 ≤ sval frac) (hf1 : sval frac < 1) :
    sval a ≤ sval (add a (mul frac (sub b a))) ∧ sval (add a (mul frac (sub b a))) ≤ sval b ∧
    isNaN (add a (mul frac (sub b a))) = false := by
  have hD : sval (sub b a) = R (sval b - sval a) := sval_sub b a hb ha
  have hvf : val frac ≤ 1 := by rw [← abs_sval, abs_of_nonneg hf0]; exact hf1.le
  have htf := mul_isFinite_of_le_one frac (sub b a) hfr hd hvf
  have hst : sval (mul frac (sub b a)) = R (sval frac * R (sval b - sval a)) := by
    rw [sval_mul frac (sub b a) hfr hd, hD]; rfl
  have hfle := sval_le_pred_one frac hf0 hf1
  obtain ⟨δ, hδ⟩ : ∃ δ : ℚ, δ = sval b - sval a := ⟨_, rfl⟩
  rw [← hδ] at hD hst
  have hδ0 : 0 ≤ δ := by rw [hδ]; linarith
  have hR0 : 0 ≤ R δ := R_nonneg hδ0
  have ht0 : 0 ≤ R (sval frac * R δ) := R_nonneg (mul_nonneg hf0 hR0)
  have htub : R (sval frac * R δ) ≤ δ := by
    rcases eq_or_lt_of_le hδ0 with h0 | hpos
    · rw [← h0, R_zero, mul_zero, R_zero]
    · by_cases hup : δ < R δ
      · -- no overflow, finiteness and the grid property of δ
        have hne : sval b + sval (neg a) ≠ 0 := by rw [sval_neg]; rw [hδ] at hpos; linarith
        have hdq : sub b a = magQ δ := by
          rw [sub_eq b a (isNaN_of_finite ha),
            add_eq b (neg a) hb (by rw [isFinite_neg]; exact ha), if_neg hne, sval_neg,
            ← sub_eq_add_neg, ← hδ, roundQ_of_nonneg δ hδ0]
        have hov : NoOv δ := by
          have h1 := (isFinite_iff (sub b a)).mp hd
          rw [hdq, ← magQ_toNat] at h1
          have hn : 0 < δ.num.natAbs := Int.natAbs_pos.mpr (Rat.num_ne_zero.mpr hpos.ne')
          unfold magQ at h1
          rw [roundMag_toNat _ _ hn δ.den_pos] at h1
          unfold NoOv; omega
        have hfin : R δ < (2 : ℚ) ^ (1024 : Int) := by
          rw [← hD]
          calc sval (sub b a) ≤ |sval (sub b a)| := le_abs_self _
            _ = val (sub b a) := abs_sval _
            _ < _ := val_lt_two_1024 _ hd
        have hgrid : ∃ K : ℕ, δ * (2 : ℚ) ^ (1074 : Int) = K := by
          obtain ⟨ka, hka⟩ := sval_grid a
          obtain ⟨kb, hkb⟩ := sval_grid b
          have hk : δ * (2 : ℚ) ^ (1074 : Int) = ((kb - ka : ℤ) : ℚ) := by
            rw [hδ, sub_mul, hka, hkb]; push_cast; ring
          have hkpos : (0 : ℚ) ≤ ((kb - ka : ℤ) : ℚ) := by
            rw [← hk]; exact mul_nonneg hδ0 (two_zpow_pos _).le
          have hk0 : 0 ≤ kb - ka := by exact_mod_cast hkpos
          refine ⟨(kb - ka).toNat, ?_⟩
          rw [hk]
          have : ((kb - ka).toNat : ℤ) = kb - ka := Int.toNat_of_nonneg hk0
          exact_mod_cast this.symm
        exact round_mul_le δ (sval frac) hpos hov hfin hgrid hup hf0 hfle
      · have hle : R δ ≤ δ := not_lt.mp hup
        have h1 : sval frac * R δ ≤ R δ := by nlinarith
        calc R (sval frac * R δ) ≤ R (R δ) := R_mono h1
          _ = R δ := by rw [← hD, R_sval _ hd]
          _ ≤ δ := hle
  have hsr : sval (add a (mul frac (sub b a))) = R (sval a + sval (mul frac (sub b a))) :=
    sval_add a _ ha htf
  rw [hsr, hst]
  refine ⟨?_, ?_, add_isNaN a _ ha htf⟩
  · calc sval a = R (sval a) := (R_sval a ha).symm
      _ ≤ _ := R_mono (by linarith)
  · calc R (sval a + R (sval frac * R δ)) ≤ R (sval a + δ) := R_mono (by linarith)
      _ = R (sval b) := by rw [hδ]; congr 1; ring
      _ = sval b := R_sval b hb

end F64
