/-
Helper lemmas for C05: the algorithmic model of Name.Parts equals the independent specification.
-/
import Model.Fmt.Name
import Model.Spec.Name

namespace C05
open Bytes Fmt.Name

theorem dash_not_digit : isDigit dash = false := by decide

theorem isDigit_of_eq_dash {c : UInt8} (h : (c == dash) = true) : isDigit c = false := by
  have : c = dash := by simpa using h
  subst this; exact dash_not_digit

/-- `splitGoAux` in closed form. -/
theorem splitGoAux_closed (rev suf : Bytes) :
    splitGoAux rev suf =
      match rev.dropWhile isDigit with
      | c :: r =>
        if c == dash && !(suf.isEmpty && (rev.takeWhile isDigit).isEmpty)
        then some (r.reverse, c :: ((rev.takeWhile isDigit).reverse ++ suf)) else none
      | [] => none := by
  induction rev generalizing suf with
  | nil => simp [splitGoAux]
  | cons c rest ih =>
    unfold splitGoAux
    by_cases h1 : (c == dash && !suf.isEmpty) = true
    · have hd : isDigit c = false := isDigit_of_eq_dash (by simp at h1; simp [h1.1])
      simp only [h1, if_true]
      simp [List.dropWhile_cons, List.takeWhile_cons, hd]
      simp at h1
      simp [h1]
    · simp only [h1]
      by_cases hd : isDigit c = true
      · simp only [hd, if_true]
        rw [ih]
        simp [List.dropWhile_cons, List.takeWhile_cons, hd]
      · have hd' : isDigit c = false := by simpa using hd
        simp [List.dropWhile_cons, List.takeWhile_cons, hd']
        intro hc
        simp [hc] at h1
        simp [h1]

theorem splitGomaxprocs_eq_spec (n : Bytes) :
    splitGomaxprocs n = Spec.Name.gmpSplit n := by
  unfold splitGomaxprocs Spec.Name.gmpSplit
  rw [splitGoAux_closed]
  cases h : n.reverse.dropWhile isDigit with
  | nil => simp
  | cons c r =>
    simp only
    by_cases hc : (c == dash && !(n.reverse.takeWhile isDigit).isEmpty) = true
    · have hc' := hc
      simp only [Bool.and_eq_true] at hc'
      simp [hc'.1, hc'.2, Spec.Name.dash, dash] at *
    · simp at hc
      by_cases hcd : c = dash
      · subst hcd
        have := hc rfl
        simp [this, Spec.Name.dash, dash]
      · simp [hcd, Spec.Name.dash, dash] at *


/-- tail of the '/'-split: the '/'-introduced pieces -/
def T (b : Bytes) : List Bytes := (splitSlash b).tail

theorem splitSlash_head (b : Bytes) :
    splitSlash b = b.takeWhile (· != slash) :: T b := by
  unfold T
  induction b with
  | nil => simp [splitSlash]
  | cons c r ih =>
    unfold splitSlash
    rw [ih]
    by_cases hc : c = slash
    · subst hc; simp [List.takeWhile_cons]
    · have : (c == slash) = false := by simpa using hc
      simp [this, List.takeWhile_cons, hc]

theorem T_cons (c : UInt8) (r : Bytes) :
    T (c :: r) = if c == slash then (c :: r.takeWhile (· != slash)) :: T r else T r := by
  unfold T
  conv => lhs; unfold splitSlash
  rw [splitSlash_head r]
  by_cases hc : (c == slash) = true <;> simp [hc, T]

theorem T_dropWhile (b : Bytes) : T b = T (b.dropWhile (· != slash)) := by
  induction b with
  | nil => simp
  | cons c r ih =>
    by_cases hc : c = slash
    · subst hc; simp [List.dropWhile_cons]
    · have h1 : (c == slash) = false := by simpa using hc
      rw [T_cons, h1]
      simp only [List.dropWhile_cons, bne_iff_ne, ne_eq, hc, not_false_eq_true, decide_true, if_true]
      simpa using ih

theorem dropWhile_head_slash (r : Bytes) (c' : UInt8) (r' : Bytes)
    (h : r.dropWhile (· != slash) = c' :: r') : c' = slash := by
  induction r with
  | nil => simp at h
  | cons a t ih =>
    by_cases ha : a = slash
    · subst ha; simp [List.dropWhile_cons] at h; exact h.1.symm
    · simp [List.dropWhile_cons, ha] at h; exact ih h

theorem length_dropWhile_le' (p : UInt8 → Bool) (r : Bytes) : (r.dropWhile p).length ≤ r.length := by
  induction r with
  | nil => simp
  | cons a t ih => simp only [List.dropWhile_cons]; split <;> simp <;> omega

theorem go_eq_T (fuel : Nat) (x : Bytes) (hlen : x.length ≤ fuel)
    (hhead : ∀ c r, x = c :: r → c = slash) :
    Spec.Name.segments.go fuel x = T x := by
  induction fuel generalizing x with
  | zero =>
    have : x = [] := by cases x <;> simp_all
    subst this; simp [Spec.Name.segments.go, T, splitSlash]
  | succ f ih =>
    cases x with
    | nil => simp [Spec.Name.segments.go, T, splitSlash]
    | cons c r =>
      have hc := hhead c r rfl
      subst hc
      unfold Spec.Name.segments.go
      rw [T_cons]
      simp only [beq_self_eq_true, if_true]
      rw [T_dropWhile r]
      have hl : (r.dropWhile (· != slash)).length ≤ f := by
        have := length_dropWhile_le' (· != slash) r
        simp at hlen; omega
      rw [ih _ hl (fun c' r' h => dropWhile_head_slash r c' r' h)]

theorem splitSlash_eq_spec (b : Bytes) :
    splitSlash b = (Spec.Name.segments b).1 :: (Spec.Name.segments b).2 := by
  rw [splitSlash_head]
  unfold Spec.Name.segments
  simp only
  rw [T_dropWhile, go_eq_T _ _ (length_dropWhile_le' _ b) (fun c' r' h => dropWhile_head_slash b c' r' h)]

end C05
