/-
C03: `atof64exact` returns the correctly rounded value whenever it answers.
-/
import Proofs.Lemmas.C03Exact

namespace C03
open Num F64

theorem ofInt_nat (m : Nat) (h0 : 0 < m) (h53 : m < 2 ^ 53) :
    ∃ x, PosFin x ∧ val x = (m : ℚ) ∧ ofInt (m : Int) = x ∧
      ∀ n d : Nat, 0 < d → (n : ℚ) / d = m → roundMag n d = x := by
  obtain ⟨x, hx, hv, hr⟩ := exists_float_of_nat m h0 h53
  refine ⟨x, hx, hv, ?_, hr⟩
  unfold ofInt
  have e1 : ((m : Int) == 0) = false := by simp; omega
  have e2 : decide ((m : Int) < 0) = false := by simp
  simp only [e1, Bool.false_eq_true, if_false, e2, Int.natAbs_natCast, roundRat_false]
  exact hr m 1 (by decide) (by simp)

/-- decidable form of "finite, positive, value exactly 10^k" -/
def tableOK (k : Nat) : Bool :=
  decide (0 < (float64pow10 k).toNat) && decide ((float64pow10 k).toNat < 0x7FF0000000000000) &&
  decide ((toFrac (mant (float64pow10 k)) (expo (float64pow10 k))).1
          = 10 ^ k * (toFrac (mant (float64pow10 k)) (expo (float64pow10 k))).2)

theorem table_all : ∀ k, k < 23 → tableOK k = true := by decide +kernel

theorem pow10_float (k : Nat) (hk : k < 23) : PosFin (float64pow10 k) ∧ val (float64pow10 k) = (10 : ℚ) ^ k := by
  have := table_all k hk
  unfold tableOK at this
  simp only [Bool.and_eq_true, decide_eq_true_eq] at this
  obtain ⟨⟨h1, h2⟩, h3⟩ := this
  refine ⟨⟨h1, h2⟩, ?_⟩
  unfold val
  rw [← toFrac_ratio, h3]
  have hp : ((toFrac (mant (float64pow10 k)) (expo (float64pow10 k))).2 : ℚ) ≠ 0 := by
    exact_mod_cast (toFrac_snd_pos _ _).ne'
  push_cast
  field_simp

/-- `F64.ofDecimal` of a positive mantissa, by the sign of the exponent -/
theorem ofDecimal_pos (neg : Bool) (m : Nat) (e : Int) (h0 : 0 < m) :
    ofDecimal neg m e = signed neg (if e ≥ 0 then roundMag (m * 10 ^ e.toNat) 1 else roundMag m (10 ^ (-e).toNat)) := by
  unfold ofDecimal
  have : (m == 0) = false := by simp; omega
  simp only [this, Bool.false_eq_true, if_false, roundRat_eq_signed]
  split <;> rfl

/-- any fraction with value m·10^e rounds to the magnitude of `ofDecimal _ m e` -/
theorem roundMag_eq_ofDecimal (neg : Bool) (m : Nat) (e : Int) (h0 : 0 < m) (n d : Nat) (hd : 0 < d)
    (h : (n : ℚ) / d = (m : ℚ) * (10 : ℚ) ^ e) : signed neg (roundMag n d) = ofDecimal neg m e := by
  rw [ofDecimal_pos neg m e h0]
  congr 1
  split
  · rename_i he
    apply roundMag_congrQ n d _ 1 hd (by decide)
    rw [h]
    obtain ⟨k, rfl⟩ := Int.eq_ofNat_of_zero_le he
    simp [zpow_natCast]
  · rename_i he
    apply roundMag_congrQ n d _ _ hd (Nat.pow_pos (by decide))
    rw [h]
    obtain ⟨k, hk⟩ := Int.eq_ofNat_of_zero_le (show 0 ≤ -e by omega)
    have : e = -(k : Int) := by omega
    subst this
    simp [zpow_neg, zpow_natCast, div_eq_mul_inv]

/-- one multiplication of an exact integer operand by an exact power of ten -/
theorem mul_exact (neg : Bool) (x p : Bits) (hx : PosFin x) (hp : PosFin p) (m k : Nat) (h0 : 0 < m)
    (hvx : val x = (m : ℚ)) (hvp : val p = (10 : ℚ) ^ k) :
    mul (signed neg x) p = ofDecimal neg m (k : Int) := by
  rw [mul_signed neg x p hx hp]
  apply roundMag_eq_ofDecimal neg m k h0 _ _ (toFrac_snd_pos _ _)
  rw [mul_frac_val, hvx, hvp, zpow_natCast]

/-- one division of an exact integer operand by an exact power of ten -/
theorem div_exact (neg : Bool) (x p : Bits) (hx : PosFin x) (hp : PosFin p) (m k : Nat) (h0 : 0 < m)
    (hvx : val x = (m : ℚ)) (hvp : val p = (10 : ℚ) ^ k) :
    div (signed neg x) p = ofDecimal neg m (-(k : Int)) := by
  rw [div_signed neg x p hx hp]
  apply roundMag_eq_ofDecimal neg m _ h0 _ _ (scaled_snd_pos _ _ hp.mant_pos)
  rw [div_frac_val _ _ hp, hvx, hvp, zpow_neg, zpow_natCast, div_eq_mul_inv]

theorem isNaN_false_of_le (y : Bits) (h : y.toNat ≤ 0x7FF0000000000000) : isNaN y = false := by
  unfold isNaN
  rw [expField_eq, fracField_eq]
  simp only [Bool.and_eq_false_iff, beq_eq_false_iff_ne, bne_eq_false_iff_eq]
  by_cases he : y.toNat / 2 ^ 52 % 2 ^ 11 = 2047
  · right; omega
  · left; exact he

theorem f1e15_posFin : PosFin f1e15 := by
  unfold PosFin; decide +kernel

theorem above_1e15 : f1e15.toNat < (roundMag (10 ^ 15 + 1) 1).toNat := by decide +kernel

/-- the `f > 1e15 || f < -1e15` test fires on every float whose magnitude pattern exceeds 1e15's -/
theorem check_true (neg : Bool) (y : Bits) (hy1 : f1e15.toNat < y.toNat) (hy2 : y.toNat ≤ 0x7FF0000000000000) :
    (F64.lt f1e15 (signed neg y) || F64.lt (signed neg y) (F64.neg f1e15)) = true := by
  have hf := f1e15_posFin
  have hy63 : y.toNat < 2 ^ 63 := by omega
  have hyn := isNaN_false_of_le y hy2
  cases neg
  · have : F64.lt f1e15 (signed false y) = true := by
      unfold F64.lt signed
      simp only [Bool.false_eq_true, if_false, hf.isNaN, hyn, hf.isZero, hf.signBit, (signBit_false_iff y).mpr hy63,
        Bool.or_self, Bool.false_and, decide_eq_true_eq, UInt64.lt_iff_toNat_lt]
      exact hy1
    simp [this]
  · have : F64.lt (signed true y) (F64.neg f1e15) = true := by
      rw [neg_eq_signed f1e15 hf.lt63]
      obtain ⟨e1, e2, e3⟩ := signed_fields true y hy63
      obtain ⟨b1, _, b3, _, _, b6⟩ := signed_class true f1e15 hf
      have an : isNaN (signed true y) = false := by
        unfold isNaN at hyn ⊢; rw [e1, e2]; exact hyn
      unfold F64.lt
      simp only [an, b1, b3, e3, b6, Bool.or_self, Bool.and_false, Bool.false_eq_true, if_false,
        decide_eq_true_eq, UInt64.lt_iff_toNat_lt]
      have t1 : (signed true y).toNat = 2 ^ 63 + y.toNat := or_negZero_toNat y hy63
      have t2 : (signed true f1e15).toNat = 2 ^ 63 + f1e15.toNat := or_negZero_toNat f1e15 hf.lt63
      omega
    simp [this]

/-- if the test does not fire after the pre-scale by 10^j, the scaled integer is at most 10^15 -/
theorem prescale_small (neg : Bool) (x p : Bits) (hx : PosFin x) (hp : PosFin p) (m j : Nat)
    (hvx : val x = (m : ℚ)) (hvp : val p = (10 : ℚ) ^ j)
    (hc : (F64.lt f1e15 (mul (signed neg x) p) || F64.lt (mul (signed neg x) p) (F64.neg f1e15)) = false) :
    m * 10 ^ j ≤ 10 ^ 15 := by
  apply Classical.byContradiction
  intro hgt
  have hge : 10 ^ 15 + 1 ≤ m * 10 ^ j := by omega
  rw [mul_signed neg x p hx hp] at hc
  generalize hn : (toFrac (mant x * mant p) (expo x + expo p)).1 = n at hc
  generalize hdd : (toFrac (mant x * mant p) (expo x + expo p)).2 = d at hc
  have hd : 0 < d := by rw [← hdd]; exact toFrac_snd_pos _ _
  have hv : (n : ℚ) / d = ((m * 10 ^ j : Nat) : ℚ) := by
    rw [← hn, ← hdd, mul_frac_val, hvx, hvp]; push_cast; ring
  have hnd : n = m * 10 ^ j * d := by
    have hdq : (d : ℚ) ≠ 0 := by exact_mod_cast hd.ne'
    rw [div_eq_iff hdq] at hv
    exact_mod_cast hv
  have hmono := roundMag_mono (10 ^ 15 + 1) 1 n d (by decide) (by decide) hd
    (by rw [hnd, Nat.mul_one]; exact Nat.mul_le_mul_right d hge)
  have := check_true neg (roundMag n d) (Nat.lt_of_lt_of_le above_1e15 hmono) (roundMag_le_inf n d)
  rw [this] at hc; cases hc

theorem zero_class (s : Bool) : isNaN (zero s) = false ∧ isInf (zero s) = false ∧ isZero (zero s) = true ∧
    signBit (zero s) = s ∧ ofInt 0 = zero false ∧ F64.neg (zero false) = zero true := by
  cases s <;> decide

theorem mul_zero_left (s : Bool) (p : Bits) (hp : PosFin p) : mul (zero s) p = zero s := by
  obtain ⟨a1, a2, a3, a4, _, _⟩ := zero_class s
  unfold mul
  simp [a1, a2, a3, a4, hp.isNaN, hp.isInf, hp.signBit]

theorem div_zero_left (s : Bool) (p : Bits) (hp : PosFin p) : div (zero s) p = zero s := by
  obtain ⟨a1, a2, a3, a4, _, _⟩ := zero_class s
  unfold div
  simp [a1, a2, a3, a4, hp.isNaN, hp.isInf, hp.isZero, hp.signBit]

theorem shr52 (m : Nat) (h : m >>> 52 = 0) : m < 2 ^ 52 := by
  rw [Nat.shiftRight_eq_div_pow] at h
  exact (Nat.div_eq_zero_iff_lt (by decide)).mp h

/-- **atof64exact is correct whenever it answers.** -/
theorem atof64exact_correct (m : Nat) (exp : Int) (neg : Bool) (v : Bits)
    (h : atof64exact m exp neg = some v) : v = ofDecimal neg m exp := by
  unfold atof64exact at h
  by_cases hm : m >>> 52 = 0
  swap
  · simp [hm] at h
  have hlt := shr52 m hm
  simp only [hm, bne_self_eq_false, Bool.false_eq_true, if_false] at h
  -- the operand f = ±float64(m)
  rcases Nat.eq_zero_or_pos m with h0 | h0
  · -- mantissa 0: every branch yields ±0
    subst h0
    obtain ⟨_, _, _, _, z1, z2⟩ := zero_class neg
    have hf : (if neg = true then F64.neg (ofInt ((0 : Nat) : Int)) else ofInt ((0 : Nat) : Int)) = zero neg := by
      cases neg
      · simpa using z1
      · simp only [if_true]; rw [show ((0 : Nat) : Int) = 0 from rfl, z1, z2]
    rw [hf] at h
    have hod : ofDecimal neg 0 exp = zero neg := by simp [ofDecimal]
    rw [hod]
    by_cases e0 : exp = 0
    · subst e0; simp at h; exact h.symm
    · have e0' : (exp == 0) = false := by simpa using e0
      simp only [e0', Bool.false_eq_true, if_false] at h
      by_cases hp : exp > 0 ∧ exp ≤ 15 + 22
      · simp only [hp.1, hp.2, decide_true, Bool.and_self, if_true] at h
        by_cases h22 : exp > 22
        · simp only [h22, if_true] at h
          have hj : (exp - 22).toNat < 23 := by omega
          rw [mul_zero_left neg _ (pow10_float _ hj).1] at h
          split at h
          · cases h
          · injection h with h; rw [← h]
            exact mul_zero_left neg _ (pow10_float 22 (by decide)).1
        · simp only [h22, if_false] at h
          split at h
          · cases h
          · injection h with h; rw [← h]
            exact mul_zero_left neg _ (pow10_float _ (by omega)).1
      · have : (decide (exp > 0) && decide (exp ≤ 15 + 22)) = false := by
          simp only [Bool.and_eq_false_iff, decide_eq_false_iff_not]
          by_cases a : exp > 0
          · right; exact fun b => hp ⟨a, b⟩
          · left; exact a
        simp only [this, Bool.false_eq_true, if_false] at h
        split at h
        · injection h with h; rw [← h]
          exact div_zero_left neg _ (pow10_float _ (by rename_i hc; simp at hc; omega)).1
        · cases h
  · obtain ⟨x, hx, hvx, hox, hrx⟩ := ofInt_nat m h0 (by omega)
    have hf : (if neg = true then F64.neg (ofInt (m : Int)) else ofInt (m : Int)) = signed neg x := by
      rw [hox]
      cases neg
      · rfl
      · simp only [if_true]; exact neg_eq_signed x hx.lt63
    rw [hf] at h
    by_cases e0 : exp = 0
    · subst e0
      simp only [BEq.rfl, if_true, Option.some.injEq] at h
      rw [← h]
      have := roundMag_eq_ofDecimal neg m 0 h0 m 1 (by decide) (by simp)
      rw [hrx m 1 (by decide) (by simp)] at this
      exact this
    · have e0' : (exp == 0) = false := by simpa using e0
      simp only [e0', Bool.false_eq_true, if_false] at h
      by_cases hp : exp > 0 ∧ exp ≤ 15 + 22
      · simp only [hp.1, hp.2, decide_true, Bool.and_self, if_true] at h
        by_cases h22 : exp > 22
        · simp only [h22, if_true] at h
          have hj : (exp - 22).toNat < 23 := by omega
          obtain ⟨pj1, pj2⟩ := pow10_float _ hj
          obtain ⟨q1, q2⟩ := pow10_float 22 (by decide)
          split at h
          · cases h
          · rename_i hc
            simp only [Bool.not_eq_true] at hc
            injection h with h; rw [← h]
            have hsmall := prescale_small neg x _ hx pj1 m _ hvx pj2 hc
            obtain ⟨x1, hx1, hvx1, _, hrx1⟩ := ofInt_nat (m * 10 ^ (exp - 22).toNat)
              (Nat.mul_pos h0 (Nat.pow_pos (by decide))) (by
                have : (10 : Nat) ^ 15 < 2 ^ 53 := by decide
                omega)
            -- the pre-scaled operand is exact
            have hpre : mul (signed neg x) (float64pow10 (exp - 22).toNat) = signed neg x1 := by
              rw [mul_signed neg x _ hx pj1]
              congr 1
              apply hrx1 _ _ (toFrac_snd_pos _ _)
              rw [mul_frac_val, hvx, pj2]; push_cast; ring
            rw [hpre, show Int.toNat 22 = 22 from rfl, mul_exact neg x1 _ hx1 q1 _ 22 (Nat.mul_pos h0 (Nat.pow_pos (by decide))) hvx1 q2]
            -- m·10^j · 10^22 = m · 10^exp
            rw [ofDecimal_pos neg _ _ (Nat.mul_pos h0 (Nat.pow_pos (by decide)))]
            simp only [show ((22 : Nat) : Int) ≥ 0 by omega, if_true]
            apply roundMag_eq_ofDecimal neg m exp h0 _ 1 (by decide)
            have hexp : exp = ((exp - 22).toNat : Int) + 22 := by omega
            generalize (exp - 22).toNat = j at *
            rw [hexp, zpow_add₀ (by norm_num : (10 : ℚ) ≠ 0), zpow_natCast]
            push_cast
            simp
            ring
        · simp only [h22, if_false] at h
          split at h
          · cases h
          · injection h with h; rw [← h]
            have hk : exp.toNat < 23 := by omega
            obtain ⟨p1, p2⟩ := pow10_float _ hk
            rw [mul_exact neg x _ hx p1 m _ h0 hvx p2]
            congr 1; omega
      · have : (decide (exp > 0) && decide (exp ≤ 15 + 22)) = false := by
          simp only [Bool.and_eq_false_iff, decide_eq_false_iff_not]
          by_cases a : exp > 0
          · right; exact fun b => hp ⟨a, b⟩
          · left; exact a
        simp only [this, Bool.false_eq_true, if_false] at h
        split at h
        · rename_i hc
          simp only [Bool.and_eq_true, decide_eq_true_eq] at hc
          injection h with h; rw [← h]
          have hk : (-exp).toNat < 23 := by omega
          obtain ⟨p1, p2⟩ := pow10_float _ hk
          rw [div_exact neg x _ hx p1 m _ h0 hvx p2]
          congr 1; omega
        · cases h

end C03
