/-
C20 helper lemmas: the file-store side of a successful upload (files part of success_complete).
-/
import Proofs.Lemmas.C20Base
namespace C20
open Storage.Upload

def Paths (s : Store) : List Path := s.map Prod.fst

theorem remove_paths_nodup {s : Store} (p : Path) (h : (Paths s).Nodup) : (Paths (s.remove p)).Nodup := by
  unfold Paths Store.remove
  exact h.sublist (List.Sublist.map _ List.filter_sublist)

theorem put_paths_nodup {s : Store} (p : Path) (c : Bytes) (h : (Paths s).Nodup) : (Paths (s.put p c)).Nodup := by
  unfold Store.put Paths
  rw [List.map_append, List.nodup_append]
  refine ⟨remove_paths_nodup p h, by simp, ?_⟩
  intro a ha b hb
  simp at hb; subst hb
  intro hab; subst hab
  exact not_mem_paths_remove s _ ha

/-- only names satisfying `P` are touched -/
def FsOnly (P : Path → Prop) (a b : Store) : Prop :=
  (∀ e ∈ b, e ∈ a ∨ P e.1) ∧ (∀ e ∈ a, ¬ P e.1 → e ∈ b)

theorem FsOnly.refl (P : Path → Prop) (a : Store) : FsOnly P a a := ⟨fun _ h => Or.inl h, fun _ h _ => h⟩

theorem FsOnly.trans {P : Path → Prop} {a b c : Store} (h1 : FsOnly P a b) (h2 : FsOnly P b c) : FsOnly P a c := by
  refine ⟨fun e he => ?_, fun e he hk => h2.2 e (h1.2 e he hk) hk⟩
  rcases h2.1 e he with h | h
  · exact h1.1 e h
  · exact Or.inr h

theorem FsOnly.mono {P Q : Path → Prop} {a b : Store} (hpq : ∀ p, P p → Q p) (h : FsOnly P a b) : FsOnly Q a b :=
  ⟨fun e he => (h.1 e he).imp id (hpq _), fun e he hq => h.2 e he (fun hp => hq (hpq _ hp))⟩

theorem FsOnly.remove (P : Path → Prop) (a : Store) (p : Path) (hp : P p) : FsOnly P a (a.remove p) := by
  refine ⟨fun e he => Or.inl (mem_remove.mp he).1, fun e he hk => mem_remove.mpr ⟨he, ?_⟩⟩
  intro h; exact hk (h ▸ hp)

theorem FsOnly.put (P : Path → Prop) (a : Store) (p : Path) (c : Bytes) (hp : P p) : FsOnly P a (a.put p c) := by
  refine ⟨fun e he => ?_, fun e he hk => mem_put.mpr (Or.inl ⟨he, ?_⟩)⟩
  · rcases mem_put.mp he with h | h
    · exact Or.inl h.1
    · exact Or.inr (by rw [h]; exact hp)
  · intro h; exact hk (h ▸ hp)

theorem splitChunks_flatten (b : Bytes) (ns : List Nat) : (splitChunks b ns).flatten = b := by
  induction ns generalizing b with
  | nil => simp only [splitChunks]; split <;> simp_all
  | cons n ns ih =>
    simp only [splitChunks]
    split
    · simp_all
    · split
      · exact ih b
      · simp [ih]

/-- the bytes a successful upload stores for a file: sorted metadata header, blank line, content -/
def fileBytes (env : Env) (k : UKey) (i : Nat) (fname content : Bytes) : Bytes :=
  ((sortLabels (mkMeta env k i fname)).map headerLine ++ [[10]]).flatten ++ content

/-- files' part of one `indexFile` call -/
theorem indexFile_files (env : Env) (f : Option Fault) (r : Run) (t : Tx) (x : FileIn) (hn : (Paths r.fs).Nodup) :
    (Paths (indexFile env f r t x).1.fs).Nodup ∧
    FsOnly (fun p => p = ⟨t.id, x.idx⟩) r.fs (indexFile env f r t x).1.fs ∧
    ((indexFile env f r t x).2.2 = none →
      ((⟨t.id, x.idx⟩ : Path), fileBytes env t.id x.idx x.fname x.content) ∈ (indexFile env f r t x).1.fs) := by
  unfold indexFile
  simp only
  have hfail : ∀ (t' : Tx) (ops : List Op) (opc : Nat) (e : Err),
      (Paths (failFile r t' ⟨t.id, x.idx⟩ ops opc e).1.fs).Nodup ∧
      FsOnly (fun p => p = ⟨t.id, x.idx⟩) r.fs (failFile r t' ⟨t.id, x.idx⟩ ops opc e).1.fs ∧
      ((failFile r t' ⟨t.id, x.idx⟩ ops opc e).2.2 = none → ((⟨t.id, x.idx⟩ : Path),
        fileBytes env t.id x.idx x.fname x.content) ∈ (failFile r t' ⟨t.id, x.idx⟩ ops opc e).1.fs) :=
    fun t' ops opc e => ⟨remove_paths_nodup _ hn, FsOnly.remove _ _ _ rfl, by simp [failFile]⟩
  split
  · exact ⟨hn, FsOnly.refl _ _, by simp⟩
  · split
    · exact hfail _ _ _ _
    · rename_i hh
      split
      · exact hfail _ _ _ _
      · rename_i hb
        split
        · exact hfail _ _ _ _
        · split
          · exact hfail _ _ _ _
          · split
            · exact hfail _ _ _ _
            · split
              · refine ⟨?_, ?_, by simp⟩
                · dsimp only
                  split
                  · exact remove_paths_nodup _ (put_paths_nodup _ _ hn)
                  · exact remove_paths_nodup _ hn
                · dsimp only
                  split
                  · exact (FsOnly.put (fun p => p = (⟨t.id, x.idx⟩ : Path)) _ _ _ rfl).trans
                      (FsOnly.remove (fun p => p = (⟨t.id, x.idx⟩ : Path)) _ _ rfl)
                  · exact FsOnly.remove (fun p => p = (⟨t.id, x.idx⟩ : Path)) _ _ rfl
              · refine ⟨put_paths_nodup _ _ hn, FsOnly.put _ _ _ _ rfl, fun _ => ?_⟩
                have hw := doWrites_ok f _ _ (by simpa using hh)
                have hbw := doWrites_ok f _ _ (by simpa using hb)
                dsimp only
                rw [hw.2.1, hbw.2.1, splitChunks_flatten]
                exact mem_put.mpr (Or.inr rfl)

/-- what a successful upload of these parts must leave in the store -/
def expectedFiles (env : Env) (k : UKey) : List Part → Nat → List (Path × Bytes)
  | [], _ => []
  | Part.field _ :: ps, i => expectedFiles env k ps (i + 1)
  | Part.file fname content _ _ :: ps, i => (⟨k, i⟩, fileBytes env k i fname content) :: expectedFiles env k ps (i + 1)

theorem expectedFiles_part (env : Env) (k : UKey) (ps : List Part) (i : Nat) :
    ∀ x ∈ expectedFiles env k ps i, x.1.up = k ∧ i ≤ x.1.part := by
  induction ps generalizing i with
  | nil => simp [expectedFiles]
  | cons p ps ih =>
    cases p with
    | field name =>
      simp only [expectedFiles]
      intro x hx; have := ih _ x hx; exact ⟨this.1, by omega⟩
    | file fname content cut chunks =>
      simp only [expectedFiles]
      intro x hx
      rcases List.mem_cons.mp hx with rfl | hx
      · exact ⟨rfl, Nat.le_refl _⟩
      · have := ih _ x hx; exact ⟨this.1, by omega⟩

theorem runParts_files (env : Env) (f : Option Fault) (ps : List Part) (i : Nat) (r : Run)
    (hn : (Paths r.fs).Nodup) :
    (Paths (runParts env f ps i r).1.fs).Nodup ∧
    ∀ t', (runParts env f ps i r).1.tx = some t' →
      FsOnly (fun p => p.up = t'.id ∧ i ≤ p.part) r.fs (runParts env f ps i r).1.fs ∧
      ((runParts env f ps i r).2 = none →
        (∀ x ∈ expectedFiles env t'.id ps i, x ∈ (runParts env f ps i r).1.fs) ∧
        (runParts env f ps i r).1.fileids = r.fileids ++ (expectedFiles env t'.id ps i).map Prod.fst) := by
  induction ps generalizing i r with
  | nil =>
    simp only [runParts]
    exact ⟨hn, fun t' _ => ⟨FsOnly.refl _ _, fun _ => by simp [expectedFiles]⟩⟩
  | cons p ps ih =>
    cases p with
    | field name =>
      simp only [runParts]
      split
      · have := ih (i + 1) r hn
        refine ⟨this.1, fun t' ht' => ?_⟩
        have h2 := this.2 t' ht'
        exact ⟨h2.1.mono (fun p hp => ⟨hp.1, by omega⟩), by simpa [expectedFiles] using h2.2⟩
      · exact ⟨hn, fun t' _ => ⟨FsOnly.refl _ _, by simp⟩⟩
    | file fname content cut chunks =>
      have key : ∀ (r1 : Run) (t : Tx), (Paths r1.fs).Nodup →
          let res := indexFile env f r1 t ⟨i, fname, content, cut, chunks⟩
          let r2 : Run := { res.1 with tx := some res.2.1 }
          let out := match res.2.2 with
            | some e => (r2, some e)
            | none => runParts env f ps (i + 1) { r2 with fileids := r2.fileids ++ [(⟨t.id, i⟩ : Path)] }
          (Paths out.1.fs).Nodup ∧ ∀ t', out.1.tx = some t' →
            FsOnly (fun p => p.up = t'.id ∧ i ≤ p.part) r1.fs out.1.fs ∧
            (out.2 = none →
              (∀ x ∈ expectedFiles env t'.id (Part.file fname content cut chunks :: ps) i, x ∈ out.1.fs) ∧
              out.1.fileids = r1.fileids ++ (expectedFiles env t'.id (Part.file fname content cut chunks :: ps) i).map Prod.fst) := by
        intro r1 t hn1 res r2 out
        have hf := indexFile_files env f r1 t ⟨i, fname, content, cut, chunks⟩ hn1
        have hst := indexFile_step env f r1 t ⟨i, fname, content, cut, chunks⟩
        cases he : res.2.2 with
        | some e =>
          have hout : out = (r2, some e) := by simp [out, he]
          rw [hout]
          refine ⟨hf.1, fun t' ht' => ?_⟩
          simp [r2] at ht'
          subst ht'
          refine ⟨hf.2.1.mono (fun p hp => ?_), by simp⟩
          subst hp; exact ⟨hst.id.symm, Nat.le_refl _⟩
        | none =>
          have hout : out = runParts env f ps (i + 1) { r2 with fileids := r2.fileids ++ [(⟨t.id, i⟩ : Path)] } := by
            simp [out, he]
          rw [hout]
          have ih' := ih (i + 1) { r2 with fileids := r2.fileids ++ [(⟨t.id, i⟩ : Path)] } hf.1
          refine ⟨ih'.1, fun t' ht' => ?_⟩
          have h2 := ih'.2 t' ht'
          -- the id does not change
          have hid : t'.id = t.id := by
            obtain ⟨t'', h1, h2', _, _⟩ := (runParts_step env f ps (i + 1)
              { r2 with fileids := r2.fileids ++ [(⟨t.id, i⟩ : Path)] }).cont res.2.1 rfl
            rw [h1] at ht'; cases ht'
            rw [h2', hst.id]
          refine ⟨?_, fun hnone => ?_⟩
          · refine (hf.2.1.mono (fun p hp => ?_)).trans (h2.1.mono (fun p hp => ⟨hp.1, by omega⟩))
            subst hp; exact ⟨hid.symm, Nat.le_refl _⟩
          · have h3 := h2.2 hnone
            have hmem := hf.2.2 he
            refine ⟨?_, ?_⟩
            · intro x hx
              simp only [expectedFiles] at hx
              rcases List.mem_cons.mp hx with rfl | hx
              · refine h2.1.2 _ ?_ ?_
                · rw [hid]; exact hmem
                · simp
              · exact h3.1 x hx
            · rw [h3.2]
              simp [expectedFiles, r2, hid]
              exact hst.fileids
      simp only [runParts]
      cases htx : r.tx with
      | some t => exact key r t hn
      | none =>
        simp only []
        cases hal : allocId env.day r.uploads with
        | none => simp only []; exact ⟨hn, fun t' ht' => by rw [htx] at ht'; cases ht'⟩
        | some k => exact key ⟨r.uploads ++ [k], r.fs, none, r.opc, r.trace, r.fileids, r.inprog⟩ { id := k } hn

/-! ### store invariant: no name twice -/

theorem processUpload_paths (env : Env) (req : Req) (s : Sys) (h : (Paths s.fs).Nodup) :
    (Paths (processUpload env req s).sys.fs).Nodup := by
  have := (runParts_files env req.fault req.parts 0 ⟨s.db.uploads, s.fs, none, 0, [], [], none⟩ h).1
  rcases processUpload_cases env req s with ⟨e, h'⟩ | ⟨t, t', _, _, _, _, h'⟩
  · rw [h']; exact this
  · rw [h']; exact this

theorem runHistory_paths (hist : List (Env × Req)) (s : Sys) (h : (Paths s.fs).Nodup) :
    (Paths (runHistory hist s).fs).Nodup := by
  induction hist generalizing s with
  | nil => exact h
  | cons a rest ih => exact ih _ (processUpload_paths a.1 a.2 s h)

theorem stored_once {s : Store} {p : Path} {c : Bytes} (hn : (Paths s).Nodup) (hm : (p, c) ∈ s) :
    s.filter (fun e => e.1 == p) = [(p, c)] := by
  induction s with
  | nil => simp at hm
  | cons e es ih =>
    simp only [Paths, List.map_cons, List.nodup_cons] at hn
    rcases List.mem_cons.mp hm with rfl | hm
    · have : es.filter (fun e => e.1 == p) = [] := by
        rw [List.filter_eq_nil_iff]
        intro e he hpe
        simp at hpe
        exact hn.1 (List.mem_map.mpr ⟨e, he, hpe⟩)
      simp [this]
    · have hne : ¬ (e.1 == p) = true := by
        intro h; simp at h
        exact hn.1 (List.mem_map.mpr ⟨(p, c), hm, h.symm⟩)
      rw [List.filter_cons, if_neg hne]
      exact ih hn.2 hm

theorem success_files (env : Env) (req : Req) (s : Sys) (hp : (Paths s.fs).Nodup) (k : UKey) (fids : List Path)
    (h : (processUpload env req s).resp = .ok (k, fids)) :
    (∀ x ∈ expectedFiles env k req.parts 0,
      (processUpload env req s).sys.fs.filter (fun e => e.1 == x.1) = [x]) ∧
    fids = (expectedFiles env k req.parts 0).map Prod.fst := by
  have hf := runParts_files env req.fault req.parts 0 ⟨s.db.uploads, s.fs, none, 0, [], [], none⟩ hp
  rcases processUpload_cases env req s with ⟨e, h'⟩ | ⟨t, t', h2, _, htx, _, h'⟩
  · rw [h'] at h; simp [abortOutcome] at h
  · rw [h'] at h ⊢
    simp at h
    obtain ⟨rfl, rfl⟩ := h
    have := (hf.2 t htx).2 h2
    refine ⟨fun x hx => stored_once hf.1 (this.1 x hx), ?_⟩
    have e := this.2
    simpa [run0] using e

def kBy : Bytes := Bytes.ofString "by"
def kUp : Bytes := Bytes.ofString "upload"
def kFile : Bytes := Bytes.ofString "upload-file"
def kPart : Bytes := Bytes.ofString "upload-part"
def kTime : Bytes := Bytes.ofString "upload-time"

set_option linter.unusedSimpArgs false in
/-- the sorted metadata header: `by` (if a user is known), `upload`, `upload-file` (if the part has a
file name), `upload-part`, `upload-time` -/
theorem header_sorted (env : Env) (k : UKey) (i : Nat) (fname : Bytes) :
    sortLabels (mkMeta env k i fname) =
      (if env.user.isEmpty then [] else [(kBy, env.user)]) ++ [(kUp, renderId k)] ++
      (if fname.isEmpty then [] else [(kFile, fname)]) ++ [(kPart, partId k i), (kTime, env.time)] := by
  have c1 : bytesLt kTime kPart = false := by decide +kernel
  have c2 : bytesLt kPart kTime = true := by decide +kernel
  have c3 : bytesLt kUp kPart = true := by decide +kernel
  have c4 : bytesLt kFile kPart = true := by decide +kernel
  have c5 : bytesLt kFile kTime = true := by decide +kernel
  have c6 : bytesLt kBy kPart = true := by decide +kernel
  have c7 : bytesLt kBy kFile = true := by decide +kernel
  have c8 : bytesLt kBy kUp = true := by decide +kernel
  have c9 : bytesLt kUp kFile = true := by decide +kernel
  have c10 : bytesLt kUp kBy = false := by decide +kernel
  have c11 : bytesLt kPart kFile = false := by decide +kernel
  have c12 : bytesLt kPart kBy = false := by decide +kernel
  have c13 : bytesLt kFile kBy = false := by decide +kernel
  have c14 : bytesLt kTime kBy = false := by decide +kernel
  have c15 : bytesLt kTime kFile = false := by decide +kernel
  have c16 : bytesLt kUp kTime = true := by decide +kernel
  have c17 : bytesLt kBy kTime = true := by decide +kernel
  unfold mkMeta
  change sortLabels ([(kUp, renderId k), (kPart, partId k i), (kTime, env.time)] ++
    (if fname.isEmpty then [] else [(kFile, fname)]) ++ (if env.user.isEmpty then [] else [(kBy, env.user)])) = _
  by_cases h1 : fname.isEmpty <;> by_cases h2 : env.user.isEmpty <;>
    simp [h1, h2, sortLabels, insertSorted, c1, c2, c3, c4, c5, c6, c7, c8, c9, c10, c11, c12, c13, c14, c15, c16, c17]
end C20
