/-
C17 helper lemmas: `sortStable` (the insertion sort sort.SliceStable performs) is Mathlib's
`List.insertionSort` on the reversed list; permutation, sortedness and stability follow.
-/
import Model.Legacy.Collection
import Mathlib.Data.List.Sort
import Proofs.Lemmas.C17F64

namespace C17
open Legacy

/-- "not less": the relation the insertion sort keeps between neighbours -/
def nl {α : Type} (less : α → α → Bool) : α → α → Prop := fun a b => less a b = false

instance {α : Type} (less : α → α → Bool) : DecidableRel (nl less) :=
  fun a b => inferInstanceAs (Decidable (less a b = false))

theorem insRev_eq {α : Type} (less : α → α → Bool) (x : α) (l : List α) :
    insRev less x l = List.orderedInsert (nl less) x l := by
  induction l with
  | nil => rfl
  | cons y ys ih =>
    simp only [insRev, List.orderedInsert_cons, nl]
    by_cases h : less x y = true
    · simp [h, ih, nl]
    · simp [h]

theorem sortStable_eq {α : Type} (less : α → α → Bool) (xs : List α) :
    sortStable less xs = (List.insertionSort (nl less) xs.reverse).reverse := by
  unfold sortStable List.insertionSort
  rw [List.foldl_eq_foldr_reverse]
  congr 2
  funext x l
  exact insRev_eq less x l

theorem sortStable_perm {α : Type} (less : α → α → Bool) (xs : List α) :
    (sortStable less xs).Perm xs := by
  rw [sortStable_eq]
  exact (List.reverse_perm _).trans ((List.perm_insertionSort _ _).trans (List.reverse_perm _))

theorem sortStable_sorted {α : Type} (less : α → α → Bool)
    (hasym : ∀ a b, less a b = true → less b a = false)
    (hnt : ∀ a b c, less a b = false → less b c = false → less a c = false) (xs : List α) :
    (sortStable less xs).Pairwise (fun a b => less b a = false) := by
  rw [sortStable_eq]
  haveI : Std.Total (nl less) := ⟨fun a b => by
    unfold nl
    by_cases h : less a b = true
    · exact Or.inr (hasym a b h)
    · exact Or.inl (by simpa using h)⟩
  haveI : IsTrans α (nl less) := ⟨fun a b c h1 h2 => hnt a b c h1 h2⟩
  have h := List.pairwise_insertionSort (nl less) xs.reverse
  rw [List.pairwise_reverse]
  exact h

theorem sortStable_stable {α : Type} (less : α → α → Bool) (xs : List α) :
    ∀ a b, List.Sublist [a, b] xs → less b a = false → List.Sublist [a, b] (sortStable less xs) := by
  intro a b hsub hba
  rw [sortStable_eq]
  have h1 : List.Sublist [b, a] xs.reverse := by
    have := List.reverse_sublist.mpr hsub
    simpa using this
  have h2 := List.pair_sublist_insertionSort (r := nl less) (show nl less b a from hba) h1
  have := List.reverse_sublist.mpr h2
  simpa using this

theorem bytesLt_asymm : ∀ a b : Bytes, bytesLt a b = true → bytesLt b a = false := by
  intro a
  induction a with
  | nil => intro b; cases b <;> simp [bytesLt]
  | cons x xs ih =>
    intro b
    cases b with
    | nil => simp [bytesLt]
    | cons y ys =>
      simp only [bytesLt, Bool.or_eq_true, Bool.and_eq_true, decide_eq_true_eq, beq_iff_eq, Bool.or_eq_false_iff,
        Bool.and_eq_false_imp, decide_eq_false_iff_not]
      rintro (h | ⟨rfl, h⟩)
      · refine ⟨?_, ?_⟩
        · exact fun h2 => absurd (UInt8.lt_iff_toNat_lt.mp h) (by have := UInt8.lt_iff_toNat_lt.mp h2; omega)
        · rintro rfl; exact absurd (UInt8.lt_iff_toNat_lt.mp h) (by omega)
      · exact ⟨fun h2 => absurd (UInt8.lt_iff_toNat_lt.mp h2) (by omega), fun _ => ih ys h⟩

theorem bytesLt_negtrans : ∀ a b c : Bytes, bytesLt a b = false → bytesLt b c = false → bytesLt a c = false := by
  intro a
  induction a with
  | nil =>
    intro b c h1 h2
    cases b with
    | nil => exact h2
    | cons y ys => simp [bytesLt] at h1
  | cons x xs ih =>
    intro b c h1 h2
    cases b with
    | nil =>
      cases c with
      | nil => simp [bytesLt]
      | cons z zs => simp [bytesLt] at h2
    | cons y ys =>
      cases c with
      | nil => simp [bytesLt]
      | cons z zs =>
        simp only [bytesLt, Bool.or_eq_false_iff, decide_eq_false_iff_not, Bool.and_eq_false_imp, beq_iff_eq,
          UInt8.lt_iff_toNat_lt] at h1 h2 ⊢
        obtain ⟨a1, a2⟩ := h1
        obtain ⟨b1, b2⟩ := h2
        refine ⟨by omega, ?_⟩
        rintro rfl
        have hxy : x = y := UInt8.toNat_inj.mp (by omega)
        subst hxy
        exact ih ys zs (a2 rfl) (b2 rfl)

/-- `ByName` is a strict weak order, so `sort_stable_spec` applies to it unconditionally -/
theorem byName_strict_weak :
    (∀ a b : Row, Order.byName.less a b = true → Order.byName.less b a = false) ∧
    (∀ a b c : Row, Order.byName.less a b = false → Order.byName.less b c = false → Order.byName.less a c = false) :=
  ⟨fun a b => bytesLt_asymm a.bench b.bench, fun a b c => bytesLt_negtrans a.bench b.bench c.bench⟩

/-! ### congruence: only comparisons between elements of the input matter -/

theorem mem_insRev {α : Type} (less : α → α → Bool) (x y : α) (l : List α) :
    y ∈ insRev less x l ↔ y = x ∨ y ∈ l := by
  rw [insRev_eq]; exact List.mem_orderedInsert _

theorem insRev_congr {α : Type} (less less' : α → α → Bool) (x : α) (l : List α)
    (h : ∀ y ∈ l, less x y = less' x y) : insRev less x l = insRev less' x l := by
  induction l with
  | nil => rfl
  | cons y ys ih =>
    simp only [insRev]
    rw [h y (List.mem_cons_self ..), ih (fun z hz => h z (List.mem_cons_of_mem _ hz))]

theorem foldl_insRev_congr {α : Type} (less less' : α → α → Bool) (xs racc : List α)
    (h : ∀ a, (a ∈ racc ∨ a ∈ xs) → ∀ b, (b ∈ racc ∨ b ∈ xs) → less a b = less' a b) :
    xs.foldl (fun racc x => insRev less x racc) racc = xs.foldl (fun racc x => insRev less' x racc) racc := by
  induction xs generalizing racc with
  | nil => rfl
  | cons x xs ih =>
    simp only [List.foldl_cons]
    rw [insRev_congr less less' x racc (fun y hy => h x (Or.inr (List.mem_cons_self ..)) y (Or.inl hy))]
    apply ih
    intro a ha b hb
    apply h
    · rcases ha with ha | ha
      · rcases (mem_insRev less' x a racc).mp ha with rfl | ha
        · exact Or.inr (List.mem_cons_self ..)
        · exact Or.inl ha
      · exact Or.inr (List.mem_cons_of_mem _ ha)
    · rcases hb with hb | hb
      · rcases (mem_insRev less' x b racc).mp hb with rfl | hb
        · exact Or.inr (List.mem_cons_self ..)
        · exact Or.inl hb
      · exact Or.inr (List.mem_cons_of_mem _ hb)

theorem sortStable_congr {α : Type} (less less' : α → α → Bool) (xs : List α)
    (h : ∀ a ∈ xs, ∀ b ∈ xs, less a b = less' a b) : sortStable less xs = sortStable less' xs := by
  unfold sortStable
  rw [foldl_insRev_congr less less' xs [] (fun a ha b hb => h a (by simpa using ha) b (by simpa using hb))]

/-! ### ByDelta -/

/-- the sort key of `ByDelta`: `math.Abs(PctDelta) * float64(Change)` -/
def dkey (r : Row) : F64.Bits := F64.mul (F64.abs r.pctDelta) (F64.ofInt r.change)

/-- NaN keys replaced by 0: a total extension used only inside proofs -/
def san (k : F64.Bits) : F64.Bits := if F64.isNaN k then F64.posZero else k

theorem san_not_nan (k : F64.Bits) : F64.isNaN (san k) = false := by
  unfold san
  by_cases h : F64.isNaN k = true
  · rw [if_pos h]; decide
  · rw [if_neg h]; simpa using h

theorem san_of_not_nan (k : F64.Bits) (h : F64.isNaN k = false) : san k = k := by
  unfold san; simp [h]

/-- the order with NaN keys sanitised -/
def sless : Order → Row → Row → Bool
  | .byName, a, b => bytesLt a.bench b.bench
  | .byDelta, a, b => F64.lt (san (dkey a)) (san (dkey b))
  | .reverse o, a, b => sless o b a

theorem sless_strict_weak (o : Order) :
    (∀ a b : Row, sless o a b = true → sless o b a = false) ∧
    (∀ a b c : Row, sless o a b = false → sless o b c = false → sless o a c = false) := by
  induction o with
  | byName => exact ⟨fun a b => bytesLt_asymm a.bench b.bench, fun a b c => bytesLt_negtrans a.bench b.bench c.bench⟩
  | byDelta =>
    exact ⟨fun a b => lt_asymm _ _ (san_not_nan _) (san_not_nan _),
           fun a b c => lt_negtrans _ _ _ (san_not_nan _) (san_not_nan _) (san_not_nan _)⟩
  | reverse o ih => exact ⟨fun a b hab => ih.1 b a hab, fun a b c h1 h2 => ih.2 c b a h2 h1⟩

theorem sless_eq (o : Order) (a b : Row) (ha : F64.isNaN (dkey a) = false) (hb : F64.isNaN (dkey b) = false) :
    o.less a b = sless o a b := by
  induction o generalizing a b with
  | byName => rfl
  | byDelta =>
    show F64.lt (dkey a) (dkey b) = F64.lt (san (dkey a)) (san (dkey b))
    rw [san_of_not_nan _ ha, san_of_not_nan _ hb]
  | reverse o ih => exact ih b a hb ha

/-- reversing an order (`Reverse`) preserves being a strict weak order -/
theorem reverse_strict_weak (o : Order)
    (h : (∀ a b : Row, o.less a b = true → o.less b a = false) ∧
         (∀ a b c : Row, o.less a b = false → o.less b c = false → o.less a c = false)) :
    (∀ a b : Row, (Order.reverse o).less a b = true → (Order.reverse o).less b a = false) ∧
    (∀ a b c : Row, (Order.reverse o).less a b = false → (Order.reverse o).less b c = false →
      (Order.reverse o).less a c = false) :=
  ⟨fun a b hab => h.1 b a hab, fun a b c h1 h2 => h.2 c b a h2 h1⟩

end C17
