/-
C17 helper lemmas: `sortStable` (the insertion sort sort.SliceStable performs) is Mathlib's
`List.insertionSort` on the reversed list; permutation, sortedness and stability follow.
-/
import Model.Legacy.Collection
import Mathlib.Data.List.Sort

namespace C17
open Legacy

/-- "not less": the relation the insertion sort keeps between neighbours -/
def nl {α : Type} (less : α → α → Bool) : α → α → Prop := fun a b => less a b = false

instance {α : Type} (less : α → α → Bool) : DecidableRel (nl less) :=
  fun a b => inferInstanceAs (Decidable (less a b = false))

theorem insRev_eq {α : Type} (less : α → α → Bool) (x : α) (l : List α) :
    insRev less x l = List.orderedInsert (nl less) x l := by
  induction l with
  | nil => rfl
  | cons y ys ih =>
    simp only [insRev, List.orderedInsert_cons, nl]
    by_cases h : less x y = true
    · simp [h, ih, nl]
    · simp [h]

theorem sortStable_eq {α : Type} (less : α → α → Bool) (xs : List α) :
    sortStable less xs = (List.insertionSort (nl less) xs.reverse).reverse := by
  unfold sortStable List.insertionSort
  rw [List.foldl_eq_foldr_reverse]
  congr 2
  funext x l
  exact insRev_eq less x l

theorem sortStable_perm {α : Type} (less : α → α → Bool) (xs : List α) :
    (sortStable less xs).Perm xs := by
  rw [sortStable_eq]
  exact (List.reverse_perm _).trans ((List.perm_insertionSort _ _).trans (List.reverse_perm _))

theorem sortStable_sorted {α : Type} (less : α → α → Bool)
    (hasym : ∀ a b, less a b = true → less b a = false)
    (hnt : ∀ a b c, less a b = false → less b c = false → less a c = false) (xs : List α) :
    (sortStable less xs).Pairwise (fun a b => less b a = false) := by
  rw [sortStable_eq]
  haveI : Std.Total (nl less) := ⟨fun a b => by
    unfold nl
    by_cases h : less a b = true
    · exact Or.inr (hasym a b h)
    · exact Or.inl (by simpa using h)⟩
  haveI : IsTrans α (nl less) := ⟨fun a b c h1 h2 => hnt a b c h1 h2⟩
  have h := List.pairwise_insertionSort (nl less) xs.reverse
  rw [List.pairwise_reverse]
  exact h

theorem sortStable_stable {α : Type} (less : α → α → Bool) (xs : List α) :
    ∀ a b, List.Sublist [a, b] xs → less b a = false → List.Sublist [a, b] (sortStable less xs) := by
  intro a b hsub hba
  rw [sortStable_eq]
  have h1 : List.Sublist [b, a] xs.reverse := by
    have := List.reverse_sublist.mpr hsub
    simpa using this
  have h2 := List.pair_sublist_insertionSort (r := nl less) (show nl less b a from hba) h1
  have := List.reverse_sublist.mpr h2
  simpa using this

end C17
