/-
Lemma library for the float64 model `Model/Base/F64.lean`: the binary scaling `scaled`, the
normalising shift `shiftOf`, and monotonicity of `roundMag` / `div`.

Technique: every statement is given on the model's own Nat/Int vocabulary (cross-multiplied
fractions); the proofs go through the rational number `(num/den)·2^s : ℚ` (`scaled_ratio`).
-/
import Model.Base.F64
import Proofs.Lemmas.F64Round
import Mathlib.Algebra.Order.Field.Rat
import Mathlib.Algebra.Order.Field.Basic
import Mathlib.Algebra.Order.Field.Power
import Mathlib.Tactic.Linarith
import Mathlib.Tactic.Ring
import Mathlib.Tactic.FieldSimp
import Mathlib.Tactic.Positivity

namespace F64

/-! ### `scaled` -/

theorem scaled_fst (num den : Nat) (s : Int) : (scaled num den s).1 = num * 2 ^ s.toNat := rfl
theorem scaled_snd (num den : Nat) (s : Int) : (scaled num den s).2 = den * 2 ^ (-s).toNat := rfl

theorem scaled_fst_pos {num : Nat} (den : Nat) (s : Int) (h : 0 < num) : 0 < (scaled num den s).1 :=
  Nat.mul_pos h (Nat.pow_pos (by decide))

theorem scaled_snd_pos (num : Nat) {den : Nat} (s : Int) (h : 0 < den) : 0 < (scaled num den s).2 :=
  Nat.mul_pos h (Nat.pow_pos (by decide))

/-- **scaled_shift** — raising the shift from `s` to `s'` multiplies the fraction by `2^(s'-s)`. -/
theorem scaled_shift (num den : Nat) (s s' : Int) (h : s ≤ s') :
    (scaled num den s').1 * (scaled num den s).2
      = (scaled num den s).1 * (scaled num den s').2 * 2 ^ (s' - s).toNat := by
  simp only [scaled_fst, scaled_snd]
  have e : s'.toNat + (-s).toNat = s.toNat + (-s').toNat + (s' - s).toNat := by omega
  calc num * 2 ^ s'.toNat * (den * 2 ^ (-s).toNat)
      = num * den * 2 ^ (s'.toNat + (-s).toNat) := by rw [Nat.pow_add]; ring
    _ = num * den * 2 ^ (s.toNat + (-s').toNat + (s' - s).toNat) := by rw [e]
    _ = num * 2 ^ s.toNat * (den * 2 ^ (-s').toNat) * 2 ^ (s' - s).toNat := by
        rw [Nat.pow_add, Nat.pow_add]; ring

/-- the rational value of the scaled fraction -/
theorem scaled_ratio (num den : Nat) (s : Int) :
    ((scaled num den s).1 : ℚ) / ((scaled num den s).2 : ℚ) = (num : ℚ) / den * (2 : ℚ) ^ s := by
  simp only [scaled_fst, scaled_snd]
  push_cast
  rcases Int.le_total 0 s with h | h
  · obtain ⟨k, rfl⟩ := Int.eq_ofNat_of_zero_le h
    have : (-(k : Int)).toNat = 0 := by omega
    simp [this, zpow_natCast]
    ring
  · obtain ⟨k, hk⟩ := Int.eq_ofNat_of_zero_le (Int.neg_nonneg_of_nonpos h)
    have hs : s = -(k : Int) := by omega
    subst hs
    have : (-(k : Int)).toNat = 0 := by omega
    simp [this, zpow_neg, zpow_natCast]
    field_simp

theorem scaled_lt_iff (num den : Nat) (s : Int) (hd : 0 < den) (c : Nat) :
    (scaled num den s).1 < c * (scaled num den s).2 ↔ (num : ℚ) / den * (2 : ℚ) ^ s < c := by
  have hp : (0 : ℚ) < ((scaled num den s).2 : ℚ) := by exact_mod_cast scaled_snd_pos num s hd
  rw [← scaled_ratio, div_lt_iff₀ hp]
  exact_mod_cast Iff.rfl

theorem scaled_le_iff (num den : Nat) (s : Int) (hd : 0 < den) (c : Nat) :
    c * (scaled num den s).2 ≤ (scaled num den s).1 ↔ (c : ℚ) ≤ (num : ℚ) / den * (2 : ℚ) ^ s := by
  have hp : (0 : ℚ) < ((scaled num den s).2 : ℚ) := by exact_mod_cast scaled_snd_pos num s hd
  rw [← scaled_ratio, le_div_iff₀ hp]
  exact_mod_cast Iff.rfl

/-- one more binary place doubles the ratio -/
theorem ratio_succ (q : ℚ) (s : Int) : q * (2 : ℚ) ^ (s + 1) = 2 * (q * (2 : ℚ) ^ s) := by
  rw [zpow_add_one₀ (by norm_num : (2 : ℚ) ≠ 0)]; ring

theorem ratio_mono (q : ℚ) (hq : 0 ≤ q) {s s' : Int} (h : s ≤ s') :
    q * (2 : ℚ) ^ s ≤ q * (2 : ℚ) ^ s' :=
  mul_le_mul_of_nonneg_left (zpow_le_zpow_right₀ (by norm_num) h) hq

/-- a strictly larger shift at least doubles the ratio -/
theorem ratio_double (q : ℚ) (hq : 0 ≤ q) {s s' : Int} (h : s < s') :
    2 * (q * (2 : ℚ) ^ s) ≤ q * (2 : ℚ) ^ s' := by
  rw [← ratio_succ]; exact ratio_mono q hq h

/-! ### `shiftOf` -/

theorem shiftOf_def (num den : Nat) :
    shiftOf num den =
      (if (if (scaled num den (52 - ((Nat.log2 num : Int) - (Nat.log2 den : Int)))).1 /
              (scaled num den (52 - ((Nat.log2 num : Int) - (Nat.log2 den : Int)))).2 < 2 ^ 52
            then 52 - ((Nat.log2 num : Int) - (Nat.log2 den : Int)) + 1
            else 52 - ((Nat.log2 num : Int) - (Nat.log2 den : Int))) > 1074 then 1074
       else (if (scaled num den (52 - ((Nat.log2 num : Int) - (Nat.log2 den : Int)))).1 /
              (scaled num den (52 - ((Nat.log2 num : Int) - (Nat.log2 den : Int)))).2 < 2 ^ 52
            then 52 - ((Nat.log2 num : Int) - (Nat.log2 den : Int)) + 1
            else 52 - ((Nat.log2 num : Int) - (Nat.log2 den : Int)))) := rfl

/-- `2^log2 n ≤ n < 2^(log2 n + 1)` as rationals with integer exponents -/
theorem log2_boundsQ (n : Nat) (hn : 0 < n) :
    (2 : ℚ) ^ (Nat.log2 n : Int) ≤ n ∧ (n : ℚ) < (2 : ℚ) ^ ((Nat.log2 n : Int) + 1) := by
  have h1 := Nat.log2_self_le (Nat.pos_iff_ne_zero.mp hn)
  have h2 := @Nat.lt_log2_self n
  constructor
  · rw [zpow_natCast]; exact_mod_cast h1
  · have : ((Nat.log2 n : Int) + 1) = ((Nat.log2 n + 1 : Nat) : Int) := by push_cast; rfl
    rw [this, zpow_natCast]; exact_mod_cast h2

/-- the first guess `s0 = 52 − (log2 num − log2 den)` puts the ratio strictly between 2^51 and 2^53 -/
theorem shift0_boundsQ (num den : Nat) (hn : 0 < num) (hd : 0 < den) :
    (2 : ℚ) ^ (51 : Int) < (num : ℚ) / den * (2 : ℚ) ^ (52 - ((Nat.log2 num : Int) - (Nat.log2 den : Int))) ∧
    (num : ℚ) / den * (2 : ℚ) ^ (52 - ((Nat.log2 num : Int) - (Nat.log2 den : Int))) < (2 : ℚ) ^ (53 : Int) := by
  obtain ⟨na, nb⟩ := log2_boundsQ num hn
  obtain ⟨da, db⟩ := log2_boundsQ den hd
  generalize (Nat.log2 num : Int) = a at *
  generalize (Nat.log2 den : Int) = b at *
  have hdq : (0 : ℚ) < den := by exact_mod_cast hd
  have h2 : ∀ k : Int, (0 : ℚ) < (2 : ℚ) ^ k := fun k => zpow_pos (by norm_num) k
  have two_ne : (2 : ℚ) ≠ 0 := by norm_num
  constructor
  · -- 2^51 = 2^a / 2^(b+1) * 2^s0 < num / den * 2^s0
    have e : (2 : ℚ) ^ (51 : Int) = (2 : ℚ) ^ a / (2 : ℚ) ^ (b + 1) * (2 : ℚ) ^ (52 - (a - b)) := by
      rw [← zpow_sub₀ two_ne, ← zpow_add₀ two_ne]; congr 1; omega
    rw [e]
    apply mul_lt_mul_of_pos_right _ (h2 _)
    calc (2 : ℚ) ^ a / (2 : ℚ) ^ (b + 1) < (2 : ℚ) ^ a / den := by
          apply div_lt_div_of_pos_left (h2 _) hdq db
      _ ≤ num / den := by apply div_le_div_of_nonneg_right na hdq.le
  · have e : (2 : ℚ) ^ (53 : Int) = (2 : ℚ) ^ (a + 1) / (2 : ℚ) ^ b * (2 : ℚ) ^ (52 - (a - b)) := by
      rw [← zpow_sub₀ two_ne, ← zpow_add₀ two_ne]; congr 1; omega
    rw [e]
    apply mul_lt_mul_of_pos_right _ (h2 _)
    calc (num : ℚ) / den < (2 : ℚ) ^ (a + 1) / den := by
          apply div_lt_div_of_pos_right nb hdq
      _ ≤ (2 : ℚ) ^ (a + 1) / (2 : ℚ) ^ b := by
          apply div_le_div_of_nonneg_left (h2 _).le (h2 _) da

/-- **shiftOf_spec** over ℚ: with `s = shiftOf num den`, `s ≤ 1074`, `(num/den)·2^s < 2^53` and,
unless capped (`s < 1074`), `2^52 ≤ (num/den)·2^s`. -/
theorem shiftOf_specQ (num den : Nat) (hn : 0 < num) (hd : 0 < den) :
    shiftOf num den ≤ 1074 ∧
    (num : ℚ) / den * (2 : ℚ) ^ (shiftOf num den) < 2 ^ 53 ∧
    (shiftOf num den < 1074 → (2 : ℚ) ^ 52 ≤ (num : ℚ) / den * (2 : ℚ) ^ (shiftOf num den)) := by
  obtain ⟨lo, hi⟩ := shift0_boundsQ num den hn hd
  have hq : (0 : ℚ) < (num : ℚ) / den := by
    apply div_pos <;> exact_mod_cast (by assumption)
  have hcond : (scaled num den (52 - ((Nat.log2 num : Int) - (Nat.log2 den : Int)))).1 /
      (scaled num den (52 - ((Nat.log2 num : Int) - (Nat.log2 den : Int)))).2 < 2 ^ 52 ↔
      (num : ℚ) / den * (2 : ℚ) ^ (52 - ((Nat.log2 num : Int) - (Nat.log2 den : Int))) < 2 ^ 52 := by
    rw [Nat.div_lt_iff_lt_mul (scaled_snd_pos num _ hd), scaled_lt_iff num den _ hd]
    norm_num
  rw [shiftOf_def]
  generalize (52 - ((Nat.log2 num : Int) - (Nat.log2 den : Int))) = s0 at *
  generalize (num : ℚ) / den = q at *
  have e51 : (2 : ℚ) ^ (51 : Int) = 2 ^ 51 := by norm_num
  have e53 : (2 : ℚ) ^ (53 : Int) = 2 ^ 53 := by norm_num
  rw [e51] at lo; rw [e53] at hi
  have succ := ratio_succ q s0
  have hcap : ∀ s : Int, 1074 < s → q * (2 : ℚ) ^ s < 2 ^ 53 → q * (2 : ℚ) ^ (1074 : Int) < 2 ^ 53 :=
    fun s hs h => lt_of_le_of_lt (ratio_mono q hq.le (le_of_lt hs)) h
  by_cases hc : (scaled num den s0).1 / (scaled num den s0).2 < 2 ^ 52
  · have hc' := hcond.mp hc
    simp only [hc, if_true]
    have hi1 : q * (2 : ℚ) ^ (s0 + 1) < 2 ^ 53 := by rw [succ]; linarith
    have lo1 : (2 : ℚ) ^ 52 ≤ q * (2 : ℚ) ^ (s0 + 1) := by rw [succ]; linarith
    split
    · rename_i hgt
      exact ⟨le_refl _, hcap _ hgt hi1, fun h => absurd h (lt_irrefl _)⟩
    · rename_i hgt
      exact ⟨not_lt.mp hgt, hi1, fun _ => lo1⟩
  · have hc' : ¬ q * (2 : ℚ) ^ s0 < 2 ^ 52 := fun h => hc (hcond.mpr h)
    simp only [hc, if_false]
    split
    · rename_i hgt
      exact ⟨le_refl _, hcap _ hgt hi, fun h => absurd h (lt_irrefl _)⟩
    · rename_i hgt
      exact ⟨not_lt.mp hgt, hi, fun _ => not_lt.mp hc'⟩

/-- **shiftOf_spec** — on the model's own vocabulary. -/
theorem shiftOf_spec (num den : Nat) (hn : 0 < num) (hd : 0 < den) :
    shiftOf num den ≤ 1074 ∧
    (scaled num den (shiftOf num den)).1 < 2 ^ 53 * (scaled num den (shiftOf num den)).2 ∧
    (shiftOf num den < 1074 →
      2 ^ 52 * (scaled num den (shiftOf num den)).2 ≤ (scaled num den (shiftOf num den)).1) := by
  obtain ⟨h1, h2, h3⟩ := shiftOf_specQ num den hn hd
  refine ⟨h1, ?_, fun h => ?_⟩
  · rw [scaled_lt_iff num den _ hd]; exact_mod_cast h2
  · rw [scaled_le_iff num den _ hd]; exact_mod_cast h3 h

/-- the shift is determined by its specification -/
theorem shiftOf_uniqueQ (num den : Nat) (hn : 0 < num) (hd : 0 < den) (s : Int) (h1 : s ≤ 1074)
    (h2 : (num : ℚ) / den * (2 : ℚ) ^ s < 2 ^ 53)
    (h3 : s < 1074 → (2 : ℚ) ^ 52 ≤ (num : ℚ) / den * (2 : ℚ) ^ s) : shiftOf num den = s := by
  obtain ⟨t1, t2, t3⟩ := shiftOf_specQ num den hn hd
  have hq : (0 : ℚ) ≤ (num : ℚ) / den := by
    apply div_nonneg <;> exact_mod_cast Nat.zero_le _
  rcases lt_trichotomy (shiftOf num den) s with h | h | h
  · have := ratio_double _ hq h
    have := t3 (lt_of_lt_of_le h h1)
    linarith
  · exact h
  · have := ratio_double _ hq h
    have := h3 (lt_of_lt_of_le h t1)
    linarith

/-- cross-multiplied order of fractions as order of rationals -/
theorem frac_le_iff (n1 d1 n2 d2 : Nat) (hd1 : 0 < d1) (hd2 : 0 < d2) :
    n1 * d2 ≤ n2 * d1 ↔ (n1 : ℚ) / d1 ≤ (n2 : ℚ) / d2 := by
  have h1 : (0 : ℚ) < d1 := by exact_mod_cast hd1
  have h2 : (0 : ℚ) < d2 := by exact_mod_cast hd2
  rw [div_le_div_iff₀ h1 h2]
  exact_mod_cast Iff.rfl

/-- **shiftOf_antitone** — a larger positive fraction needs a smaller (or equal) shift. -/
theorem shiftOf_antitone (n1 d1 n2 d2 : Nat) (hn1 : 0 < n1) (hd1 : 0 < d1) (hd2 : 0 < d2)
    (h : n1 * d2 ≤ n2 * d1) : shiftOf n2 d2 ≤ shiftOf n1 d1 := by
  have hn2 : 0 < n2 := by
    rcases Nat.eq_zero_or_pos n2 with h0 | h0
    · subst h0; have := Nat.mul_pos hn1 hd2; omega
    · exact h0
  obtain ⟨a1, a2, a3⟩ := shiftOf_specQ n1 d1 hn1 hd1
  obtain ⟨b1, b2, b3⟩ := shiftOf_specQ n2 d2 hn2 hd2
  have hq := (frac_le_iff n1 d1 n2 d2 hd1 hd2).mp h
  have hq1 : (0 : ℚ) ≤ (n1 : ℚ) / d1 := by
    apply div_nonneg <;> exact_mod_cast Nat.zero_le _
  by_contra hlt
  have hlt : shiftOf n1 d1 < shiftOf n2 d2 := not_le.mp hlt
  have h5 := ratio_double _ hq1 hlt
  have h6 := a3 (lt_of_lt_of_le hlt b1)
  have h7 : (n1 : ℚ) / d1 * (2 : ℚ) ^ (shiftOf n2 d2) ≤ (n2 : ℚ) / d2 * (2 : ℚ) ^ (shiftOf n2 d2) :=
    mul_le_mul_of_nonneg_right hq (zpow_pos (by norm_num) _).le
  linarith

/-! ### `rne` on exact multiples and bounds -/

theorem rne_exact (m d : Nat) (hd : 0 < d) : rne (m * d) d = m := by
  rw [rne_def, Nat.mul_mod_left, Nat.mul_div_cancel _ hd]
  have : ¬ (2 * 0 > d ∨ 2 * 0 = d ∧ m % 2 = 1) := by omega
  rw [if_neg this]

theorem rne_le_of_le_mul (n d c : Nat) (hd : 0 < d) (h : n ≤ c * d) : rne n d ≤ c := by
  have := rne_mono n (c * d) d hd h
  rwa [rne_exact c d hd] at this

theorem le_rne_of_mul_le (n d c : Nat) (hd : 0 < d) (h : c * d ≤ n) : c ≤ rne n d := by
  have := rne_mono (c * d) n d hd h
  rwa [rne_exact c d hd] at this

/-! ### `roundMag` -/

/-- the (unsaturated) magnitude bits `(1074 − s)·2^52 + rne((num/den)·2^s)` -/
def magBits (num den : Nat) : Nat :=
  (1074 - shiftOf num den).toNat * 2 ^ 52 +
    rne (scaled num den (shiftOf num den)).1 (scaled num den (shiftOf num den)).2

theorem roundMag_eq (num den : Nat) (hn : 0 < num) (hd : 0 < den) :
    roundMag num den =
      if magBits num den ≥ 0x7FF0000000000000 then posInf else UInt64.ofNat (magBits num den) := by
  have h1 : (num == 0) = false := by simp; omega
  have h2 : (den == 0) = false := by simp; omega
  unfold roundMag
  simp only [h1, h2, Bool.or_self, Bool.false_eq_true, if_false]
  rfl

theorem roundMag_toNat (num den : Nat) (hn : 0 < num) (hd : 0 < den) :
    (roundMag num den).toNat = min (magBits num den) 0x7FF0000000000000 := by
  rw [roundMag_eq num den hn hd]
  split
  · rename_i h
    have : posInf.toNat = 0x7FF0000000000000 := by decide
    rw [this]; omega
  · rename_i h
    rw [UInt64.toNat_ofNat']
    have : magBits num den < 2 ^ 64 := by omega
    rw [Nat.mod_eq_of_lt this]; omega

/-- the magnitude never has the sign bit and never exceeds +Inf -/
theorem roundMag_le_inf (num den : Nat) : (roundMag num den).toNat ≤ 0x7FF0000000000000 := by
  rcases Nat.eq_zero_or_pos num with h | hn
  · subst h; simp [roundMag]
  rcases Nat.eq_zero_or_pos den with h | hd
  · subst h; simp [roundMag]
  rw [roundMag_toNat num den hn hd]; omega

theorem magBits_mono (n1 d1 n2 d2 : Nat) (hn1 : 0 < n1) (hd1 : 0 < d1) (hd2 : 0 < d2)
    (h : n1 * d2 ≤ n2 * d1) : magBits n1 d1 ≤ magBits n2 d2 := by
  have hn2 : 0 < n2 := by
    rcases Nat.eq_zero_or_pos n2 with h0 | h0
    · subst h0; have := Nat.mul_pos hn1 hd2; omega
    · exact h0
  have hs := shiftOf_antitone n1 d1 n2 d2 hn1 hd1 hd2 h
  obtain ⟨a1, a2, a3⟩ := shiftOf_spec n1 d1 hn1 hd1
  obtain ⟨b1, b2, b3⟩ := shiftOf_spec n2 d2 hn2 hd2
  unfold magBits
  rcases Int.lt_or_eq_of_le hs with hlt | heq
  · -- strictly larger shift for the smaller number: q1 ≤ 2^53, q2 ≥ 2^52, exponent gap ≥ 1
    have q1 := rne_le_of_le_mul _ _ (2 ^ 53) (scaled_snd_pos n1 _ hd1) (Nat.le_of_lt a2)
    have q2 := le_rne_of_mul_le _ _ (2 ^ 52) (scaled_snd_pos n2 _ hd2) (b3 (by omega))
    have e : (1074 - shiftOf n1 d1).toNat + 1 ≤ (1074 - shiftOf n2 d2).toNat := by omega
    have := Nat.mul_le_mul_right (2 ^ 52) e
    omega
  · rw [heq]
    apply Nat.add_le_add_left
    apply rne_mono_rat _ _ _ _ (scaled_snd_pos n1 _ hd1) (scaled_snd_pos n2 _ hd2)
    simp only [scaled_fst, scaled_snd]
    calc n1 * 2 ^ (shiftOf n1 d1).toNat * (d2 * 2 ^ (-shiftOf n1 d1).toNat)
        = n1 * d2 * (2 ^ (shiftOf n1 d1).toNat * 2 ^ (-shiftOf n1 d1).toNat) := by ring
      _ ≤ n2 * d1 * (2 ^ (shiftOf n1 d1).toNat * 2 ^ (-shiftOf n1 d1).toNat) :=
          Nat.mul_le_mul_right _ h
      _ = n2 * 2 ^ (shiftOf n1 d1).toNat * (d1 * 2 ^ (-shiftOf n1 d1).toNat) := by ring

/-- **roundMag_mono** — rounding is monotone in the rational value (as unsigned bit patterns;
the saturation to +Inf is monotone as well). -/
theorem roundMag_mono (n1 d1 n2 d2 : Nat) (hn1 : 0 < n1) (hd1 : 0 < d1) (hd2 : 0 < d2)
    (h : n1 * d2 ≤ n2 * d1) : (roundMag n1 d1).toNat ≤ (roundMag n2 d2).toNat := by
  have hn2 : 0 < n2 := by
    rcases Nat.eq_zero_or_pos n2 with h0 | h0
    · subst h0; have := Nat.mul_pos hn1 hd2; omega
    · exact h0
  rw [roundMag_toNat n1 d1 hn1 hd1, roundMag_toNat n2 d2 hn2 hd2]
  have := magBits_mono n1 d1 n2 d2 hn1 hd1 hd2 h
  omega

/-- non-trivial instances: 1/3 ≤ 1/2; 1/10 and the spec of its shift (s = 56) -/
example : (roundMag 1 3).toNat ≤ (roundMag 1 2).toNat :=
  roundMag_mono 1 3 1 2 (by decide) (by decide) (by decide) (by decide)
example : shiftOf 1 10 = 56 := by decide +kernel
example : shiftOf 1 2 ≤ shiftOf 1 3 := shiftOf_antitone 1 3 1 2 (by decide) (by decide) (by decide) (by decide)

end F64
