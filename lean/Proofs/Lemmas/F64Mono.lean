/-
Lemma library for the float64 model `Model/Base/F64.lean`: the binary scaling `scaled`, the
normalising shift `shiftOf`, and monotonicity of `roundMag` / `div`.

Technique: every statement is given on the model's own Nat/Int vocabulary (cross-multiplied
fractions); the proofs go through the rational number `(num/den)·2^s : ℚ` (`scaled_ratio`).
-/
import Model.Base.F64
import Proofs.Lemmas.F64Round
import Mathlib.Algebra.Order.Field.Rat
import Mathlib.Algebra.Order.Field.Basic
import Mathlib.Algebra.Order.Field.Power
import Mathlib.Tactic.Linarith
import Mathlib.Tactic.Ring
import Mathlib.Tactic.FieldSimp
import Mathlib.Tactic.Positivity

namespace F64

/-! ### `scaled` -/

theorem scaled_fst (num den : Nat) (s : Int) : (scaled num den s).1 = num * 2 ^ s.toNat := rfl
theorem scaled_snd (num den : Nat) (s : Int) : (scaled num den s).2 = den * 2 ^ (-s).toNat := rfl

theorem scaled_fst_pos {num : Nat} (den : Nat) (s : Int) (h : 0 < num) : 0 < (scaled num den s).1 :=
  Nat.mul_pos h (Nat.pow_pos (by decide))

theorem scaled_snd_pos (num : Nat) {den : Nat} (s : Int) (h : 0 < den) : 0 < (scaled num den s).2 :=
  Nat.mul_pos h (Nat.pow_pos (by decide))

/-- **scaled_shift** — raising the shift from `s` to `s'` multiplies the fraction by `2^(s'-s)`. -/
theorem scaled_shift (num den : Nat) (s s' : Int) (h : s ≤ s') :
    (scaled num den s').1 * (scaled num den s).2
      = (scaled num den s).1 * (scaled num den s').2 * 2 ^ (s' - s).toNat := by
  simp only [scaled_fst, scaled_snd]
  have e : s'.toNat + (-s).toNat = s.toNat + (-s').toNat + (s' - s).toNat := by omega
  calc num * 2 ^ s'.toNat * (den * 2 ^ (-s).toNat)
      = num * den * 2 ^ (s'.toNat + (-s).toNat) := by rw [Nat.pow_add]; ring
    _ = num * den * 2 ^ (s.toNat + (-s').toNat + (s' - s).toNat) := by rw [e]
    _ = num * 2 ^ s.toNat * (den * 2 ^ (-s').toNat) * 2 ^ (s' - s).toNat := by
        rw [Nat.pow_add, Nat.pow_add]; ring

/-- the rational value of the scaled fraction -/
theorem scaled_ratio (num den : Nat) (s : Int) :
    ((scaled num den s).1 : ℚ) / ((scaled num den s).2 : ℚ) = (num : ℚ) / den * (2 : ℚ) ^ s := by
  simp only [scaled_fst, scaled_snd]
  push_cast
  rcases Int.le_total 0 s with h | h
  · obtain ⟨k, rfl⟩ := Int.eq_ofNat_of_zero_le h
    have : (-(k : Int)).toNat = 0 := by omega
    simp [this, zpow_natCast]
    ring
  · obtain ⟨k, hk⟩ := Int.eq_ofNat_of_zero_le (Int.neg_nonneg_of_nonpos h)
    have hs : s = -(k : Int) := by omega
    subst hs
    have : (-(k : Int)).toNat = 0 := by omega
    simp [this, zpow_neg, zpow_natCast]
    field_simp

/-! ### `shiftOf` -/

theorem shiftOf_def (num den : Nat) :
    shiftOf num den =
      (if (if (scaled num den (52 - ((Nat.log2 num : Int) - (Nat.log2 den : Int)))).1 /
              (scaled num den (52 - ((Nat.log2 num : Int) - (Nat.log2 den : Int)))).2 < 2 ^ 52
            then 52 - ((Nat.log2 num : Int) - (Nat.log2 den : Int)) + 1
            else 52 - ((Nat.log2 num : Int) - (Nat.log2 den : Int))) > 1074 then 1074
       else (if (scaled num den (52 - ((Nat.log2 num : Int) - (Nat.log2 den : Int)))).1 /
              (scaled num den (52 - ((Nat.log2 num : Int) - (Nat.log2 den : Int)))).2 < 2 ^ 52
            then 52 - ((Nat.log2 num : Int) - (Nat.log2 den : Int)) + 1
            else 52 - ((Nat.log2 num : Int) - (Nat.log2 den : Int)))) := rfl

/-- `2^log2 n ≤ n < 2^(log2 n + 1)` as rationals with integer exponents -/
theorem log2_boundsQ (n : Nat) (hn : 0 < n) :
    (2 : ℚ) ^ (Nat.log2 n : Int) ≤ n ∧ (n : ℚ) < (2 : ℚ) ^ ((Nat.log2 n : Int) + 1) := by
  have h1 := Nat.log2_self_le (Nat.pos_iff_ne_zero.mp hn)
  have h2 := @Nat.lt_log2_self n
  constructor
  · rw [zpow_natCast]; exact_mod_cast h1
  · have : ((Nat.log2 n : Int) + 1) = ((Nat.log2 n + 1 : Nat) : Int) := by push_cast; rfl
    rw [this, zpow_natCast]; exact_mod_cast h2

/-- the first guess `s0 = 52 − (log2 num − log2 den)` puts the ratio strictly between 2^51 and 2^53 -/
theorem shift0_boundsQ (num den : Nat) (hn : 0 < num) (hd : 0 < den) :
    (2 : ℚ) ^ (51 : Int) < (num : ℚ) / den * (2 : ℚ) ^ (52 - ((Nat.log2 num : Int) - (Nat.log2 den : Int))) ∧
    (num : ℚ) / den * (2 : ℚ) ^ (52 - ((Nat.log2 num : Int) - (Nat.log2 den : Int))) < (2 : ℚ) ^ (53 : Int) := by
  obtain ⟨na, nb⟩ := log2_boundsQ num hn
  obtain ⟨da, db⟩ := log2_boundsQ den hd
  generalize (Nat.log2 num : Int) = a at *
  generalize (Nat.log2 den : Int) = b at *
  have hdq : (0 : ℚ) < den := by exact_mod_cast hd
  have h2 : ∀ k : Int, (0 : ℚ) < (2 : ℚ) ^ k := fun k => zpow_pos (by norm_num) k
  have two_ne : (2 : ℚ) ≠ 0 := by norm_num
  constructor
  · -- 2^51 = 2^a / 2^(b+1) * 2^s0 < num / den * 2^s0
    have e : (2 : ℚ) ^ (51 : Int) = (2 : ℚ) ^ a / (2 : ℚ) ^ (b + 1) * (2 : ℚ) ^ (52 - (a - b)) := by
      rw [← zpow_sub₀ two_ne, ← zpow_add₀ two_ne]; congr 1; omega
    rw [e]
    apply mul_lt_mul_of_pos_right _ (h2 _)
    calc (2 : ℚ) ^ a / (2 : ℚ) ^ (b + 1) < (2 : ℚ) ^ a / den := by
          apply div_lt_div_of_pos_left (h2 _) hdq db
      _ ≤ num / den := by apply div_le_div_of_nonneg_right na hdq.le
  · have e : (2 : ℚ) ^ (53 : Int) = (2 : ℚ) ^ (a + 1) / (2 : ℚ) ^ b * (2 : ℚ) ^ (52 - (a - b)) := by
      rw [← zpow_sub₀ two_ne, ← zpow_add₀ two_ne]; congr 1; omega
    rw [e]
    apply mul_lt_mul_of_pos_right _ (h2 _)
    calc (num : ℚ) / den < (2 : ℚ) ^ (a + 1) / den := by
          apply div_lt_div_of_pos_right nb hdq
      _ ≤ (2 : ℚ) ^ (a + 1) / (2 : ℚ) ^ b := by
          apply div_le_div_of_nonneg_left (h2 _).le (h2 _) da

end F64
