/-
C03 helper lemmas, continued: the mantissa phase of `readFloat` against the pieces of the
specification's `parseBody`, and the core theorem for `readFloat` after sign and prefix.
-/
import Proofs.Lemmas.C03Lang2
import Proofs.Lemmas.C03Trunc

namespace C03
open Num Spec.NumText

/-- fraction digits / remainder after the mantissa, as `parseBody` computes them -/
def spFP (dig : UInt8 → Bool) (u : Bytes) : Bytes :=
  match u.dropWhile dig with
  | 46 :: r' => r'.takeWhile dig
  | _ => []

def spR2 (dig : UInt8 → Bool) (u : Bytes) : Bytes :=
  match u.dropWhile dig with
  | 46 :: r' => r'.dropWhile dig
  | _ => u.dropWhile dig

theorem sp_dot (dig : UInt8 → Bool) (u r' : Bytes) (h : u.dropWhile dig = 46 :: r') :
    spFP dig u = r'.takeWhile dig ∧ spR2 dig u = r'.dropWhile dig := by
  unfold spFP spR2; rw [h]; exact ⟨rfl, rfl⟩

theorem sp_nodot (dig : UInt8 → Bool) (u : Bytes) (h : ∀ r', u.dropWhile dig ≠ 46 :: r') :
    spFP dig u = [] ∧ spR2 dig u = u.dropWhile dig := by
  unfold spFP spR2
  constructor
  · split
    · rename_i r' heq; exact absurd heq (h r')
    · rfl
  · split
    · rename_i r' heq; exact absurd heq (h r')
    · rfl

theorem dot_or_not (r1 : Bytes) : (∃ r', r1 = 46 :: r') ∨ (∀ r', r1 ≠ 46 :: r') := by
  cases r1 with
  | nil => exact Or.inr (fun r' h => by cases h)
  | cons a r =>
    by_cases h : a = 46
    · subst h; exact Or.inl ⟨r, rfl⟩
    · exact Or.inr (fun r' h' => h (by injection h'))

theorem parseBody_eq (dig : UInt8 → Bool) (base : Nat) (ec : UInt8) (bits : Nat) (must : Bool) (u : Bytes) :
    parseBody dig base ec bits must u =
      if (u.takeWhile dig).isEmpty && (spFP dig u).isEmpty then none
      else
        match spR2 dig u with
        | [] => if must then none
                else some (valOf base (u.takeWhile dig ++ spFP dig u), -((bits * (spFP dig u).length : Nat) : Int))
        | c :: r3 =>
          if lowerc c == ec then
            (parseExp r3).map fun e => (valOf base (u.takeWhile dig ++ spFP dig u), e + -((bits * (spFP dig u).length : Nat) : Int))
          else none := by
  rcases dot_or_not (u.dropWhile dig) with ⟨r', h⟩ | h
  · obtain ⟨e1, e2⟩ := sp_dot dig u r' h
    rw [e1, e2]
    unfold parseBody
    simp only [h]
    rfl
  · obtain ⟨e1, e2⟩ := sp_nodot dig u h
    rw [e1, e2]
    unfold parseBody
    simp only []
    split <;> rfl

/-- **the mantissa phase.** Either `readFloat` fails on a second point (and the specification's
remainder starts with that point), or it stops with a state and an unread rest such that: the
rest is the specification's remainder up to underscores, "saw digits" is the specification's
"some digit in the mantissa", and the exact reference value is the specification's
(all digits, number of fraction digits). -/
theorem mant_phase (hex : Bool) (t : Bytes) :
    (mantLoop hex t {} = none ∧ ∃ r'', spR2 (digS hex) (strip t) = 46 :: r'') ∨
    ∃ st rest, mantLoop hex t {} = some (st, rest) ∧ strip rest = spR2 (digS hex) (strip t) ∧
      st.sawdigits = !(((strip t).takeWhile (digS hex)).isEmpty && (spFP (digS hex) (strip t)).isEmpty) ∧
      refMant hex t 0 0 false =
        (valOf (baseOf hex) ((strip t).takeWhile (digS hex) ++ spFP (digS hex) (strip t)),
         (spFP (digS hex) (strip t)).length) := by
  have hms := mantLoop_strip hex t {}
  have hu := mem_strip t
  rw [← refMant_strip hex t 0 0 false]
  generalize strip t = u at *
  rcases dot_or_not (u.dropWhile (digS hex)) with ⟨r', h⟩ | h
  · obtain ⟨e1, e2⟩ := sp_dot (digS hex) u r' h
    obtain ⟨k1, k2⟩ := mantLoop_shape_dot hex u r' hu h
    rw [e1, e2]
    rcases dot_or_not (r'.dropWhile (digS hex)) with ⟨r'', h2⟩ | h2
    · left
      have := k1 r'' h2
      rw [this] at hms
      cases hm : mantLoop hex t {} with
      | none => exact ⟨rfl, r'', h2⟩
      | some p => rw [hm] at hms; cases hms
    · right
      obtain ⟨st, g1, _, g3⟩ := k2 h2
      rw [g1] at hms
      cases hm : mantLoop hex t {} with
      | none => rw [hm] at hms; cases hms
      | some p =>
        obtain ⟨st', rest⟩ := p
        rw [hm] at hms
        simp only [Option.map_some, Option.some.injEq, Prod.mk.injEq] at hms
        refine ⟨st', rest, rfl, hms.2.symm, by rw [← hms.1]; exact g3, ?_⟩
        exact refMant_shape_dot hex u r' hu h h2
  · obtain ⟨e1, e2⟩ := sp_nodot (digS hex) u h
    obtain ⟨st, g1, _, g3⟩ := mantLoop_shape_nodot hex u hu h
    rw [e1, e2]
    right
    rw [g1] at hms
    cases hm : mantLoop hex t {} with
    | none => rw [hm] at hms; cases hms
    | some p =>
      obtain ⟨st', rest⟩ := p
      rw [hm] at hms
      simp only [Option.map_some, Option.some.injEq, Prod.mk.injEq] at hms
      refine ⟨st', rest, rfl, hms.2.symm, by rw [← hms.1, g3]; simp, ?_⟩
      rw [refMant_shape_nodot hex u hu h]; simp

/-- the digits of the exponent literal in an underscore-free text (empty if there is none) -/
def expLitDigits (dig : UInt8 → Bool) (u : Bytes) : Bytes :=
  match spR2 dig u with
  | _ :: r3 => (splitSign r3).2
  | [] => []

/-- what the clamp of the exponent digit loop adds to the exponent the specification reads -/
def expGap (dig : UInt8 → Bool) (u : Bytes) : Int :=
  match spR2 dig u with
  | _ :: r3 => gapInt (splitSign r3).1 (splitSign r3).2
  | [] => 0

theorem ec_facts : (lowerc 46 == 112) = false ∧ (lowerc 46 == 101) = false ∧
    digS true 43 = false ∧ digS true 45 = false ∧ digS false 43 = false ∧ digS false 45 = false := by
  decide

/-- what `rfTail'` returns once the mantissa loop has stopped with digits seen -/
theorem rfTail'_of (hex neg : Bool) (t : Bytes) (st : MS) (rest : Bytes)
    (hm : mantLoop hex t {} = some (st, rest)) (hsd : st.sawdigits = true) :
    rfTail' hex neg t =
      match tailAdj hex rest with
      | none => { hex }
      | some x => { mant := st.mant,
                    exp := if st.mant != 0 then
                        (if hex then (if !st.sawdot then (st.nd : Int) else st.dp) * 4 else (if !st.sawdot then (st.nd : Int) else st.dp))
                          + x - ((if hex then st.ndMant * 4 else st.ndMant : Nat) : Int)
                      else 0,
                    neg, trunc := st.trunc, hex, ok := true } := by
  unfold rfTail'
  rw [hm]
  simp only [hsd, Bool.not_true, Bool.false_eq_true, if_false]
  rfl

/-- the accumulated invariant in the form needed for the value statement -/
theorem mant_value (hex : Bool) (t : Bytes) (st : MS) (rest : Bytes) (hm : mantLoop hex t {} = some (st, rest)) :
    st.mant < 2 ^ 64 ∧
    (st.trunc = false → (refMant hex t 0 0 false).1 = st.mant * baseOf hex ^ (st.nd - st.ndMant)) ∧
    ((if !st.sawdot then (st.nd : Int) else st.dp) - st.ndMant
        = ((st.nd - st.ndMant : Nat) : Int) - ((refMant hex t 0 0 false).2 : Nat)) := by
  have inv : Inv hex st (refMant hex t 0 0 false).1 (refMant hex t 0 0 false).2 st.sawdot :=
    mantLoop_inv hex t {} 0 0 (inv_init hex) st rest hm
  refine ⟨?_, inv.i1, ?_⟩
  · exact Nat.lt_of_lt_of_le inv.i5
      (Nat.le_trans (Nat.pow_le_pow_right (by cases hex <;> decide) inv.i2.2.1) (base_pow_le hex))
  · have h2 := inv.i2.1
    cases hs : st.sawdot with
    | true => have := inv.i3 hs; simp only [Bool.not_true, Bool.false_eq_true, if_false]; omega
    | false => have := inv.i4 hs; simp only [Bool.not_false, if_true, this]; omega

/-- what follows the mantissa, in the specification: the signed exponent (0 if absent) -/
def spTail (hex : Bool) (r2 : Bytes) : Option Int :=
  match r2 with
  | [] => if hex then none else some 0
  | c :: r3 => if lowerc c == (if hex then 112 else 101) then parseExp r3 else none

theorem parseBody_eq2 (hex : Bool) (u : Bytes) :
    parseBody (digS hex) (baseOf hex) (if hex then 112 else 101) (if hex then 4 else 1) hex u =
      if (u.takeWhile (digS hex)).isEmpty && (spFP (digS hex) u).isEmpty then none
      else (spTail hex (spR2 (digS hex) u)).map fun x =>
        (valOf (baseOf hex) (u.takeWhile (digS hex) ++ spFP (digS hex) u),
         x + -(((if hex then 4 else 1) * (spFP (digS hex) u).length : Nat) : Int)) := by
  rw [parseBody_eq]
  split
  · rfl
  · unfold spTail
    cases spR2 (digS hex) u with
    | nil => cases hex <;> simp
    | cons c r3 =>
      simp only []
      by_cases hc : (lowerc c == if hex = true then 112 else 101) = true
      · simp only [hc, if_true]
      · simp only [hc, Bool.false_eq_true, if_false, Option.map_none]

/-- **the part after the mantissa: `readFloat` vs the specification** -/
theorem tail_spec (hex : Bool) (rest : Bytes)
    (hrest : rest = [] ∨ ∃ c r, rest = c :: r ∧ c ≠ 95 ∧ c ≠ 46 ∧ digS hex c = false)
    (hu : ∃ prev', underscoresOK (digS hex) prev' rest = true) :
    (spTail hex (strip rest) = none → tailAdj hex rest = none) ∧
    (∀ x, spTail hex (strip rest) = some x → ∃ y, tailAdj hex rest = some y ∧
      y = x + (match strip rest with | _ :: r3 => gapInt (splitSign r3).1 (splitSign r3).2 | [] => 0)) := by
  rcases hrest with h | ⟨c, r1, h, h95, h46, hd⟩
  · subst h
    simp only [strip, List.filter_nil, spTail, tailAdj]
    cases hex
    · exact ⟨fun h => (by cases h), fun x h => ⟨x, h, by simp⟩⟩
    · exact ⟨fun _ => rfl, fun x h => (by cases h)⟩
  · subst h
    obtain ⟨prev', hu⟩ := hu
    obtain ⟨hu1, h951⟩ := uOK_after_nondigit (digS hex) prev' c r1 h95 hd hu
    rw [strip_cons c r1 h95]
    unfold spTail tailAdj
    simp only []
    have hec : (lower c == if hex = true then 112 else 101) = (lowerc c == if hex = true then 112 else 101) := by
      cases hex
      · exact (lang_byte_facts c).2.2.2.2.2.1
      · exact (lang_byte_facts c).2.2.2.2.2.2.1
    rw [hec]
    by_cases hc : (lowerc c == if hex = true then 112 else 101) = true
    · simp only [hc, if_true]
      obtain ⟨_, _, a1, a2, a3, a4⟩ := ec_facts
      have := okPart_spec (digS hex) (by cases hex; exact a3; exact a1) (by cases hex; exact a4; exact a2) r1 hu1 h951
      exact this
    · simp only [hc, Bool.false_eq_true, if_false]
      exact ⟨fun _ => trivial, fun x h => (by cases h)⟩

theorem spTail_dot (hex : Bool) (r'' : Bytes) : spTail hex (46 :: r'') = none := by
  obtain ⟨a, b, _⟩ := ec_facts
  unfold spTail
  cases hex <;> simp [a, b]

/-- **CORE: `readFloat` after sign and base prefix = the specification's `parseBody`** on every
text that obeys the underscore rule. Same accepted language; same sign and base flags; the
`uint64` mantissa does not wrap; and when `trunc` is false the returned (mantissa, exp) denote
the same number as the specification's (M, E): M = mantissa·B^j and exp = E + bits·j for the
number j of dropped trailing zero digits, plus the gap `expGap` the clamp of the exponent digit
loop opens for exponent literals of 100000 and more. -/
theorem rfTail_spec (hex neg : Bool) (t : Bytes) (prev : Bool)
    (hu : underscoresOK (digS hex) prev t = true) :
    (parseBody (digS hex) (baseOf hex) (if hex then 112 else 101) (if hex then 4 else 1) hex (strip t) = none →
      (rfTail hex neg t).ok = false ∧ (rfTail hex neg t).hex = hex) ∧
    (∀ M E, parseBody (digS hex) (baseOf hex) (if hex then 112 else 101) (if hex then 4 else 1) hex (strip t) = some (M, E) →
      (rfTail hex neg t).ok = true ∧ (rfTail hex neg t).neg = neg ∧ (rfTail hex neg t).hex = hex ∧
      (rfTail hex neg t).mant < 2 ^ 64 ∧
      ((rfTail hex neg t).trunc = false → ∃ j : Nat, M = (rfTail hex neg t).mant * baseOf hex ^ j ∧
        ((rfTail hex neg t).mant ≠ 0 →
          (rfTail hex neg t).exp = E + (((if hex then 4 else 1) * j : Nat) : Int) + expGap (digS hex) (strip t))) ∧
      ((rfTail hex neg t).trunc = true → ∃ j : Nat,
        (rfTail hex neg t).mant * baseOf hex ^ j < M ∧ M < ((rfTail hex neg t).mant + 1) * baseOf hex ^ j ∧
        baseOf hex ^ (maxDOf hex - 1) ≤ (rfTail hex neg t).mant ∧
        (rfTail hex neg t).exp = E + (((if hex then 4 else 1) * j : Nat) : Int) + expGap (digS hex) (strip t))) := by
  rw [rfTail_eq, parseBody_eq2]
  rcases mant_phase hex t with ⟨hm, r'', hr2⟩ | ⟨st, rest, hm, hstrip, hsd, href⟩
  · -- second point
    have hr : rfTail' hex neg t = { hex } := by unfold rfTail'; rw [hm]
    rw [hr, hr2, spTail_dot]
    refine ⟨fun _ => ⟨rfl, rfl⟩, fun M E h => ?_⟩
    split at h <;> cases h
  · by_cases hnd : (((strip t).takeWhile (digS hex)).isEmpty && (spFP (digS hex) (strip t)).isEmpty) = true
    · -- no digits
      have hr : rfTail' hex neg t = { hex } := by
        unfold rfTail'; rw [hm]; simp [hsd, hnd]
      rw [hr, if_pos hnd]
      exact ⟨fun _ => ⟨rfl, rfl⟩, fun M E h => (by cases h)⟩
    · rw [if_neg hnd]
      have hsd' : st.sawdigits = true := by
        rw [hsd]; simp only [Bool.not_eq_true] at hnd; rw [hnd]; rfl
      rw [rfTail'_of hex neg t st rest hm hsd']
      obtain ⟨t1, t2⟩ := tail_spec hex rest (mantLoop_rest hex t {} st rest hm) (mantLoop_uok hex t prev {} st rest hu hm)
      rw [hstrip] at t1 t2
      obtain ⟨v1, v2, v3⟩ := mant_value hex t st rest hm
      rw [href] at v2 v3
      cases hsp : spTail hex (spR2 (digS hex) (strip t)) with
      | none =>
        rw [t1 hsp]
        exact ⟨fun _ => ⟨rfl, rfl⟩, fun M E h => (by cases h)⟩
      | some x =>
        obtain ⟨y, hy, hyx⟩ := t2 x hsp
        rw [hy]
        refine ⟨fun h => (by cases h), fun M E h => ?_⟩
        simp only [Option.map_some, Option.some.injEq, Prod.mk.injEq] at h
        obtain ⟨hM, hE⟩ := h
        have invT := mantLoop_invT hex t {} 0 0 (inv_init hex) (invT_init hex) st rest hm
        have hyx : y = x + expGap (digS hex) (strip t) := by unfold expGap; exact hyx
        have hexp : ∀ (hm0 : st.mant ≠ 0),
            (if (st.mant != 0) = true then
              (if hex = true then (if (!st.sawdot) = true then (st.nd : Int) else st.dp) * 4
                else if (!st.sawdot) = true then (st.nd : Int) else st.dp) + y
                - ((if hex = true then st.ndMant * 4 else st.ndMant : Nat) : Int)
            else 0) = E + (((if hex then 4 else 1) * (st.nd - st.ndMant) : Nat) : Int) + expGap (digS hex) (strip t) := by
          intro hm0
          have hyx' := hyx
          have hne : (st.mant != 0) = true := by simpa using hm0
          simp only [hne, if_true]
          rw [← hE, hyx']
          simp only [] at v3
          cases hex
          · simp only [Bool.false_eq_true, if_false] at v3 ⊢
            push_cast; omega
          · simp only [if_true] at v3 ⊢
            push_cast; omega
        refine ⟨rfl, rfl, rfl, v1, fun htr => ⟨st.nd - st.ndMant, ?_, fun hm0 => hexp hm0⟩, fun htr => ?_⟩
        · rw [← hM]; exact v2 htr
        · have ht : st.trunc = true := htr
          obtain ⟨b1, b2⟩ := invT.t2 ht
          have hfull := invT.t1 ht
          have hinv : Inv hex st (refMant hex t 0 0 false).1 (refMant hex t 0 0 false).2 st.sawdot :=
            mantLoop_inv hex t {} 0 0 (inv_init hex) st rest hm
          have hndpos : 0 < st.nd := by have := hinv.i2.1; have := maxD_pos hex; omega
          obtain ⟨c1, _⟩ := invT.t3 hndpos
          rw [href] at b1 b2
          have hmpos : st.mant ≠ 0 := by
            have : 0 < baseOf hex ^ (st.ndMant - 1) := Nat.pow_pos (by have := base_ge hex; omega)
            omega
          refine ⟨st.nd - st.ndMant, by rw [← hM]; exact b1, by rw [← hM]; exact b2, by rw [← hfull]; exact c1,
            hexp hmpos⟩

end C03
