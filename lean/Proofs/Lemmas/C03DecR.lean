/-
C03 — the mirrored decimal slow path, part 1: the value of a decimal, `trim`, and `rightShift`
(exact division by 2^k when no digit is truncated).
-/
import Proofs.Lemmas.C03Decimal
import Proofs.Lemmas.F64Mono
import Model.Num.DecSlow

namespace C03
open Num Spec.NumText

/-- the magnitude a decimal stands for: 0.d₁d₂…dₙ · 10^dp -/
def dval (a : Dc) : ℚ := (valOf 10 a.d : ℚ) * (10 : ℚ) ^ (a.dp - a.d.length)

/-- digits produced by the shifts: `byte(dig + '0')` for dig < 10 -/
theorem outDigit (dig : Nat) (h : dig < 10) :
    isDec (UInt8.ofNat (dig + 48)) = true ∧ digVal (UInt8.ofNat (dig + 48)) = dig ∧
    ((UInt8.ofNat (dig + 48) == 48) = true ↔ dig = 0) := by
  have : ∀ d, d < 10 → isDec (UInt8.ofNat (d + 48)) = true ∧ digVal (UInt8.ofNat (d + 48)) = d ∧
      ((UInt8.ofNat (d + 48) == 48) = true ↔ d = 0) := by decide
  exact this dig h

theorem valOf_snoc (ds : Bytes) (c : UInt8) : valOf 10 (ds ++ [c]) = valOf 10 ds * 10 + digVal c := by
  rw [valOf_append10]; simp [valOf]

theorem digit_toNat (c : UInt8) (h : isDec c = true) : c.toNat - 48 = digVal c := by
  simp [digVal, h]

/-! ### trim -/

theorem trimZeros_snoc_zero (ds : Bytes) : trimZeros (ds ++ [48]) = trimZeros ds := by
  unfold trimZeros; simp

theorem trimZeros_snoc_nz (ds : Bytes) (c : UInt8) (h : c ≠ 48) : trimZeros (ds ++ [c]) = ds ++ [c] := by
  unfold trimZeros
  have : (c == 48) = false := by simpa using h
  simp [this]

/-- `trim` keeps the value, the digits stay digits, and the result does not end in `0` -/
theorem trimZeros_spec (ds : Bytes) :
    ∃ z : Nat, ds = trimZeros ds ++ List.replicate z 48 ∧ (trimZeros ds).getLast? ≠ some 48 := by
  induction ds using List.reverseRecOn with
  | nil => exact ⟨0, by simp [trimZeros], by simp [trimZeros]⟩
  | append_singleton ds c ih =>
    by_cases hc : c = 48
    · subst hc
      obtain ⟨z, h1, h2⟩ := ih
      rw [trimZeros_snoc_zero]
      refine ⟨z + 1, ?_, h2⟩
      conv => lhs; rw [h1]
      rw [List.append_assoc, List.replicate_succ']
    · rw [trimZeros_snoc_nz ds c hc]
      exact ⟨0, by simp, by simp [hc]⟩

theorem valOf_replicate_zero (ds : Bytes) (z : Nat) :
    valOf 10 (ds ++ List.replicate z 48) = valOf 10 ds * 10 ^ z := by
  rw [valOf_append10, List.length_replicate]
  have : valOf 10 (List.replicate z 48) = 0 := by
    induction z with
    | zero => rfl
    | succ z ih => rw [List.replicate_succ, valOf_cons10, ih]; simp [digVal, isDec]
  rw [this, Nat.add_zero]

theorem dval_trim (a : Dc) (hne : trimZeros a.d ≠ []) : dval a.trim = dval a := by
  obtain ⟨z, h1, _⟩ := trimZeros_spec a.d
  have hval : valOf 10 a.d = valOf 10 (trimZeros a.d) * 10 ^ z := by
    conv => lhs; rw [h1]
    exact valOf_replicate_zero _ _
  have hlen : a.d.length = (trimZeros a.d).length + z := by
    conv => lhs; rw [h1]
    simp
  unfold Dc.trim dval
  have he : (trimZeros a.d).isEmpty = false := by
    cases h : trimZeros a.d with
    | nil => exact absurd h hne
    | cons _ _ => rfl
  simp only [he, Bool.false_eq_true, if_false]
  rw [hval, hlen]
  generalize trimZeros a.d = t
  push_cast
  have : a.dp - (t.length : Int) = (z : Int) + (a.dp - ((t.length : Int) + (z : Int))) := by omega
  rw [this, zpow_add₀ (by norm_num : (10 : ℚ) ≠ 0), zpow_natCast]
  ring

/-! ### rightShift, phase by phase (all statements on naturals) -/

theorem shr_zero_iff (n k : Nat) : (n >>> k = 0) ↔ n < 2 ^ k := by
  rw [Nat.shiftRight_eq_div_pow]; exact Nat.div_eq_zero_iff_lt (Nat.pow_pos (by decide))

theorem shr_bne (n k : Nat) : ((n >>> k != 0) = true) ↔ 2 ^ k ≤ n := by
  rw [bne_iff_ne, Ne, shr_zero_iff]; omega

theorem shr_beq (n k : Nat) : ((n >>> k == 0) = true) ↔ n < 2 ^ k := by
  rw [beq_iff_eq, shr_zero_iff]

/-- the padding loop: multiply by ten until 2^k is reached -/
theorem rsPad_spec (k : Nat) : ∀ (fuel n r : Nat), 0 < n → n < 2 ^ k → 2 ^ k ≤ n * 10 ^ fuel →
    ∃ p, rsPad k fuel n r = (n * 10 ^ p, r + p) ∧ 2 ^ k ≤ n * 10 ^ p ∧ n * 10 ^ p < 10 * 2 ^ k ∧ 0 < p := by
  intro fuel
  induction fuel with
  | zero => intro n r _ h1 h2; simp at h2; omega
  | succ fuel ih =>
    intro n r hn hlt hf
    unfold rsPad
    rw [if_pos ((shr_beq n k).mpr hlt)]
    by_cases h10 : n * 10 < 2 ^ k
    · obtain ⟨p, e, a, b, _⟩ := ih (n * 10) (r + 1) (by omega) h10 (by
        rw [Nat.pow_succ] at hf
        calc 2 ^ k ≤ n * (10 ^ fuel * 10) := hf
          _ = n * 10 * 10 ^ fuel := by ring)
      refine ⟨p + 1, ?_, ?_, ?_, by omega⟩
      · rw [e, Nat.pow_succ]; congr 1
        · ring
        · omega
      · rw [Nat.pow_succ]; calc 2 ^ k ≤ n * 10 * 10 ^ p := a
          _ = n * (10 ^ p * 10) := by ring
      · rw [Nat.pow_succ]; calc n * (10 ^ p * 10) = n * 10 * 10 ^ p := by ring
          _ < 10 * 2 ^ k := b
    · refine ⟨1, ?_, by simpa using Nat.le_of_not_lt h10, by simp; omega, by omega⟩
      cases fuel with
      | zero => simp [rsPad]
      | succ f =>
        unfold rsPad
        have : ¬ ((n * 10) >>> k == 0) = true := fun h => h10 ((shr_beq _ k).mp h)
        rw [if_neg this]; simp

/-- phase 1: digits are consumed (then zeros appended) until the accumulator reaches 2^k -/
theorem rsPick_spec (k : Nat) (hk : k ≤ 60) : ∀ (ds : Bytes) (n r : Nat), ds.all isDec = true →
    (0 < n ∨ ∃ c cs, ds = c :: cs ∧ c ≠ 48) → (n < 2 ^ k → True) →
    ∃ n' r' rest pad, rsPick k ds n r = some (n', r', rest) ∧
      n' * 10 ^ rest.length + valOf 10 rest = (n * 10 ^ ds.length + valOf 10 ds) * 10 ^ pad ∧
      r' + rest.length = r + ds.length + pad ∧ (0 < pad → rest = []) ∧
      2 ^ k ≤ n' ∧ (n < 10 * 2 ^ k → n' < 10 * 2 ^ k) ∧ rest.all isDec = true := by
  intro ds
  induction ds with
  | nil =>
    intro n r _ hpos _
    have hn : 0 < n := by
      rcases hpos with h | ⟨c, cs, h, _⟩
      · exact h
      · cases h
    unfold rsPick
    by_cases hge : 2 ^ k ≤ n
    · rw [if_pos ((shr_bne n k).mpr hge)]
      exact ⟨n, r, [], 0, rfl, by simp, by simp, fun h => rfl, hge, fun h => h, rfl⟩
    · have hlt : n < 2 ^ k := by omega
      have : ¬ ((n >>> k != 0) = true) := fun h => hge ((shr_bne n k).mp h)
      rw [if_neg this]
      have hz : (n == 0) = false := by simp; omega
      simp only [hz, Bool.false_eq_true, if_false]
      have hf : 2 ^ k ≤ n * 10 ^ 64 := by
        have h1 : 2 ^ k ≤ 2 ^ 60 := Nat.pow_le_pow_right (by decide) hk
        have h2 : (2 : Nat) ^ 60 ≤ 10 ^ 64 := by decide
        calc 2 ^ k ≤ 10 ^ 64 := Nat.le_trans h1 h2
          _ ≤ n * 10 ^ 64 := Nat.le_mul_of_pos_left _ hn
      obtain ⟨p, e, a, b, hp⟩ := rsPad_spec k 64 n r hn hlt hf
      rw [e]
      exact ⟨n * 10 ^ p, r + p, [], p, rfl, by simp [valOf], by simp, fun _ => rfl, a, fun _ => b, rfl⟩
  | cons c cs ih =>
    intro n r hd hpos _
    rw [List.all_cons, Bool.and_eq_true] at hd
    unfold rsPick
    by_cases hge : 2 ^ k ≤ n
    · rw [if_pos ((shr_bne n k).mpr hge)]
      exact ⟨n, r, c :: cs, 0, rfl, by simp, by simp, fun h => by omega, hge, fun h => h,
        by rw [List.all_cons, hd.1, hd.2]; rfl⟩
    · have hlt : n < 2 ^ k := by omega
      have : ¬ ((n >>> k != 0) = true) := fun h => hge ((shr_bne n k).mp h)
      rw [if_neg this, digit_toNat c hd.1]
      have hpos' : 0 < n * 10 + digVal c ∨ ∃ c' cs', cs = c' :: cs' ∧ c' ≠ 48 := by
        left
        rcases hpos with h | ⟨c', cs', h, hc⟩
        · omega
        · injection h with h1 _
          subst h1
          have := ((mant_byte_facts c).2.1 hd.1).2.2.2.2
          have : digVal c ≠ 0 := fun hz => hc (by simpa using this.mpr hz)
          omega
      obtain ⟨n', r', rest, pad, e, v, rr, hp, g, b, hr⟩ := ih (n * 10 + digVal c) (r + 1) hd.2 hpos' (fun _ => trivial)
      refine ⟨n', r', rest, pad, e, ?_, by simp only [List.length_cons]; omega, hp, g, fun _ => ?_, hr⟩
      · rw [v, valOf_cons10, List.length_cons, Nat.pow_succ]; ring
      · have h9 := ((mant_byte_facts c).2.1 hd.1).2.1
        exact b (by omega)

theorem and_mask (n k : Nat) : n &&& (2 ^ k - 1) = n % 2 ^ k := Nat.and_two_pow_sub_one_eq_mod n k

/-- one division step: quotient digit below ten, the new accumulator again below 10·2^k, and
the long-division identity -/
theorem div_step (k n c : Nat) (hn : n < 10 * 2 ^ k) (hc : c ≤ 9) :
    n / 2 ^ k < 10 ∧ n % 2 ^ k * 10 + c < 10 * 2 ^ k ∧
    10 * 2 ^ k * (n / 2 ^ k) + (n % 2 ^ k * 10 + c) = 10 * n + c := by
  have hp : 0 < 2 ^ k := Nat.pow_pos (by decide)
  have h1 := Nat.div_add_mod n (2 ^ k)
  have h2 := Nat.mod_lt n hp
  have hq : n / 2 ^ k < 10 := (Nat.div_lt_iff_lt_mul hp).mpr (by omega)
  refine ⟨hq, by omega, ?_⟩
  calc 10 * 2 ^ k * (n / 2 ^ k) + (n % 2 ^ k * 10 + c) = 10 * (2 ^ k * (n / 2 ^ k) + n % 2 ^ k) + c := by ring
    _ = 10 * n + c := by rw [h1]

/-- phase 2: "pick up a digit, put down a digit" -/
theorem rsMain_spec (k : Nat) : ∀ (rest : Bytes) (n : Nat) (out : Bytes), rest.all isDec = true →
    n < 10 * 2 ^ k → out.all isDec = true →
    10 * 2 ^ k * valOf 10 (rsMain k rest n out).2.reverse + (rsMain k rest n out).1 =
      (10 * 2 ^ k * valOf 10 out.reverse + n) * 10 ^ rest.length + valOf 10 rest ∧
    (rsMain k rest n out).1 < 10 * 2 ^ k ∧ (rsMain k rest n out).2.length = out.length + rest.length ∧
    (rsMain k rest n out).2.all isDec = true ∧
    ∃ pre, (rsMain k rest n out).2.reverse = out.reverse ++ pre ∧
      (rest ≠ [] → 2 ^ k ≤ n → ∃ c t, pre = c :: t ∧ c ≠ 48) := by
  intro rest
  induction rest with
  | nil =>
    intro n out _ hn ho
    simp only [rsMain, List.length_nil, Nat.pow_zero, Nat.mul_one, valOf, List.foldl_nil, Nat.add_zero]
    exact ⟨trivial, hn, trivial, ho, [], by simp, fun h => absurd rfl h⟩
  | cons c cs ih =>
    intro n out hd hn ho
    rw [List.all_cons, Bool.and_eq_true] at hd
    have h9 := ((mant_byte_facts c).2.1 hd.1).2.1
    obtain ⟨a1, a2, a3⟩ := div_step k n (digVal c) hn h9
    obtain ⟨o1, o2, o3⟩ := outDigit (n / 2 ^ k) a1
    unfold rsMain
    simp only [Nat.shiftRight_eq_div_pow, and_mask, digit_toNat c hd.1]
    have ho' : (UInt8.ofNat (n / 2 ^ k + 48) :: out).all isDec = true := by
      rw [List.all_cons, o1, ho]; rfl
    obtain ⟨b1, b2, b3, b4, pre, b5, _⟩ := ih (n % 2 ^ k * 10 + digVal c) (UInt8.ofNat (n / 2 ^ k + 48) :: out) hd.2 a2 ho'
    refine ⟨?_, b2, by rw [b3]; simp only [List.length_cons]; omega, b4,
      UInt8.ofNat (n / 2 ^ k + 48) :: pre, by rw [b5, List.reverse_cons, List.append_assoc]; rfl, fun _ hge => ?_⟩
    · rw [b1, List.reverse_cons, valOf_snoc, o2, valOf_cons10, List.length_cons, Nat.pow_succ]
      have e : 10 * 2 ^ k * (valOf 10 out.reverse * 10 + n / 2 ^ k) + (n % 2 ^ k * 10 + digVal c)
          = 10 * (10 * 2 ^ k * valOf 10 out.reverse + n) + digVal c := by
        calc _ = 10 * (10 * 2 ^ k * valOf 10 out.reverse) + (10 * 2 ^ k * (n / 2 ^ k) + (n % 2 ^ k * 10 + digVal c)) := by ring
          _ = 10 * (10 * 2 ^ k * valOf 10 out.reverse) + (10 * n + digVal c) := by rw [a3]
          _ = _ := by ring
      rw [e]; ring
    · refine ⟨_, pre, rfl, ?_⟩
      intro h48
      have hq0 : n / 2 ^ k = 0 := o3.mp (by simp [h48])
      have : n < 2 ^ k := (Nat.div_eq_zero_iff_lt (Nat.pow_pos (by decide))).mp hq0
      omega

/-- fuel condition of the third loop: the accumulator is 0, or divisible by 2^j with enough fuel -/
def TailOK (k fuel n : Nat) : Prop := n = 0 ∨ ∃ j, j ≤ k ∧ 2 ^ j ∣ n ∧ k + 2 ≤ fuel + j

theorem tailOK_step (k fuel n : Nat) (h : TailOK k (fuel + 1) n) (hn : 0 < n) : TailOK k fuel (n % 2 ^ k * 10) := by
  rcases h with h | ⟨j, hj, hd, hf⟩
  · omega
  · by_cases h0 : n % 2 ^ k * 10 = 0
    · exact Or.inl h0
    · right
      have hdm : 2 ^ j ∣ n % 2 ^ k := (Nat.dvd_mod_iff (Nat.pow_dvd_pow 2 hj)).mpr hd
      by_cases hjk : j = k
      · subst hjk
        have hlt := Nat.mod_lt n (Nat.pow_pos (n := j) (by decide : 0 < 2))
        have := Nat.eq_zero_of_dvd_of_lt hdm hlt
        rw [this] at h0; simp at h0
      · refine ⟨j + 1, by omega, ?_, by omega⟩
        rw [Nat.pow_succ]
        obtain ⟨q, hq⟩ := hdm
        exact ⟨q * 5, by rw [hq]; ring⟩

theorem rsTail_mono (k : Nat) : ∀ (fuel n w : Nat) (out : Bytes), (rsTail k fuel n w out true).2 = true := by
  intro fuel
  induction fuel with
  | zero => intro n w out; rfl
  | succ fuel ih =>
    intro n w out
    unfold rsTail
    split
    · split
      · exact ih _ _ _
      · simp only [if_true_left]
        have : (if n >>> k > 0 then true else true) = true := by split <;> rfl
        rw [this]; exact ih _ _ _
    · rfl

/-- once the buffer is full, a non-zero remainder always ends in a dropped non-zero digit -/
theorem rsTail_cap (k : Nat) : ∀ (fuel n w : Nat) (out : Bytes) (tr : Bool), TailOK k fuel n → 0 < n →
    n < 10 * 2 ^ k → bufLen ≤ w → (rsTail k fuel n w out tr).2 = true := by
  intro fuel
  induction fuel with
  | zero =>
    intro n w out tr h hn _ _
    rcases h with h | ⟨j, hj, _, hf⟩ <;> omega
  | succ fuel ih =>
    intro n w out tr h hn hlt hw
    unfold rsTail
    rw [if_pos hn, if_neg (by omega), and_mask, Nat.shiftRight_eq_div_pow]
    by_cases hd : n / 2 ^ k > 0
    · rw [if_pos hd]; exact rsTail_mono k _ _ _ _
    · rw [if_neg hd]
      have hq : n / 2 ^ k = 0 := Nat.eq_zero_of_not_pos hd
      have hn2 : n < 2 ^ k := (Nat.div_eq_zero_iff_lt (Nat.pow_pos (by decide))).mp hq
      have hm : n % 2 ^ k = n := Nat.mod_eq_of_lt hn2
      have := tailOK_step k fuel n h hn
      rw [hm] at this ⊢
      have p1 : 0 < n * 10 := Nat.mul_pos hn (by decide)
      have p2 : n * 10 < 10 * 2 ^ k := by
        clear hd hq hm this ih h
        omega
      exact ih _ _ _ _ this p1 p2 hw

/-- phase 3: "put down extra digits" — without truncation the quotient is completed exactly -/
theorem rsTail_spec (k : Nat) : ∀ (fuel n : Nat) (out : Bytes), TailOK k fuel n → n < 10 * 2 ^ k →
    out.all isDec = true → (rsTail k fuel n out.length out false).2 = false →
    ∃ p, 10 * 2 ^ k * valOf 10 (rsTail k fuel n out.length out false).1.reverse =
        (10 * 2 ^ k * valOf 10 out.reverse + n) * 10 ^ p ∧
      (rsTail k fuel n out.length out false).1.length = out.length + p ∧
      (rsTail k fuel n out.length out false).1.all isDec = true ∧
      ∃ pre, (rsTail k fuel n out.length out false).1.reverse = out.reverse ++ pre ∧
        (2 ^ k ≤ n → ∃ c t, pre = c :: t ∧ c ≠ 48) := by
  intro fuel
  induction fuel with
  | zero =>
    intro n out h _ ho _
    have hn : n = 0 := by rcases h with h | ⟨j, hj, _, hf⟩ <;> omega
    subst hn
    exact ⟨0, by simp [rsTail], by simp [rsTail], by simpa [rsTail] using ho, [], by simp [rsTail],
      fun h => by have := Nat.pow_pos (n := k) (by decide : 0 < 2); omega⟩
  | succ fuel ih =>
    intro n out h hlt ho htr
    unfold rsTail at htr ⊢
    by_cases hn : 0 < n
    · rw [if_pos hn] at htr ⊢
      simp only [and_mask, Nat.shiftRight_eq_div_pow] at htr ⊢
      obtain ⟨a1, a2, a3⟩ := div_step k n 0 hlt (by omega)
      simp only [Nat.add_zero] at a2 a3
      by_cases hw : out.length < bufLen
      · rw [if_pos hw] at htr ⊢
        obtain ⟨o1, o2, o3⟩ := outDigit (n / 2 ^ k) a1
        have ho' : (UInt8.ofNat (n / 2 ^ k + 48) :: out).all isDec = true := by
          rw [List.all_cons, o1, ho]; rfl
        have hlen : (UInt8.ofNat (n / 2 ^ k + 48) :: out).length = out.length + 1 := rfl
        rw [← hlen] at htr ⊢
        obtain ⟨p, b1, b2, b3, pre, b5, _⟩ := ih (n % 2 ^ k * 10) _ (tailOK_step k fuel n h hn) a2 ho' htr
        refine ⟨p + 1, ?_, by rw [b2, hlen]; omega, b3, UInt8.ofNat (n / 2 ^ k + 48) :: pre,
          by rw [b5, List.reverse_cons, List.append_assoc]; rfl, fun hge => ⟨_, pre, rfl, ?_⟩⟩
        · rw [b1, List.reverse_cons, valOf_snoc, o2, Nat.pow_succ]
          have e : 10 * 2 ^ k * (valOf 10 out.reverse * 10 + n / 2 ^ k) + n % 2 ^ k * 10
              = 10 * (10 * 2 ^ k * valOf 10 out.reverse + n) := by
            calc _ = 10 * (10 * 2 ^ k * valOf 10 out.reverse) + (10 * 2 ^ k * (n / 2 ^ k) + n % 2 ^ k * 10) := by ring
              _ = 10 * (10 * 2 ^ k * valOf 10 out.reverse) + 10 * n := by rw [a3]
              _ = _ := by ring
          rw [e]; ring
        · intro h48
          have hq0 : n / 2 ^ k = 0 := o3.mp (by simp [h48])
          have : n < 2 ^ k := (Nat.div_eq_zero_iff_lt (Nat.pow_pos (by decide))).mp hq0
          omega
      · -- buffer full with a non-zero remainder: impossible without truncation
        exfalso
        have hcap := rsTail_cap k (fuel + 1) n out.length out false h hn hlt (by omega)
        unfold rsTail at hcap
        rw [if_pos hn, if_neg hw] at hcap
        simp only [and_mask, Nat.shiftRight_eq_div_pow] at hcap
        rw [if_neg hw] at htr
        rw [hcap] at htr; cases htr
    · have hn0 : n = 0 := by omega
      subst hn0
      simp only [Nat.lt_irrefl, if_false]
      exact ⟨0, by simp, by simp, ho, [], by simp,
        fun h => by have := Nat.pow_pos (n := k) (by decide : 0 < 2); omega⟩

theorem rsTail_len (k : Nat) : ∀ (fuel n : Nat) (out : Bytes) (tr : Bool), out.length ≤ bufLen →
    (rsTail k fuel n out.length out tr).1.length ≤ bufLen := by
  intro fuel
  induction fuel with
  | zero => intro n out tr h; exact h
  | succ fuel ih =>
    intro n out tr h
    unfold rsTail
    split
    · split
      · rename_i hw
        have : (UInt8.ofNat (n >>> k + 48) :: out).length = out.length + 1 := rfl
        rw [← this]; exact ih _ _ _ (by rw [this]; omega)
      · exact ih _ _ _ h
    · exact h

/-! ### well-formed decimals -/

/-- digits only, at most 800 of them, no leading zero -/
structure WF (a : Dc) : Prop where
  dig : a.d.all isDec = true
  len : a.d.length ≤ bufLen
  lead : ∀ c cs, a.d = c :: cs → c ≠ 48

def Trimmed (a : Dc) : Prop := a.d.getLast? ≠ some 48

theorem trimZeros_lead (ds : Bytes) (c : UInt8) (cs : Bytes) (h : ds = c :: cs) (hc : c ≠ 48) :
    ∃ cs', trimZeros ds = c :: cs' := by
  obtain ⟨z, h1, _⟩ := trimZeros_spec ds
  cases ht : trimZeros ds with
  | nil =>
    rw [ht, List.nil_append, h] at h1
    cases z with
    | zero => simp at h1
    | succ z => rw [List.replicate_succ] at h1; injection h1 with h1 _; exact absurd h1 hc
  | cons c' cs' =>
    rw [ht, h] at h1
    injection h1 with h1 _
    exact ⟨cs', by rw [h1]⟩

theorem trimZeros_sub (ds : Bytes) : (trimZeros ds).length ≤ ds.length ∧
    (ds.all isDec = true → (trimZeros ds).all isDec = true) := by
  obtain ⟨z, h1, _⟩ := trimZeros_spec ds
  constructor
  · conv => rhs; rw [h1]
    simp
  · intro h
    rw [h1, List.all_append, Bool.and_eq_true] at h
    exact h.1

/-- a well-formed, non-empty decimal stays so under `trim`, keeps its value, and is trimmed -/
theorem trim_wf (a : Dc) (hwf : WF a) (hne : a.d ≠ []) :
    WF a.trim ∧ a.trim.d ≠ [] ∧ Trimmed a.trim ∧ dval a.trim = dval a ∧ a.trim.neg = a.neg ∧ a.trim.trunc = a.trunc := by
  cases hd : a.d with
  | nil => exact absurd hd hne
  | cons c cs =>
    have hc := hwf.lead c cs hd
    obtain ⟨cs', ht⟩ := trimZeros_lead a.d c cs hd hc
    have hne' : trimZeros a.d ≠ [] := by rw [ht]; simp
    obtain ⟨l1, l2⟩ := trimZeros_sub a.d
    obtain ⟨_, _, h3⟩ := trimZeros_spec a.d
    refine ⟨⟨l2 hwf.dig, Nat.le_trans l1 hwf.len, ?_⟩, hne', h3, dval_trim a hne', rfl, rfl⟩
    intro c2 cs2 h
    have : a.trim.d = trimZeros a.d := rfl
    rw [this, ht] at h
    injection h with h _
    rw [← h]; exact hc

/-- **rightShift(a, k) divides exactly by 2^k** when it sets no truncation flag
(1 ≤ k ≤ 60, a well-formed, non-zero, not truncated). -/
theorem rightShift_exact (a : Dc) (k : Nat) (hk1 : 1 ≤ k) (hk : k ≤ 60) (hwf : WF a) (hne : a.d ≠ [])
    (ht : a.trunc = false) (ht' : (rightShift a k).trunc = false) :
    dval (rightShift a k) = dval a / (2 : ℚ) ^ k ∧ WF (rightShift a k) ∧ (rightShift a k).d ≠ [] ∧
    Trimmed (rightShift a k) ∧ (rightShift a k).neg = a.neg := by
  have hlead : 0 < 0 ∨ ∃ c cs, a.d = c :: cs ∧ c ≠ 48 := by
    right
    cases hd : a.d with
    | nil => exact absurd hd hne
    | cons c cs => exact ⟨c, cs, rfl, hwf.lead c cs hd⟩
  obtain ⟨n1, r1, rest, pad, e1, v1, rr, hpad, g1, b1, hr⟩ := rsPick_spec k hk a.d 0 0 hwf.dig hlead (fun _ => trivial)
  have hp2 : 0 < 2 ^ k := Nat.pow_pos (by decide)
  have b1' := b1 (by omega)
  obtain ⟨m1, m2, m3, m4, pre2, m5, m6⟩ := rsMain_spec k rest n1 [] hr b1' rfl
  have hrs : rightShift a k =
      ({ a with d := (rsTail k 64 (rsMain k rest n1 []).1 (rsMain k rest n1 []).2.length (rsMain k rest n1 []).2 a.trunc).1.reverse,
                dp := a.dp - ((r1 : Int) - 1),
                trunc := (rsTail k 64 (rsMain k rest n1 []).1 (rsMain k rest n1 []).2.length (rsMain k rest n1 []).2 a.trunc).2 } : Dc).trim := by
    unfold rightShift; rw [e1]
  generalize hn2 : (rsMain k rest n1 []).1 = n2 at *
  generalize ho2 : (rsMain k rest n1 []).2 = out2 at *
  rw [ht] at hrs
  have htr3 : (rsTail k 64 n2 out2.length out2 false).2 = false := by
    rw [hrs] at ht'; exact ht'
  have hok : TailOK k 64 n2 := Or.inr ⟨0, by omega, by simp, by omega⟩
  obtain ⟨p, t1, t2, t3, pre3, t5, t6⟩ := rsTail_spec k 64 n2 out2 hok m2 m4 htr3
  have hrestlen : rest.length ≤ a.d.length := by
    by_cases hp0 : 0 < pad
    · rw [hpad hp0]; simp
    · omega
  have tlen := rsTail_len k 64 n2 out2 false (by rw [m3]; simp only [List.length_nil, Nat.zero_add]; have := hwf.len; omega)
  generalize ho3 : (rsTail k 64 n2 out2.length out2 false).1 = out3 at *
  have v0 : valOf 10 ([] : Bytes) = 0 := rfl
  simp only [List.reverse_nil, v0, Nat.mul_zero, Nat.zero_add, List.length_nil, List.nil_append] at m1 m3 m5
  -- the untrimmed result
  let b : Dc := { a with d := out3.reverse, dp := a.dp - ((r1 : Int) - 1), trunc := false }
  have hb : rightShift a k = b.trim := by rw [hrs, htr3]
  -- first digit is non-zero
  have hfirst : ∃ c cs, out3.reverse = c :: cs ∧ c ≠ 48 := by
    rw [t5, m5]
    cases hrest : rest with
    | nil =>
      have : pre2 = [] := by
        have : out2.length = 0 := by rw [m3, hrest]; rfl
        have h0 : out2 = [] := List.length_eq_zero_iff.mp this
        rw [h0] at m5; simpa using m5.symm
      have hn21 : n2 = n1 := by
        have := hn2; rw [hrest] at this; simpa [rsMain] using this.symm
      obtain ⟨c, t, hc, hc48⟩ := t6 (by rw [hn21]; exact g1)
      exact ⟨c, t, by rw [this, hc]; rfl, hc48⟩
    | cons x xs =>
      obtain ⟨c, t, hc, hc48⟩ := m6 (by rw [hrest]; simp) g1
      exact ⟨c, t ++ pre3, by rw [hc]; rfl, hc48⟩
  obtain ⟨c, cs, hcs, hc48⟩ := hfirst
  have hbwf : WF b := by
    refine ⟨?_, by show out3.reverse.length ≤ bufLen; rw [List.length_reverse]; exact tlen, ?_⟩
    · show out3.reverse.all isDec = true
      rw [List.all_reverse]; exact t3
    · intro c' cs' h
      have : b.d = out3.reverse := rfl
      rw [this, hcs] at h; injection h with h _; rw [← h]; exact hc48
  have hbne : b.d ≠ [] := by show out3.reverse ≠ []; rw [hcs]; simp
  obtain ⟨w1, w2, w3, w4, w5, _⟩ := trim_wf b hbwf hbne
  rw [hb]
  refine ⟨?_, w1, w2, w3, w5⟩
  rw [w4]
  -- the value
  have hNat : 10 * 2 ^ k * valOf 10 out3.reverse = valOf 10 a.d * 10 ^ (pad + p) := by
    rw [t1, m1]
    simp only [Nat.zero_mul, Nat.zero_add] at v1
    rw [v1, Nat.pow_add]; ring
  have hlen3 : (out3.reverse.length : Int) = rest.length + p := by
    rw [List.length_reverse, t2, m3]; push_cast; ring
  have hr1 : (r1 : Int) + rest.length = a.d.length + pad := by
    have := rr; simp only [Nat.zero_add] at this; exact_mod_cast this
  show (valOf 10 out3.reverse : ℚ) * (10 : ℚ) ^ (a.dp - ((r1 : Int) - 1) - (out3.reverse.length : Int))
      = (valOf 10 a.d : ℚ) * (10 : ℚ) ^ (a.dp - a.d.length) / (2 : ℚ) ^ k
  have hQ : (valOf 10 out3.reverse : ℚ) = (valOf 10 a.d : ℚ) * (10 : ℚ) ^ ((pad + p : Nat) : Int) / (10 * (2 : ℚ) ^ k) := by
    have : ((10 * 2 ^ k * valOf 10 out3.reverse : Nat) : ℚ) = ((valOf 10 a.d * 10 ^ (pad + p) : Nat) : ℚ) := by rw [hNat]
    push_cast at this
    rw [zpow_natCast, eq_div_iff (by positivity)]
    linarith
  rw [hQ, hlen3]
  have hexp : a.dp - ((r1 : Int) - 1) - ((rest.length : Int) + p) = (a.dp - a.d.length) + 1 - ((pad + p : Nat) : Int) := by
    push_cast; omega
  rw [hexp, zpow_sub₀ (by norm_num : (10 : ℚ) ≠ 0), zpow_add₀ (by norm_num : (10 : ℚ) ≠ 0)]
  have h10 : (10 : ℚ) ^ ((pad + p : Nat) : Int) ≠ 0 := by positivity
  have h2 : (2 : ℚ) ^ k ≠ 0 := by positivity
  field_simp

end C03
