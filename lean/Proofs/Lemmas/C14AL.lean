/-
C14 helper lemmas: association lists (`Tab.AL`).
-/
import Model.Tab.Pipeline

namespace C14L
open Tab

variable {α β : Type} [DecidableEq α]

theorem lookup_upsert_self (k : α) (f : Option β → β) (l : List (α × β)) :
    AL.lookup k (AL.upsert k f l) = some (f (AL.lookup k l)) := by
  induction l with
  | nil => simp [AL.upsert, AL.lookup]
  | cons kv rest ih =>
    obtain ⟨k', v⟩ := kv
    by_cases h : k' = k
    · simp [AL.upsert, AL.lookup, h]
    · simp [AL.upsert, AL.lookup, h, ih]

theorem lookup_upsert_ne {k k' : α} (h : k' ≠ k) (f : Option β → β) (l : List (α × β)) :
    AL.lookup k' (AL.upsert k f l) = AL.lookup k' l := by
  induction l with
  | nil => simp [AL.upsert, AL.lookup, Ne.symm h]
  | cons kv rest ih =>
    obtain ⟨k'', v⟩ := kv
    by_cases h2 : k'' = k
    · subst h2
      simp [AL.upsert, AL.lookup, Ne.symm h]
    · by_cases h3 : k'' = k'
      · subst h3
        simp [AL.upsert, AL.lookup, h2]
      · simp [AL.upsert, AL.lookup, h2, h3, ih]

theorem lookup_upsert (k k' : α) (f : Option β → β) (l : List (α × β)) :
    AL.lookup k' (AL.upsert k f l) = if k' = k then some (f (AL.lookup k l)) else AL.lookup k' l := by
  by_cases h : k' = k
  · subst h; simp [lookup_upsert_self]
  · simp [h, lookup_upsert_ne h]

theorem lookup_isSome_iff_mem_keys (k : α) (l : List (α × β)) :
    (AL.lookup k l).isSome = true ↔ k ∈ AL.keys l := by
  induction l with
  | nil => simp [AL.lookup, AL.keys]
  | cons kv rest ih =>
    obtain ⟨k', v⟩ := kv
    by_cases h : k' = k
    · simp [AL.lookup, AL.keys, h]
    · have : ¬ k = k' := fun e => h e.symm
      simp only [AL.lookup, h, if_false, AL.keys, List.map_cons, List.mem_cons, this, false_or]
      simpa [AL.keys] using ih

theorem lookup_none_iff (k : α) (l : List (α × β)) :
    AL.lookup k l = none ↔ k ∉ AL.keys l := by
  rw [← lookup_isSome_iff_mem_keys]
  cases AL.lookup k l <;> simp

theorem keys_upsert (k : α) (f : Option β → β) (l : List (α × β)) :
    AL.keys (AL.upsert k f l) = if k ∈ AL.keys l then AL.keys l else AL.keys l ++ [k] := by
  induction l with
  | nil => simp [AL.upsert, AL.keys]
  | cons kv rest ih =>
    obtain ⟨k', v⟩ := kv
    by_cases h : k' = k
    · simp [AL.upsert, AL.keys, h]
    · have h' : ¬ k = k' := fun e => h e.symm
      simp only [AL.upsert, h, if_false, AL.keys, List.map_cons, List.mem_cons, h', false_or]
      simp only [AL.keys] at ih
      rw [ih]
      by_cases hm : k ∈ List.map (fun x => x.fst) rest <;> simp [hm]

theorem nodup_keys_upsert (k : α) (f : Option β → β) (l : List (α × β)) (h : (AL.keys l).Nodup) :
    (AL.keys (AL.upsert k f l)).Nodup := by
  rw [keys_upsert]
  split
  · exact h
  · rename_i hk
    exact List.nodup_append.mpr ⟨h, by simp, by
      intro a ha b hb
      simp at hb; subst hb
      intro e; subst e; exact hk ha⟩

theorem mem_insertSet (k x : α) (l : List α) : x ∈ AL.insertSet k l ↔ x = k ∨ x ∈ l := by
  unfold AL.insertSet
  split
  · rename_i h
    constructor
    · intro hx; exact Or.inr hx
    · rintro (rfl | hx)
      · exact h
      · exact hx
  · simp [or_comm]

theorem nodup_insertSet (k : α) (l : List α) (h : l.Nodup) : (AL.insertSet k l).Nodup := by
  unfold AL.insertSet
  split
  · exact h
  · rename_i hk
    exact List.nodup_append.mpr ⟨h, by simp, by
      intro a ha b hb
      simp at hb; subst hb
      intro e; subst e; exact hk ha⟩

/-- the entry of a key that is present -/
theorem lookup_mem {k : α} {v : β} {l : List (α × β)} (h : AL.lookup k l = some v) : (k, v) ∈ l := by
  induction l with
  | nil => simp [AL.lookup] at h
  | cons kv rest ih =>
    obtain ⟨k', v'⟩ := kv
    by_cases hk : k' = k
    · simp [AL.lookup, hk] at h; subst h; subst hk; simp
    · simp [AL.lookup, hk] at h; exact List.mem_cons_of_mem _ (ih h)

theorem mem_lookup {k : α} {v : β} {l : List (α × β)} (hn : (AL.keys l).Nodup) (h : (k, v) ∈ l) :
    AL.lookup k l = some v := by
  induction l with
  | nil => simp at h
  | cons kv rest ih =>
    obtain ⟨k', v'⟩ := kv
    simp only [AL.keys, List.map_cons, List.nodup_cons] at hn
    rcases List.mem_cons.mp h with e | hm
    · cases e; simp [AL.lookup]
    · have : k' ≠ k := by
        intro e; subst e
        exact hn.1 (List.mem_map.mpr ⟨(k', v), hm, rfl⟩)
      simp [AL.lookup, this]
      exact ih hn.2 hm

end C14L
