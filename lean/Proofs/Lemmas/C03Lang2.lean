/-
C03 helper lemmas, continued: the exponent suffix of `readFloat`, and the core comparison of
`readFloat` (after sign and base prefix) with the specification's `parseBody`.
-/
import Proofs.Lemmas.C03Lang

namespace C03
open Num Spec.NumText

/-! ### the exponent digit loop -/

/-- the clamped accumulation `if e < 10000 { e = e*10 + d }` over a digit block -/
def clampFrom (e : Nat) (ds : Bytes) : Nat :=
  ds.foldl (fun a c => if a < 10000 then a * 10 + (c.toNat - 48) else a) e

theorem expLoop_us (cs : Bytes) (e : Nat) : expLoop (95 :: cs) e = expLoop cs e := by
  conv => lhs; unfold expLoop
  simp

theorem expLoop_dig (c : UInt8) (cs : Bytes) (e : Nat) (h : isDec c = true) :
    expLoop (c :: cs) e = expLoop cs (if e < 10000 then e * 10 + (c.toNat - 48) else e) := by
  have h95 : (c == 95) = false := by simpa using (dec_byte_facts c h).2.1
  have hb := (mant_byte_facts c).1
  conv => lhs; unfold expLoop
  simp only [h95, Bool.false_eq_true, if_false, hb, h, if_true]

theorem expLoop_stop (r : Bytes) (e : Nat)
    (h : r = [] ∨ ∃ c r', r = c :: r' ∧ c ≠ 95 ∧ isDec c = false) : expLoop r e = (e, r) := by
  rcases h with h | ⟨c, r', h, h95, hd⟩
  · subst h; rfl
  · subst h
    have e95 : (c == 95) = false := by simpa using h95
    have hb := (mant_byte_facts c).1
    conv => lhs; unfold expLoop
    simp only [e95, Bool.false_eq_true, if_false, hb, hd]

theorem expLoop_block (ds : Bytes) (hds : ds.all isDec = true) : ∀ (e : Nat) (r : Bytes),
    expLoop (ds ++ r) e = expLoop r (clampFrom e ds) := by
  induction ds with
  | nil => intro e r; rfl
  | cons c ds ih =>
    intro e r
    rw [List.all_cons, Bool.and_eq_true] at hds
    rw [List.cons_append, expLoop_dig c _ e hds.1, ih hds.2]
    rfl

/-- on an underscore-free text: the digits are consumed, the rest is what follows them -/
theorem expLoop_shape (u : Bytes) (hu : ∀ c ∈ u, c ≠ 95) (e : Nat) :
    expLoop u e = (clampFrom e (u.takeWhile isDec), u.dropWhile isDec) := by
  have := expLoop_block _ (takeWhile_all (p := isDec) u) e (u.dropWhile isDec)
  rw [List.takeWhile_append_dropWhile] at this
  rw [this]
  apply expLoop_stop
  cases hd : u.dropWhile isDec with
  | nil => exact Or.inl rfl
  | cons c r' =>
    exact Or.inr ⟨c, r', rfl, hu c (mem_dropWhile u c (by rw [hd]; simp)), dropWhile_head u c r' hd⟩

/-- below the clamp the accumulation is the exact value -/
theorem clampFrom_exact (ds : Bytes) (hd : ds.all isDec = true) : ∀ e, valFrom e ds < 10000 →
    clampFrom e ds = valFrom e ds := by
  induction ds with
  | nil => intro e _; rfl
  | cons c cs ih =>
    intro e hlt
    rw [List.all_cons, Bool.and_eq_true] at hd
    have hge := valFrom_ge cs (e * 10 + digVal c)
    rw [valFrom_cons] at hlt
    have he : e < 10000 := by omega
    have hdv : c.toNat - 48 = digVal c := by simp [digVal, hd.1]
    unfold clampFrom
    rw [List.foldl_cons]
    simp only [he, if_true, hdv]
    rw [valFrom_cons]
    exact ih hd.2 _ hlt

theorem clampFrom_stuck (ds : Bytes) : ∀ e, 10000 ≤ e → clampFrom e ds = e := by
  induction ds with
  | nil => intro e _; rfl
  | cons c cs ih =>
    intro e he
    unfold clampFrom
    rw [List.foldl_cons]
    have : ¬ e < 10000 := by omega
    simp only [this, if_false]
    exact ih e he

theorem valFrom_ge_mul (ds : Bytes) : ∀ e, e * 10 ^ ds.length ≤ valFrom e ds := by
  induction ds with
  | nil => intro e; simp [valFrom]
  | cons c cs ih =>
    intro e
    rw [valFrom_cons, List.length_cons, Nat.pow_succ]
    have := ih (e * 10 + digVal c)
    have h2 : e * (10 ^ cs.length * 10) = (e * 10) * 10 ^ cs.length := by
      rw [Nat.mul_comm (10 ^ cs.length) 10, Nat.mul_assoc]
    have h3 : (e * 10) * 10 ^ cs.length ≤ (e * 10 + digVal c) * 10 ^ cs.length := Nat.mul_le_mul_right _ (by omega)
    omega

/-- **what the clamp does**: the loop `if e < 10000 { e = e*10 + d }` returns the exact value of
every literal below 100000; for a larger literal it keeps the first five significant digits: a
number c in [10000, 99999] with 10·c ≤ literal -/
theorem clampFrom_spec (ds : Bytes) (hd : ds.all isDec = true) : ∀ e, e < 10000 →
    (valFrom e ds < 100000 → clampFrom e ds = valFrom e ds) ∧
    (100000 ≤ valFrom e ds → 10000 ≤ clampFrom e ds ∧ clampFrom e ds ≤ 99999 ∧ 10 * clampFrom e ds ≤ valFrom e ds) := by
  induction ds with
  | nil => intro e he; exact ⟨fun _ => rfl, fun h => by simp [valFrom] at h; omega⟩
  | cons c cs ih =>
    intro e he
    rw [List.all_cons, Bool.and_eq_true] at hd
    have hdv : c.toNat - 48 = digVal c := by simp [digVal, hd.1]
    have h9 : digVal c ≤ 9 := ((mant_byte_facts c).2.1 hd.1).2.1
    have hstep : clampFrom e (c :: cs) = clampFrom (e * 10 + digVal c) cs := by
      unfold clampFrom
      rw [List.foldl_cons]
      simp only [he, if_true, hdv]
    rw [hstep, valFrom_cons]
    by_cases hsmall : e * 10 + digVal c < 10000
    · exact ih hd.2 _ hsmall
    · have hge : 10000 ≤ e * 10 + digVal c := by omega
      rw [clampFrom_stuck cs _ hge]
      have hmul := valFrom_ge_mul cs (e * 10 + digVal c)
      cases cs with
      | nil =>
        have hv : valFrom (e * 10 + digVal c) [] = e * 10 + digVal c := rfl
        rw [hv]; exact ⟨fun _ => rfl, fun h => by omega⟩
      | cons c2 cs2 =>
        have hp : 10 ≤ 10 ^ (c2 :: cs2).length := by
          rw [List.length_cons, Nat.pow_succ]
          have := Nat.pow_pos (n := cs2.length) (by decide : 0 < 10)
          omega
        have h10 : (e * 10 + digVal c) * 10 ≤ (e * 10 + digVal c) * 10 ^ (c2 :: cs2).length := Nat.mul_le_mul_left _ hp
        refine ⟨fun hlt => by omega, fun _ => ⟨hge, by omega, by omega⟩⟩

/-- what the clamp adds to the exponent the specification reads: 0 below 100000 -/
def gapInt (neg : Bool) (ds : Bytes) : Int :=
  (if neg then -1 else 1) * ((clampFrom 0 ds : Int) - (valOf 10 ds : Int))

theorem gapInt_nil (neg : Bool) : gapInt neg [] = 0 := by
  unfold gapInt clampFrom valOf; simp

/-- where the exponent loop stops -/
theorem expLoop_rest (t : Bytes) : ∀ e, (expLoop t e).2 = [] ∨ ∃ c r, (expLoop t e).2 = c :: r ∧ c ≠ 95 := by
  induction t with
  | nil => intro e; exact Or.inl rfl
  | cons c cs ih =>
    intro e
    by_cases h95 : c = 95
    · subst h95; rw [expLoop_us]; exact ih e
    · by_cases hd : isDec c = true
      · rw [expLoop_dig c cs e hd]; exact ih _
      · simp only [Bool.not_eq_true] at hd
        rw [expLoop_stop (c :: cs) e (Or.inr ⟨c, cs, rfl, h95, hd⟩)]
        exact Or.inr ⟨c, cs, rfl, h95⟩

theorem strip_eq_nil_of_head (r : Bytes) (h : r = [] ∨ ∃ c r', r = c :: r' ∧ c ≠ 95) : strip r = [] ↔ r = [] := by
  rcases h with h | ⟨c, r', h, h95⟩
  · subst h; simp [strip]
  · subst h; rw [strip_cons c r' h95]; simp

theorem mem_strip (t : Bytes) : ∀ c ∈ strip t, c ≠ 95 := by
  intro c hc
  unfold strip at hc
  rw [List.mem_filter] at hc
  simpa using hc.2

theorem dropWhile_nil_iff_all {p : UInt8 → Bool} (t : Bytes) : t.dropWhile p = [] ↔ t.all p = true := by
  induction t with
  | nil => simp
  | cons a t ih =>
    rw [List.dropWhile_cons, List.all_cons]
    by_cases h : p a = true
    · simp [h, ih]
    · simp [h]

theorem takeWhile_of_all {p : UInt8 → Bool} (t : Bytes) (h : t.all p = true) : t.takeWhile p = t := by
  induction t with
  | nil => rfl
  | cons a t ih =>
    rw [List.all_cons, Bool.and_eq_true] at h
    simp [h.1, ih h.2]

/-! ### `readFloat`'s tail, restructured -/

/-- the exponent part after the `e`/`p`: (signed exponent, unread rest), `none` = a failing return -/
def expPart (r1 : Bytes) : Option (Int × Bytes) :=
  match r1 with
  | [] => none
  | c1 :: r2 =>
    let esign : Int := if c1 == 45 then -1 else 1
    let r3 := if c1 == 43 || c1 == 45 then r2 else c1 :: r2
    match r3 with
    | [] => none
    | c2 :: _ =>
      if c2 < 48 || c2 > 57 then none
      else some (((expLoop r3 0).1 : Int) * esign, (expLoop r3 0).2)

/-- total exponent adjustment contributed by what follows the mantissa; `none` = failure -/
def tailAdj (hex : Bool) (rest : Bytes) : Option Int :=
  match rest with
  | [] => if hex then none else some 0
  | c :: r1 =>
    if lower c == (if hex then 112 else 101) then
      match expPart r1 with
      | some (x, []) => some x
      | _ => none
    else none

def rfTail' (hex neg : Bool) (s2 : Bytes) : RF :=
  match mantLoop hex s2 {} with
  | none => { hex }
  | some (st, rest) =>
    if !st.sawdigits then { hex }
    else
      let dp0 : Int := if !st.sawdot then st.nd else st.dp
      let dp1 : Int := if hex then dp0 * 4 else dp0
      let ndMant : Nat := if hex then st.ndMant * 4 else st.ndMant
      match tailAdj hex rest with
      | none => { hex }
      | some x => { mant := st.mant, exp := if st.mant != 0 then dp1 + x - ndMant else 0,
                    neg, trunc := st.trunc, hex, ok := true }

theorem rfTail_eq (hex neg : Bool) (s2 : Bytes) : rfTail hex neg s2 = rfTail' hex neg s2 := by
  unfold rfTail rfTail'
  cases hm : mantLoop hex s2 {} with
  | none => rfl
  | some p =>
    obtain ⟨st, rest⟩ := p
    simp only []
    by_cases hsd : st.sawdigits = true
    · simp only [hsd, Bool.not_true, Bool.false_eq_true, if_false]
      cases rest with
      | nil =>
        unfold tailAdj
        cases hex <;> simp
      | cons c r1 =>
        unfold tailAdj
        by_cases hc : (lower c == if hex = true then 112 else 101) = true
        · simp only [hc, if_true]
          cases r1 with
          | nil => simp [expPart]
          | cons c1 r2 =>
            unfold expPart
            simp only []
            cases hr3 : (if (c1 == 43 || c1 == 45) = true then r2 else c1 :: r2) with
            | nil => simp
            | cons c2 rr =>
              simp only []
              by_cases hd : (c2 < 48 || c2 > 57) = true
              · simp [hd]
              · simp only [hd, Bool.false_eq_true, if_false]
                cases hr4 : (expLoop (c2 :: rr) 0).2 with
                | nil =>
                  have : expLoop (c2 :: rr) 0 = ((expLoop (c2 :: rr) 0).1, []) := by rw [← hr4]
                  rw [this]; simp
                | cons a b =>
                  have : expLoop (c2 :: rr) 0 = ((expLoop (c2 :: rr) 0).1, a :: b) := by rw [← hr4]
                  rw [this]; simp
        · simp only [hc, Bool.false_eq_true, if_false]
          cases hex <;> simp
    · simp [hsd]

/-! ### the exponent part against `parseExp` -/

theorem nondigit_test (c : UInt8) : (decide (c < 48) || decide (c > 57)) = !isDec c := by
  revert c; apply byte_forall; decide +kernel

/-- accepted exponent: the signed value, `none` when `readFloat` fails in or after the exponent -/
def okPart (r1 : Bytes) : Option Int :=
  match expPart r1 with
  | some (x, []) => some x
  | _ => none

/-- the unsigned digits `r3` as `readFloat` reads them: (clamped value, unread rest) -/
def digitsPart (r3 : Bytes) : Option (Nat × Bytes) :=
  match r3 with
  | [] => none
  | c2 :: _ => if c2 < 48 || c2 > 57 then none else some ((expLoop r3 0).1, (expLoop r3 0).2)

theorem expPart_cons (c1 : UInt8) (r2 : Bytes) :
    expPart (c1 :: r2) =
      (digitsPart (if c1 == 43 || c1 == 45 then r2 else c1 :: r2)).map
        (fun p => ((p.1 : Int) * (if c1 == 45 then -1 else 1), p.2)) := by
  unfold expPart digitsPart
  simp only []
  cases (if (c1 == 43 || c1 == 45) = true then r2 else c1 :: r2) with
  | nil => rfl
  | cons c2 rr =>
    simp only []
    split <;> rfl

/-- the unsigned digits `r3` (no leading underscore): model vs specification -/
theorem expDigits_spec (r3 : Bytes) (h95 : ∀ r', r3 ≠ 95 :: r') :
    ((strip r3).isEmpty || !(strip r3).all isDec) = true →
      digitsPart r3 = none ∨ ∃ x a b, digitsPart r3 = some (x, a :: b) := by
  intro hbad
  unfold digitsPart
  cases r3 with
  | nil => exact Or.inl rfl
  | cons c2 rr =>
    have hc95 : c2 ≠ 95 := fun h => h95 rr (by rw [h])
    simp only [nondigit_test]
    by_cases hd : isDec c2 = true
    · right
      simp only [hd, Bool.not_true, Bool.false_eq_true, if_false]
      have hs := expLoop_strip (c2 :: rr) 0
      rw [expLoop_shape _ (mem_strip _) 0] at hs
      have h2 := (Prod.mk.injEq _ _ _ _).mp hs
      have hne : (expLoop (c2 :: rr) 0).2 ≠ [] := by
        intro hnil
        have : (strip (c2 :: rr)).dropWhile isDec = [] := by rw [h2.2, hnil]; rfl
        rw [dropWhile_nil_iff_all] at this
        rw [strip_cons c2 rr hc95] at hbad this
        simp [this] at hbad
      cases hr : (expLoop (c2 :: rr) 0).2 with
      | nil => exact absurd hr hne
      | cons a b => exact ⟨_, a, b, rfl⟩
    · left; simp [hd]

theorem expDigits_ok (r3 : Bytes) (h95 : ∀ r', r3 ≠ 95 :: r')
    (hgood : ((strip r3).isEmpty || !(strip r3).all isDec) = false) :
    digitsPart r3 = some (clampFrom 0 (strip r3), []) := by
  unfold digitsPart
  cases r3 with
  | nil => simp [strip] at hgood
  | cons c2 rr =>
    have hc95 : c2 ≠ 95 := fun h => h95 rr (by rw [h])
    simp only [Bool.or_eq_false_iff, Bool.not_eq_false'] at hgood
    have hall := hgood.2
    have hd : isDec c2 = true := by
      rw [strip_cons c2 rr hc95, List.all_cons, Bool.and_eq_true] at hall; exact hall.1
    have hs := expLoop_strip (c2 :: rr) 0
    rw [expLoop_shape _ (mem_strip _) 0] at hs
    have h2 := (Prod.mk.injEq _ _ _ _).mp hs
    have e1 : (expLoop (c2 :: rr) 0).2 = [] := by
      have : (strip (c2 :: rr)).dropWhile isDec = [] := (dropWhile_nil_iff_all _).mpr hall
      rw [this] at h2
      exact (strip_eq_nil_of_head _ (expLoop_rest _ 0)).mp h2.2.symm
    have e2 : (expLoop (c2 :: rr) 0).1 = clampFrom 0 (strip (c2 :: rr)) := by
      rw [← h2.1, takeWhile_of_all _ hall]
    simp only [nondigit_test, hd, Bool.not_true, Bool.false_eq_true, if_false, e1, e2]

/-- **the exponent part of `readFloat` = `parseExp` of the specification** (on a text obeying the
underscore rule and not starting with an underscore); the code's exponent is the specification's plus the clamp's gap -/
theorem okPart_spec (dig : UInt8 → Bool) (hd43 : dig 43 = false) (hd45 : dig 45 = false)
    (r1 : Bytes) (hu : underscoresOK dig false r1 = true) (h95 : ∀ r', r1 ≠ 95 :: r') :
    (parseExp (strip r1) = none → okPart r1 = none) ∧
    (∀ x, parseExp (strip r1) = some x →
      ∃ y, okPart r1 = some y ∧ y = x + gapInt (splitSign (strip r1)).1 (splitSign (strip r1)).2) := by
  cases r1 with
  | nil => exact ⟨fun _ => rfl, fun x h => by simp [strip, parseExp, splitSign] at h⟩
  | cons c1 r2 =>
    have hc95 : c1 ≠ 95 := fun h => h95 r2 (by rw [h])
    rw [strip_cons c1 r2 hc95]
    unfold okPart
    rw [expPart_cons]
    -- the three sign cases share this tail
    have tail : ∀ (neg : Bool) (r3 : Bytes) (sg : Int), (∀ r', r3 ≠ 95 :: r') →
        sg = (if neg then -1 else 1) →
        ((if ((strip r3).isEmpty || !(strip r3).all isDec) = true then (none : Option Int)
          else some (if neg then -((valOf 10 (strip r3) : Nat) : Int) else ((valOf 10 (strip r3) : Nat) : Int))) = none →
          (match (digitsPart r3).map (fun p => ((p.1 : Int) * sg, p.2)) with
            | some (x, []) => some x
            | _ => none) = none) ∧
        (∀ x, (if ((strip r3).isEmpty || !(strip r3).all isDec) = true then (none : Option Int)
          else some (if neg then -((valOf 10 (strip r3) : Nat) : Int) else ((valOf 10 (strip r3) : Nat) : Int))) = some x →
          ∃ y, (match (digitsPart r3).map (fun p => ((p.1 : Int) * sg, p.2)) with
            | some (x, []) => some x
            | _ => none) = some y ∧ y = x + gapInt neg (strip r3)) := by
      intro neg r3 sg h3 hsg
      by_cases hbad : ((strip r3).isEmpty || !(strip r3).all isDec) = true
      · simp only [hbad, if_true]
        refine ⟨fun _ => ?_, fun x h => (by cases h)⟩
        rcases expDigits_spec r3 h3 hbad with h | ⟨x, a, b, h⟩
        · rw [h]; rfl
        · rw [h]; rfl
      · simp only [Bool.not_eq_true] at hbad
        have hall : (strip r3).all isDec = true := by
          simp only [Bool.or_eq_false_iff, Bool.not_eq_false'] at hbad; exact hbad.2
        simp only [hbad, Bool.false_eq_true, if_false]
        rw [expDigits_ok r3 h3 hbad]
        refine ⟨fun h => (by cases h), fun x h => ⟨_, rfl, ?_⟩⟩
        injection h with h
        rw [hsg, ← h]
        unfold gapInt
        cases neg <;> simp <;> omega
    by_cases hp : c1 = 43
    · subst hp
      obtain ⟨_, h2⟩ := uOK_after_nondigit dig false 43 r2 (by decide) hd43 hu
      have := tail false r2 1 h2 rfl
      simpa [parseExp, splitSign] using this
    · by_cases hm : c1 = 45
      · subst hm
        obtain ⟨_, h2⟩ := uOK_after_nondigit dig false 45 r2 (by decide) hd45 hu
        have := tail true r2 (-1) h2 rfl
        simpa [parseExp, splitSign] using this
      · have e1 : (c1 == 43) = false := by simpa using hp
        have e2 : (c1 == 45) = false := by simpa using hm
        have h3 : ∀ r', c1 :: r2 ≠ 95 :: r' := fun r' h => hc95 (by injection h)
        have := tail false (c1 :: r2) 1 h3 rfl
        rw [strip_cons c1 r2 hc95] at this
        simpa [parseExp, splitSign_other c1 _ hp hm, e1, e2] using this

end C03
