/-
Helper lemmas for C09: bytewise order on byte strings is a strict total order; comparators that
are sign functions of a strict weak order; the per-field order with string fallback; the
lexicographic `lessBy`; sorted permutations.
-/
import Model.Proc.Sort

namespace C09
open Proc.Sort

/-! ### Go's `<` on strings -/

theorem ltBytes_irrefl (a : Bytes) : ltBytes a a = false := by
  induction a with
  | nil => simp [ltBytes]
  | cons x xs ih => simp [ltBytes, ih]

theorem ltBytes_trans : ∀ (a b c : Bytes), ltBytes a b = true → ltBytes b c = true → ltBytes a c = true
  | _, [], _, h, _ => by simp [ltBytes] at h
  | _, _ :: _, [], _, h => by simp [ltBytes] at h
  | [], _ :: _, _ :: _, _, _ => by simp [ltBytes]
  | x :: xs, y :: ys, z :: zs, h1, h2 => by
    simp only [ltBytes] at h1 h2 ⊢
    have ih := ltBytes_trans xs ys zs
    simp only [UInt8.lt_iff_toNat_lt] at h1 h2 ⊢
    split at h1
    · split at h2
      · rw [if_pos (by omega)]
      · split at h2
        · simp at h2
        · rw [if_pos (by omega)]
    · split at h1
      · simp at h1
      · split at h2
        · rw [if_pos (by omega)]
        · split at h2
          · simp at h2
          · rw [if_neg (by omega), if_neg (by omega)]
            exact ih h1 h2

theorem ltBytes_total : ∀ (a b : Bytes), a ≠ b → ltBytes a b = true ∨ ltBytes b a = true
  | [], [], h => absurd rfl h
  | [], _ :: _, _ => by simp [ltBytes]
  | _ :: _, [], _ => by simp [ltBytes]
  | x :: xs, y :: ys, h => by
    simp only [ltBytes, UInt8.lt_iff_toNat_lt]
    by_cases h1 : x.toNat < y.toNat
    · simp [h1]
    · by_cases h2 : y.toNat < x.toNat
      · simp [h2]
      · have hxy : x = y := UInt8.toNat_inj.mp (by omega)
        subst hxy
        have : xs ≠ ys := fun e => h (by rw [e])
        simpa [h1] using ltBytes_total xs ys this

theorem ltBytes_asymm (a b : Bytes) (h : ltBytes a b = true) : ltBytes b a = false := by
  cases hba : ltBytes b a with
  | false => rfl
  | true =>
    have := ltBytes_trans a b a h hba
    rw [ltBytes_irrefl] at this
    exact absurd this (by simp)

/-! ### Comparators -/

/-- `cmp` is the sign function of a strict weak order on values (equivalently: of the order of a
rank into a linear preorder; see `SignOfWeakOrder.ofRank`). -/
structure SignOfWeakOrder (cmp : Bytes → Bytes → Int) : Prop where
  refl : ∀ a, cmp a a = 0
  antisymm : ∀ a b, cmp a b < 0 ↔ 0 < cmp b a
  trans : ∀ a b c, cmp a b < 0 → cmp b c < 0 → cmp a c < 0
  eq_trans : ∀ a b c, cmp a b = 0 → cmp b c = 0 → cmp a c = 0

namespace SignOfWeakOrder
variable {cmp : Bytes → Bytes → Int} (W : SignOfWeakOrder cmp)
include W

theorem eq_symm (a b : Bytes) (h : cmp a b = 0) : cmp b a = 0 := by
  have h1 := W.antisymm a b
  have h2 := W.antisymm b a
  omega

theorem lt_of_lt_of_eq (a b c : Bytes) (h1 : cmp a b < 0) (h2 : cmp b c = 0) : cmp a c < 0 := by
  rcases Int.lt_trichotomy (cmp a c) 0 with h | h | h
  · exact h
  · have := W.eq_trans a c b h (W.eq_symm b c h2); omega
  · have hca : cmp c a < 0 := (W.antisymm c a).mpr h
    have := W.trans c a b hca h1
    have := (W.antisymm c b).mp this
    omega

theorem lt_of_eq_of_lt (a b c : Bytes) (h1 : cmp a b = 0) (h2 : cmp b c < 0) : cmp a c < 0 := by
  rcases Int.lt_trichotomy (cmp a c) 0 with h | h | h
  · exact h
  · have := W.eq_trans b a c (W.eq_symm a b h1) h; omega
  · have hca : cmp c a < 0 := (W.antisymm c a).mpr h
    have := W.trans b c a h2 hca
    have := (W.antisymm b a).mp this
    omega

end SignOfWeakOrder

/-- The order of one field as `less` uses it: the comparator, then the string fallback. -/
def fieldLess (cmp : Bytes → Bytes → Int) (a b : Bytes) : Bool :=
  if cmp a b != 0 then decide (cmp a b < 0) else ltBytes a b

theorem fieldLess_irrefl {cmp} (W : SignOfWeakOrder cmp) (a : Bytes) : fieldLess cmp a a = false := by
  simp [fieldLess, W.refl, ltBytes_irrefl]

theorem fieldLess_trans {cmp} (W : SignOfWeakOrder cmp) (a b c : Bytes)
    (h1 : fieldLess cmp a b = true) (h2 : fieldLess cmp b c = true) : fieldLess cmp a c = true := by
  unfold fieldLess at *
  by_cases hab : cmp a b = 0 <;> by_cases hbc : cmp b c = 0
  · have hac := W.eq_trans a b c hab hbc
    simp [hab, hbc, hac] at *
    exact ltBytes_trans a b c h1 h2
  · simp [hab, hbc] at h1 h2
    have := W.lt_of_eq_of_lt a b c hab h2
    have hne : cmp a c ≠ 0 := by omega
    simp [hne, this]
  · simp [hab, hbc] at h1 h2
    have := W.lt_of_lt_of_eq a b c h1 hbc
    have hne : cmp a c ≠ 0 := by omega
    simp [hne, this]
  · simp [hab, hbc] at h1 h2
    have := W.trans a b c h1 h2
    have hne : cmp a c ≠ 0 := by omega
    simp [hne, this]

theorem fieldLess_total {cmp} (W : SignOfWeakOrder cmp) (a b : Bytes) (h : a ≠ b) :
    fieldLess cmp a b = true ∨ fieldLess cmp b a = true := by
  unfold fieldLess
  by_cases hab : cmp a b = 0
  · have hba := W.eq_symm a b hab
    simp [hab, hba]
    exact ltBytes_total a b h
  · have h1 := W.antisymm a b
    have h2 := W.antisymm b a
    have hba : cmp b a ≠ 0 := fun e => hab (W.eq_symm b a e)
    simp [hab, hba]
    omega

theorem fieldLess_asymm {cmp} (W : SignOfWeakOrder cmp) (a b : Bytes)
    (h : fieldLess cmp a b = true) : fieldLess cmp b a = false := by
  cases hba : fieldLess cmp b a with
  | false => rfl
  | true =>
    have := fieldLess_trans W a b a h hba
    rw [fieldLess_irrefl W] at this
    exact absurd this (by simp)

/-! ### The lexicographic comparison -/

theorem lessBy_cons (cmpOf : Field → Bytes → Bytes → Int) (node : Field) (rest : List Field)
    (a b : List Bytes) :
    lessBy cmpOf (node :: rest) a b =
      if getVal a node.idx = getVal b node.idx then lessBy cmpOf rest a b
      else fieldLess (cmpOf node) (getVal a node.idx) (getVal b node.idx) := by
  by_cases h : getVal a node.idx = getVal b node.idx
  · simp [lessBy, h]
  · simp [lessBy, h, fieldLess]

theorem lessBy_irrefl (cmpOf : Field → Bytes → Bytes → Int) (flat : List Field) (a : List Bytes) :
    lessBy cmpOf flat a a = false := by
  induction flat with
  | nil => rfl
  | cons node rest ih => rw [lessBy_cons]; simp [ih]

theorem lessBy_trans (cmpOf : Field → Bytes → Bytes → Int) (flat : List Field)
    (hW : ∀ f ∈ flat, SignOfWeakOrder (cmpOf f)) (a b c : List Bytes)
    (h1 : lessBy cmpOf flat a b = true) (h2 : lessBy cmpOf flat b c = true) :
    lessBy cmpOf flat a c = true := by
  induction flat with
  | nil => simp [lessBy] at h1
  | cons node rest ih =>
    have W := hW node (by simp)
    have ih' := ih (fun f hf => hW f (by simp [hf]))
    rw [lessBy_cons] at h1 h2 ⊢
    by_cases hab : getVal a node.idx = getVal b node.idx
    · rw [if_pos hab] at h1
      by_cases hbc : getVal b node.idx = getVal c node.idx
      · rw [if_pos hbc] at h2
        rw [if_pos (hab.trans hbc)]
        exact ih' h1 h2
      · rw [if_neg hbc] at h2
        rw [hab, if_neg hbc]
        exact h2
    · rw [if_neg hab] at h1
      by_cases hbc : getVal b node.idx = getVal c node.idx
      · rw [if_pos hbc] at h2
        rw [← hbc, if_neg hab]
        exact h1
      · rw [if_neg hbc] at h2
        have hac := fieldLess_trans W _ _ _ h1 h2
        have hne : getVal a node.idx ≠ getVal c node.idx := by
          intro e
          rw [e] at h1
          have := fieldLess_asymm W _ _ h1
          rw [this] at h2
          exact absurd h2 (by simp)
        rw [if_neg hne]
        exact hac

theorem lessBy_total (cmpOf : Field → Bytes → Bytes → Int) (flat : List Field)
    (hW : ∀ f ∈ flat, SignOfWeakOrder (cmpOf f)) (a b : List Bytes)
    (hne : ∃ f ∈ flat, getVal a f.idx ≠ getVal b f.idx) :
    lessBy cmpOf flat a b = true ∨ lessBy cmpOf flat b a = true := by
  induction flat with
  | nil => obtain ⟨f, hf, _⟩ := hne; simp at hf
  | cons node rest ih =>
    have W := hW node (by simp)
    rw [lessBy_cons, lessBy_cons]
    by_cases hab : getVal a node.idx = getVal b node.idx
    · rw [if_pos hab, if_pos hab.symm]
      apply ih (fun f hf => hW f (by simp [hf]))
      obtain ⟨f, hf, hd⟩ := hne
      simp only [List.mem_cons] at hf
      rcases hf with rfl | hf
      · exact absurd hab hd
      · exact ⟨f, hf, hd⟩
    · rw [if_neg hab, if_neg (fun e => hab e.symm)]
      exact fieldLess_total W _ _ hab

theorem lessBy_asymm (cmpOf : Field → Bytes → Bytes → Int) (flat : List Field)
    (hW : ∀ f ∈ flat, SignOfWeakOrder (cmpOf f)) (a b : List Bytes)
    (h : lessBy cmpOf flat a b = true) : lessBy cmpOf flat b a = false := by
  cases hba : lessBy cmpOf flat b a with
  | false => rfl
  | true =>
    have := lessBy_trans cmpOf flat hW a b a h hba
    rw [lessBy_irrefl] at this
    exact absurd this (by simp)

/-- If `less` separates two rows, they differ in some flattened field. -/
theorem lessBy_differs (cmpOf : Field → Bytes → Bytes → Int) (flat : List Field) (a b : List Bytes)
    (h : lessBy cmpOf flat a b = true) : ∃ f ∈ flat, getVal a f.idx ≠ getVal b f.idx := by
  induction flat with
  | nil => simp [lessBy] at h
  | cons node rest ih =>
    rw [lessBy_cons] at h
    by_cases hab : getVal a node.idx = getVal b node.idx
    · rw [if_pos hab] at h
      obtain ⟨f, hf, hd⟩ := ih h
      exact ⟨f, by simp [hf], hd⟩
    · exact ⟨node, by simp, hab⟩

/-! ### The four kinds of comparator -/

theorem cmpRank_weak (m : RankMap) : SignOfWeakOrder (cmpRank m) where
  refl := by intro a; simp [cmpRank]
  antisymm := by intro a b; simp only [cmpRank]; omega
  trans := by intro a b c; simp only [cmpRank]; omega
  eq_trans := by intro a b c; simp only [cmpRank]; omega

theorem cmpBytes_lt (a b : Bytes) : cmpBytes a b < 0 ↔ ltBytes a b = true := by
  unfold cmpBytes
  by_cases h : a = b
  · subst h; simp [ltBytes_irrefl]
  · have : (a == b) = false := by simpa using h
    rw [this]
    cases hl : ltBytes a b <;> simp

theorem cmpBytes_eq (a b : Bytes) : cmpBytes a b = 0 ↔ a = b := by
  unfold cmpBytes
  by_cases h : a = b
  · subst h; simp
  · have : (a == b) = false := by simpa using h
    rw [this]
    cases hl : ltBytes a b <;> simp [h]

theorem cmpBytes_gt (a b : Bytes) : 0 < cmpBytes a b ↔ ltBytes b a = true := by
  unfold cmpBytes
  by_cases h : a = b
  · subst h; simp [ltBytes_irrefl]
  · have : (a == b) = false := by simpa using h
    rw [this]
    cases hl : ltBytes a b
    · have := ltBytes_total a b h
      simp [hl] at this
      simp [this]
    · have := ltBytes_asymm a b hl
      simp [this]

theorem cmpBytes_weak : SignOfWeakOrder cmpBytes where
  refl := by intro a; exact (cmpBytes_eq a a).mpr rfl
  antisymm := by intro a b; rw [cmpBytes_lt, cmpBytes_gt]
  trans := by
    intro a b c h1 h2
    rw [cmpBytes_lt] at *
    exact ltBytes_trans a b c h1 h2
  eq_trans := by
    intro a b c h1 h2
    rw [cmpBytes_eq] at *
    exact h1.trans h2

theorem cmpNum_weak (pn : Bytes → NumC) : SignOfWeakOrder (cmpNum pn) where
  refl := by
    intro a; unfold cmpNum
    cases pn a <;> simp
  antisymm := by
    intro a b; unfold cmpNum
    cases pn a <;> cases pn b <;> simp <;> (repeat' split) <;> omega
  trans := by
    intro a b c; unfold cmpNum
    cases pn a <;> cases pn b <;> cases pn c <;> simp <;> (repeat' split) <;> omega
  eq_trans := by
    intro a b c; unfold cmpNum
    cases pn a <;> cases pn b <;> cases pn c <;> simp <;> (repeat' split) <;> omega

theorem field_cmp_weak (pn : Bytes → NumC) (f : Field) : SignOfWeakOrder (f.cmp pn) := by
  unfold Field.cmp
  cases f.order with
  | first => exact cmpRank_weak _
  | alpha => exact cmpBytes_weak
  | num => exact cmpNum_weak pn
  | fixed l => exact cmpRank_weak _

/-! ### Sorting -/

theorem mem_insertBy {α : Type} (lt : α → α → Bool) (x z : α) (l : List α) :
    z ∈ insertBy lt x l ↔ z = x ∨ z ∈ l := by
  induction l with
  | nil => simp [insertBy]
  | cons y ys ih =>
    unfold insertBy
    split
    · simp
    · simp only [List.mem_cons, ih]
      constructor <;> (intro h; rcases h with h | h | h <;> simp [h])

theorem insertBy_perm {α : Type} (lt : α → α → Bool) (x : α) (l : List α) :
    (insertBy lt x l).Perm (x :: l) := by
  induction l with
  | nil => simp [insertBy]
  | cons y ys ih =>
    unfold insertBy
    split
    · exact List.Perm.refl _
    · exact ((List.Perm.cons y ih).trans (List.Perm.swap x y ys))

theorem sortBy_perm {α : Type} (lt : α → α → Bool) (l : List α) : (sortBy lt l).Perm l := by
  induction l with
  | nil => exact List.Perm.refl _
  | cons x xs ih => exact (insertBy_perm lt x _).trans (List.Perm.cons x ih)

/-- "sorted": no later element is less than an earlier one (what a comparison sort guarantees). -/
def Sorted {α : Type} (lt : α → α → Bool) (l : List α) : Prop :=
  l.Pairwise fun x y => lt y x = false

theorem insertBy_sorted {α : Type} (lt : α → α → Bool)
    (asymm : ∀ a b, lt a b = true → lt b a = false)
    (trans : ∀ a b c, lt a b = true → lt b c = true → lt a c = true)
    (x : α) (l : List α) (h : Sorted lt l) : Sorted lt (insertBy lt x l) := by
  induction l with
  | nil => simp [insertBy, Sorted]
  | cons y ys ih =>
    unfold Sorted at h ih ⊢
    rw [List.pairwise_cons] at h
    unfold insertBy
    split
    · rename_i hxy
      rw [List.pairwise_cons]
      refine ⟨?_, List.pairwise_cons.mpr h⟩
      intro z hz
      simp only [List.mem_cons] at hz
      rcases hz with rfl | hz
      · exact asymm _ _ hxy
      · have hyz := h.1 z hz
        cases hzx : lt z x with
        | false => rfl
        | true => rw [trans z x y hzx hxy] at hyz; exact absurd hyz (by simp)
    · rename_i hxy
      rw [List.pairwise_cons]
      refine ⟨?_, ih h.2⟩
      intro z hz
      rw [mem_insertBy] at hz
      rcases hz with rfl | hz
      · simpa using hxy
      · exact h.1 z hz

theorem sortBy_sorted {α : Type} (lt : α → α → Bool)
    (asymm : ∀ a b, lt a b = true → lt b a = false)
    (trans : ∀ a b c, lt a b = true → lt b c = true → lt a c = true)
    (l : List α) : Sorted lt (sortBy lt l) := by
  induction l with
  | nil => simp [sortBy, Sorted]
  | cons x xs ih => exact insertBy_sorted lt asymm trans x _ ih

end C09
