/-
C04 helper lemmas: the tokenizer model (Unit.Parse) against the piece-level specification
(Spec.Tidy), the edit list applied right-to-left, scan as a fold.
-/
import Model.Unit.Tidy
import Model.Spec.Tidy
namespace C04
open Unit.Parse Unit.Tidy
open Spec.Tidy (runes group Piece rewrite pieces)

theorem decodeRune_width (b : UInt8) (bs : Bytes) :
    1 ≤ (Utf8.decodeRune (b :: bs)).2 ∧ (Utf8.decodeRune (b :: bs)).2 ≤ (b :: bs).length := by
  unfold Utf8.decodeRune
  simp only []
  repeat' split
  all_goals simp_all <;> omega

theorem runes_fuel' : ∀ n m (bs : Bytes), bs.length ≤ n → bs.length ≤ m → runes n bs = runes m bs := by
  intro n
  induction n with
  | zero =>
    intro m bs h _
    have : bs = [] := List.eq_nil_of_length_eq_zero (by omega)
    subst this
    cases m <;> simp [runes]
  | succ n ih =>
    intro m bs h1 h2
    cases bs with
    | nil => cases m <;> simp [runes]
    | cons b bs =>
      cases m with
      | zero => simp at h2
      | succ m =>
        have hw := decodeRune_width b bs
        simp only [runes]
        rw [ih m]
        · simp only [List.length_drop, List.length_cons] at *; omega
        · simp only [List.length_drop, List.length_cons] at *; omega

/-- the runes of a byte string -/
def R (bs : Bytes) : List (Nat × Bytes) := runes bs.length bs

theorem R_nil : R [] = [] := by simp [R, runes]

theorem R_cons (b : UInt8) (bs : Bytes) :
    R (b :: bs) = ((Utf8.decodeRune (b :: bs)).1, (b :: bs).take (Utf8.decodeRune (b :: bs)).2)
      :: R ((b :: bs).drop (Utf8.decodeRune (b :: bs)).2) := by
  have hw := decodeRune_width b bs
  unfold R
  simp only [List.length_cons, runes]
  rw [runes_fuel' bs.length ((b :: bs).drop (Utf8.decodeRune (b :: bs)).2).length]
  · simp only [List.length_drop, List.length_cons] at *; omega
  · exact Nat.le_refl _

theorem isSep_eq (r : Nat) : Unit.Parse.isSep r = Spec.Tidy.isSep r := rfl

def noWordHead : List Piece → Prop
  | .word _ :: _ => False
  | _ => True

theorem group_cons_sep (r : Nat) (enc : Bytes) (rest : List (Nat × Bytes)) (h : Spec.Tidy.isSep r = true) :
    group ((r, enc) :: rest) = .sep r enc :: group rest := by
  simp [group, h]

theorem group_cons_word_nohead (r : Nat) (enc : Bytes) (rest : List (Nat × Bytes))
    (h : Spec.Tidy.isSep r = false) (hn : noWordHead (group rest)) :
    group ((r, enc) :: rest) = .word enc :: group rest := by
  simp only [group, h]
  generalize group rest = g at *
  cases g with
  | nil => simp
  | cons p ps => cases p with
    | sep r' e' => simp
    | word w => exact absurd hn (by simp [noWordHead])

theorem group_cons_word_head (r : Nat) (enc w : Bytes) (rest : List (Nat × Bytes)) (ps : List Piece)
    (h : Spec.Tidy.isSep r = false) (hg : group rest = .word w :: ps) :
    group ((r, enc) :: rest) = .word (enc ++ w) :: ps := by
  simp [group, h, hg]

/-- `takeTok` cuts off exactly the first component (when the input starts with one). -/
theorem takeTok_spec : ∀ (fuel : Nat) (bs : Bytes), bs.length < fuel →
    bs = (takeTok fuel bs).1 ++ (takeTok fuel bs).2 ∧ noWordHead (group (R (takeTok fuel bs).2)) ∧
    group (R bs) = (if (takeTok fuel bs).1 = [] then group (R (takeTok fuel bs).2)
                    else .word (takeTok fuel bs).1 :: group (R (takeTok fuel bs).2)) := by
  intro fuel
  induction fuel with
  | zero => intro bs h; omega
  | succ fuel ih =>
    intro bs h
    cases bs with
    | nil => simp [takeTok, R_nil, group, noWordHead]
    | cons b bs =>
      have hw := decodeRune_width b bs
      have hR := R_cons b bs
      simp only [takeTok]
      generalize hd : Utf8.decodeRune (b :: bs) = d at *
      obtain ⟨r, w⟩ := d
      simp only at hw hR ⊢
      by_cases hs : Unit.Parse.isSep r = true
      · simp only [hs, if_true]
        have hs' : Spec.Tidy.isSep r = true := hs
        refine ⟨by simp, ?_, by simp⟩
        rw [hR, group_cons_sep _ _ _ hs']; simp [noWordHead]
      · have hs' : Spec.Tidy.isSep r = false := by simpa [isSep_eq] using hs
        have hsf : Unit.Parse.isSep r = false := hs'
        simp only [hsf, Bool.false_eq_true, if_false]
        have hlen : ((b :: bs).drop w).length < fuel := by
          simp only [List.length_drop, List.length_cons] at *; omega
        obtain ⟨h1, h2, h3⟩ := ih ((b :: bs).drop w) hlen
        generalize takeTok fuel ((b :: bs).drop w) = tt at *
        obtain ⟨t', rest'⟩ := tt
        simp only at h1 h2 h3 ⊢
        have htake : (b :: bs).take w ≠ [] := by
          intro hc
          have := congrArg List.length hc
          simp only [List.length_take, List.length_cons, List.length_nil] at this
          omega
        refine ⟨?_, h2, ?_⟩
        · rw [List.append_assoc, ← h1, List.take_append_drop]
        · have hne : (b :: bs).take w ++ t' ≠ [] := by simp [htake]
          rw [if_neg hne, hR]
          by_cases ht : t' = []
          · subst ht
            rw [if_pos rfl] at h3
            rw [group_cons_word_nohead _ _ _ hs' (by rw [h3]; exact h2), h3]; simp
          · rw [if_neg ht] at h3
            exact group_cons_word_head _ _ _ _ _ hs' h3

/-- the denominator flag after a separator rune -/
def sepDenom (r : Nat) (d : Bool) : Bool := if r == 42 then false else if r == 47 then true else d

theorem rewrite_sep (d : Bool) (f : F64.Bits) (r : Nat) (enc : Bytes) (ps : List Piece) :
    rewrite d f (.sep r enc :: ps) =
      (enc ++ (rewrite (sepDenom r d) f ps).1, (rewrite (sepDenom r d) f ps).2) := by
  simp [rewrite, sepDenom]

/-- `skipSeps` consumes exactly the leading separator runes, tracking the denominator flag the
way the specification does. -/
theorem skipSeps_spec : ∀ (fuel : Nat) (bs : Bytes) (off : Nat) (d : Bool), bs.length < fuel →
    match skipSeps fuel bs off d with
    | none => ∀ f, rewrite d f (group (R bs)) = (bs, f)
    | some (rest, off', d') =>
      ∃ seps, bs = seps ++ rest ∧ off' = off + seps.length ∧
        (∃ b bs', rest = b :: bs' ∧ Spec.Tidy.isSep (Utf8.decodeRune (b :: bs')).1 = false) ∧
        ∀ f, rewrite d f (group (R bs)) =
          (seps ++ (rewrite d' f (group (R rest))).1, (rewrite d' f (group (R rest))).2) := by
  intro fuel
  induction fuel with
  | zero => intro bs off d h; omega
  | succ fuel ih =>
    intro bs off d h
    cases bs with
    | nil => simp [skipSeps, R_nil, group, rewrite]
    | cons b bs =>
      have hw := decodeRune_width b bs
      have hR := R_cons b bs
      simp only [skipSeps]
      generalize hd : Utf8.decodeRune (b :: bs) = dd at *
      obtain ⟨r, w⟩ := dd
      simp only at hw hR ⊢
      have hlen : ((b :: bs).drop w).length < fuel := by
        simp only [List.length_drop, List.length_cons] at *; omega
      -- one separator rune consumed: common continuation
      have step : ∀ (d2 : Bool), Spec.Tidy.isSep r = true → sepDenom r d = d2 →
          match skipSeps fuel ((b :: bs).drop w) (off + w) d2 with
          | none => ∀ f, rewrite d f (group (R (b :: bs))) = (b :: bs, f)
          | some (rest, off', d') =>
            ∃ seps, b :: bs = seps ++ rest ∧ off' = off + seps.length ∧
              (∃ b bs', rest = b :: bs' ∧ Spec.Tidy.isSep (Utf8.decodeRune (b :: bs')).1 = false) ∧
              ∀ f, rewrite d f (group (R (b :: bs))) =
                (seps ++ (rewrite d' f (group (R rest))).1, (rewrite d' f (group (R rest))).2) := by
        intro d2 hsep hd2
        have := ih ((b :: bs).drop w) (off + w) d2 hlen
        have htl : ((b :: bs).take w).length = w := by
          simp only [List.length_take, List.length_cons] at *; omega
        generalize skipSeps fuel ((b :: bs).drop w) (off + w) d2 = res at *
        cases res with
        | none =>
          simp only at this ⊢
          intro f
          rw [hR, group_cons_sep _ _ _ hsep, rewrite_sep, hd2, this f]
          simp [List.take_append_drop]
        | some v =>
          obtain ⟨rest, off', d'⟩ := v
          simp only at this ⊢
          obtain ⟨seps, e1, e2, e3, e4⟩ := this
          refine ⟨(b :: bs).take w ++ seps, ?_, ?_, e3, ?_⟩
          · rw [List.append_assoc, ← e1, List.take_append_drop]
          · rw [e2, List.length_append, htl]; omega
          · intro f
            rw [hR, group_cons_sep _ _ _ hsep, rewrite_sep, hd2, e4 f, List.append_assoc]
      by_cases h42 : r = 42
      · subst h42
        simp only [beq_self_eq_true, if_true]
        exact step false (by decide) (by simp [sepDenom])
      · have h42' : (r == 42) = false := by simpa using h42
        simp only [h42', Bool.false_eq_true, if_false]
        by_cases h47 : r = 47
        · subst h47
          simp only [beq_self_eq_true, if_true]
          exact step true (by decide) (by simp [sepDenom])
        · have h47' : (r == 47) = false := by simpa using h47
          simp only [h47', Bool.false_eq_true, if_false]
          by_cases hsp : (r == 45 || Utf8.isSpace r) = true
          · simp only [hsp, if_true]
            exact step d (by simp only [Spec.Tidy.isSep, h42', h47', Bool.false_or]; exact hsp)
              (by simp [sepDenom, h42', h47'])
          · have hsp' : (r == 45 || Utf8.isSpace r) = false := by simpa using hsp
            simp only [hsp', Bool.false_eq_true, if_false]
            refine ⟨[], by simp, by simp, ⟨b, bs, rfl, ?_⟩, by simp⟩
            rw [hd]
            simp only [Spec.Tidy.isSep, h42', h47', Bool.false_or]
            simpa [Bool.or_assoc] using hsp'

theorem takeTok_nonempty (fuel : Nat) (b : UInt8) (bs : Bytes)
    (h : Spec.Tidy.isSep (Utf8.decodeRune (b :: bs)).1 = false) :
    (takeTok (fuel + 1) (b :: bs)).1 ≠ [] := by
  have hw := decodeRune_width b bs
  simp only [takeTok]
  generalize hd : Utf8.decodeRune (b :: bs) = dd at *
  obtain ⟨r, w⟩ := dd
  simp only at hw h ⊢
  have hsf : Unit.Parse.isSep r = false := h
  simp only [hsf, Bool.false_eq_true, if_false]
  intro hc
  have := congrArg List.length hc
  simp only [List.length_append, List.length_take, List.length_cons, List.length_nil] at this
  omega

/-! ### the scan loop as a fold -/

def editOf (t : Tok) : Option Edit :=
  if t.denom then none
  else if t.tok == sNs then some ⟨t.pos, sNs.length, sSec⟩
  else if t.tok == sMB then some ⟨t.pos, sMB.length, sB⟩
  else none

def factorOf (f : F64.Bits) (t : Tok) : F64.Bits :=
  if t.denom then f
  else if t.tok == sNs then F64.div f f1e9
  else if t.tok == sMB then F64.mul f f1e6
  else f

theorem scan_eq : ∀ (ts : List Tok) (es : List Edit) (f : F64.Bits),
    scan ts es f = (es ++ ts.filterMap editOf, ts.foldl factorOf f) := by
  intro ts
  induction ts with
  | nil => intro es f; simp [scan]
  | cons t ts ih =>
    intro es f
    simp only [scan, List.filterMap_cons, List.foldl_cons, editOf, factorOf]
    by_cases hd : t.denom = true
    · simp [hd, ih]
    · have hd' : t.denom = false := by simpa using hd
      by_cases h1 : (t.tok == sNs) = true
      · simp [hd', h1, ih]
      · have h1' : (t.tok == sNs) = false := by simpa using h1
        by_cases h2 : (t.tok == sMB) = true
        · simp [hd', h1', h2, ih]
        · have h2' : (t.tok == sMB) = false := by simpa using h2
          simp [hd', h1', h2', ih]

/-- replacing the middle part: the slice bounds are valid and the result is what one expects -/
theorem applyEdit_mid (a m z rep : Bytes) :
    applyEdit? (a ++ m ++ z) ⟨a.length, m.length, rep⟩ = some (a ++ rep ++ z) := by
  unfold applyEdit?
  have h : a.length + m.length ≤ (a ++ m ++ z).length := by simp
  simp only [h, if_true]
  congr 1
  have h1 : (a ++ m ++ z).take a.length = a := by
    rw [List.append_assoc, List.take_left']; rfl
  have h2 : (a ++ m ++ z).drop (a.length + m.length) = z := by
    have : a.length + m.length = (a ++ m).length := by simp
    rw [this, List.drop_left']; rfl
  rw [h1, h2]

/-- **Main simulation**: the edits collected from the tokenizer, applied last-to-first to the
whole string, never go out of bounds and produce what the left-to-right rewriting of the
specification produces; the factor is accumulated identically. -/
theorem tokens_main : ∀ (fuel : Nat) (bs : Bytes) (off : Nat) (d : Bool) (pre : Bytes) (f : F64.Bits),
    bs.length < fuel → pre.length = off →
    applyEdits? ((tokensAux fuel bs off d).filterMap editOf) (pre ++ bs)
        = some (pre ++ (rewrite d f (group (R bs))).1) ∧
    (tokensAux fuel bs off d).foldl factorOf f = (rewrite d f (group (R bs))).2 := by
  intro fuel
  induction fuel with
  | zero => intro bs off d pre f h; omega
  | succ fuel ih =>
    intro bs off d pre f h hpre
    simp only [tokensAux]
    have hs := skipSeps_spec (bs.length + 1) bs off d (Nat.lt_succ_self _)
    generalize skipSeps (bs.length + 1) bs off d = res at *
    cases res with
    | none =>
      simp only at hs ⊢
      simp [applyEdits?, hs f]
    | some v =>
      obtain ⟨rest, off', d'⟩ := v
      simp only at hs ⊢
      obtain ⟨seps, e1, e2, ⟨b, bs', e3, hns⟩, e4⟩ := hs
      have ht := takeTok_spec (rest.length + 1) rest (Nat.lt_succ_self _)
      have hne : (takeTok (rest.length + 1) rest).1 ≠ [] := by
        subst e3; exact takeTok_nonempty _ b bs' hns
      generalize takeTok (rest.length + 1) rest = tt at *
      obtain ⟨t, rest'⟩ := tt
      simp only at ht hne ⊢
      obtain ⟨t1, _, t3⟩ := ht
      rw [if_neg hne] at t3
      have hrest' : rest'.length < fuel := by
        have h1 := congrArg List.length e1
        have h2 := congrArg List.length t1
        have h3 : 0 < t.length := List.length_pos_iff.mpr hne
        simp only [List.length_append] at h1 h2
        omega
      have hpre' : (pre ++ seps ++ t).length = off' + t.length := by
        simp only [List.length_append]; omega
      have hwhole : pre ++ bs = (pre ++ seps ++ t) ++ rest' := by
        rw [e1, t1]; simp [List.append_assoc]
      rw [e4 f, t3]
      simp only [List.filterMap_cons, List.foldl_cons]
      -- the three kinds of component
      by_cases hd : d' = true
      · -- denominator: untouched
        subst hd
        have hI := ih rest' (off' + t.length) true (pre ++ seps ++ t) f hrest' hpre'
        have hrw : rewrite true f (.word t :: group (R rest')) =
            (t ++ (rewrite true f (group (R rest'))).1, (rewrite true f (group (R rest'))).2) := by
          simp [rewrite]
        rw [hrw]
        simp only [editOf, factorOf, if_true]
        rw [hwhole]
        refine ⟨?_, hI.2⟩
        rw [hI.1]; simp [List.append_assoc]
      · have hd' : d' = false := by simpa using hd
        subst hd'
        by_cases h1 : (t == sNs) = true
        · have hteq : t = sNs := by simpa using h1
          have hI := ih rest' (off' + t.length) false (pre ++ seps ++ t) (F64.div f f1e9) hrest' hpre'
          have hrw : rewrite false f (.word t :: group (R rest')) =
              (sSec ++ (rewrite false (F64.div f f1e9) (group (R rest'))).1,
               (rewrite false (F64.div f f1e9) (group (R rest'))).2) := by
            subst hteq
            simp [rewrite, Spec.Tidy.ns, sNs, Spec.Tidy.sec, sSec, Spec.Tidy.e9, f1e9]
          rw [hrw]
          simp only [editOf, factorOf, h1, if_true, Bool.false_eq_true, if_false, applyEdits?]
          rw [hwhole]
          refine ⟨?_, hI.2⟩
          rw [hI.1]
          simp only [Option.bind_some]
          have hoff : off' = (pre ++ seps).length := by simp only [List.length_append]; omega
          have hlen : sNs.length = t.length := by rw [hteq]
          rw [hoff, hlen, applyEdit_mid]
          simp [List.append_assoc]
        · have h1' : (t == sNs) = false := by simpa using h1
          by_cases h2 : (t == sMB) = true
          · have hteq : t = sMB := by simpa using h2
            have hI := ih rest' (off' + t.length) false (pre ++ seps ++ t) (F64.mul f f1e6) hrest' hpre'
            have hrw : rewrite false f (.word t :: group (R rest')) =
                (sB ++ (rewrite false (F64.mul f f1e6) (group (R rest'))).1,
                 (rewrite false (F64.mul f f1e6) (group (R rest'))).2) := by
              subst hteq
              simp [rewrite, Spec.Tidy.ns, sMB, Spec.Tidy.mb, Spec.Tidy.b, sB, Spec.Tidy.e6, f1e6]
            rw [hrw]
            simp only [editOf, factorOf, h1', h2, if_true, Bool.false_eq_true, if_false, applyEdits?]
            rw [hwhole]
            refine ⟨?_, hI.2⟩
            rw [hI.1]
            simp only [Option.bind_some]
            have hoff : off' = (pre ++ seps).length := by simp only [List.length_append]; omega
            have hlen : sMB.length = t.length := by rw [hteq]
            rw [hoff, hlen, applyEdit_mid]
            simp [List.append_assoc]
          · have h2' : (t == sMB) = false := by simpa using h2
            have hI := ih rest' (off' + t.length) false (pre ++ seps ++ t) f hrest' hpre'
            have hrw : rewrite false f (.word t :: group (R rest')) =
                (t ++ (rewrite false f (group (R rest'))).1, (rewrite false f (group (R rest'))).2) := by
              have a1 : (t == Spec.Tidy.ns) = false := h1'
              have a2 : (t == Spec.Tidy.mb) = false := h2'
              simp [rewrite, a1, a2]
            rw [hrw]
            simp only [editOf, factorOf, h1', h2', Bool.false_eq_true, if_false]
            rw [hwhole]
            refine ⟨?_, hI.2⟩
            rw [hI.1]; simp [List.append_assoc]

end C04
