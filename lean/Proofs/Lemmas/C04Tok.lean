/-
C04 helper lemmas: the tokenizer model (Unit.Parse) against the piece-level specification
(Spec.Tidy), the edit list applied right-to-left, scan as a fold.
-/
import Model.Unit.Tidy
import Model.Spec.Tidy
namespace C04
open Unit.Parse Unit.Tidy
open Spec.Tidy (runes group Piece rewrite pieces)

theorem decodeRune_width (b : UInt8) (bs : Bytes) :
    1 ≤ (Utf8.decodeRune (b :: bs)).2 ∧ (Utf8.decodeRune (b :: bs)).2 ≤ (b :: bs).length := by
  unfold Utf8.decodeRune
  simp only []
  repeat' split
  all_goals simp_all <;> omega

theorem runes_fuel' : ∀ n m (bs : Bytes), bs.length ≤ n → bs.length ≤ m → runes n bs = runes m bs := by
  intro n
  induction n with
  | zero =>
    intro m bs h _
    have : bs = [] := List.eq_nil_of_length_eq_zero (by omega)
    subst this
    cases m <;> simp [runes]
  | succ n ih =>
    intro m bs h1 h2
    cases bs with
    | nil => cases m <;> simp [runes]
    | cons b bs =>
      cases m with
      | zero => simp at h2
      | succ m =>
        have hw := decodeRune_width b bs
        simp only [runes]
        rw [ih m]
        · simp only [List.length_drop, List.length_cons] at *; omega
        · simp only [List.length_drop, List.length_cons] at *; omega

/-- the runes of a byte string -/
def R (bs : Bytes) : List (Nat × Bytes) := runes bs.length bs

theorem R_nil : R [] = [] := by simp [R, runes]

theorem R_cons (b : UInt8) (bs : Bytes) :
    R (b :: bs) = ((Utf8.decodeRune (b :: bs)).1, (b :: bs).take (Utf8.decodeRune (b :: bs)).2)
      :: R ((b :: bs).drop (Utf8.decodeRune (b :: bs)).2) := by
  have hw := decodeRune_width b bs
  unfold R
  simp only [List.length_cons, runes]
  rw [runes_fuel' bs.length ((b :: bs).drop (Utf8.decodeRune (b :: bs)).2).length]
  · simp only [List.length_drop, List.length_cons] at *; omega
  · exact Nat.le_refl _

theorem isSep_eq (r : Nat) : Unit.Parse.isSep r = Spec.Tidy.isSep r := rfl

def noWordHead : List Piece → Prop
  | .word _ :: _ => False
  | _ => True

theorem group_cons_sep (r : Nat) (enc : Bytes) (rest : List (Nat × Bytes)) (h : Spec.Tidy.isSep r = true) :
    group ((r, enc) :: rest) = .sep r enc :: group rest := by
  simp [group, h]

theorem group_cons_word_nohead (r : Nat) (enc : Bytes) (rest : List (Nat × Bytes))
    (h : Spec.Tidy.isSep r = false) (hn : noWordHead (group rest)) :
    group ((r, enc) :: rest) = .word enc :: group rest := by
  simp only [group, h]
  generalize group rest = g at *
  cases g with
  | nil => simp
  | cons p ps => cases p with
    | sep r' e' => simp
    | word w => exact absurd hn (by simp [noWordHead])

theorem group_cons_word_head (r : Nat) (enc w : Bytes) (rest : List (Nat × Bytes)) (ps : List Piece)
    (h : Spec.Tidy.isSep r = false) (hg : group rest = .word w :: ps) :
    group ((r, enc) :: rest) = .word (enc ++ w) :: ps := by
  simp [group, h, hg]

/-- `takeTok` cuts off exactly the first component (when the input starts with one). -/
theorem takeTok_spec : ∀ (fuel : Nat) (bs : Bytes), bs.length < fuel →
    bs = (takeTok fuel bs).1 ++ (takeTok fuel bs).2 ∧ noWordHead (group (R (takeTok fuel bs).2)) ∧
    group (R bs) = (if (takeTok fuel bs).1 = [] then group (R (takeTok fuel bs).2)
                    else .word (takeTok fuel bs).1 :: group (R (takeTok fuel bs).2)) := by
  intro fuel
  induction fuel with
  | zero => intro bs h; omega
  | succ fuel ih =>
    intro bs h
    cases bs with
    | nil => simp [takeTok, R_nil, group, noWordHead]
    | cons b bs =>
      have hw := decodeRune_width b bs
      have hR := R_cons b bs
      simp only [takeTok]
      generalize hd : Utf8.decodeRune (b :: bs) = d at *
      obtain ⟨r, w⟩ := d
      simp only at hw hR ⊢
      by_cases hs : Unit.Parse.isSep r = true
      · simp only [hs, if_true]
        have hs' : Spec.Tidy.isSep r = true := hs
        refine ⟨by simp, ?_, by simp⟩
        rw [hR, group_cons_sep _ _ _ hs']; simp [noWordHead]
      · have hs' : Spec.Tidy.isSep r = false := by simpa [isSep_eq] using hs
        simp only [hs, if_false]
        have hlen : ((b :: bs).drop w).length < fuel := by
          simp only [List.length_drop, List.length_cons] at *; omega
        obtain ⟨h1, h2, h3⟩ := ih ((b :: bs).drop w) hlen
        generalize takeTok fuel ((b :: bs).drop w) = tt at *
        obtain ⟨t', rest'⟩ := tt
        simp only at h1 h2 h3 ⊢
        have htake : (b :: bs).take w ≠ [] := by
          intro hc
          have := congrArg List.length hc
          simp only [List.length_take, List.length_cons, List.length_nil] at this
          omega
        refine ⟨?_, h2, ?_⟩
        · rw [List.append_assoc, ← h1, List.take_append_drop]
        · have hne : (b :: bs).take w ++ t' ≠ [] := by simp [htake]
          rw [if_neg hne, hR]
          by_cases ht : t' = []
          · subst ht
            rw [if_pos rfl] at h3
            rw [group_cons_word_nohead _ _ _ hs' (by rw [h3]; exact h2), h3]; simp
          · rw [if_neg ht] at h3
            exact group_cons_word_head _ _ _ _ _ hs' h3

end C04
