/-
C12 helper lemmas: the modified Lentz iteration of `betacf` (exact instance) against the
convergents A_j/B_j of the continued fraction 1/(1 + e₁/(1 + e₂/(1 + …))).
-/
import Proofs.Lemmas.C12Dist

namespace C12
open Stats Stats.Beta

/-- the partial numerators in the order the code consumes them: e₁ = −(a+b)x/(a+1) (folded into
the initial state), e₂ₘ = `numEven m`, e₂ₘ₊₁ = `numOdd m` -/
def cfNum (x a b : ℚ) (j : ℕ) : ℚ :=
  if j = 1 then -((a + b) * x / (a + 1))
  else if j % 2 = 0 then numEven x a b (j / 2) else numOdd x a b (j / 2)

/-- numerators and denominators of the convergents (Wallis / fundamental recurrence):
A₀ = B₀ = 1, A₁ = 1, B₁ = 1 + e₁, X_{j+2} = X_{j+1} + e_{j+2}·X_j.  A_j/B_j is the continued
fraction truncated after e_j. -/
def cfA (e : ℕ → ℚ) : ℕ → ℚ
  | 0 => 1
  | 1 => 1
  | j + 2 => cfA e (j + 1) + e (j + 2) * cfA e j

def cfB (e : ℕ → ℚ) : ℕ → ℚ
  | 0 => 1
  | 1 => 1 + e 1
  | j + 2 => cfB e (j + 1) + e (j + 2) * cfB e j

/-- truncations really are the nested fractions (first three, as a sanity check of the indexing) -/
example (e : ℕ → ℚ) : cfA e 2 / cfB e 2 = (1 + e 2) / (1 + e 2 + e 1) := by
  simp [cfA, cfB]; ring_nf

/-- the guard `raiseZero` leaves z unchanged -/
def GuardOff (z : ℚ) : Prop := raiseZero z = z

theorem tiny_pos : (0 : ℚ) < (tiny : ℚ) := by
  show (0 : ℚ) < ((1 : ℕ) : ℚ) / ((2 ^ 1074 : ℕ) : ℚ)
  positivity

theorem GuardOff.ne_zero {z : ℚ} (h : GuardOff z) : z ≠ 0 := by
  intro hz
  subst hz
  unfold GuardOff raiseZero at h
  have : Arith.lt (Arith.abs (0 : ℚ)) (tiny : ℚ) = true := by
    rw [lt_rat]
    show ratAbs 0 < tiny
    unfold ratAbs
    simpa using tiny_pos
  rw [if_pos this] at h
  exact absurd h (ne_of_gt tiny_pos)

/-- Lentz state after the numerators e₁ … e_{k+1} -/
def lstate (x a b : ℚ) : ℕ → LState ℚ
  | 0 => initState x a b
  | k + 1 => (halfStep (cfNum x a b (k + 2)) (lstate x a b k)).1

/-- the two guarded quantities of the half step that consumes e_{k+2} -/
def guardsOff (x a b : ℚ) (k : ℕ) : Prop :=
  GuardOff (1 + cfNum x a b (k + 2) * (lstate x a b k).d) ∧
  GuardOff (1 + cfNum x a b (k + 2) / (lstate x a b k).c)

/-- the guard of the initial state -/
def guardInit (x a b : ℚ) : Prop := GuardOff (1 + cfNum x a b 1)

/-- invariant: c_j = A_j/A_{j−1}, d_j = B_{j−1}/B_j, h_j = A_j/B_j (j = k+1), all non-zero -/
structure LentzInv (e : ℕ → ℚ) (s : LState ℚ) (k : ℕ) : Prop where
  c : s.c * cfA e k = cfA e (k + 1)
  d : s.d * cfB e (k + 1) = cfB e k
  h : s.h * cfB e (k + 1) = cfA e (k + 1)
  a0 : cfA e k ≠ 0
  a1 : cfA e (k + 1) ≠ 0
  b0 : cfB e k ≠ 0
  b1 : cfB e (k + 1) ≠ 0

theorem lentz_init (x a b : ℚ) (hg : guardInit x a b) :
    LentzInv (cfNum x a b) (lstate x a b 0) 0 := by
  have hz := hg.ne_zero
  have he : (1 : ℚ) - (a + b) * x / (a + 1) = 1 + cfNum x a b 1 := by
    simp [cfNum]; ring
  have hs : lstate x a b 0 = ⟨1, 1 / (1 + cfNum x a b 1), 1 / (1 + cfNum x a b 1)⟩ := by
    unfold guardInit GuardOff at hg
    simp only [lstate, initState, Stats.Beta.one, ofNat_rat, Nat.cast_one, sub_rat, div_rat, mul_rat,
      add_rat, he, hg]
  rw [hs]
  refine ⟨by simp [cfA], ?_, ?_, by simp [cfA], by simp [cfA], by simp [cfB], by simpa [cfB] using hz⟩
  · simp only [cfB]; field_simp
  · simp only [cfB, cfA]; field_simp

theorem lentz_step (x a b : ℚ) (k : ℕ) (hi : LentzInv (cfNum x a b) (lstate x a b k) k)
    (hg : guardsOff x a b k) : LentzInv (cfNum x a b) (lstate x a b (k + 1)) (k + 1) := by
  obtain ⟨g1, g2⟩ := hg
  have z1 := g1.ne_zero
  have z2 := g2.ne_zero
  set e := cfNum x a b with he
  set s := lstate x a b k with hs
  have hc0 : s.c ≠ 0 := by
    intro h0; have := hi.c; rw [h0, zero_mul] at this; exact hi.a1 this.symm
  have hs' : lstate x a b (k + 1) =
      ⟨1 + e (k + 2) / s.c, 1 / (1 + e (k + 2) * s.d),
        s.h * (1 / (1 + e (k + 2) * s.d) * (1 + e (k + 2) / s.c))⟩ := by
    unfold GuardOff at g1 g2
    simp only [lstate, halfStep, Stats.Beta.one, ofNat_rat, Nat.cast_one, div_rat, mul_rat, add_rat,
      ← he, ← hs, g1, g2]
  -- B_{k+2} = B_{k+1}(1 + e d),  A_{k+2} = A_{k+1}(1 + e / c)
  have hB : cfB e (k + 2) = cfB e (k + 1) * (1 + e (k + 2) * s.d) := by
    have := hi.d
    simp only [cfB]; rw [← this]; ring
  have hA : cfA e (k + 2) = cfA e (k + 1) * (1 + e (k + 2) / s.c) := by
    have := hi.c
    simp only [cfA]; rw [← this]; field_simp
  have b2 : cfB e (k + 2) ≠ 0 := by rw [hB]; exact mul_ne_zero hi.b1 z1
  have a2 : cfA e (k + 2) ≠ 0 := by rw [hA]; exact mul_ne_zero hi.a1 z2
  rw [hs']
  refine ⟨?_, ?_, ?_, hi.a1, a2, hi.b1, b2⟩
  · show (1 + e (k + 2) / s.c) * cfA e (k + 1) = cfA e (k + 2)
    rw [hA]; ring
  · show 1 / (1 + e (k + 2) * s.d) * cfB e (k + 2) = cfB e (k + 1)
    rw [hB]; field_simp
  · show s.h * (1 / (1 + e (k + 2) * s.d) * (1 + e (k + 2) / s.c)) * cfB e (k + 2) = cfA e (k + 2)
    rw [hB, hA, ← hi.h]; field_simp

theorem lentz_inv (x a b : ℚ) (hg0 : guardInit x a b) :
    ∀ k, (∀ j, j < k → guardsOff x a b j) → LentzInv (cfNum x a b) (lstate x a b k) k := by
  intro k
  induction k with
  | zero => intro _; exact lentz_init x a b hg0
  | succ n ih =>
    intro hg
    exact lentz_step x a b n (ih fun j hj => hg j (by omega)) (hg n (by omega))


/-! ### the loop of `betacf` walks through `lstate` and stops on the code's test -/

theorem cfNum_even (x a b : ℚ) (m : ℕ) (_hm : 1 ≤ m) : cfNum x a b (2 * m) = numEven x a b m := by
  unfold cfNum
  have h1 : ¬ (2 * m = 1) := by omega
  have h2 : (2 * m) % 2 = 0 := by omega
  have h3 : (2 * m) / 2 = m := by omega
  rw [if_neg h1, if_pos h2, h3]

theorem cfNum_odd (x a b : ℚ) (m : ℕ) (hm : 1 ≤ m) : cfNum x a b (2 * m + 1) = numOdd x a b m := by
  unfold cfNum
  have h1 : ¬ (2 * m + 1 = 1) := by omega
  have h2 : ¬ ((2 * m + 1) % 2 = 0) := by omega
  have h3 : (2 * m + 1) / 2 = m := by omega
  rw [if_neg h1, if_neg h2, h3]

/-- `hfac` of iteration m (1-based): the product d·c of its odd half step -/
def hfac (x a b : ℚ) (m : ℕ) : ℚ :=
  (halfStep (cfNum x a b (2 * m + 1)) (lstate x a b (2 * m - 1))).2

/-- the termination test of the code: `math.Abs(hfac-1) < epsilon`, ε = 3e-14 -/
def stopTest (x a b : ℚ) (m : ℕ) : Prop := |hfac x a b m - 1| < 3 / 10 ^ 14

theorem stop_iff (x a b : ℚ) (m : ℕ) :
    (Arith.lt (Arith.abs (Arith.sub (hfac x a b m) (Stats.Beta.one : ℚ))) (epsilon : ℚ) = true) ↔
      stopTest x a b m := by
  rw [lt_rat]
  unfold stopTest
  have e1 : (epsilon : ℚ) = 3 / 10 ^ 14 := by
    show ((3 : ℕ) : ℚ) / ((10 ^ 14 : ℕ) : ℚ) = _
    norm_num
  have e2 : Arith.abs (Arith.sub (hfac x a b m) (Stats.Beta.one : ℚ)) = |hfac x a b m - 1| := by
    show ratAbs (hfac x a b m - ((1 : ℕ) : ℚ)) = _
    unfold ratAbs
    push_cast
    split
    · rw [abs_of_neg ‹_›]
    · rw [abs_of_nonneg (not_lt.mp ‹_›)]
  rw [e1, e2]

theorem cfLoop_step (x a b : ℚ) (fuel m : ℕ) (hm : 1 ≤ m) :
    cfLoop x a b (fuel + 1) m (lstate x a b (2 * (m - 1))) =
      if Arith.lt (Arith.abs (Arith.sub (hfac x a b m) (Stats.Beta.one : ℚ))) (epsilon : ℚ) = true
      then some (lstate x a b (2 * m)).h
      else cfLoop x a b fuel (m + 1) (lstate x a b (2 * m)) := by
  have i1 : 2 * (m - 1) + 2 = 2 * m := by omega
  have i2 : 2 * (m - 1) + 1 = 2 * m - 1 := by omega
  have i3 : 2 * m - 1 + 2 = 2 * m + 1 := by omega
  have i4 : 2 * m - 1 + 1 = 2 * m := by omega
  have s1 : (halfStep (numEven x a b m) (lstate x a b (2 * (m - 1)))).1 = lstate x a b (2 * m - 1) := by
    rw [← i2]; show _ = (halfStep (cfNum x a b (2 * (m - 1) + 2)) _).1
    rw [i1, cfNum_even x a b m hm]
  have s2 : (halfStep (numOdd x a b m) (lstate x a b (2 * m - 1))).1 = lstate x a b (2 * m) := by
    have e : lstate x a b (2 * m) = lstate x a b (2 * m - 1 + 1) := by rw [i4]
    rw [e]; show _ = (halfStep (cfNum x a b (2 * m - 1 + 2)) _).1
    rw [i3, cfNum_odd x a b m hm]
  have s3 : (halfStep (numOdd x a b m) (lstate x a b (2 * m - 1))).2 = hfac x a b m := by
    unfold hfac; rw [cfNum_odd x a b m hm]
  show (let s1 := (halfStep (numEven x a b m) (lstate x a b (2 * (m - 1)))).1
        match halfStep (numOdd x a b m) s1 with
        | (s2, hf) => if Arith.lt (Arith.abs (Arith.sub hf Stats.Beta.one)) (epsilon : ℚ) = true
            then some s2.h else cfLoop x a b fuel (m + 1) s2) = _
  simp only [s1]
  rw [show halfStep (numOdd x a b m) (lstate x a b (2 * m - 1)) =
      ((halfStep (numOdd x a b m) (lstate x a b (2 * m - 1))).1,
       (halfStep (numOdd x a b m) (lstate x a b (2 * m - 1))).2) from rfl]
  simp only [s2, s3]

/-- the loop returns the state of the FIRST iteration whose test fires, within the fuel;
otherwise (panic) no iteration in range passes the test -/
theorem cfLoop_spec (x a b : ℚ) : ∀ (fuel m : ℕ), 1 ≤ m →
    (∀ v, cfLoop x a b fuel m (lstate x a b (2 * (m - 1))) = some v →
      ∃ m', m ≤ m' ∧ m' < m + fuel ∧ v = (lstate x a b (2 * m')).h ∧ stopTest x a b m' ∧
        ∀ m'', m ≤ m'' → m'' < m' → ¬ stopTest x a b m'') ∧
    (cfLoop x a b fuel m (lstate x a b (2 * (m - 1))) = none →
      ∀ m', m ≤ m' → m' < m + fuel → ¬ stopTest x a b m') := by
  intro fuel
  induction fuel with
  | zero =>
    intro m _
    constructor
    · intro v h; simp [cfLoop] at h
    · intro _ m' h1 h2; omega
  | succ n ih =>
    intro m hm
    rw [cfLoop_step x a b n m hm]
    have hnext : 2 * (m + 1 - 1) = 2 * m := by omega
    by_cases ht : Arith.lt (Arith.abs (Arith.sub (hfac x a b m) (Stats.Beta.one : ℚ))) (epsilon : ℚ) = true
    · rw [if_pos ht]
      constructor
      · intro v hv
        injection hv with hv
        exact ⟨m, le_refl _, by omega, hv.symm, (stop_iff x a b m).mp ht, fun m'' h1 h2 => by omega⟩
      · intro h; simp at h
    · rw [if_neg ht]
      have hnt : ¬ stopTest x a b m := fun h => ht ((stop_iff x a b m).mpr h)
      obtain ⟨ih1, ih2⟩ := ih (m + 1) (by omega)
      rw [hnext] at ih1 ih2
      constructor
      · intro v hv
        obtain ⟨m', a1, a2, a3, a4, a5⟩ := ih1 v hv
        refine ⟨m', by omega, by omega, a3, a4, ?_⟩
        intro m'' h1 h2
        rcases Nat.eq_or_lt_of_le h1 with e | hlt
        · subst e; exact hnt
        · exact a5 m'' (by omega) h2
      · intro hnone m' h1 h2
        rcases Nat.eq_or_lt_of_le h1 with e | hlt
        · subst e; exact hnt
        · exact ih2 hnone m' (by omega) (by omega)

/-- under the invariant the tested quantity is the ratio of two successive convergents -/
theorem hfac_ratio (x a b : ℚ) (m : ℕ) (hm : 1 ≤ m)
    (hi : LentzInv (cfNum x a b) (lstate x a b (2 * m)) (2 * m))
    (hg : guardsOff x a b (2 * m - 1)) :
    hfac x a b m =
      (cfA (cfNum x a b) (2 * m + 1) / cfB (cfNum x a b) (2 * m + 1)) /
      (cfA (cfNum x a b) (2 * m) / cfB (cfNum x a b) (2 * m)) := by
  have i3 : 2 * m - 1 + 2 = 2 * m + 1 := by omega
  have i4 : 2 * m - 1 + 1 = 2 * m := by omega
  obtain ⟨g1, g2⟩ := hg
  rw [i3] at g1 g2
  unfold GuardOff at g1 g2
  have hst : lstate x a b (2 * m) = (halfStep (cfNum x a b (2 * m + 1)) (lstate x a b (2 * m - 1))).1 := by
    have e : lstate x a b (2 * m) = lstate x a b (2 * m - 1 + 1) := by rw [i4]
    rw [e, ← i3]; rfl
  have hf : hfac x a b m = (lstate x a b (2 * m)).d * (lstate x a b (2 * m)).c := by
    rw [hst]; rfl
  rw [hf]
  have hc := hi.c
  have hd := hi.d
  have := hi.a0; have := hi.a1; have := hi.b0; have := hi.b1
  field_simp
  rw [← hc, ← hd]; ring

end C12
