/-
C19 helper lemmas: record coalescing in InsertRecord at the level of runs, and the flush boundary.
-/
import Model.Storage.Fmt
import Proofs.Lemmas.C19Fmt
import Proofs.Lemmas.C19Wf

namespace C19
open Storage.Query Storage.Fmt

/-- number of label rows `InsertRecord` queues for a new record -/
def nLabels (r : Result) : Nat := (r.labels ++ r.nameL).length

/-- consecutive results that `SameLabels` the first result of their group (the Go code compares
with the result that started the record), left to right -/
def runs : Nat → List Result → List (List Result)
  | 0, _ => []
  | _, [] => []
  | n + 1, h :: rest =>
    (h :: rest.takeWhile (h.sameLabels ·)) :: runs n (rest.dropWhile (h.sameLabels ·))

/-- content of the stored record of one run: the first result printed by a fresh Printer, then the
bare lines of the others -/
def groupContent : List Result → Bytes
  | [] => []
  | h :: t => (printResult [] h).1 ++ t.flatMap fun r => r.content ++ [nl]

def rowsOf (id : Bytes) : Nat → List (List Result) → List RecordRow
  | _, [] => []
  | rid, g :: gs => ⟨id, rid, groupContent g⟩ :: rowsOf id (rid + 1) gs

def headLabels : List (List Result) → Nat
  | [] => 0
  | [] :: gs => headLabels gs
  | (h :: _) :: gs => nLabels h + headLabels gs

/-! ### insertLabel and the flush -/

/-- `insertLabel` below the threshold only queues -/
theorem insertLabel_noflush (u : Upload) (k v : Bytes) (h : u.labelArgs < 990) :
    (u.insertLabel k v).labelArgs = u.labelArgs + 4 ∧ (u.insertLabel k v).lastResult = u.lastResult := by
  unfold Upload.insertLabel
  have : ¬ u.labelArgs ≥ 990 := by omega
  simp [this]

/-- **what happens at a flush**: at 990 or more queued arguments `insertLabel` flushes first: the
queue restarts at 4 and the coalescing state `lastResult` is forgotten -/
theorem insertLabel_flush (u : Upload) (k v : Bytes) (h : u.labelArgs ≥ 990) :
    (u.insertLabel k v).labelArgs = 4 ∧ (u.insertLabel k v).lastResult = none := by
  unfold Upload.insertLabel Upload.flush
  simp [h]

/-- once forgotten, `lastResult` stays forgotten for the rest of the record's labels -/
theorem foldl_insertLabel_none (l : Labels) (u : Upload) (h : u.lastResult = none) :
    (l.foldl (fun u kv => u.insertLabel kv.1 kv.2) u).lastResult = none := by
  induction l generalizing u with
  | nil => exact h
  | cons kv rest ih =>
    simp only [List.foldl_cons]
    apply ih
    unfold Upload.insertLabel Upload.flush
    split <;> simp [h]

theorem foldl_insertLabel_noflush (l : Labels) (u : Upload) (h : u.labelArgs + 4 * l.length ≤ 990) :
    (l.foldl (fun u kv => u.insertLabel kv.1 kv.2) u).labelArgs = u.labelArgs + 4 * l.length ∧
    (l.foldl (fun u kv => u.insertLabel kv.1 kv.2) u).lastResult = u.lastResult := by
  induction l generalizing u with
  | nil => simp
  | cons kv rest ih =>
    simp only [List.foldl_cons, List.length_cons] at *
    have h1 := insertLabel_noflush u kv.1 kv.2 (by omega)
    have := ih (u.insertLabel kv.1 kv.2) (by rw [h1.1]; omega)
    rw [h1.1, h1.2] at this
    exact ⟨by rw [this.1]; omega, this.2⟩

/-- a flush somewhere inside the labels of a record forgets `lastResult` -/
theorem foldl_insertLabel_flush (l : Labels) (u : Upload) (h : l ≠ [])
    (hf : u.labelArgs + 4 * (l.length - 1) ≥ 990) :
    (l.foldl (fun u kv => u.insertLabel kv.1 kv.2) u).lastResult = none := by
  induction l generalizing u with
  | nil => exact absurd rfl h
  | cons kv rest ih =>
    simp only [List.foldl_cons]
    by_cases hu : u.labelArgs ≥ 990
    · exact foldl_insertLabel_none rest _ (insertLabel_flush u kv.1 kv.2 hu).2
    · have h1 := insertLabel_noflush u kv.1 kv.2 (by omega)
      cases rest with
      | nil => simp at hf; omega
      | cons kv2 rest2 =>
        apply ih _ (by simp)
        rw [h1.1]
        simp only [List.length_cons] at *
        omega

/-- the state in which the labels of a new record are queued -/
def newStart (u : Upload) (r : Result) : Upload :=
  { u with lastResult := some r,
           records := u.records ++ [(⟨u.id, u.recordid, (printResult [] r).1⟩ : RecordRow)] }

def queue (u : Upload) (l : Labels) : Upload :=
  l.foldl (fun (u : Upload) kv => u.insertLabel kv.1 kv.2) u

theorem insertNew_state (u : Upload) (r : Result) :
    (u.insertNew r).lastResult = (queue (newStart u r) (r.labels ++ r.nameL)).lastResult ∧
    (u.insertNew r).labelArgs = (queue (newStart u r) (r.labels ++ r.nameL)).labelArgs := by
  unfold Upload.insertNew queue newStart
  simp only [List.foldl_append]
  trivial

/-- a new record without a flush: `lastResult` is the new result -/
theorem insertNew_noflush (u : Upload) (r : Result) (h : u.labelArgs + 4 * nLabels r ≤ 990) :
    (u.insertNew r).lastResult = some r ∧ (u.insertNew r).labelArgs = u.labelArgs + 4 * nLabels r := by
  have hs := insertNew_state u r
  have := foldl_insertLabel_noflush (r.labels ++ r.nameL) (newStart u r) h
  exact ⟨hs.1.trans this.2, hs.2.trans this.1⟩

/-- **the flush boundary**: when the queue reaches 990 arguments while the labels of a new record
are queued, the record is stored as usual but `lastResult` is forgotten -/
theorem insertNew_flush (u : Upload) (r : Result) (hn : nLabels r ≠ 0)
    (h : u.labelArgs + 4 * (nLabels r - 1) ≥ 990) : (u.insertNew r).lastResult = none := by
  rw [(insertNew_state u r).1]
  exact foldl_insertLabel_flush (r.labels ++ r.nameL) (newStart u r)
    (by intro e; apply hn; simp [nLabels, e]) h

/-! ### runs -/

theorem appendToLast_snoc (recs : List RecordRow) (row : RecordRow) (e : Bytes) :
    appendToLast (recs ++ [row]) e = recs ++ [{ row with content := row.content ++ e }] := by
  unfold appendToLast
  simp

theorem mem_takeWhile_imp' {α : Type} (p : α → Bool) (l : List α) (x : α)
    (hx : x ∈ l.takeWhile p) : p x = true := by
  induction l with
  | nil => simp at hx
  | cons y rest ih =>
    rw [List.takeWhile_cons] at hx
    split at hx
    · rcases List.mem_cons.mp hx with rfl | hx
      · assumption
      · exact ih hx
    · simp at hx

/-- results with the labels of the open record are appended to it -/
theorem insert_same (t : List Result) (h : Result) (u : Upload) (recs : List RecordRow) (row : RecordRow)
    (hu : u.lastResult = some h) (hrec : u.records = recs ++ [row])
    (ht : ∀ r ∈ t, h.sameLabels r = true) :
    (t.foldl Upload.insertRecord u).records =
        recs ++ [{ row with content := row.content ++ t.flatMap fun r => r.content ++ [nl] }] ∧
    (t.foldl Upload.insertRecord u).id = u.id ∧
    (t.foldl Upload.insertRecord u).recordid = u.recordid ∧
    (t.foldl Upload.insertRecord u).labelArgs = u.labelArgs ∧
    (t.foldl Upload.insertRecord u).lastResult = u.lastResult := by
  induction t generalizing u row with
  | nil => simp [hrec]
  | cons r rest ih =>
    simp only [List.foldl_cons]
    have hs := ht r (by simp)
    have h1 : u.insertRecord r = { u with records := recs ++ [{ row with content := row.content ++ (r.content ++ [nl]) }] } := by
      unfold Upload.insertRecord
      simp only [hu, hs, if_true, hrec, appendToLast_snoc]
    have := ih { u with records := recs ++ [{ row with content := row.content ++ (r.content ++ [nl]) }] }
      { row with content := row.content ++ (r.content ++ [nl]) } hu rfl
      (fun x hx => ht x (by simp [hx]))
    rw [h1]
    refine ⟨?_, this.2.1, this.2.2.1, this.2.2.2.1, this.2.2.2.2⟩
    rw [this.1]; simp [List.append_assoc]

theorem rowsOf_length (id : Bytes) (rid : Nat) (gs : List (List Result)) :
    (rowsOf id rid gs).length = gs.length := by
  induction gs generalizing rid with
  | nil => rfl
  | cons g gs ih => simp [rowsOf, ih]

/-- **records = runs, between flushes**: starting from a state whose open record (if any) does not
take the first result, and as long as the label queue stays below the threshold, inserting `rs`
stores one record per run, with consecutive record ids, each holding the first result printed with
all its labels followed by the bare lines of the rest of the run. -/
theorem insert_runs (fuel : Nat) (rs : List Result) (hfuel : rs.length ≤ fuel) (u : Upload)
    (hhead : ∀ l r, u.lastResult = some l → rs.head? = some r → l.sameLabels r = false)
    (hargs : u.labelArgs + 4 * headLabels (runs fuel rs) ≤ 990) :
    (rs.foldl Upload.insertRecord u).records = u.records ++ rowsOf u.id u.recordid (runs fuel rs) ∧
    (rs.foldl Upload.insertRecord u).recordid = u.recordid + (runs fuel rs).length ∧
    (rs.foldl Upload.insertRecord u).labelArgs = u.labelArgs + 4 * headLabels (runs fuel rs) ∧
    (rs.foldl Upload.insertRecord u).id = u.id := by
  induction fuel generalizing rs u with
  | zero =>
    have : rs = [] := by cases rs <;> simp_all
    subst this; simp [runs, rowsOf, headLabels]
  | succ n ih =>
    cases rs with
    | nil => simp [runs, rowsOf, headLabels]
    | cons h rest =>
      simp only [runs, headLabels, rowsOf, List.length_cons] at *
      -- the first result starts a new record
      have hnew : u.insertRecord h = u.insertNew h := by
        unfold Upload.insertRecord
        split
        · rename_i last hl
          have := hhead last h hl rfl
          simp [this]
        · rfl
      obtain ⟨sid, srid, srec, _⟩ := insertNew_spec u h
      have hnf := insertNew_noflush u h (by omega)
      -- the rest of the run is appended to it
      have hfold : ∀ s : Upload, rest.foldl Upload.insertRecord s =
          (rest.dropWhile (h.sameLabels ·)).foldl Upload.insertRecord
            ((rest.takeWhile (h.sameLabels ·)).foldl Upload.insertRecord s) := by
        intro s
        rw [← List.foldl_append, List.takeWhile_append_dropWhile]
      have hsame := insert_same (rest.takeWhile (h.sameLabels ·)) h (u.insertNew h) u.records
        ⟨u.id, u.recordid, (printResult [] h).1⟩ hnf.1 srec
        (fun r hr => mem_takeWhile_imp' _ _ _ hr)
      simp only [List.foldl_cons, hnew, hfold]
      -- the remaining results form the following runs
      have hlen : (rest.dropWhile (h.sameLabels ·)).length ≤ n := by
        have := (List.dropWhile_sublist (l := rest) (h.sameLabels ·)).length_le
        omega
      have := ih (rest.dropWhile (h.sameLabels ·)) hlen
        ((rest.takeWhile (h.sameLabels ·)).foldl Upload.insertRecord (u.insertNew h))
        (by
          intro l r hl hr
          rw [hsame.2.2.2.2, hnf.1] at hl
          simp only [Option.some.injEq] at hl
          subst hl
          have := List.head?_dropWhile_not (h.sameLabels ·) rest
          rw [hr] at this
          simpa using this)
        (by rw [hsame.2.2.2.1, hnf.2]; omega)
      rw [hsame.1, hsame.2.1, hsame.2.2.1, hsame.2.2.2.1, hnf.2, srid, sid] at this
      refine ⟨?_, ?_, ?_, ?_⟩
      · rw [this.1]; simp [groupContent, List.append_assoc]
      · rw [this.2.1]; omega
      · rw [this.2.2.1]; omega
      · exact this.2.2.2

end C19
