/-
C03 helper lemmas: bytesconv.ParseUint / ParseInt (base 10, 64 bit) against the specification.
-/
import Proofs.Lemmas.C03Atoi

namespace C03
open Num Spec.NumText

theorem uint_byte_facts (c : UInt8) :
    (isDec c = true → (48 ≤ c && c ≤ 57) = true ∧ ¬ (c - 48 ≥ 10) ∧ lower c = c ∧ c ≠ 95 ∧ c ≠ 45 ∧ c ≠ 43) ∧
    (isDec c = false → (48 ≤ c && c ≤ 57) = false ∧
        ((97 ≤ lower c && lower c ≤ 122) = true → lower c - 97 + 10 ≥ 10)) := by
  revert c; apply byte_forall; decide +kernel

theorem maxU : maxUint64 = 18446744073709551615 := by decide +kernel
theorem cutU : uintCutoff = 1844674407370955162 := by decide +kernel
theorem pow64 : (2 : Nat) ^ 64 = 18446744073709551616 := by decide +kernel

/-- On a digit string the loop returns the exact value when it fits and (max, range) when it
does not — never a wrapped value. -/
theorem parseUintLoop_digits (s : Bytes) (hs : s.all isDec = true) : ∀ n, n ≤ maxUint64 →
    parseUintLoop s n = if valFrom n s ≤ maxUint64 then ⟨valFrom n s, none⟩ else ⟨maxUint64, some .range⟩ := by
  induction s with
  | nil => intro n hn; simp [parseUintLoop, valFrom, hn]
  | cons c s ih =>
    intro n hn
    rw [List.all_cons, Bool.and_eq_true] at hs
    obtain ⟨h1, h2, _⟩ := (uint_byte_facts c).1 hs.1
    have hv := (byte_digit c).2.1 hs.1
    have h9 := (byte_digit c).2.2.2 hs.1
    have hge := valFrom_ge s (n * 10 + digVal c)
    unfold parseUintLoop
    simp only [h1, if_true, h2, if_false]
    rw [valFrom_cons, pow64, hv]
    simp only [uintMaxVal, maxU] at hn ⊢
    by_cases hc : n ≥ uintCutoff
    · simp only [hc, if_true]
      rw [cutU] at hc
      have : ¬ (valFrom (n * 10 + digVal c) s ≤ 18446744073709551615) := by omega
      simp [this]
    · simp only [hc, if_false]
      rw [cutU] at hc
      have e1 : n * 10 % 18446744073709551616 = n * 10 := Nat.mod_eq_of_lt (by omega)
      rw [e1]
      by_cases hov : n * 10 + digVal c < 18446744073709551616
      · have e2 : (n * 10 + digVal c) % 18446744073709551616 = n * 10 + digVal c := Nat.mod_eq_of_lt hov
        rw [e2]
        have : ¬ (n * 10 + digVal c < n * 10) := by omega
        have h3 : ¬ (n * 10 + digVal c > 18446744073709551615) := by omega
        simp only [this, h3, decide_false, Bool.or_self, Bool.false_eq_true, if_false]
        have := ih hs.2 (n * 10 + digVal c) (by rw [maxU]; omega)
        rw [maxU] at this; exact this
      · have : (n * 10 + digVal c) % 18446744073709551616 < n * 10 := by omega
        have h4 : ¬ (valFrom (n * 10 + digVal c) s ≤ 18446744073709551615) := by omega
        simp [this, h4]

theorem parseUintLoop_range_val (s : Bytes) : ∀ n, (parseUintLoop s n).err = some .range →
    (parseUintLoop s n).val = maxUint64 := by
  induction s with
  | nil => intro n h; simp [parseUintLoop] at h
  | cons c s ih =>
    intro n
    unfold parseUintLoop
    simp only []
    split
    · intro h; simp at h
    · split
      · intro h; simp at h
      · split
        · intro _; rfl
        · split
          · intro _; rfl
          · exact ih _

/-- Anything that is not a digit string is rejected (syntax, or range if the digits before the
offending byte already overflowed). -/
theorem parseUintLoop_reject (s : Bytes) (hs : s.all isDec = false) : ∀ n, (parseUintLoop s n).err ≠ none := by
  induction s with
  | nil => simp at hs
  | cons c s ih =>
    intro n
    unfold parseUintLoop
    simp only []
    by_cases hd : isDec c = true
    · obtain ⟨h1, h2, _⟩ := (uint_byte_facts c).1 hd
      have hs' : s.all isDec = false := by
        rw [List.all_cons, hd, Bool.true_and] at hs; exact hs
      simp only [h1, if_true, h2, if_false]
      split
      · simp
      · split
        · simp
        · exact ih hs' _
    · simp only [Bool.not_eq_true] at hd
      obtain ⟨h1, h2⟩ := (uint_byte_facts c).2 hd
      simp only [h1, Bool.false_eq_true, if_false]
      by_cases hl : (97 ≤ lower c && lower c ≤ 122) = true
      · simp [hl, h2 hl]
      · simp [hl]

theorem underscoreLoop_digits (s : Bytes) (hs : s.all isDec = true) :
    ∀ saw, saw ≠ Saw.under → underscoreLoop false s saw = true := by
  induction s with
  | nil => intro saw h; simp [underscoreLoop, h]
  | cons c s ih =>
    intro saw _
    rw [List.all_cons, Bool.and_eq_true] at hs
    obtain ⟨h1, _⟩ := (uint_byte_facts c).1 hs.1
    unfold underscoreLoop
    simp only [h1, Bool.true_or, if_true]
    exact ih hs.2 _ (by decide)

theorem underscoreOK_digits (s : Bytes) (hs : s.all isDec = true) : underscoreOK s = true := by
  unfold underscoreOK
  cases s with
  | nil => simp [underscoreLoop]
  | cons c r =>
    have hc : isDec c = true := by rw [List.all_cons, Bool.and_eq_true] at hs; exact hs.1
    obtain ⟨_, _, _, _, h45, h43⟩ := (uint_byte_facts c).1 hc
    have e : (c == 45 || c == 43) = false := by simp [h45, h43]
    simp only [e, Bool.false_eq_true, if_false]
    split
    · rename_i x r' heq
      injection heq with hc0 hr
      subst hr
      have hx : isDec x = true := by
        rw [List.all_cons, List.all_cons, Bool.and_eq_true, Bool.and_eq_true] at hs; exact hs.2.1
      obtain ⟨_, _, hl, _⟩ := (uint_byte_facts x).1 hx
      have : ¬ (x = 98 ∨ x = 111 ∨ x = 120) := by
        have := dec_byte_facts x hx
        intro h; rcases h with h | h | h <;> (subst h; simp [isDec] at hx)
      rw [hl]
      have e2 : (x == 98 || x == 111 || x == 120) = false := by
        simp only [not_or] at this; simp [this.1, this.2.1, this.2.2]
      simp only [e2, Bool.false_eq_true, if_false]
      exact underscoreLoop_digits _ hs _ (by decide)
    · exact underscoreLoop_digits _ hs _ (by decide)

/-- **ParseUint(s, 10, 64)** on digit strings -/
theorem parseUint_digits (s : Bytes) (hne : s ≠ []) (hs : s.all isDec = true) :
    parseUint s = if valOf 10 s ≤ maxUint64 then ⟨valOf 10 s, none⟩ else ⟨maxUint64, some .range⟩ := by
  unfold parseUint
  have hl : (s.length == 0) = false := by
    cases s with
    | nil => exact absurd rfl hne
    | cons _ _ => simp
  simp only [hl, underscoreOK_digits s hs, Bool.not_true, Bool.or_self, Bool.false_eq_true, if_false]
  rw [valOf_eq]
  exact parseUintLoop_digits s hs 0 (by rw [maxU]; omega)

theorem parseUint_reject (s : Bytes) (h : s = [] ∨ s.all isDec = false) : (parseUint s).err ≠ none := by
  unfold parseUint
  split
  · simp
  · rcases h with h | h
    · subst h; rename_i hc; simp at hc
    · exact parseUintLoop_reject s h 0

theorem parseUint_range_val (s : Bytes) (h : (parseUint s).err = some .range) : (parseUint s).val = maxUint64 := by
  unfold parseUint at h ⊢
  split
  · rename_i hc; simp [hc] at h
  · rename_i hc; simp only [hc] at h; exact parseUintLoop_range_val s 0 h

end C03
