/-
C07 helper lemmas about the tokenizer model (Model/Proc/Tok.lean).
-/
import Model.Proc.Tok

namespace C07
open Proc.Tok

/-- A quoted-word body made of items: a byte other than `"` and `\`, or `\` followed by any byte. -/
inductive Items : Bytes → Prop
  | nil : Items []
  | plain {c : UInt8} {r : Bytes} : c ≠ cQuote → c ≠ cBsl → Items r → Items (c :: r)
  | esc {d : UInt8} {r : Bytes} : Items r → Items (cBsl :: d :: r)

theorem scanQuote_quote (r : Bytes) : scanQuote (cQuote :: r) = some ([], r) := by
  unfold scanQuote; simp

theorem scanQuote_plain {c : UInt8} (hq : c ≠ cQuote) (hb : c ≠ cBsl) (r : Bytes) :
    scanQuote (c :: r) = (scanQuote r).map (fun p => (c :: p.1, p.2)) := by
  rw [scanQuote.eq_def]; simp [hq, hb]
  cases scanQuote r with
  | none => rfl
  | some p => rfl

theorem scanQuote_esc (d : UInt8) (r : Bytes) :
    scanQuote (cBsl :: d :: r) = (scanQuote r).map (fun p => (cBsl :: d :: p.1, p.2)) := by
  have h1 : (cBsl == cQuote) = false := by decide
  rw [scanQuote.eq_def]; simp [h1]
  cases scanQuote r with
  | none => rfl
  | some p => rfl

theorem scanQuote_bsl_end : scanQuote [cBsl] = none := by
  have h1 : (cBsl == cQuote) = false := by decide
  rw [scanQuote]; simp [h1]

theorem scanQuote_items {body : Bytes} (h : Items body) (rest : Bytes) :
    scanQuote (body ++ cQuote :: rest) = some (body, rest) := by
  induction h with
  | nil => simpa using scanQuote_quote rest
  | plain hq hb _ ih => simp [scanQuote_plain hq hb, ih]
  | esc _ ih => simp [scanQuote_esc, ih]

/-- the first byte of a quoted word sends `next` to `quotedWord`, in both modes -/
theorem next_quote (cx : Ctx) (m : Bool) (r : Bytes) (e : ErrSt) :
    next cx m (cQuote :: r) e = quotedWord cx (cQuote :: r) e := by
  have h1 : isStartOpB cQuote = false := by decide
  have h2 : isSpaceLen cx (cQuote :: r) = 0 := by
    simp [isSpaceLen, cQuote, decodeRune, isSpaceRune]
  simp [next, nextF, h1, h2]
  intro _ h; exact absurd h (by decide)

end C07
