/-
C07 helper lemmas about the tokenizer model (Model/Proc/Tok.lean).
-/
import Model.Proc.Tok

namespace C07
open Proc.Tok

/-- A quoted-word body made of items: a byte other than `"` and `\`, or `\` followed by any byte. -/
inductive Items : Bytes → Prop
  | nil : Items []
  | plain {c : UInt8} {r : Bytes} : c ≠ cQuote → c ≠ cBsl → Items r → Items (c :: r)
  | esc {d : UInt8} {r : Bytes} : Items r → Items (cBsl :: d :: r)

theorem scanQuote_quote (r : Bytes) : scanQuote (cQuote :: r) = some ([], r) := by
  unfold scanQuote; simp

theorem scanQuote_plain {c : UInt8} (hq : c ≠ cQuote) (hb : c ≠ cBsl) (r : Bytes) :
    scanQuote (c :: r) = (scanQuote r).map (fun p => (c :: p.1, p.2)) := by
  rw [scanQuote.eq_def]; simp [hq, hb]
  cases scanQuote r with
  | none => rfl
  | some p => rfl

theorem scanQuote_esc (d : UInt8) (r : Bytes) :
    scanQuote (cBsl :: d :: r) = (scanQuote r).map (fun p => (cBsl :: d :: p.1, p.2)) := by
  have h1 : (cBsl == cQuote) = false := by decide
  rw [scanQuote.eq_def]; simp [h1]
  cases scanQuote r with
  | none => rfl
  | some p => rfl

theorem scanQuote_bsl_end : scanQuote [cBsl] = none := by
  have h1 : (cBsl == cQuote) = false := by decide
  rw [scanQuote]; simp [h1]

theorem scanQuote_items {body : Bytes} (h : Items body) (rest : Bytes) :
    scanQuote (body ++ cQuote :: rest) = some (body, rest) := by
  induction h with
  | nil => simpa using scanQuote_quote rest
  | plain hq hb _ ih => simp [scanQuote_plain hq hb, ih]
  | esc _ ih => simp [scanQuote_esc, ih]

/-- the first byte of a quoted word sends `next` to `quotedWord`, in both modes -/
theorem next_quote (cx : Ctx) (m : Bool) (r : Bytes) (e : ErrSt) :
    next cx m (cQuote :: r) e = quotedWord cx (cQuote :: r) e := by
  have h1 : isStartOpB cQuote = false := by decide
  have h2 : isSpaceLen cx (cQuote :: r) = 0 := by
    simp [isSpaceLen, cQuote, decodeRune, isSpaceRune]
  simp [next, nextF, h1, h2]
  intro _ h; exact absurd h (by decide)

end C07

namespace C07
open Proc.Tok

/-! ### sizes -/

theorem decodeRune_size (c : UInt8) (t : Bytes) :
    1 ≤ (decodeRune (c :: t)).2 ∧ (decodeRune (c :: t)).2 ≤ (c :: t).length := by
  rcases t with _ | ⟨b1, _ | ⟨b2, _ | ⟨b3, t⟩⟩⟩ <;> simp only [decodeRune] <;>
    (repeat' split) <;> simp

theorem scanQuote_len_aux : ∀ (n : Nat) (r b rest : Bytes), r.length ≤ n →
    scanQuote r = some (b, rest) → r.length = b.length + 1 + rest.length := by
  intro n
  induction n with
  | zero =>
    intro r b rest hn h
    have : r = [] := List.length_eq_zero_iff.mp (by omega)
    subst this; simp [scanQuote] at h
  | succ n ih =>
    intro r b rest hn h
    match r with
    | [] => simp [scanQuote] at h
    | c :: r =>
      by_cases hq : c = cQuote
      · subst hq; rw [scanQuote_quote] at h; simp at h; obtain ⟨rfl, rfl⟩ := h; simp; omega
      · by_cases hb : c = cBsl
        · subst hb
          match r with
          | [] => rw [scanQuote_bsl_end] at h; simp at h
          | d :: r' =>
            rw [scanQuote_esc] at h
            cases hs : scanQuote r' with
            | none => simp [hs] at h
            | some p =>
              simp [hs] at h; obtain ⟨rfl, rfl⟩ := h
              have := ih r' p.1 p.2 (by simp at hn; omega) (by simp [hs])
              simp; omega
        · rw [scanQuote_plain hq hb] at h
          cases hs : scanQuote r with
          | none => simp [hs] at h
          | some p =>
            simp [hs] at h; obtain ⟨rfl, rfl⟩ := h
            have := ih r p.1 p.2 (by simp at hn; omega) (by simp [hs])
            simp; omega

theorem scanQuote_len {r b rest : Bytes} (h : scanQuote r = some (b, rest)) :
    r.length = b.length + 1 + rest.length := scanQuote_len_aux r.length r b rest (Nat.le_refl _) h

theorem reScan_len_aux : ∀ (n : Nat) (r : Bytes) (cs : Nat) (cp : Int) (x rest : Bytes), r.length ≤ n →
    reScan r cs cp = some (x, rest) → x.length + rest.length = r.length ∧ 1 ≤ rest.length := by
  intro n
  induction n with
  | zero =>
    intro r cs cp x rest hn h
    have : r = [] := List.length_eq_zero_iff.mp (by omega)
    subst this; simp [reScan] at h
  | succ n ih =>
    intro r cs cp x rest hn h
    match r with
    | [] => simp [reScan] at h
    | c :: r =>
      rw [reScan.eq_def] at h
      simp only at h
      split at h
      · simp at h; obtain ⟨rfl, rfl⟩ := h; simp
      · split at h
        · split at h
          · simp at h
          · rename_i d r'
            split at h
            · rename_i x' rest' heq
              simp at h; obtain ⟨rfl, rfl⟩ := h
              have := ih r' cs cp x' rest' (by simp at hn; omega) heq
              simp; omega
            · simp at h
        · split at h
          · rename_i x' rest' heq
            simp at h; obtain ⟨rfl, rfl⟩ := h
            have := ih r _ _ x' rest' (by simp at hn; omega) heq
            simp; omega
          · simp at h

theorem reScan_len {r : Bytes} {cs : Nat} {cp : Int} {x rest : Bytes} (h : reScan r cs cp = some (x, rest)) :
    x.length + rest.length = r.length ∧ 1 ≤ rest.length :=
  reScan_len_aux r.length r cs cp x rest (Nat.le_refl _) h

/-- `bareSplit` only cuts the input in two -/
theorem bareSplit_append (cx : Ctx) : ∀ (f : Nat) (q : Bytes),
    (bareSplit cx f q).1 ++ (bareSplit cx f q).2 = q := by
  intro f
  induction f with
  | zero => intro q; simp [bareSplit]
  | succ f ih =>
    intro q
    match q with
    | [] => simp [bareSplit]
    | c :: t =>
      simp only [bareSplit]
      split
      · simp
      · have := ih ((c :: t).drop (decodeRune (c :: t)).2)
        simp only [List.append_assoc, this, List.take_append_drop]

theorem decodeRune_lo (c : UInt8) (t : Bytes) (h : c < 0x80) : decodeRune (c :: t) = (c.toNat, 1) := by
  simp [decodeRune, h]

/-- the five ways `decodeRune (c :: t)` can come out -/
inductive Dec : UInt8 → Bytes → Nat → Nat → Prop
  | ascii (c : UInt8) (t : Bytes) : c.toNat < 0x80 → Dec c t c.toNat 1
  | bad (c : UInt8) (t : Bytes) : 0x80 ≤ c.toNat → Dec c t runeError 1
  | two (c b1 : UInt8) (t : Bytes) : 0xC2 ≤ c.toNat ∧ c.toNat ≤ 0xDF → 0x80 ≤ b1.toNat ∧ b1.toNat ≤ 0xBF →
      Dec c (b1 :: t) (c.toNat % 32 * 64 + b1.toNat % 64) 2
  | three (c b1 b2 : UInt8) (t : Bytes) : 0xE0 ≤ c.toNat ∧ c.toNat ≤ 0xEF → 0x80 ≤ b1.toNat ∧ b1.toNat ≤ 0xBF →
      (c.toNat ≠ 0xE0 ∨ 0xA0 ≤ b1.toNat) → (c.toNat ≠ 0xED ∨ b1.toNat ≤ 0x9F) → 0x80 ≤ b2.toNat ∧ b2.toNat ≤ 0xBF →
      Dec c (b1 :: b2 :: t) (c.toNat % 16 * 4096 + b1.toNat % 64 * 64 + b2.toNat % 64) 3
  | four (c b1 b2 b3 : UInt8) (t : Bytes) : 0xF0 ≤ c.toNat ∧ c.toNat ≤ 0xF4 → 0x80 ≤ b1.toNat ∧ b1.toNat ≤ 0xBF →
      (c.toNat ≠ 0xF0 ∨ 0x90 ≤ b1.toNat) → (c.toNat ≠ 0xF4 ∨ b1.toNat ≤ 0x8F) → 0x80 ≤ b2.toNat ∧ b2.toNat ≤ 0xBF →
      0x80 ≤ b3.toNat ∧ b3.toNat ≤ 0xBF →
      Dec c (b1 :: b2 :: b3 :: t) (c.toNat % 8 * 262144 + b1.toNat % 64 * 4096 + b2.toNat % 64 * 64 + b3.toNat % 64) 4

theorem cont_nat {b : UInt8} (h : isCont b = true) : 0x80 ≤ b.toNat ∧ b.toNat ≤ 0xBF := by
  simpa [isCont, UInt8.le_iff_toNat_le] using h

theorem decode_dec (c : UInt8) (t : Bytes) : Dec c t (decodeRune (c :: t)).1 (decodeRune (c :: t)).2 := by
  by_cases h0 : c < 0x80
  · rw [decodeRune_lo c t h0]
    exact Dec.ascii c t (by simpa [UInt8.lt_iff_toNat_lt] using h0)
  · have h0n : 0x80 ≤ c.toNat := by simp [UInt8.lt_iff_toNat_lt] at h0; omega
    cases hc2 : (decide (0xC2 ≤ c) && decide (c ≤ 0xDF)) with
    | true =>
      have hr : 0xC2 ≤ c.toNat ∧ c.toNat ≤ 0xDF := by simpa [UInt8.le_iff_toNat_le] using hc2
      match t with
      | [] => simp only [decodeRune, h0, hc2, if_true, if_false]; exact Dec.bad c _ h0n
      | b1 :: t' =>
        simp only [decodeRune, h0, hc2, if_true, if_false]
        split
        · rename_i h1; exact Dec.two c b1 t' hr (cont_nat h1)
        · exact Dec.bad c _ h0n
    | false =>
      cases hc3 : (decide (0xE0 ≤ c) && decide (c ≤ 0xEF)) with
      | true =>
        have hr : 0xE0 ≤ c.toNat ∧ c.toNat ≤ 0xEF := by simpa [UInt8.le_iff_toNat_le] using hc3
        match t with
        | [] => simp only [decodeRune, h0, hc2, hc3, if_true, if_false, Bool.false_eq_true]; exact Dec.bad c _ h0n
        | [b1] => simp only [decodeRune, h0, hc2, hc3, if_true, if_false, Bool.false_eq_true]; exact Dec.bad c _ h0n
        | b1 :: b2 :: t' =>
          simp only [decodeRune, h0, hc2, hc3, if_true, if_false, Bool.false_eq_true]
          split
          · rename_i h1
            simp only [Bool.and_eq_true, decide_eq_true_eq] at h1
            obtain ⟨⟨hlo, hhi⟩, hb2⟩ := h1
            have hb2' := cont_nat hb2
            have hlo' : (c.toNat ≠ 0xE0 ∨ 0xA0 ≤ b1.toNat) ∧ 0x80 ≤ b1.toNat := by
              by_cases he : c = 0xE0
              · simp [lo3, he, UInt8.le_iff_toNat_le] at hlo; exact ⟨Or.inr hlo, by omega⟩
              · have : c.toNat ≠ 0xE0 := fun h => he (UInt8.toNat_inj.mp (by simpa using h))
                simp [lo3, he, UInt8.le_iff_toNat_le] at hlo; exact ⟨Or.inl this, hlo⟩
            have hhi' : (c.toNat ≠ 0xED ∨ b1.toNat ≤ 0x9F) ∧ b1.toNat ≤ 0xBF := by
              by_cases he : c = 0xED
              · simp [hi3, he, UInt8.le_iff_toNat_le] at hhi; exact ⟨Or.inr hhi, by omega⟩
              · have : c.toNat ≠ 0xED := fun h => he (UInt8.toNat_inj.mp (by simpa using h))
                simp [hi3, he, UInt8.le_iff_toNat_le] at hhi; exact ⟨Or.inl this, hhi⟩
            exact Dec.three c b1 b2 t' hr ⟨hlo'.2, hhi'.2⟩ hlo'.1 hhi'.1 hb2'
          · exact Dec.bad c _ h0n
      | false =>
        cases hc4 : (decide (0xF0 ≤ c) && decide (c ≤ 0xF4)) with
        | true =>
          have hr : 0xF0 ≤ c.toNat ∧ c.toNat ≤ 0xF4 := by simpa [UInt8.le_iff_toNat_le] using hc4
          match t with
          | [] => simp only [decodeRune, h0, hc2, hc3, hc4, if_true, if_false, Bool.false_eq_true]; exact Dec.bad c _ h0n
          | [b1] => simp only [decodeRune, h0, hc2, hc3, hc4, if_true, if_false, Bool.false_eq_true]; exact Dec.bad c _ h0n
          | [b1, b2] => simp only [decodeRune, h0, hc2, hc3, hc4, if_true, if_false, Bool.false_eq_true]; exact Dec.bad c _ h0n
          | b1 :: b2 :: b3 :: t' =>
            simp only [decodeRune, h0, hc2, hc3, hc4, if_true, if_false, Bool.false_eq_true]
            split
            · rename_i h1
              simp only [Bool.and_eq_true, decide_eq_true_eq] at h1
              obtain ⟨⟨⟨hlo, hhi⟩, hb2⟩, hb3⟩ := h1
              have hb2' := cont_nat hb2
              have hb3' := cont_nat hb3
              have hlo' : (c.toNat ≠ 0xF0 ∨ 0x90 ≤ b1.toNat) ∧ 0x80 ≤ b1.toNat := by
                by_cases he : c = 0xF0
                · simp [lo4, he, UInt8.le_iff_toNat_le] at hlo; exact ⟨Or.inr hlo, by omega⟩
                · have : c.toNat ≠ 0xF0 := fun h => he (UInt8.toNat_inj.mp (by simpa using h))
                  simp [lo4, he, UInt8.le_iff_toNat_le] at hlo; exact ⟨Or.inl this, hlo⟩
              have hhi' : (c.toNat ≠ 0xF4 ∨ b1.toNat ≤ 0x8F) ∧ b1.toNat ≤ 0xBF := by
                by_cases he : c = 0xF4
                · simp [hi4, he, UInt8.le_iff_toNat_le] at hhi; exact ⟨Or.inr hhi, by omega⟩
                · have : c.toNat ≠ 0xF4 := fun h => he (UInt8.toNat_inj.mp (by simpa using h))
                  simp [hi4, he, UInt8.le_iff_toNat_le] at hhi; exact ⟨Or.inl this, hhi⟩
              exact Dec.four c b1 b2 b3 t' hr ⟨hlo'.2, hhi'.2⟩ hlo'.1 hhi'.1 hb2' hb3'
            · exact Dec.bad c _ h0n
        | false =>
          simp only [decodeRune, h0, hc2, hc3, hc4, if_false, Bool.false_eq_true]
          exact Dec.bad c _ h0n

theorem decodeRune_hi (c : UInt8) (t : Bytes) (h : ¬ c < 0x80) : 0x80 ≤ (decodeRune (c :: t)).1 := by
  have hc : 0x80 ≤ c.toNat := by simp [UInt8.lt_iff_toNat_lt] at h; omega
  have hd := decode_dec c t
  generalize (decodeRune (c :: t)).1 = r at hd ⊢
  generalize (decodeRune (c :: t)).2 = w at hd
  cases hd <;> first | omega | simp [runeError]

/-! ### well-formedness of tokenizer results -/

/-- how the error tracker may change while working inside `q`: unchanged, or set for the first
time to an error positioned at a tokenizer state no longer than `q` -/
def ErrOK (cx : Ctx) (q : Bytes) (e e' : ErrSt) : Prop :=
  e' = e ∨ (e = none ∧ ∃ q' m, e' = some ⟨offOf cx q', m⟩ ∧ q'.length ≤ q.length)

theorem ErrOK.refl (cx : Ctx) (q : Bytes) (e : ErrSt) : ErrOK cx q e e := Or.inl rfl

theorem ErrOK.mono {cx : Ctx} {q q1 : Bytes} {e e' : ErrSt} (h : ErrOK cx q1 e e') (hl : q1.length ≤ q.length) :
    ErrOK cx q e e' := by
  rcases h with h | ⟨h1, q', m, h2, h3⟩
  · exact Or.inl h
  · exact Or.inr ⟨h1, q', m, h2, by omega⟩

theorem ErrOK.trans {cx : Ctx} {q : Bytes} {e e1 e2 : ErrSt} (h1 : ErrOK cx q e e1) (h2 : ErrOK cx q e1 e2) :
    ErrOK cx q e e2 := by
  rcases h1 with h1 | ⟨h1, q', m, h1', h1''⟩
  · subst h1; exact h2
  · rcases h2 with h2 | ⟨h2, _⟩
    · subst h2; exact Or.inr ⟨h1, q', m, h1', h1''⟩
    · rw [h1'] at h2; simp at h2

theorem recErr_ok (cx : Ctx) {q q' : Bytes} (m : Msg) (e : ErrSt) (h : q'.length ≤ q.length) :
    ErrOK cx q e (recErr cx q' m e) := by
  cases e with
  | none => exact Or.inr ⟨rfl, q', m, rfl, h⟩
  | some x => exact Or.inl rfl

theorem recErr_isSome (cx : Ctx) (q : Bytes) (m : Msg) (e : ErrSt) : (recErr cx q m e).isSome := by
  cases e <;> simp [recErr]

theorem recErr_some (cx : Ctx) (q : Bytes) (m : Msg) (x : Err) : recErr cx q m (some x) = some x := rfl

structure TokOK (cx : Ctx) (q : Bytes) (e : ErrSt) (r : TokR) : Prop where
  cur_le : r.cur.length ≤ q.length
  rest_le : r.rest.length ≤ r.cur.length
  rest_lt : r.tok.kind ≠ 0 → r.rest.length < r.cur.length
  err : ErrOK cx q e r.err
  errKind : r.err ≠ e → r.tok.kind = 0
  off : r.tok.off = offOf cx r.cur

theorem tokError_ok (cx : Ctx) {q q' : Bytes} (m : Msg) (e : ErrSt) (h : q'.length ≤ q.length) :
    TokOK cx q e (tokError cx q' m e) :=
  ⟨h, by simp [tokError, mkTok], by simp [tokError, mkTok], recErr_ok cx m e h, by simp [tokError, mkTok],
   by simp [tokError, mkTok]⟩

theorem mkTok_ok (cx : Ctx) {q cur rest : Bytes} (kind : UInt8) (tok : Bytes) (e : ErrSt)
    (h1 : cur.length ≤ q.length) (h2 : rest.length < cur.length) :
    TokOK cx q e (mkTok cx cur kind tok rest e) :=
  ⟨h1, by simp [mkTok]; omega, by simp [mkTok]; omega, Or.inl rfl, by simp [mkTok], by simp [mkTok]⟩

theorem quotedWord_ok (cx : Ctx) (c : UInt8) (r : Bytes) (e : ErrSt) :
    TokOK cx (c :: r) e (quotedWord cx (c :: r) e) := by
  unfold quotedWord
  simp only [List.drop_succ_cons, List.drop_zero]
  cases hs : scanQuote r with
  | none => exact tokError_ok cx _ e (Nat.le_refl _)
  | some p =>
    obtain ⟨body, rest⟩ := p
    have hl := scanQuote_len hs
    simp only
    split
    · exact tokError_ok cx _ e (Nat.le_refl _)
    · exact mkTok_ok cx _ _ e (Nat.le_refl _) (by simp; omega)

theorem regexpTok_ok (cx : Ctx) (c : UInt8) (r : Bytes) (e : ErrSt) :
    TokOK cx (c :: r) e (regexpTok cx (c :: r) e) := by
  unfold regexpTok
  simp only [List.drop_succ_cons, List.drop_zero]
  cases hs : reScan r 0 0 with
  | none => exact tokError_ok cx _ e (Nat.le_refl _)
  | some p =>
    obtain ⟨x, rest⟩ := p
    have hl := reScan_len hs
    simp only
    split
    · exact tokError_ok cx _ e (Nat.le_refl _)
    · split
      · exact mkTok_ok cx _ _ e (Nat.le_refl _) (by simp; omega)
      · exact tokError_ok cx _ e (by rw [List.length_drop, List.length_cons]; omega)

theorem bareWord_ok (cx : Ctx) (c : UInt8) (t : Bytes) (e : ErrSt)
    (h1 : isStartOpB c = false) (h2 : isSpaceLen cx (c :: t) = 0) :
    TokOK cx (c :: t) e (bareWord cx (c :: t) e) := by
  have hsz := decodeRune_size c t
  have hstop : (isSpaceRune cx (decodeRune (c :: t)).1 || isOpR (decodeRune (c :: t)).1) = false := by
    have hs : isSpaceRune cx (decodeRune (c :: t)).1 = false := by
      simp only [isSpaceLen] at h2
      split at h2
      · omega
      · cases hh : isSpaceRune cx (decodeRune (c :: t)).1 with
        | false => rfl
        | true => simp [hh] at h2; omega
    have ho : isOpR (decodeRune (c :: t)).1 = false := by
      by_cases hc : c < 0x80
      · rw [decodeRune_lo c t hc]
        simp only [isStartOpB, isStartOpR, Bool.or_eq_false_iff] at h1
        exact h1.1.1
      · have := decodeRune_hi c t hc
        simp only [isOpR, Bool.or_eq_false_iff, beq_eq_false_iff_ne]
        omega
    simp [hs, ho]
  have happ := bareSplit_append cx ((c :: t).length + 1) (c :: t)
  have hne : (bareSplit cx ((c :: t).length + 1) (c :: t)).1 ≠ [] := by
    simp only [bareSplit, hstop]
    simp
    intro h; simp at hsz; omega
  have hlen : (bareSplit cx ((c :: t).length + 1) (c :: t)).2.length < (c :: t).length := by
    have h3 := congrArg List.length happ
    rw [List.length_append] at h3
    have : 0 < (bareSplit cx ((c :: t).length + 1) (c :: t)).1.length := List.length_pos_iff.mpr hne
    omega
  unfold bareWord
  split
  rename_i word rest heq
  rw [heq] at hlen
  simp only at hlen
  split
  · exact mkTok_ok cx _ _ e (Nat.le_refl _) hlen
  · split
    · exact mkTok_ok cx _ _ e (Nat.le_refl _) hlen
    · exact mkTok_ok cx _ _ e (Nat.le_refl _) hlen

theorem isSpaceLen_le (cx : Ctx) (q : Bytes) : isSpaceLen cx q ≤ q.length := by
  match q with
  | [] => simp [isSpaceLen]
  | c :: t =>
    have := decodeRune_size c t
    simp only [isSpaceLen]
    split
    · simp
    · split
      · exact this.2
      · omega

theorem TokOK.mono {cx : Ctx} {q q1 : Bytes} {e : ErrSt} {r : TokR} (h : TokOK cx q1 e r)
    (hl : q1.length ≤ q.length) : TokOK cx q e r :=
  ⟨by have := h.cur_le; omega, h.rest_le, h.rest_lt, h.err.mono hl, h.errKind, h.off⟩

/-- every call of `next` returns a well-formed result (any fuel, any mode) -/
theorem nextF_ok (cx : Ctx) (m : Bool) : ∀ (f : Nat) (q : Bytes) (e : ErrSt), TokOK cx q e (nextF cx m f q e) := by
  intro f
  induction f with
  | zero =>
    intro q e
    exact ⟨Nat.le_refl _, by simp [nextF, mkTok], by simp [nextF, mkTok], Or.inl rfl, by simp [nextF, mkTok],
      by simp [nextF, mkTok]⟩
  | succ f ih =>
    intro q e
    match q with
    | [] =>
      exact ⟨Nat.le_refl _, by simp [nextF, mkTok], by simp [nextF, mkTok], Or.inl rfl, by simp [nextF, mkTok],
        by simp [nextF, mkTok]⟩
    | c :: r =>
      simp only [nextF]
      split
      · exact mkTok_ok cx _ _ e (Nat.le_refl _) (by simp)
      · rename_i hop
        split
        · rename_i hsp
          have hle := isSpaceLen_le cx (c :: r)
          exact (ih ((c :: r).drop (isSpaceLen cx (c :: r))) e).mono (by rw [List.length_drop]; omega)
        · rename_i hsp
          split
          · exact regexpTok_ok cx c r e
          · split
            · exact quotedWord_ok cx c r e
            · exact bareWord_ok cx c r e (by simpa using hop) (by omega)

theorem next_ok (cx : Ctx) (m : Bool) (q : Bytes) (e : ErrSt) : TokOK cx q e (next cx m q e) :=
  nextF_ok cx m _ q e

/-- more fuel than the remaining length changes nothing -/
theorem nextF_fuel2 (cx : Ctx) (m : Bool) : ∀ (f1 f2 : Nat) (q : Bytes) (e : ErrSt), q.length < f1 → q.length < f2 →
    nextF cx m f1 q e = nextF cx m f2 q e := by
  intro f1
  induction f1 with
  | zero => intro f2 q e h; omega
  | succ f1 ih =>
    intro f2 q e h1 h2
    match f2, h2 with
    | f2 + 1, h2 =>
    match q with
    | [] => simp [nextF]
    | c :: r =>
      simp only [nextF]
      split
      · rfl
      · split
        · have hle := isSpaceLen_le cx (c :: r)
          have hlen : ((c :: r).drop (isSpaceLen cx (c :: r))).length < (c :: r).length := by
            rw [List.length_drop]; simp at hle ⊢; omega
          exact ih f2 _ e (by simp at h1 hlen ⊢; omega) (by simp at h2 hlen ⊢; omega)
        · rfl

theorem nextF_fuel (cx : Ctx) (m : Bool) (f : Nat) (q : Bytes) (e : ErrSt) (h : q.length < f) :
    nextF cx m f q e = next cx m q e :=
  nextF_fuel2 cx m f (q.length + 1) q e h (Nat.lt_succ_self _)

end C07
