/-
C03 — the clamp of the exponent digit loop (`if e < 10000 { e = e*10 + digit }` in `readFloat` and
`decimal.set`). An exponent literal below 100000 is read exactly. Of a longer one only the first
five significant digits c (10000 ≤ c ≤ 99999) are kept; the value is then still driven to ±0 or
to ±Inf + range error exactly as by the exact exponent UNLESS the mantissa text compensates the
exponent: about 9 700 digits after the point (decimal) or 2 240 hex digits.  This file proves the
agreement under the sharp bounds; the disagreeing texts are finding candidates (notes/C03.md).
-/
import Proofs.Lemmas.C03Total

namespace C03
open Num Spec.NumText F64

theorem evalFrac_big (neg : Bool) (n d : Nat) (hd : 0 < d) (h : (overflowThreshold : ℚ) ≤ (n : ℚ) / d) :
    evalFrac neg n d = .error .range := by
  have hdq : (0 : ℚ) < d := by exact_mod_cast hd
  rw [le_div_iff₀ hdq] at h
  have : overflowThreshold * d ≤ n := by exact_mod_cast h
  unfold evalFrac
  rw [if_pos this]

theorem tiny2 : roundMag 1 (2 ^ 1076) = 0 := by decide +kernel

theorem evalFrac_small (neg : Bool) (n d : Nat) (hd : 0 < d) (h : (n : ℚ) / d ≤ 1 / (2 : ℚ) ^ 1076) :
    evalFrac neg n d = .ok (F64.zero neg) := by
  have hdq : (0 : ℚ) < d := by exact_mod_cast hd
  rw [div_le_div_iff₀ hdq (by positivity)] at h
  have hnat : n * 2 ^ 1076 ≤ d := by
    have : ((n * 2 ^ 1076 : Nat) : ℚ) ≤ ((1 * d : Nat) : ℚ) := by push_cast; linarith
    have := (Nat.cast_le (α := ℚ)).mp this
    omega
  have hT := hT_pos
  have hp : 1 ≤ 2 ^ 1076 := Nat.pow_pos (by decide)
  have hno : ¬ overflowThreshold * d ≤ n := by
    intro hge
    have h1 : d ≤ overflowThreshold * d := Nat.le_mul_of_pos_left _ hT
    have h2 : n * 1 ≤ n * 2 ^ 1076 := Nat.mul_le_mul_left _ hp
    have hn0 : n = 0 := by
      rcases Nat.eq_zero_or_pos n with h0 | h0
      · exact h0
      · have : (2 : Nat) ≤ 2 ^ 1076 := by
          calc 2 = 2 ^ 1 := rfl
            _ ≤ 2 ^ 1076 := Nat.pow_le_pow_right (by decide) (by decide)
        have : n * 2 ≤ n * 2 ^ 1076 := Nat.mul_le_mul_left _ this
        omega
    omega
  unfold evalFrac
  rw [if_neg hno]
  have hz : roundMag n d = 0 := by
    rcases Nat.eq_zero_or_pos n with h0 | hn
    · subst h0; simp [roundMag]
    · have := roundMag_mono n d 1 (2 ^ 1076) hn hd (Nat.pow_pos (by decide)) (by omega)
      rw [tiny2] at this
      rw [← UInt64.toNat_inj]
      have h0 : (0 : UInt64).toNat = 0 := rfl
      have : (roundMag n d).toNat = 0 := by omega
      rw [this]; rfl
  rw [hz, signed_zero]

/-- a fraction with the numeral's value -/
theorem value_frac (p : Parsed) : ∃ n d : Nat, 0 < d ∧ (n : ℚ) / d = valueOf p := by
  cases hph : p.hex
  · exact ⟨_, _, decFrac_snd_pos p.mant p.exp, by rw [decFrac_ratio]; unfold valueOf; simp [hph]⟩
  · exact ⟨_, _, toFrac_snd_pos p.mant p.exp, by
      have := toFrac_ratio p.mant p.exp
      rw [this]; unfold valueOf; simp [hph]⟩

theorem eval_of_big (p : Parsed) (hm : 0 < p.mant) (h : (overflowThreshold : ℚ) ≤ valueOf p) :
    p.eval = .error .range := by
  obtain ⟨n, d, hd, hv⟩ := value_frac p
  rw [eval_of_value p hm n d hd hv]
  exact evalFrac_big p.neg n d hd (by rw [hv]; exact h)

theorem eval_of_small (p : Parsed) (hm : 0 < p.mant) (h : valueOf p ≤ 1 / (2 : ℚ) ^ 1076) :
    p.eval = .ok (F64.zero p.neg) := by
  obtain ⟨n, d, hd, hv⟩ := value_frac p
  rw [eval_of_value p hm n d hd hv]
  exact evalFrac_small p.neg n d hd (by rw [hv]; exact h)

theorem clamp_numbers : overflowThreshold ≤ 10 ^ 309 ∧ overflowThreshold ≤ 2 ^ 1024 ∧ 2 ^ 1076 ≤ 10 ^ 331 := by
  decide +kernel

/-- **beyond the clamp both exponents saturate** — `x` the exponent the specification reads
(±L, L ≥ 100000), `x + g` the one the code reads (±c, 10000 ≤ c ≤ 99999), `F` digits after the
point, `i` digits before it: with at most 9691 / 9669 (decimal) resp. 2244 / 2231 (hex) of them
both values overflow, or both round to zero. -/
theorem clamp_sat (p : Parsed) (g x : Int) (F i L : Nat)
    (hexp : p.exp = x + -(((if p.hex then 4 else 1) * F : Nat) : Int))
    (hmant : p.mant < baseOf p.hex ^ (i + F))
    (hL : 100000 ≤ L)
    (hgap : (x = (L : Int) ∧ 10000 ≤ x + g ∧ x + g ≤ 99999) ∨ (x = -(L : Int) ∧ -99999 ≤ x + g ∧ x + g ≤ -10000))
    (hmod : if p.hex then i ≤ 2231 ∧ F ≤ 2244 else i ≤ 9669 ∧ F ≤ 9691) :
    (clampP p g).eval = p.eval := by
  by_cases hm0 : p.mant = 0
  · rw [eval_zero p hm0, eval_zero (clampP p g) hm0]; rfl
  have hm : 0 < p.mant := Nat.pos_of_ne_zero hm0
  have hmq : (1 : ℚ) ≤ (p.mant : ℚ) := by exact_mod_cast hm
  obtain ⟨n1, n2, n3⟩ := clamp_numbers
  have hqe : (clampP p g).exp = p.exp + g := rfl
  cases hph : p.hex
  · -- decimal
    simp only [hph, Bool.false_eq_true, if_false, Nat.one_mul] at hexp hmod
    have hb : baseOf false = 10 := rfl
    rw [hph, hb] at hmant
    have hvp : valueOf p = (p.mant : ℚ) * (10 : ℚ) ^ p.exp := by unfold valueOf; simp [hph]
    have hvq : valueOf (clampP p g) = (p.mant : ℚ) * (10 : ℚ) ^ (p.exp + g) := by unfold valueOf clampP; simp [hph]
    have hT : (overflowThreshold : ℚ) ≤ (10 : ℚ) ^ (309 : ℤ) := by
      have : ((overflowThreshold : Nat) : ℚ) ≤ ((10 ^ 309 : Nat) : ℚ) := by exact_mod_cast n1
      rw [show (309 : ℤ) = ((309 : ℕ) : ℤ) from rfl, zpow_natCast]; push_cast at this; exact this
    have big : ∀ e : Int, 309 ≤ e → (overflowThreshold : ℚ) ≤ (p.mant : ℚ) * (10 : ℚ) ^ e := by
      intro e he
      have h1 : (10 : ℚ) ^ (309 : ℤ) ≤ (10 : ℚ) ^ e := zpow_le_zpow_right₀ (by norm_num) he
      have hp : (0 : ℚ) ≤ (10 : ℚ) ^ e := by positivity
      calc (overflowThreshold : ℚ) ≤ (10 : ℚ) ^ (309 : ℤ) := hT
        _ ≤ (10 : ℚ) ^ e := h1
        _ = 1 * (10 : ℚ) ^ e := by ring
        _ ≤ (p.mant : ℚ) * (10 : ℚ) ^ e := mul_le_mul_of_nonneg_right hmq hp
    have hMlt : (p.mant : ℚ) < (10 : ℚ) ^ ((i + F : ℕ) : ℤ) := by
      rw [zpow_natCast]; exact_mod_cast hmant
    have hS : (10 : ℚ) ^ (-(331 : ℤ)) ≤ 1 / (2 : ℚ) ^ 1076 := by
      rw [zpow_neg, show (331 : ℤ) = ((331 : ℕ) : ℤ) from rfl, zpow_natCast, ← one_div]
      apply one_div_le_one_div_of_le (by positivity)
      have : ((2 ^ 1076 : Nat) : ℚ) ≤ ((10 ^ 331 : Nat) : ℚ) := by exact_mod_cast n3
      push_cast at this; exact this
    have small : ∀ e : Int, e + ((i + F : ℕ) : ℤ) ≤ -331 → (p.mant : ℚ) * (10 : ℚ) ^ e ≤ 1 / (2 : ℚ) ^ 1076 := by
      intro e he
      have hp : (0 : ℚ) < (10 : ℚ) ^ e := by positivity
      have h1 : (p.mant : ℚ) * (10 : ℚ) ^ e ≤ (10 : ℚ) ^ ((i + F : ℕ) : ℤ) * (10 : ℚ) ^ e :=
        mul_le_mul_of_nonneg_right hMlt.le hp.le
      rw [← zpow_add₀ (by norm_num : (10 : ℚ) ≠ 0)] at h1
      have h2 : (10 : ℚ) ^ (((i + F : ℕ) : ℤ) + e) ≤ (10 : ℚ) ^ (-(331 : ℤ)) :=
        zpow_le_zpow_right₀ (by norm_num) (by omega)
      exact le_trans h1 (le_trans h2 hS)
    rcases hgap with ⟨hx, g1, g2⟩ | ⟨hx, g1, g2⟩
    · rw [eval_of_big p hm (by rw [hvp]; exact big _ (by omega)),
        eval_of_big (clampP p g) hm (by rw [hvq]; exact big _ (by omega))]
    · rw [eval_of_small p hm (by rw [hvp]; exact small _ (by push_cast; omega)),
        eval_of_small (clampP p g) hm (by rw [hvq]; exact small _ (by push_cast; omega))]
      rfl
  · -- hex
    simp only [hph, if_true] at hexp hmod
    have hb : baseOf true = 16 := rfl
    rw [hph, hb] at hmant
    have hvp : valueOf p = (p.mant : ℚ) * (2 : ℚ) ^ p.exp := by unfold valueOf; simp [hph]
    have hvq : valueOf (clampP p g) = (p.mant : ℚ) * (2 : ℚ) ^ (p.exp + g) := by unfold valueOf clampP; simp [hph]
    have hT : (overflowThreshold : ℚ) ≤ (2 : ℚ) ^ (1024 : ℤ) := by
      have : ((overflowThreshold : Nat) : ℚ) ≤ ((2 ^ 1024 : Nat) : ℚ) := by exact_mod_cast n2
      rw [show (1024 : ℤ) = ((1024 : ℕ) : ℤ) from rfl, zpow_natCast]; push_cast at this; exact this
    have big : ∀ e : Int, 1024 ≤ e → (overflowThreshold : ℚ) ≤ (p.mant : ℚ) * (2 : ℚ) ^ e := by
      intro e he
      have h1 : (2 : ℚ) ^ (1024 : ℤ) ≤ (2 : ℚ) ^ e := zpow_le_zpow_right₀ (by norm_num) he
      have hp : (0 : ℚ) ≤ (2 : ℚ) ^ e := by positivity
      calc (overflowThreshold : ℚ) ≤ (2 : ℚ) ^ (1024 : ℤ) := hT
        _ ≤ (2 : ℚ) ^ e := h1
        _ = 1 * (2 : ℚ) ^ e := by ring
        _ ≤ (p.mant : ℚ) * (2 : ℚ) ^ e := mul_le_mul_of_nonneg_right hmq hp
    have hMlt : (p.mant : ℚ) < (2 : ℚ) ^ ((4 * (i + F) : ℕ) : ℤ) := by
      rw [zpow_natCast, pow_mul]
      have : ((p.mant : Nat) : ℚ) < ((16 ^ (i + F) : Nat) : ℚ) := by exact_mod_cast hmant
      push_cast at this
      norm_num
      exact this
    have hS : (2 : ℚ) ^ (-(1076 : ℤ)) = 1 / (2 : ℚ) ^ 1076 := by
      rw [zpow_neg, show (1076 : ℤ) = ((1076 : ℕ) : ℤ) from rfl, zpow_natCast, one_div]
    have small : ∀ e : Int, e + ((4 * (i + F) : ℕ) : ℤ) ≤ -1076 → (p.mant : ℚ) * (2 : ℚ) ^ e ≤ 1 / (2 : ℚ) ^ 1076 := by
      intro e he
      have hp : (0 : ℚ) < (2 : ℚ) ^ e := by positivity
      have h1 : (p.mant : ℚ) * (2 : ℚ) ^ e ≤ (2 : ℚ) ^ ((4 * (i + F) : ℕ) : ℤ) * (2 : ℚ) ^ e :=
        mul_le_mul_of_nonneg_right hMlt.le hp.le
      rw [← zpow_add₀ (by norm_num : (2 : ℚ) ≠ 0)] at h1
      have h2 : (2 : ℚ) ^ (((4 * (i + F) : ℕ) : ℤ) + e) ≤ (2 : ℚ) ^ (-(1076 : ℤ)) :=
        zpow_le_zpow_right₀ (by norm_num) (by omega)
      rw [hS] at h2
      exact le_trans h1 h2
    rcases hgap with ⟨hx, g1, g2⟩ | ⟨hx, g1, g2⟩
    · rw [eval_of_big p hm (by rw [hvp]; exact big _ (by push_cast at hexp ⊢; omega)),
        eval_of_big (clampP p g) hm (by rw [hvq]; exact big _ (by push_cast at hexp ⊢; omega))]
    · rw [eval_of_small p hm (by rw [hvp]; exact small _ (by push_cast at hexp ⊢; omega)),
        eval_of_small (clampP p g) hm (by rw [hvq]; exact small _ (by push_cast at hexp ⊢; omega))]
      rfl

end C03

namespace C03
open Num Spec.NumText F64

/-! ### the size of a mantissa text -/

theorem foldl_base (B : Nat) (ds : Bytes) : ∀ n : Nat,
    ds.foldl (fun a c => a * B + digVal c) n = n * B ^ ds.length + ds.foldl (fun a c => a * B + digVal c) 0 := by
  induction ds with
  | nil => intro n; simp
  | cons c cs ih =>
    intro n
    rw [List.foldl_cons, List.foldl_cons, ih (n * B + digVal c), ih (0 * B + digVal c), List.length_cons, Nat.pow_succ]
    ring

theorem valOf_cons_base (B : Nat) (c : UInt8) (cs : Bytes) :
    valOf B (c :: cs) = digVal c * B ^ cs.length + valOf B cs := by
  unfold valOf
  rw [List.foldl_cons, foldl_base B cs (0 * B + digVal c)]
  simp

theorem valOf_append_base (B : Nat) (a b : Bytes) : valOf B (a ++ b) = valOf B a * B ^ b.length + valOf B b := by
  unfold valOf
  rw [List.foldl_append, foldl_base B b]

/-- a digit string is below B^(number of digits after its leading zeros) -/
theorem valOf_lt_sig_base (B : Nat) (hB : 0 < B) : ∀ (l : Bytes), (∀ c ∈ l, digVal c < B) →
    valOf B l < B ^ (l.dropWhile (· == 48)).length := by
  intro l
  induction l with
  | nil => intro _; simp [valOf]
  | cons c cs ih =>
    intro h
    have hcs : ∀ x ∈ cs, digVal x < B := fun x hx => h x (by simp [hx])
    by_cases hc : (c == 48) = true
    · rw [List.dropWhile_cons, if_pos hc, valOf_cons_base]
      have : c = 48 := by simpa using hc
      subst this
      have d0 : digVal 48 = 0 := by decide
      rw [d0, Nat.zero_mul, Nat.zero_add]
      exact ih hcs
    · rw [List.dropWhile_cons, if_neg hc, valOf_cons_base, List.length_cons, Nat.pow_succ]
      have h1 : valOf B cs < B ^ cs.length := by
        have := ih hcs
        have hle : B ^ (cs.dropWhile (· == 48)).length ≤ B ^ cs.length :=
          Nat.pow_le_pow_right hB ((List.dropWhile_sublist _).length_le)
        omega
      have h2 : digVal c + 1 ≤ B := h c (by simp)
      have h3 : (digVal c + 1) * B ^ cs.length ≤ B * B ^ cs.length := Nat.mul_le_mul_right _ h2
      have e : (digVal c + 1) * B ^ cs.length = digVal c * B ^ cs.length + B ^ cs.length := by ring
      have e2 : B ^ cs.length * B = B * B ^ cs.length := by ring
      omega

theorem digS_lt (hex : Bool) (c : UInt8) (h : digS hex c = true) : digVal c < baseOf hex := by
  have f := mant_byte_facts c
  cases hex
  · have : isDec c = true := h
    have := (f.2.1 this).2.1
    show digVal c < 10; omega
  · have hh : isHexDig c = true := h
    show digVal c < 16
    by_cases hd : isDec c = true
    · have := (f.2.1 hd).2.1; omega
    · simp only [Bool.not_eq_true] at hd
      have := ((f.2.2 hd).2 hh).2.1; omega

theorem spFP_all (dig : UInt8 → Bool) (u : Bytes) : (spFP dig u).all dig = true := by
  unfold spFP
  split
  · exact takeWhile_all _
  · rfl

/-- digits before the point (after leading zeros) and digits after it -/
def mantLens (s : Bytes) : Nat × Nat :=
  let h := isHexPrefix (splitSign s).2
  let u := bodyU s h
  (((u.takeWhile (digS h)).dropWhile (· == 48)).length, (spFP (digS h) u).length)

/-- the mantissa text is too short to compensate a clamped exponent: at most 9669 significant
digits before the point and 9691 digits after it (hex: 2231 and 2244). The bounds are sharp for the
smallest clamped value 10000 (checked on the real code): `0.` + 9690 zeros + `1e100000` (9691
digits after the point) still overflows, with 9691 zeros the code returns 1e308; `0x` + 2231
digits `f` + `p-100000` still rounds to 0, with 2232 digits the code returns 2e-323. -/
def Moderate (s : Bytes) : Prop :=
  if isHexPrefix (splitSign s).2 then (mantLens s).1 ≤ 2231 ∧ (mantLens s).2 ≤ 2244
  else (mantLens s).1 ≤ 9669 ∧ (mantLens s).2 ≤ 9691

/-- **the clamp does not change the result** of a recognised numeral whose exponent literal is
100000 or more, when the mantissa text is `Moderate` -/
theorem clamp_agree (s : Bytes) (p : Parsed) (hrec : recognise s = some p) (hbig : 100000 ≤ expLit s)
    (hmod : Moderate s) : (clampP p (expGapS s)).eval = p.eval := by
  obtain ⟨hh, x, hsp, hM, hE⟩ := recog_facts s p hrec
  obtain ⟨e1, e2⟩ := expGapS_body s p hrec
  have hg := (spTail_gap p.hex _ x hsp).2 (by rw [← e2]; exact hbig)
  rw [← e2, ← e1] at hg
  unfold Moderate mantLens at hmod
  rw [← hh] at hmod
  simp only [] at hmod
  generalize hu : bodyU s p.hex = u at *
  have hB : 0 < baseOf p.hex := by cases p.hex <;> decide
  have hip : ∀ c ∈ u.takeWhile (digS p.hex), digVal c < baseOf p.hex := by
    intro c hc
    have := takeWhile_all (p := digS p.hex) u
    rw [List.all_eq_true] at this
    exact digS_lt _ c (this c hc)
  have hfp : ∀ c ∈ spFP (digS p.hex) u, digVal c < baseOf p.hex := by
    intro c hc
    have := spFP_all (digS p.hex) u
    rw [List.all_eq_true] at this
    exact digS_lt _ c (this c hc)
  have h1 := valOf_lt_sig_base (baseOf p.hex) hB _ hip
  have h2 : valOf (baseOf p.hex) (spFP (digS p.hex) u) < baseOf p.hex ^ (spFP (digS p.hex) u).length := by
    have := valOf_lt_sig_base (baseOf p.hex) hB _ hfp
    have hle : baseOf p.hex ^ ((spFP (digS p.hex) u).dropWhile (· == 48)).length ≤ baseOf p.hex ^ (spFP (digS p.hex) u).length :=
      Nat.pow_le_pow_right hB ((List.dropWhile_sublist _).length_le)
    omega
  have hmant : p.mant < baseOf p.hex ^ (((u.takeWhile (digS p.hex)).dropWhile (· == 48)).length + (spFP (digS p.hex) u).length) := by
    rw [hM, valOf_append_base, Nat.pow_add]
    generalize valOf (baseOf p.hex) (u.takeWhile (digS p.hex)) = a at *
    generalize valOf (baseOf p.hex) (spFP (digS p.hex) u) = b at *
    generalize baseOf p.hex ^ ((u.takeWhile (digS p.hex)).dropWhile (· == 48)).length = A at *
    generalize baseOf p.hex ^ (spFP (digS p.hex) u).length = P at *
    have : (a + 1) * P ≤ A * P := Nat.mul_le_mul_right _ h1
    have e : (a + 1) * P = a * P + P := by ring
    omega
  exact clamp_sat p (expGapS s) x _ _ (expLit s) hE hmant hbig hg hmod

/-- **parseFloatSpec with the clamp = parseFloatSpec** whenever the exponent literal is below
100000 or the mantissa text cannot compensate it -/
theorem parseFloatSpecG_agree (s : Bytes) (h : expLit s < 100000 ∨ Moderate s) :
    parseFloatSpecG (expGapS s) s = parseFloatSpec s := by
  by_cases hlit : expLit s < 100000
  · exact parseFloatSpecG_small s hlit
  · have hmod : Moderate s := by rcases h with h | h; exact absurd h hlit; exact h
    unfold parseFloatSpecG parseFloatSpec
    cases specialSpec s with
    | some b => rfl
    | none =>
      cases hrec : recognise s with
      | none => rfl
      | some p => exact clamp_agree s p hrec (by omega) hmod

end C03
