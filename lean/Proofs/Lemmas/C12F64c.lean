/-
C12 — the float64 INSTANCE of `Descr.interp` (the R8 interpolation of Sample.Percentile) stays
between the neighbouring order statistics, hence within [min, max].
-/
import Proofs.Lemmas.C12F64b
import Model.Stats.Descr

namespace C12
open Stats F64

/-- `math.Modf` on the model: whenever the integer part is ≥ 1 the fraction is a finite float in [0, 1) -/
theorem modf_frac (x : Fl) (hk : 1 ≤ (Fl.modf x).1) :
    isFinite (Fl.modf x).2.bits = true ∧ 0 ≤ sval (Fl.modf x).2.bits ∧ sval (Fl.modf x).2.bits < 1 := by
  unfold Fl.modf at hk ⊢
  by_cases hfin : isFinite x.bits = true
  · have hnf : (!isFinite x.bits) = false := by simp [hfin]
    simp only [hnf, Bool.false_eq_true, if_false] at hk ⊢
    by_cases he : expo x.bits ≥ 0
    · simp only [he, if_true] at hk ⊢
      refine ⟨?_, ?_, ?_⟩
      · cases signBit x.bits <;> decide
      · rw [sval_zero]
      · rw [sval_zero]; norm_num
    · simp only [he, if_false] at hk ⊢
      -- the sign must be + (otherwise the integer part is ≤ 0)
      have hs : signBit x.bits = false := by
        by_contra hc
        have hs' : signBit x.bits = true := by simpa using hc
        rw [hs'] at hk
        simp only [if_true] at hk
        have : (0 : Int) ≤ ((mant x.bits / 2 ^ (-expo x.bits).toNat : Nat) : Int) := Int.natCast_nonneg _
        omega
      rw [hs]
      by_cases hr : (mant x.bits % 2 ^ (-expo x.bits).toNat == 0) = true
      · simp only [hr, if_true]
        exact ⟨by decide, by rw [sval_zero], by rw [sval_zero]; norm_num⟩
      · simp only [hr, if_false, Bool.false_eq_true]
        have hr0 : 0 < mant x.bits % 2 ^ (-expo x.bits).toNat := by
          have : mant x.bits % 2 ^ (-expo x.bits).toNat ≠ 0 := by simpa using hr
          omega
        have hpow : 0 < 2 ^ (-expo x.bits).toNat := Nat.pow_pos (by decide)
        have hlt : mant x.bits % 2 ^ (-expo x.bits).toNat < 2 ^ (-expo x.bits).toNat := Nat.mod_lt _ hpow
        have hM : mant x.bits % 2 ^ (-expo x.bits).toNat < 2 ^ 53 :=
          lt_of_le_of_lt (Nat.mod_le _ _) (mant_lt x.bits)
        rw [roundRat_false_eq _ _ hpow]
        have two_ne : (2 : ℚ) ≠ 0 := by norm_num
        have hq : ((mant x.bits % 2 ^ (-expo x.bits).toNat : Nat) : ℚ) / ((2 ^ (-expo x.bits).toNat : Nat) : ℚ)
            = ((mant x.bits % 2 ^ (-expo x.bits).toNat : Nat) : ℚ) * (2 : ℚ) ^ (expo x.bits) := by
          push_cast
          rw [div_eq_mul_inv, ← zpow_natCast, ← zpow_neg, Int.toNat_of_nonneg (by omega), _root_.neg_neg]
        have hq1 : ((mant x.bits % 2 ^ (-expo x.bits).toNat : Nat) : ℚ) / ((2 ^ (-expo x.bits).toNat : Nat) : ℚ) < 1 := by
          rw [div_lt_one (by exact_mod_cast hpow)]; exact_mod_cast hlt
        have hq0 : 0 < ((mant x.bits % 2 ^ (-expo x.bits).toNat : Nat) : ℚ) / ((2 ^ (-expo x.bits).toNat : Nat) : ℚ) :=
          div_pos (by exact_mod_cast hr0) (by exact_mod_cast hpow)
        obtain ⟨h1, h2⟩ := roundQ_dyadic _ (mant x.bits % 2 ^ (-expo x.bits).toNat) (expo x.bits) hM
          (expo_ge x.bits) (by rw [abs_of_pos hq0]; exact hq)
          (by rw [abs_of_pos hq0]; exact lt_trans hq1 (lt_trans (by norm_num) two_pow_53_lt))
        exact ⟨h2, by rw [h1]; exact hq0.le, by rw [h1]; exact hq1⟩
  · have hnf : (!isFinite x.bits) = true := by simp [hfin]
    simp only [hnf, if_true] at hk
    omega

end C12

namespace C12
open Stats F64

/-- ascending order of a list of floats (by signed value), all finite, and no adjacent difference
overflows -/
structure FloatSorted (xs : List Fl) : Prop where
  fin : ∀ i, i < xs.length → isFinite (xs.getD i ⟨posZero⟩).bits = true
  sorted : ∀ i j, i ≤ j → j < xs.length →
    sval (xs.getD i ⟨posZero⟩).bits ≤ sval (xs.getD j ⟨posZero⟩).bits
  noOverflow : ∀ i, i + 1 < xs.length →
    isFinite (F64.sub (xs.getD (i + 1) ⟨posZero⟩).bits (xs.getD i ⟨posZero⟩).bits) = true

theorem modf_fl (n : Fl) : (Arith.modf n : Int × Fl) = Fl.modf n := rfl

/-- **the float64 instance of the R8 interpolation stays within [min, max]** — for every sorted
list of finite floats of any signs without overflowing adjacent differences and EVERY float p
(NaN and infinities included): `Descr.interp xs p`, i.e. `Xs[k-1] + frac*(Xs[k]-Xs[k-1])` with the
clamps, as computed in float64, lies between xs[0] and xs[N−1], and is not NaN. -/
theorem interp_float_within (xs : List Fl) (hne : 0 < xs.length) (hs : FloatSorted xs) (p : Fl) :
    sval (xs.getD 0 ⟨posZero⟩).bits ≤ sval (Descr.interp xs p).bits ∧
    sval (Descr.interp xs p).bits ≤ sval (xs.getD (xs.length - 1) ⟨posZero⟩).bits ∧
    isNaN (Descr.interp xs p).bits = false := by
  have h0l := hs.sorted 0 (xs.length - 1) (Nat.zero_le _) (by omega)
  have z : (Arith.ofNat 0 : Fl) = ⟨posZero⟩ := rfl
  unfold Descr.interp
  simp only [z, modf_fl]
  generalize Arith.add (Arith.ofFrac 1 3 : Fl)
    (Arith.mul p (Arith.add (Arith.ofNat xs.length) (Arith.ofFrac 1 3))) = n
  by_cases h1 : (Fl.modf n).1 ≤ 0
  · rw [if_pos h1]
    exact ⟨le_refl _, h0l, isNaN_of_finite (hs.fin 0 hne)⟩
  · rw [if_neg h1]
    by_cases h2 : (Fl.modf n).1 ≥ (xs.length : Int)
    · rw [if_pos h2]
      exact ⟨h0l, le_refl _, isNaN_of_finite (hs.fin _ (by omega))⟩
    · rw [if_neg h2]
      obtain ⟨f1, f2, f3⟩ := modf_frac n (by omega)
      generalize (Fl.modf n).1 = k at h1 h2
      generalize (Fl.modf n).2 = frac at f1 f2 f3
      have hk1 : k.toNat - 1 + 1 = k.toNat := by omega
      have hkl : k.toNat < xs.length := by omega
      have hov := hs.noOverflow (k.toNat - 1) (by omega)
      rw [hk1] at hov
      have hsl := hs.sorted (k.toNat - 1) k.toNat (by omega) hkl
      obtain ⟨b1, b2, b3⟩ := interp_bounded (xs.getD (k.toNat - 1) ⟨posZero⟩).bits
        (xs.getD k.toNat ⟨posZero⟩).bits frac.bits (hs.fin _ (by omega)) (hs.fin _ hkl) hsl hov f1 f2 f3
      have e : (Arith.add (xs.getD (k.toNat - 1) ⟨posZero⟩)
          (Arith.mul frac (Arith.sub (xs.getD k.toNat ⟨posZero⟩) (xs.getD (k.toNat - 1) ⟨posZero⟩)))).bits
          = F64.add (xs.getD (k.toNat - 1) ⟨posZero⟩).bits
              (F64.mul frac.bits (F64.sub (xs.getD k.toNat ⟨posZero⟩).bits (xs.getD (k.toNat - 1) ⟨posZero⟩).bits)) := rfl
      rw [e]
      have l0 := hs.sorted 0 (k.toNat - 1) (Nat.zero_le _) (by omega)
      have l1 := hs.sorted k.toNat (xs.length - 1) (by omega) (by omega)
      exact ⟨le_trans l0 b1, le_trans b2 l1, b3⟩

end C12
