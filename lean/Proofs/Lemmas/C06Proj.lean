/-
Parse with a filter: fixed-order value lists conjoin a membership test onto the caller's filter.
-/
import Proofs.Lemmas.C06Eval

namespace C06
open Proc.FilterEval Spec.FilterSem

theorem fixedFn_wf (excl : List Bytes) (key : Bytes) (l : List Bytes) (res : Res) (n : Nat) :
    OutWF n (fixedFn excl key l res) := by
  intro m hm; simp [fixedFn] at hm

theorem filterParts_wf (excl : List Bytes) (fields : List ProjField) (res : Res) (n : Nat) :
    ∀ f, f ∈ filterParts excl fields → OutWF n (f res) := by
  intro f hf
  simp only [filterParts, List.mem_filterMap] at hf
  obtain ⟨fld, _, h⟩ := hf
  cases hfx : fld.fixed with
  | none => simp [hfx] at h
  | some l =>
    simp [hfx] at h
    rw [← h]; exact fixedFn_wf _ _ _ _ _

theorem filterParts_all (excl : List Bytes) (fields : List ProjField) (res : Res) (n i : Nat) (hi : i < n) :
    (filterParts excl fields).all (fun f => outTest n (f res) i) = fields.all (inFixed excl · res) := by
  induction fields with
  | nil => simp [filterParts]
  | cons fld fs ih =>
    simp only [filterParts, List.all_cons] at ih ⊢
    rw [List.filterMap_cons]
    cases hfx : fld.fixed with
    | none => simp [inFixed, hfx, ih]
    | some l =>
      simp only [Option.map_some, List.all_cons, ih]
      simp [inFixed, hfx, fixedFn, outTest_none _ _ _ hi]

/-- one `Parse(projection, filter)` call -/
theorem parseInto_spec (excl : List Bytes) (fields : List ProjField) (user : FilterFn) (res : Res) (n : Nat)
    (hu : OutWF n (user res)) :
    OutWF n (parseInto excl fields user res) ∧
    ∀ i, i < n → outTest n (parseInto excl fields user res) i =
      (fields.all (inFixed excl · res) && outTest n (user res) i) := by
  unfold parseInto
  split
  · rename_i he
    refine ⟨hu, fun i hi => ?_⟩
    have := filterParts_all excl fields res n i hi
    have hnil : filterParts excl fields = [] := by simpa using he
    rw [hnil] at this
    simp [← this]
  · have hw : ∀ f, f ∈ filterParts excl fields ++ [user] → OutWF n (f res) := by
      intro f hf
      rcases List.mem_append.mp hf with h | h
      · exact filterParts_wf excl fields res n f h
      · simp at h; rw [h]; exact hu
    obtain ⟨w, t⟩ := andFn_spec res n _ hw
    refine ⟨w, fun i hi => ?_⟩
    rw [t i hi, List.all_append, filterParts_all excl fields res n i hi]
    simp

/-- several `Parse` calls on the same filter -/
theorem parseAll_spec (excl : List Bytes) (projs : List (List ProjField)) (user : FilterFn) (res : Res) (n : Nat)
    (hu : OutWF n (user res)) :
    OutWF n (parseAll excl projs user res) ∧
    ∀ i, i < n → outTest n (parseAll excl projs user res) i =
      (projs.flatten.all (inFixed excl · res) && outTest n (user res) i) := by
  induction projs generalizing user with
  | nil => exact ⟨hu, fun i hi => by simp [parseAll]⟩
  | cons fs rest ih =>
    obtain ⟨w1, t1⟩ := parseInto_spec excl fs user res n hu
    obtain ⟨w2, t2⟩ := ih (parseInto excl fs user) w1
    refine ⟨w2, fun i hi => ?_⟩
    rw [parseAll, t2 i hi, t1 i hi]
    simp only [List.flatten_cons, List.all_append]
    cases List.all fs (inFixed excl · res) <;> cases List.all rest.flatten (inFixed excl · res) <;> simp

/-! ### histories of Parse calls with rejected expressions -/

theorem parseLoop_eq (excl : List Bytes) : ∀ (fields : List ProjField) (parts : List FilterFn),
    parseLoop excl fields parts =
      match checkFields fields with
      | .error e => .error e
      | .ok () => .ok (parts ++ filterParts excl fields)
  | [], parts => by simp [parseLoop, checkFields, filterParts]
  | f :: fs, parts => by
    rw [parseLoop, checkFields]
    cases hc : checkField f with
    | error e => rfl
    | ok u =>
      cases u
      simp only
      rw [parseLoop_eq excl fs]
      cases checkFields fs with
      | error e => rfl
      | ok u =>
        cases u
        simp only [filterParts, List.filterMap_cons]
        cases f.fixed <;> simp

/-- an accepted expression installs its fixed lists in front of the caller's filter -/
theorem parseCall_accepted (excl : List Bytes) (fields : List ProjField) (user : FilterFn)
    (h : checkFields fields = .ok ()) : parseCall excl fields user = (parseInto excl fields user, none) := by
  rw [parseCall, parseLoop_eq, h]
  simp [parseInto]

/-- a rejected expression leaves the filter exactly as it was -/
theorem parseCall_rejected (excl : List Bytes) (fields : List ProjField) (user : FilterFn) (e : ProjErr)
    (h : checkFields fields = .error e) : parseCall excl fields user = (user, some e) := by
  rw [parseCall, parseLoop_eq, h]

theorem parseHistory_eq (excl : List Bytes) : ∀ (projs : List (List ProjField)) (user : FilterFn),
    parseHistory excl projs user = parseAll excl (acceptedOf projs) user
  | [], user => rfl
  | fs :: rest, user => by
    rw [parseHistory]
    cases hc : checkFields fs with
    | error e =>
      rw [parseCall_rejected excl fs user e hc, parseHistory_eq excl rest]
      simp [acceptedOf, hc]
    | ok u =>
      cases u
      rw [parseCall_accepted excl fs user hc, parseHistory_eq excl rest]
      simp [acceptedOf, hc, parseAll]

end C06
