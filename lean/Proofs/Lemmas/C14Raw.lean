/-
C14 helper lemmas for the composition with the C08/C09 model of projection and key order
(read-only: Model/Proc/Projection.lean, Proofs/C08.lean, Proofs/C09.lean): the loop of
cmd/benchstat over raw results keeps every projection reachable and every key it returned valid.
-/
import Proofs.C08
import Proofs.C09
import Proofs.Lemmas.C14Tables
import Model.Tab.RawPass

namespace C14L
open Proc.Projection Proc.Sort

/-- every projection of the shared parser state is one the C08 theorems speak about -/
def WorldOK (h : List Bytes → UInt64) (w : World) : Prop :=
  ∀ (i : Nat) (p : Proj), w.projs[i]? = some p → C08.Reachable h p

/-- number of key nodes of projection `i` -/
def nodesLen (w : World) (i : Nat) : Nat := ((w.projs[i]?).map (·.nodes.length)).getD 0

theorem env_projs (w : World) (i : Nat) : (w.env i).1.projs = w.projs := by
  unfold World.env
  simp only
  split
  · split <;> rfl
  · split <;> rfl

theorem getElem?_set_self' {α : Type} (l : List α) (i : Nat) (x : α) (hi : i < l.length) :
    (l.set i x)[i]? = some x := by
  simp [hi]

theorem nodesLen_set (projs : List Proj) (parser : Parser) (i j : Nat) (q : Proj) (hi : i < projs.length) :
    nodesLen { parser := parser, projs := projs.set i q } j =
      if j = i then q.nodes.length else nodesLen { parser := parser, projs := projs } j := by
  unfold nodesLen
  by_cases hj : j = i
  · subst hj; simp [hi]
  · have : i ≠ j := fun e => hj e.symm
    simp [hj, List.getElem?_set_ne this]

theorem WorldOK_set (h : List Bytes → UInt64) (w : World) (parser : Parser) (i : Nat) (q : Proj)
    (hok : WorldOK h w) (hq : C08.Reachable h q) :
    WorldOK h { parser := parser, projs := w.projs.set i q } := by
  intro j p hj
  simp only at hj
  by_cases e : i = j
  · subst e
    by_cases hi : i < w.projs.length
    · rw [List.getElem?_set_self hi] at hj; cases hj; exact hq
    · rw [List.getElem?_eq_none (by simp; omega)] at hj; cases hj
  · rw [List.getElem?_set_ne e] at hj; exact hok j p hj

theorem world_project_spec (h : List Bytes → UInt64) (w : World) (i : Nat) (r : Res)
    (hok : WorldOK h w) (hi : i < w.projs.length) :
    WorldOK h (World.project h w i r).1 ∧ (World.project h w i r).1.projs.length = w.projs.length ∧
    (World.project h w i r).2 < nodesLen (World.project h w i r).1 i ∧
    ∀ j, nodesLen w j ≤ nodesLen (World.project h w i r).1 j := by
  have hp : w.projs[i]? = some w.projs[i] := List.getElem?_eq_getElem hi
  have hr := hok i _ hp
  unfold World.project
  simp only [env_projs, hp]
  refine ⟨?_, by simp, ?_, ?_⟩
  · exact WorldOK_set h w _ i _ hok (C08.Reachable.project _ _ r hr)
  · rw [nodesLen_set _ _ _ _ _ hi]; simp only [if_true]
    exact C08.project_key_valid h _ _ r
  · intro j
    rw [nodesLen_set _ _ _ _ _ hi]
    by_cases hj : j = i
    · subst hj
      simp only [if_true]
      obtain ⟨extra, he⟩ := C08.project_nodes h (w.env j).2 w.projs[j] r (C08.reachable_inv h _ hr)
      rw [he]; unfold nodesLen; simp [hp]
    · simp only [hj, if_false]; unfold nodesLen; simp

theorem projectUnits_keys_valid (h : List Bytes → UInt64) (ui : Nat) (us : List Bytes) (p : Proj) :
    ∀ k ∈ (projectUnits h ui p us).2, k < (projectUnits h ui p us).1.nodes.length := by
  induction us generalizing p with
  | nil => simp [projectUnits]
  | cons u rest ih =>
    simp only [projectUnits]
    intro k hk
    rcases List.mem_cons.mp hk with rfl | hk
    · obtain ⟨_, _, _, _, _, _, hv, _⟩ := C08.internRow_spec h { p with row := p.row.set ui u }
      obtain ⟨extra, he⟩ := C08.projectUnits_nodes h ui rest ({ p with row := p.row.set ui u }.internRow h).1
      rw [he]; simp; omega
    · exact ih _ k hk

theorem projectValues_keys_valid (h : List Bytes → UInt64) (env : Env) (p : Proj) (r : Res) :
    ∀ k ∈ (p.projectValues h env r).2, k < (p.projectValues h env r).1.nodes.length := by
  unfold Proj.projectValues
  dsimp only
  split
  · intro k hk
    simp only [List.mem_map] at hk
    obtain ⟨_, _, rfl⟩ := hk
    obtain ⟨_, _, _, _, _, _, hv, _⟩ := C08.internRow_spec h (p.populateRow env r)
    exact hv
  · exact projectUnits_keys_valid h _ _ _

theorem world_projectValues_spec (h : List Bytes → UInt64) (w : World) (i : Nat) (r : Res)
    (hok : WorldOK h w) (hi : i < w.projs.length) :
    WorldOK h (World.projectValues h w i r).1 ∧ (World.projectValues h w i r).1.projs.length = w.projs.length ∧
    (∀ k ∈ (World.projectValues h w i r).2, k < nodesLen (World.projectValues h w i r).1 i) ∧
    ∀ j, nodesLen w j ≤ nodesLen (World.projectValues h w i r).1 j := by
  have hp : w.projs[i]? = some w.projs[i] := List.getElem?_eq_getElem hi
  have hr := hok i _ hp
  unfold World.projectValues
  simp only [env_projs, hp]
  refine ⟨?_, by simp, ?_, ?_⟩
  · exact WorldOK_set h w _ i _ hok (C08.Reachable.projectValues _ _ r hr)
  · rw [nodesLen_set _ _ _ _ _ hi]; simp only [if_true]
    exact projectValues_keys_valid h _ _ r
  · intro j
    rw [nodesLen_set _ _ _ _ _ hi]
    by_cases hj : j = i
    · subst hj
      simp only [if_true]
      obtain ⟨extra, he⟩ := C08.projectValues_nodes h (w.env j).2 w.projs[j] r (C08.reachable_inv h _ hr)
      rw [he]; unfold nodesLen; simp [hp]
    · simp only [hj, if_false]; unfold nodesLen; simp


/-! ### the loop over raw results -/
open Tab.RawPass

/-- all keys recorded so far are keys of the current projection states -/
def KeysValid (w : World) (iz : Nat) (ks : List Keyed) : Prop :=
  ∀ e ∈ ks, (∀ t ∈ e.1, t < nodesLen w 0) ∧ e.2.1 < nodesLen w 1 ∧ e.2.2.1 < nodesLen w 2 ∧ e.2.2.2 < nodesLen w iz

theorem KeysValid_mono (w w' : World) (iz : Nat) (ks : List Keyed) (hm : ∀ j, nodesLen w j ≤ nodesLen w' j)
    (hv : KeysValid w iz ks) : KeysValid w' iz ks := by
  intro e he
  obtain ⟨h0, h1, h2, h3⟩ := hv e he
  exact ⟨fun t ht => Nat.lt_of_lt_of_le (h0 t ht) (hm 0), Nat.lt_of_lt_of_le h1 (hm 1),
    Nat.lt_of_lt_of_le h2 (hm 2), Nat.lt_of_lt_of_le h3 (hm iz)⟩

theorem rawStep_inv (h : List Bytes → UInt64) (iz : Nat) (acc : World × List Keyed) (r : Res)
    (hok : WorldOK h acc.1) (hlen : 2 < acc.1.projs.length ∧ iz < acc.1.projs.length) (hv : KeysValid acc.1 iz acc.2) :
    WorldOK h (rawStep h iz acc r).1 ∧ (rawStep h iz acc r).1.projs.length = acc.1.projs.length ∧
    KeysValid (rawStep h iz acc r).1 iz (rawStep h iz acc r).2 := by
  have s1 := world_projectValues_spec h acc.1 0 r hok (by omega)
  cases e1 : World.projectValues h acc.1 0 r with
  | mk w1 tks =>
  rw [e1] at s1
  obtain ⟨a1, l1, k1, m1⟩ := s1
  simp only at a1 l1 k1 m1
  have s2 := world_project_spec h w1 1 r a1 (by omega)
  cases e2 : World.project h w1 1 r with
  | mk w2 rk =>
  rw [e2] at s2
  obtain ⟨a2, l2, k2, m2⟩ := s2
  simp only at a2 l2 k2 m2
  have s3 := world_project_spec h w2 2 r a2 (by omega)
  cases e3 : World.project h w2 2 r with
  | mk w3 ck =>
  rw [e3] at s3
  obtain ⟨a3, l3, k3, m3⟩ := s3
  simp only at a3 l3 k3 m3
  have s4 := world_project_spec h w3 iz r a3 (by omega)
  cases e4 : World.project h w3 iz r with
  | mk w4 zk =>
  rw [e4] at s4
  obtain ⟨a4, l4, k4, m4⟩ := s4
  simp only at a4 l4 k4 m4
  have hstep : rawStep h iz acc r = (w4, acc.2 ++ [(tks, rk, ck, zk)]) := by
    simp only [rawStep, e1, e2, e3, e4]
  rw [hstep]
  refine ⟨a4, l4.trans (l3.trans (l2.trans l1)), ?_⟩
  intro e he
  rcases List.mem_append.mp he with he | he
  · have mono : ∀ j, nodesLen acc.1 j ≤ nodesLen w4 j :=
      fun j => Nat.le_trans (Nat.le_trans (Nat.le_trans (m1 j) (m2 j)) (m3 j)) (m4 j)
    exact KeysValid_mono _ _ iz _ mono hv e he
  · simp only [List.mem_singleton] at he
    subst he
    refine ⟨fun t ht => ?_, ?_, ?_, k4⟩
    · exact Nat.lt_of_lt_of_le (k1 t ht) (Nat.le_trans (Nat.le_trans (m2 0) (m3 0)) (m4 0))
    · exact Nat.lt_of_lt_of_le k2 (Nat.le_trans (m3 1) (m4 1))
    · exact Nat.lt_of_lt_of_le k3 (m4 2)

theorem rawFold_inv (h : List Bytes → UInt64) (iz : Nat) (raws : List Res) (acc : World × List Keyed)
    (hok : WorldOK h acc.1) (hlen : 2 < acc.1.projs.length ∧ iz < acc.1.projs.length) (hv : KeysValid acc.1 iz acc.2) :
    WorldOK h (raws.foldl (rawStep h iz) acc).1 ∧ KeysValid (raws.foldl (rawStep h iz) acc).1 iz (raws.foldl (rawStep h iz) acc).2 := by
  induction raws generalizing acc with
  | nil => exact ⟨hok, hv⟩
  | cons r rest ih =>
    obtain ⟨a, l, k⟩ := rawStep_inv h iz acc r hok hlen hv
    rw [List.foldl_cons]
    exact ih _ a (by rw [l]; exact hlen) k

/-- the flags of benchstat give reachable projections -/
theorem WorldOK_parse (h : List Bytes → UInt64) (w : World) (specs : List Spec) (u : Bool) (hok : WorldOK h w) :
    WorldOK h (w.parse specs u).1 := by
  unfold World.parse
  cases u
  · simp only [Bool.false_eq_true, if_false]
    cases hp : w.parser.parse specs with
    | mk pa res =>
      cases res with
      | error e => simp only; exact hok
      | ok s =>
        simp only
        intro i p hi
        simp only at hi
        by_cases hlt : i < w.projs.length
        · rw [List.getElem?_append_left hlt] at hi; exact hok i p hi
        · rw [List.getElem?_append_right (by omega)] at hi
          have : p = s := by
            cases hh : i - w.projs.length with
            | zero => rw [hh] at hi; simpa using hi.symm
            | succ n => rw [hh] at hi; simp at hi
          rw [this]; exact C08.Reachable.parsed _ specs pa s hp
  · simp only [if_true]
    cases hp : w.parser.parseWithUnit specs with
    | mk pa res =>
      cases res with
      | error e => simp only; exact hok
      | ok s =>
        simp only
        intro i p hi
        simp only at hi
        by_cases hlt : i < w.projs.length
        · rw [List.getElem?_append_left hlt] at hi; exact hok i p hi
        · rw [List.getElem?_append_right (by omega)] at hi
          have : p = s := by
            cases hh : i - w.projs.length with
            | zero => rw [hh] at hi; simpa using hi.symm
            | succ n => rw [hh] at hi; simp at hi
          rw [this]; exact C08.Reachable.parsedWithUnit _ specs pa s hp

theorem WorldOK_residue (h : List Bytes → UInt64) (w : World) (hok : WorldOK h w) : WorldOK h w.residue := by
  unfold World.residue
  intro i p hi
  simp only at hi
  by_cases hlt : i < w.projs.length
  · rw [List.getElem?_append_left hlt] at hi; exact hok i p hi
  · rw [List.getElem?_append_right (by omega)] at hi
    have : p = (w.parser.residue).2 := by
      cases hh : i - w.projs.length with
      | zero => rw [hh] at hi; simpa using hi.symm
      | succ n => rw [hh] at hi; simp at hi
    rw [this]; exact C08.Reachable.residue _

theorem WorldOK_rawWorld (h : List Bytes → UInt64) (specs : List (List Spec)) : WorldOK h (rawWorld specs) := by
  unfold rawWorld
  apply WorldOK_residue
  apply WorldOK_parse
  apply WorldOK_parse
  apply WorldOK_parse
  apply WorldOK_parse
  intro i p hi
  simp [World.new] at hi

/-- key identity is tuple identity (C08 `key_eq_iff`, restated for `tupleOf`) -/
theorem tuple_eq_iff (h : List Bytes → UInt64) (p : Proj) (hr : C08.Reachable h p) (k₁ k₂ : Nat)
    (h₁ : k₁ < p.nodes.length) (h₂ : k₂ < p.nodes.length) : k₁ = k₂ ↔ tupleOf p k₁ = tupleOf p k₂ := by
  rw [C08.key_eq_iff h p hr k₁ k₂ h₁ h₂]
  unfold tupleOf
  exact (List.map_inj_left).symm

end C14L
