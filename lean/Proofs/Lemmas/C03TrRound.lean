/-
C03 — truncating runs of the decimal slow path, part 3: `RoundedInteger` on a decimal whose
`trunc` flag is set rounds half UP (the dropped digits are known to be non-zero), and that is the
correct rounding of any true value lying above the decimal with no half-integer in between.
-/
import Proofs.Lemmas.C03DecFB

namespace C03
open Num Spec.NumText F64

/-- round half up -/
def rhu (n d : Nat) : Nat := (2 * n + d) / (2 * d)

theorem rhu_split (q P Y : Nat) (hP : 0 < P) (hY : Y < 10 * P) :
    rhu (q * (10 * P) + Y) (10 * P) = if 5 * P ≤ Y then q + 1 else q := by
  unfold rhu
  generalize hT : q * (10 * P) = T
  by_cases h : 5 * P ≤ Y
  · rw [if_pos h]
    apply Nat.div_eq_of_lt_le
    · have : (q + 1) * (2 * (10 * P)) = 2 * T + 20 * P := by rw [← hT]; ring
      omega
    · have : (q + 1 + 1) * (2 * (10 * P)) = 2 * T + 40 * P := by rw [← hT]; ring
      omega
  · rw [if_neg h]
    apply Nat.div_eq_of_lt_le
    · have : q * (2 * (10 * P)) = 2 * T := by rw [← hT]; ring
      omega
    · have : (q + 1) * (2 * (10 * P)) = 2 * T + 20 * P := by rw [← hT]; ring
      omega

/-- **the rounding step with `trunc` set, digits split at the point** -/
theorem ri_split_up (hi : Bytes) (c : UInt8) (rest : Bytes) (hhi : hi.all isDec = true) (hc : isDec c = true)
    (hrest : rest.all isDec = true) (hlen : hi.length ≤ 19) :
    roundedInteger { d := hi ++ c :: rest, dp := hi.length, trunc := true } =
      rhu (valOf 10 (hi ++ c :: rest)) (10 ^ (rest.length + 1)) := by
  obtain ⟨f1, f2, f3, f4⟩ := round_byte_facts c hc
  have h64 := pow10_19
  unfold roundedInteger
  have hdp : ¬ ((hi.length : Int) > 20) := by omega
  simp only [hdp, if_false, Int.toNat_natCast, List.take_left', List.length_append, List.length_cons]
  have hpad : hi.length - (hi.length + (rest.length + 1)) = 0 := by omega
  rw [hpad]
  simp only [riPad]
  rw [riDigits_eq hi hhi 0 0 (by decide) (by omega), ← valOf_eq]
  have hq := valOf_lt hi hhi
  have hqle : 10 ^ hi.length ≤ 10 ^ 19 := Nat.pow_le_pow_right (by decide) hlen
  have hr := valOf_lt rest hrest
  rw [valOf_append10, valOf_cons10, List.length_cons]
  generalize hP : 10 ^ rest.length = P at *
  have hPpos : 0 < P := by rw [← hP]; exact Nat.pow_pos (by decide)
  have hD : 10 ^ (rest.length + 1) = 10 * P := by rw [Nat.pow_succ, hP]; ring
  rw [hD]
  generalize valOf 10 hi = q at *
  generalize hvr : valOf 10 rest = vr at *
  generalize hX : digVal c * P = X
  have hXle : X ≤ 9 * P := by rw [← hX]; exact Nat.mul_le_mul_right _ f4
  rw [rhu_split q P (X + vr) hPpos (by omega)]
  have hwrap : (q + 1) % 2 ^ 64 = q + 1 := Nat.mod_eq_of_lt (by omega)
  rw [hwrap]
  unfold shouldRoundUp
  have hc2 : (decide ((hi.length : Int) < 0) ||
      decide ((hi.length : Int) ≥ ((hi.length + (rest.length + 1) : Nat) : Int))) = false := by
    simp only [Bool.or_eq_false_iff, decide_eq_false_iff_not]; omega
  simp only [Int.toNat_natCast, getD_append_len, List.length_append, List.length_cons, hc2,
    Bool.false_eq_true, if_false, if_true]
  by_cases hge : c ≥ 53
  · have h5 : 5 ≤ digVal c := f1.mp hge
    have hX5 : 5 * P ≤ X := by rw [← hX]; exact Nat.mul_le_mul_right _ h5
    have hsr : (if (c == 53 && hi.length + 1 == hi.length + (rest.length + 1)) = true then true else decide (c ≥ 53)) = true := by
      split
      · rfl
      · simp [hge]
    rw [hsr]
    simp only [if_true]
    rw [if_pos (by omega)]
  · have h4 : digVal c ≤ 4 := by
      have : ¬ 5 ≤ digVal c := fun h => hge (f1.mpr h)
      omega
    have hX4 : X ≤ 4 * P := by rw [← hX]; exact Nat.mul_le_mul_right _ h4
    have h53 : (c == 53) = false := by
      cases h : (c == 53) with
      | false => rfl
      | true => have := f2.mp h; omega
    simp only [h53, Bool.false_and, Bool.false_eq_true, if_false, hge, decide_false]
    rw [if_neg (by omega)]

/-- **`RoundedInteger` with `trunc` set = round half up of the decimal's own value** -/
theorem roundedInteger_rhu (a : Dec) (hd : a.d.all isDec = true) (h19 : a.dp ≤ 19) (ht : a.trunc = true) :
    roundedInteger a = rhu (decFrac (valOf 10 a.d) (a.dp - a.d.length)).1 (decFrac (valOf 10 a.d) (a.dp - a.d.length)).2 := by
  obtain ⟨ds, dp, tr⟩ := a
  simp only at hd h19 ht ⊢
  subst ht
  have h64 := pow10_19
  by_cases h0 : 0 ≤ dp
  · obtain ⟨k, rfl⟩ := Int.eq_ofNat_of_zero_le h0
    have hk : k ≤ 19 := by omega
    by_cases hle : ds.length ≤ k
    · -- no fraction digits
      have hge : (k : Int) - (ds.length : Int) ≥ 0 := by omega
      unfold decFrac
      rw [if_pos hge]
      simp only []
      have hr1 : ∀ n, rhu n 1 = n := by intro n; unfold rhu; omega
      rw [hr1]
      unfold roundedInteger
      have hdp : ¬ ((k : Int) > 20) := by omega
      simp only [hdp, if_false, Int.toNat_natCast, List.take_of_length_le hle]
      rw [riDigits_eq ds hd 0 0 (by decide) (by omega), ← valOf_eq]
      have hv := valOf_lt ds hd
      have hb : valOf 10 ds * 10 ^ (k - ds.length) < 2 ^ 64 := by
        have h1 : valOf 10 ds * 10 ^ (k - ds.length) < 10 ^ ds.length * 10 ^ (k - ds.length) :=
          Nat.mul_lt_mul_of_pos_right hv (Nat.pow_pos (by decide))
        have h2 : 10 ^ ds.length * 10 ^ (k - ds.length) = 10 ^ k := by rw [← Nat.pow_add]; congr 1; omega
        have h3 : 10 ^ k ≤ 10 ^ 19 := Nat.pow_le_pow_right (by decide) hk
        omega
      rw [riPad_eq _ _ hb]
      have hsr : shouldRoundUp { d := ds, dp := (k : Int), trunc := true } (k : Int) = false := by
        unfold shouldRoundUp
        have : (decide ((k : Int) < 0) || decide ((k : Int) ≥ (ds.length : Int))) = true := by
          simp only [Bool.or_eq_true, decide_eq_true_eq]; right; omega
        simp only [this, if_true]
      simp only [hsr, Bool.false_eq_true, if_false]
      congr 2; omega
    · have hlt : k < ds.length := by omega
      have hneg : ¬ ((k : Int) - (ds.length : Int) ≥ 0) := by omega
      unfold decFrac
      rw [if_neg hneg]
      simp only []
      have hsplit : ds = ds.take k ++ ds.drop k := (List.take_append_drop k ds).symm
      have hlen : (ds.take k).length = k := by rw [List.length_take]; omega
      cases hdrop : ds.drop k with
      | nil =>
        have : (ds.drop k).length = ds.length - k := List.length_drop
        rw [hdrop] at this; simp at this; omega
      | cons c rest =>
        rw [hdrop] at hsplit
        have hall : (ds.take k).all isDec = true ∧ isDec c = true ∧ rest.all isDec = true := by
          rw [hsplit, List.all_append, List.all_cons] at hd
          simp only [Bool.and_eq_true] at hd
          exact ⟨hd.1, hd.2.1, hd.2.2⟩
        have hL : (-((k : Int) - (ds.length : Int))).toNat = rest.length + 1 := by
          have : (ds.drop k).length = ds.length - k := List.length_drop
          rw [hdrop] at this; simp at this; omega
        have := ri_split_up (ds.take k) c rest hall.1 hall.2.1 hall.2.2 (by omega)
        rw [hlen, ← hsplit] at this
        rw [this, hL]
  · -- the point is left of the digits: the value is below 1/10
    have hneg : dp < 0 := by omega
    have hri : roundedInteger { d := ds, dp := dp, trunc := true } = 0 := by
      unfold roundedInteger
      have h20 : ¬ dp > 20 := by omega
      have hk : dp.toNat = 0 := by omega
      have hsr : shouldRoundUp { d := ds, dp := dp, trunc := true } dp = false := by
        unfold shouldRoundUp
        have : (decide (dp < 0) || decide (dp ≥ (ds.length : Int))) = true := by simp [hneg]
        simp only [this, if_true]
      simp only [h20, if_false, hk, List.take_zero, riDigits, Nat.zero_sub, riPad, hsr, Bool.false_eq_true]
    rw [hri]
    unfold decFrac
    have : ¬ (dp - (ds.length : Int) ≥ 0) := by omega
    rw [if_neg this]
    simp only []
    have hv := valOf_lt ds hd
    symm
    unfold rhu
    apply Nat.div_eq_of_lt
    have hle : 10 ^ (ds.length + 1) ≤ 10 ^ (-(dp - (ds.length : Int))).toNat :=
      Nat.pow_le_pow_right (by decide) (by omega)
    rw [Nat.pow_succ] at hle
    omega

/-- what round-half-up means -/
theorem rhu_bounds (n d : Nat) (hd : 0 < d) : 2 * (rhu n d) * d ≤ 2 * n + d ∧ 2 * n + d < 2 * (rhu n d + 1) * d := by
  unfold rhu
  have h1 := Nat.div_add_mod (2 * n + d) (2 * d)
  have h2 := Nat.mod_lt (2 * n + d) (show 0 < 2 * d by omega)
  generalize (2 * n + d) / (2 * d) = t at *
  generalize (2 * n + d) % (2 * d) = r at *
  have e1 : 2 * t * d = 2 * d * t := by ring
  have e2 : 2 * (t + 1) * d = 2 * d * t + 2 * d := by ring
  omega

/-- a fraction strictly within half a unit of an integer rounds to it -/
theorem rne_of_strict (n d t : Nat) (hd : 0 < d) (hlo : 2 * t * d < 2 * n + d) (hhi : 2 * n < (2 * t + 1) * d) :
    rne n d = t := by
  have hle := rne_le_of_lt_half n d t hd hhi
  have hge : t ≤ rne n d := by
    rw [rne_def]
    have hdm := Nat.div_add_mod n d
    have hml := Nat.mod_lt n hd
    generalize n / d = q at *
    generalize n % d = r at *
    have hqt : t ≤ q + 1 := by
      apply Classical.byContradiction; intro h
      have : (q + 2) * d ≤ t * d := Nat.mul_le_mul_right _ (by omega)
      have e1 : (q + 2) * d = d * q + 2 * d := by ring
      have e2 : 2 * t * d = 2 * (t * d) := by ring
      omega
    by_cases hq : t ≤ q
    · split <;> omega
    · have htq : t = q + 1 := by omega
      subst htq
      have e : 2 * (q + 1) * d = 2 * (d * q) + 2 * d := by ring
      rw [if_pos (Or.inl (by omega))]
  omega

end C03
