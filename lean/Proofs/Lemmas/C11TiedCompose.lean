/-
C11: the tied CDF wrapper is the distribution function of the enumeration of assignments, given that
the counting recurrence `A` equals the per-group count (`tied_recurrence_exact`); one-sided p-values
for tied samples follow.
-/
import Proofs.Lemmas.C11GroupsEnum
import Proofs.Lemmas.C11Compose
import Proofs.Lemmas.C11PFormulas
import Proofs.Lemmas.C11Basic
import Proofs.Lemmas.C11TiedRec
import Proofs.Lemmas.C11Misc

namespace C11
open Stats Stats.UStat Stats.UDist

theorem poolFrom_length (T : List Nat) : ∀ v, (GroupsEnum.poolFrom v T).length = T.sum := by
  induction T with
  | nil => intro v; simp [GroupsEnum.poolFrom]
  | cons t ts ih => intro v; simp [GroupsEnum.poolFrom, ih]

theorem poolOf_length (T : List Nat) : (poolOf T).length = T.sum := by
  rw [GroupsEnum.poolOf_eq, poolFrom_length]

theorem nullDistOf_le {α : Type} [LinearOrder α] (n : Nat) (pool : List α) :
    ∀ d ∈ Spec.UExact.nullDistOf n pool, d ≤ 2 * (n * (pool.length - n)) := by
  intro d hd
  unfold Spec.UExact.nullDistOf at hd
  obtain ⟨p, hp, rfl⟩ := List.mem_map.1 hd
  obtain ⟨_, _, h3, h4⟩ := splits_mem_props n pool p hp
  have hs := twoUPairs_swap p.1 p.2
  have : p.2.length = pool.length - n := by omega
  rw [h3, this] at hs
  have : 2 * n * (pool.length - n) = 2 * (n * (pool.length - n)) := by ring
  omega

/-- **tied CDF = distribution function of the enumeration**, given exactness of the recurrence -/
theorem tied_cdf_is_cdf_of_recurrence (T : List Nat) (n1 n2 : Nat) (hT : UDist.hasTies T = true)
    (hN : T.sum = n1 + n2)
    (hA : ∀ v : Int, A T T.length (n1 : Int) v = groupCount T n1 v) :
    IsCDFOf (cdfPure n1 n2 T) (Spec.UExact.nullDistOf n1 (poolOf T)) := by
  intro v
  have hlen : (Spec.UExact.nullDistOf n1 (poolOf T)).length = Nat.choose (n1 + n2) n1 := by
    unfold Spec.UExact.nullDistOf
    rw [List.length_map, splits_length, poolOf_length, hN]
  have hpos : ((Nat.choose (n1 + n2) n1 : Nat) : Rat) ≠ 0 := by
    have : Nat.choose (n1 + n2) n1 ≠ 0 := (Nat.choose_pos (Nat.le_add_right n1 n2)).ne'
    exact_mod_cast this
  have hle : ∀ d ∈ Spec.UExact.nullDistOf n1 (poolOf T), d ≤ 2 * (n1 * n2) := by
    intro d hd
    have := nullDistOf_le n1 (poolOf T) d hd
    rw [poolOf_length, hN] at this
    simpa using this
  unfold cdfPure cdfWith
  by_cases h0 : v < 0
  · rw [if_pos h0]
    have : (Spec.UExact.nullDistOf n1 (poolOf T)).filter (fun (d : Nat) => decide ((d : Int) ≤ v)) = [] := by
      apply List.filter_eq_nil_iff.2
      intro d _
      simp only [decide_eq_true_eq]
      omega
    rw [this]; simp
  · rw [if_neg h0]
    by_cases h1 : v ≥ 2 * ((n1 * n2 : Nat) : Int)
    · rw [if_pos h1]
      have : (Spec.UExact.nullDistOf n1 (poolOf T)).filter (fun (d : Nat) => decide ((d : Int) ≤ v))
          = Spec.UExact.nullDistOf n1 (poolOf T) := by
        apply List.filter_eq_self.2
        intro d hd
        have := hle d hd
        simp only [decide_eq_true_eq]
        push_cast at h1 ⊢
        omega
      rw [this, hlen, div_self hpos]
    · rw [if_neg h1, if_pos hT]
      simp only []
      rw [hA, groups_count_labelings_nat, hlen, choose_eq]

theorem less_exact_tied_partial (T : List Nat) (n1 n2 : Nat) (hT : UDist.hasTies T = true)
    (hN : T.sum = n1 + n2) (hA : ∀ v : Int, A T T.length (n1 : Int) v = groupCount T n1 v)
    (u : Nat) (tu2 : Int) :
    exactP (cdfPure n1 n2 T) .less (u : Int) tu2
      = Spec.UExact.pLess (Spec.UExact.nullDistOf n1 (poolOf T)) u :=
  less_spec _ _ (tied_cdf_is_cdf_of_recurrence T n1 n2 hT hN hA) u tu2

theorem greater_exact_tied_partial (T : List Nat) (n1 n2 : Nat) (hT : UDist.hasTies T = true)
    (hN : T.sum = n1 + n2) (hA : ∀ v : Int, A T T.length (n1 : Int) v = groupCount T n1 v)
    (u : Nat) (tu2 : Int) :
    exactP (cdfPure n1 n2 T) .greater (u : Int) tu2
      = Spec.UExact.pGreater (Spec.UExact.nullDistOf n1 (poolOf T)) u := by
  refine greater_spec _ _ (tied_cdf_is_cdf_of_recurrence T n1 n2 hT hN hA) ?_ u tu2
  intro h
  have hlen : (Spec.UExact.nullDistOf n1 (poolOf T)).length = Nat.choose (n1 + n2) n1 := by
    unfold Spec.UExact.nullDistOf
    rw [List.length_map, splits_length, poolOf_length, hN]
  rw [h] at hlen
  have := Nat.choose_pos (Nat.le_add_right n1 n2)
  simp at hlen
  omega

/-! ### with `tied_recurrence_exact`: unconditional statements -/

/-- **the tied CDF wrapper is the distribution function of the enumeration of assignments** -/
theorem tied_cdf_is_cdf (T : List Nat) (hpos : ∀ t ∈ T, 0 < t) (hK : 2 ≤ T.length) (n1 n2 : Nat)
    (hT : UDist.hasTies T = true) (hN : T.sum = n1 + n2) :
    IsCDFOf (cdfPure n1 n2 T) (Spec.UExact.nullDistOf n1 (poolOf T)) :=
  tied_cdf_is_cdf_of_recurrence T n1 n2 hT hN
    (fun v => tied_recurrence_exact T hpos hK n1 (by omega) v)

theorem less_exact_tied (T : List Nat) (hpos : ∀ t ∈ T, 0 < t) (hK : 2 ≤ T.length) (n1 n2 : Nat)
    (hT : UDist.hasTies T = true) (hN : T.sum = n1 + n2) (u : Nat) (tu2 : Int) :
    exactP (cdfPure n1 n2 T) .less (u : Int) tu2
      = Spec.UExact.pLess (Spec.UExact.nullDistOf n1 (poolOf T)) u :=
  less_exact_tied_partial T n1 n2 hT hN (fun v => tied_recurrence_exact T hpos hK n1 (by omega) v) u tu2

theorem greater_exact_tied (T : List Nat) (hpos : ∀ t ∈ T, 0 < t) (hK : 2 ≤ T.length) (n1 n2 : Nat)
    (hT : UDist.hasTies T = true) (hN : T.sum = n1 + n2) (u : Nat) (tu2 : Int) :
    exactP (cdfPure n1 n2 T) .greater (u : Int) tu2
      = Spec.UExact.pGreater (Spec.UExact.nullDistOf n1 (poolOf T)) u :=
  greater_exact_tied_partial T n1 n2 hT hN (fun v => tied_recurrence_exact T hpos hK n1 (by omega) v) u tu2

/-- **the tied mass function sums to 1** -/
theorem pmf_sums_to_one_tied (T : List Nat) (hpos : ∀ t ∈ T, 0 < t) (hK : 2 ≤ T.length) (n1 n2 : Nat)
    (hT : UDist.hasTies T = true) (hN : T.sum = n1 + n2) :
    ∑ v ∈ Finset.range (2 * (n1 * n2) + 1), pmfPure n1 n2 T (v : Int) = 1 := by
  have hlen : (Spec.UExact.nullDistOf n1 (poolOf T)).length = Nat.choose (n1 + n2) n1 := by
    unfold Spec.UExact.nullDistOf
    rw [List.length_map, splits_length, poolOf_length, hN]
  apply pmf_sums_to_one_tied_partial n1 n2 T hT
  · rw [tied_recurrence_exact T hpos hK n1 (by omega), groups_count_labelings_nat]
    have : (Spec.UExact.nullDistOf n1 (poolOf T)).filter (fun (d : Nat) => decide ((d : Int) ≤ -1)) = [] := by
      apply List.filter_eq_nil_iff.2
      intro d _
      simp only [decide_eq_true_eq]
      omega
    rw [this]; rfl
  · rw [tied_recurrence_exact T hpos hK n1 (by omega), groups_count_labelings_nat]
    have : (Spec.UExact.nullDistOf n1 (poolOf T)).filter
        (fun (d : Nat) => decide ((d : Int) ≤ ((2 * (n1 * n2) : Nat) : Int)))
          = Spec.UExact.nullDistOf n1 (poolOf T) := by
      apply List.filter_eq_self.2
      intro d hd
      have := nullDistOf_le n1 (poolOf T) d hd
      rw [poolOf_length, hN] at this
      simp only [decide_eq_true_eq]
      have h2 : n1 + n2 - n1 = n2 := by omega
      rw [h2] at this
      exact_mod_cast this
    rw [this, hlen, choose_eq]
  · rw [choose_eq]; exact (Nat.choose_pos (Nat.le_add_right n1 n2)).ne'

end C11
