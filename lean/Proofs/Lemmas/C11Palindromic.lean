/-
C11: palindromic tie vectors. Reversing the tie vector mirrors the null distribution
(`d ↦ 2·n·(N − n) − d`); hence a tie vector that reads the same in both directions has a null
distribution symmetric about n·(N − n), and for such a vector the two-sided value computed by the
code (twice the CDF at the smaller of u and 2·n1·n2 − u) is the specification's two-sided value.
The closing examples show that the palindrome hypothesis is not vacuous: for T = [1,2] the symmetry
fails.
-/
import Model.Stats.UDist
import Model.Stats.UStat
import Model.Spec.UExact
import Proofs.Lemmas.C11Groups
import Proofs.Lemmas.C11GroupsEnum
import Proofs.Lemmas.C11Relabel
import Proofs.Lemmas.C11Compose
import Proofs.Lemmas.C11TiedCompose
import Proofs.Lemmas.C11PFormulas
import Mathlib.Data.List.Perm.Basic
import Mathlib.Tactic.Ring
import Mathlib.Tactic.Linarith

namespace C11
namespace Palin
open Spec.UExact GroupsEnum

theorem poolFrom_append (A B : List Nat) : ∀ v,
    poolFrom v (A ++ B) = poolFrom v A ++ poolFrom (v + A.length) B := by
  induction A with
  | nil => intro v; simp [poolFrom]
  | cons a as ih =>
    intro v
    rw [List.cons_append, poolFrom, poolFrom, ih (v + 1), List.append_assoc, List.length_cons]
    congr 3
    omega

theorem poolFrom_lt (T : List Nat) : ∀ v, ∀ x ∈ poolFrom v T, x < v + T.length := by
  induction T with
  | nil => intro v x hx; simp [poolFrom] at hx
  | cons t ts ih =>
    intro v x hx
    simp only [poolFrom, List.mem_append] at hx
    rw [List.length_cons]
    rcases hx with hx | hx
    · rw [List.eq_of_mem_replicate hx]; omega
    · have := ih (v + 1) x hx; omega

/-- reflecting the values `v … v+K−1` of the pool about `c` gives (a rearrangement of) the pool of
    the reversed tie vector, starting at `c − (v+K−1)` -/
theorem poolFrom_map_reflect_perm (T : List Nat) : ∀ v c, v + T.length ≤ c + 1 →
    ((poolFrom v T).map (fun x => c - x)).Perm (poolFrom (c + 1 - (v + T.length)) T.reverse) := by
  induction T with
  | nil => intro v c _; simp [poolFrom]
  | cons t ts ih =>
    intro v c h
    rw [List.length_cons] at h
    have ih' := ih (v + 1) c (by omega)
    rw [poolFrom, List.map_append, List.map_replicate, List.reverse_cons, poolFrom_append,
      List.length_reverse]
    have e1 : c + 1 - (v + (t :: ts).length) = c + 1 - (v + 1 + ts.length) := by
      rw [List.length_cons]; omega
    have e2 : c + 1 - (v + 1 + ts.length) + ts.length = c - v := by omega
    rw [e1, e2]
    have e3 : poolFrom (c - v) [t] = List.replicate t (c - v) := by simp [poolFrom]
    rw [e3]
    exact List.perm_append_comm.trans (List.Perm.append_right _ ih')

/-- the pool of the reversed tie vector is the pool relabelled by `k ↦ K−1−k`, rearranged -/
theorem poolOf_map_reflect_perm (T : List Nat) :
    ((poolOf T).map (fun k => T.length - 1 - k)).Perm (poolOf T.reverse) := by
  cases T with
  | nil => simp [poolOf]
  | cons t ts =>
    rw [poolOf_eq, poolOf_eq]
    have h := poolFrom_map_reflect_perm (t :: ts) 0 ((t :: ts).length - 1)
      (by rw [List.length_cons]; omega)
    have e : (t :: ts).length - 1 + 1 - (0 + (t :: ts).length) = 0 := by
      rw [List.length_cons]; omega
    rw [e] at h
    exact h

theorem poolOf_lt (T : List Nat) : ∀ x ∈ poolOf T, x < T.length := by
  intro x hx
  rw [poolOf_eq] at hx
  have := poolFrom_lt T 0 x hx
  omega

theorem filter_length_eq_countP {β : Type} (p : β → Bool) (l : List β) :
    (l.filter p).length = l.countP p := by
  rw [List.countP_eq_length_filter]

theorem countP_congr_mem {β : Type} (p q : β → Bool) (l : List β) (h : ∀ x ∈ l, p x = q x) :
    l.countP p = l.countP q := by
  induction l with
  | nil => rfl
  | cons a l ih =>
    rw [List.countP_cons, List.countP_cons, h a (by simp),
      ih (fun x hx => h x (List.mem_cons_of_mem _ hx))]

end Palin

open Palin

/-- **reversing the tie vector mirrors the null distribution** -/
theorem nullDist_mirror_reverse (T : List Nat) (n : Nat) (P : Nat → Bool) :
    (Spec.UExact.nullDistOf n (poolOf T.reverse)).countP P
      = ((Spec.UExact.nullDistOf n (poolOf T)).map (fun d => 2 * n * (T.sum - n) - d)).countP P := by
  rw [← nullDistOf_countP_perm n (poolOf_map_reflect_perm T) P,
    nullDistOf_map_of_strictAntiOn (fun k => T.length - 1 - k) n (poolOf T), poolOf_length]
  intro a ha b hb
  have h1 := poolOf_lt T a ha
  have h2 := poolOf_lt T b hb
  show a < b ↔ T.length - 1 - b < T.length - 1 - a
  omega

/-- **a palindromic tie vector has a symmetric null distribution** (about `n·(N − n)`, in the form
    required by `two_sided_spec_partial`) -/
theorem palindromic_symmetric (T : List Nat) (hpal : T.reverse = T) (n : Nat) (v : Nat) :
    ((Spec.UExact.nullDistOf n (poolOf T)).filter (· ≤ v)).length
      = ((Spec.UExact.nullDistOf n (poolOf T)).filter
          (fun d => decide (d + v ≥ 2 * (n * (T.sum - n))))).length := by
  have h := nullDist_mirror_reverse T n (fun d => decide (d ≤ v))
  rw [hpal, List.countP_map] at h
  rw [filter_length_eq_countP, filter_length_eq_countP, h]
  apply countP_congr_mem
  intro d hd
  have hle := nullDistOf_le n (poolOf T) d hd
  rw [poolOf_length] at hle
  have e : 2 * n * (T.sum - n) = 2 * (n * (T.sum - n)) := by ring
  simp only [Function.comp, e]
  by_cases hv : d + v ≥ 2 * (n * (T.sum - n))
  · have : 2 * (n * (T.sum - n)) - d ≤ v := by omega
    simp [hv, this]
  · have : ¬ 2 * (n * (T.sum - n)) - d ≤ v := by omega
    simp [hv, this]

/-- **for a tied palindromic tie vector the code's two-sided value is the specification's** -/
theorem two_sided_spec_palindromic (T : List Nat) (hpos : ∀ t ∈ T, 0 < t) (hK : 2 ≤ T.length)
    (hpal : T.reverse = T) (n1 n2 : Nat) (hT : Stats.UDist.hasTies T = true)
    (hN : T.sum = n1 + n2) (u : Nat) (hu : u ≤ 2 * (n1 * n2)) :
    Stats.UStat.exactP (Stats.UDist.cdfPure n1 n2 T) .differs (u : Int)
        (((2 * (n1 * n2) : Nat) : Int) - (u : Int))
      = Spec.UExact.pTwoSided (Spec.UExact.nullDistOf n1 (poolOf T)) u := by
  refine two_sided_spec_partial _ _ (2 * (n1 * n2)) (tied_cdf_is_cdf T hpos hK n1 n2 hT hN)
    (nullDistOf_ne_nil n1 n2 (poolOf T) (by rw [poolOf_length, hN])) ?_ u hu
  intro v
  have h := palindromic_symmetric T hpal n1 v
  rw [hN, Nat.add_sub_cancel_left] at h
  exact h

/-! ### instances -/

/-- the palindromic vector [2,1,2], n1 = 2, n2 = 3: the enumeration is symmetric about 6
    (doubled: 12) at every threshold that matters -/
example : ∀ v ∈ List.range 14,
    ((Spec.UExact.nullDistOf 2 (poolOf [2, 1, 2])).filter (· ≤ v)).length
      = ((Spec.UExact.nullDistOf 2 (poolOf [2, 1, 2])).filter
          (fun d => decide (d + v ≥ 12))).length := by
  decide +kernel

/-- an instance of `two_sided_spec_palindromic` (T = [2,1,2], n1 = 2, n2 = 3, 2U = 3) -/
example :
    Stats.UStat.exactP (Stats.UDist.cdfPure 2 3 [2, 1, 2]) .differs ((3 : Nat) : Int)
        (((2 * (2 * 3) : Nat) : Int) - ((3 : Nat) : Int))
      = Spec.UExact.pTwoSided (Spec.UExact.nullDistOf 2 (poolOf [2, 1, 2])) 3 :=
  two_sided_spec_palindromic [2, 1, 2] (by decide) (by decide) (by decide) 2 3 (by decide +kernel)
    (by decide) 3 (by decide)

/-- the hypothesis is not vacuous: for the non-palindromic T = [1,2] (n = 1, N − n = 2, the N5
    witness) the null distribution is [0,3,3], and the symmetry about 2 (doubled: 4) fails at
    v = 0 -/
example :
    ¬ (∀ v : Nat, ((Spec.UExact.nullDistOf 1 (poolOf [1, 2])).filter (· ≤ v)).length
        = ((Spec.UExact.nullDistOf 1 (poolOf [1, 2])).filter
            (fun d => decide (d + v ≥ 2 * (1 * ([1, 2].sum - 1))))).length) := by
  intro h
  exact absurd (h 0) (by decide +kernel)

/-- palindromicity is sufficient, not necessary: for the non-palindromic T = [1,3] with n = 2,
    N − n = 2 the null distribution is [2,2,2,6,6,6], symmetric about 4 (doubled: 8) -/
example : ∀ v ∈ List.range 10,
    ((Spec.UExact.nullDistOf 2 (poolOf [1, 3])).filter (· ≤ v)).length
      = ((Spec.UExact.nullDistOf 2 (poolOf [1, 3])).filter
          (fun d => decide (d + v ≥ 8))).length := by
  decide +kernel

end C11
