/-
C12 helper lemmas: the weighted incremental mean (exact instance).
-/
import Proofs.Lemmas.C12Descr
import Model.Stats.Weighted

namespace C12
open Stats Stats.Weighted

def wsumQ : List (ℚ × ℚ) → ℚ
  | [] => 0
  | (_, w) :: r => w + wsumQ r

def wdotQ (val : ℚ → ℚ) : List (ℚ × ℚ) → ℚ
  | [] => 0
  | (x, w) :: r => w * val x + wdotQ val r

theorem wsumQ_nonneg (xs : List (ℚ × ℚ)) (h : ∀ p ∈ xs, 0 ≤ p.2) : 0 ≤ wsumQ xs := by
  induction xs with
  | nil => simp [wsumQ]
  | cons p r ih =>
    obtain ⟨x, w⟩ := p
    have := h (x, w) List.mem_cons_self
    have := ih (fun q hq => h q (List.mem_cons_of_mem _ hq))
    simp only [wsumQ]; linarith

/-- invariant of the weighted loop: m·wsum = Σ w·val(x) over the entries consumed so far -/
theorem wmeanLoop_spec (val : ℚ → ℚ) (xs : List (ℚ × ℚ)) (hw : ∀ p ∈ xs, 0 ≤ p.2) :
    ∀ (m wsum S : ℚ), 0 ≤ wsum → m * wsum = S →
      (wmeanLoop val m wsum xs).2 = wsum + wsumQ xs ∧
      (wmeanLoop val m wsum xs).1 * (wmeanLoop val m wsum xs).2 = S + wdotQ val xs := by
  induction xs with
  | nil => intro m wsum S _ h; simp [wmeanLoop, wsumQ, wdotQ, h]
  | cons p r ih =>
    obtain ⟨x, w⟩ := p
    intro m wsum S h0 hS
    have hw0 : 0 ≤ w := hw (x, w) List.mem_cons_self
    have hr := fun q hq => hw q (List.mem_cons_of_mem _ hq)
    by_cases hz : w = 0
    · have : Arith.eq w (Arith.ofNat 0 : ℚ) = true := by rw [eq_rat]; simpa using hz
      simp only [wmeanLoop, this, if_true, wsumQ, wdotQ, hz, zero_mul, zero_add]
      exact ih hr m wsum S h0 hS
    · have : ¬ (Arith.eq w (Arith.ofNat 0 : ℚ) = true) := by rw [eq_rat]; simpa using hz
      have hpos : 0 < wsum + w := by
        have : 0 < w := lt_of_le_of_ne hw0 (Ne.symm hz)
        linarith
      simp only [wmeanLoop, this, if_false, add_rat, sub_rat, mul_rat, div_rat, wsumQ, wdotQ,
        Bool.false_eq_true]
      have key : (m + (val x - m) * w / (wsum + w)) * (wsum + w) = S + w * val x := by
        field_simp; rw [← hS]; ring
      obtain ⟨a, b⟩ := ih hr _ _ (S + w * val x) hpos.le key
      exact ⟨by rw [a]; ring, by rw [b]; ring⟩

end C12
