/-
C16 — decoding the texttab cells and the CSV records back to the cells view.
-/
import Proofs.Lemmas.C16Warn
import Proofs.Lemmas.C16Build

namespace C16
open Tab.TextTab Tab.Render Tab.KeyHeader

/-! ### where the cells of a measurement row are -/

theorem mkCell_geom (r k : Nat) (v : Bytes) (opts : List Opt) :
    (mkCell r k v opts).row = r ∧ (mkCell r k v opts).col = k ∧ (mkCell r k v opts).span = 1 := by
  unfold mkCell
  exact foldl_apply_geom opts _

theorem foldl_apply_value (opts : List Opt) : ∀ c : Cell, (opts.foldl Opt.apply c).value = c.value := by
  induction opts with
  | nil => intro c; rfl
  | cons o os ih =>
    intro c
    simp only [List.foldl_cons]
    rw [ih]
    cases o <;> rfl

theorem mkCell_value (r k : Nat) (v : Bytes) (opts : List Opt) : (mkCell r k v opts).value = v := by
  unfold mkCell; rw [foldl_apply_value]

theorem placed_mem (r : Nat) : ∀ (l : List (Bytes × List Opt)) (k : Nat) (x : Cell), x ∈ placed r k l →
    ∃ j, j < l.length ∧ x.row = r ∧ x.col = k + j ∧ x.value = (l.getD j ([], [])).1 := by
  intro l
  induction l with
  | nil => intro k x h; simp [placed] at h
  | cons p rest ih =>
    intro k x h
    simp only [placed, List.mem_cons] at h
    rcases h with h | h
    · subst h
      have := mkCell_geom r k p.1 p.2
      exact ⟨0, by simp, this.1, by simp [this.2.1], by simp [mkCell_value]⟩
    · obtain ⟨j, h1, h2, h3, h4⟩ := ih (k + 1) x h
      exact ⟨j + 1, by simp; omega, h2, by omega, by simpa using h4⟩

theorem placed_mem_of (r : Nat) : ∀ (l : List (Bytes × List Opt)) (k j : Nat), j < l.length →
    ∃ x ∈ placed r k l, x.row = r ∧ x.col = k + j := by
  intro l
  induction l with
  | nil => intro k j h; simp at h
  | cons p rest ih =>
    intro k j h
    cases j with
    | zero =>
      have := mkCell_geom r k p.1 p.2
      exact ⟨_, by simp [placed], this.1, by simp [this.2.1]⟩
    | succ j =>
      obtain ⟨x, hx, h1, h2⟩ := ih (k + 1) j (by simpa using h)
      exact ⟨x, by simp [placed, hx], h1, by omega⟩

/-- every cell of a measurement row's columns belongs to the group of a PRESENT view cell and
shows the string the view prescribes for its slot -/
theorem placedRow_cols (r : Nat) : ∀ (cells : List (Option DataCell)) (wl : List Bytes) (e : Nat) (x : Cell),
    x ∈ placedRow r wl e cells →
    ∃ i c wl' j, cells[i]? = some (some c) ∧ j < (cellStrings wl' (e + i) c).length ∧
      x.row = r ∧ x.col = textStartCol (e + i) + j ∧
      x.value = ((cellStrings wl' (e + i) c).getD j ([], [])).1 := by
  intro cells
  induction cells with
  | nil => intro wl e x h; simp [placedRow] at h
  | cons oc rest ih =>
    intro wl e x h
    cases oc with
    | none =>
      simp only [placedRow] at h
      obtain ⟨i, c, wl', j, h1, h2, h3, h4, h5⟩ := ih wl (e + 1) x h
      refine ⟨i + 1, c, wl', j, by simpa using h1, ?_, h3, ?_, ?_⟩ <;>
        rw [show e + (i + 1) = e + 1 + i by omega] <;> assumption
    | some c0 =>
      simp only [placedRow, List.mem_append] at h
      rcases h with h | h
      · obtain ⟨j, h1, h2, h3, h4⟩ := placed_mem r _ _ x h
        exact ⟨0, c0, wl, j, by simp, by simpa using h1, h2, by simpa using h3, by simpa using h4⟩
      · obtain ⟨i, c, wl', j, h1, h2, h3, h4, h5⟩ := ih _ (e + 1) x h
        refine ⟨i + 1, c, wl', j, by simpa using h1, ?_, h3, ?_, ?_⟩ <;>
          rw [show e + (i + 1) = e + 1 + i by omega] <;> assumption

/-- two slots of column groups coincide only if they are the same slot of the same group -/
theorem group_unique (a b j j' : Nat) (hj : j < textGroupWidth a) (hj' : j' < textGroupWidth b)
    (h : textStartCol a + j = textStartCol b + j') : a = b ∧ j = j' := by
  have key : ∀ a b j, j < textGroupWidth a → a < b → textStartCol a + j < textStartCol b := by
    intro a b j hj hab
    have h1 := textStartCol_succ a
    have h2 : textStartCol (a + 1) ≤ textStartCol b := textStartCol_mono hab
    omega
  by_cases hab : a = b
  · subst hab; exact ⟨rfl, by omega⟩
  · exfalso
    rcases Nat.lt_or_gt_of_ne hab with h1 | h1
    · have := key a b j hj h1; omega
    · have := key b a j' hj' h1; omega

/-! ### looking a cell up by position -/

def cellAt (cells : List Cell) (r k : Nat) : Option Cell := cells.find? fun c => c.row == r && c.col == k

/-- the string the text shows at (row, column); empty if there is no cell -/
def textVal (cells : List Cell) (r k : Nat) : Bytes := ((cellAt cells r k).map (·.value)).getD []

theorem textVal_of (cells : List Cell) (r k : Nat) (val : Bytes)
    (hall : ∀ x ∈ cells, x.row = r → x.col = k → x.value = val)
    (hex : ∃ x ∈ cells, x.row = r ∧ x.col = k) : textVal cells r k = val := by
  unfold textVal cellAt
  cases hf : cells.find? (fun c => c.row == r && c.col == k) with
  | none =>
    exfalso
    obtain ⟨x, hx, h1, h2⟩ := hex
    have := List.find?_eq_none.mp hf x hx
    simp [h1, h2] at this
  | some y =>
    have hm := List.mem_of_find?_eq_some hf
    have hp := List.find?_some hf
    simp only [Bool.and_eq_true, beq_iff_eq] at hp
    simp [hall y hm hp.1 hp.2]

theorem textVal_none (cells : List Cell) (r k : Nat)
    (hall : ∀ x ∈ cells, ¬ (x.row = r ∧ x.col = k)) : textVal cells r k = [] := by
  unfold textVal cellAt
  cases hf : cells.find? (fun c => c.row == r && c.col == k) with
  | none => rfl
  | some y =>
    exfalso
    have hm := List.mem_of_find?_eq_some hf
    have hp := List.find?_some hf
    simp only [Bool.and_eq_true, beq_iff_eq] at hp
    exact hall y hm hp

/-! ### which rows the parts of `textCells` occupy -/

theorem hdrCells_rows (rEdge : Nat) : ∀ (fuel r : Nat) (nodes : List Node) (x : Cell),
    x ∈ hdrCells rEdge fuel r nodes → r ≤ x.row ∧ x.row < r + levelCount fuel nodes := by
  intro fuel
  induction fuel with
  | zero => intro r nodes x h; simp [hdrCells] at h
  | succ fuel ih =>
    intro r nodes x h
    unfold hdrCells at h
    unfold levelCount
    by_cases hn : nodes.isEmpty = true
    · simp [hn] at h
    · have hn' : nodes.isEmpty = false := by simpa using hn
      simp only [hn', Bool.false_eq_true, if_false, List.mem_append, List.mem_map, List.mem_singleton] at h ⊢
      rcases h with (⟨n, _, rfl⟩ | rfl) | h
      · simp [hdrCell]; omega
      · simp [edgeCell]; omega
      · have := ih (r + 1) _ x h
        omega

theorem unitCells_row (R : Nat) (unit : Bytes) (n : Nat) (x : Cell) (h : x ∈ unitCells R unit n) : x.row = R := by
  unfold unitCells at h
  simp only [List.mem_flatMap, List.mem_range] at h
  obtain ⟨i, _, hx⟩ := h
  unfold unitCellsOf at hx
  simp only [List.mem_cons] at hx
  rcases hx with rfl | hx
  · rfl
  · split at hx
    · simp only [List.mem_singleton] at hx; subst hx; rfl
    · cases hx

theorem placedRow_row (r : Nat) (cells : List (Option DataCell)) (wl : List Bytes) (e : Nat) (x : Cell)
    (h : x ∈ placedRow r wl e cells) : x.row = r := by
  obtain ⟨_, _, _, _, _, _, h3, _, _⟩ := placedRow_cols r cells wl e x h
  exact h3

theorem rowsPlaced_mem : ∀ (rows : List (Bytes × List (Option DataCell))) (r : Nat) (wl : List Bytes) (x : Cell),
    x ∈ rowsPlaced r wl rows →
    ∃ k row wl', rows[k]? = some row ∧ x.row = r + k ∧
      (x = mkCell (r + k) 0 row.1 [] ∨ x ∈ placedRow (r + k) wl' 0 row.2) := by
  intro rows
  induction rows with
  | nil => intro r wl x h; simp [rowsPlaced] at h
  | cons row rest ih =>
    intro r wl x h
    simp only [rowsPlaced, List.mem_append, List.mem_cons] at h
    rcases h with (h | h) | h
    · exact ⟨0, row, wl, by simp, by rw [h]; exact (mkCell_geom r 0 row.1 []).1, Or.inl (by simpa using h)⟩
    · exact ⟨0, row, wl, by simp, by simpa using placedRow_row r row.2 wl 0 x h, Or.inr (by simpa using h)⟩
    · obtain ⟨k, row', wl', h1, h2, h3⟩ := ih (r + 1) _ x h
      refine ⟨k + 1, row', wl', by simpa using h1, by omega, ?_⟩
      rw [show r + (k + 1) = r + 1 + k by omega]; exact h3

theorem rowsPlaced_of : ∀ (rows : List (Bytes × List (Option DataCell))) (r : Nat) (wl : List Bytes) (k : Nat)
    (row : Bytes × List (Option DataCell)), rows[k]? = some row →
    mkCell (r + k) 0 row.1 [] ∈ rowsPlaced r wl rows ∧
    ∃ wl', ∀ x ∈ placedRow (r + k) wl' 0 row.2, x ∈ rowsPlaced r wl rows := by
  intro rows
  induction rows with
  | nil => intro r wl k row h; simp at h
  | cons row0 rest ih =>
    intro r wl k row h
    cases k with
    | zero =>
      simp only [List.getElem?_cons_zero, Option.some.injEq] at h
      subst h
      exact ⟨by simp [rowsPlaced], wl, fun x hx => by
        simp only [Nat.add_zero] at hx
        simp [rowsPlaced, hx]⟩
    | succ k =>
      obtain ⟨h1, wl', h2⟩ := ih (r + 1) (dataRowOps wl row0).1 k row (by simpa using h)
      rw [show r + 1 + k = r + (k + 1) by omega] at h1 h2
      exact ⟨by simp only [rowsPlaced, List.mem_append]; exact Or.inr h1,
        wl', fun x hx => by simp only [rowsPlaced, List.mem_append]; exact Or.inr (h2 x hx)⟩

theorem sumPlacedRow_row (r : Nat) : ∀ (sums : List (Option SumCell)) (wl : List Bytes) (e : Nat) (x : Cell),
    x ∈ sumPlacedRow r wl e sums → x.row = r := by
  intro sums
  induction sums with
  | nil => intro wl e x h; simp [sumPlacedRow] at h
  | cons oc rest ih =>
    intro wl e x h
    cases oc with
    | none => exact ih wl (e + 1) x (by simpa [sumPlacedRow] using h)
    | some s =>
      simp only [sumPlacedRow, List.mem_append] at h
      rcases h with h | h
      · unfold sumPlaced at h
        simp only [List.mem_append, List.mem_singleton] at h
        rcases h with (h | h) | h
        · split at h
          · simp only [List.mem_singleton] at h; rw [h]; exact (mkCell_geom _ _ _ _).1
          · cases h
        · split at h
          · simp only [List.mem_singleton] at h; rw [h]; exact (mkCell_geom _ _ _ _).1
          · cases h
        · rw [h]; exact (mkCell_geom _ _ _ _).1
      · exact ih _ (e + 1) x h

/-- the cells of `textCells v` on the row of measurement row `ri` are that row's label and cells -/
theorem textCells_row_mem (v : View) (ri : Nat) (row : Bytes × List (Option DataCell))
    (hrow : v.rows[ri]? = some row) (x : Cell) (hx : x ∈ textCells v)
    (hr : x.row = levelCount (v.nfields + 1) (newKeyHeader v.colKeys v.nfields) + 1 + ri) :
    x = mkCell x.row 0 row.1 [] ∨ ∃ wl', x ∈ placedRow x.row wl' 0 row.2 := by
  have hlt : ri < v.rows.length := by
    rcases Nat.lt_or_ge ri v.rows.length with h | h
    · exact h
    · rw [List.getElem?_eq_none h] at hrow; cases hrow
  unfold textCells at hx
  simp only [List.mem_append] at hx
  rcases hx with ((hx | hx) | hx) | hx
  · have := hdrCells_rows _ _ 0 _ x hx; omega
  · rcases hx with hx | hx
    · have := unitCells_row _ _ _ x hx; omega
    · simp only [List.mem_singleton] at hx; subst hx; simp only [edgeCell] at hr; omega
  · obtain ⟨k, row', wl', h1, h2, h3⟩ := rowsPlaced_mem v.rows _ [] x hx
    have hk : k = ri := by omega
    subst hk
    rw [hrow] at h1
    cases h1
    rw [h2]
    rcases h3 with h3 | h3
    · exact Or.inl h3
    · exact Or.inr ⟨wl', h3⟩
  · split at hx
    · simp only [List.mem_cons] at hx
      rcases hx with hx | hx
      · rw [hx] at hr; have := (mkCell_geom (levelCount (v.nfields + 1) (newKeyHeader v.colKeys v.nfields) + 1 + v.rows.length) 0 v.summaryLabel []).1
        omega
      · have := sumPlacedRow_row _ _ _ _ x hx; omega
    · cases hx

/-! ### decoding one slot of the text -/

/-- what the view prescribes for slot `j` (0 centre, 1 range, 3 delta, 4 p-value in parentheses)
of logical column `exp`; empty for an absent cell or a cell without comparison -/
def textSlot (oc : Option DataCell) (exp j : Nat) : Bytes :=
  match oc with
  | none => []
  | some c =>
    if j = 0 then c.centerText else if j = 1 then c.range
    else match (if exp > 0 then c.delta else none) with
      | some d => if j = 3 then d.delta else if j = 4 then [0x28] ++ d.p ++ [0x29] else []
      | none => []

theorem cellStrings_slot (wl : List Bytes) (exp : Nat) (c : DataCell) (j : Nat)
    (hj : j = 0 ∨ j = 1 ∨ j = 3 ∨ j = 4) :
    (j < (cellStrings wl exp c).length → ((cellStrings wl exp c).getD j ([], [])).1 = textSlot (some c) exp j) ∧
    (¬ j < (cellStrings wl exp c).length → textSlot (some c) exp j = []) := by
  unfold cellStrings textSlot
  simp only
  cases hd : (if exp > 0 then c.delta else none) with
  | none => rcases hj with rfl | rfl | rfl | rfl <;> simp
  | some d => rcases hj with rfl | rfl | rfl | rfl <;> simp

theorem textVal_label (v : View) (ri : Nat) (row : Bytes × List (Option DataCell))
    (hrow : v.rows[ri]? = some row) :
    textVal (textCells v) (levelCount (v.nfields + 1) (newKeyHeader v.colKeys v.nfields) + 1 + ri) 0 = row.1 := by
  apply textVal_of
  · intro x hx hr hc
    rcases textCells_row_mem v ri row hrow x hx hr with h | ⟨wl', h⟩
    · rw [h, mkCell_value]
    · exfalso
      obtain ⟨i, c, wl'', j, _, _, _, h4, _⟩ := placedRow_cols _ _ _ _ x h
      have : 1 ≤ textStartCol (0 + i) := by unfold textStartCol; split <;> omega
      omega
  · have hin := (rowsPlaced_of v.rows (levelCount (v.nfields + 1) (newKeyHeader v.colKeys v.nfields) + 1) [] ri row hrow).1
    refine ⟨_, ?_, (mkCell_geom _ 0 row.1 []).1, (mkCell_geom _ 0 row.1 []).2.1⟩
    unfold textCells
    simp only [List.mem_append]
    exact Or.inl (Or.inr hin)

/-- the text shows, in slot `j` of column group `exp` of measurement row `ri`, exactly what the view
prescribes — for present cells, absent cells and cells without a comparison alike -/
theorem textVal_slot (v : View) (ri : Nat) (row : Bytes × List (Option DataCell))
    (hrow : v.rows[ri]? = some row) (exp j : Nat) (hj : j = 0 ∨ j = 1 ∨ j = 3 ∨ j = 4)
    (hgw : j < textGroupWidth exp) :
    textVal (textCells v) (levelCount (v.nfields + 1) (newKeyHeader v.colKeys v.nfields) + 1 + ri)
      (textStartCol exp + j) = textSlot (row.2.getD exp none) exp j := by
  -- every cell of the row at that position is slot j of the view cell at exp
  have hall : ∀ x ∈ textCells v,
      x.row = levelCount (v.nfields + 1) (newKeyHeader v.colKeys v.nfields) + 1 + ri →
      x.col = textStartCol exp + j →
      ∃ c wl', row.2[exp]? = some (some c) ∧ j < (cellStrings wl' exp c).length ∧
        x.value = ((cellStrings wl' exp c).getD j ([], [])).1 := by
    intro x hx hr hc
    rcases textCells_row_mem v ri row hrow x hx hr with h | ⟨wl', h⟩
    · exfalso
      have := (mkCell_geom x.row 0 row.1 []).2.1
      rw [← h] at this
      have h1 : 1 ≤ textStartCol exp := by unfold textStartCol; split <;> omega
      omega
    · obtain ⟨i, c, wl'', j', h1, h2, _, h4, h5⟩ := placedRow_cols _ _ _ _ x h
      simp only [Nat.zero_add] at h1 h2 h4 h5
      have hlen := cellStrings_length wl'' i c
      have := group_unique i exp j' j (by omega) hgw (by omega)
      obtain ⟨rfl, rfl⟩ := this
      exact ⟨c, wl'', h1, h2, h5⟩
  cases hoc : row.2[exp]? with
  | none =>
    have : row.2.getD exp none = none := by simp [List.getD_eq_getElem?_getD, hoc]
    rw [this]
    apply textVal_none
    intro x hx ⟨hr, hc⟩
    obtain ⟨c, _, h1, _, _⟩ := hall x hx hr hc
    rw [hoc] at h1; cases h1
  | some oc =>
    have hget : row.2.getD exp none = oc := by simp [List.getD_eq_getElem?_getD, hoc]
    rw [hget]
    cases oc with
    | none =>
      apply textVal_none
      intro x hx ⟨hr, hc⟩
      obtain ⟨c, _, h1, _, _⟩ := hall x hx hr hc
      rw [hoc] at h1; cases h1
    | some c =>
      obtain ⟨wl0, hmem⟩ := placedRow_mem (levelCount (v.nfields + 1) (newKeyHeader v.colKeys v.nfields) + 1 + ri)
        row.2 [] 0 exp c hoc
      by_cases hlt : j < (cellStrings wl0 exp c).length
      · apply textVal_of
        · intro x hx hr hc
          obtain ⟨c', wl', h1, h2, h3⟩ := hall x hx hr hc
          rw [hoc] at h1; cases h1
          rw [h3]; exact (cellStrings_slot wl' exp c j hj).1 h2
        · -- existence: the placed cell of slot j
          obtain ⟨x, hx, h1, h2⟩ := placed_mem_of
            (levelCount (v.nfields + 1) (newKeyHeader v.colKeys v.nfields) + 1 + ri)
            (cellStrings wl0 exp c) (textStartCol exp) j hlt
          obtain ⟨_, wl1, hsub⟩ := rowsPlaced_of v.rows
            (levelCount (v.nfields + 1) (newKeyHeader v.colKeys v.nfields) + 1) [] ri row hrow
          -- the row's cells sit in rowsPlaced with SOME warning list; redo membership with that list
          obtain ⟨wl2, hmem2⟩ := placedRow_mem (levelCount (v.nfields + 1) (newKeyHeader v.colKeys v.nfields) + 1 + ri)
            row.2 wl1 0 exp c hoc
          have hlen2 : j < (cellStrings wl2 exp c).length := by
            have a := cellStrings_slot wl2 exp c j hj
            have b := cellStrings_slot wl0 exp c j hj
            rcases Nat.lt_or_ge j (cellStrings wl2 exp c).length with h | h
            · exact h
            · exfalso
              -- the length of cellStrings does not depend on the warning list
              have : (cellStrings wl2 exp c).length = (cellStrings wl0 exp c).length := by
                unfold cellStrings; simp only
                cases (if exp > 0 then c.delta else none) <;> simp
              omega
          obtain ⟨y, hy, g1, g2⟩ := placed_mem_of
            (levelCount (v.nfields + 1) (newKeyHeader v.colKeys v.nfields) + 1 + ri)
            (cellStrings wl2 exp c) (textStartCol exp) j hlen2
          refine ⟨y, ?_, g1, g2⟩
          unfold textCells
          simp only [List.mem_append]
          refine Or.inl (Or.inr (hsub y ?_))
          simp only [Nat.zero_add] at hmem2
          exact hmem2 y hy
      · rw [(cellStrings_slot wl0 exp c j hj).2 hlt]
        apply textVal_none
        intro x hx ⟨hr, hc⟩
        obtain ⟨c', wl', h1, h2, _⟩ := hall x hx hr hc
        rw [hoc] at h1; cases h1
        have : (cellStrings wl' exp c).length = (cellStrings wl0 exp c).length := by
          unfold cellStrings; simp only
          cases (if exp > 0 then c.delta else none) <;> simp
        omega

/-! ### decoding one slot of the CSV -/

/-- what the view prescribes for field `j` (0 centre, 1 CI, 2 delta, 3 P) of logical column `exp` -/
def csvSlot (oc : Option DataCell) (exp j : Nat) : Bytes :=
  match oc with
  | none => []
  | some c => (csvStrings exp c).getD j []

theorem csvStrings_length (exp : Nat) (c : DataCell) : (csvStrings exp c).length ≤ csvGroupWidth exp := by
  unfold csvStrings csvGroupWidth
  by_cases h : exp > 0
  · have h0 : (exp == 0) = false := by simp; omega
    simp only [h, if_true, h0]
    cases c.delta <;> simp
  · have h0 : exp = 0 := by omega
    subst h0; simp

/-- the record ToCSV builds for a measurement row, slot by slot: present cells show their strings,
absent cells and cells without comparison leave their fields blank (or beyond the record's end),
nothing is overwritten -/
theorem csvDataCols_slots (rowNo : Nat) : ∀ (cells : List (Option DataCell)) (row w : List Bytes) (exp : Nat),
    row.length ≤ csvStartCol exp →
    (∀ j, j < row.length → (csvDataCols rowNo row w exp cells).1.getD j [] = row.getD j []) ∧
    (∀ j, row.length ≤ j → (j < csvStartCol exp ∨ csvStartCol (exp + cells.length) ≤ j) →
      (csvDataCols rowNo row w exp cells).1.getD j [] = []) ∧
    ∀ i, i < cells.length → ∀ j, j < csvGroupWidth (exp + i) →
      (csvDataCols rowNo row w exp cells).1.getD (csvStartCol (exp + i) + j) [] =
        csvSlot (cells.getD i none) (exp + i) j := by
  intro cells
  induction cells with
  | nil =>
    intro row w exp _
    refine ⟨fun _ _ => rfl, ?_, fun i hi => by simp at hi⟩
    intro j hj _
    simp only [csvDataCols, List.getD_eq_getElem?_getD, List.getElem?_eq_none hj, Option.getD_none]
  | cons oc rest ih =>
    intro row w exp hlen
    have hsucc := csvStartCol_succ exp
    cases oc with
    | none =>
      have hle : csvStartCol exp ≤ csvStartCol (exp + 1) := csvStartCol_mono (Nat.le_succ exp)
      have := ih row w (exp + 1) (Nat.le_trans hlen hle)
      refine ⟨by simpa [csvDataCols] using this.1, ?_, ?_⟩
      · intro j h1 h2
        have := this.2.1 j h1 (by
          rcases h2 with h2 | h2
          · exact Or.inl (by omega)
          · right; simp only [List.length_cons] at h2; rw [show exp + 1 + rest.length = exp + (rest.length + 1) by omega]; exact h2)
        simpa [csvDataCols] using this
      · intro i hi j hj
        cases i with
        | zero =>
          simp only [Nat.add_zero] at hj ⊢
          have := this.2.1 (csvStartCol exp + j) (by omega) (Or.inl (by omega))
          simpa [csvDataCols, csvSlot] using this
        | succ i =>
          have h2 := this.2.2 i (by simpa using hi) j (by rw [show exp + 1 + i = exp + (i + 1) by omega]; exact hj)
          rw [show exp + 1 + i = exp + (i + 1) by omega] at h2
          simpa [csvDataCols] using h2
    | some c0 =>
      have hl1 := clearTo_length row (csvStartCol exp) hlen
      obtain ⟨row3, w3, hdef, hrow3⟩ : ∃ row3 w3,
          csvDataCols rowNo row w exp (some c0 :: rest) = csvDataCols rowNo row3 w3 (exp + 1) rest ∧
          row3 = clearTo row (csvStartCol exp) ++ csvStrings exp c0 := by
        unfold csvStrings
        simp only [csvDataCols]
        split
        · rename_i d hd
          exact ⟨_, _, rfl, by simp [hd]⟩
        · rename_i hd
          exact ⟨_, _, rfl, by simp [hd]⟩
      have hslen := csvStrings_length exp c0
      have hl3' : row3.length = csvStartCol exp + (csvStrings exp c0).length := by
        rw [hrow3, List.length_append, hl1]
      have hl3 : row3.length ≤ csvStartCol (exp + 1) := by omega
      have hih := ih row3 w3 (exp + 1) hl3
      rw [hdef]
      refine ⟨?_, ?_, ?_⟩
      · intro j hj
        rw [hih.1 j (by omega), hrow3, getD_append_left _ _ _ (by omega)]
        unfold clearTo
        exact getD_append_left _ _ _ hj
      · intro j h1 h2
        rcases h2 with h2 | h2
        · rw [hih.1 j (by omega), hrow3, getD_append_left _ _ _ (by omega)]
          exact getD_clearTo_gap row _ j h1
        · apply hih.2.1 j
          · have : csvStartCol (exp + 1) ≤ csvStartCol (exp + (rest.length + 1)) := csvStartCol_mono (by omega)
            simp only [List.length_cons] at h2
            omega
          · right; simp only [List.length_cons] at h2; rw [show exp + 1 + rest.length = exp + (rest.length + 1) by omega]; exact h2
      · intro i hi j hj
        cases i with
        | zero =>
          simp only [Nat.add_zero] at hj ⊢
          simp only [List.getD_cons_zero, csvSlot]
          by_cases hjt : j < (csvStrings exp c0).length
          · rw [hih.1 _ (by omega), hrow3]
            have := getD_append_right (clearTo row (csvStartCol exp)) (csvStrings exp c0) j
            rw [hl1] at this
            exact this
          · rw [hih.2.1 _ (by omega) (Or.inl (by omega))]
            simp only [List.getD_eq_getElem?_getD, List.getElem?_eq_none (Nat.le_of_not_lt hjt), Option.getD_none]
        | succ i =>
          have h2 := hih.2.2 i (by simpa using hi) j (by rw [show exp + 1 + i = exp + (i + 1) by omega]; exact hj)
          rw [show exp + 1 + i = exp + (i + 1) by omega] at h2
          simpa using h2

theorem csvDataCols_fst_indep : ∀ (cells : List (Option DataCell)) (n : Nat) (row w : List Bytes) (e : Nat),
    (csvDataCols n row w e cells).1 = (csvDataCols 0 row [] e cells).1 := by
  intro cells
  induction cells with
  | nil => intro n row w e; rfl
  | cons oc rest ih =>
    intro n row w e
    cases oc with
    | none => simpa [csvDataCols] using ih n row w (e + 1)
    | some c =>
      simp only [csvDataCols]
      split <;> (rw [ih]; conv => rhs; rw [ih])

theorem csvSumCols_fst_indep : ∀ (sums : List (Option SumCell)) (n : Nat) (row w : List Bytes) (e : Nat),
    (csvSumCols n row w e sums).1 = (csvSumCols 0 row [] e sums).1 := by
  intro sums
  induction sums with
  | nil => intro n row w e; rfl
  | cons oc rest ih =>
    intro n row w e
    cases oc with
    | none => simpa [csvSumCols] using ih n row w (e + 1)
    | some s =>
      simp only [csvSumCols]
      rw [ih]; conv => rhs; rw [ih]

/-- the record of measurement row `r` -/
def csvRowRec (r : Bytes × List (Option DataCell)) : List Bytes := (csvDataCols 0 [r.1] [] 0 r.2).1

theorem emit_fold_recs (g : Nat → List Bytes) : ∀ (l : List Nat) (st : CsvSt),
    (l.foldl (fun st k => st.emit (g k)) st).recs = st.recs ++ l.map g := by
  intro l
  induction l with
  | nil => intro st; simp
  | cons k rest ih => intro st; simp only [List.foldl_cons, ih]; simp [CsvSt.emit]

theorem rows_fold_recs (startRow : Nat) : ∀ (rows : List (Bytes × List (Option DataCell))) (st : CsvSt),
    (rows.foldl (fun (st : CsvSt) r =>
      let (row, w) := csvDataCols (startRow + st.rowCount) [r.1] [] 0 r.2
      { (st.emit row) with warn := st.warn ++ w }) st).recs = st.recs ++ rows.map csvRowRec := by
  intro rows
  induction rows with
  | nil => intro st; simp
  | cons r rest ih =>
    intro st
    simp only [List.foldl_cons]
    rw [ih]
    simp only [CsvSt.emit, List.map_cons, csvRowRec]
    rw [csvDataCols_fst_indep r.2 (startRow + st.rowCount) [r.1] [] 0]
    simp

/-- all records of a table: one per column-key field, the unit record, one per measurement row,
the summary record -/
theorem toCsv_recs (v : View) (startRow : Nat) :
    (toCsv v startRow).recs =
      (List.range v.nfields).map (csvHeaderRow v.colKeys) ++ [csvUnitRow v.ncols v.unit] ++
      v.rows.map csvRowRec ++ [(csvSumCols 0 [v.summaryLabel] [] 0 v.summary).1] := by
  unfold toCsv
  simp only
  rw [show ∀ (st : CsvSt) (row w : List Bytes), ({ (st.emit row) with warn := w } : CsvSt).recs = st.recs ++ [row]
    from fun st row w => rfl]
  rw [rows_fold_recs]
  rw [show ∀ (st : CsvSt) (row : List Bytes), (st.emit row).recs = st.recs ++ [row] from fun st row => rfl]
  rw [emit_fold_recs]
  rw [csvSumCols_fst_indep]
  simp

/-! ### the two decodings -/

structure Entry where
  centre : Bytes
  range : Bytes
  delta : Bytes
  p : Bytes
  deriving DecidableEq, Repr

/-- drop the parentheses ToText puts around the p-value string -/
def stripParens : Bytes → Bytes
  | 0x28 :: rest => rest.dropLast
  | b => b

theorem stripParens_paren (p : Bytes) : stripParens ([0x28] ++ p ++ [0x29]) = p := by
  simp [stripParens]

/-- read (label, entry) of measurement row `ri`, logical column `exp` off the texttab cells;
`R` = number of header rows -/
def decodeTextLabel (cells : List Cell) (R ri : Nat) : Bytes := textVal cells (R + 1 + ri) 0

def decodeText (cells : List Cell) (R ri exp : Nat) : Entry :=
  { centre := textVal cells (R + 1 + ri) (textStartCol exp)
    range := textVal cells (R + 1 + ri) (textStartCol exp + 1)
    delta := if exp > 0 then textVal cells (R + 1 + ri) (textStartCol exp + 3) else []
    p := if exp > 0 then stripParens (textVal cells (R + 1 + ri) (textStartCol exp + 4)) else [] }

/-- the same off the CSV records; `nf` = number of column-key fields (header records) -/
def decodeCsvLabel (recs : List (List Bytes)) (nf ri : Nat) : Bytes := (recs.getD (nf + 1 + ri) []).getD 0 []

def decodeCsv (recs : List (List Bytes)) (nf ri exp : Nat) : Entry :=
  let rcd := recs.getD (nf + 1 + ri) []
  { centre := rcd.getD (csvStartCol exp) []
    range := rcd.getD (csvStartCol exp + 1) []
    delta := if exp > 0 then rcd.getD (csvStartCol exp + 2) [] else []
    p := if exp > 0 then rcd.getD (csvStartCol exp + 3) [] else [] }

/-- the entry of the VIEW at a (row, column), with the text's resp. the CSV's spelling of the centre -/
def viewEntry (text : Bool) (oc : Option DataCell) (exp : Nat) : Entry :=
  match oc with
  | none => ⟨[], [], [], []⟩
  | some c =>
    match (if exp > 0 then c.delta else none) with
    | some d => ⟨if text then c.centerText else c.centerCsv, c.range, d.delta, d.p⟩
    | none => ⟨if text then c.centerText else c.centerCsv, c.range, [], []⟩

theorem textSlot_entry (oc : Option DataCell) (exp : Nat) :
    textSlot oc exp 0 = (viewEntry true oc exp).centre ∧ textSlot oc exp 1 = (viewEntry true oc exp).range ∧
    (exp > 0 → textSlot oc exp 3 = (viewEntry true oc exp).delta ∧
      stripParens (textSlot oc exp 4) = (viewEntry true oc exp).p) := by
  unfold textSlot viewEntry
  cases oc with
  | none => simp [stripParens]
  | some c =>
    simp only
    cases hd : (if exp > 0 then c.delta else none) with
    | none => simp [stripParens]
    | some d =>
      refine ⟨by simp, by simp, fun _ => ⟨by simp, ?_⟩⟩
      simp only [show (4 : Nat) ≠ 0 by decide, show (4 : Nat) ≠ 1 by decide, show (4 : Nat) ≠ 3 by decide, if_false, if_true]
      exact stripParens_paren d.p

theorem csvSlot_entry (oc : Option DataCell) (exp : Nat) :
    csvSlot oc exp 0 = (viewEntry false oc exp).centre ∧ csvSlot oc exp 1 = (viewEntry false oc exp).range ∧
    (exp > 0 → csvSlot oc exp 2 = (viewEntry false oc exp).delta ∧ csvSlot oc exp 3 = (viewEntry false oc exp).p) := by
  unfold csvSlot viewEntry csvStrings
  cases oc with
  | none => simp
  | some c =>
    simp only
    cases hd : (if exp > 0 then c.delta else none) <;> simp

end C16
