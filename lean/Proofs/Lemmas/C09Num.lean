/-
Helper lemmas for C09 `parseNum_spec_order`: the lexicographic order on (class, exact rational
value) ranks is a strict total order, so the comparator it induces is the sign function of a
strict weak order.
-/
import Model.Spec.ParseNum
import Proofs.Lemmas.C09Order

namespace C09
open Proc.Sort

theorem rat_lt_asymm {a b : Rat} (h : a < b) : ¬ b < a := by
  intro h'
  have h1 := Rat.lt_iff_le_and_ne.mp h
  have h2 := Rat.le_of_lt h'
  exact h1.2 (Rat.le_antisymm h1.1 h2)

theorem rat_lt_trans {a b c : Rat} (h1 : a < b) (h2 : b < c) : a < c := by
  apply Classical.byContradiction
  intro hn
  have hca : c ≤ a := Rat.not_lt.mp hn
  have hcb : c ≤ b := Rat.le_trans hca (Rat.le_of_lt h1)
  exact (Rat.not_lt.mpr hcb) h2

theorem rat_eq_of_not_lt {a b : Rat} (h1 : ¬ a < b) (h2 : ¬ b < a) : a = b :=
  Rat.le_antisymm (Rat.not_lt.mp h2) (Rat.not_lt.mp h1)

/-- Lexicographic order on (class, value). -/
def lexLt (x y : Nat × Rat) : Prop := x.1 < y.1 ∨ (x.1 = y.1 ∧ x.2 < y.2)

instance (x y : Nat × Rat) : Decidable (lexLt x y) := by unfold lexLt; exact inferInstance

theorem lexLt_irrefl (x : Nat × Rat) : ¬ lexLt x x := by
  rintro (h | ⟨_, h⟩)
  · omega
  · exact Rat.lt_irrefl h

theorem lexLt_trans {x y z : Nat × Rat} (h1 : lexLt x y) (h2 : lexLt y z) : lexLt x z := by
  rcases h1 with h1 | ⟨e1, h1⟩ <;> rcases h2 with h2 | ⟨e2, h2⟩
  · exact Or.inl (by omega)
  · exact Or.inl (by omega)
  · exact Or.inl (by omega)
  · exact Or.inr ⟨e1.trans e2, rat_lt_trans h1 h2⟩

theorem lexLt_asymm {x y : Nat × Rat} (h : lexLt x y) : ¬ lexLt y x :=
  fun h' => lexLt_irrefl x (lexLt_trans h h')

theorem lexLt_eq_of_not {x y : Nat × Rat} (h1 : ¬ lexLt x y) (h2 : ¬ lexLt y x) : x = y := by
  unfold lexLt at h1 h2
  have e1 : x.1 = y.1 := by
    rcases Nat.lt_trichotomy x.1 y.1 with h | h | h
    · exact absurd (Or.inl h) h1
    · exact h
    · exact absurd (Or.inl h) h2
  have e2 : x.2 = y.2 :=
    rat_eq_of_not_lt (fun h => h1 (Or.inr ⟨e1, h⟩)) (fun h => h2 (Or.inr ⟨e1.symm, h⟩))
  exact Prod.ext e1 e2

/-- The comparator induced by a rank into (class, exact value). -/
def cmpByRank (rk : Bytes → Nat × Rat) (a b : Bytes) : Int :=
  if lexLt (rk a) (rk b) then -1 else if lexLt (rk b) (rk a) then 1 else 0

theorem cmpByRank_weak (rk : Bytes → Nat × Rat) : SignOfWeakOrder (cmpByRank rk) where
  refl := by
    intro a; unfold cmpByRank
    simp [lexLt_irrefl]
  antisymm := by
    intro a b; unfold cmpByRank
    by_cases h1 : lexLt (rk a) (rk b)
    · have h2 := lexLt_asymm h1
      simp [h1, h2]
    · by_cases h2 : lexLt (rk b) (rk a) <;> simp [h1, h2]
  trans := by
    intro a b c; unfold cmpByRank
    by_cases h1 : lexLt (rk a) (rk b)
    · by_cases h2 : lexLt (rk b) (rk c)
      · have := lexLt_trans h1 h2
        simp [this]
      · by_cases h3 : lexLt (rk c) (rk b) <;> simp [h2, h3]
    · by_cases h3 : lexLt (rk b) (rk a) <;> simp [h1, h3]
  eq_trans := by
    intro a b c; unfold cmpByRank
    by_cases h1 : lexLt (rk a) (rk b)
    · simp [h1]
    · by_cases h2 : lexLt (rk b) (rk a)
      · simp [h1, h2]
      · have e1 := lexLt_eq_of_not h1 h2
        by_cases h3 : lexLt (rk b) (rk c)
        · simp [h3]
        · by_cases h4 : lexLt (rk c) (rk b)
          · simp [h3, h4]
          · have e2 := lexLt_eq_of_not h3 h4
            rw [e1, e2]
            simp [lexLt_irrefl]

end C09
