/-
C11: composition of the pieces — the two-sided exact formula against the specification for a
symmetric null distribution, the untied CDF of the model as the distribution function of the
enumeration, and the end-to-end statements for untied samples.

(`C11Rank` is not needed here; the few `twoUPairs` facts used are proved locally with a `_c` suffix.)
-/
import Model.Stats.UDist
import Model.Stats.UStat
import Model.Spec.UExact
import Proofs.Lemmas.C11Basic
import Proofs.Lemmas.C11PFormulas
import Proofs.Lemmas.C11Untied
import Mathlib.Data.List.Basic
import Mathlib.Data.Nat.Choose.Basic
import Mathlib.Algebra.Order.Field.Rat
import Mathlib.Algebra.BigOperators.Group.Finset.Basic
import Mathlib.Algebra.BigOperators.Intervals
import Mathlib.Algebra.BigOperators.Field
import Mathlib.Tactic.Ring
import Mathlib.Tactic.Linarith
import Mathlib.Tactic.FieldSimp

namespace C11
open Stats Stats.UStat Stats.UDist Spec.UExact

/-! ### counting in lists -/

theorem filter_length_mono {β : Type} (p q : β → Bool) (l : List β) (h : ∀ x, p x = true → q x = true) :
    (l.filter p).length ≤ (l.filter q).length := by
  rw [← List.countP_eq_length_filter, ← List.countP_eq_length_filter]
  exact List.countP_mono_left (fun x _ => h x)

theorem filter_length_disjoint {β : Type} (p q : β → Bool) (l : List β)
    (h : ∀ x, p x = true → q x = true → False) :
    (l.filter p).length + (l.filter q).length ≤ l.length := by
  induction l with
  | nil => simp
  | cons a l ih =>
    simp only [List.filter_cons, List.length_cons]
    cases hp : p a <;> cases hq : q a <;> simp <;> first | omega | exact (h a hp hq).elim

theorem filter_length_cover {β : Type} (p q : β → Bool) (l : List β)
    (h : ∀ x, p x = true ∨ q x = true) :
    l.length ≤ (l.filter p).length + (l.filter q).length := by
  induction l with
  | nil => simp
  | cons a l ih =>
    simp only [List.filter_cons, List.length_cons]
    cases hp : p a <;> cases hq : q a <;> simp <;> first | omega | (have := h a; simp [hp, hq] at this)

/-! ### goal 1: the two-sided formula for a symmetric null distribution -/

theorem ratMin_one_of_le {x : Rat} (h : x ≤ 1) : ratMin 1 x = x := by
  unfold ratMin
  split
  · linarith
  · rfl

theorem ratMin_one_of_ge {x : Rat} (h : 1 ≤ x) : ratMin 1 x = 1 := by
  unfold ratMin
  rw [if_pos h]

theorem ratMin_left {x y : Rat} (h : x ≤ y) : ratMin x y = x := by
  unfold ratMin
  rw [if_pos h]

theorem ratMin_right {x y : Rat} (h : y ≤ x) : ratMin x y = y := by
  unfold ratMin
  split
  · linarith
  · rfl

theorem exactP_differs (cdf : Int → Rat) (a b : Int) :
    exactP cdf .differs a b = if a = b then 1 else cdf (min a b) * 2 := rfl

/-- The symmetry hypothesis `hsym` is the one of the task statement: for every `v` there are as
    many values `≤ v` as values `d` with `d + v ≥ c` (i.e. `d ≥ c − v`). -/
theorem two_sided_spec_partial (cdf : Int → Rat) (dist : List Nat) (c : Nat)
    (h : IsCDFOf cdf dist) (hne : dist ≠ [])
    (hsym : ∀ v : Nat, (dist.filter (· ≤ v)).length = (dist.filter (fun d => decide (d + v ≥ c))).length)
    (u : Nat) (hu : u ≤ c) :
    Stats.UStat.exactP cdf .differs (u : Int) ((c : Int) - u) = Spec.UExact.pTwoSided dist u := by
  have hN : (0 : Rat) < ((dist.length : Nat) : Rat) := by
    have : dist.length ≠ 0 := by simpa using hne
    exact_mod_cast Nat.pos_of_ne_zero this
  -- the value of the cdf at a natural argument
  have hcdf : ∀ v : Nat, cdf (v : Int)
      = (((dist.filter (· ≤ v)).length : Nat) : Rat) / ((dist.length : Nat) : Rat) := by
    intro v
    rw [h]
    have e : (dist.filter fun (d : Nat) => decide ((d : Int) ≤ (v : Int))) = dist.filter (· ≤ v) := by
      apply List.filter_congr
      intro d _
      simp
    rw [e]
  -- G (c − v) = L v
  have hG : ∀ v : Nat, v ≤ c →
      (dist.filter (· ≤ v)).length = (dist.filter (· ≥ c - v)).length := by
    intro v hv
    rw [hsym v]
    congr 1
    apply List.filter_congr
    intro d _
    have : (d + v ≥ c) ↔ (d ≥ c - v) := by omega
    exact decide_eq_decide.2 this
  rw [exactP_differs]
  unfold pTwoSided pLess pGreater
  rcases Nat.lt_trichotomy u (c - u) with hlt | heq | hgt
  · -- u < c − u
    rw [if_neg (by omega), min_eq_left (by omega), hcdf u]
    have h1 : (dist.filter (· ≤ u)).length ≤ (dist.filter (· ≥ u)).length := by
      rw [hG u hu]
      apply filter_length_mono
      intro x hx
      simp only [decide_eq_true_eq] at hx ⊢
      omega
    have h2 : (dist.filter (· ≤ u)).length + (dist.filter (· ≤ u)).length ≤ dist.length := by
      have hd := filter_length_disjoint (· ≤ u) (· ≥ c - u) dist (by
        intro x hx hy
        simp only [decide_eq_true_eq] at hx hy
        omega)
      have := hG u hu
      omega
    have h1' : (((dist.filter (· ≤ u)).length : Nat) : Rat) / ((dist.length : Nat) : Rat)
        ≤ (((dist.filter (· ≥ u)).length : Nat) : Rat) / ((dist.length : Nat) : Rat) := by
      rw [div_le_div_iff_of_pos_right hN]
      exact_mod_cast h1
    have h2' : 2 * ((((dist.filter (· ≤ u)).length : Nat) : Rat) / ((dist.length : Nat) : Rat)) ≤ 1 := by
      rw [← mul_div_assoc, div_le_iff₀ hN, one_mul]
      have : (2 : Rat) * (((dist.filter (· ≤ u)).length : Nat) : Rat)
          = (((dist.filter (· ≤ u)).length + (dist.filter (· ≤ u)).length : Nat) : Rat) := by
        push_cast; ring
      rw [this]
      exact_mod_cast h2
    rw [ratMin_left h1', ratMin_one_of_le h2', mul_comm]
  · -- u = c − u
    rw [if_pos (by omega)]
    have h1 : (dist.filter (· ≤ u)).length = (dist.filter (· ≥ u)).length := by
      rw [hG u hu, ← heq]
    have h2 : dist.length ≤ (dist.filter (· ≤ u)).length + (dist.filter (· ≤ u)).length := by
      have hd := filter_length_cover (· ≤ u) (· ≥ u) dist (by
        intro x
        simp only [decide_eq_true_eq]
        omega)
      omega
    rw [← h1, ratMin_left (le_refl _)]
    rw [ratMin_one_of_ge]
    rw [← mul_div_assoc, le_div_iff₀ hN, one_mul]
    have : (2 : Rat) * (((dist.filter (· ≤ u)).length : Nat) : Rat)
        = (((dist.filter (· ≤ u)).length + (dist.filter (· ≤ u)).length : Nat) : Rat) := by
      push_cast; ring
    rw [this]
    exact_mod_cast h2
  · -- u > c − u
    rw [if_neg (by omega), min_eq_right (by omega)]
    have ecu : (c : Int) - (u : Int) = ((c - u : Nat) : Int) := by omega
    rw [ecu, hcdf (c - u)]
    have e : (dist.filter (· ≤ c - u)).length = (dist.filter (· ≥ u)).length := by
      rw [hG (c - u) (by omega)]
      have : c - (c - u) = u := by omega
      rw [this]
    rw [e]
    have h1 : (dist.filter (· ≥ u)).length ≤ (dist.filter (· ≤ u)).length := by
      rw [← e]
      apply filter_length_mono
      intro x hx
      simp only [decide_eq_true_eq] at hx ⊢
      omega
    have h2 : (dist.filter (· ≥ u)).length + (dist.filter (· ≥ u)).length ≤ dist.length := by
      have hd := filter_length_disjoint (· ≤ c - u) (· ≥ u) dist (by
        intro x hx hy
        simp only [decide_eq_true_eq] at hx hy
        omega)
      omega
    have h1' : (((dist.filter (· ≥ u)).length : Nat) : Rat) / ((dist.length : Nat) : Rat)
        ≤ (((dist.filter (· ≤ u)).length : Nat) : Rat) / ((dist.length : Nat) : Rat) := by
      rw [div_le_div_iff_of_pos_right hN]
      exact_mod_cast h1
    have h2' : 2 * ((((dist.filter (· ≥ u)).length : Nat) : Rat) / ((dist.length : Nat) : Rat)) ≤ 1 := by
      rw [← mul_div_assoc, div_le_iff₀ hN, one_mul]
      have : (2 : Rat) * (((dist.filter (· ≥ u)).length : Nat) : Rat)
          = (((dist.filter (· ≥ u)).length + (dist.filter (· ≥ u)).length : Nat) : Rat) := by
        push_cast; ring
      rw [this]
      exact_mod_cast h2
    rw [ratMin_right h1', ratMin_one_of_le h2', mul_comm]

/-! ### goal 2: the untied CDF of the model is the distribution function of the enumeration -/

theorem countP_or_disjoint {β : Type} (p q r : β → Bool) (l : List β)
    (hr : ∀ x, r x = (p x || q x)) (hd : ∀ x, p x = true → q x = true → False) :
    l.countP r = l.countP p + l.countP q := by
  induction l with
  | nil => simp
  | cons a l ih =>
    simp only [List.countP_cons, ih, hr a]
    cases hp : p a <;> cases hq : q a <;> simp <;> first | omega | exact (hd a hp hq).elim

/-- the number of values among `0, 2, …, 2(K−1)` -/
theorem sum_countP_even (l : List Nat) (K : Nat) :
    ∑ w ∈ Finset.range K, l.countP (fun (x : Nat) => decide ((x : Int) = 2 * ((w : Nat) : Int)))
      = l.countP (fun d => decide (d % 2 = 0 ∧ d < 2 * K)) := by
  induction K with
  | zero =>
    simp
  | succ K ih =>
    rw [Finset.sum_range_succ, ih]
    symm
    apply countP_or_disjoint
    · intro x
      by_cases h1 : x % 2 = 0 ∧ x < 2 * K
      · have : x % 2 = 0 ∧ x < 2 * (K + 1) := ⟨h1.1, by omega⟩
        simp [h1, this]
      · by_cases h2 : (x : Int) = 2 * ((K : Nat) : Int)
        · have : x % 2 = 0 ∧ x < 2 * (K + 1) := by omega
          simp [h2, this]
        · have : ¬ (x % 2 = 0 ∧ x < 2 * (K + 1)) := by omega
          simp [h1, h2, this]
    · intro x hx hy
      simp only [decide_eq_true_eq] at hx hy
      omega

section UntiedDist
variable {α : Type} [LinearOrder α]

theorem nullDistOf_length (n m : Nat) (pool : List α) (hlen : pool.length = n + m) :
    (nullDistOf n pool).length = Nat.choose (n + m) n := by
  unfold nullDistOf
  rw [List.length_map, splits_length, hlen]

theorem nullDistOf_ne_nil (n m : Nat) (pool : List α) (hlen : pool.length = n + m) :
    nullDistOf n pool ≠ [] := by
  intro h
  have := nullDistOf_length n m pool hlen
  rw [h] at this
  exact Nat.choose_ne_zero (Nat.le_add_right n m) this.symm

/-- prefix sums of the recurrence, multiplied by the number of assignments, count the even
    values below a bound -/
theorem pRec_prefix_count (n m : Nat) (pool : List α) (hlen : pool.length = n + m)
    (hdesc : pool.Pairwise (· > ·)) (K : Nat) :
    (∑ w ∈ Finset.range K, pRec n m (w : Int)) * (Nat.choose (n + m) n : Rat)
      = (((nullDistOf n pool).countP (fun d => decide (d % 2 = 0 ∧ d < 2 * K)) : Nat) : Rat) := by
  rw [← sum_countP_even, Finset.sum_mul, Nat.cast_sum]
  apply Finset.sum_congr rfl
  intro w _
  rw [pRec_mul_choose_eq_cntSpec pool n m hlen hdesc]
  rfl

/-- for a pool of pairwise distinct values every value of the doubled statistic is even and at
    most `2·n·m` -/
theorem nullDistOf_even_le (n m : Nat) (pool : List α) (hlen : pool.length = n + m)
    (hdesc : pool.Pairwise (· > ·)) :
    ∀ d ∈ nullDistOf n pool, d % 2 = 0 ∧ d ≤ 2 * (n * m) := by
  have h := pRec_prefix_count n m pool hlen hdesc (n * m + 1)
  rw [pmf_sums_to_one_untied, one_mul] at h
  have h' : (nullDistOf n pool).countP (fun d => decide (d % 2 = 0 ∧ d < 2 * (n * m + 1)))
      = (nullDistOf n pool).length := by
    rw [nullDistOf_length n m pool hlen]
    exact_mod_cast h.symm
  rw [List.countP_eq_length] at h'
  intro d hd
  have := h' d hd
  simp only [decide_eq_true_eq] at this
  omega

theorem untied_cdf_is_cdf (n m : Nat) (T : List Nat) (hT : Stats.UDist.hasTies T = false)
    (pool : List α) (hlen : pool.length = n + m) (hdesc : pool.Pairwise (· > ·)) :
    IsCDFOf (Stats.UDist.cdfPure n m T) (Spec.UExact.nullDistOf n pool) := by
  intro v
  have hev := nullDistOf_even_le n m pool hlen hdesc
  have hL := nullDistOf_length n m pool hlen
  have hC : ((Nat.choose (n + m) n : Nat) : Rat) ≠ 0 := choose_cast_ne_zero n m
  rw [hL]
  by_cases h0 : v < 0
  · have e : (nullDistOf n pool).filter (fun (d : Nat) => decide ((d : Int) ≤ v)) = [] := by
      rw [List.filter_eq_nil_iff]
      intro d _
      have : ¬ ((d : Int) ≤ v) := by omega
      simpa using this
    rw [e]
    unfold cdfPure cdfWith
    rw [if_pos h0]
    simp
  · by_cases h1 : v ≥ 2 * ((n * m : Nat) : Int)
    · have e : (nullDistOf n pool).filter (fun (d : Nat) => decide ((d : Int) ≤ v))
          = nullDistOf n pool := by
        rw [List.filter_eq_self]
        intro d hd
        have := (hev d hd).2
        have : (d : Int) ≤ v := by push_cast at h1; omega
        simpa using this
      rw [e, hL]
      unfold cdfPure cdfWith
      rw [if_neg h0, if_pos h1, div_self hC]
    · rw [cdfPure_untied_pRec n m T hT v (by omega) (by omega), eq_div_iff hC,
        pRec_prefix_count n m pool hlen hdesc, ← List.countP_eq_length_filter]
      congr 1
      apply List.countP_congr
      intro d hd
      have := (hev d hd).1
      simp only [decide_eq_true_eq]
      omega

/-! ### goal 3: end-to-end statements for untied samples -/

/-- the number of values `≤ v` through the recurrence -/
theorem nullDistOf_count_le (n m : Nat) (pool : List α) (hlen : pool.length = n + m)
    (hdesc : pool.Pairwise (· > ·)) (v : Nat) :
    ((((nullDistOf n pool).filter (· ≤ v)).length : Nat) : Rat)
      = (∑ w ∈ Finset.range (v / 2 + 1), pRec n m (w : Int)) * (Nat.choose (n + m) n : Rat) := by
  rw [pRec_prefix_count n m pool hlen hdesc, ← List.countP_eq_length_filter]
  congr 1
  apply List.countP_congr
  intro d hd
  have := (nullDistOf_even_le n m pool hlen hdesc d hd).1
  simp only [decide_eq_true_eq]
  omega

/-- the untied null distribution is symmetric about `n·m` (doubled: under `d ↦ 2·n·m − d`) -/
theorem nullDistOf_symmetric (n m : Nat) (pool : List α) (hlen : pool.length = n + m)
    (hdesc : pool.Pairwise (· > ·)) (v : Nat) :
    ((nullDistOf n pool).filter (· ≤ v)).length
      = ((nullDistOf n pool).filter (fun d => decide (d + v ≥ 2 * (n * m)))).length := by
  have hev := nullDistOf_even_le n m pool hlen hdesc
  by_cases hv : 2 * (n * m) ≤ v
  · have e1 : (nullDistOf n pool).filter (· ≤ v) = nullDistOf n pool := by
      rw [List.filter_eq_self]
      intro d hd
      have := (hev d hd).2
      simp only [decide_eq_true_eq]
      omega
    have e2 : (nullDistOf n pool).filter (fun d => decide (d + v ≥ 2 * (n * m)))
        = nullDistOf n pool := by
      rw [List.filter_eq_self]
      intro d _
      simp only [decide_eq_true_eq]
      omega
    rw [e1, e2]
  · have hsplit := List.length_eq_length_filter_add (l := nullDistOf n pool)
      (fun d => decide (d + v ≥ 2 * (n * m)))
    have hcongr : (nullDistOf n pool).filter (fun d => !decide (d + v ≥ 2 * (n * m)))
        = (nullDistOf n pool).filter (· ≤ 2 * (n * m) - 1 - v) := by
      apply List.filter_congr
      intro d _
      by_cases hd : d + v ≥ 2 * (n * m)
      · have : ¬ d ≤ 2 * (n * m) - 1 - v := by omega
        simp [hd, this]
      · have : d ≤ 2 * (n * m) - 1 - v := by omega
        simp [hd, this]
    rw [hcongr] at hsplit
    have hsum : ((nullDistOf n pool).filter (· ≤ v)).length
        + ((nullDistOf n pool).filter (· ≤ 2 * (n * m) - 1 - v)).length
        = (nullDistOf n pool).length := by
      have hC : ((Nat.choose (n + m) n : Nat) : Rat) ≠ 0 := choose_cast_ne_zero n m
      have a := nullDistOf_count_le n m pool hlen hdesc v
      have b := nullDistOf_count_le n m pool hlen hdesc (2 * (n * m) - 1 - v)
      have hk : (2 * (n * m) - 1 - v) / 2 + 1 = n * m - v / 2 - 1 + 1 := by omega
      rw [hk] at b
      have hflip := pRec_prefix_flip n m (v / 2) (by omega)
      have : ((((nullDistOf n pool).filter (· ≤ v)).length
          + ((nullDistOf n pool).filter (· ≤ 2 * (n * m) - 1 - v)).length : Nat) : Rat)
          = (((nullDistOf n pool).length : Nat) : Rat) := by
        rw [nullDistOf_length n m pool hlen]
        push_cast
        rw [a, b, ← hflip]
        ring
      exact_mod_cast this
    omega

theorem less_exact_untied (n m : Nat) (T : List Nat) (hT : Stats.UDist.hasTies T = false)
    (pool : List α) (hlen : pool.length = n + m) (hdesc : pool.Pairwise (· > ·))
    (u : Nat) (tu2 : Int) :
    Stats.UStat.exactP (Stats.UDist.cdfPure n m T) .less (u : Int) tu2
      = Spec.UExact.pLess (Spec.UExact.nullDistOf n pool) u :=
  less_spec _ _ (untied_cdf_is_cdf n m T hT pool hlen hdesc) u tu2

theorem greater_exact_untied (n m : Nat) (T : List Nat) (hT : Stats.UDist.hasTies T = false)
    (pool : List α) (hlen : pool.length = n + m) (hdesc : pool.Pairwise (· > ·))
    (u : Nat) (tu2 : Int) :
    Stats.UStat.exactP (Stats.UDist.cdfPure n m T) .greater (u : Int) tu2
      = Spec.UExact.pGreater (Spec.UExact.nullDistOf n pool) u :=
  greater_spec _ _ (untied_cdf_is_cdf n m T hT pool hlen hdesc)
    (nullDistOf_ne_nil n m pool hlen) u tu2

theorem two_sided_exact_untied (n m : Nat) (T : List Nat) (hT : Stats.UDist.hasTies T = false)
    (pool : List α) (hlen : pool.length = n + m) (hdesc : pool.Pairwise (· > ·))
    (u : Nat) (hu : u ≤ 2 * (n * m)) :
    Stats.UStat.exactP (Stats.UDist.cdfPure n m T) .differs (u : Int)
        (((2 * (n * m) : Nat) : Int) - (u : Int))
      = Spec.UExact.pTwoSided (Spec.UExact.nullDistOf n pool) u :=
  two_sided_spec_partial _ _ (2 * (n * m)) (untied_cdf_is_cdf n m T hT pool hlen hdesc)
    (nullDistOf_ne_nil n m pool hlen) (nullDistOf_symmetric n m pool hlen hdesc) u hu

end UntiedDist

/-! ### goal 4: sanity of the two-sided specification and the swap of the samples -/

theorem ratMin_nonneg {x y : Rat} (hx : 0 ≤ x) (hy : 0 ≤ y) : 0 ≤ ratMin x y := by
  unfold ratMin
  split <;> assumption

theorem ratMin_le_left (x y : Rat) : ratMin x y ≤ x := by
  unfold ratMin
  split
  · exact le_refl _
  · linarith

theorem two_sided_in_unit_interval (dist : List Nat) (u : Nat) :
    0 ≤ Spec.UExact.pTwoSided dist u ∧ Spec.UExact.pTwoSided dist u ≤ 1 := by
  unfold pTwoSided
  refine ⟨?_, ratMin_le_left _ _⟩
  apply ratMin_nonneg (by norm_num)
  apply mul_nonneg (by norm_num)
  apply ratMin_nonneg
  · unfold pLess
    exact div_nonneg (Nat.cast_nonneg _) (Nat.cast_nonneg _)
  · unfold pGreater
    exact div_nonneg (Nat.cast_nonneg _) (Nat.cast_nonneg _)

section Swap
variable {α : Type} [LinearOrder α]

theorem pairW_add_swap (a b : α) : pairW a b + pairW b a = 2 := by
  unfold pairW
  rcases lt_trichotomy a b with h | h | h
  · have h1 : ¬ b < a := not_lt.2 (le_of_lt h)
    have h2 : ¬ a = b := ne_of_lt h
    simp [h, h1, h2]
  · subst h
    simp
  · have h1 : ¬ a < b := not_lt.2 (le_of_lt h)
    have h2 : ¬ b = a := ne_of_lt h
    simp [h, h1, h2]

theorem twoUPairs_cons_left_c (a : α) (xs ys : List α) :
    twoUPairs (a :: xs) ys = (ys.map fun b => pairW a b).sum + twoUPairs xs ys := by
  simp [twoUPairs]

theorem twoUPairs_nil_right_c (xs : List α) : twoUPairs xs ([] : List α) = 0 := by
  induction xs with
  | nil => rfl
  | cons a xs ih => rw [twoUPairs_cons_left_c, ih]; rfl

theorem twoUPairs_cons_right (a : α) (xs ys : List α) :
    twoUPairs xs (a :: ys) = (xs.map fun x => pairW x a).sum + twoUPairs xs ys := by
  induction xs with
  | nil => rfl
  | cons x xs ih =>
    rw [twoUPairs_cons_left_c, twoUPairs_cons_left_c, ih]
    simp only [List.map_cons, List.sum_cons]
    omega

theorem pairW_row_swap (a : α) (ys : List α) :
    (ys.map fun b => pairW a b).sum + (ys.map fun b => pairW b a).sum = 2 * ys.length := by
  induction ys with
  | nil => rfl
  | cons b ys ih =>
    simp only [List.map_cons, List.sum_cons, List.length_cons]
    have := pairW_add_swap a b
    omega

/-- swapping the samples reflects the doubled statistic: `2·U₂ = 2·n1·n2 − 2·U₁` -/
theorem twoUPairs_swap (x1 x2 : List α) :
    twoUPairs x1 x2 + twoUPairs x2 x1 = 2 * x1.length * x2.length := by
  induction x1 with
  | nil =>
    rw [twoUPairs_nil_right_c]
    show twoUPairs ([] : List α) x2 + 0 = 2 * 0 * x2.length
    rw [Nat.mul_zero, Nat.zero_mul]
    rfl
  | cons a x1 ih =>
    rw [twoUPairs_cons_left_c, twoUPairs_cons_right, List.length_cons]
    have := pairW_row_swap a x2
    have e : 2 * (x1.length + 1) * x2.length = 2 * x1.length * x2.length + 2 * x2.length := by ring
    omega

theorem two_sided_in_unit_interval_and_swap_invariant (dist : List Nat) (u : Nat) (x1 x2 : List α) :
    (0 ≤ Spec.UExact.pTwoSided dist u ∧ Spec.UExact.pTwoSided dist u ≤ 1)
      ∧ Spec.UExact.twoUPairs x1 x2 + Spec.UExact.twoUPairs x2 x1 = 2 * x1.length * x2.length :=
  ⟨two_sided_in_unit_interval dist u, twoUPairs_swap x1 x2⟩

end Swap

end C11
