/-
C11: composition of the pieces — the two-sided exact formula against the specification for a
symmetric null distribution, the untied CDF of the model as the distribution function of the
enumeration, and the end-to-end statements for untied samples.

(`C11Rank` is not imported: it and `C11Untied` both declare `C11.twoUPairs_nil_left` etc.)
-/
import Model.Stats.UDist
import Model.Stats.UStat
import Model.Spec.UExact
import Proofs.Lemmas.C11Basic
import Proofs.Lemmas.C11PFormulas
import Proofs.Lemmas.C11Untied
import Mathlib.Data.List.Basic
import Mathlib.Data.Nat.Choose.Basic
import Mathlib.Algebra.Order.Field.Rat
import Mathlib.Algebra.BigOperators.Group.Finset.Basic
import Mathlib.Algebra.BigOperators.Intervals
import Mathlib.Algebra.BigOperators.Field
import Mathlib.Tactic.Ring
import Mathlib.Tactic.Linarith
import Mathlib.Tactic.FieldSimp

namespace C11
open Stats Stats.UStat Stats.UDist Spec.UExact

/-! ### counting in lists -/

theorem filter_length_mono {β : Type} (p q : β → Bool) (l : List β) (h : ∀ x, p x = true → q x = true) :
    (l.filter p).length ≤ (l.filter q).length := by
  rw [← List.countP_eq_length_filter, ← List.countP_eq_length_filter]
  exact List.countP_mono_left (fun x _ => h x)

theorem filter_length_disjoint {β : Type} (p q : β → Bool) (l : List β)
    (h : ∀ x, p x = true → q x = true → False) :
    (l.filter p).length + (l.filter q).length ≤ l.length := by
  induction l with
  | nil => simp
  | cons a l ih =>
    simp only [List.filter_cons, List.length_cons]
    cases hp : p a <;> cases hq : q a <;> simp <;> first | omega | exact (h a hp hq).elim

theorem filter_length_cover {β : Type} (p q : β → Bool) (l : List β)
    (h : ∀ x, p x = true ∨ q x = true) :
    l.length ≤ (l.filter p).length + (l.filter q).length := by
  induction l with
  | nil => simp
  | cons a l ih =>
    simp only [List.filter_cons, List.length_cons]
    cases hp : p a <;> cases hq : q a <;> simp <;> first | omega | (have := h a; simp [hp, hq] at this)

/-! ### goal 1: the two-sided formula for a symmetric null distribution -/

theorem ratMin_one_of_le {x : Rat} (h : x ≤ 1) : ratMin 1 x = x := by
  unfold ratMin
  split
  · linarith
  · rfl

theorem ratMin_one_of_ge {x : Rat} (h : 1 ≤ x) : ratMin 1 x = 1 := by
  unfold ratMin
  rw [if_pos h]

theorem ratMin_left {x y : Rat} (h : x ≤ y) : ratMin x y = x := by
  unfold ratMin
  rw [if_pos h]

theorem ratMin_right {x y : Rat} (h : y ≤ x) : ratMin x y = y := by
  unfold ratMin
  split
  · linarith
  · rfl

theorem exactP_differs (cdf : Int → Rat) (a b : Int) :
    exactP cdf .differs a b = if a = b then 1 else cdf (min a b) * 2 := rfl

/-- The symmetry hypothesis `hsym` is the one of the task statement: for every `v` there are as
    many values `≤ v` as values `d` with `d + v ≥ c` (i.e. `d ≥ c − v`). -/
theorem two_sided_spec_partial (cdf : Int → Rat) (dist : List Nat) (c : Nat)
    (h : IsCDFOf cdf dist) (hne : dist ≠ [])
    (hsym : ∀ v : Nat, (dist.filter (· ≤ v)).length = (dist.filter (fun d => decide (d + v ≥ c))).length)
    (u : Nat) (hu : u ≤ c) :
    Stats.UStat.exactP cdf .differs (u : Int) ((c : Int) - u) = Spec.UExact.pTwoSided dist u := by
  have hN : (0 : Rat) < ((dist.length : Nat) : Rat) := by
    have : dist.length ≠ 0 := by simpa using hne
    exact_mod_cast Nat.pos_of_ne_zero this
  -- the value of the cdf at a natural argument
  have hcdf : ∀ v : Nat, cdf (v : Int)
      = (((dist.filter (· ≤ v)).length : Nat) : Rat) / ((dist.length : Nat) : Rat) := by
    intro v
    rw [h]
    have e : (dist.filter fun (d : Nat) => decide ((d : Int) ≤ (v : Int))) = dist.filter (· ≤ v) := by
      apply List.filter_congr
      intro d _
      simp
    rw [e]
  -- G (c − v) = L v
  have hG : ∀ v : Nat, v ≤ c →
      (dist.filter (· ≤ v)).length = (dist.filter (· ≥ c - v)).length := by
    intro v hv
    rw [hsym v]
    congr 1
    apply List.filter_congr
    intro d _
    have : (d + v ≥ c) ↔ (d ≥ c - v) := by omega
    simp [this]
  rw [exactP_differs]
  unfold pTwoSided pLess pGreater
  rcases Nat.lt_trichotomy u (c - u) with hlt | heq | hgt
  · -- u < c − u
    rw [if_neg (by omega), min_eq_left (by omega), hcdf u]
    have h1 : (dist.filter (· ≤ u)).length ≤ (dist.filter (· ≥ u)).length := by
      rw [hG u hu]
      apply filter_length_mono
      intro x hx
      simp only [decide_eq_true_eq] at hx ⊢
      omega
    have h2 : (dist.filter (· ≤ u)).length + (dist.filter (· ≤ u)).length ≤ dist.length := by
      have hd := filter_length_disjoint (· ≤ u) (· ≥ c - u) dist (by
        intro x hx hy
        simp only [decide_eq_true_eq] at hx hy
        omega)
      have := hG u hu
      omega
    have h1' : (((dist.filter (· ≤ u)).length : Nat) : Rat) / ((dist.length : Nat) : Rat)
        ≤ (((dist.filter (· ≥ u)).length : Nat) : Rat) / ((dist.length : Nat) : Rat) := by
      rw [div_le_div_iff_of_pos_right hN]
      exact_mod_cast h1
    have h2' : 2 * ((((dist.filter (· ≤ u)).length : Nat) : Rat) / ((dist.length : Nat) : Rat)) ≤ 1 := by
      rw [← mul_div_assoc, div_le_iff₀ hN, one_mul]
      have : (2 : Rat) * (((dist.filter (· ≤ u)).length : Nat) : Rat)
          = (((dist.filter (· ≤ u)).length + (dist.filter (· ≤ u)).length : Nat) : Rat) := by
        push_cast; ring
      rw [this]
      exact_mod_cast h2
    rw [ratMin_left h1', ratMin_one_of_le h2', mul_comm]
  · -- u = c − u
    rw [if_pos (by omega)]
    have h1 : (dist.filter (· ≤ u)).length = (dist.filter (· ≥ u)).length := by
      rw [hG u hu, ← heq]
    have h2 : dist.length ≤ (dist.filter (· ≤ u)).length + (dist.filter (· ≤ u)).length := by
      have hd := filter_length_cover (· ≤ u) (· ≥ u) dist (by
        intro x
        simp only [decide_eq_true_eq]
        omega)
      omega
    rw [← h1, ratMin_left (le_refl _)]
    rw [ratMin_one_of_ge]
    rw [← mul_div_assoc, le_div_iff₀ hN, one_mul]
    have : (2 : Rat) * (((dist.filter (· ≤ u)).length : Nat) : Rat)
        = (((dist.filter (· ≤ u)).length + (dist.filter (· ≤ u)).length : Nat) : Rat) := by
      push_cast; ring
    rw [this]
    exact_mod_cast h2
  · -- u > c − u
    rw [if_neg (by omega), min_eq_right (by omega)]
    have ecu : (c : Int) - (u : Int) = ((c - u : Nat) : Int) := by omega
    rw [ecu, hcdf (c - u)]
    have e : (dist.filter (· ≤ c - u)).length = (dist.filter (· ≥ u)).length := by
      rw [hG (c - u) (by omega)]
      have : c - (c - u) = u := by omega
      rw [this]
    rw [e]
    have h1 : (dist.filter (· ≥ u)).length ≤ (dist.filter (· ≤ u)).length := by
      rw [← e]
      apply filter_length_mono
      intro x hx
      simp only [decide_eq_true_eq] at hx ⊢
      omega
    have h2 : (dist.filter (· ≥ u)).length + (dist.filter (· ≥ u)).length ≤ dist.length := by
      have hd := filter_length_disjoint (· ≤ c - u) (· ≥ u) dist (by
        intro x hx hy
        simp only [decide_eq_true_eq] at hx hy
        omega)
      omega
    have h1' : (((dist.filter (· ≥ u)).length : Nat) : Rat) / ((dist.length : Nat) : Rat)
        ≤ (((dist.filter (· ≤ u)).length : Nat) : Rat) / ((dist.length : Nat) : Rat) := by
      rw [div_le_div_iff_of_pos_right hN]
      exact_mod_cast h1
    have h2' : 2 * ((((dist.filter (· ≥ u)).length : Nat) : Rat) / ((dist.length : Nat) : Rat)) ≤ 1 := by
      rw [← mul_div_assoc, div_le_iff₀ hN, one_mul]
      have : (2 : Rat) * (((dist.filter (· ≥ u)).length : Nat) : Rat)
          = (((dist.filter (· ≥ u)).length + (dist.filter (· ≥ u)).length : Nat) : Rat) := by
        push_cast; ring
      rw [this]
      exact_mod_cast h2
    rw [ratMin_right h1', ratMin_one_of_le h2', mul_comm]

end C11
