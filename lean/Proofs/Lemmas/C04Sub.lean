/-
C04 helper lemmas: pieces re-assemble to the string; rewriting is the identity when no component
is `ns`/`MB`; a component is a substring (for the `strings.Contains` pre-filter).
-/
import Proofs.Lemmas.C04Tok

namespace C04
open Unit.Parse Unit.Tidy
open Spec.Tidy (runes group Piece rewrite pieces)

def Piece.bytes : Piece → Bytes
  | .sep _ enc => enc
  | .word w => w

def concatP (ps : List Piece) : Bytes := ps.flatMap Piece.bytes

theorem concatP_group : ∀ (L : List (Nat × Bytes)), concatP (group L) = L.flatMap (·.2) := by
  intro L
  induction L with
  | nil => simp [group, concatP]
  | cons x L ih =>
    obtain ⟨r, enc⟩ := x
    simp only [group, List.flatMap_cons]
    by_cases hs : Spec.Tidy.isSep r = true
    · simp only [hs, if_true]
      rw [← ih]; simp [concatP, Piece.bytes]
    · have hs' : Spec.Tidy.isSep r = false := by simpa using hs
      simp only [hs', Bool.false_eq_true, if_false]
      rw [← ih]
      generalize group L = g
      cases g with
      | nil => simp [concatP, Piece.bytes]
      | cons p ps => cases p <;> simp [concatP, Piece.bytes]

theorem R_flat : ∀ (n : Nat) (bs : Bytes), bs.length ≤ n → (R bs).flatMap (·.2) = bs := by
  intro n
  induction n with
  | zero =>
    intro bs h
    have : bs = [] := List.eq_nil_of_length_eq_zero (by omega)
    subst this; simp [R_nil]
  | succ n ih =>
    intro bs h
    cases bs with
    | nil => simp [R_nil]
    | cons b bs =>
      have hw := decodeRune_width b bs
      rw [R_cons, List.flatMap_cons, ih]
      · simp [List.take_append_drop]
      · simp only [List.length_drop, List.length_cons] at *; omega

theorem concat_pieces (u : Bytes) : concatP (pieces u) = u := by
  unfold pieces
  show concatP (group (R u)) = u
  rw [concatP_group, R_flat u.length u (Nat.le_refl _)]

theorem rewrite_noop : ∀ (ps : List Piece) (d : Bool) (f : F64.Bits),
    (∀ w, Piece.word w ∈ ps → w ≠ Spec.Tidy.ns ∧ w ≠ Spec.Tidy.mb) → rewrite d f ps = (concatP ps, f) := by
  intro ps
  induction ps with
  | nil => intro d f _; simp [rewrite, concatP]
  | cons p ps ih =>
    intro d f h
    have hps : ∀ w, Piece.word w ∈ ps → w ≠ Spec.Tidy.ns ∧ w ≠ Spec.Tidy.mb :=
      fun w hw => h w (List.mem_cons_of_mem _ hw)
    cases p with
    | sep r enc =>
      rw [rewrite_sep, ih _ _ hps]; simp [concatP, Piece.bytes]
    | word w =>
      obtain ⟨h1, h2⟩ := h w (List.mem_cons_self ..)
      have a1 : (w == Spec.Tidy.ns) = false := by simpa using h1
      have a2 : (w == Spec.Tidy.mb) = false := by simpa using h2
      simp [rewrite, a1, a2, ih _ _ hps, concatP, Piece.bytes]

theorem word_mem_split : ∀ (ps : List Piece) (w : Bytes), Piece.word w ∈ ps →
    ∃ a z, concatP ps = a ++ w ++ z := by
  intro ps
  induction ps with
  | nil => intro w h; cases h
  | cons p ps ih =>
    intro w h
    rcases List.mem_cons.mp h with h | h
    · subst h
      exact ⟨[], concatP ps, by simp [concatP, Piece.bytes]⟩
    · obtain ⟨a, z, e⟩ := ih w h
      refine ⟨Piece.bytes p ++ a, z, ?_⟩
      have : concatP (p :: ps) = Piece.bytes p ++ concatP ps := by simp [concatP]
      rw [this, e]; simp [List.append_assoc]

theorem hasPrefix_append : ∀ (w z : Bytes), Bytes.hasPrefix (w ++ z) w = true := by
  intro w
  induction w with
  | nil => intro z; cases z <;> simp [Bytes.hasPrefix]
  | cons c w ih => intro z; simp [Bytes.hasPrefix, ih]

theorem contains_mid : ∀ (a w z : Bytes), Bytes.contains (a ++ w ++ z) w = true := by
  intro a
  induction a with
  | nil =>
    intro w z
    cases hwz : w ++ z with
    | nil =>
      obtain ⟨hw0, hz0⟩ := List.append_eq_nil_iff.mp hwz
      subst hw0; subst hz0; simp [Bytes.contains]
    | cons c t =>
      simp only [List.nil_append, hwz, Bytes.contains]
      rw [← hwz, hasPrefix_append]; simp
  | cons c a ih =>
    intro w z
    simp only [List.cons_append, Bytes.contains]
    have := ih w z
    simp only [List.append_assoc] at this ⊢
    simp [this]

/-- a component of a unit is a substring of the unit -/
theorem word_contains (u w : Bytes) (h : Piece.word w ∈ pieces u) : Bytes.contains u w = true := by
  obtain ⟨a, z, e⟩ := word_mem_split _ _ h
  rw [concat_pieces] at e
  rw [e]; exact contains_mid a w z

/-- the specification leaves a unit alone when neither `ns` nor `MB` occurs in it as a substring -/
theorem spec_noop_of_not_contains (u : Bytes) (h : mayNeedTidy u = false) :
    Spec.Tidy.tidyUnit u = (u, F64.one) := by
  unfold Spec.Tidy.tidyUnit
  rw [rewrite_noop, concat_pieces]
  intro w hw
  have hc := word_contains u w hw
  simp only [mayNeedTidy, Bool.or_eq_false_iff] at h
  constructor
  · intro e; subst e; exact absurd hc (by rw [show Spec.Tidy.ns = sNs from rfl, h.1]; simp)
  · intro e; subst e; exact absurd hc (by rw [show Spec.Tidy.mb = sMB from rfl, h.2]; simp)

end C04
