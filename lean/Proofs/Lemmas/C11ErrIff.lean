/-
C11: the model of `MannWhitneyUTest` returns an error ONLY for an empty sample or for samples whose
pooled values are all equal — on both branches (exact, normal approximation), for any CDF and limits.
-/
import Model.Stats.UStat
import Model.Spec.UExact
import Proofs.Lemmas.C11Rank
import Proofs.Lemmas.C11Errors
import Proofs.Lemmas.C11Misc
import Mathlib.Data.List.Dedup
import Mathlib.Data.List.Count
import Mathlib.Algebra.Order.Field.Rat
import Mathlib.Tactic.Ring
import Mathlib.Tactic.Linarith
import Mathlib.Tactic.FieldSimp

set_option linter.unusedSectionVars false

namespace C11.ErrIff
open Stats.UStat

/-! ### arithmetic: Σ t³ = (Σ t)³ over positive entries forces a single entry -/

theorem le_cube (t : Nat) : t ≤ t * t * t := by
  rcases Nat.eq_zero_or_pos t with h | h
  · subst h; simp
  · exact Nat.le_mul_of_pos_left t (Nat.mul_pos h h)

theorem tc_add_sum (T : List Nat) :
    (T.map fun t => t * t * t - t).sum + T.sum = (T.map fun t => t * t * t).sum := by
  induction T with
  | nil => rfl
  | cons t T ih =>
    simp only [List.map_cons, List.sum_cons]
    have := le_cube t
    omega

theorem sum_pos_of_pos (T : List Nat) (hpos : ∀ t ∈ T, 0 < t) (hne : T ≠ []) : 0 < T.sum := by
  cases T with
  | nil => exact absurd rfl hne
  | cons t T =>
    have := hpos t List.mem_cons_self
    simp only [List.sum_cons]
    omega

theorem cubes_le (T : List Nat) (hpos : ∀ t ∈ T, 0 < t) :
    (T.map fun t => t * t * t).sum ≤ T.sum * T.sum * T.sum ∧
    (2 ≤ T.length → (T.map fun t => t * t * t).sum < T.sum * T.sum * T.sum) := by
  induction T with
  | nil => simp
  | cons t T ih =>
    have ht : 0 < t := hpos t List.mem_cons_self
    have hpos' : ∀ t ∈ T, 0 < t := fun a ha => hpos a (List.mem_cons_of_mem _ ha)
    obtain ⟨ih1, _⟩ := ih hpos'
    simp only [List.map_cons, List.sum_cons, List.length_cons]
    generalize (T.map fun t => t * t * t).sum = c at ih1 ⊢
    have hs : T ≠ [] → 0 < T.sum := sum_pos_of_pos T hpos'
    generalize T.sum = s at ih1 hs ⊢
    have e : (t + s) * (t + s) * (t + s) = t * t * t + s * s * s + 3 * t * s * (t + s) := by ring
    rw [e]
    refine ⟨by omega, ?_⟩
    intro hl
    have hT : T ≠ [] := by
      rintro rfl
      simp at hl
    have hs' := hs hT
    have : 0 < 3 * t * s * (t + s) :=
      Nat.mul_pos (Nat.mul_pos (Nat.mul_pos (by omega) ht) hs') (by omega)
    omega

/-- σ² = 0 with non-empty samples: Σ (t³ − t) = N³ − N -/
theorem tc_of_sigma2_zero (n1 n2 : Nat) (T : List Nat) (h1 : 0 < n1) (h2 : 0 < n2)
    (h : sigma2 n1 n2 T = 0) :
    tieCorrection T + (n1 + n2) = (n1 + n2) * (n1 + n2) * (n1 + n2) := by
  unfold sigma2 at h
  simp only at h
  have hN : (((n1 + n2 : Nat)) : Rat) ≠ 0 := by
    have : n1 + n2 ≠ 0 := by omega
    exact_mod_cast this
  have hN1 : (((n1 + n2 : Nat)) : Rat) - 1 ≠ 0 := by
    have h2 : (2 : Rat) ≤ ((n1 + n2 : Nat) : Rat) := by
      have : 2 ≤ n1 + n2 := by omega
      exact_mod_cast this
    intro h; linarith
  have hP : (((n1 * n2 : Nat)) : Rat) ≠ 0 := by
    have : n1 * n2 ≠ 0 := Nat.mul_ne_zero (by omega) (by omega)
    exact_mod_cast this
  have key : ∀ N tc P : Rat, N ≠ 0 → N - 1 ≠ 0 → P ≠ 0 →
      P * (N + 1 - tc / (N * (N - 1))) / 12 = 0 → tc + N = N * N * N := by
    intro N tc P hN hN1 hP h
    have h3 : (N + 1) - tc / (N * (N - 1)) = 0 := by
      rcases div_eq_zero_iff.mp h with h' | h'
      · rcases mul_eq_zero.mp h' with h'' | h''
        · exact absurd h'' hP
        · exact h''
      · norm_num at h'
    have h4 : tc / (N * (N - 1)) = N + 1 := by linarith
    rw [div_eq_iff (mul_ne_zero hN hN1)] at h4
    rw [h4]; ring
  have := key _ _ _ hN hN1 hP h
  exact_mod_cast this

/-! ### the tie vector: positive entries summing to the pooled size -/

section Lists
variable {α : Type} [LinearOrder α]

theorem filter_length_eq_count (l : List α) (a : α) :
    (l.filter (· = a)).length = l.count a := by
  rw [List.count_eq_countP, List.countP_eq_length_filter]
  congr 1

theorem tieVector_eq_sorted (x1 x2 : List α) :
    tieVector x1 x2 = (sortF (x1 ++ x2)).dedup.map fun a => (sortF (x1 ++ x2)).count a := by
  rw [C11.tie_vector_is_run_lengths, C11.tieVectorOf_perm _ (C11.sortF_perm (x1 ++ x2)).symm]
  unfold Spec.UExact.tieVectorOf
  apply List.map_congr_left
  intro a _
  exact filter_length_eq_count _ a

theorem tieVector_sum (x1 x2 : List α) : (tieVector x1 x2).sum = x1.length + x2.length := by
  rw [tieVector_eq_sorted, List.sum_map_count_dedup_eq_length, C11.sortF_length, List.length_append]

theorem tieVector_pos (x1 x2 : List α) : ∀ t ∈ tieVector x1 x2, 0 < t := by
  rw [tieVector_eq_sorted]
  intro t ht
  obtain ⟨a, ha, rfl⟩ := List.mem_map.mp ht
  exact List.count_pos_iff.mpr (List.mem_dedup.mp ha)

theorem tieVector_length (x1 x2 : List α) :
    (tieVector x1 x2).length = (sortF (x1 ++ x2)).dedup.length := by
  rw [tieVector_eq_sorted, List.length_map]

/-- `allEqual` says that any two pooled values coincide -/
theorem allEqual_iff (x1 x2 : List α) :
    Spec.UExact.allEqual x1 x2 = true ↔ ∀ a ∈ x1 ++ x2, ∀ b ∈ x1 ++ x2, a = b := by
  unfold Spec.UExact.allEqual
  generalize x1 ++ x2 = P
  cases P with
  | nil => simp
  | cons v l =>
    simp only [List.all_eq_true, decide_eq_true_eq]
    constructor
    · intro h a ha b hb
      have e : ∀ c ∈ v :: l, c = v := by
        intro c hc
        rcases List.mem_cons.mp hc with rfl | hc
        · rfl
        · exact h c hc
      rw [e a ha, e b hb]
    · intro h c hc
      exact h c (List.mem_cons_of_mem _ hc) v List.mem_cons_self

/-- one tie group: all pooled values are equal -/
theorem allEqual_of_length_one (x1 x2 : List α) (h : (tieVector x1 x2).length = 1) :
    Spec.UExact.allEqual x1 x2 = true := by
  rw [tieVector_length] at h
  obtain ⟨v, hv⟩ := List.length_eq_one_iff.mp h
  have e : ∀ c ∈ x1 ++ x2, c = v := by
    intro c hc
    have h1 : c ∈ sortF (x1 ++ x2) := (C11.sortF_perm _).mem_iff.mpr hc
    have h2 : c ∈ (sortF (x1 ++ x2)).dedup := List.mem_dedup.mpr h1
    rw [hv] at h2
    simpa using h2
  rw [allEqual_iff]
  intro a ha b hb
  rw [e a ha, e b hb]

/-- σ² = 0 on non-empty samples: one tie group -/
theorem length_one_of_sigma2_zero (x1 x2 : List α) (h1 : x1 ≠ []) (h2 : x2 ≠ [])
    (h : sigma2 x1.length x2.length (tieVector x1 x2) = 0) : (tieVector x1 x2).length = 1 := by
  have l1 : 0 < x1.length := List.length_pos_iff.mpr h1
  have l2 : 0 < x2.length := List.length_pos_iff.mpr h2
  have htc := tc_of_sigma2_zero _ _ _ l1 l2 h
  rw [C11.tieCorrection_eq] at htc
  have hsum := tieVector_sum x1 x2
  have hpos := tieVector_pos x1 x2
  generalize tieVector x1 x2 = T at htc hsum hpos ⊢
  rw [← hsum, tc_add_sum] at htc
  have hc := (cubes_le T hpos).2
  have hne : T ≠ [] := by
    rintro rfl
    simp at hsum
    omega
  have : 0 < T.length := List.length_pos_iff.mpr hne
  by_contra hlen
  have := hc (by omega)
  omega

end Lists

/-! ### the decision: an error comes from `T.length = 1` (exact) or `σ² = 0` (normal) -/

theorem decide'_error (cdf : Nat → Nat → List Nat → Int → Rat) (lim limT : Nat) (alt : Alt)
    (n1 n2 : Nat) (rs : RankState) (e : Err)
    (h : decide' cdf lim limT alt n1 n2 rs = .error e) :
    e = .samplesEqual ∧ (rs.T.length = 1 ∨ sigma2 n1 n2 rs.T = 0) := by
  unfold decide' at h
  simp only at h
  split at h
  · split at h
    · rename_i hT
      injection h with h
      exact ⟨h.symm, Or.inl hT⟩
    · cases h
  · split at h
    · rename_i hs
      injection h with h
      exact ⟨h.symm, Or.inr hs⟩
    · cases h

end C11.ErrIff

namespace C11
open Stats.UStat

/-- **errors_spec (iff).** The model of `MannWhitneyUTest` returns an error exactly for an empty sample
    (`sampleSize`) or, both samples being non-empty, for pooled values that are all equal
    (`samplesEqual`) — on the exact and on the normal-approximation branch alike, whatever CDF and
    limits are plugged in. -/
theorem errors_spec_iff {α : Type} [LinearOrder α] (cdf : Nat → Nat → List Nat → Int → Rat)
    (lim limT : Nat) (x1 x2 : List α) (alt : Stats.UStat.Alt) (e : Stats.UStat.Err) :
    Stats.UStat.mannWhitney cdf lim limT x1 x2 alt = .error e ↔
      (e = .sampleSize ∧ (x1 = [] ∨ x2 = [])) ∨
      (e = .samplesEqual ∧ x1 ≠ [] ∧ x2 ≠ [] ∧ Spec.UExact.allEqual x1 x2 = true) := by
  have hempty : (x1 = [] ∨ x2 = []) → mannWhitney cdf lim limT x1 x2 alt = .error .sampleSize := by
    intro hE
    unfold mannWhitney
    rcases hE with h | h <;> simp [h]
  constructor
  · intro h
    by_cases hE : x1 = [] ∨ x2 = []
    · left
      rw [hempty hE] at h
      injection h with h
      exact ⟨h.symm, hE⟩
    · right
      have h1 : x1 ≠ [] := fun h => hE (Or.inl h)
      have h2 : x2 ≠ [] := fun h => hE (Or.inr h)
      have l1 : 0 < x1.length := List.length_pos_iff.mpr h1
      have l2 : 0 < x2.length := List.length_pos_iff.mpr h2
      unfold mannWhitney at h
      simp only at h
      rw [if_neg (by omega)] at h
      obtain ⟨he, hT⟩ := ErrIff.decide'_error _ _ _ _ _ _ _ _ h
      refine ⟨he, h1, h2, ?_⟩
      apply ErrIff.allEqual_of_length_one
      change (tieVector x1 x2).length = 1 ∨ sigma2 x1.length x2.length (tieVector x1 x2) = 0 at hT
      rcases hT with hT | hT
      · exact hT
      · exact ErrIff.length_one_of_sigma2_zero x1 x2 h1 h2 hT
  · rintro (⟨rfl, hE⟩ | ⟨rfl, h1, h2, hall⟩)
    · exact hempty hE
    · obtain ⟨v, x1', rfl⟩ := List.exists_cons_of_ne_nil h1
      have hv := (ErrIff.allEqual_iff _ _).mp hall
      have hvm : v ∈ (v :: x1') ++ x2 := by simp
      exact errors_spec_all_equal cdf lim limT alt v (lt_irrefl v) _ _ h1 h2
        (fun a ha => hv a (List.mem_append_left _ ha) v hvm)
        (fun b hb => hv b (List.mem_append_right _ hb) v hvm)

end C11
