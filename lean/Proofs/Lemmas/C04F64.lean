/-
C04 helper lemmas about the float64 model: bit fields as arithmetic on `toNat`, results of
`roundRat` are never NaN, a NaN produced by `mul` is the canonical NaN.
-/
import Model.Base.F64
namespace F64

theorem expField_toNat (b : Bits) : expField b = b.toNat / 2 ^ 52 % 2 ^ 11 := by
  unfold expField
  rw [UInt64.toNat_and, UInt64.toNat_shiftRight]
  have : (0x7FF : UInt64).toNat = 2 ^ 11 - 1 := by decide
  rw [this, Nat.and_two_pow_sub_one_eq_mod, Nat.shiftRight_eq_div_pow]
  rfl

theorem fracField_toNat (b : Bits) : fracField b = b.toNat % 2 ^ 52 := by
  unfold fracField
  rw [UInt64.toNat_and]
  have : (0xFFFFFFFFFFFFF : UInt64).toNat = 2 ^ 52 - 1 := by decide
  rw [this, Nat.and_two_pow_sub_one_eq_mod]

theorem isNaN_iff (b : Bits) : isNaN b = true ↔ b.toNat / 2 ^ 52 % 2 ^ 11 = 2047 ∧ b.toNat % 2 ^ 52 ≠ 0 := by
  unfold isNaN
  rw [expField_toNat, fracField_toNat]
  simp

theorem not_isNaN_of_le (m : Bits) (h : m.toNat ≤ 0x7FF0000000000000) : isNaN m = false := by
  cases hn : isNaN m with
  | false => rfl
  | true =>
    rw [isNaN_iff] at hn
    omega

theorem or_negZero_toNat_c04 (m : Bits) (h : m.toNat < 2 ^ 63) : (m ||| negZero).toNat = 2 ^ 63 + m.toNat := by
  rw [UInt64.toNat_or]
  have : negZero.toNat = 2 ^ 63 := by decide
  rw [this, Nat.or_comm]
  have := Nat.two_pow_add_eq_or_of_lt h 1
  simpa using this.symm

theorem not_isNaN_or_negZero (m : Bits) (h : m.toNat ≤ 0x7FF0000000000000) : isNaN (m ||| negZero) = false := by
  cases hn : isNaN (m ||| negZero) with
  | false => rfl
  | true =>
    rw [isNaN_iff, or_negZero_toNat_c04 m (by omega)] at hn
    omega

theorem roundMag_le (n d : Nat) : (roundMag n d).toNat ≤ 0x7FF0000000000000 := by
  unfold roundMag
  split
  · decide
  · simp only []
    split
    · decide
    · rename_i hlt
      rw [UInt64.toNat_ofNat']
      have : ∀ x : Nat, x % 2 ^ 64 ≤ x := fun x => Nat.mod_le _ _
      omega

theorem roundRat_not_nan (s : Bool) (n d : Nat) : isNaN (roundRat s n d) = false := by
  unfold roundRat
  simp only []
  split
  · exact not_isNaN_or_negZero _ (roundMag_le n d)
  · exact not_isNaN_of_le _ (roundMag_le n d)

/-- a NaN produced by `mul` is the canonical NaN of the model -/
theorem mul_nan_canon (a b : Bits) (h : isNaN (mul a b) = true) : mul a b = nan := by
  unfold mul at h ⊢
  split
  · rfl
  · rename_i h0
    rw [if_neg h0] at h
    simp only [] at h ⊢
    split at h
    · split at h
      · rename_i h1 h2; rw [if_pos h1, if_pos h2]
      · exfalso; revert h; cases (signBit a != signBit b) <;> decide
    · split at h
      · exfalso; revert h; cases (signBit a != signBit b) <;> decide
      · exfalso
        revert h
        rw [roundRat_not_nan]; decide

theorem mul_nan_left (a b : Bits) (h : isNaN a = true) : mul a b = nan := by
  unfold mul; simp [h]
end F64
