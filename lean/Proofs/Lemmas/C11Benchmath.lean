/-
C11: benchmath's `AssumeNothing.Compare` (model: `Stats.UStat.compareAssumeNothing`).

* `BM.countP_splits_compl`   choosing the complement: the assignments with `|l| − n` chosen are the
                             assignments with `n` chosen, sides exchanged
* `nullDist_swap_countP`     the null distribution of the swapped samples is the mirrored one
* `pLess_swap`, `pGreater_swap`   P(2U' ≤ c − u) for (x2, x1) is P(2U ≥ u) for (x1, x2)
* `compare_exact`            inside the exact regime the comparison is the exact two-sided
                             permutation p-value (tied or not)
* `compare_swap_symmetric`   and it does not depend on the order of the samples
* `compare_exact'`, `compare_swap_symmetric'`  the same needing the exact branch for one order only
* `…_driver`                 the same for the evaluator of the compiled driver
* `compare_example`          a tied pair of unequal sizes
-/
import Model.Stats.UDist
import Model.Stats.UStat
import Model.Spec.UExact
import Proofs.Lemmas.C11Rank
import Proofs.Lemmas.C11ErrIff
import Proofs.Lemmas.C11Compose
import Proofs.Lemmas.C11Untied
import Proofs.Lemmas.C11GroupsEnum
import Proofs.Lemmas.C11Relabel
import Proofs.Lemmas.C11EndToEnd
import Mathlib.Data.List.Basic
import Mathlib.Data.List.Count
import Mathlib.Data.List.Perm.Basic
import Mathlib.Algebra.Order.Field.Rat
import Mathlib.Tactic.Ring
import Mathlib.Tactic.Linarith

namespace C11.BM
open Stats Stats.UStat Spec.UExact

/-! ### the complement bijection on `splits` -/

theorem splits_gt {α : Type} (l : List α) : ∀ n, l.length < n → splits n l = [] := by
  induction l with
  | nil =>
    intro n h
    cases n with
    | zero => simp at h
    | succ n => rfl
  | cons a l ih =>
    intro n h
    cases n with
    | zero => simp at h
    | succ n =>
      simp only [List.length_cons] at h
      rw [splits, ih n (by omega), ih (n + 1) (by omega)]
      rfl

theorem splits_length_self {α : Type} (l : List α) : splits l.length l = [(l, [])] := by
  induction l with
  | nil => rfl
  | cons a l ih =>
    rw [List.length_cons, splits, ih, splits_gt l (l.length + 1) (by omega)]
    rfl

/-- choosing `|l| − n` elements is leaving `n` elements -/
theorem countP_splits_compl {α : Type} (l : List α) :
    ∀ (n : Nat) (Q : List α × List α → Bool), n ≤ l.length →
      (splits (l.length - n) l).countP Q = (splits n l).countP (fun p => Q (p.2, p.1)) := by
  induction l with
  | nil =>
    intro n Q h
    have : n = 0 := by simpa using h
    subst this
    rfl
  | cons a l ih =>
    intro n Q h
    simp only [List.length_cons] at h
    cases n with
    | zero =>
      rw [Nat.sub_zero, splits_length_self, GroupsEnum.splits_zero, List.countP_singleton,
        List.countP_singleton]
    | succ m =>
      by_cases hm : m = l.length
      · subst hm
        rw [List.length_cons, Nat.sub_self, ← List.length_cons (a := a), splits_length_self,
          GroupsEnum.splits_zero, List.countP_singleton, List.countP_singleton]
      · have e : (a :: l).length - (m + 1) = (l.length - (m + 1)) + 1 := by
          simp only [List.length_cons]; omega
        have e' : l.length - (m + 1) + 1 = l.length - m := by omega
        rw [e, Relabel.countP_splits_cons, Relabel.countP_splits_cons, e',
          ih (m + 1) _ (by omega), ih m _ (by omega)]
        exact Nat.add_comm _ _

section Swap
variable {α : Type} [LinearOrder α]

theorem permInv_twoU (P : Nat → Bool) :
    Relabel.PermInv (fun p : List α × List α => P (twoUPairs p.1 p.2)) := by
  intro p q h1 h2
  show P (twoUPairs p.1 p.2) = P (twoUPairs q.1 q.2)
  rw [twoUPairs_perm_left h1, twoUPairs_perm_right _ h2]

/-- on an assignment of the pooled sample the statistic of the exchanged sides is the mirrored one -/
theorem twoUPairs_swap_mem (x1 x2 : List α) (p : List α × List α)
    (hp : p ∈ splits x1.length (x1 ++ x2)) :
    twoUPairs p.1 p.2 ≤ 2 * (x1.length * x2.length)
      ∧ twoUPairs p.2 p.1 = 2 * (x1.length * x2.length) - twoUPairs p.1 p.2 := by
  obtain ⟨_, _, h3, h4⟩ := splits_mem_props x1.length (x1 ++ x2) p hp
  rw [List.length_append] at h4
  have hl2 : p.2.length = x2.length := by omega
  have hs := twoUPairs_swap p.1 p.2
  rw [h3, hl2, Nat.mul_assoc] at hs
  omega

/-- counting over the null distribution of the swapped samples is counting the mirrored values -/
theorem nullDist_swap_countP (x1 x2 : List α) (P : Nat → Bool) :
    (nullDist x2 x1).countP P
      = (nullDist x1 x2).countP (fun v => P (2 * (x1.length * x2.length) - v)) := by
  unfold nullDist nullDistOf
  rw [List.countP_map, List.countP_map]
  have hperm : (splits x2.length (x2 ++ x1)).countP (P ∘ fun p : List α × List α => twoUPairs p.1 p.2)
      = (splits x2.length (x1 ++ x2)).countP (P ∘ fun p : List α × List α => twoUPairs p.1 p.2) :=
    Relabel.countP_splits_perm (List.perm_append_comm : (x2 ++ x1).Perm (x1 ++ x2)) x2.length _
      (permInv_twoU (α := α) P)
  rw [hperm]
  have e : x2.length = (x1 ++ x2).length - x1.length := by
    rw [List.length_append]; omega
  have hle : x1.length ≤ (x1 ++ x2).length := by rw [List.length_append]; omega
  have h := countP_splits_compl (x1 ++ x2) x1.length
    (P ∘ fun p : List α × List α => twoUPairs p.1 p.2) hle
  rw [← e] at h
  rw [h]
  apply List.countP_congr
  intro p hp
  have := (twoUPairs_swap_mem x1 x2 p hp).2
  simp only [Function.comp_apply]
  rw [this]

theorem nullDist_swap_length (x1 x2 : List α) : (nullDist x2 x1).length = (nullDist x1 x2).length := by
  have := nullDist_swap_countP x1 x2 (fun _ => true)
  simpa using this

theorem nullDist_le (x1 x2 : List α) : ∀ v ∈ nullDist x1 x2, v ≤ 2 * (x1.length * x2.length) := by
  intro v hv
  unfold nullDist nullDistOf at hv
  obtain ⟨p, hp, rfl⟩ := List.mem_map.mp hv
  exact (twoUPairs_swap_mem x1 x2 p hp).1

end Swap

/-! ### benchmath's combination of the two one-sided values -/

theorem cap_eq_ratMin (y : Rat) : (if y ≤ 1 then y else 1) = ratMin 1 y := by
  unfold ratMin
  by_cases h : y ≤ 1
  · by_cases h' : (1 : Rat) ≤ y
    · rw [if_pos h, if_pos h']; exact le_antisymm h h'
    · rw [if_pos h, if_neg h']
  · have h' : (1 : Rat) ≤ y := le_of_lt (lt_of_not_ge h)
    rw [if_neg h, if_pos h']

theorem combine_eq (l1 l2 : Rat) :
    (if 2 * (if l1 ≤ l2 then l1 else l2) ≤ 1 then 2 * (if l1 ≤ l2 then l1 else l2) else 1)
      = ratMin 1 (2 * ratMin l1 l2) := by
  rw [cap_eq_ratMin]
  rfl

theorem ratMin_comm (a b : Rat) : ratMin a b = ratMin b a := by
  unfold ratMin
  by_cases h : a ≤ b
  · by_cases h' : b ≤ a
    · rw [if_pos h, if_pos h']; exact le_antisymm h h'
    · rw [if_pos h, if_neg h']
  · have h' : b ≤ a := le_of_lt (lt_of_not_ge h)
    rw [if_neg h, if_pos h']

/-! ### the exact branch does not depend on the order of the samples -/

section Branch
variable {α : Type} [LinearOrder α]

theorem sortF_eq_of_perm {l l' : List α} (h : l.Perm l') : sortF l = sortF l' := by
  apply List.Perm.eq_of_pairwise (le := (· ≤ ·)) (fun a b _ _ hab hba => le_antisymm hab hba)
  · exact sortF_sorted _
  · exact sortF_sorted _
  · exact (sortF_perm l).trans (h.trans (sortF_perm l').symm)

theorem tieVector_swap (x1 x2 : List α) : tieVector x2 x1 = tieVector x1 x2 := by
  rw [tie_vector_is_run_lengths, tie_vector_is_run_lengths,
    sortF_eq_of_perm (List.perm_append_comm : (x2 ++ x1).Perm (x1 ++ x2))]
  exact tieVectorOf_perm _ List.perm_append_comm

theorem hasTies_swap (x1 x2 : List α) :
    (ranks (labeledMerge (sortF x2) (sortF x1))).hasTies
      = (ranks (labeledMerge (sortF x1) (sortF x2))).hasTies := by
  rw [E2E.model_hasTies_eq, E2E.model_hasTies_eq, tieVector_swap]

theorem exactBranch_comm (t : Bool) (n1 n2 lim limT : Nat) :
    exactBranch t n2 n1 lim limT = exactBranch t n1 n2 lim limT := by
  unfold exactBranch
  cases t <;> simp [Bool.and_comm]

theorem exactBranch_swap (x1 x2 : List α) (lim limT : Nat)
    (hb : exactBranch (ranks (labeledMerge (sortF x1) (sortF x2))).hasTies x1.length x2.length
      lim limT = true) :
    exactBranch (ranks (labeledMerge (sortF x2) (sortF x1))).hasTies x2.length x1.length
      lim limT = true := by
  rw [hasTies_swap, exactBranch_comm]
  exact hb

theorem allEqual_swap (x1 x2 : List α) (hne : allEqual x1 x2 = false) : allEqual x2 x1 = false := by
  cases h : allEqual x2 x1 with
  | false => rfl
  | true =>
    have h' : allEqual x1 x2 = true := by
      rw [ErrIff.allEqual_iff] at h ⊢
      intro a ha b hb
      exact h a (List.perm_append_comm.mem_iff.mp ha) b (List.perm_append_comm.mem_iff.mp hb)
    rw [h'] at hne
    cases hne

end Branch

end C11.BM

namespace C11
open Stats Stats.UStat Spec.UExact

section Benchmath
variable {α : Type} [LinearOrder α]

/-! ### GOAL 1: swapping the samples mirrors the null distribution -/

/-- **pLess_swap.** `P(2U' ≤ c − u)` over the assignments for `(x2, x1)` is `P(2U ≥ u)` over the
    assignments for `(x1, x2)`, `c = 2·n1·n2`. -/
theorem pLess_swap (x1 x2 : List α) (u : Nat) (hu : u ≤ 2 * (x1.length * x2.length)) :
    Spec.UExact.pLess (Spec.UExact.nullDist x2 x1) (2 * (x1.length * x2.length) - u)
      = Spec.UExact.pGreater (Spec.UExact.nullDist x1 x2) u := by
  unfold pLess pGreater
  rw [BM.nullDist_swap_length x1 x2, ← List.countP_eq_length_filter, ← List.countP_eq_length_filter,
    BM.nullDist_swap_countP x1 x2]
  have e : (nullDist x1 x2).countP
        (fun v => decide (2 * (x1.length * x2.length) - v ≤ 2 * (x1.length * x2.length) - u))
      = (nullDist x1 x2).countP (fun v => decide (v ≥ u)) := by
    apply List.countP_congr
    intro v hv
    have := BM.nullDist_le x1 x2 v hv
    simp only [decide_eq_true_eq, ge_iff_le]
    omega
  rw [e]

/-- **pGreater_swap.** the other direction -/
theorem pGreater_swap (x1 x2 : List α) (u : Nat) (hu : u ≤ 2 * (x1.length * x2.length)) :
    Spec.UExact.pGreater (Spec.UExact.nullDist x2 x1) (2 * (x1.length * x2.length) - u)
      = Spec.UExact.pLess (Spec.UExact.nullDist x1 x2) u := by
  unfold pLess pGreater
  rw [BM.nullDist_swap_length x1 x2, ← List.countP_eq_length_filter, ← List.countP_eq_length_filter,
    BM.nullDist_swap_countP x1 x2]
  have e : (nullDist x1 x2).countP
        (fun v => decide (2 * (x1.length * x2.length) - v ≥ 2 * (x1.length * x2.length) - u))
      = (nullDist x1 x2).countP (fun v => decide (v ≤ u)) := by
    apply List.countP_congr
    intro v hv
    have := BM.nullDist_le x1 x2 v hv
    simp only [decide_eq_true_eq, ge_iff_le]
    omega
  rw [e]

/-- the statistic of the swapped samples -/
theorem twoUPairs_swap_eq (x1 x2 : List α) :
    Spec.UExact.twoUPairs x2 x1 = 2 * (x1.length * x2.length) - Spec.UExact.twoUPairs x1 x2 := by
  have := twoUPairs_swap x1 x2
  rw [Nat.mul_assoc] at this
  omega

/-- the two-sided exact value does not depend on the order of the samples -/
theorem pTwoSided_swap (x1 x2 : List α) :
    Spec.UExact.pTwoSided (Spec.UExact.nullDist x2 x1) (Spec.UExact.twoUPairs x2 x1)
      = Spec.UExact.pTwoSided (Spec.UExact.nullDist x1 x2) (Spec.UExact.twoUPairs x1 x2) := by
  unfold pTwoSided
  rw [twoUPairs_swap_eq x1 x2, pLess_swap x1 x2 _ (E2E.twoUPairs_le x1 x2),
    pGreater_swap x1 x2 _ (E2E.twoUPairs_le x1 x2),
    BM.ratMin_comm (pGreater (nullDist x1 x2) (twoUPairs x1 x2))]

/-! ### GOAL 2: benchmath's comparison inside the exact regime -/

/-- the comparison for any two one-sided outcomes of the exact branch -/
theorem compare_shape (cdf : Nat → Nat → List Nat → Int → Rat) (lim limT : Nat) (x1 x2 : List α)
    (a b c : Int) (p l1 l2 : Rat)
    (hd : mannWhitney cdf lim limT x1 x2 .differs = .exact a p)
    (hl1 : mannWhitney cdf lim limT x1 x2 .less = .exact b l1)
    (hl2 : mannWhitney cdf lim limT x2 x1 .less = .exact c l2) :
    compareAssumeNothing cdf lim limT x1 x2 = .ok (Spec.UExact.ratMin 1 (2 * Spec.UExact.ratMin l1 l2)) := by
  unfold compareAssumeNothing
  rw [hd, hl1, hl2]
  simp only
  rw [BM.combine_eq]

/-- **compare_exact.** Inside the exact regime (both orders) benchmath's comparison is the exact
    two-sided permutation p-value of the samples, tied or not. -/
theorem compare_exact (x1 x2 : List α) (lim limT : Nat)
    (h1 : x1 ≠ []) (h2 : x2 ≠ []) (hne : Spec.UExact.allEqual x1 x2 = false)
    (hb : exactBranch (ranks (labeledMerge (sortF x1) (sortF x2))).hasTies x1.length x2.length
      lim limT = true)
    (hb' : exactBranch (ranks (labeledMerge (sortF x2) (sortF x1))).hasTies x2.length x1.length
      lim limT = true) :
    compareAssumeNothing Stats.UDist.cdfPure lim limT x1 x2
      = .ok (Spec.UExact.pTwoSided (Spec.UExact.nullDist x1 x2) (Spec.UExact.twoUPairs x1 x2)) := by
  rw [compare_shape _ lim limT x1 x2 _ _ _ _ _ _
    (exact_outcome_shape _ lim limT x1 x2 .differs h1 h2 hne hb)
    (less_exact x1 x2 lim limT h1 h2 hne hb)
    (less_exact x2 x1 lim limT h2 h1 (BM.allEqual_swap x1 x2 hne) hb')]
  unfold pTwoSided
  rw [twoUPairs_swap_eq x1 x2, pLess_swap x1 x2 _ (E2E.twoUPairs_le x1 x2)]

/-- **compare_swap_symmetric.** Inside the exact regime the comparison does not depend on the order
    of the samples. -/
theorem compare_swap_symmetric (x1 x2 : List α) (lim limT : Nat)
    (h1 : x1 ≠ []) (h2 : x2 ≠ []) (hne : Spec.UExact.allEqual x1 x2 = false)
    (hb : exactBranch (ranks (labeledMerge (sortF x1) (sortF x2))).hasTies x1.length x2.length
      lim limT = true)
    (hb' : exactBranch (ranks (labeledMerge (sortF x2) (sortF x1))).hasTies x2.length x1.length
      lim limT = true) :
    compareAssumeNothing Stats.UDist.cdfPure lim limT x1 x2
      = compareAssumeNothing Stats.UDist.cdfPure lim limT x2 x1 := by
  rw [compare_exact x1 x2 lim limT h1 h2 hne hb hb',
    compare_exact x2 x1 lim limT h2 h1 (BM.allEqual_swap x1 x2 hne) hb' hb, pTwoSided_swap]

/-- the exact branch is taken for both orders or for none -/
theorem exactBranch_swap_iff (x1 x2 : List α) (lim limT : Nat) :
    exactBranch (ranks (labeledMerge (sortF x2) (sortF x1))).hasTies x2.length x1.length lim limT
      = exactBranch (ranks (labeledMerge (sortF x1) (sortF x2))).hasTies x1.length x2.length
          lim limT := by
  rw [BM.hasTies_swap, BM.exactBranch_comm]

/-- **compare_exact'.** `compare_exact` needing the exact branch for one order only. -/
theorem compare_exact' (x1 x2 : List α) (lim limT : Nat)
    (h1 : x1 ≠ []) (h2 : x2 ≠ []) (hne : Spec.UExact.allEqual x1 x2 = false)
    (hb : exactBranch (ranks (labeledMerge (sortF x1) (sortF x2))).hasTies x1.length x2.length
      lim limT = true) :
    compareAssumeNothing Stats.UDist.cdfPure lim limT x1 x2
      = .ok (Spec.UExact.pTwoSided (Spec.UExact.nullDist x1 x2) (Spec.UExact.twoUPairs x1 x2)) :=
  compare_exact x1 x2 lim limT h1 h2 hne hb (BM.exactBranch_swap x1 x2 lim limT hb)

/-- **compare_swap_symmetric'.** -/
theorem compare_swap_symmetric' (x1 x2 : List α) (lim limT : Nat)
    (h1 : x1 ≠ []) (h2 : x2 ≠ []) (hne : Spec.UExact.allEqual x1 x2 = false)
    (hb : exactBranch (ranks (labeledMerge (sortF x1) (sortF x2))).hasTies x1.length x2.length
      lim limT = true) :
    compareAssumeNothing Stats.UDist.cdfPure lim limT x1 x2
      = compareAssumeNothing Stats.UDist.cdfPure lim limT x2 x1 :=
  compare_swap_symmetric x1 x2 lim limT h1 h2 hne hb (BM.exactBranch_swap x1 x2 lim limT hb)

/-! ### the evaluator of the compiled driver -/

theorem compare_cdf_eq (lim limT : Nat) (x1 x2 : List α) :
    compareAssumeNothing Stats.UDist.cdf lim limT x1 x2
      = compareAssumeNothing Stats.UDist.cdfPure lim limT x1 x2 := by
  rw [cdf_eq_cdfPure_fun]

theorem compare_exact_driver (x1 x2 : List α) (lim limT : Nat)
    (h1 : x1 ≠ []) (h2 : x2 ≠ []) (hne : Spec.UExact.allEqual x1 x2 = false)
    (hb : exactBranch (ranks (labeledMerge (sortF x1) (sortF x2))).hasTies x1.length x2.length
      lim limT = true) :
    compareAssumeNothing Stats.UDist.cdf lim limT x1 x2
      = .ok (Spec.UExact.pTwoSided (Spec.UExact.nullDist x1 x2) (Spec.UExact.twoUPairs x1 x2)) := by
  rw [compare_cdf_eq, compare_exact' x1 x2 lim limT h1 h2 hne hb]

theorem compare_swap_symmetric_driver (x1 x2 : List α) (lim limT : Nat)
    (h1 : x1 ≠ []) (h2 : x2 ≠ []) (hne : Spec.UExact.allEqual x1 x2 = false)
    (hb : exactBranch (ranks (labeledMerge (sortF x1) (sortF x2))).hasTies x1.length x2.length
      lim limT = true) :
    compareAssumeNothing Stats.UDist.cdf lim limT x1 x2
      = compareAssumeNothing Stats.UDist.cdf lim limT x2 x1 := by
  rw [compare_cdf_eq, compare_cdf_eq, compare_swap_symmetric' x1 x2 lim limT h1 h2 hne hb]

end Benchmath

end C11

/-! ### GOAL 3: a tied pair of unequal sizes -/

namespace C11.BM
open Stats Stats.UStat Spec.UExact

theorem example_merged :
    labeledMerge (sortF [(1 : Int)]) (sortF [(0 : Int), 0]) = [(0, false), (0, false), (1, true)] := by
  simp [sortF, insertSorted, labeledMerge]

theorem example_branch :
    exactBranch (ranks (labeledMerge (sortF [(1 : Int)]) (sortF [(0 : Int), 0]))).hasTies
      [(1 : Int)].length [(0 : Int), 0].length 50 25 = true := by
  rw [example_merged]
  decide

theorem example_spec :
    pTwoSided (nullDist [(1 : Int)] [0, 0]) (twoUPairs [(1 : Int)] [0, 0]) = 2 / 3 := by
  decide +kernel

end C11.BM

namespace C11
open Stats Stats.UStat Spec.UExact

/-- **compare_example.** one against two tied smaller values: the comparison is 2/3, obtained from
    `compare_exact'` -/
theorem compare_example :
    compareAssumeNothing Stats.UDist.cdfPure 50 25 [(1 : Int)] [0, 0] = .ok (2 / 3) := by
  have h := compare_exact' [(1 : Int)] [0, 0] 50 25 (by simp) (by simp) (by decide)
    BM.example_branch
  rw [BM.example_spec] at h
  exact h

/-- the same in the other order, by symmetry -/
theorem compare_example_swapped :
    compareAssumeNothing Stats.UDist.cdfPure 50 25 [(0 : Int), 0] [1] = .ok (2 / 3) := by
  rw [← compare_swap_symmetric' [(1 : Int)] [0, 0] 50 25 (by simp) (by simp) (by decide)
    BM.example_branch]
  exact compare_example

end C11
