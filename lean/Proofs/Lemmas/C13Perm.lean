/-
C13 helper lemmas for the specification-level permutation p-value (Model/Spec/MathSpec):
range, invariance under strictly monotone maps (rescaling), invariance under reordering.
-/
import Mathlib.Algebra.Order.Field.Rat
import Mathlib.Algebra.Order.Field.Basic
import Mathlib.Tactic.Linarith
import Mathlib.Tactic.Ring
import Mathlib.Order.Monotone.Basic
import Model.Spec.MathSpec

namespace C13
open Spec.MathSpec

/-! ### the combination min(1, 2·min(a, b)) -/

theorem rmin_eq_min (a b : Rat) : rmin a b = min a b := by
  unfold rmin; split
  · rename_i h; exact (min_eq_left h).symm
  · rename_i h; exact (min_eq_right (le_of_lt (not_le.mp h))).symm

theorem combine2_comm (a b : Rat) : combine2 a b = combine2 b a := by
  simp only [combine2, rmin_eq_min, min_comm a b]

theorem combine2_range (a b : Rat) (ha : 0 ≤ a) (hb : 0 ≤ b) : 0 ≤ combine2 a b ∧ combine2 a b ≤ 1 := by
  simp only [combine2, rmin_eq_min]
  constructor
  · apply le_min (by norm_num)
    have : 0 ≤ min a b := le_min ha hb
    linarith
  · exact min_le_left _ _

section
variable {α : Type} [LinearOrder α]

theorem tailLower_nonneg (x1 x2 : List α) : 0 ≤ tailLower x1 x2 := by
  unfold tailLower
  exact div_nonneg (by exact_mod_cast Nat.zero_le _) (by exact_mod_cast Nat.zero_le _)

theorem tailUpper_nonneg (x1 x2 : List α) : 0 ≤ tailUpper x1 x2 := by
  unfold tailUpper
  exact div_nonneg (by exact_mod_cast Nat.zero_le _) (by exact_mod_cast Nat.zero_le _)

/-! ### strictly monotone maps -/

variable {β : Type} [LinearOrder β]

theorem pairW_map (f : α → β) (hf : StrictMono f) (a b : α) : pairW (f a) (f b) = pairW a b := by
  unfold pairW
  simp only [hf.lt_iff_lt, hf.injective.eq_iff]

theorem twoU_map (f : α → β) (hf : StrictMono f) (x1 x2 : List α) :
    twoU (x1.map f) (x2.map f) = twoU x1 x2 := by
  unfold twoU
  simp only [List.map_map, Function.comp_def, pairW_map f hf]

omit [LinearOrder α] [LinearOrder β] in
theorem splits_map (f : α → β) (l : List α) : ∀ n,
    splits n (l.map f) = (splits n l).map (fun p => (p.1.map f, p.2.map f)) := by
  induction l with
  | nil => intro n; cases n <;> simp [splits]
  | cons a l ih =>
    intro n
    cases n with
    | zero => simp [splits]
    | succ n =>
      simp only [List.map_cons, splits, ih, List.map_append, List.map_map]
      rfl

theorem nullDist_map (f : α → β) (hf : StrictMono f) (n : Nat) (l : List α) :
    nullDist n (l.map f) = nullDist n l := by
  unfold nullDist
  rw [splits_map, List.map_map]
  apply List.map_congr_left
  intro p _
  simp [twoU_map f hf]

theorem pPerm_map (f : α → β) (hf : StrictMono f) (x1 x2 : List α) :
    pPerm (x1.map f) (x2.map f) = pPerm x1 x2 := by
  unfold pPerm tailLower tailUpper
  simp only [← List.map_append, nullDist_map f hf, twoU_map f hf, List.length_map]

end

/-! ### reordering -/

section
variable {α : Type}

def consL (a : α) (p : List α × List α) : List α × List α := (a :: p.1, p.2)
def consR (a : α) (p : List α × List α) : List α × List α := (p.1, a :: p.2)

theorem splits_succ_cons (n : Nat) (a : α) (l : List α) :
    splits (n + 1) (a :: l) = (splits n l).map (consL a) ++ (splits (n + 1) l).map (consR a) := rfl

theorem splits_zero (l : List α) : splits 0 l = [([], l)] := by cases l <;> rfl

theorem splits_zero_cons (a : α) (l : List α) : splits 0 (a :: l) = (splits 0 l).map (consR a) := by
  simp [splits_zero, consR]

/-- `f` does not depend on the order inside either part -/
def PermInv (f : List α × List α → Nat) : Prop :=
  ∀ p q : List α × List α, p.1.Perm q.1 → p.2.Perm q.2 → f p = f q

theorem PermInv.consL {f : List α × List α → Nat} (hf : PermInv f) (a : α) : PermInv (f ∘ consL a) :=
  fun _ _ h1 h2 => hf _ _ (List.Perm.cons a h1) h2

theorem PermInv.consR {f : List α × List α → Nat} (hf : PermInv f) (a : α) : PermInv (f ∘ consR a) :=
  fun _ _ h1 h2 => hf _ _ h1 (List.Perm.cons a h2)

/-- the family of labelings of a reordered pool is the same family, up to order -/
theorem splits_perm {l1 l2 : List α} (h : l1.Perm l2) :
    ∀ (n : Nat) (f : List α × List α → Nat), PermInv f →
      ((splits n l1).map f).Perm ((splits n l2).map f) := by
  induction h with
  | nil => intro n f _; exact List.Perm.refl _
  | @cons a l1' l2' h ih =>
    intro n f hf
    cases n with
    | zero =>
      simp only [splits_zero, List.map_cons, List.map_nil]
      rw [hf ([], a :: l1') ([], a :: l2') (List.Perm.refl _) (List.Perm.cons a h)]
    | succ n =>
      simp only [splits_succ_cons, List.map_append, List.map_map]
      exact List.Perm.append (ih n _ (hf.consL a)) (ih (n + 1) _ (hf.consR a))
  | swap a b l =>
    intro n f hf
    have hLL : ∀ p : List α × List α, (f ∘ consL b ∘ consL a) p = (f ∘ consL a ∘ consL b) p :=
      fun p => hf _ _ (List.Perm.swap _ _ _) (List.Perm.refl _)
    have hRR : ∀ p : List α × List α, (f ∘ consR b ∘ consR a) p = (f ∘ consR a ∘ consR b) p :=
      fun p => hf _ _ (List.Perm.refl _) (List.Perm.swap _ _ _)
    have hLR : (f ∘ consL b ∘ consR a) = (f ∘ consR a ∘ consL b) := rfl
    have hRL : (f ∘ consR b ∘ consL a) = (f ∘ consL a ∘ consR b) := rfl
    cases n with
    | zero =>
      simp only [splits_zero, List.map_cons, List.map_nil]
      rw [hf ([], b :: a :: l) ([], a :: b :: l) (List.Perm.refl _) (List.Perm.swap _ _ _)]
    | succ n =>
      cases n with
      | zero =>
        simp only [splits_succ_cons, splits_zero_cons, List.map_append, List.map_map]
        rw [List.map_congr_left (fun p _ => hRR p), hLR, hRL]
        rw [List.perm_iff_count]
        intro x
        simp only [List.count_append]
        omega
      | succ n =>
        simp only [splits_succ_cons, List.map_append, List.map_map]
        rw [List.map_congr_left (fun p _ => hRR p), List.map_congr_left (fun p _ => hLL p), hLR, hRL]
        rw [List.perm_iff_count]
        intro x
        simp only [List.count_append]
        omega
  | trans _ _ ih1 ih2 =>
    intro n f hf
    exact (ih1 n f hf).trans (ih2 n f hf)

end

section
variable {α : Type} [LinearOrder α]

theorem twoU_perm {x1 y1 x2 y2 : List α} (h1 : x1.Perm y1) (h2 : x2.Perm y2) : twoU x1 x2 = twoU y1 y2 := by
  unfold twoU
  have inner : ∀ a : α, (x2.map fun b => pairW a b).sum = (y2.map fun b => pairW a b).sum :=
    fun a => (h2.map _).sum_nat
  simp only [inner]
  exact (h1.map _).sum_nat

theorem twoU_permInv : PermInv (fun p : List α × List α => twoU p.1 p.2) :=
  fun _ _ h1 h2 => twoU_perm h1 h2

theorem nullDist_perm {l1 l2 : List α} (h : l1.Perm l2) (n : Nat) : (nullDist n l1).Perm (nullDist n l2) :=
  splits_perm h n _ twoU_permInv

theorem countLE_perm {d1 d2 : List Nat} (h : d1.Perm d2) (u : Nat) : countLE d1 u = countLE d2 u :=
  (h.filter _).length_eq

theorem countGE_perm {d1 d2 : List Nat} (h : d1.Perm d2) (u : Nat) : countGE d1 u = countGE d2 u :=
  (h.filter _).length_eq

theorem pPerm_perm {x1 y1 x2 y2 : List α} (h1 : x1.Perm y1) (h2 : x2.Perm y2) : pPerm x1 x2 = pPerm y1 y2 := by
  have hd := nullDist_perm (h1.append h2) x1.length
  unfold pPerm tailLower tailUpper
  simp only [← h1.length_eq, twoU_perm h1 h2, countLE_perm hd, countGE_perm hd, hd.length_eq]

end

/-! ### swapping the samples -/

section
variable {α : Type}

theorem splits_gt (l : List α) : ∀ n, l.length < n → splits n l = [] := by
  induction l with
  | nil => intro n h; cases n with
    | zero => simp at h
    | succ n => rfl
  | cons a l ih =>
    intro n h
    cases n with
    | zero => simp at h
    | succ n =>
      simp only [List.length_cons] at h
      rw [splits_succ_cons, ih n (by omega), ih (n + 1) (by omega)]; rfl

theorem splits_length_self (l : List α) : splits l.length l = [(l, [])] := by
  induction l with
  | nil => rfl
  | cons a l ih =>
    simp only [List.length_cons]
    rw [splits_succ_cons, ih, splits_gt l (l.length + 1) (by omega)]; rfl

theorem splits_lengths (l : List α) : ∀ n, ∀ p ∈ splits n l, p.1.length = n ∧ p.1.length + p.2.length = l.length := by
  induction l with
  | nil =>
    intro n p hp
    cases n with
    | zero => simp [splits] at hp; subst hp; simp
    | succ n => simp [splits] at hp
  | cons a l ih =>
    intro n p hp
    cases n with
    | zero => simp [splits_zero] at hp; subst hp; simp
    | succ n =>
      rw [splits_succ_cons] at hp
      rcases List.mem_append.mp hp with h | h
      · obtain ⟨q, hq, rfl⟩ := List.mem_map.mp h
        have := ih n q hq
        simp [consL]; omega
      · obtain ⟨q, hq, rfl⟩ := List.mem_map.mp h
        have := ih (n + 1) q hq
        simp [consR]; omega

theorem swap_consL (a : α) (p : List α × List α) : Prod.swap (consL a p) = consR a (Prod.swap p) := rfl
theorem swap_consR (a : α) (p : List α × List α) : Prod.swap (consR a p) = consL a (Prod.swap p) := rfl

/-- choosing the complement: labelings with `len − n` firsts, parts exchanged, are the labelings
with `n` firsts -/
theorem splits_compl (l : List α) : ∀ n, n ≤ l.length →
    ((splits (l.length - n) l).map Prod.swap).Perm (splits n l) := by
  induction l with
  | nil => intro n h; simp at h; subst h; exact List.Perm.refl _
  | cons a l ih =>
    intro n h
    simp only [List.length_cons] at h ⊢
    cases n with
    | zero =>
      simp only [Nat.sub_zero]
      rw [splits_succ_cons, splits_gt l (l.length + 1) (by omega), splits_zero_cons]
      simp only [List.map_nil, List.append_nil, List.map_map]
      have := (ih 0 (Nat.zero_le _)).map (consR a)
      simp only [Nat.sub_zero, List.map_map] at this
      exact this
    | succ m =>
      have hm : m ≤ l.length := by omega
      have e : l.length + 1 - (m + 1) = l.length - m := by omega
      rw [e]
      rcases Nat.eq_zero_or_pos (l.length - m) with h0 | hpos
      · have hml : m = l.length := by omega
        subst hml
        rw [h0, splits_zero, splits_succ_cons, splits_length_self, splits_gt l (l.length + 1) (by omega)]
        exact List.Perm.refl _
      · obtain ⟨k, hk⟩ : ∃ k, l.length - m = k + 1 := ⟨l.length - m - 1, by omega⟩
        rw [hk, splits_succ_cons, splits_succ_cons]
        simp only [List.map_append, List.map_map]
        have hk1 : k = l.length - (m + 1) := by omega
        have ih1 := (ih (m + 1) (by omega)).map (consR a)
        have ih2 := (ih m hm).map (consL a)
        rw [← hk1] at ih1
        rw [hk] at ih2
        simp only [List.map_map] at ih1 ih2
        have e1 : (Prod.swap ∘ consL a : List α × List α → _) = consR a ∘ Prod.swap := rfl
        have e2 : (Prod.swap ∘ consR a : List α × List α → _) = consL a ∘ Prod.swap := rfl
        rw [e1, e2]
        exact (List.Perm.append ih1 ih2).trans List.perm_append_comm
end

section
variable {α : Type} [LinearOrder α]

theorem pairW_add (a b : α) : pairW a b + pairW b a = 2 := by
  unfold pairW
  rcases lt_trichotomy a b with h | h | h
  · have h1 : ¬ b < a := not_lt.mpr (le_of_lt h)
    have h2 : a ≠ b := ne_of_lt h
    simp [h, h1, h2]
  · subst h; simp
  · have h1 : ¬ a < b := not_lt.mpr (le_of_lt h)
    have h2 : b ≠ a := ne_of_lt h
    simp [h, h1, h2]

theorem pair_sums (a : α) (y : List α) :
    (y.map (pairW a)).sum + (y.map (fun b => pairW b a)).sum = 2 * y.length := by
  induction y with
  | nil => simp
  | cons b y ih =>
    simp only [List.map_cons, List.sum_cons, List.length_cons]
    have := pairW_add a b
    omega

theorem twoU_cons_left (a : α) (x y : List α) : twoU (a :: x) y = (y.map (pairW a)).sum + twoU x y := by
  simp [twoU]

theorem twoU_cons_right (a : α) (x y : List α) :
    twoU y (a :: x) = (y.map (fun b => pairW b a)).sum + twoU y x := by
  induction y with
  | nil => simp [twoU]
  | cons b y ih =>
    rw [twoU_cons_left, twoU_cons_left, ih]
    simp only [List.map_cons, List.sum_cons]
    omega

theorem twoU_nil_right (y : List α) : twoU y [] = 0 := by
  induction y with
  | nil => rfl
  | cons b y ih => rw [twoU_cons_left]; simp [ih]

/-- U₁ + U₂ = n₁·n₂ (in 2·U units) -/
theorem twoU_swap (x y : List α) : twoU x y + twoU y x = 2 * x.length * y.length := by
  induction x with
  | nil => rw [twoU_nil_right]; simp [twoU]
  | cons a x ih =>
    rw [twoU_cons_left, twoU_cons_right]
    have := pair_sums a y
    simp only [List.length_cons]
    have e : 2 * (x.length + 1) * y.length = 2 * y.length + 2 * x.length * y.length := by ring
    omega

theorem tails_swap (x1 x2 : List α) :
    tailLower x2 x1 = tailUpper x1 x2 ∧ tailUpper x2 x1 = tailLower x1 x2 := by
  set M := 2 * x1.length * x2.length with hM
  have hu := twoU_swap x1 x2
  have hpool : (x2 ++ x1).Perm (x1 ++ x2) := List.perm_append_comm
  have hlen : (x1 ++ x2).length - x1.length = x2.length := by simp
  -- the null distribution of the swapped problem is M − (the null distribution)
  have hd : (nullDist x2.length (x2 ++ x1)).Perm ((nullDist x1.length (x1 ++ x2)).map (fun u => M - u)) := by
    refine (nullDist_perm hpool x2.length).trans ?_
    have hc := splits_compl (x1 ++ x2) x1.length (by simp)
    rw [hlen] at hc
    have h1 : nullDist x2.length (x1 ++ x2) =
        ((splits x2.length (x1 ++ x2)).map Prod.swap).map (fun p => twoU p.2 p.1) := by
      simp [nullDist, List.map_map, Function.comp_def]
    rw [h1]
    refine (hc.map _).trans ?_
    unfold nullDist
    rw [List.map_map]
    apply List.Perm.of_eq
    apply List.map_congr_left
    intro p hp
    have hl := splits_lengths (x1 ++ x2) x1.length p hp
    have hs := twoU_swap p.1 p.2
    have h2 : p.2.length = x2.length := by simp at hl; omega
    simp only [Function.comp_def]
    rw [hl.1, h2] at hs
    omega
  have hbound : ∀ u ∈ nullDist x1.length (x1 ++ x2), u ≤ M := by
    intro u hu'
    unfold nullDist at hu'
    obtain ⟨p, hp, rfl⟩ := List.mem_map.mp hu'
    have hl := splits_lengths (x1 ++ x2) x1.length p hp
    have hs := twoU_swap p.1 p.2
    have h2 : p.2.length = x2.length := by simp at hl; omega
    rw [hl.1, h2] at hs
    omega
  have hu1 : twoU x2 x1 = M - twoU x1 x2 := by omega
  have hule : twoU x1 x2 ≤ M := by omega
  have hcLE : countLE (nullDist x2.length (x2 ++ x1)) (twoU x2 x1) =
      countGE (nullDist x1.length (x1 ++ x2)) (twoU x1 x2) := by
    rw [countLE_perm hd, hu1]
    unfold countLE countGE
    rw [List.filter_map, List.length_map]
    congr 1
    apply List.filter_congr
    intro u hu'
    have := hbound u hu'
    simp only [Function.comp_def, decide_eq_decide]
    omega
  have hcGE : countGE (nullDist x2.length (x2 ++ x1)) (twoU x2 x1) =
      countLE (nullDist x1.length (x1 ++ x2)) (twoU x1 x2) := by
    rw [countGE_perm hd, hu1]
    unfold countLE countGE
    rw [List.filter_map, List.length_map]
    congr 1
    apply List.filter_congr
    intro u hu'
    have := hbound u hu'
    simp only [Function.comp_def, decide_eq_decide]
    omega
  have hlen2 : (nullDist x2.length (x2 ++ x1)).length = (nullDist x1.length (x1 ++ x2)).length := by
    rw [hd.length_eq, List.length_map]
  unfold tailLower tailUpper
  simp only [hcLE, hcGE, hlen2]
  exact ⟨trivial, trivial⟩

theorem pPerm_swap (x1 x2 : List α) : pPerm x1 x2 = pPerm x2 x1 := by
  unfold pPerm
  rw [(tails_swap x1 x2).1, (tails_swap x1 x2).2]
  exact combine2_comm _ _

end

end C13
