/-
C13 helper lemmas for the specification-level permutation p-value (Model/Spec/MathSpec):
range, invariance under strictly monotone maps (rescaling), invariance under reordering.
-/
import Mathlib.Algebra.Order.Field.Rat
import Mathlib.Algebra.Order.Field.Basic
import Mathlib.Tactic.Linarith
import Mathlib.Tactic.Ring
import Mathlib.Order.Monotone.Basic
import Model.Spec.MathSpec

namespace C13
open Spec.MathSpec

/-! ### the combination min(1, 2·min(a, b)) -/

theorem rmin_eq_min (a b : Rat) : rmin a b = min a b := by
  unfold rmin; split
  · rename_i h; exact (min_eq_left h).symm
  · rename_i h; exact (min_eq_right (le_of_lt (not_le.mp h))).symm

theorem combine2_comm (a b : Rat) : combine2 a b = combine2 b a := by
  simp only [combine2, rmin_eq_min, min_comm a b]

theorem combine2_range (a b : Rat) (ha : 0 ≤ a) (hb : 0 ≤ b) : 0 ≤ combine2 a b ∧ combine2 a b ≤ 1 := by
  simp only [combine2, rmin_eq_min]
  constructor
  · apply le_min (by norm_num)
    have : 0 ≤ min a b := le_min ha hb
    linarith
  · exact min_le_left _ _

section
variable {α : Type} [LinearOrder α]

theorem tailLower_nonneg (x1 x2 : List α) : 0 ≤ tailLower x1 x2 := by
  unfold tailLower
  exact div_nonneg (by exact_mod_cast Nat.zero_le _) (by exact_mod_cast Nat.zero_le _)

theorem tailUpper_nonneg (x1 x2 : List α) : 0 ≤ tailUpper x1 x2 := by
  unfold tailUpper
  exact div_nonneg (by exact_mod_cast Nat.zero_le _) (by exact_mod_cast Nat.zero_le _)

/-! ### strictly monotone maps -/

variable {β : Type} [LinearOrder β]

theorem pairW_map (f : α → β) (hf : StrictMono f) (a b : α) : pairW (f a) (f b) = pairW a b := by
  unfold pairW
  simp only [hf.lt_iff_lt, hf.injective.eq_iff]

theorem twoU_map (f : α → β) (hf : StrictMono f) (x1 x2 : List α) :
    twoU (x1.map f) (x2.map f) = twoU x1 x2 := by
  unfold twoU
  simp only [List.map_map, Function.comp_def, pairW_map f hf]

theorem splits_map (f : α → β) (l : List α) : ∀ n,
    splits n (l.map f) = (splits n l).map (fun p => (p.1.map f, p.2.map f)) := by
  induction l with
  | nil => intro n; cases n <;> simp [splits]
  | cons a l ih =>
    intro n
    cases n with
    | zero => simp [splits]
    | succ n =>
      simp only [List.map_cons, splits, ih, List.map_append, List.map_map]
      rfl

theorem nullDist_map (f : α → β) (hf : StrictMono f) (n : Nat) (l : List α) :
    nullDist n (l.map f) = nullDist n l := by
  unfold nullDist
  rw [splits_map, List.map_map]
  apply List.map_congr_left
  intro p _
  simp [twoU_map f hf]

theorem pPerm_map (f : α → β) (hf : StrictMono f) (x1 x2 : List α) :
    pPerm (x1.map f) (x2.map f) = pPerm x1 x2 := by
  unfold pPerm tailLower tailUpper
  simp only [← List.map_append, nullDist_map f hf, twoU_map f hf, List.length_map]

end

end C13
