/-
The regexp matcher as a parameter `rx : source → value → Bool` (what Go's regexp decides): the
oracle index `reId src` used by the tree vocabulary is an injective numbering, so every `rx` is
an oracle (`oracleOf rx`).  Also: the matcher `rxLit` of the literal sub-language.
-/
import Model.Proc.FilterText
import Proofs.Lemmas.C06LitRe

namespace C06
open Proc.FilterText Proc.FilterEval

def idOf (acc : Nat) (s : Bytes) : Nat := s.foldl (fun a b => a * 256 + b.toNat) acc

theorem reId_eq (s : Bytes) : reId s = idOf 1 s := rfl

theorem idOf_snoc (acc : Nat) (s : Bytes) (b : UInt8) : idOf acc (s ++ [b]) = idOf acc s * 256 + b.toNat := by
  simp [idOf, List.foldl_append]

theorem idOf_pos_rev (r : Bytes) : r.reverse.length < idOf 1 r.reverse := by
  induction r with
  | nil => simp [idOf]
  | cons b r ih => rw [List.reverse_cons, idOf_snoc]; simp at ih ⊢; omega

theorem idOf_pos (s : Bytes) : s.length < idOf 1 s := by
  have := idOf_pos_rev s.reverse; simpa using this

/-- base-256 digits of `n` down to the leading 1 -/
def reSrcAux : Nat → Nat → Bytes → Bytes
  | 0, _, acc => acc
  | f + 1, n, acc => if n ≤ 1 then acc else reSrcAux f (n / 256) (UInt8.ofNat (n % 256) :: acc)

/-- the regexp source with oracle index `n` -/
def reSrc (n : Nat) : Bytes := reSrcAux n n []

theorem reSrcAux_idOf_rev (r : Bytes) : ∀ (out : Bytes) (f : Nat), r.length < f →
    reSrcAux f (idOf 1 r.reverse) out = r.reverse ++ out := by
  induction r with
  | nil =>
    intro out f hf
    match f, hf with
    | f + 1, _ => simp [reSrcAux, idOf]
  | cons b r ih =>
    intro out f hf
    match f, hf with
    | f + 1, hf =>
      have hpos := idOf_pos r.reverse
      have hb := b.toNat_lt
      rw [List.reverse_cons, idOf_snoc, reSrcAux]
      have h1 : ¬ (idOf 1 r.reverse * 256 + b.toNat ≤ 1) := by omega
      have h2 : (idOf 1 r.reverse * 256 + b.toNat) / 256 = idOf 1 r.reverse := by omega
      have h3 : (idOf 1 r.reverse * 256 + b.toNat) % 256 = b.toNat := by omega
      rw [if_neg h1, h2, h3, ih _ f (by simp at hf; omega)]
      simp

theorem reSrcAux_idOf (s : Bytes) (out : Bytes) (f : Nat) (hf : s.length < f) :
    reSrcAux f (idOf 1 s) out = s ++ out := by
  have := reSrcAux_idOf_rev s.reverse out f (by simpa using hf)
  simpa using this

theorem reSrc_reId (s : Bytes) : reSrc (reId s) = s := by
  rw [reSrc, reId_eq, reSrcAux_idOf s [] _ (idOf_pos s)]
  simp

/-- a matcher on sources as an oracle on indices -/
def oracleOf (rx : Bytes → Bytes → Bool) : ReOracle := fun id v => rx (reSrc id) v

theorem oracleOf_reId (rx : Bytes → Bytes → Bool) (src v : Bytes) : oracleOf rx (reId src) v = rx src v := by
  simp [oracleOf, reSrc_reId]

/-! ### the literal sub-language -/

open Spec.LitRegexp in
/-- the matcher of the literal sub-language (`false` outside it) -/
def rxLit (src v : Bytes) : Bool :=
  match parse src with
  | some r => r.matches v
  | none => false

open Spec.LitRegexp in
/-- a literal without regexp metacharacters, non-ASCII bytes or `/` -/
def PlainLit (lit : Bytes) : Prop := ∀ c, c ∈ lit → isMeta c = false ∧ c < 0x80 ∧ c ≠ 47

open Spec.LitRegexp in
theorem litBody_plain (lit : Bytes) (h : PlainLit lit) : litBody lit = some lit := by
  induction lit with
  | nil => rfl
  | cons c r ih =>
    obtain ⟨h1, h2, _⟩ := h c (by simp)
    have hb : (c == 92) = false := by
      cases hc : c == 92
      · rfl
      · have : c = 92 := by simpa using hc
        subst this; simp [isMeta] at h1
    have hge : ¬ (c ≥ 0x80) := by
      simp only [ge_iff_le, UInt8.not_le]; exact h2
    unfold litBody
    simp [hb, h1, hge, ih (fun x hx => h x (by simp [hx]))]

open Spec.LitRegexp in
/-- `^lit$` is the fully anchored literal -/
theorem parse_anchored (lit : Bytes) (h : PlainLit lit) :
    parse (94 :: (lit ++ [36])) = some ⟨true, lit, true⟩ := by
  have hrev : (lit ++ [36]).reverse = 36 :: lit.reverse := by simp
  have hend : stripEndRev (36 :: lit.reverse) = (true, lit.reverse) := by
    cases hl : lit.reverse with
    | nil => rfl
    | cons a r =>
      have ha : a ∈ lit := by
        have : a ∈ lit.reverse := by rw [hl]; simp
        simpa using this
      have hne : a ≠ 92 := by
        intro e; subst e
        have := (h 92 ha).1
        simp [isMeta] at this
      unfold stripEndRev
      split <;> simp_all
  have hgrp : stripGroup lit = lit := by
    cases lit with
    | nil => rfl
    | cons a r =>
      have hne : a ≠ 40 := by
        intro e; subst e
        have := (h 40 (by simp)).1
        simp [isMeta] at this
      unfold stripGroup
      split <;> simp_all
  simp only [parse, stripStart, hrev, hend, List.reverse_reverse, hgrp, litBody_plain lit h]

end C06
