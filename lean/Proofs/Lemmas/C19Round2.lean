/-
C19 helper lemmas: what the Printer writes for a stream of results, the Reader reads back.
Part 2: lines. The printed text scans into the lines the Printer wrote; the Reader's loop over the
lines of one result applies the label difference and stops at the content line.
-/
import Model.Storage.Fmt
import Proofs.Lemmas.C19Round

namespace C19
open Storage.Query Storage.Fmt

/-! ### the text the Printer writes, as lines -/

def unsetLine (k : Bytes) : Bytes := k ++ [cColon]
def setLine (k v : Bytes) : Bytes := k ++ [cColon, cSpace] ++ v

def blockLines (prev : Labels) (r : Result) : List Bytes :=
  (removed prev r).map (fun kv => unsetLine kv.1) ++
  (changed prev r).map (fun kv => setLine kv.1 kv.2) ++ [r.content]

/-- every line followed by '\n' -/
def terminated (lines : List Bytes) : Bytes := lines.flatMap (· ++ [nl])

theorem terminated_append (a b : List Bytes) : terminated (a ++ b) = terminated a ++ terminated b := by
  simp [terminated]

theorem printResult_lines (prev : Labels) (r : Result) :
    (printResult prev r).1 = terminated (blockLines prev r) ∧ (printResult prev r).2 = r.labels := by
  refine ⟨?_, rfl⟩
  simp only [printResult, blockLines, terminated, removed, changed, List.flatMap_append,
    List.flatMap_map, unsetLine, setLine, List.flatMap_cons, List.flatMap_nil, List.append_nil,
    List.append_assoc, List.cons_append, List.nil_append]

def allLines : Labels → List Result → List Bytes
  | _, [] => []
  | prev, r :: rs => blockLines prev r ++ allLines r.labels rs

theorem printAll_lines (prev : Labels) (rs : List Result) :
    printAll prev rs = terminated (allLines prev rs) := by
  induction rs generalizing prev with
  | nil => rfl
  | cons r rs ih =>
    simp only [printAll, allLines, terminated_append]
    rw [(printResult_lines prev r).1, (printResult_lines prev r).2, ih]

/-! ### bufio.ScanLines on terminated lines -/

theorem scanLinesGo_line (cur l rest : Bytes) (h : ∀ c ∈ l, c ≠ nl) :
    scanLinesGo cur (l ++ nl :: rest) = dropCR (cur.reverse ++ l) :: scanLinesGo [] rest := by
  induction l generalizing cur with
  | nil => simp [scanLinesGo]
  | cons c l ih =>
    have hc : (c == nl) = false := by simpa using h c (by simp)
    rw [List.cons_append, scanLinesGo]
    simp only [hc, Bool.false_eq_true, if_false]
    rw [ih _ (fun x hx => h x (by simp [hx]))]
    simp

theorem scanLines_terminated (lines : List Bytes) (h : ∀ l ∈ lines, ∀ c ∈ l, c ≠ nl) :
    scanLines (terminated lines) = lines.map dropCR := by
  unfold scanLines
  induction lines with
  | nil => simp [terminated, scanLinesGo]
  | cons l rest ih =>
    have : terminated (l :: rest) = l ++ nl :: terminated rest := by simp [terminated]
    rw [this, scanLinesGo_line [] l _ (h l (by simp)), ih (fun x hx => h x (by simp [hx]))]
    simp

theorem dropCR_id (l : Bytes) (h : l.getLast? ≠ some cr) : dropCR l = l := by
  unfold dropCR
  split
  · rename_i c r hrev
    have : l.getLast? = some c := by rw [List.getLast?_eq_head?_reverse, hrev]; rfl
    have hc : (c == cr) = false := by
      have : c ≠ cr := fun e => h (by rw [this, e])
      simpa using this
    simp [hc]
  · rfl

/-! ### clean results -/

/-- a value the Printer/Reader pair preserves: non-empty, does not start with a blank or tab, holds
no line feed and does not end in CR (the complement of the class of finding N7) -/
structure GoodValue (v : Bytes) : Prop where
  first : ∃ c t, v = c :: t ∧ isBlank c = false
  noNl : ∀ c ∈ v, c ≠ nl
  noCr : v.getLast? ≠ some cr

structure GoodLabels (l : Labels) : Prop where
  sorted : StrictSorted l
  keys : ∀ kv ∈ l, validKey kv.1
  vals : ∀ kv ∈ l, GoodValue kv.2

structure CleanResult (r : Result) : Prop where
  labels : GoodLabels r.labels
  bench : ∃ name, parseBenchmarkLine r.content = some name
  noNl : ∀ c ∈ r.content, c ≠ nl
  noCr : r.content.getLast? ≠ some cr

theorem goodValue_ne (v : Bytes) (h : GoodValue v) : v ≠ [] := by
  obtain ⟨c, t, rfl, _⟩ := h.first; simp

theorem validKey_noNl (k : Bytes) (h : validKey k) : ∀ c ∈ k, c ≠ nl := by
  intro c hc e
  have := (h.2 c hc).1
  rw [e] at this
  revert this; decide

theorem unsetLine_ok (k : Bytes) (h : validKey k) :
    (∀ c ∈ unsetLine k, c ≠ nl) ∧ dropCR (unsetLine k) = unsetLine k := by
  constructor
  · intro c hc
    rcases List.mem_append.mp hc with hc | hc
    · exact validKey_noNl k h c hc
    · simp only [List.mem_singleton] at hc; subst hc; decide
  · apply dropCR_id
    unfold unsetLine
    rw [List.getLast?_concat]
    decide

theorem setLine_ok (k v : Bytes) (h : validKey k) (hv : GoodValue v) :
    (∀ c ∈ setLine k v, c ≠ nl) ∧ dropCR (setLine k v) = setLine k v := by
  constructor
  · intro c hc
    unfold setLine at hc
    rcases List.mem_append.mp hc with hc | hc
    · rcases List.mem_append.mp hc with hc | hc
      · exact validKey_noNl k h c hc
      · simp only [List.mem_cons, List.not_mem_nil, or_false] at hc
        rcases hc with rfl | rfl <;> decide
    · exact hv.noNl c hc
  · apply dropCR_id
    unfold setLine
    obtain ⟨c, t, rfl, _⟩ := hv.first
    have := hv.noCr
    rw [List.getLast?_append]
    cases hl : (c :: t).getLast? with
    | none => simp at hl
    | some x => rw [hl] at this; simpa using this

theorem blockLines_ok (prev : Labels) (r : Result) (hp : GoodLabels prev) (hr : CleanResult r) :
    (∀ l ∈ blockLines prev r, ∀ c ∈ l, c ≠ nl) ∧ (blockLines prev r).map dropCR = blockLines prev r := by
  have h1 : ∀ l ∈ blockLines prev r, (∀ c ∈ l, c ≠ nl) ∧ dropCR l = l := by
    intro l hl
    unfold blockLines at hl
    rcases List.mem_append.mp hl with hl | hl
    · rcases List.mem_append.mp hl with hl | hl
      · obtain ⟨kv, hkv, rfl⟩ := List.mem_map.mp hl
        exact unsetLine_ok _ (hp.keys kv ((mem_removed _ _ _).mp hkv).1)
      · obtain ⟨kv, hkv, rfl⟩ := List.mem_map.mp hl
        have := ((mem_changed _ _ _).mp hkv).1
        exact setLine_ok _ _ (hr.labels.keys kv this) (hr.labels.vals kv this)
    · simp only [List.mem_singleton] at hl
      subst hl
      exact ⟨hr.noNl, dropCR_id _ hr.noCr⟩
  refine ⟨fun l hl => (h1 l hl).1, ?_⟩
  conv => rhs; rw [← List.map_id (blockLines prev r)]
  exact List.map_congr_left (fun l hl => (h1 l hl).2)

theorem allLines_ok (rs : List Result) (prev : Labels) (hp : GoodLabels prev)
    (hr : ∀ r ∈ rs, CleanResult r) :
    (∀ l ∈ allLines prev rs, ∀ c ∈ l, c ≠ nl) ∧ (allLines prev rs).map dropCR = allLines prev rs := by
  induction rs generalizing prev with
  | nil => simp [allLines]
  | cons r rs ih =>
    have hb := blockLines_ok prev r hp (hr r (by simp))
    have ht := ih r.labels (hr r (by simp)).labels (fun x hx => hr x (by simp [hx]))
    simp only [allLines, List.map_append]
    refine ⟨?_, by rw [hb.2, ht.2]⟩
    intro l hl
    rcases List.mem_append.mp hl with hl | hl
    · exact hb.1 l hl
    · exact ht.1 l hl

/-- the printed stream scans into exactly the lines the Printer wrote -/
theorem scan_printAll (rs : List Result) (hr : ∀ r ∈ rs, CleanResult r) :
    scanLines (printAll [] rs) = allLines [] rs := by
  have hgood : GoodLabels [] := ⟨by simp [StrictSorted], by simp, by simp⟩
  have := allLines_ok rs [] hgood hr
  rw [printAll_lines, scanLines_terminated _ this.1, this.2]

end C19
