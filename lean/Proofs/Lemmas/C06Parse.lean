/-
Parser-level facts for the text-level theorems of C06: what the C07 parser model (read-only)
returns on a literal term, a value list, and — by mutual induction over the surface syntax — on
every well-formed expression of the literal fragment.
-/
import Proofs.Lemmas.C06Surface
namespace C06
open Proc.Tok Proc.ParseFilter C07 Proc.FilterText

theorem Word.kind {cx : Ctx} {m : Bool} {k : UInt8} {txt val : Bytes} (h : Word cx m k txt val) :
    k = kW ∨ k = kQ := by
  cases h <;> simp

theorem leaf_of_kind (kv : Bytes) (v : SV) (off : Int) (o : Int) (k : UInt8) (hk : (k == kR) = v.re) :
    mkMatch off kv ⟨k, o, v.val⟩ = leafSV kv v off := by
  unfold mkMatch leafSV
  simp only [hk]

theorem okV_isValue {cx : Ctx} {k : UInt8} {txt tok : Bytes} (h : Val cx k txt tok) : isValue k = true := by
  rcases h.kind with rfl | rfl | rfl <;> decide

/-- `key:value` (word or regular expression) is one leaf -/
theorem matchF_term (cx : Ctx) (f : Nat) {k1 : UInt8} {kt kv : Bytes}
    (hk : Word cx false k1 kt kv) (v : SV) (hv : okV cx v) (tail : Bytes) (htail : Delim cx tail) (e : ErrSt) :
    matchF cx (f + 1) (kt ++ cColon :: (v.txt ++ tail)) e =
      ⟨leafSV kv v (offOf cx (kt ++ cColon :: (v.txt ++ tail))), tail, e⟩ := by
  obtain ⟨k2, hval, hflag⟩ := hv
  have h1 := next_word cx false hk (cColon :: (v.txt ++ tail)) (delim_colon cx _) e
  have h2 := next_op cx false cColon (v.txt ++ tail) e (by decide)
  have h3 := next_val cx hval tail htail e
  have hiv := okV_isValue hval
  rw [matchF]
  simp only [h1, mkTok, h2, h3, hiv, if_true]
  rcases hk.kind with rfl | rfl <;>
    (simp (config := { decide := true }) only [if_true, if_false]
     rw [leaf_of_kind kv v _ _ k2 hflag])

theorem listLoop_space (cx : Ctx) (off : Int) (key : Bytes) (f : Nat) (terms : List Filter) (q : Bytes) (e : ErrSt) :
    listLoop cx off key (f + 1) terms (0x20 :: q) e = listLoop cx off key (f + 1) terms q e := by
  rw [listLoop, listLoop, next_space]

theorem okV_ne_nil {cx : Ctx} {v : SV} (h : okV cx v) : v.txt ≠ [] := by
  obtain ⟨k, hv, _⟩ := h; exact hv.ne_nil

theorem length_le_renderVs (cx : Ctx) : ∀ (vs : List SV),
    (∀ p, p ∈ vs → okV cx p) → vs.length ≤ (renderVs vs).length
  | [], _ => by simp
  | [p], h => by
    have := okV_ne_nil (h p (by simp))
    cases hp : p.txt with
    | nil => exact absurd hp this
    | cons a b => simp [renderVs, hp]
  | p :: q :: r, h => by
    have ih := length_le_renderVs cx (q :: r) (fun x hx => h x (by simp [hx]))
    simp only [renderVs, List.length_cons, List.length_append] at ih ⊢
    omega

/-- the value-list loop on `a₁ OR … OR aₙ)` (words and regular expressions) -/
theorem listLoop_words (cx : Ctx) (off : Int) (key : Bytes) (tail : Bytes) (e : ErrSt) :
    ∀ (vs : List SV), vs ≠ [] → (∀ p, p ∈ vs → okV cx p) →
    ∀ (F : Nat) (terms : List Filter), vs.length ≤ F →
      listLoop cx off key F terms (renderVs vs ++ cRP :: tail) e =
        ⟨.op .or (terms ++ vs.map (fun p => leafSV key p off)), tail, e⟩
  | [], h, _, _, _, _ => absurd rfl h
  | [p], _, hw, F, terms, hF => by
    obtain ⟨k, hp, hflag⟩ := hw p (by simp)
    match F, hF with
    | F + 1, _ =>
      have h1 := next_val cx hp (cRP :: tail) (delim_rp cx tail) e
      have h2 := next_op cx true cRP tail e (by decide)
      have hiv := okV_isValue hp
      rw [listLoop]
      simp only [renderVs, h1, mkTok, h2, hiv, Bool.not_true, Bool.false_eq_true, if_false]
      simp (config := { decide := true }) only [if_true]
      rw [leaf_of_kind key p _ _ k hflag]
      simp
  | p :: q :: r, _, hw, F, terms, hF => by
    obtain ⟨k, hp, hflag⟩ := hw p (by simp)
    match F, hF with
    | F + 2, hF =>
      have hshape : renderVs (p :: q :: r) ++ cRP :: tail =
          p.txt ++ (0x20 :: (wOR ++ 0x20 :: (renderVs (q :: r) ++ cRP :: tail))) := by
        simp [renderVs]
      have h1 := next_val cx hp (0x20 :: (wOR ++ 0x20 :: (renderVs (q :: r) ++ cRP :: tail)))
        (delim_space cx _) e
      have h2 : next cx true (0x20 :: (wOR ++ 0x20 :: (renderVs (q :: r) ++ cRP :: tail))) e =
          mkTok cx (wOR ++ 0x20 :: (renderVs (q :: r) ++ cRP :: tail)) kO wOR
            (0x20 :: (renderVs (q :: r) ++ cRP :: tail)) e := by
        rw [next_space, next_OR cx true _ (delim_space cx _) e]
      have ih := listLoop_words cx off key tail e (q :: r) (by simp) (fun x hx => hw x (by simp [hx]))
        (F + 1) (terms ++ [leafSV key p off]) (by simp at hF ⊢; omega)
      have hne : (kO == cRP) = false := by decide
      have hiv := okV_isValue hp
      rw [hshape, listLoop]
      simp only [h1, mkTok, h2, hne, listLoop_space, hiv, Bool.not_true, Bool.false_eq_true, if_false]
      simp (config := { decide := true }) only [if_true]
      rw [leaf_of_kind key p _ _ k hflag, ih]
      simp

/-- `key:(a₁ OR … OR aₙ)` is the disjunction node over the leaves `key:aᵢ` -/
theorem matchF_list (cx : Ctx) (f : Nat) {k1 : UInt8} {kt kv : Bytes} (hk : Word cx false k1 kt kv)
    (vs : List SV) (hne : vs ≠ []) (hw : ∀ p, p ∈ vs → okV cx p)
    (tail : Bytes) (e : ErrSt) :
    matchF cx (f + 1) (kt ++ cColon :: cLP :: (renderVs vs ++ cRP :: tail)) e =
      ⟨.op .or (vs.map (fun p => leafSV kv p (offOf cx (kt ++ cColon :: cLP :: (renderVs vs ++ cRP :: tail))))),
       tail, e⟩ := by
  have h1 := next_word cx false hk (cColon :: cLP :: (renderVs vs ++ cRP :: tail)) (delim_colon cx _) e
  have h2 := next_op cx false cColon (cLP :: (renderVs vs ++ cRP :: tail)) e (by decide)
  have h3 := next_op cx true cLP (renderVs vs ++ cRP :: tail) e (by decide)
  have hlen := length_le_renderVs cx vs hw
  have hl := listLoop_words cx (offOf cx (kt ++ cColon :: cLP :: (renderVs vs ++ cRP :: tail))) kv tail e vs hne hw
    ((renderVs vs ++ cRP :: tail).length + 1) [] (by simp; omega)
  simp only [List.nil_append] at hl
  rw [matchF]
  simp only [h1, mkTok, h2, h3]
  rcases hk.kind with rfl | rfl <;>
    (simp (config := { decide := true }) only [if_true, if_false]
     exact hl)

/-! ### spaces in front -/

theorem matchF_space (cx : Ctx) (f : Nat) (q : Bytes) (e : ErrSt) :
    matchF cx (f + 1) (0x20 :: q) e = matchF cx (f + 1) q e := by
  rw [matchF, matchF, next_space]

theorem andExprF_space (cx : Ctx) (f : Nat) (q : Bytes) (e : ErrSt) :
    andExprF cx (f + 2) (0x20 :: q) e = andExprF cx (f + 2) q e := by
  rw [andExprF, andExprF, matchF_space]

theorem exprLoop_space (cx : Ctx) (f : Nat) (terms : List Filter) (q : Bytes) (e : ErrSt) :
    exprLoop cx (f + 3) terms (0x20 :: q) e = exprLoop cx (f + 3) terms q e := by
  rw [exprLoop]
  conv => rhs; rw [exprLoop]
  rw [andExprF_space]

/-! ### what may follow a juxtaposition -/

/-- `tail` is what follows a juxtaposition and `cur` the tokenizer position at which `andExpr`
stops: the end of the text, a closing parenthesis, or ` OR …` -/
inductive ETail : Bytes → Bytes → Prop
  | nil : ETail [] []
  | rp (r : Bytes) : ETail (cRP :: r) (cRP :: r)
  | or (r : Bytes) : ETail (0x20 :: (wOR ++ 0x20 :: r)) (wOR ++ 0x20 :: r)

theorem ETail.delim (cx : Ctx) {tail cur : Bytes} (h : ETail tail cur) : Delim cx tail := by
  cases h with
  | nil => exact delim_nil cx
  | rp r => exact delim_rp cx r
  | or r => exact delim_space cx _

/-- the `andExpr` loop stops at the end of the juxtaposition -/
theorem andLoop_end (cx : Ctx) (f : Nat) (terms : List Filter) {tail cur : Bytes} (h : ETail tail cur) (e : ErrSt) :
    andLoop cx (f + 1) terms tail e = ⟨finish .and terms, cur, e⟩ := by
  rw [andLoop]
  cases h with
  | nil =>
    rw [next_nil]
    simp (config := { decide := true }) only [mkTok, if_true, if_false]
  | rp r =>
    rw [next_op cx false cRP r e (by decide)]
    simp (config := { decide := true }) only [mkTok, if_true, if_false]
  | or r =>
    rw [next_space, next_OR cx false _ (delim_space cx _) e]
    simp (config := { decide := true }) only [mkTok, if_true, if_false]

/-! ### the first token of a term -/

/-- token kinds with which a term may begin -/
def startK (k : UInt8) : Prop :=
  (k == kA) = false ∧ (k == cLP || k == cDash || k == cStar || k == kW || k == kQ) = true

theorem startK_word {cx : Ctx} {m : Bool} {k : UInt8} {txt val : Bytes} (h : Word cx m k txt val) : startK k := by
  rcases h.kind with rfl | rfl <;> exact ⟨by decide, by decide⟩

theorem first_tok (cx : Ctx) (s : S) (hok : okS cx s) (rest : Bytes) (e : ErrSt) :
    ∃ k tok r', next cx false (render s ++ rest) e = mkTok cx (render s ++ rest) k tok r' e ∧ startK k := by
  cases s with
  | paren alts =>
    rw [render, List.cons_append]
    exact ⟨_, _, _, next_op cx false cLP _ e (by decide), by decide, by decide⟩
  | neg m =>
    rw [render, List.cons_append]
    exact ⟨_, _, _, next_op cx false cDash _ e (by decide), by decide, by decide⟩
  | star =>
    rw [render, List.cons_append]
    exact ⟨_, _, _, next_op cx false cStar _ e (by decide), by decide, by decide⟩
  | term kt kv v =>
    rw [okS] at hok
    obtain ⟨⟨k, hk⟩, _⟩ := hok
    rw [render, List.append_assoc, List.cons_append]
    exact ⟨_, _, _, next_word cx false hk _ (delim_colon cx _) e, startK_word hk⟩
  | list kt kv vs =>
    rw [okS] at hok
    obtain ⟨⟨k, hk⟩, _⟩ := hok
    rw [render, List.append_assoc, List.cons_append]
    exact ⟨_, _, _, next_word cx false hk _ (delim_colon cx _) e, startK_word hk⟩

/-- the `andExpr` loop on an item written after a space -/
theorem andLoop_sp (cx : Ctx) (s : S) (hok : okS cx s) (f : Nat) (terms : List Filter) (rest : Bytes) (e : ErrSt) :
    andLoop cx (f + 1) terms (0x20 :: (render s ++ rest)) e =
      andLoop cx f (terms ++ [(matchF cx f (render s ++ rest) e).f])
        (matchF cx f (render s ++ rest) e).rest (matchF cx f (render s ++ rest) e).err := by
  obtain ⟨k, tok, r', hn, hk1, hk2⟩ := first_tok cx s hok rest e
  rw [andLoop, next_space, hn]
  simp only [mkTok, hk1, hk2, if_true, if_false, Bool.false_eq_true]

/-- … and on an item written after ` AND ` -/
theorem andLoop_AND (cx : Ctx) (s : S) (hok : okS cx s) (f : Nat) (terms : List Filter) (rest : Bytes) (e : ErrSt) :
    andLoop cx (f + 2) terms (sepAND ++ (render s ++ rest)) e =
      andLoop cx f (terms ++ [(matchF cx f (render s ++ rest) e).f])
        (matchF cx f (render s ++ rest) e).rest (matchF cx f (render s ++ rest) e).err := by
  have hshape : sepAND ++ (render s ++ rest) = 0x20 :: (wAND ++ 0x20 :: (render s ++ rest)) := by
    simp [sepAND]
  rw [hshape, andLoop, next_space, next_AND cx false _ (delim_space cx _) e]
  simp (config := { decide := true }) only [mkTok, if_true]
  exact andLoop_sp cx s hok f terms rest e

end C06
