/-
Match.All / Any / Apply in terms of Test, for every measurement count (any number of words).
-/
import Proofs.Lemmas.C06Eval

namespace C06
open Proc.FilterEval Spec.FilterSem

/-- the shape invariant of a `Match` produced by `Filter.Match` -/
def MatchWF (mt : Match) : Prop := ∀ m, mt.m = some m → m.length = words mt.n

theorem allLoop_spec (n : Nat) (xs : Mask) (i0 : Nat) :
    allLoop n xs i0 = true ↔
    ∀ k, k < xs.length → ∀ b, b < 32 → (i0 + k) * 32 + b < n → (xs[k]?.getD 0#32).getLsbD b = true := by
  induction xs generalizing i0 with
  | nil => simp [allLoop]
  | cons x xs ih =>
    unfold allLoop
    by_cases hc : ((x ||| (ones <<< (n - i0 * 32))) != ones) = false
    · have hx := (all_word x (n - i0 * 32)).mp hc
      have hc' : ¬ (((x ||| (ones <<< (n - i0 * 32))) != ones) = true) := by simp [hc]
      rw [if_neg hc', ih (i0 + 1)]
      constructor
      · intro h k hk b hb hlt
        cases k with
        | zero => simpa using hx b hb (by omega)
        | succ k =>
          have := h k (by simpa using hk) b hb (by
            have e : (i0 + 1 + k) = (i0 + (k + 1)) := by omega
            rw [e]; exact hlt)
          simpa using this
      · intro h k hk b hb hlt
        have := h (k + 1) (by simpa using hk) b hb (by
          have e : (i0 + (k + 1)) = (i0 + 1 + k) := by omega
          rw [e]; exact hlt)
        simpa using this
    · have hc' : ((x ||| (ones <<< (n - i0 * 32))) != ones) = true := by
        cases h : ((x ||| (ones <<< (n - i0 * 32))) != ones) <;> simp_all
      rw [if_pos hc']
      constructor
      · intro h; cases h
      · intro h
        exfalso; apply hc
        rw [all_word]
        intro b hb hs
        simpa using h 0 (by simp) b hb (by omega)

theorem anyLoop_spec (n : Nat) (xs : Mask) (i0 : Nat) :
    anyLoop n xs i0 = true ↔
    ∃ k, k < xs.length ∧ ∃ b, b < 32 ∧ (i0 + k) * 32 + b < n ∧ (xs[k]?.getD 0#32).getLsbD b = true := by
  induction xs generalizing i0 with
  | nil => simp [anyLoop]
  | cons x xs ih =>
    unfold anyLoop
    by_cases hc : ((x &&& ~~~(ones <<< (n - i0 * 32))) != 0#32) = true
    · rw [if_pos hc]
      obtain ⟨b, hb, hs, hx⟩ := (any_word x (n - i0 * 32)).mp hc
      simp only [true_iff]
      exact ⟨0, by simp, b, hb, by omega, by simpa using hx⟩
    · rw [if_neg hc, ih (i0 + 1)]
      constructor
      · rintro ⟨k, hk, b, hb, hlt, hx⟩
        refine ⟨k + 1, by simpa using hk, b, hb, ?_, by simpa using hx⟩
        have e : (i0 + (k + 1)) = (i0 + 1 + k) := by omega
        rw [e]; exact hlt
      · rintro ⟨k, hk, b, hb, hlt, hx⟩
        cases k with
        | zero =>
          exfalso; apply hc
          rw [any_word]
          exact ⟨b, hb, by omega, by simpa using hx⟩
        | succ k =>
          refine ⟨k, by simpa using hk, b, hb, ?_, by simpa using hx⟩
          have e : (i0 + 1 + k) = (i0 + (k + 1)) := by omega
          rw [e]; exact hlt

/-- `All()` for at least one measurement: every `Test(i)`, `i < n`, is true. -/
theorem all_spec (mt : Match) (hwf : MatchWF mt) (hn : 0 < mt.n) :
    mt.all = true ↔ ∀ i, i < mt.n → mt.test i = true := by
  obtain ⟨n, m, x⟩ := mt
  cases m with
  | none =>
    simp only [Match.all, test_none]
    constructor
    · intro h i hi; simp [hi, h]
    · intro h; simpa [hn] using h 0 hn
  | some m =>
    have hl : m.length = words n := hwf m rfl
    simp only [Match.all, test_some]
    rw [allLoop_spec]
    constructor
    · intro h i hi
      have := h (i / 32) (by rw [hl]; exact div32_lt_words hi) (i % 32) (Nat.mod_lt _ (by decide)) (by omega)
      simp [hi, bit, this]
    · intro h k hk b hb hlt
      have := h (k * 32 + b) (by omega)
      have e1 : (k * 32 + b) / 32 = k := by omega
      have e2 : (k * 32 + b) % 32 = b := by omega
      have hlt' : k * 32 + b < n := by omega
      simpa [hlt', bit, e1, e2] using this

/-- `Any()` for at least one measurement: some `Test(i)`, `i < n`, is true. -/
theorem any_spec (mt : Match) (hwf : MatchWF mt) (hn : 0 < mt.n) :
    mt.any = true ↔ ∃ i, i < mt.n ∧ mt.test i = true := by
  obtain ⟨n, m, x⟩ := mt
  cases m with
  | none =>
    simp only [Match.any, test_none]
    constructor
    · intro h; exact ⟨0, hn, by simp [hn, h]⟩
    · rintro ⟨i, hi, h⟩; simpa [hi] using h
  | some m =>
    have hl : m.length = words n := hwf m rfl
    simp only [Match.any, test_some]
    rw [anyLoop_spec]
    constructor
    · rintro ⟨k, hk, b, hb, hlt, hx⟩
      have e1 : (k * 32 + b) / 32 = k := by omega
      have e2 : (k * 32 + b) % 32 = b := by omega
      have hlt' : k * 32 + b < n := by omega
      exact ⟨k * 32 + b, hlt', by simp [hlt', bit, e1, e2, hx]⟩
    · rintro ⟨i, hi, h⟩
      refine ⟨i / 32, by rw [hl]; exact div32_lt_words hi, i % 32, Nat.mod_lt _ (by decide), by omega, ?_⟩
      simpa [hi, bit] using h

/-- boundary: no measurements. A nil mask shows the whole-result boolean, a non-nil (empty)
mask makes `All` vacuously true and `Any` false. -/
theorem all_zero (mt : Match) (hwf : MatchWF mt) (hn : mt.n = 0) :
    mt.all = (match mt.m with | none => mt.x | some _ => true) := by
  obtain ⟨n, m, x⟩ := mt
  cases m with
  | none => rfl
  | some m =>
    have hl : m.length = words n := hwf m rfl
    simp only at hn; subst hn
    have : m = [] := by simpa [words] using hl
    subst this; simp [Match.all, allLoop]

theorem any_zero (mt : Match) (hwf : MatchWF mt) (hn : mt.n = 0) :
    mt.any = (match mt.m with | none => mt.x | some _ => false) := by
  obtain ⟨n, m, x⟩ := mt
  cases m with
  | none => rfl
  | some m =>
    have hl : m.length = words n := hwf m rfl
    simp only at hn; subst hn
    have : m = [] := by simpa [words] using hl
    subst this; simp [Match.any, anyLoop]

/-! ### Apply -/

/-- index-based selection with a start offset -/
def keepFrom (p : Nat → Bool) (vs : List Value) (k : Nat) : List Value :=
  ((vs.zipIdx k).filter fun vi => p vi.2).map (·.1)

theorem keepIdx_eq (p : Nat → Bool) (vs : List Value) : keepIdx p vs = keepFrom p vs 0 := rfl

theorem keepFrom_cons (p : Nat → Bool) (v : Value) (vs : List Value) (k : Nat) :
    keepFrom p (v :: vs) k = if p k then v :: keepFrom p vs (k + 1) else keepFrom p vs (k + 1) := by
  unfold keepFrom
  rw [List.zipIdx_cons, List.filter_cons]
  split <;> simp

theorem keepFrom_congr (p q : Nat → Bool) (vs : List Value) (k : Nat)
    (h : ∀ i, k ≤ i → i < k + vs.length → p i = q i) : keepFrom p vs k = keepFrom q vs k := by
  induction vs generalizing k with
  | nil => simp [keepFrom]
  | cons v vs ih =>
    rw [keepFrom_cons, keepFrom_cons, h k (Nat.le_refl _) (by simp)]
    rw [ih (k + 1) (fun i h1 h2 => h i (by omega) (by simp; omega))]

theorem keepFrom_all (p : Nat → Bool) (vs : List Value) (k : Nat)
    (h : ∀ i, k ≤ i → i < k + vs.length → p i = true) : keepFrom p vs k = vs := by
  induction vs generalizing k with
  | nil => simp [keepFrom]
  | cons v vs ih =>
    rw [keepFrom_cons, h k (Nat.le_refl _) (by simp)]
    simp [ih (k + 1) (fun i h1 h2 => h i (by omega) (by simp; omega))]

theorem keepFrom_none (p : Nat → Bool) (vs : List Value) (k : Nat)
    (h : ∀ i, k ≤ i → i < k + vs.length → p i = false) : keepFrom p vs k = [] := by
  induction vs generalizing k with
  | nil => simp [keepFrom]
  | cons v vs ih =>
    rw [keepFrom_cons, h k (Nat.le_refl _) (by simp)]
    simp [ih (k + 1) (fun i h1 h2 => h i (by omega) (by simp; omega))]

theorem keepFrom_ne_nil (p : Nat → Bool) (vs : List Value) (k : Nat)
    (h : ∃ i, k ≤ i ∧ i < k + vs.length ∧ p i = true) : keepFrom p vs k ≠ [] := by
  induction vs generalizing k with
  | nil => obtain ⟨i, h1, h2, _⟩ := h; simp at h2; omega
  | cons v vs ih =>
    rw [keepFrom_cons]
    by_cases hk : p k = true
    · simp [hk]
    · obtain ⟨i, h1, h2, h3⟩ := h
      have : i ≠ k := by intro e; subst e; exact hk h3
      simp only [hk]
      exact ih (k + 1) ⟨i, by omega, by simp at h2; omega, h3⟩

theorem keepFrom_append_one (p : Nat → Bool) (l : List Value) (v : Value) (k : Nat) :
    keepFrom p (l ++ [v]) k = keepFrom p l k ++ (if p (k + l.length) then [v] else []) := by
  induction l generalizing k with
  | nil =>
    rw [List.nil_append, keepFrom_cons]
    split <;> simp_all [keepFrom]
  | cons a l ih =>
    simp only [List.cons_append, keepFrom_cons, ih (k + 1), List.length_cons]
    have e : k + 1 + l.length = k + (l.length + 1) := by omega
    rw [e]
    split <;> simp

theorem applyInPlace_inv (mt : Match) (orig : List Value) :
    ∀ (fuel i j : Nat) (arr : List Value), arr.length = orig.length → j ≤ i → i + fuel = orig.length →
      arr.drop i = orig.drop i → arr.take j = keepFrom mt.test (orig.take i) 0 →
      (applyInPlace mt fuel i j arr).1.take (applyInPlace mt fuel i j arr).2 = keepFrom mt.test orig 0 := by
  intro fuel
  induction fuel with
  | zero =>
    intro i j arr _ _ hi _ hk
    have : i = orig.length := by omega
    subst this
    simpa [applyInPlace] using hk
  | succ fuel ih =>
    intro i j arr hlen hji hi hdrop hk
    have hilt : i < orig.length := by omega
    have hget : arr[i]? = some orig[i] := by
      have h1 : (arr.drop i)[0]? = (orig.drop i)[0]? := by rw [hdrop]
      simpa [List.getElem?_drop, hilt] using h1
    have htake : orig.take (i + 1) = orig.take i ++ [orig[i]] := by
      rw [List.take_add_one]; simp [hilt]
    unfold applyInPlace
    rw [hget]
    simp only
    split
    · rename_i ht
      apply ih (i + 1) (j + 1) (arr.set j orig[i]) (by simpa using hlen) (by omega) (by omega)
      · rw [List.drop_set_of_lt (by omega)]
        have := congrArg (List.drop 1) hdrop
        simpa [List.drop_drop, Nat.add_comm] using this
      · rw [htake, keepFrom_append_one, ← hk]
        have hl : (orig.take i).length = i := by simp; omega
        simp only [hl, Nat.zero_add, ht, if_true]
        have hj : j < arr.length := by omega
        rw [List.take_add_one, List.take_set_of_le (Nat.le_refl _)]
        simp [hj]
    · rename_i ht
      apply ih (i + 1) j arr hlen (by omega) (by omega)
      · have := congrArg (List.drop 1) hdrop
        simpa [List.drop_drop, Nat.add_comm] using this
      · rw [htake, keepFrom_append_one, ← hk]
        have hl : (orig.take i).length = i := by simp; omega
        simp [hl, ht]

theorem applyInPlace_eq (mt : Match) (vals : List Value) :
    (applyInPlace mt vals.length 0 0 vals).1.take (applyInPlace mt vals.length 0 0 vals).2
      = keepFrom mt.test vals 0 :=
  applyInPlace_inv mt vals vals.length 0 0 vals rfl (Nat.le_refl _) (by simp) rfl (by simp [keepFrom])

theorem applyInPlace_bounds (mt : Match) (L : Nat) :
    ∀ (fuel i j : Nat) (arr : List Value), arr.length = L → j ≤ i → i + fuel = L →
      (applyInPlace mt fuel i j arr).2 ≤ (applyInPlace mt fuel i j arr).1.length := by
  intro fuel
  induction fuel with
  | zero => intro i j arr hl hji hi; simp [applyInPlace]; omega
  | succ fuel ih =>
    intro i j arr hl hji hi
    unfold applyInPlace
    cases hg : arr[i]? with
    | none => simp; omega
    | some val =>
      simp only
      split
      · exact ih (i + 1) (j + 1) _ (by simpa using hl) (by omega) (by omega)
      · exact ih (i + 1) j arr hl (by omega) (by omega)

/-- `Apply` leaves exactly the measurements whose `Test` is true, in order (every n). -/
theorem apply_values (mt : Match) (hwf : MatchWF mt) (vals : List Value) (hlen : vals.length = mt.n) :
    (mt.apply vals).1 = keepIdx mt.test vals := by
  rw [keepIdx_eq]
  unfold Match.apply
  by_cases hn : mt.n = 0
  · have : vals = [] := by rw [hn] at hlen; simpa using hlen
    subst this
    split
    · simp [keepFrom]
    · split <;> simp [keepFrom, applyInPlace]
  · have hpos : 0 < mt.n := by omega
    split
    · rename_i ha
      have := (all_spec mt hwf hpos).mp ha
      rw [keepFrom_all]
      intro i _ hi; exact this i (by omega)
    · split
      · rename_i hna
        have hna' : ¬ mt.any = true := by simpa using hna
        rw [any_spec mt hwf hpos] at hna'
        rw [keepFrom_none]
        intro i _ hi
        cases h : mt.test i
        · rfl
        · exact absurd ⟨i, by omega, h⟩ hna'
      · simp [applyInPlace_eq]

/-- for at least one measurement the returned flag says whether any measurement remains -/
theorem apply_flag (mt : Match) (_hwf : MatchWF mt) (vals : List Value) (hlen : vals.length = mt.n)
    (hpos : 0 < mt.n) : (mt.apply vals).2 = !(mt.apply vals).1.isEmpty := by
  unfold Match.apply
  split
  · have : vals ≠ [] := by intro h; rw [h] at hlen; simp at hlen; omega
    cases vals with
    | nil => exact absurd rfl this
    | cons v vs => simp
  · split
    · simp
    · simp only
      have hb := applyInPlace_bounds mt vals.length vals.length 0 0 vals rfl (Nat.le_refl _) (by simp)
      generalize applyInPlace mt vals.length 0 0 vals = r at hb
      obtain ⟨arr, j⟩ := r
      simp only at hb ⊢
      cases j with
      | zero => simp
      | succ j =>
        cases arr with
        | nil => simp at hb
        | cons a l => simp

/-- … and it equals `Any()` -/
theorem apply_flag_any (mt : Match) (hwf : MatchWF mt) (vals : List Value) (hlen : vals.length = mt.n)
    (hpos : 0 < mt.n) : (mt.apply vals).2 = mt.any := by
  unfold Match.apply
  split
  · rename_i ha
    have h := (all_spec mt hwf hpos).mp ha
    have : mt.any = true := (any_spec mt hwf hpos).mpr ⟨0, hpos, h 0 hpos⟩
    simp [this]
  · split
    · rename_i hna; simpa using hna
    · rename_i hna
      have hany : mt.any = true := by simpa using hna
      obtain ⟨i, hi, ht⟩ := (any_spec mt hwf hpos).mp hany
      have hne := keepFrom_ne_nil mt.test vals 0 ⟨i, Nat.zero_le _, by omega, ht⟩
      rw [← applyInPlace_eq] at hne
      simp only [hany]
      generalize applyInPlace mt vals.length 0 0 vals = r at hne
      obtain ⟨arr, j⟩ := r
      cases j with
      | zero => simp at hne
      | succ j => simp

/-- boundary n = 0: nothing is left and the flag is `All()` -/
theorem apply_zero' (mt : Match) (vals : List Value) (hlen : vals.length = mt.n) (hn : mt.n = 0) :
    mt.apply vals = ([], mt.all) := by
  have : vals = [] := by rw [hn] at hlen; simpa using hlen
  subst this
  unfold Match.apply
  cases ha : mt.all
  · simp only [Bool.false_eq_true, if_false]
    split <;> simp [applyInPlace]
  · simp

end C06
