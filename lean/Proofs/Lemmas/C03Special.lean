/-
C03 helper lemmas: `special` (atof.go) = `specialSpec`.
-/
import Proofs.Lemmas.C03Fast

namespace C03
open Num Spec.NumText

theorem foldc_eq_lowerc : foldc = lowerc := rfl

theorem equalIgnoreCase_eq (s : Bytes) : ∀ t : Bytes, (∀ b ∈ t, lowerc b = b) →
    equalIgnoreCase s t = (t == s.map lowerc) := by
  induction s with
  | nil => intro t _; cases t <;> simp [equalIgnoreCase]
  | cons a s ih =>
    intro t ht
    cases t with
    | nil => simp [equalIgnoreCase]
    | cons b t =>
      have hb : lowerc b = b := ht b (by simp)
      have := ih t (fun x hx => ht x (by simp [hx]))
      unfold equalIgnoreCase at this ⊢
      simp only [List.length_cons, List.zip_cons_cons, List.all_cons, List.map_cons, List.cons_beq_cons,
        foldc_eq_lowerc, hb] at this ⊢
      rw [← this]
      by_cases h1 : lowerc a = b
      · simp [h1]
      · have : (b == lowerc a) = false := by simpa using fun h => h1 h.symm
        simp [h1, this]

theorem head_facts (c : UInt8) :
    (lowerc c = 43 ↔ c = 43) ∧ (lowerc c = 45 ↔ c = 45) ∧
    (lowerc c = 110 ↔ (c = 110 ∨ c = 78)) ∧ (lowerc c = 105 ↔ (c = 105 ∨ c = 73)) := by
  revert c; apply byte_forall; decide +kernel

theorem lit_lower : (∀ b ∈ litInf, lowerc b = b) ∧ (∀ b ∈ litInfinity, lowerc b = b) ∧ (∀ b ∈ litNan, lowerc b = b) ∧
    (∀ b ∈ (43 :: litInf), lowerc b = b) ∧ (∀ b ∈ (43 :: litInfinity), lowerc b = b) ∧
    (∀ b ∈ (45 :: litInf), lowerc b = b) ∧ (∀ b ∈ (45 :: litInfinity), lowerc b = b) := by
  decide +kernel

/-- **special_correct** — `special(s)` recognises exactly the spellings of the specification
(any letter case, optional sign on the infinities, none on NaN) with the same values. -/
theorem special_eq_spec (s : Bytes) : special s = specialSpec s := by
  obtain ⟨l1, l2, l3, l4, l5, l6, l7⟩ := lit_lower
  cases s with
  | nil => decide
  | cons c tl =>
    unfold special specialSpec
    simp only [equalIgnoreCase_eq _ _ l1, equalIgnoreCase_eq _ _ l2, equalIgnoreCase_eq _ _ l3,
      equalIgnoreCase_eq _ _ l4, equalIgnoreCase_eq _ _ l5, equalIgnoreCase_eq _ _ l6, equalIgnoreCase_eq _ _ l7]
    simp only [specials, litInf, litInfinity, litNan, List.find?, List.map_cons, List.cons_beq_cons]
    generalize List.map lowerc tl = L
    clear l1 l2 l3 l4 l5 l6 l7
    -- the five tails a spelling can have after its first byte; each makes the goal a closed
    -- statement about the byte c, which the kernel checks for all 256 values
    by_cases hA : [105, 110, 102] = L
    · subst hA; revert c; apply byte_forall; decide +kernel
    by_cases hB : [105, 110, 102, 105, 110, 105, 116, 121] = L
    · subst hB; revert c; apply byte_forall; decide +kernel
    by_cases hC : [97, 110] = L
    · subst hC; revert c; apply byte_forall; decide +kernel
    by_cases hD : [110, 102] = L
    · subst hD; revert c; apply byte_forall; decide +kernel
    by_cases hE : [110, 102, 105, 110, 105, 116, 121] = L
    · subst hE; revert c; apply byte_forall; decide +kernel
    have eA : (([105, 110, 102] : Bytes) == L) = false := by simpa using hA
    have eB : (([105, 110, 102, 105, 110, 105, 116, 121] : Bytes) == L) = false := by simpa using hB
    have eC : (([97, 110] : Bytes) == L) = false := by simpa using hC
    have eD : (([110, 102] : Bytes) == L) = false := by simpa using hD
    have eE : (([110, 102, 105, 110, 105, 116, 121] : Bytes) == L) = false := by simpa using hE
    simp only [eA, eB, eC, eD, eE]
    revert c; apply byte_forall; decide +kernel

end C03
