/-
C18 helper: the output layout of NormalizeDateString is order preserving — fixed-width
zero-padded fields compare like numbers, and the variable-width fraction compares correctly
because '+' (0x2B) < '.' (0x2E) < '0'..'9'.
-/
import Model.Series.Date
import Mathlib.Tactic.Linarith

namespace C18
open Series.Date

theorem lex_append_left (p : List Nat) {l1 l2 : List Nat} (h : l1 < l2) : p ++ l1 < p ++ l2 := by
  induction p with
  | nil => exact h
  | cons a p ih => exact List.Lex.cons ih

theorem lex_of_lt_same_len {a b : List Nat} (h : a < b) (hl : a.length = b.length) (r1 r2 : List Nat) :
    a ++ r1 < b ++ r2 := by
  induction h with
  | nil => simp at hl
  | rel hab => exact List.Lex.rel hab
  | cons _ ih => exact List.Lex.cons (ih (by simpa using hl))

theorem pad2_lt {a b : Nat} (h : a < b) (hb : b < 100) : pad2 a < pad2 b := by
  unfold pad2
  by_cases hq : a / 10 % 10 < b / 10 % 10
  · exact List.Lex.rel (by omega)
  · have e : a / 10 % 10 = b / 10 % 10 := by omega
    rw [e]
    exact List.Lex.cons (List.Lex.rel (by omega))

theorem pad4_lt {a b : Nat} (h : a < b) (hb : b < 10000) : pad4 a < pad4 b := by
  unfold pad4
  by_cases h3 : a / 1000 % 10 < b / 1000 % 10
  · exact List.Lex.rel (by omega)
  · have e3 : a / 1000 % 10 = b / 1000 % 10 := by omega
    rw [e3]; apply List.Lex.cons
    by_cases h2 : a / 100 % 10 < b / 100 % 10
    · exact List.Lex.rel (by omega)
    · have e2 : a / 100 % 10 = b / 100 % 10 := by omega
      rw [e2]; apply List.Lex.cons
      by_cases h1 : a / 10 % 10 < b / 10 % 10
      · exact List.Lex.rel (by omega)
      · have e1 : a / 10 % 10 = b / 10 % 10 := by omega
        rw [e1]
        exact List.Lex.cons (List.Lex.rel (by omega))

theorem pad2_length (a : Nat) : (pad2 a).length = 2 := rfl
theorem pad4_length (a : Nat) : (pad4 a).length = 4 := rfl

/-- all digits zero means the number is zero -/
theorem digs_all_zero : ∀ (k n : Nat), n < 10 ^ k → (digs k n).all (· = 0) = true → n = 0
  | 0, n, h, _ => by simpa using h
  | k + 1, n, h, hz => by
    simp only [digs, List.all_cons, Bool.and_eq_true, decide_eq_true_eq] at hz
    have hp : 0 < 10 ^ k := Nat.pow_pos (by norm_num)
    have hr := digs_all_zero k (n % 10 ^ k) (Nat.mod_lt _ hp) hz.2
    have := Nat.div_add_mod n (10 ^ k)
    rw [hz.1, hr] at this
    omega

theorem plus_lt_digit (d : Nat) (r r' : List Nat) : (43 :: r) < (48 + d) :: r' :=
  List.Lex.rel (by omega)

/-- the fraction digits followed by "+00:00", trailing zeros dropped, is monotone in the number -/
theorem fracTail_lt : ∀ (k n1 n2 : Nat), n1 < n2 → n2 < 10 ^ k →
    fracTail (digs k n1) < fracTail (digs k n2)
  | 0, n1, n2, h, h2 => by simp at h2; omega
  | k + 1, n1, n2, h, h2 => by
    have hp : 0 < 10 ^ k := Nat.pow_pos (by norm_num)
    have e1 := Nat.div_add_mod n1 (10 ^ k)
    have e2 := Nat.div_add_mod n2 (10 ^ k)
    have r1 := Nat.mod_lt n1 hp
    have r2 := Nat.mod_lt n2 hp
    have hle : n1 / 10 ^ k ≤ n2 / 10 ^ k := Nat.div_le_div_right (le_of_lt h)
    -- the second list is not all zero
    have hnz2 : (digs (k + 1) n2).all (· = 0) = false := by
      by_contra hc
      have := digs_all_zero (k + 1) n2 h2 (by simpa using hc)
      omega
    have hd2 : fracTail (digs (k + 1) n2) = (48 + n2 / 10 ^ k) :: fracTail (digs k (n2 % 10 ^ k)) := by
      simp only [digs] at hnz2 ⊢
      simp only [fracTail, hnz2]
      simp
    rw [hd2]
    by_cases hz1 : (digs (k + 1) n1).all (· = 0) = true
    · have : fracTail (digs (k + 1) n1) = [43, 48, 48, 58, 48, 48] := by
        simp only [digs] at hz1 ⊢
        simp only [fracTail, hz1]
        simp
      rw [this]
      exact plus_lt_digit _ _ _
    · have hz1' : (digs (k + 1) n1).all (· = 0) = false := by simpa using hz1
      have hd1 : fracTail (digs (k + 1) n1) = (48 + n1 / 10 ^ k) :: fracTail (digs k (n1 % 10 ^ k)) := by
        simp only [digs] at hz1' ⊢
        simp only [fracTail, hz1']
        simp
      rw [hd1]
      rcases Nat.lt_or_eq_of_le hle with hlt | heq
      · exact List.Lex.rel (by omega)
      · rw [heq]
        apply List.Lex.cons
        apply fracTail_lt k _ _ _ r2
        rw [heq] at e1
        omega

theorem fracPart_lt {n1 n2 : Nat} (h : n1 < n2) (h2 : n2 < 10 ^ 9) : fracPart n1 < fracPart n2 := by
  unfold fracPart nanoDigits
  have hnz2 : (digs 9 n2).all (· = 0) = false := by
    by_contra hc
    have := digs_all_zero 9 n2 h2 (by simpa using hc)
    omega
  simp only [hnz2]
  by_cases hz1 : (digs 9 n1).all (· = 0) = true
  · simp only [hz1, if_true]
    exact List.Lex.rel (by norm_num)
  · have hz1' : (digs 9 n1).all (· = 0) = false := by simpa using hz1
    simp only [hz1']
    exact List.Lex.cons (fracTail_lt 9 n1 n2 h h2)

theorem fmtYear_of_range {y : Int} (h0 : 0 ≤ y) (h1 : y < 10000) : fmtYear y = pad4 y.natAbs := by
  unfold fmtYear
  have : y.natAbs < 10000 := by omega
  simp [this, not_lt.mpr h0]

end C18
