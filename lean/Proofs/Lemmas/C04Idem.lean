/-
C04 helper lemmas for idempotence: a well-formed piece list re-parses to itself; the pieces of
any string are well formed; replacing components by ASCII words keeps well-formedness.
-/
import Proofs.Lemmas.C04Sub
import Proofs.Lemmas.C04Rune

namespace C04
open Unit.Parse Unit.Tidy
open Spec.Tidy (runes group Piece rewrite pieces)

theorem R_of_ne (l : Bytes) (h : l ≠ []) :
    R l = ((Utf8.decodeRune l).1, l.take (Utf8.decodeRune l).2) :: R (l.drop (Utf8.decodeRune l).2) := by
  cases l with
  | nil => exact absurd rfl h
  | cons b bs => exact R_cons b bs

theorem isSep_ne_error (r : Nat) (h : Spec.Tidy.isSep r = true) : r ≠ 0xFFFD := by
  intro e; subst e; revert h; decide

def SepOK (r : Nat) (enc : Bytes) : Prop :=
  Spec.Tidy.isSep r = true ∧ (∃ c t, enc = c :: t ∧ nonCont c) ∧
  ∀ tail, Utf8.decodeRune (enc ++ tail) = (r, enc.length)

def WordOK (w : Bytes) : Prop :=
  w ≠ [] ∧ ∀ T, okTail T → noWordHead (group (R T)) → group (R (w ++ T)) = .word w :: group (R T)

inductive WF : List Piece → Prop
  | nil : WF []
  | sep {r : Nat} {enc : Bytes} {ps : List Piece} : SepOK r enc → WF ps → WF (.sep r enc :: ps)
  | word {w : Bytes} {ps : List Piece} : WordOK w → noWordHead ps → WF ps → WF (.word w :: ps)

theorem concatP_cons (p : Piece) (ps : List Piece) : concatP (p :: ps) = Piece.bytes p ++ concatP ps := by
  simp [concatP]

theorem okTail_concat {ps : List Piece} (h : WF ps) (hn : noWordHead ps) : okTail (concatP ps) := by
  cases h with
  | nil => left; simp [concatP]
  | @sep r enc ps' hs _ =>
    obtain ⟨_, ⟨c, t, rfl, hc⟩, _⟩ := hs
    right; exact ⟨c, t ++ concatP ps', by simp [concatP_cons, Piece.bytes], hc⟩
  | word _ _ _ => exact absurd hn (by simp [noWordHead])

theorem R_sep_cons (r : Nat) (enc tail : Bytes) (h : SepOK r enc) : R (enc ++ tail) = (r, enc) :: R tail := by
  obtain ⟨_, ⟨c, t, rfl, _⟩, hd⟩ := h
  rw [R_of_ne _ (by simp), hd tail]
  simp only
  rw [List.take_left', List.drop_left'] <;> rfl

/-- a well-formed piece list is the piece list of its own bytes -/
theorem reparse : ∀ {ps : List Piece}, WF ps → group (R (concatP ps)) = ps := by
  intro ps h
  induction h with
  | nil => simp [concatP, R_nil, group]
  | sep hs _ ih =>
    rw [concatP_cons]
    simp only [Piece.bytes]
    rw [R_sep_cons _ _ _ hs, group_cons_sep _ _ _ hs.1, ih]
  | word hw hn hwf ih =>
    rw [concatP_cons]
    simp only [Piece.bytes]
    rw [hw.2 _ (okTail_concat hwf hn) (by rw [ih]; exact hn), ih]

/-! ### the pieces of any byte string are well formed -/

theorem takeTok_rest : ∀ (fuel : Nat) (bs : Bytes), bs.length < fuel →
    (takeTok fuel bs).2 = [] ∨
    ∃ b bs', (takeTok fuel bs).2 = b :: bs' ∧ Spec.Tidy.isSep (Utf8.decodeRune (b :: bs')).1 = true := by
  intro fuel
  induction fuel with
  | zero => intro bs h; omega
  | succ fuel ih =>
    intro bs h
    cases bs with
    | nil => left; simp [takeTok]
    | cons b bs =>
      have hw := decodeRune_width b bs
      simp only [takeTok]
      generalize hd : Utf8.decodeRune (b :: bs) = dd at *
      obtain ⟨r, w⟩ := dd
      simp only at hw ⊢
      by_cases hs : Unit.Parse.isSep r = true
      · simp only [hs, if_true]
        right; exact ⟨b, bs, rfl, by rw [hd]; exact hs⟩
      · have hsf : Unit.Parse.isSep r = false := by simpa using hs
        simp only [hsf, Bool.false_eq_true, if_false]
        have hlen : ((b :: bs).drop w).length < fuel := by
          simp only [List.length_drop, List.length_cons] at *; omega
        exact ih _ hlen

theorem okTail_of_sep_head (b : UInt8) (bs : Bytes)
    (h : Spec.Tidy.isSep (Utf8.decodeRune (b :: bs)).1 = true) : okTail (b :: bs) :=
  Or.inr ⟨b, bs, rfl, decodeRune_valid_head b bs (isSep_ne_error _ h)⟩

theorem takeTok_rest_ok (fuel : Nat) (bs : Bytes) (h : bs.length < fuel) : okTail (takeTok fuel bs).2 := by
  rcases takeTok_rest fuel bs h with e | ⟨b, bs', e, hs⟩
  · left; exact e
  · rw [e]; exact okTail_of_sep_head b bs' hs

/-- the component cut off by `takeTok` is parsed as the same component in front of any other
acceptable continuation -/
theorem takeTok_wordOK : ∀ (fuel : Nat) (bs : Bytes), bs.length < fuel →
    ∀ T, okTail T → noWordHead (group (R T)) →
    group (R ((takeTok fuel bs).1 ++ T)) =
      (if (takeTok fuel bs).1 = [] then group (R T) else .word (takeTok fuel bs).1 :: group (R T)) := by
  intro fuel
  induction fuel with
  | zero => intro bs h; omega
  | succ fuel ih =>
    intro bs h T hT hnT
    cases bs with
    | nil => simp [takeTok]
    | cons b bs =>
      have hw := decodeRune_width b bs
      have hrest := takeTok_rest_ok (fuel + 1) (b :: bs) h
      have hspec := (takeTok_spec (fuel + 1) (b :: bs) h).1
      simp only [takeTok] at hrest hspec ⊢
      generalize hd : Utf8.decodeRune (b :: bs) = dd at *
      obtain ⟨r, w⟩ := dd
      simp only at hw hrest hspec ⊢
      by_cases hs : Unit.Parse.isSep r = true
      · simp [hs]
      · have hsf : Unit.Parse.isSep r = false := by simpa using hs
        have hs' : Spec.Tidy.isSep r = false := hsf
        simp only [hsf, Bool.false_eq_true, if_false] at hrest hspec ⊢
        have hlen : ((b :: bs).drop w).length < fuel := by
          simp only [List.length_drop, List.length_cons] at *; omega
        have hI := ih _ hlen T hT hnT
        generalize takeTok fuel ((b :: bs).drop w) = tt at *
        obtain ⟨t', rest'⟩ := tt
        simp only at hI hrest hspec ⊢
        have htl : ((b :: bs).take w).length = w := by
          simp only [List.length_take, List.length_cons] at *; omega
        have htake : (b :: bs).take w ≠ [] := by
          intro hc; rw [hc] at htl; simp at htl; omega
        have hq : (b :: bs).take w ++ t' ≠ [] := by simp [htake]
        -- decoding the first rune does not depend on what follows the component
        have hdec : Utf8.decodeRune (((b :: bs).take w ++ t') ++ T) = (r, w) := by
          rw [decodeRune_local' _ T hq hT, ← decodeRune_local' _ rest' hq hrest, ← hspec, hd]
        rw [if_neg hq, R_of_ne _ (by simp [htake]), hdec]
        simp only
        have e1 : (((b :: bs).take w ++ t') ++ T).take w = (b :: bs).take w := by
          rw [List.append_assoc, List.take_left' htl]
        have e2 : (((b :: bs).take w ++ t') ++ T).drop w = t' ++ T := by
          rw [List.append_assoc, List.drop_left' htl]
        rw [e1, e2]
        by_cases ht : t' = []
        · subst ht
          rw [if_pos rfl] at hI
          simp only [List.nil_append, List.append_nil] at hI ⊢
          exact group_cons_word_nohead _ _ _ hs' hnT
        · rw [if_neg ht] at hI
          exact group_cons_word_head _ _ _ _ _ hs' hI

theorem WF_pieces_aux : ∀ (n : Nat) (bs : Bytes), bs.length ≤ n → WF (group (R bs)) := by
  intro n
  induction n with
  | zero =>
    intro bs h
    have : bs = [] := List.eq_nil_of_length_eq_zero (by omega)
    subst this; rw [R_nil]; exact WF.nil
  | succ n ih =>
    intro bs h
    cases bs with
    | nil => rw [R_nil]; exact WF.nil
    | cons b bs =>
      have hw := decodeRune_width b bs
      by_cases hs : Spec.Tidy.isSep (Utf8.decodeRune (b :: bs)).1 = true
      · rw [R_cons, group_cons_sep _ _ _ hs]
        have hne := isSep_ne_error _ hs
        refine WF.sep ⟨hs, ?_, ?_⟩ (ih _ ?_)
        · refine ⟨b, bs.take ((Utf8.decodeRune (b :: bs)).2 - 1), ?_, decodeRune_valid_head b bs hne⟩
          obtain ⟨k, hk⟩ : ∃ k, (Utf8.decodeRune (b :: bs)).2 = k + 1 := ⟨_, (Nat.sub_add_cancel hw.1).symm⟩
          rw [hk]; simp
        · intro tail
          rw [decodeRune_valid_ext b bs tail hne]
          have : ((b :: bs).take (Utf8.decodeRune (b :: bs)).2).length = (Utf8.decodeRune (b :: bs)).2 := by
            simp only [List.length_take, List.length_cons] at *; omega
          rw [this]
        · simp only [List.length_drop, List.length_cons] at *; omega
      · have hs' : Spec.Tidy.isSep (Utf8.decodeRune (b :: bs)).1 = false := by simpa using hs
        have hsp := takeTok_spec ((b :: bs).length + 1) (b :: bs) (Nat.lt_succ_self _)
        have hne := takeTok_nonempty (b :: bs).length b bs hs'
        have hrest := takeTok_rest_ok ((b :: bs).length + 1) (b :: bs) (Nat.lt_succ_self _)
        have hword := takeTok_wordOK ((b :: bs).length + 1) (b :: bs) (Nat.lt_succ_self _)
        generalize takeTok ((b :: bs).length + 1) (b :: bs) = tt at *
        obtain ⟨t, rest⟩ := tt
        simp only at hsp hne hrest hword
        obtain ⟨e1, e2, e3⟩ := hsp
        rw [if_neg hne] at e3
        rw [e3]
        refine WF.word ⟨hne, ?_⟩ e2 (ih _ ?_)
        · intro T hT hnT
          have := hword T hT hnT
          rw [if_neg hne] at this
          exact this
        · have h1 := congrArg List.length e1
          have h3 : 0 < t.length := List.length_pos_iff.mpr hne
          simp only [List.length_append, List.length_cons] at h1 h
          omega

theorem WF_pieces (u : Bytes) : WF (pieces u) := WF_pieces_aux u.length u (Nat.le_refl _)

/-! ### the rewritten piece list -/

open Spec.Tidy (ns mb sec b numerator)

def mapP : Bool → List Piece → List Piece
  | _, [] => []
  | d, .sep r enc :: ps => .sep r enc :: mapP (sepDenom r d) ps
  | d, .word w :: ps =>
    (if !d && w == ns then Piece.word sec else if !d && w == mb then Piece.word b else Piece.word w) :: mapP d ps

theorem rewrite_fst : ∀ (ps : List Piece) (d : Bool) (f : F64.Bits), (rewrite d f ps).1 = concatP (mapP d ps) := by
  intro ps
  induction ps with
  | nil => intro d f; simp [rewrite, mapP, concatP]
  | cons p ps ih =>
    intro d f
    cases p with
    | sep r enc => rw [rewrite_sep]; simp [mapP, concatP_cons, Piece.bytes, ih]
    | word w =>
      simp only [rewrite, mapP]
      by_cases h1 : (!d && w == ns) = true
      · simp [h1, concatP_cons, Piece.bytes, ih]
      · have h1' : (!d && w == ns) = false := by simpa using h1
        by_cases h2 : (!d && w == mb) = true
        · simp [h1', h2, concatP_cons, Piece.bytes, ih]
        · have h2' : (!d && w == mb) = false := by simpa using h2
          simp [h1', h2', concatP_cons, Piece.bytes, ih]

theorem noWordHead_mapP (d : Bool) (ps : List Piece) (h : noWordHead ps) : noWordHead (mapP d ps) := by
  cases ps with
  | nil => simp [mapP, noWordHead]
  | cons p ps => cases p with
    | sep r enc => simp [mapP, noWordHead]
    | word w => exact absurd h (by simp [noWordHead])

theorem wordOK_sec : WordOK sec := by
  refine ⟨by decide, ?_⟩
  intro T hT hn
  have d1 : ∀ t, Utf8.decodeRune (115 :: t) = (115, 1) := fun t => dec1 115 t (by decide)
  have d2 : ∀ t, Utf8.decodeRune (101 :: t) = (101, 1) := fun t => dec1 101 t (by decide)
  have d3 : ∀ t, Utf8.decodeRune (99 :: t) = (99, 1) := fun t => dec1 99 t (by decide)
  show group (R (115 :: 101 :: 99 :: T)) = _
  rw [R_cons, d1]; simp only [List.take, List.drop]
  rw [R_cons, d2]; simp only [List.take, List.drop]
  rw [R_cons, d3]; simp only [List.take, List.drop]
  have g3 := group_cons_word_nohead 99 [99] (R T) (by decide) hn
  have g2 := group_cons_word_head 101 [101] [99] _ _ (by decide) g3
  exact group_cons_word_head 115 [115] _ _ _ (by decide) g2

theorem wordOK_b : WordOK b := by
  refine ⟨by decide, ?_⟩
  intro T hT hn
  have d1 : ∀ t, Utf8.decodeRune (66 :: t) = (66, 1) := fun t => dec1 66 t (by decide)
  show group (R (66 :: T)) = _
  rw [R_cons, d1]; simp only [List.take, List.drop]
  exact group_cons_word_nohead 66 [66] (R T) (by decide) hn

theorem WF_mapP : ∀ {ps : List Piece}, WF ps → ∀ d, WF (mapP d ps) := by
  intro ps h
  induction h with
  | nil => intro d; exact WF.nil
  | sep hs _ ih => intro d; exact WF.sep hs (ih _)
  | word hw hn _ ih =>
    intro d
    simp only [mapP]
    split
    · exact WF.word wordOK_sec (noWordHead_mapP _ _ hn) (ih d)
    · split
      · exact WF.word wordOK_b (noWordHead_mapP _ _ hn) (ih d)
      · exact WF.word hw (noWordHead_mapP _ _ hn) (ih d)

theorem numerator_mapP : ∀ (ps : List Piece) (d : Bool), ∀ w ∈ numerator d (mapP d ps), w ≠ ns ∧ w ≠ mb := by
  intro ps
  induction ps with
  | nil => intro d w h; simp [mapP, numerator] at h
  | cons p ps ih =>
    intro d w h
    cases p with
    | sep r enc =>
      simp only [mapP, numerator] at h
      exact ih _ w h
    | word x =>
      cases d with
      | true =>
        simp only [mapP, Bool.not_true, Bool.false_and, Bool.false_eq_true, if_false, numerator, if_true] at h
        exact ih _ w h
      | false =>
        simp only [mapP, Bool.not_false, Bool.true_and] at h
        by_cases h1 : (x == ns) = true
        · simp only [h1, if_true, numerator, Bool.false_eq_true, if_false, List.mem_cons] at h
          rcases h with rfl | h
          · decide
          · exact ih _ w h
        · have h1' : (x == ns) = false := by simpa using h1
          by_cases h2 : (x == mb) = true
          · simp only [h1', h2, if_true, Bool.false_eq_true, if_false, numerator, List.mem_cons] at h
            rcases h with rfl | h
            · decide
            · exact ih _ w h
          · have h2' : (x == mb) = false := by simpa using h2
            simp only [h1', h2', Bool.false_eq_true, if_false, numerator, List.mem_cons] at h
            rcases h with rfl | h
            · exact ⟨by simpa using h1', by simpa using h2'⟩
            · exact ih _ w h

/-- nothing to normalise in the numerator: the unit is left alone, factor untouched -/
theorem rewrite_base : ∀ (ps : List Piece) (d : Bool) (f : F64.Bits),
    (∀ w ∈ numerator d ps, w ≠ ns ∧ w ≠ mb) → rewrite d f ps = (concatP ps, f) := by
  intro ps
  induction ps with
  | nil => intro d f _; simp [rewrite, concatP]
  | cons p ps ih =>
    intro d f h
    cases p with
    | sep r enc =>
      rw [rewrite_sep, ih _ _ (by simpa [numerator, sepDenom] using h)]
      simp [concatP_cons, Piece.bytes]
    | word w =>
      cases d with
      | true =>
        have := ih true f (by simpa [numerator] using h)
        simp [rewrite, this, concatP_cons, Piece.bytes]
      | false =>
        have hw := h w (by simp [numerator])
        have a1 : (w == ns) = false := by simpa using hw.1
        have a2 : (w == mb) = false := by simpa using hw.2
        have := ih false f (fun x hx => h x (by simp [numerator, hx]))
        simp [rewrite, a1, a2, this, concatP_cons, Piece.bytes]

/-- the pieces of the normalised unit are the rewritten pieces of the unit -/
theorem pieces_tidy (u : Bytes) : pieces (Spec.Tidy.tidyUnit u).1 = mapP false (pieces u) := by
  unfold Spec.Tidy.tidyUnit
  rw [rewrite_fst]
  exact reparse (WF_mapP (WF_pieces u) false)

/-- normalising a normalised unit changes nothing, factor exactly 1 -/
theorem spec_tidyUnit_idem (u : Bytes) :
    Spec.Tidy.tidyUnit (Spec.Tidy.tidyUnit u).1 = ((Spec.Tidy.tidyUnit u).1, F64.one) := by
  have hp := pieces_tidy u
  have h1 : (Spec.Tidy.tidyUnit u).1 = concatP (mapP false (pieces u)) := by
    unfold Spec.Tidy.tidyUnit; rw [rewrite_fst]
  show rewrite false F64.one (pieces (Spec.Tidy.tidyUnit u).1) = _
  rw [hp, rewrite_base _ _ _ (numerator_mapP _ _), ← h1]

/-- the normalised unit is a base unit: no numerator component `ns` or `MB` is left -/
theorem spec_tidyUnit_isBase (u : Bytes) : Spec.Tidy.isBase (Spec.Tidy.tidyUnit u).1 = true := by
  unfold Spec.Tidy.isBase
  rw [pieces_tidy, List.all_eq_true]
  intro w hw
  have := numerator_mapP _ _ w hw
  simp [this.1, this.2]

/-- a base unit is left alone -/
theorem spec_tidyUnit_of_isBase (u : Bytes) (h : Spec.Tidy.isBase u = true) :
    Spec.Tidy.tidyUnit u = (u, F64.one) := by
  unfold Spec.Tidy.tidyUnit
  rw [rewrite_base, concat_pieces]
  intro w hw
  unfold Spec.Tidy.isBase at h
  have := List.all_eq_true.mp h w hw
  simpa using this

end C04
