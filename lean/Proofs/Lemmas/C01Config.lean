/-
C01 helper lemmas, part 2: a configuration block. What `walk` / `newKeys` / `writeFileConfig`
do to the writer state (it becomes the record's configuration, as a map) and what a reader
makes of the lines they print (its map becomes the file part of that configuration).
-/
import Proofs.Lemmas.C01Base

namespace C01
open Fmt Spec.Format

theorem fileOnly_eq (o : Option (Bytes × Bool)) :
    fileOnly o = match o with
      | some (v, true) => some (v, true)
      | _ => none := by
  unfold fileOnly; rfl

theorem link_erase {fc : FC} {m : CMap} (hl : Link fc m) (key : Bytes) :
    Link (fc.erase key) (m.del key) := by
  intro k
  rw [CMap.get_del, FC.get_erase]
  by_cases hk : k = key
  · simp [hk, fileOnly]
  · simp [hk, hl k]

theorem link_erase_inert {fc : FC} {m : CMap} (hl : Link fc m) (key v : Bytes)
    (h : fc.get key = some (v, false)) : Link (fc.erase key) m := by
  intro k
  rw [FC.get_erase]
  by_cases hk : k = key
  · subst hk; rw [hl k, h]; simp [fileOnly]
  · simp [hk, hl k]

theorem link_set_file {fc : FC} {m : CMap} (hl : Link fc m) (key v : Bytes) (hv : v ≠ []) :
    Link (fc.set key v true) (m.assign key v true) := by
  intro k
  rw [CMap.get_assign, FC.get_set]
  by_cases hk : k = key
  · simp [hk, hv, fileOnly]
  · simp [hk, hl k]

theorem link_set_internal_del {fc : FC} {m : CMap} (hl : Link fc m) (key v : Bytes) :
    Link (fc.set key v false) (m.del key) := by
  intro k
  rw [CMap.get_del, FC.get_set]
  by_cases hk : k = key
  · simp [hk, fileOnly]
  · simp [hk, hl k]

theorem link_set_internal_same {fc : FC} {m : CMap} (hl : Link fc m) (key v v0 : Bytes)
    (h : fc.get key = some (v0, false)) : Link (fc.set key v false) m := by
  intro k
  rw [FC.get_set]
  by_cases hk : k = key
  · subst hk; rw [hl k, h]; simp [fileOnly]
  · simp [hk, hl k]

theorem link_set_internal_new {fc : FC} {m : CMap} (hl : Link fc m) (key v : Bytes)
    (h : fc.get key = none) : Link (fc.set key v false) m := by
  intro k
  rw [FC.get_set]
  by_cases hk : k = key
  · subst hk; rw [hl k, h]; simp [fileOnly]
  · simp [hk, hl k]

theorem fcgood_erase {O : Oracles} {fn : Bytes} {fc : FC} (hg : FCGood O fn fc) (key : Bytes) :
    FCGood O fn (fc.erase key) := by
  intro k v f h
  rw [FC.get_erase] at h
  by_cases hk : k = key
  · simp [hk] at h
  · simp only [hk, ↓reduceIte] at h; exact hg k v f h

theorem fcgood_set {O : Oracles} {fn : Bytes} {fc : FC} (hg : FCGood O fn fc) (c : Cfg)
    (hc : CfgGood O fn c) : FCGood O fn (fc.set c.key c.value c.file) := by
  intro k v f h
  rw [FC.get_set] at h
  by_cases hk : k = c.key
  · simp only [hk, ↓reduceIte, Option.some.injEq, Prod.mk.injEq] at h
    obtain ⟨_, hf⟩ := h
    subst hk
    unfold CfgGood at hc
    rw [← hf]
    by_cases hcf : c.file
    · simp only [hcf, ↓reduceIte] at hc ⊢; exact hc.2.2
    · simp only [hcf] at hc ⊢; exact hc
  · simp only [hk, ↓reduceIte] at h; exact hg k v f h

/-! ### the walk over `order` -/

theorem walk_spec (O : Oracles) (fn : Bytes) (config : List Cfg) (hnd : (config.map Cfg.key).Nodup)
    (hcfg : ∀ c ∈ config, CfgGood O fn c) :
    ∀ (order : List Bytes) (fc : FC) (m : CMap) (u : UnitMap) (n : Nat),
      order.Nodup → (∀ k ∈ order, (fc.get k).isSome) → fc.keys.Nodup → Link fc m → FCGood O fn fc →
      (∀ k, ((walk config order fc).2.1).get k = if k ∈ order then cfgGet config k else fc.get k) ∧
      (walk config order fc).1 = order.filter (fun k => (cfgGet config k).isSome) ∧
      (walk config order fc).2.1.keys.Nodup ∧ FCGood O fn (walk config order fc).2.1 ∧
      ∃ m', runLines O fn m u n (walk config order fc).2.2 = (m', u, []) ∧
        Link (walk config order fc).2.1 m' := by
  intro order
  induction order with
  | nil =>
    intro fc m u n _ _ hk hl hg
    exact ⟨fun k => by simp [walk], by simp [walk], hk, hg, m, by simp [walk, runLines], hl⟩
  | cons key rest ih =>
    intro fc m u n hndo hin hkn hl hg
    simp only [List.nodup_cons] at hndo
    have hkin := hin key List.mem_cons_self
    obtain ⟨⟨hv, hf⟩, hfc⟩ := Option.isSome_iff_exists.1 hkin
    have hfind := cfgAt_eq_find config hnd key
    have hin' : ∀ (fc' : FC), (∀ k, k ≠ key → fc'.get k = fc.get k) → ∀ k ∈ rest, (fc'.get k).isSome := by
      intro fc' hsame k hk
      have hne : k ≠ key := fun e => hndo.1 (e ▸ hk)
      rw [hsame k hne]; exact hin k (List.mem_cons_of_mem _ hk)
    cases hc : config.find? (fun c => c.key == key) with
    | none =>
      -- the key was deleted
      have hw : walk config (key :: rest) fc =
          ((walk config rest (fc.erase key)).1, (walk config rest (fc.erase key)).2.1,
            delLine key :: (walk config rest (fc.erase key)).2.2) := by
        simp only [walk, hfind, hc]
      have hcg : cfgGet config key = none := by rw [cfgGet_eq, hc]; rfl
      -- the reader's map after the deletion line
      have hline : ∃ m1, lineRecs O fn m u n (delLine key) = (m1, u, []) ∧ Link (fc.erase key) m1 := by
        have hgk := hg key hv hf hfc
        by_cases hff : hf = true
        · subst hff
          simp only [↓reduceIte] at hgk
          exact ⟨m.del key, hgk m u n, link_erase hl key⟩
        · have hff' : hf = false := by simpa using hff
          subst hff'
          simp only [Bool.false_eq_true, ↓reduceIte] at hgk
          rcases hgk with hd | hi
          · exact ⟨m.del key, hd m u n, link_erase hl key⟩
          · exact ⟨m, hi m u n, link_erase_inert hl key hv hfc⟩
      obtain ⟨m1, hm1, hl1⟩ := hline
      obtain ⟨ha, hb, hkn', hg', m', hr, hl'⟩ := ih (fc.erase key) m1 u (n + 1) hndo.2
        (hin' _ (fun k hk => by rw [FC.get_erase]; simp [hk])) (FC.nodup_erase hkn key) hl1
        (fcgood_erase hg key)
      rw [hw]
      refine ⟨fun k => ?_, ?_, hkn', hg', m', ?_, hl'⟩
      · simp only [ha k, List.mem_cons, FC.get_erase]
        by_cases hk : k = key
        · subst hk; simp [hndo.1, hcg]
        · simp [hk]
      · simp only [hb, List.filter_cons, hcg]; rfl
      · simp only [runLines, hm1, hr, List.nil_append]
    | some cfg =>
      have hck : cfg.key = key := by simpa using List.find?_some hc
      have hcm : cfg ∈ config := List.mem_of_find?_eq_some hc
      have hcg : cfgGet config key = some (cfg.value, cfg.file) := by rw [cfgGet_eq, hc]; rfl
      have hgood := hcfg cfg hcm
      by_cases hsame : (hv == cfg.value && hf == cfg.file) = true
      · -- unchanged
        have hw : walk config (key :: rest) fc =
            (key :: (walk config rest fc).1, (walk config rest fc).2.1, (walk config rest fc).2.2) := by
          simp only [walk, hfind, hc, hfc, Option.getD_some, hsame, ↓reduceIte]
        simp only [Bool.and_eq_true, beq_iff_eq] at hsame
        obtain ⟨ha, hb, hkn', hg', m', hr, hl'⟩ := ih fc m u n hndo.2
          (hin' _ (fun k _ => rfl)) hkn hl hg
        rw [hw]
        refine ⟨fun k => ?_, ?_, hkn', hg', m', hr, hl'⟩
        · simp only [ha k, List.mem_cons]
          by_cases hk : k = key
          · subst hk; simp [hndo.1, hcg, hfc, hsame.1, hsame.2]
          · simp [hk]
        · simp only [hb, List.filter_cons, hcg, Option.isSome_some, ↓reduceIte]
      · -- changed
        have hsame' : (hv == cfg.value && hf == cfg.file) = false := by simpa using hsame
        have hw : walk config (key :: rest) fc =
            (key :: (walk config rest (fc.set key cfg.value cfg.file)).1,
              (walk config rest (fc.set key cfg.value cfg.file)).2.1,
              (if cfg.file then [kvLine key cfg.value] else if hf then [delLine key] else []) ++
                (walk config rest (fc.set key cfg.value cfg.file)).2.2) := by
          simp only [walk, hfind, hc, hfc, Option.getD_some, hsame', Bool.false_eq_true, ↓reduceIte]
        -- the reader's map after the line(s)
        have hline : ∃ m1, runLines O fn m u n
              (if cfg.file then [kvLine key cfg.value] else if hf then [delLine key] else []) = (m1, u, []) ∧
            Link (fc.set key cfg.value cfg.file) m1 := by
          unfold CfgGood at hgood
          by_cases hcf : cfg.file = true
          · simp only [hcf, ↓reduceIte] at hgood ⊢
            rw [hck] at hgood
            exact ⟨m.assign key cfg.value true, by simp [runLines, hgood.1 m u n],
              link_set_file hl key cfg.value hgood.2.1⟩
          · have hcf' : cfg.file = false := by simpa using hcf
            simp only [hcf', Bool.false_eq_true, ↓reduceIte]
            by_cases hff : hf = true
            · subst hff
              have hgk := hg key hv true hfc
              simp only [↓reduceIte] at hgk ⊢
              exact ⟨m.del key, by simp [runLines, hgk m u n], link_set_internal_del hl key cfg.value⟩
            · have hff' : hf = false := by simpa using hff
              subst hff'
              simp only [Bool.false_eq_true, ↓reduceIte]
              exact ⟨m, by simp [runLines], link_set_internal_same hl key cfg.value hv hfc⟩
        obtain ⟨m1, hm1, hl1⟩ := hline
        have hgs : FCGood O fn (fc.set key cfg.value cfg.file) := by
          have := fcgood_set hg cfg hgood
          rw [hck] at this; exact this
        obtain ⟨ha, hb, hkn', hg', m', hr, hl'⟩ := ih (fc.set key cfg.value cfg.file) m1 u
          (n + (if cfg.file then [kvLine key cfg.value] else if hf then [delLine key] else []).length) hndo.2
          (hin' _ (fun k hk => by rw [FC.get_set]; simp [hk])) (FC.nodup_set hkn key _ _) hl1 hgs
        rw [hw]
        refine ⟨fun k => ?_, ?_, hkn', hg', m', ?_, hl'⟩
        · simp only [ha k, List.mem_cons, FC.get_set]
          by_cases hk : k = key
          · subst hk; simp [hndo.1, hcg]
          · simp [hk]
        · simp only [hb, List.filter_cons, hcg, Option.isSome_some, ↓reduceIte]
        · rw [runLines_append]
          simp only [hm1, hr, List.nil_append]

end C01
