/-
C01 helper lemmas, part 2: a configuration block. What `walk` / `newKeys` / `writeFileConfig`
do to the writer state (it becomes the record's configuration, as a map) and what a reader
makes of the lines they print (its map becomes the file part of that configuration).
-/
import Proofs.Lemmas.C01Base

namespace C01
open Fmt

theorem link_erase {fc : FC} {s : Store} (hl : Link fc s) (key : Bytes) :
    Link (fc.erase key) (s.set key [] true) := by
  refine ⟨(Store.set_spec hl.inv key [] true).1, fun k => ?_⟩
  rw [toMap_set hl.inv, FC.get_erase]
  by_cases hk : k = key
  · simp [hk, fileOnly]
  · simp [hk, hl.map k]

theorem link_erase_inert {fc : FC} {s : Store} (hl : Link fc s) (key v : Bytes)
    (h : fc.get key = some (v, false)) : Link (fc.erase key) s := by
  refine ⟨hl.inv, fun k => ?_⟩
  rw [FC.get_erase]
  by_cases hk : k = key
  · subst hk; rw [hl.map k, h]; simp [fileOnly]
  · simp [hk, hl.map k]

theorem link_set_file {fc : FC} {s : Store} (hl : Link fc s) (key v : Bytes) (hv : v ≠ []) :
    Link (fc.set key v true) (s.set key v true) := by
  refine ⟨(Store.set_spec hl.inv key v true).1, fun k => ?_⟩
  rw [toMap_set hl.inv, FC.get_set]
  by_cases hk : k = key
  · simp [hk, hv, fileOnly]
  · simp [hk, hl.map k]

theorem link_set_internal_del {fc : FC} {s : Store} (hl : Link fc s) (key v : Bytes) :
    Link (fc.set key v false) (s.set key [] true) := by
  refine ⟨(Store.set_spec hl.inv key [] true).1, fun k => ?_⟩
  rw [toMap_set hl.inv, FC.get_set]
  by_cases hk : k = key
  · simp [hk, fileOnly]
  · simp [hk, hl.map k]

theorem link_set_internal_same {fc : FC} {s : Store} (hl : Link fc s) (key v v0 : Bytes)
    (h : fc.get key = some (v0, false)) : Link (fc.set key v false) s := by
  refine ⟨hl.inv, fun k => ?_⟩
  rw [FC.get_set]
  by_cases hk : k = key
  · subst hk; rw [hl.map k, h]; simp [fileOnly]
  · simp [hk, hl.map k]

theorem link_set_internal_new {fc : FC} {s : Store} (hl : Link fc s) (key v : Bytes)
    (h : fc.get key = none) : Link (fc.set key v false) s := by
  refine ⟨hl.inv, fun k => ?_⟩
  rw [FC.get_set]
  by_cases hk : k = key
  · subst hk; rw [hl.map k, h]; simp [fileOnly]
  · simp [hk, hl.map k]

/-- one line that the reader takes without a record, then a block -/
theorem block_step (O : Oracles) {st st1 : RState} {l : Bytes} {ls : List Bytes} {fc' : FC}
    (h1 : scanLine O st l = (st1, [])) (hu : st1.units = st.units) (hf : st1.fileName = st.fileName)
    (hb : Block O st1 ls fc') : Block O st ([l] ++ ls) fc' :=
  block_cons O h1 hu hf hb

theorem fcgood_erase {O : Oracles} {fc : FC} (hg : FCGood O fc) (key : Bytes) :
    FCGood O (fc.erase key) := by
  intro k v f h
  rw [FC.get_erase] at h
  by_cases hk : k = key
  · simp [hk] at h
  · simp only [hk, ↓reduceIte] at h; exact hg k v f h

theorem fcgood_set {O : Oracles} {fc : FC} (hg : FCGood O fc) (c : Cfg)
    (hc : CfgGood O c) : FCGood O (fc.set c.key c.value c.file) := by
  intro k v f h
  rw [FC.get_set] at h
  by_cases hk : k = c.key
  · simp only [hk, ↓reduceIte, Option.some.injEq, Prod.mk.injEq] at h
    obtain ⟨_, hf⟩ := h
    subst hk
    unfold CfgGood at hc
    rw [← hf]
    by_cases hcf : c.file
    · simp only [hcf, ↓reduceIte] at hc ⊢; exact hc.2.2
    · simp only [hcf] at hc ⊢; exact hc
  · simp only [hk, ↓reduceIte] at h; exact hg k v f h

/-! ### the walk over `order` -/

/-- The walk: (1) the new `fileConfig` holds, for every known key, what the record's
configuration holds for it; (2) `order` loses exactly the deleted keys; (3) keys stay distinct;
(4) a reader that held the file part of the old `fileConfig` holds, after the printed lines, the
file part of the new one. (4) alone depends on what the reader makes of the lines. -/
theorem walk_spec (O : Oracles) (config : List Cfg) (hnd : (config.map Cfg.key).Nodup) :
    ∀ (order : List Bytes) (fc : FC),
      order.Nodup → (∀ k ∈ order, (fc.get k).isSome) → fc.keys.Nodup →
      (∀ k, ((walk config order fc).2.1).get k = if k ∈ order then cfgGet config k else fc.get k) ∧
      (walk config order fc).1 = order.filter (fun k => (cfgGet config k).isSome) ∧
      (walk config order fc).2.1.keys.Nodup ∧
      ∀ (st : RState), (∀ c ∈ config, CfgGood O c) → Link fc st.store → FCGood O fc →
        FCGood O (walk config order fc).2.1 ∧
        Block O st (walk config order fc).2.2 (walk config order fc).2.1 := by
  intro order
  induction order with
  | nil =>
    intro fc _ _ hk
    exact ⟨fun k => by simp [walk], by simp [walk], hk, fun st _ hl hg =>
      ⟨hg, by simpa [walk] using block_nil O hl⟩⟩
  | cons key rest ih =>
    intro fc hndo hin hkn
    simp only [List.nodup_cons] at hndo
    have hkin := hin key List.mem_cons_self
    obtain ⟨⟨hv, hf⟩, hfc⟩ := Option.isSome_iff_exists.1 hkin
    have hfind := cfgAt_eq_find config hnd key
    have hin' : ∀ (fc' : FC), (∀ k, k ≠ key → fc'.get k = fc.get k) → ∀ k ∈ rest, (fc'.get k).isSome := by
      intro fc' hsame k hk
      have hne : k ≠ key := fun e => hndo.1 (e ▸ hk)
      rw [hsame k hne]; exact hin k (List.mem_cons_of_mem _ hk)
    cases hc : config.find? (fun c => c.key == key) with
    | none =>
      -- the key was deleted
      have hw : walk config (key :: rest) fc =
          ((walk config rest (fc.erase key)).1, (walk config rest (fc.erase key)).2.1,
            delLine key :: (walk config rest (fc.erase key)).2.2) := by
        simp only [walk, hfind, hc]
      have hcg : cfgGet config key = none := by rw [cfgGet_eq, hc]; rfl
      obtain ⟨ha, hb, hkn', hread⟩ := ih (fc.erase key) hndo.2
        (hin' _ (fun k hk => by rw [FC.get_erase]; simp [hk])) (FC.nodup_erase hkn key)
      rw [hw]
      refine ⟨fun k => ?_, ?_, hkn', fun st hcfg hl hg => ?_⟩
      · simp only [ha k, List.mem_cons, FC.get_erase]
        by_cases hk : k = key
        · subst hk; simp [hndo.1, hcg]
        · simp [hk]
      · simp only [hb, List.filter_cons, hcg]; rfl
      · -- the reader's state after the deletion line
        have hline : ∃ st1, scanLine O st (delLine key) = (st1, []) ∧ st1.units = st.units ∧
            st1.fileName = st.fileName ∧ Link (fc.erase key) st1.store := by
          have hgk := hg key hv hf hfc
          by_cases hff : hf = true
          · subst hff
            simp only [↓reduceIte] at hgk
            exact ⟨_, hgk st, rfl, rfl, link_erase hl key⟩
          · have hff' : hf = false := by simpa using hff
            subst hff'
            simp only [Bool.false_eq_true, ↓reduceIte] at hgk
            rcases hgk with hd | hi
            · exact ⟨_, hd st, rfl, rfl, link_erase hl key⟩
            · exact ⟨_, hi st, rfl, rfl, link_erase_inert hl key hv hfc⟩
        obtain ⟨st1, hm1, hu1, hf1, hl1⟩ := hline
        obtain ⟨hg', hblk⟩ := hread st1 hcfg hl1 (fcgood_erase hg key)
        exact ⟨hg', block_cons O hm1 hu1 hf1 hblk⟩
    | some cfg =>
      have hck : cfg.key = key := by simpa using List.find?_some hc
      have hcm : cfg ∈ config := List.mem_of_find?_eq_some hc
      have hcg : cfgGet config key = some (cfg.value, cfg.file) := by rw [cfgGet_eq, hc]; rfl
      by_cases hsame : (hv == cfg.value && hf == cfg.file) = true
      · -- unchanged
        have hw : walk config (key :: rest) fc =
            (key :: (walk config rest fc).1, (walk config rest fc).2.1, (walk config rest fc).2.2) := by
          simp only [walk, hfind, hc, hfc, Option.getD_some, hsame, ↓reduceIte]
        simp only [Bool.and_eq_true, beq_iff_eq] at hsame
        obtain ⟨ha, hb, hkn', hread⟩ := ih fc hndo.2 (hin' _ (fun k _ => rfl)) hkn
        rw [hw]
        refine ⟨fun k => ?_, ?_, hkn', fun st hcfg hl hg => hread st hcfg hl hg⟩
        · simp only [ha k, List.mem_cons]
          by_cases hk : k = key
          · subst hk; simp [hndo.1, hcg, hfc, hsame.1, hsame.2]
          · simp [hk]
        · simp only [hb, List.filter_cons, hcg, Option.isSome_some, ↓reduceIte]
      · -- changed
        have hsame' : (hv == cfg.value && hf == cfg.file) = false := by simpa using hsame
        have hw : walk config (key :: rest) fc =
            (key :: (walk config rest (fc.set key cfg.value cfg.file)).1,
              (walk config rest (fc.set key cfg.value cfg.file)).2.1,
              (if cfg.file then [kvLine key cfg.value] else if hf then [delLine key] else []) ++
                (walk config rest (fc.set key cfg.value cfg.file)).2.2) := by
          simp only [walk, hfind, hc, hfc, Option.getD_some, hsame', Bool.false_eq_true, ↓reduceIte]
        obtain ⟨ha, hb, hkn', hread⟩ := ih (fc.set key cfg.value cfg.file) hndo.2
          (hin' _ (fun k hk => by rw [FC.get_set]; simp [hk])) (FC.nodup_set hkn key _ _)
        rw [hw]
        refine ⟨fun k => ?_, ?_, hkn', fun st hcfg hl hg => ?_⟩
        · simp only [ha k, List.mem_cons, FC.get_set]
          by_cases hk : k = key
          · subst hk; simp [hndo.1, hcg]
          · simp [hk]
        · simp only [hb, List.filter_cons, hcg, Option.isSome_some, ↓reduceIte]
        · have hgood := hcfg cfg hcm
          have hgs : FCGood O (fc.set key cfg.value cfg.file) := by
            have := fcgood_set hg cfg hgood
            rw [hck] at this; exact this
          unfold CfgGood at hgood
          by_cases hcf : cfg.file = true
          · simp only [hcf, ↓reduceIte] at hgood ⊢
            rw [hck] at hgood
            rw [hcf] at hread hgs
            obtain ⟨hg', hblk⟩ := hread { next st with store := st.store.set key cfg.value true } hcfg
              (link_set_file hl key cfg.value hgood.2.1) hgs
            exact ⟨hg', block_step O (hgood.1 st) rfl rfl hblk⟩
          · have hcf' : cfg.file = false := by simpa using hcf
            simp only [hcf', Bool.false_eq_true, ↓reduceIte]
            rw [hcf'] at hread hgs
            by_cases hff : hf = true
            · subst hff
              have hgk := hg key hv true hfc
              simp only [↓reduceIte] at hgk ⊢
              obtain ⟨hg', hblk⟩ := hread { next st with store := st.store.set key [] true } hcfg
                (link_set_internal_del hl key cfg.value) hgs
              exact ⟨hg', block_step O (hgk st) rfl rfl hblk⟩
            · have hff' : hf = false := by simpa using hff
              subst hff'
              simp only [Bool.false_eq_true, ↓reduceIte, List.nil_append]
              exact hread st hcfg (link_set_internal_same hl key cfg.value hv hfc) hgs

/-! ### new keys -/

theorem cfgGet_isSome_iff (config : List Cfg) (k : Bytes) :
    (cfgGet config k).isSome ↔ k ∈ config.map Cfg.key := by
  rw [cfgGet_eq, Option.isSome_map, List.find?_isSome]
  simp only [List.mem_map, beq_iff_eq]

theorem cfgGet_cons (c : Cfg) (cs : List Cfg) (k : Bytes) :
    cfgGet (c :: cs) k = if c.key = k then some (c.value, c.file) else cfgGet cs k := by
  simp only [cfgGet_eq, List.find?_cons]
  by_cases h : c.key = k
  · simp [h]
  · have : (c.key == k) = false := by simpa using h
    simp [this, h]

theorem newKeys_spec (O : Oracles) :
    ∀ (cs : List Cfg) (fc : FC) (ord : List Bytes),
      (cs.map Cfg.key).Nodup → fc.keys.Nodup →
      (∀ k, (newKeys cs fc ord).1.get k = if (fc.get k).isSome then fc.get k else cfgGet cs k) ∧
      (newKeys cs fc ord).2.1 = ord ++ (cs.filter (fun c => (fc.get c.key).isNone)).map Cfg.key ∧
      (newKeys cs fc ord).1.keys.Nodup ∧
      ∀ (st : RState), (∀ c ∈ cs, CfgGood O c) → Link fc st.store → FCGood O fc →
        FCGood O (newKeys cs fc ord).1 ∧ Block O st (newKeys cs fc ord).2.2 (newKeys cs fc ord).1 := by
  intro cs
  induction cs with
  | nil =>
    intro fc ord _ hk
    refine ⟨fun k => ?_, by simp [newKeys], hk, fun st _ hl hg =>
      ⟨hg, by simpa [newKeys] using block_nil O hl⟩⟩
    cases h : fc.get k <;> simp [newKeys, h, cfgGet_eq]
  | cons c cs ih =>
    intro fc ord hnd hkn
    simp only [List.map_cons, List.nodup_cons] at hnd
    by_cases hhas : (fc.get c.key).isSome = true
    · have hw : newKeys (c :: cs) fc ord = newKeys cs fc ord := by simp only [newKeys, hhas, ↓reduceIte]
      obtain ⟨ha, hb, hkn', hread⟩ := ih fc ord hnd.2 hkn
      rw [hw]
      refine ⟨fun k => ?_, ?_, hkn', fun st hcfg hl hg =>
        hread st (fun c' h => hcfg c' (List.mem_cons_of_mem _ h)) hl hg⟩
      · rw [ha k, cfgGet_cons]
        by_cases hk : (fc.get k).isSome = true
        · simp [hk]
        · have : c.key ≠ k := fun e => hk (e ▸ hhas)
          simp [hk, this]
      · rw [hb]
        have : (fc.get c.key).isNone = false := by
          cases h : fc.get c.key <;> simp_all
        simp only [List.filter_cons, this, Bool.false_eq_true, ↓reduceIte]
    · have hnone : fc.get c.key = none := by
        cases h : fc.get c.key <;> simp_all
      have hw : newKeys (c :: cs) fc ord =
          ((newKeys cs (fc.set c.key c.value c.file) (ord ++ [c.key])).1,
            (newKeys cs (fc.set c.key c.value c.file) (ord ++ [c.key])).2.1,
            (if c.file then [kvLine c.key c.value] else []) ++
              (newKeys cs (fc.set c.key c.value c.file) (ord ++ [c.key])).2.2) := by
        simp only [newKeys, hnone, Option.isSome_none, Bool.false_eq_true, ↓reduceIte]
      obtain ⟨ha, hb, hkn', hread⟩ := ih (fc.set c.key c.value c.file) (ord ++ [c.key]) hnd.2
        (FC.nodup_set hkn _ _ _)
      rw [hw]
      refine ⟨fun k => ?_, ?_, hkn', fun st hcfg hl hg => ?_⟩
      · rw [ha k, FC.get_set, cfgGet_cons]
        by_cases hk : k = c.key
        · subst hk; simp [hnone]
        · have hk' : ¬ c.key = k := fun e => hk e.symm
          simp [hk, hk']
      · rw [hb]
        simp only [List.filter_cons, hnone, Option.isNone_none, ↓reduceIte, List.map_cons,
          List.append_assoc, List.cons_append, List.nil_append]
        congr 2
        apply congrArg
        apply List.filter_congr
        intro c' hc'
        have hne : c'.key ≠ c.key := fun e => hnd.1 (by
          simp only [List.mem_map]; exact ⟨c', hc', e⟩)
        rw [FC.get_set]; simp [hne]
      · have hgood := hcfg c List.mem_cons_self
        have hgs := fcgood_set hg c hgood
        have hcfg' : ∀ c' ∈ cs, CfgGood O c' := fun c' h => hcfg c' (List.mem_cons_of_mem _ h)
        unfold CfgGood at hgood
        by_cases hcf : c.file = true
        · simp only [hcf, ↓reduceIte] at hgood ⊢
          rw [hcf] at hread hgs
          obtain ⟨hg', hblk⟩ := hread { next st with store := st.store.set c.key c.value true } hcfg'
            (link_set_file hl c.key c.value hgood.2.1) hgs
          exact ⟨hg', block_step O (hgood.1 st) rfl rfl hblk⟩
        · have hcf' : c.file = false := by simpa using hcf
          simp only [hcf', Bool.false_eq_true, ↓reduceIte, List.nil_append]
          rw [hcf'] at hread hgs
          exact hread st hcfg' (link_set_internal_new hl c.key c.value hnone) hgs

/-! ### the whole block -/

/-- `Writer.order` lists exactly the keys of `Writer.fileConfig`, once each. -/
structure WInv (w : WState) : Prop where
  order_nodup : w.order.Nodup
  keys_nodup : w.fileConfig.keys.Nodup
  order_iff : ∀ k, k ∈ w.order ↔ (w.fileConfig.get k).isSome

theorem winv_new : WInv WState.new :=
  ⟨List.nodup_nil, List.nodup_nil, fun k => by simp [WState.new, FC.get]⟩

/-- the optional blank line in front of a block, and the closing one -/
theorem block_blank (O : Oracles) {st : RState} {fc : FC} (hl : Link fc st.store) : Block O st [[]] fc :=
  block_cons O (blank_inert O st) rfl rfl (block_nil O (by simpa [next] using hl))

theorem block_pre (O : Oracles) (first : Bool) {st : RState} {fc : FC} (hl : Link fc st.store) :
    Block O st (if (!first) = true then [[]] else []) fc ∧
    Link fc (finalState O st (if (!first) = true then [[]] else [])).store := by
  split
  · exact ⟨block_blank O hl, (block_blank O hl).link⟩
  · exact ⟨block_nil O hl, hl⟩

theorem writeFileConfig_spec (O : Oracles) (w : WState) (config : List Cfg)
    (hw : WInv w) (hnd : (config.map Cfg.key).Nodup) :
    (∀ k, (writeFileConfig w config).1.fileConfig.get k = cfgGet config k) ∧
    WInv (writeFileConfig w config).1 ∧
    ∀ (st : RState), (∀ c ∈ config, CfgGood O c) → Link w.fileConfig st.store →
      FCGood O w.fileConfig →
      FCGood O (writeFileConfig w config).1.fileConfig ∧
      Block O st (writeFileConfig w config).2 (writeFileConfig w config).1.fileConfig := by
  obtain ⟨ha, hb, hkn1, hread1⟩ := walk_spec O config hnd w.order w.fileConfig hw.order_nodup
    (fun k hk => (hw.order_iff k).1 hk) hw.keys_nodup
  -- after the walk: exactly the known keys that are still configured, with their new entries
  have hF1 : ∀ k, (walk config w.order w.fileConfig).2.1.get k =
      if k ∈ w.order then cfgGet config k else none := by
    intro k
    rw [ha k]
    by_cases hk : k ∈ w.order
    · simp [hk]
    · have : w.fileConfig.get k = none := by
        cases h : w.fileConfig.get k with
        | none => rfl
        | some x => exact absurd ((hw.order_iff k).2 (by simp [h])) hk
      simp [hk, this]
  by_cases hlen : ((walk config w.order w.fileConfig).2.1.length != config.length) = true
  · -- new keys
    obtain ⟨ha2, hb2, hkn2, hread2⟩ := newKeys_spec O config
      (walk config w.order w.fileConfig).2.1 (walk config w.order w.fileConfig).1 hnd hkn1
    have hfc : ∀ k, (newKeys config (walk config w.order w.fileConfig).2.1
        (walk config w.order w.fileConfig).1).1.get k = cfgGet config k := by
      intro k
      rw [ha2 k, hF1 k]
      by_cases hk : k ∈ w.order
      · simp only [hk, ↓reduceIte]
        cases h : cfgGet config k <;> simp
      · simp [hk]
    have hwfc : writeFileConfig w config =
        ({ first := true,
           fileConfig := (newKeys config (walk config w.order w.fileConfig).2.1 (walk config w.order w.fileConfig).1).1,
           order := (newKeys config (walk config w.order w.fileConfig).2.1 (walk config w.order w.fileConfig).1).2.1 },
          (if (!w.first) = true then [[]] else []) ++ (walk config w.order w.fileConfig).2.2 ++
            (newKeys config (walk config w.order w.fileConfig).2.1 (walk config w.order w.fileConfig).1).2.2 ++ [[]]) := by
      simp only [writeFileConfig, hlen, ↓reduceIte]
    rw [hwfc]
    refine ⟨hfc, ⟨?_, hkn2, ?_⟩, fun st hcfg hl hg => ?_⟩
    · -- order is duplicate free
      simp only [hb2]
      rw [hb, List.nodup_append]
      refine ⟨hw.order_nodup.sublist List.filter_sublist, ?_, ?_⟩
      · exact (hnd.sublist (List.Sublist.map _ List.filter_sublist))
      · intro a ha1 b hb1 hab
        subst hab
        simp only [List.mem_filter] at ha1
        simp only [List.mem_map, List.mem_filter] at hb1
        obtain ⟨c, ⟨_, hcn⟩, hck⟩ := hb1
        rw [hck, hF1 a] at hcn
        simp only [ha1.1, ↓reduceIte] at hcn
        cases h : cfgGet config a <;> simp_all
    · intro k
      simp only [hb2, hfc k]
      rw [hb]
      simp only [List.mem_append, List.mem_filter, List.mem_map]
      constructor
      · rintro (⟨_, h⟩ | ⟨c, ⟨hc, _⟩, hck⟩)
        · exact h
        · rw [cfgGet_isSome_iff]; simp only [List.mem_map]; exact ⟨c, hc, hck⟩
      · intro h
        by_cases hk : k ∈ w.order
        · exact Or.inl ⟨hk, h⟩
        · right
          rw [cfgGet_isSome_iff] at h
          simp only [List.mem_map] at h
          obtain ⟨c, hc, hck⟩ := h
          refine ⟨c, ⟨hc, ?_⟩, hck⟩
          rw [hck, hF1 k]; simp [hk]
    · obtain ⟨hpre, hlpre⟩ := block_pre O w.first hl
      obtain ⟨hg1, hb1⟩ := hread1 _ hcfg hlpre hg
      have hb01 := block_append O hpre hb1
      obtain ⟨hg2, hb2⟩ := hread2 _ hcfg hb01.link hg1
      have hb012 := block_append O hb01 hb2
      exact ⟨hg2, block_append O hb012 (block_blank O hb012.link)⟩
  · -- no new keys: the walk already produced the whole configuration
    have hlen' : (walk config w.order w.fileConfig).2.1.length = config.length := by simpa using hlen
    have hsub : (walk config w.order w.fileConfig).2.1.keys ⊆ config.map Cfg.key := by
      intro k hk
      rw [FC.mem_keys_iff, hF1 k] at hk
      rw [← cfgGet_isSome_iff]
      by_cases hko : k ∈ w.order
      · simpa [hko] using hk
      · simp [hko] at hk
    have hcov := subset_of_nodup_length _ _ hkn1 hsub (by
      simp only [FC.keys, List.length_map]; omega)
    have hall : ∀ k, (cfgGet config k).isSome → k ∈ w.order := by
      intro k hk
      rw [cfgGet_isSome_iff] at hk
      have := hcov hk
      rw [FC.mem_keys_iff, hF1 k] at this
      by_cases hko : k ∈ w.order
      · exact hko
      · simp [hko] at this
    have hfc : ∀ k, (walk config w.order w.fileConfig).2.1.get k = cfgGet config k := by
      intro k
      rw [hF1 k]
      by_cases hko : k ∈ w.order
      · simp [hko]
      · have : cfgGet config k = none := by
          cases h : cfgGet config k with
          | none => rfl
          | some x => exact absurd (hall k (by simp [h])) hko
        simp [hko, this]
    have hwfc : writeFileConfig w config =
        ({ first := true, fileConfig := (walk config w.order w.fileConfig).2.1,
           order := (walk config w.order w.fileConfig).1 },
          (if (!w.first) = true then [[]] else []) ++ (walk config w.order w.fileConfig).2.2 ++ [] ++ [[]]) := by
      simp only [writeFileConfig, hlen, Bool.false_eq_true, ↓reduceIte]
    rw [hwfc]
    refine ⟨hfc, ⟨?_, hkn1, ?_⟩, fun st hcfg hl hg => ?_⟩
    · simp only [hb]; exact hw.order_nodup.sublist List.filter_sublist
    · intro k
      simp only [hb, hfc k, List.mem_filter]
      exact ⟨fun h => h.2, fun h => ⟨hall k h, h⟩⟩
    · obtain ⟨hpre, hlpre⟩ := block_pre O w.first hl
      obtain ⟨hg1, hb1⟩ := hread1 _ hcfg hlpre hg
      have hb01 := block_append O hpre hb1
      have hb012 := block_append O hb01 (block_nil O hb01.link)
      exact ⟨hg1, block_append O hb012 (block_blank O hb012.link)⟩

/-- When the pre-check of `writeResult` finds nothing to do, the writer state already is the
record's configuration. -/
theorem noChange_spec (fc : FC) (config : List Cfg) (hkn : fc.keys.Nodup)
    (hnd : (config.map Cfg.key).Nodup) (h : needFileConfig fc config = false) :
    ∀ k, fc.get k = cfgGet config k := by
  unfold needFileConfig at h
  have hlen : fc.length = config.length := by
    by_cases hl : fc.length = config.length
    · exact hl
    · simp [hl] at h
  simp only [hlen, bne_self_eq_false, Bool.false_eq_true, ↓reduceIte, List.any_eq_false] at h
  have hent : ∀ c ∈ config, fc.get c.key = some (c.value, c.file) := by
    intro c hc
    have := h c hc
    unfold differs at this
    cases hg : fc.get c.key with
    | none => simp [hg] at this
    | some vf =>
      obtain ⟨v, f⟩ := vf
      simp only [hg, Bool.not_eq_true, Bool.or_eq_false_iff, Bool.not_eq_false', beq_iff_eq,
        bne_eq_false_iff_eq] at this
      rw [this.1, this.2]
  have hsub : config.map Cfg.key ⊆ fc.keys := by
    intro k hk
    simp only [List.mem_map] at hk
    obtain ⟨c, hc, hck⟩ := hk
    rw [FC.mem_keys_iff, ← hck, hent c hc]; rfl
  have hcov := subset_of_nodup_length _ _ hnd hsub (by simp only [FC.keys, List.length_map]; omega)
  intro k
  rw [cfgGet_eq]
  cases hf : config.find? (fun c => c.key == k) with
  | some c =>
    have hck : c.key = k := by simpa using List.find?_some hf
    rw [← hck, hent c (List.mem_of_find?_eq_some hf)]; rfl
  | none =>
    have : k ∉ fc.keys := by
      intro hk
      have := hcov hk
      simp only [List.mem_map] at this
      obtain ⟨c, hc, hck⟩ := this
      rw [List.find?_eq_none] at hf
      exact hf c hc (by simpa using hck)
    rw [FC.mem_keys_iff] at this
    cases hg : fc.get k <;> simp_all

end C01
