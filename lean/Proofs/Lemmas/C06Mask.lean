/-
Mask-level facts for property C06: what every helper of filter.go does to bit `i` of a mask.
-/
import Proofs.Lemmas.C06Bits

namespace C06
open Proc.FilterEval

/-- bit `i` of a mask (word `i/32`, bit `i%32`) -/
def bit (m : Mask) (i : Nat) : Bool := (m[i / 32]?.getD 0#32).getLsbD (i % 32)

/-- the number of words `newMask n` allocates -/
def words (n : Nat) : Nat := (n + 31) / 32

theorem test_none (n : Nat) (x : Bool) (i : Nat) :
    (Match.mk n none x).test i = (decide (i < n) && x) := by
  unfold Match.test
  by_cases h : i ≥ n
  · have : ¬ i < n := by omega
    simp [h, this]
  · have : i < n := by omega
    simp [h, this]

theorem test_some (n : Nat) (m : Mask) (x : Bool) (i : Nat) :
    (Match.mk n (some m) x).test i = (decide (i < n) && bit m i) := by
  unfold Match.test bit
  by_cases h : i ≥ n
  · have : ¬ i < n := by omega
    simp [h, this]
  · have : i < n := by omega
    simp only [h, if_false, this, decide_true, Bool.true_and, List.getD_eq_getElem?_getD]
    exact testBit_word _ _ (Nat.mod_lt _ (by decide))

theorem length_newMask (n : Nat) : (newMask n).length = words n := by
  simp [newMask, words]

theorem getD_replicate_zero (k j : Nat) : (List.replicate k 0#32)[j]?.getD 0#32 = 0#32 := by
  induction k generalizing j with
  | zero => simp
  | succ k ih => cases j <;> simp [List.replicate_succ, ih]

theorem bit_newMask (n i : Nat) : bit (newMask n) i = false := by
  simp [bit, newMask, getD_replicate_zero]

theorem length_modifyAt (f : Word → Word) (m : Mask) (k : Nat) : (modifyAt f m k).length = m.length := by
  induction m generalizing k with
  | nil => simp [modifyAt]
  | cons x xs ih => cases k <;> simp [modifyAt, ih]

theorem getD_modifyAt (f : Word → Word) (m : Mask) (k j : Nat) (hk : k < m.length) :
    (modifyAt f m k)[j]?.getD 0#32 = if j = k then f (m[k]?.getD 0#32) else m[j]?.getD 0#32 := by
  induction m generalizing k j with
  | nil => simp at hk
  | cons x xs ih =>
    cases k with
    | zero => cases j <;> simp [modifyAt]
    | succ k =>
      cases j with
      | zero => simp [modifyAt]
      | succ j =>
        have hk' : k < xs.length := by simpa using hk
        simp [modifyAt, ih k j hk']

theorem length_maskSet (m : Mask) (i : Nat) : (maskSet m i).length = m.length :=
  length_modifyAt _ _ _

/-- `m.set(i)` sets bit `i` and nothing else. -/
theorem bit_maskSet (m : Mask) (i j : Nat) (hi : i / 32 < m.length) :
    bit (maskSet m i) j = (bit m j || decide (j = i)) := by
  unfold bit maskSet
  rw [getD_modifyAt _ _ _ _ hi]
  by_cases hw : j / 32 = i / 32
  · simp only [hw, if_true, BitVec.getLsbD_or]
    rw [shl_one_getLsbD _ _ (Nat.mod_lt _ (by decide))]
    by_cases hb : j % 32 = i % 32
    · have : j = i := by omega
      simp [this]
    · have : j ≠ i := by intro h; exact hb (by rw [h])
      simp [hb, this]
  · have : j ≠ i := by intro h; exact hw (by rw [h])
    simp [hw, this]

theorem length_maskAnd (a b : Mask) (h : a.length = b.length) : (maskAnd a b).length = a.length := by
  simp [maskAnd, h]

theorem length_maskOr (a b : Mask) (h : a.length = b.length) : (maskOr a b).length = a.length := by
  simp [maskOr, h]

theorem length_maskNot (a : Mask) : (maskNot a).length = a.length := by
  simp [maskNot]

theorem getD_maskAnd (a b : Mask) (k : Nat) (h : a.length = b.length) :
    (maskAnd a b)[k]?.getD 0#32 = a[k]?.getD 0#32 &&& b[k]?.getD 0#32 := by
  unfold maskAnd
  induction a generalizing b k with
  | nil => cases b <;> simp at h ⊢
  | cons x xs ih =>
    cases b with
    | nil => simp at h
    | cons y ys =>
      cases k with
      | zero => simp
      | succ k => simpa using ih ys k (by simpa using h)

theorem getD_maskOr (a b : Mask) (k : Nat) (h : a.length = b.length) :
    (maskOr a b)[k]?.getD 0#32 = a[k]?.getD 0#32 ||| b[k]?.getD 0#32 := by
  unfold maskOr
  induction a generalizing b k with
  | nil => cases b <;> simp at h ⊢
  | cons x xs ih =>
    cases b with
    | nil => simp at h
    | cons y ys =>
      cases k with
      | zero => simp
      | succ k => simpa using ih ys k (by simpa using h)

theorem getD_maskNot (a : Mask) (k : Nat) (h : k < a.length) :
    (maskNot a)[k]?.getD 0#32 = ~~~ (a[k]?.getD 0#32) := by
  unfold maskNot
  induction a generalizing k with
  | nil => simp at h
  | cons x xs ih =>
    cases k with
    | zero => simp
    | succ k => simpa using ih k (by simpa using h)

theorem bit_maskAnd (a b : Mask) (i : Nat) (h : a.length = b.length) :
    bit (maskAnd a b) i = (bit a i && bit b i) := by
  simp [bit, getD_maskAnd a b _ h]

theorem bit_maskOr (a b : Mask) (i : Nat) (h : a.length = b.length) :
    bit (maskOr a b) i = (bit a i || bit b i) := by
  simp [bit, getD_maskOr a b _ h]

/-- `m.not()` flips bit `i` (for every `i` inside the allocated words, also `i ≥ n`). -/
theorem bit_maskNot (a : Mask) (i : Nat) (h : i / 32 < a.length) :
    bit (maskNot a) i = !bit a i := by
  have : i % 32 < 32 := Nat.mod_lt _ (by decide)
  simp [bit, getD_maskNot a _ h, this]

theorem div32_lt_words {i n : Nat} (h : i < n) : i / 32 < words n := by
  unfold words; omega

end C06
