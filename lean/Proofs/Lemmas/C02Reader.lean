/-
C02 helper lemmas: the reader model line by line against the specification.
-/
import Model.Fmt.Reader
import Model.Fmt.Files
import Model.Spec.Format
import Proofs.Lemmas.C02Store
import Proofs.Lemmas.C02Spec

namespace Fmt
open Spec.Format

/-! ### Records up to "configuration as a map" -/

structure ARes where
  config : Bytes → Option (Bytes × Bool)
  name : Bytes
  iters : Int
  values : List Val
  fileName : Bytes
  line : Nat

inductive ARec where
  | result (r : ARes)
  | err (e : SyntaxErr)
  | unit (u : UnitMeta)

/-- a model record with its `Config` list read as a map -/
def Rec.abs : Rec → ARec
  | .result r => .result ⟨cfgGet r.config, r.name, r.iters, r.values, r.fileName, r.line⟩
  | .err e => .err e
  | .unit u => .unit u

/-- a specification record with its configuration map read as a function -/
def _root_.Spec.Format.SRec.abs : SRec → ARec
  | .result r => .result ⟨CMap.get r.config, r.name, r.iters, r.values, r.fileName, r.line⟩
  | .err e => .err e
  | .unit u => .unit u

def Rec.isResult : Rec → Bool
  | .result _ => true
  | _ => false

theorem abs_ofRecNoResult {r : Rec} (h : r.isResult = false) : (ofRecNoResult r).abs = r.abs := by
  cases r <;> simp_all [ofRecNoResult, Rec.abs, SRec.abs, Rec.isResult]

/-! ### Unit lines -/

theorem takeField_head (uc : UC) (k : Nat) (x : Bytes) (c : UInt8) (f : Bytes)
    (h : (takeField uc k x).1 = c :: f) : x.head? = some c := by
  cases x with
  | nil => simp [takeField] at h
  | cons c0 rest =>
    cases k with
    | succ k =>
      simp only [takeField] at h
      simp at h; simp [h.1]
    | zero =>
      unfold takeField at h
      split at h
      · split at h
        · simp at h
        · simp at h; simp [h.1]
      · simp only at h
        split at h
        · simp at h
        · simp at h; simp [h.1]

theorem isUnitLine_head (uc : UC) (line rest : Bytes) (h : isUnitLine uc line = some rest) :
    line.head? = some 85 := by
  unfold isUnitLine splitField at h
  cases ht : takeField uc 0 line with
  | mk f r =>
    rw [ht] at h
    simp only at h
    split at h
    · rename_i heq
      have hf : f = unitPrefix := by simpa using heq
      have : (takeField uc 0 line).1 = 85 :: [110, 105, 116] := by rw [ht, hf]; rfl
      exact takeField_head uc 0 line 85 _ this
    · simp at h

theorem unit_guard (uc : UC) (line : Bytes) :
    (if line.head? == some 85 then isUnitLine uc line else none) = isUnitLine uc line := by
  cases h : isUnitLine uc line with
  | none => simp
  | some rest => simp [isUnitLine_head uc line rest h]

theorem unitField_noResult (fn : Bytes) (ln : Nat) (unit tidy : Bytes) (units : UnitMap) (f : Bytes) :
    ∀ r ∈ (unitField fn ln unit tidy units f).2, r.isResult = false := by
  unfold unitField
  simp only
  split
  · simp [Rec.isResult]
  · split
    · split <;> simp [Rec.isResult]
    · simp [Rec.isResult]

theorem unitFields_noResult (fn : Bytes) (ln : Nat) (unit tidy : Bytes) (units : UnitMap)
    (fs : List Bytes) : ∀ r ∈ (unitFields fn ln unit tidy units fs).2, r.isResult = false := by
  induction fs generalizing units with
  | nil => simp [unitFields]
  | cons f fs ih =>
    simp only [unitFields]
    intro r hr
    rcases List.mem_append.1 hr with h | h
    · exact unitField_noResult fn ln unit tidy units f r h
    · exact ih _ r h

theorem parseUnitLine_noResult (O : Oracles) (fn : Bytes) (ln : Nat) (units : UnitMap) (line : Bytes) :
    ∀ r ∈ (parseUnitLine O fn ln units line).2, r.isResult = false := by
  unfold parseUnitLine
  split
  · simp [Rec.isResult]
  · exact unitFields_noResult _ _ _ _ _ _

theorem map_abs_noResult (q : List Rec) (h : ∀ r ∈ q, r.isResult = false) :
    (q.map ofRecNoResult).map SRec.abs = q.map Rec.abs := by
  induction q with
  | nil => rfl
  | cons r q ih =>
    simp only [List.map_cons]
    rw [abs_ofRecNoResult (h r (List.mem_cons_self ..)), ih (fun x hx => h x (List.mem_cons_of_mem _ hx))]

/-! ### One line -/

/-- What links a reader state to the specification's running configuration. -/
structure Linked (st : RState) (m : CMap) : Prop where
  inv : st.store.Inv
  map : ∀ k, st.store.toMap k = m.get k

theorem scanLine_refines (O : Oracles) (st : RState) (m : CMap) (hl : Linked st m) (line : Bytes) :
    let r := scanLine O st line
    let s := lineRecs O st.fileName m st.units (st.line + 1) line
    Linked r.1 s.1 ∧ r.1.units = s.2.1 ∧ r.1.fileName = st.fileName ∧ r.1.line = st.line + 1 ∧
      r.2.map Rec.abs = s.2.2.map SRec.abs := by
  unfold scanLine lineRecs classify
  simp only
  by_cases hp : Bytes.hasPrefix line benchmarkPrefix = true
  · simp only [hp, ↓reduceIte]
    cases hb : parseBenchmarkLine O line with
    | skip => exact ⟨⟨hl.inv, hl.map⟩, by first | rfl | trivial, by first | rfl | trivial, by first | rfl | trivial, by first | rfl | trivial⟩
    | err msg => exact ⟨⟨hl.inv, hl.map⟩, by first | rfl | trivial, by first | rfl | trivial, by first | rfl | trivial, by first | rfl | trivial⟩
    | ok name iters vals =>
      refine ⟨⟨hl.inv, hl.map⟩, by first | rfl | trivial, by first | rfl | trivial, by first | rfl | trivial, ?_⟩
      simp only [reduceCtorEq, ↓reduceIte, List.map_cons, List.map_nil, Rec.abs, SRec.abs]
      have : cfgGet st.store.live = CMap.get m := by
        funext k; rw [Store.cfgGet_live hl.inv]; exact hl.map k
      rw [this]
  · have hp' : Bytes.hasPrefix line benchmarkPrefix = false := by simpa using hp
    simp only [hp', Bool.false_eq_true, ↓reduceIte]
    rw [unit_guard]
    cases hu : isUnitLine O.uc line with
    | some rest =>
      simp only [Option.isSome_some, ↓reduceIte]
      refine ⟨⟨hl.inv, hl.map⟩, by first | rfl | trivial, by first | rfl | trivial, by first | rfl | trivial, ?_⟩
      exact (map_abs_noResult _ (parseUnitLine_noResult _ _ _ _ _)).symm
    | none =>
      simp only [Option.isSome_none, Bool.false_eq_true, ↓reduceIte]
      cases hk : parseKeyValueLine O.uc line with
      | none => exact ⟨⟨hl.inv, hl.map⟩, by first | rfl | trivial, by first | rfl | trivial, by first | rfl | trivial, by first | rfl | trivial⟩
      | some kv =>
        obtain ⟨k, v⟩ := kv
        simp only [Option.isSome_some, ↓reduceIte]
        obtain ⟨hi, hg⟩ := Store.set_spec hl.inv k v true
        refine ⟨⟨hi, ?_⟩, by first | rfl | trivial, by first | rfl | trivial, by first | rfl | trivial, by first | rfl | trivial⟩
        intro k'
        simp only [Store.toMap, hg, CMap.get_assign]
        by_cases hk' : k' = k
        · by_cases hv : v = [] <;> simp [hk', hv]
        · simpa [hk', Store.toMap] using hl.map k'

/-! ### All lines -/

theorem readFrom_cons (O : Oracles) (fn : Bytes) (cfg : CMap) (units : UnitMap) (n : Nat)
    (l : Bytes) (ls : List Bytes) :
    readFrom O fn cfg units n (l :: ls) =
      ((lineRecs O fn cfg units n l).2.2 ++
          (readFrom O fn (lineRecs O fn cfg units n l).1 (lineRecs O fn cfg units n l).2.1 (n + 1) ls).1,
        (readFrom O fn (lineRecs O fn cfg units n l).1 (lineRecs O fn cfg units n l).2.1 (n + 1) ls).2) := by
  simp only [readFrom]

theorem readLines_refines (O : Oracles) (ls : List Bytes) :
    ∀ (st : RState) (m : CMap), Linked st m →
      (readLines O st ls).map Rec.abs =
          (readFrom O st.fileName m st.units (st.line + 1) ls).1.map SRec.abs ∧
      (finalState O st ls).units = (readFrom O st.fileName m st.units (st.line + 1) ls).2 ∧
      (finalState O st ls).fileName = st.fileName ∧
      ∃ m', Linked (finalState O st ls) m' := by
  induction ls with
  | nil => intro st m hl; exact ⟨rfl, rfl, rfl, m, hl⟩
  | cons l ls ih =>
    intro st m hl
    obtain ⟨hl', hu, hf, hn, hq⟩ := scanLine_refines O st m hl l
    have := ih (scanLine O st l).1 _ hl'
    rw [hu, hf, hn] at this
    obtain ⟨h1, h2, h3, h4⟩ := this
    rw [readFrom_cons]
    simp only [readLines, finalState, List.map_append]
    exact ⟨by rw [hq, h1], h2, by rw [h3], h4⟩

/-- Every result's `Config` has pairwise distinct keys. -/
theorem readLines_nodup (O : Oracles) (ls : List Bytes) :
    ∀ (st : RState) (m : CMap), Linked st m →
      ∀ r, Rec.result r ∈ readLines O st ls → (r.config.map Cfg.key).Nodup := by
  induction ls with
  | nil => intro st m _ r hr; simp [readLines] at hr
  | cons l ls ih =>
    intro st m hl r hr
    obtain ⟨hl', _⟩ := scanLine_refines O st m hl l
    simp only [readLines] at hr
    rcases List.mem_append.1 hr with h | h
    · -- a result of this very line carries the live list of the (unchanged) store
      unfold scanLine at h
      simp only at h
      split at h
      · split at h
        · simp only [List.mem_singleton, Rec.result.injEq] at h
          subst h
          exact Store.live_keys_nodup hl.inv
        · simp at h
        · simp at h
      · rw [unit_guard] at h
        split at h
        · have := parseUnitLine_noResult O st.fileName (st.line + 1) st.units _ _ h
          simp [Rec.isResult] at this
        · split at h <;> simp at h
    · exact ih _ _ hl' r h

/-! ### The queue -/

/-- What successive `Scan` calls have yet to deliver. -/
def Reader.pending (O : Oracles) (r : Reader) : List Rec :=
  r.q.drop (r.qPos + 1) ++ readLines O r.st r.lines

theorem fill_spec (O : Oracles) (ls : List Bytes) :
    ∀ st, (fill O st ls).2.2 ++ readLines O (fill O st ls).1 (fill O st ls).2.1 = readLines O st ls := by
  induction ls with
  | nil => intro st; simp [fill, readLines]
  | cons l ls ih =>
    intro st
    simp only [fill, readLines]
    cases hq : (scanLine O st l).2 with
    | nil => simp only [List.isEmpty_nil, ↓reduceIte, List.nil_append]; exact ih _
    | cons a q => simp

end Fmt

namespace Fmt
open Spec.Format

theorem fill_empty (O : Oracles) (ls : List Bytes) :
    ∀ st, (fill O st ls).2.2 = [] → (fill O st ls).2.1 = [] := by
  induction ls with
  | nil => intro st _; rfl
  | cons l ls ih =>
    intro st h
    simp only [fill] at h ⊢
    cases hq : (scanLine O st l).2 with
    | nil => simp only [hq, List.isEmpty_nil, ↓reduceIte] at h ⊢; exact ih _ h
    | cons a q => simp [hq] at h

/-! ### Reset -/

theorem toMap_reset (s : Store) (k : Bytes) : s.reset.toMap k = none := by
  simp [Store.toMap, Store.get, Store.configIndex, Store.index_reset, Index.get]

theorem installConfig_linked (kvs : List (Bytes × Bytes)) :
    ∀ (s : Store) (m : CMap), s.Inv → (∀ k, s.toMap k = m.get k) →
      (installConfig s kvs).Inv ∧
      ∀ k, (installConfig s kvs).toMap k = (kvs.foldl (fun m kv => m.assign kv.1 kv.2 false) m).get k := by
  induction kvs with
  | nil => intro s m hi hm; exact ⟨hi, hm⟩
  | cons kv kvs ih =>
    intro s m hi hm
    obtain ⟨k, v⟩ := kv
    obtain ⟨hi', hg⟩ := Store.set_spec hi k v false
    simp only [installConfig, List.foldl_cons]
    apply ih _ _ hi'
    intro k'
    simp only [Store.toMap, hg, CMap.get_assign]
    by_cases hk' : k' = k
    · by_cases hv : v = [] <;> simp [hk', hv]
    · simpa [hk', Store.toMap] using hm k'

/-- After `Reset` the reader is linked to the map that holds just the installed configuration —
whatever the store held before (live or stale). -/
theorem reset_linked (st : RState) (fn : Bytes) (kvs : List (Bytes × Bytes)) :
    Linked (st.reset fn kvs) (kvs.foldl (fun m kv => m.assign kv.1 kv.2 false) []) := by
  obtain ⟨h1, h2⟩ := installConfig_linked kvs st.store.reset [] (Store.inv_reset _)
    (fun k => by rw [toMap_reset]; rfl)
  exact ⟨h1, h2⟩

end Fmt

namespace Fmt

theorem unitField_extends (fn : Bytes) (ln : Nat) (unit tidy : Bytes) (units : UnitMap) (f : Bytes) :
    ∃ more, (unitField fn ln unit tidy units f).1 = units ++ more := by
  unfold unitField
  simp only
  split
  · exact ⟨[], by simp⟩
  · split
    · split <;> exact ⟨[], by simp⟩
    · exact ⟨_, rfl⟩

theorem unitFields_extends (fn : Bytes) (ln : Nat) (unit tidy : Bytes) (fs : List Bytes) :
    ∀ units : UnitMap, ∃ more, (unitFields fn ln unit tidy units fs).1 = units ++ more := by
  induction fs with
  | nil => intro units; exact ⟨[], by simp [unitFields]⟩
  | cons f fs ih =>
    intro units
    obtain ⟨m1, h1⟩ := unitField_extends fn ln unit tidy units f
    obtain ⟨m2, h2⟩ := ih (unitField fn ln unit tidy units f).1
    refine ⟨m1 ++ m2, ?_⟩
    simp only [unitFields]
    rw [h2, h1, List.append_assoc]

theorem parseUnitLine_extends (O : Oracles) (fn : Bytes) (ln : Nat) (units : UnitMap) (line : Bytes) :
    ∃ more, (parseUnitLine O fn ln units line).1 = units ++ more := by
  unfold parseUnitLine
  split
  · exact ⟨[], by simp⟩
  · exact unitFields_extends _ _ _ _ _ _

end Fmt
