/-
C02 helper lemmas: the reader model line by line against the specification.
-/
import Model.Fmt.Reader
import Model.Fmt.Files
import Model.Spec.Format
import Proofs.Lemmas.C02Store
import Proofs.Lemmas.C02Spec
import Proofs.Lemmas.C02SpecM

namespace Fmt
open Spec.Format hiding classify lineRecs readFrom read readFiles
open Spec.FormatM

/-! ### Records up to "configuration as a map" -/

structure ARes where
  config : Bytes → Option (Bytes × Bool)
  name : Bytes
  iters : Int
  values : List Val
  fileName : Bytes
  line : Nat

inductive ARec where
  | result (r : ARes)
  | err (e : SyntaxErr)
  | unit (u : UnitMeta)

/-- a model record with its `Config` list read as a map -/
def Rec.abs : Rec → ARec
  | .result r => .result ⟨cfgGet r.config, r.name, r.iters, r.values, r.fileName, r.line⟩
  | .err e => .err e
  | .unit u => .unit u

/-- a specification record with its configuration map read as a function -/
def _root_.Spec.Format.SRec.abs : SRec → ARec
  | .result r => .result ⟨CMap.get r.config, r.name, r.iters, r.values, r.fileName, r.line⟩
  | .err e => .err e
  | .unit u => .unit u

def Rec.isResult : Rec → Bool
  | .result _ => true
  | _ => false

theorem abs_ofRecNoResult {r : Rec} (h : r.isResult = false) : (ofRecNoResult r).abs = r.abs := by
  cases r <;> simp_all [ofRecNoResult, Rec.abs, SRec.abs, Rec.isResult]

/-! ### Unit lines -/

theorem takeField_head (uc : UC) (k : Nat) (x : Bytes) (c : UInt8) (f : Bytes)
    (h : (takeField uc k x).1 = c :: f) : x.head? = some c := by
  cases x with
  | nil => simp [takeField] at h
  | cons c0 rest =>
    cases k with
    | succ k =>
      simp only [takeField] at h
      simp at h; simp [h.1]
    | zero =>
      unfold takeField at h
      split at h
      · split at h
        · simp at h
        · simp at h; simp [h.1]
      · simp only at h
        split at h
        · simp at h
        · simp at h; simp [h.1]

theorem isUnitLine_head (uc : UC) (line rest : Bytes) (h : isUnitLine uc line = some rest) :
    line.head? = some 85 := by
  unfold isUnitLine splitField at h
  cases ht : takeField uc 0 line with
  | mk f r =>
    rw [ht] at h
    simp only at h
    split at h
    · rename_i heq
      have hf : f = unitPrefix := by simpa using heq
      have : (takeField uc 0 line).1 = 85 :: [110, 105, 116] := by rw [ht, hf]; rfl
      exact takeField_head uc 0 line 85 _ this
    · simp at h

theorem unit_guard (uc : UC) (line : Bytes) :
    (if line.head? == some 85 then isUnitLine uc line else none) = isUnitLine uc line := by
  cases h : isUnitLine uc line with
  | none => simp
  | some rest => simp [isUnitLine_head uc line rest h]

theorem unitField_noResult (fn : Bytes) (ln : Nat) (unit tidy : Bytes) (units : UnitMap) (f : Bytes) :
    ∀ r ∈ (unitField fn ln unit tidy units f).2, r.isResult = false := by
  unfold unitField
  simp only
  split
  · simp [Rec.isResult]
  · split
    · split <;> simp [Rec.isResult]
    · simp [Rec.isResult]

theorem unitFields_noResult (fn : Bytes) (ln : Nat) (unit tidy : Bytes) (units : UnitMap)
    (fs : List Bytes) : ∀ r ∈ (unitFields fn ln unit tidy units fs).2, r.isResult = false := by
  induction fs generalizing units with
  | nil => simp [unitFields]
  | cons f fs ih =>
    simp only [unitFields]
    intro r hr
    rcases List.mem_append.1 hr with h | h
    · exact unitField_noResult fn ln unit tidy units f r h
    · exact ih _ r h

theorem parseUnitLine_noResult (O : Oracles) (fn : Bytes) (ln : Nat) (units : UnitMap) (line : Bytes) :
    ∀ r ∈ (parseUnitLine O fn ln units line).2, r.isResult = false := by
  unfold parseUnitLine
  split
  · simp [Rec.isResult]
  · exact unitFields_noResult _ _ _ _ _ _

theorem map_abs_noResult (q : List Rec) (h : ∀ r ∈ q, r.isResult = false) :
    (q.map ofRecNoResult).map SRec.abs = q.map Rec.abs := by
  induction q with
  | nil => rfl
  | cons r q ih =>
    simp only [List.map_cons]
    rw [abs_ofRecNoResult (h r (List.mem_cons_self ..)), ih (fun x hx => h x (List.mem_cons_of_mem _ hx))]

/-! ### One line -/

/-- What links a reader state to the specification's running configuration. -/
structure Linked (st : RState) (m : CMap) : Prop where
  inv : st.store.Inv
  map : ∀ k, st.store.toMap k = m.get k

theorem scanLine_refines (O : Oracles) (st : RState) (m : CMap) (hl : Linked st m) (line : Bytes) :
    let r := scanLine O st line
    let s := lineRecs O st.fileName m st.units (st.line + 1) line
    Linked r.1 s.1 ∧ r.1.units = s.2.1 ∧ r.1.fileName = st.fileName ∧ r.1.line = st.line + 1 ∧
      r.2.map Rec.abs = s.2.2.map SRec.abs := by
  unfold scanLine lineRecs classify
  simp only
  by_cases hp : Bytes.hasPrefix line benchmarkPrefix = true
  · simp only [hp, ↓reduceIte]
    cases hb : parseBenchmarkLine O line with
    | skip => exact ⟨⟨hl.inv, hl.map⟩, by first | rfl | trivial, by first | rfl | trivial, by first | rfl | trivial, by first | rfl | trivial⟩
    | err msg => exact ⟨⟨hl.inv, hl.map⟩, by first | rfl | trivial, by first | rfl | trivial, by first | rfl | trivial, by first | rfl | trivial⟩
    | ok name iters vals =>
      refine ⟨⟨hl.inv, hl.map⟩, by first | rfl | trivial, by first | rfl | trivial, by first | rfl | trivial, ?_⟩
      simp only [reduceCtorEq, ↓reduceIte, List.map_cons, List.map_nil, Rec.abs, SRec.abs]
      have : cfgGet st.store.live = CMap.get m := by
        funext k; rw [Store.cfgGet_live hl.inv]; exact hl.map k
      rw [this]
  · have hp' : Bytes.hasPrefix line benchmarkPrefix = false := by simpa using hp
    simp only [hp', Bool.false_eq_true, ↓reduceIte]
    rw [unit_guard]
    cases hu : isUnitLine O.uc line with
    | some rest =>
      simp only [Option.isSome_some, ↓reduceIte]
      refine ⟨⟨hl.inv, hl.map⟩, by first | rfl | trivial, by first | rfl | trivial, by first | rfl | trivial, ?_⟩
      exact (map_abs_noResult _ (parseUnitLine_noResult _ _ _ _ _)).symm
    | none =>
      simp only [Option.isSome_none, Bool.false_eq_true, ↓reduceIte]
      cases hk : parseKeyValueLine O.uc line with
      | none => exact ⟨⟨hl.inv, hl.map⟩, by first | rfl | trivial, by first | rfl | trivial, by first | rfl | trivial, by first | rfl | trivial⟩
      | some kv =>
        obtain ⟨k, v⟩ := kv
        simp only [Option.isSome_some, ↓reduceIte]
        obtain ⟨hi, hg⟩ := Store.set_spec hl.inv k v true
        refine ⟨⟨hi, ?_⟩, by first | rfl | trivial, by first | rfl | trivial, by first | rfl | trivial, by first | rfl | trivial⟩
        intro k'
        simp only [Store.toMap, hg, CMap.get_assign]
        by_cases hk' : k' = k
        · by_cases hv : v = [] <;> simp [hk', hv]
        · simpa [hk', Store.toMap] using hl.map k'

/-! ### All lines -/

theorem readFrom_cons (O : Oracles) (fn : Bytes) (cfg : CMap) (units : UnitMap) (n : Nat)
    (l : Bytes) (ls : List Bytes) :
    readFrom O fn cfg units n (l :: ls) =
      ((lineRecs O fn cfg units n l).2.2 ++
          (readFrom O fn (lineRecs O fn cfg units n l).1 (lineRecs O fn cfg units n l).2.1 (n + 1) ls).1,
        (readFrom O fn (lineRecs O fn cfg units n l).1 (lineRecs O fn cfg units n l).2.1 (n + 1) ls).2) := by
  simp only [readFrom]

theorem readLines_refines (O : Oracles) (ls : List Bytes) :
    ∀ (st : RState) (m : CMap), Linked st m →
      (readLines O st ls).map Rec.abs =
          (readFrom O st.fileName m st.units (st.line + 1) ls).1.map SRec.abs ∧
      (finalState O st ls).units = (readFrom O st.fileName m st.units (st.line + 1) ls).2 ∧
      (finalState O st ls).fileName = st.fileName ∧
      ∃ m', Linked (finalState O st ls) m' := by
  induction ls with
  | nil => intro st m hl; exact ⟨rfl, rfl, rfl, m, hl⟩
  | cons l ls ih =>
    intro st m hl
    obtain ⟨hl', hu, hf, hn, hq⟩ := scanLine_refines O st m hl l
    have := ih (scanLine O st l).1 _ hl'
    rw [hu, hf, hn] at this
    obtain ⟨h1, h2, h3, h4⟩ := this
    rw [readFrom_cons]
    simp only [readLines, finalState, List.map_append]
    exact ⟨by rw [hq, h1], h2, by rw [h3], h4⟩

/-- Every result's `Config` has pairwise distinct keys. -/
theorem readLines_nodup (O : Oracles) (ls : List Bytes) :
    ∀ (st : RState) (m : CMap), Linked st m →
      ∀ r, Rec.result r ∈ readLines O st ls → (r.config.map Cfg.key).Nodup := by
  induction ls with
  | nil => intro st m _ r hr; simp [readLines] at hr
  | cons l ls ih =>
    intro st m hl r hr
    obtain ⟨hl', _⟩ := scanLine_refines O st m hl l
    simp only [readLines] at hr
    rcases List.mem_append.1 hr with h | h
    · -- a result of this very line carries the live list of the (unchanged) store
      unfold scanLine at h
      simp only at h
      split at h
      · split at h
        · simp only [List.mem_singleton, Rec.result.injEq] at h
          subst h
          exact Store.live_keys_nodup hl.inv
        · simp at h
        · simp at h
      · rw [unit_guard] at h
        split at h
        · have := parseUnitLine_noResult O st.fileName (st.line + 1) st.units _ _ h
          simp [Rec.isResult] at this
        · split at h <;> simp at h
    · exact ih _ _ hl' r h

/-! ### The queue -/

/-- What successive `Scan` calls have yet to deliver. -/
def Reader.pending (O : Oracles) (r : Reader) : List Rec :=
  r.q.drop (r.qPos + 1) ++ readLines O r.st r.lines

theorem fill_spec (O : Oracles) (ls : List Bytes) :
    ∀ st, (fill O st ls).2.2 ++ readLines O (fill O st ls).1 (fill O st ls).2.1 = readLines O st ls := by
  induction ls with
  | nil => intro st; simp [fill, readLines]
  | cons l ls ih =>
    intro st
    simp only [fill, readLines]
    cases hq : (scanLine O st l).2 with
    | nil => simp only [List.isEmpty_nil, ↓reduceIte, List.nil_append]; exact ih _
    | cons a q => simp

end Fmt

namespace Fmt
open Spec.Format hiding classify lineRecs readFrom read readFiles
open Spec.FormatM

theorem fill_empty (O : Oracles) (ls : List Bytes) :
    ∀ st, (fill O st ls).2.2 = [] → (fill O st ls).2.1 = [] := by
  induction ls with
  | nil => intro st _; rfl
  | cons l ls ih =>
    intro st h
    simp only [fill] at h ⊢
    cases hq : (scanLine O st l).2 with
    | nil => simp only [hq, List.isEmpty_nil, ↓reduceIte] at h ⊢; exact ih _ h
    | cons a q => simp [hq] at h

/-! ### Reset -/

theorem toMap_reset (s : Store) (k : Bytes) : s.reset.toMap k = none := by
  simp [Store.toMap, Store.get, Store.configIndex, Store.index_reset, Index.get]

theorem installConfig_linked (kvs : List (Bytes × Bytes)) :
    ∀ (s : Store) (m : CMap), s.Inv → (∀ k, s.toMap k = m.get k) →
      (installConfig s kvs).Inv ∧
      ∀ k, (installConfig s kvs).toMap k = (kvs.foldl (fun m kv => m.assign kv.1 kv.2 false) m).get k := by
  induction kvs with
  | nil => intro s m hi hm; exact ⟨hi, hm⟩
  | cons kv kvs ih =>
    intro s m hi hm
    obtain ⟨k, v⟩ := kv
    obtain ⟨hi', hg⟩ := Store.set_spec hi k v false
    simp only [installConfig, List.foldl_cons]
    apply ih _ _ hi'
    intro k'
    simp only [Store.toMap, hg, CMap.get_assign]
    by_cases hk' : k' = k
    · by_cases hv : v = [] <;> simp [hk', hv]
    · simpa [hk', Store.toMap] using hm k'

/-- After `Reset` the reader is linked to the map that holds just the installed configuration —
whatever the store held before (live or stale). -/
theorem reset_linked (st : RState) (fn : Bytes) (kvs : List (Bytes × Bytes)) :
    Linked (st.reset fn kvs) (kvs.foldl (fun m kv => m.assign kv.1 kv.2 false) []) := by
  obtain ⟨h1, h2⟩ := installConfig_linked kvs st.store.reset [] (Store.inv_reset _)
    (fun k => by rw [toMap_reset]; rfl)
  exact ⟨h1, h2⟩

end Fmt

namespace Fmt

theorem unitField_extends (fn : Bytes) (ln : Nat) (unit tidy : Bytes) (units : UnitMap) (f : Bytes) :
    ∃ more, (unitField fn ln unit tidy units f).1 = units ++ more := by
  unfold unitField
  simp only
  split
  · exact ⟨[], by simp⟩
  · split
    · split <;> exact ⟨[], by simp⟩
    · exact ⟨_, rfl⟩

theorem unitFields_extends (fn : Bytes) (ln : Nat) (unit tidy : Bytes) (fs : List Bytes) :
    ∀ units : UnitMap, ∃ more, (unitFields fn ln unit tidy units fs).1 = units ++ more := by
  induction fs with
  | nil => intro units; exact ⟨[], by simp [unitFields]⟩
  | cons f fs ih =>
    intro units
    obtain ⟨m1, h1⟩ := unitField_extends fn ln unit tidy units f
    obtain ⟨m2, h2⟩ := ih (unitField fn ln unit tidy units f).1
    refine ⟨m1 ++ m2, ?_⟩
    simp only [unitFields]
    rw [h2, h1, List.append_assoc]

theorem parseUnitLine_extends (O : Oracles) (fn : Bytes) (ln : Nat) (units : UnitMap) (line : Bytes) :
    ∃ more, (parseUnitLine O fn ln units line).1 = units ++ more := by
  unfold parseUnitLine
  split
  · exact ⟨[], by simp⟩
  · exact unitFields_extends _ _ _ _ _ _

end Fmt

/-! ### Shifting line numbers -/
namespace Fmt
open Spec.Format hiding classify lineRecs readFrom read readFiles
open Spec.FormatM

/-- add `d` to the line number a record reports -/
def Rec.bump (d : Nat) : Rec → Rec
  | .result r => .result { r with line := r.line + d }
  | .err e => .err { e with line := e.line + d }
  | .unit u => .unit { u with line := u.line + d }

def UnitMeta.noLine (u : UnitMeta) : UnitMeta := { u with line := 0 }

/-- the same unit metadata, line numbers aside -/
def unitsSim (a b : UnitMap) : Prop := a.map UnitMeta.noLine = b.map UnitMeta.noLine

theorem get_sim {a b : UnitMap} (h : unitsSim a b) (t k : Bytes) :
    (a.get t k).map UnitMeta.noLine = (b.get t k).map UnitMeta.noLine := by
  unfold UnitMap.get
  have key : ∀ l : UnitMap, (l.find? fun u => u.unit == t && u.key == k).map UnitMeta.noLine =
      (l.map UnitMeta.noLine).find? (fun u => u.unit == t && u.key == k) := by
    intro l
    induction l with
    | nil => rfl
    | cons x xs ih =>
      simp only [List.find?_cons, List.map_cons, UnitMeta.noLine]
      split <;> simp_all [UnitMeta.noLine]
  rw [key a, key b, h]

theorem unitField_sim (fn : Bytes) (ln d : Nat) (unit tidy : Bytes) {ua ub : UnitMap}
    (h : unitsSim ua ub) (f : Bytes) :
    unitsSim (unitField fn ln unit tidy ua f).1 (unitField fn (ln + d) unit tidy ub f).1 ∧
    (unitField fn (ln + d) unit tidy ub f).2 = (unitField fn ln unit tidy ua f).2.map (Rec.bump d) := by
  unfold unitField
  simp only
  split
  · exact ⟨h, by simp [Rec.bump]⟩
  · have hg := get_sim h tidy (f.span fun c => !(c == 61)).1
    cases ha : ua.get tidy (f.span fun c => !(c == 61)).1 with
    | none =>
      cases hb : ub.get tidy (f.span fun c => !(c == 61)).1 with
      | none =>
        simp only
        refine ⟨?_, by simp [Rec.bump]⟩
        unfold unitsSim UnitMap.insert at *
        simp [h, UnitMeta.noLine]
      | some v => rw [ha, hb] at hg; simp at hg
    | some u =>
      cases hb : ub.get tidy (f.span fun c => !(c == 61)).1 with
      | none => rw [ha, hb] at hg; simp at hg
      | some v =>
        rw [ha, hb] at hg
        have hv : u.value = v.value := by
          have := congrArg (Option.map UnitMeta.value) hg
          simpa [UnitMeta.noLine] using this
        simp only [hv]
        split
        · exact ⟨h, rfl⟩
        · exact ⟨h, by simp [Rec.bump]⟩

theorem unitFields_sim (fn : Bytes) (ln d : Nat) (unit tidy : Bytes) (fs : List Bytes) :
    ∀ {ua ub : UnitMap}, unitsSim ua ub →
      unitsSim (unitFields fn ln unit tidy ua fs).1 (unitFields fn (ln + d) unit tidy ub fs).1 ∧
      (unitFields fn (ln + d) unit tidy ub fs).2 = (unitFields fn ln unit tidy ua fs).2.map (Rec.bump d) := by
  induction fs with
  | nil => intro ua ub h; exact ⟨h, rfl⟩
  | cons f fs ih =>
    intro ua ub h
    obtain ⟨h1, q1⟩ := unitField_sim fn ln d unit tidy h f
    obtain ⟨h2, q2⟩ := ih h1
    simp only [unitFields]
    exact ⟨h2, by rw [q1, q2, List.map_append]⟩

theorem parseUnitLine_sim (O : Oracles) (fn : Bytes) (ln d : Nat) {ua ub : UnitMap}
    (h : unitsSim ua ub) (line : Bytes) :
    unitsSim (parseUnitLine O fn ln ua line).1 (parseUnitLine O fn (ln + d) ub line).1 ∧
    (parseUnitLine O fn (ln + d) ub line).2 = (parseUnitLine O fn ln ua line).2.map (Rec.bump d) := by
  unfold parseUnitLine
  split
  · exact ⟨h, by simp [Rec.bump]⟩
  · exact unitFields_sim _ _ _ _ _ _ h

/-- Two reader states that differ only in the line counter (by `d`) and in the line numbers
recorded inside the unit metadata. -/
structure RSim (d : Nat) (a b : RState) : Prop where
  store : a.store = b.store
  fileName : a.fileName = b.fileName
  line : b.line = a.line + d
  units : unitsSim a.units b.units

theorem scanLine_sim (O : Oracles) (d : Nat) {a b : RState} (h : RSim d a b) (l : Bytes) :
    RSim d (scanLine O a l).1 (scanLine O b l).1 ∧
    (scanLine O b l).2 = (scanLine O a l).2.map (Rec.bump d) := by
  obtain ⟨hs, hf, hl, hu⟩ := h
  have hl' : b.line + 1 = a.line + 1 + d := by omega
  unfold scanLine
  simp only
  split
  · split
    · exact ⟨⟨hs, hf, hl', hu⟩, by simp [Rec.bump, hs, hf, hl']⟩
    · exact ⟨⟨hs, hf, hl', hu⟩, rfl⟩
    · exact ⟨⟨hs, hf, hl', hu⟩, by simp [Rec.bump, hf, hl']⟩
  · split
    · rename_i rest _
      obtain ⟨h1, q1⟩ := parseUnitLine_sim O a.fileName (a.line + 1) d hu rest
      simp only
      rw [← hf, hl']
      exact ⟨⟨hs, rfl, rfl, h1⟩, q1⟩
    · split
      · exact ⟨⟨by simp [hs], hf, hl', hu⟩, rfl⟩
      · exact ⟨⟨hs, hf, hl', hu⟩, rfl⟩

theorem readLines_sim (O : Oracles) (d : Nat) (ls : List Bytes) :
    ∀ {a b : RState}, RSim d a b → readLines O b ls = (readLines O a ls).map (Rec.bump d) := by
  induction ls with
  | nil => intro a b _; rfl
  | cons l ls ih =>
    intro a b h
    obtain ⟨h1, q1⟩ := scanLine_sim O d h l
    simp only [readLines, List.map_append]
    rw [q1, ih h1]

theorem readLines_append (O : Oracles) (l1 l2 : List Bytes) :
    ∀ st, readLines O st (l1 ++ l2) = readLines O st l1 ++ readLines O (finalState O st l1) l2 := by
  induction l1 with
  | nil => intro st; rfl
  | cons l ls ih => intro st; simp only [List.cons_append, readLines, finalState, ih, List.append_assoc]

/-- An ignored line advances the line counter and does nothing else. -/
theorem scanLine_ignored (O : Oracles) (st : RState) (l : Bytes) (h : classify O l = .ignored) :
    scanLine O st l = ({ st with line := st.line + 1 }, []) := by
  unfold classify at h
  unfold scanLine
  simp only
  split at h
  · rename_i hp
    simp only [hp, ↓reduceIte]
    split at h
    · rename_i hskip; rw [hskip]
    · simp at h
  · rename_i hp
    simp only [hp]
    rw [unit_guard]
    split at h
    · simp at h
    · rename_i hu
      have hu' : isUnitLine O.uc l = none := by
        cases hx : isUnitLine O.uc l <;> simp_all
      rw [hu']
      split at h
      · simp at h
      · rename_i hk
        have hk' : parseKeyValueLine O.uc l = none := by
          cases hx : parseKeyValueLine O.uc l <;> simp_all
        rw [hk']; simp

end Fmt

/-! ### The only fuel in the model is never exhausted -/
namespace Fmt

theorem skipSpaces_length (uc : UC) (x : Bytes) : ∀ k, (skipSpaces uc k x).length ≤ x.length := by
  induction x with
  | nil => intro k; simp [skipSpaces]
  | cons c rest ih =>
    intro k
    cases k with
    | succ k => simp only [skipSpaces, List.length_cons]; have := ih k; omega
    | zero =>
      unfold skipSpaces
      split
      · split
        · have := ih 0; simp only [List.length_cons]; omega
        · exact Nat.le_refl _
      · simp only
        split
        · have := ih ((decodeRune (c :: rest)).2 - 1); simp only [List.length_cons]; omega
        · exact Nat.le_refl _

theorem takeField_length (uc : UC) (x : Bytes) :
    ∀ k, (takeField uc k x).1.length + (takeField uc k x).2.length ≤ x.length := by
  induction x with
  | nil => intro k; simp [takeField]
  | cons c rest ih =>
    intro k
    cases k with
    | succ k => simp only [takeField, List.length_cons]; have := ih k; omega
    | zero =>
      unfold takeField
      split
      · split
        · simp
        · have := ih 0; simp only [List.length_cons]; omega
      · simp only
        split
        · simp only [List.length_nil, List.length_drop, List.length_cons]; omega
        · have := ih ((decodeRune (c :: rest)).2 - 1); simp only [List.length_cons]; omega

theorem splitField_length (uc : UC) (x : Bytes) :
    (splitField uc x).1.length + (splitField uc x).2.length ≤ x.length := by
  unfold splitField
  have h1 := takeField_length uc x 0
  have h2 := skipSpaces_length uc (takeField uc 0 x).2 0
  simp only; omega

/-- **No fuel is ever exhausted**: `fields` gives the same answer with any fuel beyond the
length of its input, so the bound `length + 1` it uses is not a restriction. -/
theorem fieldsN_fuel (uc : UC) : ∀ (n m : Nat) (x : Bytes), x.length < n → x.length < m →
    fieldsN uc n x = fieldsN uc m x := by
  intro n
  induction n with
  | zero => intro m x h; omega
  | succ n ih =>
    intro m x hn hm
    cases m with
    | zero => omega
    | succ m =>
      simp only [fieldsN]
      have hl := splitField_length uc x
      cases hf : (splitField uc x).1 with
      | nil => simp
      | cons c f =>
        simp only [List.isEmpty_cons, Bool.false_eq_true, ↓reduceIte]
        rw [hf] at hl
        simp only [List.length_cons] at hl
        rw [ih m (splitField uc x).2 (by omega) (by omega)]

theorem fields_fuel (uc : UC) (x : Bytes) (n : Nat) (h : x.length < n) :
    fieldsN uc n x = fields uc x :=
  fieldsN_fuel uc n (x.length + 1) x h (Nat.lt_succ_self _)

end Fmt
