/-
Bit-field decomposition of float64 patterns, the rational magnitude `val`, the value order `vle`
on the model's own vocabulary, and monotonicity of `F64.div` in the dividend.
-/
import Proofs.Lemmas.F64Mono

namespace F64

/-! ### bit fields as arithmetic on `toNat` -/

theorem expField_eq (b : Bits) : expField b = b.toNat / 2 ^ 52 % 2 ^ 11 := by
  unfold expField
  rw [UInt64.toNat_and, UInt64.toNat_shiftRight]
  have : (2047 : UInt64).toNat = 2 ^ 11 - 1 := by decide
  rw [this, Nat.and_two_pow_sub_one_eq_mod, Nat.shiftRight_eq_div_pow]
  rfl

theorem fracField_eq (b : Bits) : fracField b = b.toNat % 2 ^ 52 := by
  unfold fracField
  rw [UInt64.toNat_and]
  have : (0xFFFFFFFFFFFFF : UInt64).toNat = 2 ^ 52 - 1 := by decide
  rw [this, Nat.and_two_pow_sub_one_eq_mod]

theorem signBit_false_iff (b : Bits) : signBit b = false ↔ b.toNat < 2 ^ 63 := by
  unfold signBit
  rw [bne_eq_false_iff_eq, ← UInt64.toNat_inj, UInt64.toNat_shiftRight, Nat.shiftRight_eq_div_pow]
  have : (63 : UInt64).toNat % 64 = 63 := by decide
  rw [this]
  have : (0 : UInt64).toNat = 0 := by decide
  rw [this]
  have := b.toNat_lt
  omega

/-- sign-free patterns decompose as `expField·2^52 + fracField` -/
theorem toNat_decomp (b : Bits) (h : b.toNat < 2 ^ 63) :
    b.toNat = expField b * 2 ^ 52 + fracField b ∧ expField b < 2 ^ 11 ∧ fracField b < 2 ^ 52 := by
  rw [expField_eq, fracField_eq]; omega

/-- finite, positive, non-zero: the patterns `0x0000000000000001 … 0x7FEFFFFFFFFFFFFF` -/
def PosFin (b : Bits) : Prop := 0 < b.toNat ∧ b.toNat < 0x7FF0000000000000

instance (b : Bits) : Decidable (PosFin b) := by unfold PosFin; infer_instance

theorem PosFin.lt63 {b : Bits} (h : PosFin b) : b.toNat < 2 ^ 63 := by
  have := h.2; omega

theorem PosFin.signBit {b : Bits} (h : PosFin b) : signBit b = false :=
  (signBit_false_iff b).mpr h.lt63

theorem PosFin.expField_lt {b : Bits} (h : PosFin b) : expField b < 2047 := by
  have := h.2; rw [expField_eq]; omega

theorem PosFin.isNaN {b : Bits} (h : PosFin b) : isNaN b = false := by
  have := h.expField_lt
  unfold F64.isNaN
  have : (expField b == 2047) = false := by simp; omega
  rw [this]; rfl

theorem PosFin.isInf {b : Bits} (h : PosFin b) : isInf b = false := by
  have := h.expField_lt
  unfold F64.isInf
  have : (expField b == 2047) = false := by simp; omega
  rw [this]; rfl

theorem PosFin.isZero {b : Bits} (h : PosFin b) : isZero b = false := by
  obtain ⟨e1, e2, e3⟩ := toNat_decomp b h.lt63
  have := h.1
  unfold F64.isZero
  by_cases h0 : expField b = 0
  · have : fracField b ≠ 0 := by omega
    simp [h0, this]
  · simp [h0]

theorem PosFin.mant_pos {b : Bits} (h : PosFin b) : 0 < mant b := by
  obtain ⟨e1, e2, e3⟩ := toNat_decomp b h.lt63
  have := h.1
  unfold mant
  by_cases h0 : expField b = 0
  · simp [h0]; omega
  · simp [h0]

/-! ### the rational magnitude of a pattern -/

/-- `mant · 2^expo` (the magnitude of a finite float; for exponent field 2047 the formula continues
to 2^1024·(1+frac/2^52), which keeps it monotone in the pattern) -/
def val (b : Bits) : ℚ := (mant b : ℚ) * (2 : ℚ) ^ (expo b)

theorem toFrac_eq_scaled (m : Nat) (e : Int) : toFrac m e = scaled m 1 e := by
  unfold toFrac scaled
  split
  · rename_i h
    have : (-e).toNat = 0 := by omega
    simp [this]
  · rename_i h
    have : e.toNat = 0 := by omega
    simp [this]

theorem toFrac_snd_pos (m : Nat) (e : Int) : 0 < (toFrac m e).2 := by
  rw [toFrac_eq_scaled]; exact scaled_snd_pos m e (by decide)

theorem toFrac_ratio (m : Nat) (e : Int) :
    ((toFrac m e).1 : ℚ) / ((toFrac m e).2 : ℚ) = (m : ℚ) * (2 : ℚ) ^ e := by
  rw [toFrac_eq_scaled, scaled_ratio]; simp

/-- value order of magnitudes on the model's vocabulary (the hypothesis of `C10.fmtFixed_mono`) -/
def vle (a b : Bits) : Prop :=
  (toFrac (mant a) (expo a)).1 * (toFrac (mant b) (expo b)).2
    ≤ (toFrac (mant b) (expo b)).1 * (toFrac (mant a) (expo a)).2

theorem vle_iff (a b : Bits) : vle a b ↔ val a ≤ val b := by
  unfold vle val
  rw [frac_le_iff _ _ _ _ (toFrac_snd_pos _ _) (toFrac_snd_pos _ _), toFrac_ratio, toFrac_ratio]

theorem two_zpow_pos (k : Int) : (0 : ℚ) < (2 : ℚ) ^ k := zpow_pos (by norm_num) k

/-- lower and upper bound of the magnitude from the exponent field -/
theorem val_bounds (b : Bits) :
    (expField b ≠ 0 → (2 : ℚ) ^ (52 : Int) * (2 : ℚ) ^ ((expField b : Int) - 1075) ≤ val b) ∧
    (fracField b < 2 ^ 52 →
      val b < (2 : ℚ) ^ (52 : Int) * (2 : ℚ) ^ (if expField b = 0 then (-1074 : Int) else (expField b : Int) - 1074)) := by
  unfold val mant expo
  have e52 : (2 : ℚ) ^ (52 : Int) = 4503599627370496 := by norm_num
  by_cases h0 : expField b = 0
  · simp only [h0, beq_self_eq_true, if_true, ne_eq, not_true_eq_false, false_implies, true_and]
    intro hf
    apply mul_lt_mul_of_pos_right _ (two_zpow_pos _)
    have hfq : (fracField b : ℚ) < 4503599627370496 := by exact_mod_cast hf
    rw [e52]; exact hfq
  · have hb : (expField b == 0) = false := by simp [h0]
    simp only [hb, h0, if_false, Bool.false_eq_true]
    constructor
    · intro _
      apply mul_le_mul_of_nonneg_right _ (two_zpow_pos _).le
      have : (0 : ℚ) ≤ (fracField b : ℚ) := by exact_mod_cast Nat.zero_le _
      rw [e52]; push_cast; linarith
    · intro hf
      have e1 : ((expField b : Int) - 1074) = ((expField b : Int) - 1075) + 1 := by omega
      rw [e1, zpow_add_one₀ (by norm_num : (2 : ℚ) ≠ 0)]
      have hfq : (fracField b : ℚ) < 4503599627370496 := by exact_mod_cast hf
      have hp := two_zpow_pos ((expField b : Int) - 1075)
      rw [e52]; push_cast
      nlinarith

/-- **val_mono** — on sign-free patterns the magnitude is monotone in the pattern. -/
theorem val_mono (a b : Bits) (hb : b.toNat < 2 ^ 63) (h : a.toNat ≤ b.toNat) : val a ≤ val b := by
  have ha : a.toNat < 2 ^ 63 := lt_of_le_of_lt h hb
  obtain ⟨a1, a2, a3⟩ := toNat_decomp a ha
  obtain ⟨b1, b2, b3⟩ := toNat_decomp b hb
  rcases Nat.lt_trichotomy (expField a) (expField b) with hlt | heq | hgt
  · have hbn : expField b ≠ 0 := by omega
    have lo := (val_bounds b).1 hbn
    have hi := (val_bounds a).2 a3
    have : (2 : ℚ) ^ (if expField a = 0 then (-1074 : Int) else (expField a : Int) - 1074)
        ≤ (2 : ℚ) ^ ((expField b : Int) - 1075) := by
      apply zpow_le_zpow_right₀ (by norm_num)
      split <;> omega
    have := mul_le_mul_of_nonneg_left this (two_zpow_pos 52).le
    linarith
  · have hf : fracField a ≤ fracField b := by omega
    unfold val mant expo
    rw [heq]
    apply mul_le_mul_of_nonneg_right _ (two_zpow_pos _).le
    have : (fracField a : ℚ) ≤ (fracField b : ℚ) := by exact_mod_cast hf
    split <;> push_cast <;> linarith
  · exfalso
    have := Nat.mul_le_mul_right (2 ^ 52) (Nat.succ_le_of_lt hgt)
    omega

theorem vle_of_toNat_le (a b : Bits) (hb : b.toNat < 2 ^ 63) (h : a.toNat ≤ b.toNat) : vle a b :=
  (vle_iff a b).mpr (val_mono a b hb h)

/-! ### `div` -/

theorem roundRat_false (n d : Nat) : roundRat false n d = roundMag n d := by
  unfold roundRat; simp

/-- the quotient of finite positive floats is `roundMag` of the exactly scaled mantissa ratio -/
theorem div_eq (a f : Bits) (ha : PosFin a) (hf : PosFin f) :
    div a f = roundMag (scaled (mant a) (mant f) (expo a - expo f)).1
                       (scaled (mant a) (mant f) (expo a - expo f)).2 := by
  unfold div
  simp only [ha.isNaN, hf.isNaN, ha.isInf, hf.isInf, ha.isZero, hf.isZero, ha.signBit, hf.signBit,
    Bool.or_self, Bool.false_eq_true, if_false, bne_self_eq_false, roundRat_false]
  simp only [scaled_fst, scaled_snd]
  split
  · rename_i h
    have : (-(expo a - expo f)).toNat = 0 := by omega
    rw [this]; simp
  · rename_i h
    have : (expo a - expo f).toNat = 0 := by omega
    rw [this]; simp

theorem div_signBit (a f : Bits) (ha : PosFin a) (hf : PosFin f) : (div a f).toNat < 2 ^ 63 := by
  rw [div_eq a f ha hf]
  have := roundMag_le_inf (scaled (mant a) (mant f) (expo a - expo f)).1
    (scaled (mant a) (mant f) (expo a - expo f)).2
  omega

/-- **div_mono** — division by a finite positive float is monotone in the (finite positive)
dividend: value(a) ≤ value(b) → bits(a/f) ≤ bits(b/f) (sign-free patterns, so this is the float
order, +Inf included). -/
theorem div_mono_val (a b f : Bits) (ha : PosFin a) (hb : PosFin b) (hf : PosFin f)
    (h : val a ≤ val b) : (div a f).toNat ≤ (div b f).toNat := by
  rw [div_eq a f ha hf, div_eq b f hb hf]
  have hmf := hf.mant_pos
  apply roundMag_mono _ _ _ _ (scaled_fst_pos _ _ ha.mant_pos) (scaled_snd_pos _ _ hmf)
    (scaled_snd_pos _ _ hmf)
  rw [frac_le_iff _ _ _ _ (scaled_snd_pos _ _ hmf) (scaled_snd_pos _ _ hmf), scaled_ratio, scaled_ratio]
  have two_ne : (2 : ℚ) ≠ 0 := by norm_num
  rw [zpow_sub₀ two_ne, zpow_sub₀ two_ne]
  unfold val at h
  have hq : (0 : ℚ) < (mant f : ℚ) * (2 : ℚ) ^ (expo f) :=
    mul_pos (by exact_mod_cast hmf) (two_zpow_pos _)
  have e : ∀ m : ℚ, ∀ x : ℚ, m / (mant f : ℚ) * (x / (2 : ℚ) ^ (expo f))
      = (m * x) / ((mant f : ℚ) * (2 : ℚ) ^ (expo f)) := by
    intro m x; rw [div_mul_div_comm]
  rw [e, e]
  exact div_le_div_of_nonneg_right h hq.le

theorem div_mono (a b f : Bits) (ha : PosFin a) (hb : PosFin b) (hf : PosFin f)
    (h : vle a b) : (div a f).toNat ≤ (div b f).toNat :=
  div_mono_val a b f ha hb hf ((vle_iff a b).mp h)

/-- the same with the order of the dividends given on the patterns -/
theorem div_mono_bits (a b f : Bits) (ha : PosFin a) (hb : PosFin b) (hf : PosFin f)
    (h : a.toNat ≤ b.toNat) : (div a f).toNat ≤ (div b f).toNat :=
  div_mono_val a b f ha hb hf (val_mono a b hb.lt63 h)

/-- on sign-free patterns `F64.lt x y` is false whenever `y ≤ x` as patterns -/
theorem lt_false_of_toNat_le (x y : Bits) (hx : x.toNat < 2 ^ 63) (hy : y.toNat < 2 ^ 63)
    (h : y.toNat ≤ x.toNat) : lt x y = false := by
  unfold lt
  rw [(signBit_false_iff x).mpr hx, (signBit_false_iff y).mpr hy]
  have : ¬ x < y := by rw [UInt64.lt_iff_toNat_lt]; omega
  simp [this]

/-- on finite positive floats `F64.lt` / `F64.le` are the order of the patterns (bridge from the
comparisons in `commonScale`'s cascade to the `toNat` hypotheses of the lifted C10 theorems) -/
theorem lt_posFin (a b : Bits) (ha : PosFin a) (hb : PosFin b) : lt a b = true ↔ a.toNat < b.toNat := by
  unfold lt
  simp only [ha.isNaN, hb.isNaN, ha.isZero, hb.isZero, ha.signBit, hb.signBit, Bool.or_self,
    Bool.and_self, Bool.false_eq_true, if_false, decide_eq_true_eq, UInt64.lt_iff_toNat_lt]

theorem le_posFin (a b : Bits) (ha : PosFin a) (hb : PosFin b) : le a b = true ↔ a.toNat ≤ b.toNat := by
  unfold le eq
  simp only [Bool.or_eq_true, lt_posFin a b ha hb, ha.isNaN, hb.isNaN, ha.isZero, hb.isZero,
    Bool.or_self, Bool.and_self, Bool.false_eq_true, if_false, beq_iff_eq, ← UInt64.toNat_inj]
  omega

/-- **div_mono** in the form of the task note: `(b/f) < (a/f)` is false for a ≤ b. -/
theorem div_mono_lt (a b f : Bits) (ha : PosFin a) (hb : PosFin b) (hf : PosFin f)
    (h : vle a b) : lt (div b f) (div a f) = false :=
  lt_false_of_toNat_le _ _ (div_signBit b f hb hf) (div_signBit a f ha hf) (div_mono a b f ha hb hf h)

/-- non-trivial instance: 1.0 ≤ 3.0, divided by 10.0 -/
example : (div 0x3FF0000000000000 0x4024000000000000).toNat ≤ (div 0x4008000000000000 0x4024000000000000).toNat :=
  div_mono_bits _ _ _ (by decide) (by decide) (by decide) (by decide)

end F64
