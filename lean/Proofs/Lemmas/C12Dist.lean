/-
C12 helper lemmas and theorems about the distribution-function layer (exact instance).
-/
import Proofs.Lemmas.C12Descr
import Model.Stats.Beta
import Model.Stats.Dists

namespace C12
open Stats Stats.Dists

@[simp] theorem half_rat : (half : ℚ) = 1 / 2 := by
  show ((1 : ℕ) : ℚ) / ((2 : ℕ) : ℚ) = 1 / 2
  norm_num

/-- for x > 0 and I with values in [0,1] the positive branch lies in [½, 1] -/
theorem tcdfPos_range (I : ℚ → ℚ → ℚ → ℚ) (hI : ∀ z a b, 0 ≤ I z a b ∧ I z a b ≤ 1) (ν x : ℚ) :
    1 / 2 ≤ tcdfPos I ν x ∧ tcdfPos I ν x ≤ 1 := by
  unfold tcdfPos
  simp only [mul_rat, lt_rat, add_rat, half_rat, div_rat, ofNat_rat, sub_rat]
  split
  · obtain ⟨h0, h1⟩ := hI (x * x / (ν + x * x)) (1 / 2) (ν / ((2 : ℕ) : ℚ))
    constructor <;> linarith
  · obtain ⟨h0, h1⟩ := hI (ν / (ν + x * x)) (ν / ((2 : ℕ) : ℚ)) (1 / 2)
    constructor <;> push_cast <;> linarith


theorem tcdf_neg_eq (I : ℚ → ℚ → ℚ → ℚ) (ν x : ℚ) (hx : x < 0) :
    tcdf I ν x = some (1 - tcdfPos I ν (-x)) ∧ tcdf I ν (-x) = some (tcdfPos I ν (-x)) := by
  have h1 : ¬ x = 0 := ne_of_lt hx
  have h2 : ¬ (0 : ℚ) < x := not_lt.mpr hx.le
  have h3 : ¬ -x = 0 := by intro h; apply h1; linarith
  have h4 : (0 : ℚ) < -x := by linarith
  constructor
  · simp [tcdf, h1, h2, hx]
  · simp [tcdf, h3, h4]

/-! ### normal distribution function over an abstract erfc -/

structure ErfcLike (erfc : ℚ → ℚ) : Prop where
  anti : ∀ a b, a ≤ b → erfc b ≤ erfc a
  refl : ∀ z, erfc (-z) = 2 - erfc z
  nonneg : ∀ z, 0 ≤ erfc z

theorem ncdf_eq (erfc : ℚ → ℚ) (s2 μ σ x : ℚ) :
    ncdf erfc s2 μ σ x = erfc (-(x - μ) / (σ * s2)) / 2 := by
  simp [ncdf]

/-! ### symmetry switch of the incomplete beta function -/

theorem switch_threshold (a b : ℚ) (hab : a + b + 2 ≠ 0) :
    (a + 1) / (a + b + 2) + (b + 1) / (b + a + 2) = 1 := by
  have : b + a + 2 = a + b + 2 := by ring
  rw [this]
  field_simp
  ring

end C12
