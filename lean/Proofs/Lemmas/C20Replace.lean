/-
C20 helper lemmas: db.ReplaceUpload as an operation of the histories.
-/
import Proofs.Lemmas.C20Files

namespace C20
open Storage.Upload

/-- shape of the result of ReplaceUpload: the old rows of other uploads, then rows of `k` -/
theorem replace_shape (k : UKey) (rs : List Res) (commit : Bool) (db : DB) :
    ∃ new : List RRow,
      (replaceUpload k rs commit db).records = db.records.filter (fun r => !(r.up == k)) ++ new ∧
      (∀ row ∈ new, row.up = k) ∧
      (replaceUpload k rs commit db).uploads = (if k ∈ db.uploads then db.uploads else db.uploads ++ [k]) ∧
      new.flatMap (·.lines) =
        (match ({ id := k } : Tx).insertRecords rs with
         | none => []
         | some t1 => if commit && (t1.flush).isSome then rs.map (·.line) else []) := by
  unfold replaceUpload
  simp only
  cases h1 : ({ id := k } : Tx).insertRecords rs with
  | none => exact ⟨[], by simp, by simp, rfl, by simp⟩
  | some t1 =>
    simp only
    have hrows : RowsOf t1 := insertRecords_rows h1 (by intro row hr; simp at hr)
    have hid : t1.id = k := insertRecords_id h1
    have hlines := insertRecords_lines h1 (by intro h; simp at h)
    cases commit with
    | false => exact ⟨[], by simp, by simp, rfl, by simp⟩
    | true =>
      simp only [if_true, Bool.true_and]
      cases h2 : t1.flush with
      | none => exact ⟨[], by simp, by simp, rfl, by simp⟩
      | some t2 =>
        have hf := flush_rows h2 hrows
        have hl := flush_lines h2
        refine ⟨t2.txRec, rfl, ?_, rfl, ?_⟩
        · intro row hr
          have := hf.1 row (by simp [hr])
          rw [this, flush_id h2, hid]
        · have e1 : txLines t2 = t2.txRec.flatMap (·.lines) := by simp [txLines, hf.2.1]
          rw [← e1, hl.1, hlines.1]
          simp [txLines]

/-- **ReplaceUpload**: the records of every other upload stay, in order; the replaced upload
afterwards has exactly the new benchmark lines if the replacement was committed and NO records
otherwise (the old ones are deleted outside the transaction — an aborted reindex empties the upload) -/
theorem replace_effect (k : UKey) (rs : List Res) (commit : Bool) (db : DB) :
    (replaceUpload k rs commit db).records.filter (fun r => !(r.up == k)) = db.records.filter (fun r => !(r.up == k)) ∧
    ((replaceUpload k rs commit db).queryUpload k).map (·.2) =
      (match ({ id := k } : Tx).insertRecords rs with
       | none => []
       | some t1 => if commit && (t1.flush).isSome then rs.map (·.line) else []) := by
  obtain ⟨new, h1, h2, _, h4⟩ := replace_shape k rs commit db
  refine ⟨?_, ?_⟩
  · rw [h1, List.filter_append, List.filter_filter]
    have : new.filter (fun r => !(r.up == k)) = [] := by
      rw [List.filter_eq_nil_iff]; intro row hr; simp [h2 row hr]
    simp [this]
  · simp only [DB.queryUpload, DB.results]
    rw [h1, List.flatMap_append, List.filter_append, List.map_append]
    rw [results_none_of _ k (by intro row hr; simp at hr; exact hr.2)]
    rw [results_lines_of new k h2, h4]
    simp

theorem replace_core (k : UKey) (rs : List Res) (commit : Bool) (s : Sys) (w : WfCore s) :
    WfCore { s with db := replaceUpload k rs commit s.db } := by
  obtain ⟨new, h1, h2, h3, _⟩ := replace_shape k rs commit s.db
  have hsub : ∀ x ∈ s.db.uploads, x ∈ (replaceUpload k rs commit s.db).uploads := by
    intro x hx; rw [h3]; split
    · exact hx
    · exact List.mem_append_left _ hx
  have hk : k ∈ (replaceUpload k rs commit s.db).uploads := by
    rw [h3]; split
    · assumption
    · simp
  refine ⟨?_, fun e he => hsub _ (w.files e he)⟩
  intro row hr
  simp only at hr
  rw [h1] at hr
  rcases List.mem_append.mp hr with h | h
  · exact hsub _ (w.recs row (List.mem_filter.mp h).1)
  · rw [h2 row h]; exact hk

theorem replace_wf (k : UKey) (rs : List Res) (commit : Bool) (s : Sys) (w : WfSys s) (hk : k ∈ s.db.uploads) :
    WfSys { s with db := replaceUpload k rs commit s.db } := by
  have c := replace_core k rs commit s w.core
  obtain ⟨_, _, _, h3, _⟩ := replace_shape k rs commit s.db
  rw [if_pos hk] at h3
  exact ⟨c.recs, c.files, by simp only; rw [h3]; exact w.contig, by simp only; rw [h3]; exact w.nodup⟩

theorem processUpload_core (env : Env) (req : Req) (s : Sys) (w : WfCore s) : WfCore (processUpload env req s).sys := by
  have hstep := run0_step env req s
  have common : (∀ row ∈ s.db.records, row.up ∈ (run0 env req s).1.uploads) ∧
      (∀ e ∈ (run0 env req s).1.fs, e.1.up ∈ (run0 env req s).1.uploads) := by
    rcases hstep with ⟨_, h2, h3⟩ | ⟨t, _, h2, h3, h4, _⟩
    · rw [h2, h3]; exact ⟨w.recs, w.files⟩
    · rw [h3]
      refine ⟨fun row hr => List.mem_append_left _ (w.recs row hr), ?_⟩
      intro e he
      rcases h4.1 e he with h | h
      · exact List.mem_append_left _ (w.files e h)
      · simp [h]
  rcases processUpload_cases env req s with ⟨e, h⟩ | ⟨t, t', _, _, htx, hfl, h⟩
  · rw [h]; exact ⟨common.1, common.2⟩
  · rw [h]
    refine ⟨?_, common.2⟩
    intro row hrow
    simp at hrow
    rcases hrow with hrow | hrow
    · exact common.1 row hrow
    · rcases hstep with ⟨h1, _, _⟩ | ⟨t0, h1, _, h3, _, hrows⟩
      · rw [h1] at htx; cases htx
      · rw [h1] at htx; cases htx
        have := (flush_rows hfl hrows).1 row (by simp [hrow])
        rw [this, flush_id hfl, h3]; simp

/-- every reindex in the history names an upload that exists at that moment -/
def ReplacesExisting : List HOp → Sys → Prop
  | [], _ => True
  | HOp.upload env req :: rest, s => ReplacesExisting rest (processUpload env req s).sys
  | HOp.replace k rs commit :: rest, s =>
    k ∈ s.db.uploads ∧ ReplacesExisting rest { s with db := replaceUpload k rs commit s.db }

theorem runOps_core (ops : List HOp) (s : Sys) (w : WfCore s) (hp : (Paths s.fs).Nodup) :
    WfCore (runOps ops s) ∧ (Paths (runOps ops s).fs).Nodup := by
  induction ops generalizing s with
  | nil => exact ⟨w, hp⟩
  | cons op rest ih =>
    cases op with
    | upload env req => exact ih _ (processUpload_core env req s w) (processUpload_paths env req s hp)
    | replace k rs commit => exact ih _ (replace_core k rs commit s w) hp

theorem runOps_wf (ops : List HOp) (s : Sys) (w : WfSys s) (h : ReplacesExisting ops s) : WfSys (runOps ops s) := by
  induction ops generalizing s with
  | nil => exact w
  | cons op rest ih =>
    cases op with
    | upload env req => exact ih _ (processUpload_wf env req s w) h
    | replace k rs commit => exact ih _ (replace_wf k rs commit s w h.1) h.2

end C20
