/-
Word-level facts used by property C06: the exact expressions of filter.go on uint32
(`x & (1 << k)`, `x | (0xffffffff << s)`, `x &^ (0xffffffff << s)`) in terms of single bits.
No `bv_decide`: extensionality over bits.
-/
import Model.Proc.FilterEval

namespace C06
open Proc.FilterEval

theorem ones_eq : ones = BitVec.allOnes 32 := by decide

theorem ones_getLsbD (i : Nat) : ones.getLsbD i = decide (i < 32) := by
  rw [ones_eq, BitVec.getLsbD_allOnes]

theorem shl_one_getLsbD (k i : Nat) (hk : k < 32) : (1#32 <<< k).getLsbD i = decide (i = k) := by
  simp only [BitVec.getLsbD_shiftLeft, BitVec.getLsbD_one]
  by_cases h : i = k
  · subst h; simp [hk]
  · simp [h]; omega

/-- `x & (1 << k) != 0` is bit `k` of `x`. -/
theorem testBit_word (x : Word) (k : Nat) (hk : k < 32) :
    ((x &&& (1#32 <<< k)) != 0#32) = x.getLsbD k := by
  cases hb : x.getLsbD k
  · have : x &&& (1#32 <<< k) = 0#32 := by
      apply BitVec.eq_of_getLsbD_eq
      intro i hi
      simp only [BitVec.getLsbD_and, shl_one_getLsbD k i hk, BitVec.getLsbD_zero]
      by_cases h : i = k
      · subst h; simp [hb]
      · simp [h]
    simp [this]
  · have : x &&& (1#32 <<< k) ≠ 0#32 := by
      intro h
      have := congrArg (·.getLsbD k) h
      simp [shl_one_getLsbD k k hk, hb] at this
    simpa using this

theorem shl_ones_getLsbD (s i : Nat) : (ones <<< s).getLsbD i = (decide (i < 32) && decide (s ≤ i)) := by
  simp only [BitVec.getLsbD_shiftLeft, ones_getLsbD]
  by_cases h1 : i < 32 <;> by_cases h2 : i < s <;> simp [h1, h2] <;> omega

/-- `x | (0xffffffff << s) == 0xffffffff` says: all bits below `s` are set. -/
theorem all_word (x : Word) (s : Nat) :
    ((x ||| (ones <<< s)) != ones) = false ↔ ∀ b, b < 32 → b < s → x.getLsbD b = true := by
  constructor
  · intro h b hb hs
    have h' : x ||| (ones <<< s) = ones := by simpa using h
    have := congrArg (·.getLsbD b) h'
    simp only [BitVec.getLsbD_or, shl_ones_getLsbD, ones_getLsbD] at this
    have hn : ¬ s ≤ b := by omega
    simpa [hb, hn] using this
  · intro h
    have : x ||| (ones <<< s) = ones := by
      apply BitVec.eq_of_getLsbD_eq
      intro i hi
      simp only [BitVec.getLsbD_or, shl_ones_getLsbD, ones_getLsbD]
      by_cases hs : s ≤ i
      · simp [hi, hs]
      · have := h i hi (by omega)
        simp [this, hi]
    simp [this]

/-- `x &^ (0xffffffff << s) != 0` says: some bit below `s` is set. -/
theorem any_word (x : Word) (s : Nat) :
    ((x &&& ~~~(ones <<< s)) != 0#32) = true ↔ ∃ b, b < 32 ∧ b < s ∧ x.getLsbD b = true := by
  constructor
  · intro h
    have h' : x &&& ~~~(ones <<< s) ≠ 0#32 := by simpa using h
    by_cases hex : ∃ b, b < 32 ∧ b < s ∧ x.getLsbD b = true
    · exact hex
    · exfalso; apply h'
      apply BitVec.eq_of_getLsbD_eq
      intro i hi
      simp only [BitVec.getLsbD_and, BitVec.getLsbD_not, shl_ones_getLsbD, BitVec.getLsbD_zero]
      by_cases hs : s ≤ i
      · simp [hi, hs]
      · have : x.getLsbD i = false := by
          cases hx : x.getLsbD i
          · rfl
          · exact absurd ⟨i, hi, by omega, hx⟩ hex
        simp [this]
  · rintro ⟨b, hb, hs, hx⟩
    have : x &&& ~~~(ones <<< s) ≠ 0#32 := by
      intro h
      have := congrArg (·.getLsbD b) h
      have hn : ¬ s ≤ b := by omega
      simp [hb, hn, hx] at this
    simpa using this

end C06
