/-
C03 helper lemmas for `hex_path_correct`: `atofHex` (shift / sticky bit / round-half-even /
denormal / overflow) against `F64.ofBinary`.
Part A: the bit operations as arithmetic.
-/
import Proofs.Lemmas.C03Exact

namespace C03
open Num F64

theorem or_low (a b : Nat) (k : Nat) (hb : b < 2 ^ k) : 2 ^ k * a ||| b = 2 ^ k * a + b :=
  (Nat.two_pow_add_eq_or_of_lt hb a).symm

/-- `k | 1` -/
theorem or_one (k : Nat) : k ||| 1 = k + 1 - k % 2 := by
  have hk : k = 2 * (k / 2) + k % 2 := (Nat.div_add_mod k 2).symm
  rcases Nat.mod_two_eq_zero_or_one k with h | h
  · have : k = 2 ^ 1 * (k / 2) := by omega
    rw [this, or_low (k / 2) 1 1 (by decide)]; omega
  · have e : k = 2 ^ 1 * (k / 2) ||| 1 := by rw [or_low (k / 2) 1 1 (by decide)]; omega
    have : k ||| 1 = k := by
      conv => lhs; rw [e]
      rw [Nat.or_assoc, Nat.or_self, ← e]
    rw [this]; omega

/-- the sticky right shift `m>>1 | m&1` -/
theorem sticky_shift (m : Nat) : (m >>> 1 ||| m &&& 1) = m / 2 + (if m % 4 = 1 then 1 else 0) := by
  rw [Nat.shiftRight_eq_div_pow, Nat.and_one_is_mod]
  rcases Nat.mod_two_eq_zero_or_one m with h | h
  · rw [h]; simp only [Nat.pow_one, Nat.or_zero]
    have : ¬ m % 4 = 1 := by omega
    simp [this]
  · rw [h, or_one]
    simp only [Nat.pow_one]
    split <;> omega

theorem round_bits (a b : Nat) (ha : a < 4) (hb : b < 2) :
    ((a ||| b) == 3) = decide (a = 3 ∨ (a = 2 ∧ b = 1)) := by
  have : ∀ a, a < 4 → ∀ b, b < 2 → ((a ||| b) == 3) = decide (a = 3 ∨ (a = 2 ∧ b = 1)) := by decide
  exact this a ha b hb

/-- `bits = m & (1<<52 - 1) | E << 52` -/
theorem assemble (m E : Nat) : (m &&& (2 ^ 52 - 1)) ||| (E <<< 52) = m % 2 ^ 52 + E * 2 ^ 52 := by
  rw [Nat.and_two_pow_sub_one_eq_mod, Nat.shiftLeft_eq, Nat.or_comm, Nat.mul_comm E,
    or_low E (m % 2 ^ 52) 52 (Nat.mod_lt _ (by decide))]
  omega

theorem ofNat_or_sign (b : Nat) (hb : b < 2 ^ 63) :
    UInt64.ofNat (b ||| 2 ^ 63) = signed true (UInt64.ofNat b) := by
  have hbt : (UInt64.ofNat b).toNat = b := by rw [UInt64.toNat_ofNat']; exact Nat.mod_eq_of_lt (by omega)
  rw [← UInt64.toNat_inj]
  unfold signed
  simp only [if_true]
  rw [or_negZero_toNat _ (by rw [hbt]; exact hb), hbt, UInt64.toNat_ofNat']
  have : b ||| 2 ^ 63 = 2 ^ 63 + b := by
    rw [Nat.or_comm]
    have := or_low 1 b 63 hb
    rw [Nat.mul_one] at this; exact this
  rw [this]; omega

/-! ### Part B: the sticky representation -/

/-- `m` represents the exact (scaled) value `x` with a sticky lowest bit: an even `m` is exact, an
odd `m` stands for some value strictly between its even neighbours -/
def Stick (m : Nat) (x : ℚ) : Prop :=
  (m % 2 = 0 → x = m) ∧ (m % 2 = 1 → (m : ℚ) - 1 < x ∧ x < m + 1)

theorem stick_exact (m : Nat) : Stick m (m : ℚ) :=
  ⟨fun _ => rfl, fun _ => ⟨by linarith, by linarith⟩⟩

def sticky (m : Nat) : Nat := m / 2 + (if m % 4 = 1 then 1 else 0)

theorem stick_shift (m : Nat) (x : ℚ) (h : Stick m x) : Stick (sticky m) (x / 2) := by
  unfold sticky
  obtain ⟨h0, h1⟩ := h
  have hk : m = 2 * (m / 2) + m % 2 := (Nat.div_add_mod m 2).symm
  have hkq : (m : ℚ) = 2 * ((m / 2 : Nat) : ℚ) + ((m % 2 : Nat) : ℚ) := by exact_mod_cast hk
  generalize m / 2 = k at *
  have h4 : m % 4 = 0 ∨ m % 4 = 1 ∨ m % 4 = 2 ∨ m % 4 = 3 := by omega
  rcases h4 with h | h | h | h
  · have hm2 : m % 2 = 0 := by omega
    have hx := h0 hm2
    rw [hm2] at hkq
    have hke : k % 2 = 0 := by omega
    simp only [h, show ¬ (0 = 1) by decide, if_false, Nat.add_zero]
    refine ⟨fun _ => by rw [hx, hkq]; push_cast; ring, fun hk1 => by omega⟩
  · have hm2 : m % 2 = 1 := by omega
    obtain ⟨l, u⟩ := h1 hm2
    rw [hm2] at hkq
    have hke : k % 2 = 0 := by omega
    simp only [h, if_true]
    refine ⟨fun hk0 => by omega, fun _ => ?_⟩
    push_cast at hkq ⊢
    constructor <;> linarith
  · have hm2 : m % 2 = 0 := by omega
    have hx := h0 hm2
    rw [hm2] at hkq
    have hke : k % 2 = 1 := by omega
    simp only [h, show ¬ (2 = 1) by decide, if_false, Nat.add_zero]
    refine ⟨fun hk0 => by omega, fun _ => ?_⟩
    push_cast at hkq
    constructor <;> linarith
  · have hm2 : m % 2 = 1 := by omega
    obtain ⟨l, u⟩ := h1 hm2
    rw [hm2] at hkq
    have hke : k % 2 = 1 := by omega
    simp only [h, show ¬ (3 = 1) by decide, if_false, Nat.add_zero]
    refine ⟨fun hk0 => by omega, fun _ => ?_⟩
    push_cast at hkq
    constructor <;> linarith

theorem sticky_lt (m T2 : Nat) (h : m < 4 * T2) : sticky m < 2 * T2 := by
  unfold sticky; split <;> omega

theorem sticky_ge (m : Nat) : m / 2 ≤ sticky m := by unfold sticky; omega

theorem sticky_le (m : Nat) (h : 2 ≤ m) : sticky m ≤ m := by unfold sticky; split <;> omega

/-- positivity survives the sticky shift -/
theorem sticky_pos (m : Nat) (h : 0 < m) : 0 < sticky m := by unfold sticky; split <;> omega

/-- the value a state (m, e) stands for: x = V · 2^(52 − e) -/
def scaleAt (V : ℚ) (e : Int) : ℚ := V * (2 : ℚ) ^ (52 - e)

theorem scaleAt_succ (V : ℚ) (e : Int) : scaleAt V (e + 1) = scaleAt V e / 2 := by
  unfold scaleAt
  have : (52 : Int) - (e + 1) = (52 - e) - 1 := by omega
  rw [this, zpow_sub_one₀ (by norm_num : (2 : ℚ) ≠ 0)]
  ring

theorem scaleAt_pred (V : ℚ) (e : Int) : scaleAt V (e - 1) = 2 * scaleAt V e := by
  unfold scaleAt
  have : (52 : Int) - (e - 1) = (52 - e) + 1 := by omega
  rw [this, zpow_add_one₀ (by norm_num : (2 : ℚ) ≠ 0)]
  ring

/-! ### Part C: the three loops of `atofHex` -/

theorem shr_eq_zero (m k : Nat) : (m >>> k = 0) ↔ m < 2 ^ k := by
  rw [Nat.shiftRight_eq_div_pow]; exact Nat.div_eq_zero_iff_lt (Nat.pow_pos (by decide))

theorem normUp_succ (f m : Nat) (e : Int) :
    hexNormUp (f + 1) m e = if m ≠ 0 ∧ m < 2 ^ 54 then hexNormUp f (2 * m) (e - 1) else (m, e) := by
  conv => lhs; unfold hexNormUp
  have hcond : ((m != 0 && m >>> (52 + 2) == 0) = true) ↔ (m ≠ 0 ∧ m < 2 ^ 54) := by
    rw [Bool.and_eq_true, bne_iff_ne, beq_iff_eq, show 52 + 2 = 54 from rfl, shr_eq_zero]
  rw [Nat.shiftLeft_eq, Nat.pow_one, Nat.mul_comm m 2]
  by_cases hc : m ≠ 0 ∧ m < 2 ^ 54
  · rw [if_pos (hcond.mpr hc), if_pos hc]
  · rw [if_neg (fun h => hc (hcond.mp h)), if_neg hc]

theorem normDown_succ (f m : Nat) (e : Int) :
    hexNormDown (f + 1) m e = if 2 ^ 55 ≤ m then hexNormDown f (sticky m) (e + 1) else (m, e) := by
  conv => lhs; unfold hexNormDown
  have hcond : ((m >>> (1 + 52 + 2) != 0) = true) ↔ 2 ^ 55 ≤ m := by
    rw [bne_iff_ne, show 1 + 52 + 2 = 55 from rfl, Ne, shr_eq_zero]; omega
  rw [sticky_shift]
  by_cases hc : 2 ^ 55 ≤ m
  · rw [if_pos (hcond.mpr hc), if_pos hc]; rfl
  · rw [if_neg (fun h => hc (hcond.mp h)), if_neg hc]

theorem denorm_succ (f m : Nat) (e : Int) :
    hexDenorm (-1022) (f + 1) m e = if 1 < m ∧ e < -1024 then hexDenorm (-1022) f (sticky m) (e + 1) else (m, e) := by
  conv => lhs; unfold hexDenorm
  rw [sticky_shift]
  by_cases hc : 1 < m ∧ e < -1024
  · have : (decide (m > 1) && decide (e < -1022 - 2)) = true := by
      simp only [Bool.and_eq_true, decide_eq_true_eq]; exact ⟨hc.1, by omega⟩
    rw [if_pos this, if_pos hc]; rfl
  · have : ¬ (decide (m > 1) && decide (e < -1022 - 2)) = true := by
      simp only [Bool.and_eq_true, decide_eq_true_eq]; intro h; exact hc ⟨h.1, by omega⟩
    rw [if_neg this, if_neg hc]

theorem normUp_spec (V : ℚ) : ∀ (f m : Nat) (e : Int), scaleAt V e = (m : ℚ) → (m = 0 ∨ 2 ^ 54 ≤ m * 2 ^ f) →
    scaleAt V (hexNormUp f m e).2 = ((hexNormUp f m e).1 : ℚ) ∧
    (m = 0 → (hexNormUp f m e).1 = 0) ∧
    (0 < m → 2 ^ 54 ≤ (hexNormUp f m e).1 ∧ ((hexNormUp f m e).1 < 2 ^ 55 ∨ (hexNormUp f m e).1 = m)) := by
  intro f
  induction f with
  | zero =>
    intro m e hx hf
    have : hexNormUp 0 m e = (m, e) := rfl
    rw [this]
    refine ⟨hx, fun h => h, fun h => ⟨by omega, Or.inr rfl⟩⟩
  | succ f ih =>
    intro m e hx hf
    rw [normUp_succ]
    by_cases hc : m ≠ 0 ∧ m < 2 ^ 54
    · rw [if_pos hc]
      have hx' : scaleAt V (e - 1) = ((2 * m : Nat) : ℚ) := by rw [scaleAt_pred, hx]; push_cast; ring
      have hf' : 2 * m = 0 ∨ 2 ^ 54 ≤ 2 * m * 2 ^ f := by
        right
        rcases hf with h | h
        · exact absurd h hc.1
        · rw [Nat.pow_succ] at h
          calc 2 ^ 54 ≤ m * (2 ^ f * 2) := h
            _ = 2 * m * 2 ^ f := by ring
      obtain ⟨a, b, c⟩ := ih (2 * m) (e - 1) hx' hf'
      refine ⟨a, fun h => absurd h hc.1, fun _ => ?_⟩
      obtain ⟨c1, c2⟩ := c (by omega)
      refine ⟨c1, Or.inl ?_⟩
      rcases c2 with h | h
      · exact h
      · rw [h]; omega
    · rw [if_neg hc]
      refine ⟨hx, fun h => h, fun h => ⟨?_, Or.inr rfl⟩⟩
      by_cases h0 : m = 0
      · omega
      · have : ¬ m < 2 ^ 54 := fun h' => hc ⟨h0, h'⟩
        omega

theorem normDown_spec (V : ℚ) : ∀ (f m : Nat) (e : Int), Stick m (scaleAt V e) → m < 2 ^ (55 + f) →
    Stick (hexNormDown f m e).1 (scaleAt V (hexNormDown f m e).2) ∧ (hexNormDown f m e).1 < 2 ^ 55 ∧
    (2 ^ 54 ≤ m → 2 ^ 54 ≤ (hexNormDown f m e).1) ∧ (0 < m → 0 < (hexNormDown f m e).1) := by
  intro f
  induction f with
  | zero =>
    intro m e hs hb
    have : hexNormDown 0 m e = (m, e) := rfl
    rw [this]; exact ⟨hs, hb, fun h => h, fun h => h⟩
  | succ f ih =>
    intro m e hs hb
    rw [normDown_succ]
    by_cases hc : 2 ^ 55 ≤ m
    · rw [if_pos hc]
      have hs' : Stick (sticky m) (scaleAt V (e + 1)) := by rw [scaleAt_succ]; exact stick_shift m _ hs
      have hb' : sticky m < 2 ^ (55 + f) := by
        have e1 : 2 ^ (55 + (f + 1)) = 4 * 2 ^ (54 + f) := by
          rw [show 55 + (f + 1) = (54 + f) + 2 by omega, Nat.pow_add]; ring
        have e2 : 2 ^ (55 + f) = 2 * 2 ^ (54 + f) := by
          rw [show 55 + f = (54 + f) + 1 by omega, Nat.pow_succ]; ring
        rw [e2]; exact sticky_lt m _ (by rw [← e1]; exact hb)
      obtain ⟨a, b, c, d⟩ := ih (sticky m) (e + 1) hs' hb'
      have hge := sticky_ge m
      exact ⟨a, b, fun _ => c (by omega), fun h => d (sticky_pos m h)⟩
    · rw [if_neg hc]
      exact ⟨hs, by omega, fun h => h, fun h => h⟩

theorem denorm_spec (V : ℚ) : ∀ (f m : Nat) (e : Int), Stick m (scaleAt V e) → m < 2 ^ f →
    Stick (hexDenorm (-1022) f m e).1 (scaleAt V (hexDenorm (-1022) f m e).2) ∧
    (hexDenorm (-1022) f m e).1 ≤ m ∧ (0 < m → 0 < (hexDenorm (-1022) f m e).1) ∧
    ((hexDenorm (-1022) f m e = (m, e) ∧ (-1024 ≤ e ∨ m ≤ 1)) ∨
     (e < -1024 ∧ (hexDenorm (-1022) f m e).2 = -1024) ∨
     (e < -1024 ∧ (hexDenorm (-1022) f m e).1 ≤ 1 ∧ (hexDenorm (-1022) f m e).2 < -1024)) := by
  intro f
  induction f with
  | zero =>
    intro m e hs hb
    have : hexDenorm (-1022) 0 m e = (m, e) := rfl
    rw [this]
    exact ⟨hs, Nat.le_refl _, fun h => h, Or.inl ⟨rfl, Or.inr (by omega)⟩⟩
  | succ f ih =>
    intro m e hs hb
    rw [denorm_succ]
    by_cases hc : 1 < m ∧ e < -1024
    · rw [if_pos hc]
      have hs' : Stick (sticky m) (scaleAt V (e + 1)) := by rw [scaleAt_succ]; exact stick_shift m _ hs
      have hf1 : 1 ≤ f := by
        rcases Nat.eq_zero_or_pos f with h | h
        · subst h; simp at hb; omega
        · exact h
      have hb' : sticky m < 2 ^ f := by
        have e1 : 2 ^ (f + 1) = 4 * 2 ^ (f - 1) := by
          rw [show f + 1 = (f - 1) + 2 by omega, Nat.pow_add]; ring
        have e2 : 2 ^ f = 2 * 2 ^ (f - 1) := by
          conv => lhs; rw [show f = (f - 1) + 1 by omega, Nat.pow_succ]
          ring
        rw [e2]; exact sticky_lt m _ (by rw [← e1]; exact hb)
      obtain ⟨a, b, b', c⟩ := ih (sticky m) (e + 1) hs' hb'
      have hle := sticky_le m (by omega)
      refine ⟨a, by omega, fun h => b' (sticky_pos m h), ?_⟩
      rcases c with ⟨c1, c2⟩ | ⟨c1, c2⟩ | ⟨c1, c2, c3⟩
      · rcases c2 with h | h
        · right; left
          refine ⟨hc.2, ?_⟩
          rw [c1]; show e + 1 = -1024; omega
        · by_cases he : e + 1 = -1024
          · right; left; exact ⟨hc.2, by rw [c1]; exact he⟩
          · right; right
            refine ⟨hc.2, by rw [c1]; exact h, by rw [c1]; show e + 1 < -1024; omega⟩
      · right; left; exact ⟨hc.2, c2⟩
      · right; right; exact ⟨hc.2, c2, c3⟩
    · rw [if_neg hc]
      refine ⟨hs, Nat.le_refl _, fun h => h, Or.inl ⟨rfl, ?_⟩⟩
      by_cases h1 : 1 < m
      · left; have : ¬ e < -1024 := fun h => hc ⟨h1, h⟩; omega
      · right; omega

/-! ### Part D: "round using two bottom bits" is round-half-even of the exact value -/

theorem rne_of_stick (m : Nat) (x : ℚ) (hs : Stick m x) (n d : Nat) (hd : 0 < d)
    (h : (n : ℚ) / d = x / 4) :
    rne n d = m / 4 + (if m % 4 = 3 ∨ (m % 4 = 2 ∧ (m / 4) % 2 = 1) then 1 else 0) := by
  obtain ⟨h0, h1⟩ := hs
  have hdq : (0 : ℚ) < d := by exact_mod_cast hd
  have key : (4 * n : ℚ) = x * d := by
    rw [div_eq_iff hdq.ne'] at h; rw [h]; ring
  have hm : m = 4 * (m / 4) + m % 4 := (Nat.div_add_mod m 4).symm
  generalize hq : m / 4 = q at *
  generalize hb : m % 4 = b at *
  have hmq : (m : ℚ) = 4 * (q : ℚ) + (b : ℚ) := by exact_mod_cast hm
  have hb4 : b < 4 := by rw [← hb]; exact Nat.mod_lt _ (by decide)
  rw [rne_def]
  have hdm := Nat.div_add_mod n d
  -- everything below is linear in n, d, q*d
  have hb' : b = 0 ∨ b = 1 ∨ b = 2 ∨ b = 3 := by omega
  rcases hb' with rfl | rfl | rfl | rfl <;> push_cast at hmq
  · -- exact multiple of 4
    have hx := h0 (by omega)
    have : n = q * d := by
      have : (4 * n : ℚ) = 4 * (q * d) := by rw [key, hx, hmq]; push_cast; ring
      have : (n : ℚ) = q * d := by linarith
      exact_mod_cast this
    subst this
    have hdiv : q * d / d = q := Nat.mul_div_cancel q hd
    have hmod : q * d % d = 0 := Nat.mul_mod_left q d
    rw [hdiv, hmod]
    have : ¬ (2 * 0 > d ∨ 2 * 0 = d ∧ q % 2 = 1) := by omega
    rw [if_neg this]; simp
  · obtain ⟨l, u⟩ := h1 (by omega)
    have l' : (4 * (q * d : Nat) : ℚ) < 4 * n := by
      rw [key]; push_cast
      have := mul_lt_mul_of_pos_right l hdq
      rw [hmq] at this; linarith
    have u' : (4 * n : ℚ) < ((4 * (q * d) + 2 * d : Nat) : ℚ) := by
      rw [key]; push_cast
      have := mul_lt_mul_of_pos_right u hdq
      rw [hmq] at this; linarith
    have l'' : 4 * (q * d) < 4 * n := by exact_mod_cast l'
    have u'' : 4 * n < 4 * (q * d) + 2 * d := by exact_mod_cast u'
    have hdiv : n / d = q := Nat.div_eq_of_lt_le (by omega) (by rw [Nat.succ_mul]; omega)
    rw [hdiv] at hdm ⊢
    rw [Nat.mul_comm d q] at hdm
    generalize q * d = qd at *
    have : ¬ (2 * (n % d) > d ∨ 2 * (n % d) = d ∧ q % 2 = 1) := by omega
    rw [if_neg this]; simp
  · have hx := h0 (by omega)
    have e : (4 * n : ℚ) = ((4 * (q * d) + 2 * d : Nat) : ℚ) := by
      rw [key, hx, hmq]; push_cast; ring
    have e' : 4 * n = 4 * (q * d) + 2 * d := by exact_mod_cast e
    have hdiv : n / d = q := Nat.div_eq_of_lt_le (by omega) (by rw [Nat.succ_mul]; omega)
    rw [hdiv] at hdm ⊢
    rw [Nat.mul_comm d q] at hdm
    generalize q * d = qd at *
    by_cases hq1 : q % 2 = 1
    · have : (2 * (n % d) > d ∨ 2 * (n % d) = d ∧ q % 2 = 1) := Or.inr ⟨by omega, hq1⟩
      rw [if_pos this]; simp [hq1]
    · have : ¬ (2 * (n % d) > d ∨ 2 * (n % d) = d ∧ q % 2 = 1) := by omega
      rw [if_neg this]; simp [hq1]
  · obtain ⟨l, u⟩ := h1 (by omega)
    have l' : ((4 * (q * d) + 2 * d : Nat) : ℚ) < 4 * n := by
      rw [key]; push_cast
      have := mul_lt_mul_of_pos_right l hdq
      rw [hmq] at this; linarith
    have u' : (4 * n : ℚ) < ((4 * (q * d) + 4 * d : Nat) : ℚ) := by
      rw [key]; push_cast
      have := mul_lt_mul_of_pos_right u hdq
      rw [hmq] at this; linarith
    have l'' : 4 * (q * d) + 2 * d < 4 * n := by exact_mod_cast l'
    have u'' : 4 * n < 4 * (q * d) + 4 * d := by exact_mod_cast u'
    have hdiv : n / d = q := Nat.div_eq_of_lt_le (by omega) (by rw [Nat.succ_mul]; omega)
    rw [hdiv] at hdm ⊢
    rw [Nat.mul_comm d q] at hdm
    generalize q * d = qd at *
    have : (2 * (n % d) > d ∨ 2 * (n % d) = d ∧ q % 2 = 1) := Or.inl (by omega)
    rw [if_pos this]; simp

/-! ### Part E: rounding, exponent and assembly -/

/-- `atofHex` from "Round using two bottom bits" on -/
def hexFinish (m : Nat) (exp : Int) (neg : Bool) : FloatRes :=
  let bias : Int := -1023
  let maxExp : Int := 2 ^ 11 + bias - 2
  let round := m &&& 3
  let m := m >>> 2
  let round := round ||| (m &&& 1)
  let exp := exp + 2
  let (m, exp) :=
    if round == 3 then
      let m := m + 1
      if m == 2 ^ 53 then (m >>> 1, exp + 1) else (m, exp)
    else (m, exp)
  let exp := if m >>> 52 == 0 then bias else exp
  let ovf := exp > maxExp
  let (m, exp) := if ovf then ((2 : Nat) ^ 52, maxExp + 1) else (m, exp)
  let bits : Nat := (m &&& (2 ^ 52 - 1)) ||| (((exp - bias) % 2048).toNat <<< 52)
  let bits := if neg then bits ||| 2 ^ 63 else bits
  ⟨UInt64.ofNat bits, if ovf then some .range else none⟩

theorem atofHex_eq (m0 : Nat) (e0 : Int) (neg : Bool) :
    atofHex m0 e0 neg false =
      hexFinish (hexDenorm (-1022) 64 (hexNormDown 64 (hexNormUp 64 m0 (e0 + 52)).1 (hexNormUp 64 m0 (e0 + 52)).2).1
                    (hexNormDown 64 (hexNormUp 64 m0 (e0 + 52)).1 (hexNormUp 64 m0 (e0 + 52)).2).2).1
                (hexDenorm (-1022) 64 (hexNormDown 64 (hexNormUp 64 m0 (e0 + 52)).1 (hexNormUp 64 m0 (e0 + 52)).2).1
                    (hexNormDown 64 (hexNormUp 64 m0 (e0 + 52)).1 (hexNormUp 64 m0 (e0 + 52)).2).2).2 neg := by
  unfold atofHex
  simp only [Bool.false_eq_true, if_false, show ((-1023 : Int) + 1) = -1022 from rfl]
  rfl

/-- the same, as arithmetic on the rounded mantissa q' -/
def finishQ (q' : Nat) (e : Int) (neg : Bool) : FloatRes :=
  if (if (if q' = 2 ^ 53 then 2 ^ 52 else q') < 2 ^ 52 then (-1023 : Int) else (if q' = 2 ^ 53 then e + 3 else e + 2)) > 1023 then
    ⟨signed neg posInf, some .range⟩
  else
    ⟨signed neg (UInt64.ofNat ((if q' = 2 ^ 53 then 2 ^ 52 else q') % 2 ^ 52 +
        ((if (if q' = 2 ^ 53 then 2 ^ 52 else q') < 2 ^ 52 then (-1023 : Int) else (if q' = 2 ^ 53 then e + 3 else e + 2)) + 1023).toNat * 2 ^ 52)), none⟩

theorem signed_ofNat (neg : Bool) (b : Nat) (hb : b < 2 ^ 63) :
    UInt64.ofNat (if neg then b ||| 2 ^ 63 else b) = signed neg (UInt64.ofNat b) := by
  cases neg
  · rfl
  · simp only [if_true]; exact ofNat_or_sign b hb

theorem hexFinish_eq (m : Nat) (e : Int) (neg : Bool) (hm : m < 2 ^ 55) :
    hexFinish m e neg =
      finishQ (m / 4 + (if m % 4 = 3 ∨ (m % 4 = 2 ∧ (m / 4) % 2 = 1) then 1 else 0)) e neg := by
  have hq : m / 4 < 2 ^ 53 := by omega
  unfold hexFinish finishQ
  have r1 : m &&& 3 = m % 4 := by
    have := Nat.and_two_pow_sub_one_eq_mod m 2
    simpa using this
  have r2 : m >>> 2 = m / 4 := by rw [Nat.shiftRight_eq_div_pow]
  have r3 : (m / 4) &&& 1 = (m / 4) % 2 := Nat.and_one_is_mod _
  have r4 : ((m % 4 ||| (m / 4) % 2) == 3) = decide (m % 4 = 3 ∨ (m % 4 = 2 ∧ (m / 4) % 2 = 1)) :=
    round_bits _ _ (Nat.mod_lt _ (by decide)) (Nat.mod_lt _ (by decide))
  simp only [r1, r2, r3, r4]
  generalize m / 4 = q at *
  generalize (m % 4 = 3 ∨ (m % 4 = 2 ∧ q % 2 = 1)) = P at *
  by_cases hP : P
  · simp only [hP, decide_true, if_true]
    by_cases h53 : q + 1 = 2 ^ 53
    · have hs : (q + 1) >>> 1 = 2 ^ 52 := by rw [Nat.shiftRight_eq_div_pow, h53]; rfl
      have e1 : ((q + 1 == 2 ^ 53) = true) := by simpa using h53
      simp only [e1, if_true, hs, h53]
      have e2 : ((2 : Nat) ^ 52 >>> 52 == 0) = false := by decide
      have e3 : ¬ ((2 : Nat) ^ 52 < 2 ^ 52) := by decide
      simp only [e2, e3, Bool.false_eq_true, if_false]
      by_cases hov : e + 2 + 1 > 2 ^ 11 + -1023 - 2
      · have hov' : e + 3 > 1023 := by omega
        simp only [hov, decide_true, if_true, hov']
        have : UInt64.ofNat (if neg = true then ((2 : Nat) ^ 52 &&& (2 ^ 52 - 1) ||| ((((2 : Int) ^ 11 + -1023 - 2 + 1 - -1023) % 2048).toNat <<< 52)) ||| 2 ^ 63
            else ((2 : Nat) ^ 52 &&& (2 ^ 52 - 1) ||| ((((2 : Int) ^ 11 + -1023 - 2 + 1 - -1023) % 2048).toNat <<< 52))) = signed neg posInf := by
          rw [signed_ofNat neg _ (by decide)]; rfl
        rw [this]
      · have hov' : ¬ e + 3 > 1023 := by omega
        simp only [hov, decide_false, Bool.false_eq_true, if_false, hov']
        rw [assemble]
        have hE : ((e + 2 + 1 - -1023) % 2048).toNat = (e + 3 + 1023).toNat := by omega
        rw [hE]
        have hb : (2 : Nat) ^ 52 % 2 ^ 52 + (e + 3 + 1023).toNat * 2 ^ 52 < 2 ^ 63 := by omega
        rw [signed_ofNat neg _ hb]
    · have e1 : ((q + 1 == 2 ^ 53) = false) := by simpa using h53
      simp only [e1, Bool.false_eq_true, if_false, h53]
      have hcond : (((q + 1) >>> 52 == 0) = true) ↔ q + 1 < 2 ^ 52 := by
        rw [beq_iff_eq, shr_eq_zero]
      by_cases hlt : q + 1 < 2 ^ 52
      · simp only [hcond.mpr hlt, if_true, hlt]
        have h1 : ¬ ((-1023 : Int) > 2 ^ 11 + -1023 - 2) := by decide
        have h2 : ¬ ((-1023 : Int) > 1023) := by decide
        simp only [h1, decide_false, Bool.false_eq_true, if_false, h2]
        rw [assemble]
        have hb : (q + 1) % 2 ^ 52 + ((-1023 : Int) + 1023).toNat * 2 ^ 52 < 2 ^ 63 := by omega
        have hE : (((-1023 : Int) - -1023) % 2048).toNat = ((-1023 : Int) + 1023).toNat := by decide
        rw [hE, signed_ofNat neg _ hb]
      · have hne : ¬ (((q + 1) >>> 52 == 0) = true) := fun h => hlt (hcond.mp h)
        simp only [hne, if_false, hlt]
        by_cases hov : e + 2 > 2 ^ 11 + -1023 - 2
        · have hov' : e + 2 > 1023 := by omega
          simp only [hov, decide_true, if_true, hov']
          have : UInt64.ofNat (if neg = true then ((2 : Nat) ^ 52 &&& (2 ^ 52 - 1) ||| ((((2 : Int) ^ 11 + -1023 - 2 + 1 - -1023) % 2048).toNat <<< 52)) ||| 2 ^ 63
              else ((2 : Nat) ^ 52 &&& (2 ^ 52 - 1) ||| ((((2 : Int) ^ 11 + -1023 - 2 + 1 - -1023) % 2048).toNat <<< 52))) = signed neg posInf := by
            rw [signed_ofNat neg _ (by decide)]; rfl
          rw [this]
        · have hov' : ¬ e + 2 > 1023 := by omega
          simp only [hov, decide_false, Bool.false_eq_true, if_false, hov']
          rw [assemble]
          have hE : ((e + 2 - -1023) % 2048).toNat = (e + 2 + 1023).toNat := by omega
          rw [hE]
          have hb : (q + 1) % 2 ^ 52 + (e + 2 + 1023).toNat * 2 ^ 52 < 2 ^ 63 := by omega
          rw [signed_ofNat neg _ hb]
  · simp only [hP, decide_false, Bool.false_eq_true, if_false, Nat.add_zero]
    have h53 : ¬ q = 2 ^ 53 := by omega
    simp only [h53, if_false]
    have hcond : ((q >>> 52 == 0) = true) ↔ q < 2 ^ 52 := by
      rw [beq_iff_eq, shr_eq_zero]
    by_cases hlt : q < 2 ^ 52
    · simp only [hcond.mpr hlt, if_true, hlt]
      have h1 : ¬ ((-1023 : Int) > 2 ^ 11 + -1023 - 2) := by decide
      have h2 : ¬ ((-1023 : Int) > 1023) := by decide
      simp only [h1, decide_false, Bool.false_eq_true, if_false, h2]
      rw [assemble]
      have hb : q % 2 ^ 52 + ((-1023 : Int) + 1023).toNat * 2 ^ 52 < 2 ^ 63 := by omega
      have hE : (((-1023 : Int) - -1023) % 2048).toNat = ((-1023 : Int) + 1023).toNat := by decide
      rw [hE, signed_ofNat neg _ hb]
    · have hne : ¬ ((q >>> 52 == 0) = true) := fun h => hlt (hcond.mp h)
      simp only [hne, if_false, hlt]
      by_cases hov : e + 2 > 2 ^ 11 + -1023 - 2
      · have hov' : e + 2 > 1023 := by omega
        simp only [hov, decide_true, if_true, hov']
        have : UInt64.ofNat (if neg = true then ((2 : Nat) ^ 52 &&& (2 ^ 52 - 1) ||| ((((2 : Int) ^ 11 + -1023 - 2 + 1 - -1023) % 2048).toNat <<< 52)) ||| 2 ^ 63
            else ((2 : Nat) ^ 52 &&& (2 ^ 52 - 1) ||| ((((2 : Int) ^ 11 + -1023 - 2 + 1 - -1023) % 2048).toNat <<< 52))) = signed neg posInf := by
          rw [signed_ofNat neg _ (by decide)]; rfl
        rw [this]
      · have hov' : ¬ e + 2 > 1023 := by omega
        simp only [hov, decide_false, Bool.false_eq_true, if_false, hov']
        rw [assemble]
        have hE : ((e + 2 - -1023) % 2048).toNat = (e + 2 + 1023).toNat := by omega
        rw [hE]
        have hb : q % 2 ^ 52 + (e + 2 + 1023).toNat * 2 ^ 52 < 2 ^ 63 := by omega
        rw [signed_ofNat neg _ hb]

end C03
