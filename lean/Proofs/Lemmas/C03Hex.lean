/-
C03 helper lemmas for `hex_path_correct`: `atofHex` (shift / sticky bit / round-half-even /
denormal / overflow) against `F64.ofBinary`.
Part A: the bit operations as arithmetic.
-/
import Proofs.Lemmas.C03Exact

namespace C03
open Num F64

theorem or_low (a b : Nat) (k : Nat) (hb : b < 2 ^ k) : 2 ^ k * a ||| b = 2 ^ k * a + b :=
  (Nat.two_pow_add_eq_or_of_lt hb a).symm

/-- `k | 1` -/
theorem or_one (k : Nat) : k ||| 1 = k + 1 - k % 2 := by
  have hk : k = 2 * (k / 2) + k % 2 := (Nat.div_add_mod k 2).symm
  rcases Nat.mod_two_eq_zero_or_one k with h | h
  · have : k = 2 ^ 1 * (k / 2) := by omega
    rw [this, or_low (k / 2) 1 1 (by decide)]; omega
  · have e : k = 2 ^ 1 * (k / 2) ||| 1 := by rw [or_low (k / 2) 1 1 (by decide)]; omega
    have : k ||| 1 = k := by
      conv => lhs; rw [e]
      rw [Nat.or_assoc, Nat.or_self, ← e]
    rw [this]; omega

/-- the sticky right shift `m>>1 | m&1` -/
theorem sticky_shift (m : Nat) : (m >>> 1 ||| m &&& 1) = m / 2 + (if m % 4 = 1 then 1 else 0) := by
  rw [Nat.shiftRight_eq_div_pow, Nat.and_one_is_mod]
  rcases Nat.mod_two_eq_zero_or_one m with h | h
  · rw [h]; simp only [Nat.pow_one, Nat.or_zero]
    have : ¬ m % 4 = 1 := by omega
    simp [this]
  · rw [h, or_one]
    simp only [Nat.pow_one]
    split <;> omega

theorem round_bits (a b : Nat) (ha : a < 4) (hb : b < 2) :
    ((a ||| b) == 3) = decide (a = 3 ∨ (a = 2 ∧ b = 1)) := by
  have : ∀ a, a < 4 → ∀ b, b < 2 → ((a ||| b) == 3) = decide (a = 3 ∨ (a = 2 ∧ b = 1)) := by decide
  exact this a ha b hb

/-- `bits = m & (1<<52 - 1) | E << 52` -/
theorem assemble (m E : Nat) : (m &&& (2 ^ 52 - 1)) ||| (E <<< 52) = m % 2 ^ 52 + E * 2 ^ 52 := by
  rw [Nat.and_two_pow_sub_one_eq_mod, Nat.shiftLeft_eq, Nat.or_comm, Nat.mul_comm E,
    or_low E (m % 2 ^ 52) 52 (Nat.mod_lt _ (by decide))]
  omega

theorem ofNat_or_sign (b : Nat) (hb : b < 2 ^ 63) :
    UInt64.ofNat (b ||| 2 ^ 63) = signed true (UInt64.ofNat b) := by
  have hbt : (UInt64.ofNat b).toNat = b := by rw [UInt64.toNat_ofNat']; exact Nat.mod_eq_of_lt (by omega)
  rw [← UInt64.toNat_inj]
  unfold signed
  simp only [if_true]
  rw [or_negZero_toNat _ (by rw [hbt]; exact hb), hbt, UInt64.toNat_ofNat']
  have : b ||| 2 ^ 63 = 2 ^ 63 + b := by
    rw [Nat.or_comm]
    have := or_low 1 b 63 hb
    rw [Nat.mul_one] at this; exact this
  rw [this]; omega

/-! ### Part B: the sticky representation -/

/-- `m` represents the exact (scaled) value `x` with a sticky lowest bit: an even `m` is exact, an
odd `m` stands for some value strictly between its even neighbours -/
def Stick (m : Nat) (x : ℚ) : Prop :=
  (m % 2 = 0 → x = m) ∧ (m % 2 = 1 → (m : ℚ) - 1 < x ∧ x < m + 1)

theorem stick_exact (m : Nat) : Stick m (m : ℚ) :=
  ⟨fun _ => rfl, fun _ => ⟨by linarith, by linarith⟩⟩

def sticky (m : Nat) : Nat := m / 2 + (if m % 4 = 1 then 1 else 0)

theorem stick_shift (m : Nat) (x : ℚ) (h : Stick m x) : Stick (sticky m) (x / 2) := by
  unfold sticky
  obtain ⟨h0, h1⟩ := h
  have hk : m = 2 * (m / 2) + m % 2 := (Nat.div_add_mod m 2).symm
  have hkq : (m : ℚ) = 2 * ((m / 2 : Nat) : ℚ) + ((m % 2 : Nat) : ℚ) := by exact_mod_cast hk
  generalize m / 2 = k at *
  have h4 : m % 4 = 0 ∨ m % 4 = 1 ∨ m % 4 = 2 ∨ m % 4 = 3 := by omega
  rcases h4 with h | h | h | h
  · have hm2 : m % 2 = 0 := by omega
    have hx := h0 hm2
    rw [hm2] at hkq
    have hke : k % 2 = 0 := by omega
    simp only [h, show ¬ (0 = 1) by decide, if_false, Nat.add_zero]
    refine ⟨fun _ => by rw [hx, hkq]; push_cast; ring, fun hk1 => by omega⟩
  · have hm2 : m % 2 = 1 := by omega
    obtain ⟨l, u⟩ := h1 hm2
    rw [hm2] at hkq
    have hke : k % 2 = 0 := by omega
    simp only [h, if_true]
    refine ⟨fun hk0 => by omega, fun _ => ?_⟩
    push_cast at hkq ⊢
    constructor <;> linarith
  · have hm2 : m % 2 = 0 := by omega
    have hx := h0 hm2
    rw [hm2] at hkq
    have hke : k % 2 = 1 := by omega
    simp only [h, show ¬ (2 = 1) by decide, if_false, Nat.add_zero]
    refine ⟨fun hk0 => by omega, fun _ => ?_⟩
    push_cast at hkq
    constructor <;> linarith
  · have hm2 : m % 2 = 1 := by omega
    obtain ⟨l, u⟩ := h1 hm2
    rw [hm2] at hkq
    have hke : k % 2 = 1 := by omega
    simp only [h, show ¬ (3 = 1) by decide, if_false, Nat.add_zero]
    refine ⟨fun hk0 => by omega, fun _ => ?_⟩
    push_cast at hkq
    constructor <;> linarith

theorem sticky_lt (m T2 : Nat) (h : m < 4 * T2) : sticky m < 2 * T2 := by
  unfold sticky; split <;> omega

theorem sticky_ge (m : Nat) : m / 2 ≤ sticky m := by unfold sticky; omega

theorem sticky_le (m : Nat) (h : 2 ≤ m) : sticky m ≤ m := by unfold sticky; split <;> omega

/-- positivity survives the sticky shift -/
theorem sticky_pos (m : Nat) (h : 0 < m) : 0 < sticky m := by unfold sticky; split <;> omega

/-- the value a state (m, e) stands for: x = V · 2^(52 − e) -/
def scaleAt (V : ℚ) (e : Int) : ℚ := V * (2 : ℚ) ^ (52 - e)

theorem scaleAt_succ (V : ℚ) (e : Int) : scaleAt V (e + 1) = scaleAt V e / 2 := by
  unfold scaleAt
  have : (52 : Int) - (e + 1) = (52 - e) - 1 := by omega
  rw [this, zpow_sub_one₀ (by norm_num : (2 : ℚ) ≠ 0)]
  ring

theorem scaleAt_pred (V : ℚ) (e : Int) : scaleAt V (e - 1) = 2 * scaleAt V e := by
  unfold scaleAt
  have : (52 : Int) - (e - 1) = (52 - e) + 1 := by omega
  rw [this, zpow_add_one₀ (by norm_num : (2 : ℚ) ≠ 0)]
  ring

/-! ### Part C: the three loops of `atofHex` -/

theorem shr_eq_zero (m k : Nat) : (m >>> k = 0) ↔ m < 2 ^ k := by
  rw [Nat.shiftRight_eq_div_pow]; exact Nat.div_eq_zero_iff_lt (Nat.pow_pos (by decide))

theorem normUp_succ (f m : Nat) (e : Int) :
    hexNormUp (f + 1) m e = if m ≠ 0 ∧ m < 2 ^ 54 then hexNormUp f (2 * m) (e - 1) else (m, e) := by
  conv => lhs; unfold hexNormUp
  have hcond : ((m != 0 && m >>> (52 + 2) == 0) = true) ↔ (m ≠ 0 ∧ m < 2 ^ 54) := by
    rw [Bool.and_eq_true, bne_iff_ne, beq_iff_eq, show 52 + 2 = 54 from rfl, shr_eq_zero]
  rw [Nat.shiftLeft_eq, Nat.pow_one, Nat.mul_comm m 2]
  by_cases hc : m ≠ 0 ∧ m < 2 ^ 54
  · rw [if_pos (hcond.mpr hc), if_pos hc]
  · rw [if_neg (fun h => hc (hcond.mp h)), if_neg hc]

theorem normDown_succ (f m : Nat) (e : Int) :
    hexNormDown (f + 1) m e = if 2 ^ 55 ≤ m then hexNormDown f (sticky m) (e + 1) else (m, e) := by
  conv => lhs; unfold hexNormDown
  have hcond : ((m >>> (1 + 52 + 2) != 0) = true) ↔ 2 ^ 55 ≤ m := by
    rw [bne_iff_ne, show 1 + 52 + 2 = 55 from rfl, Ne, shr_eq_zero]; omega
  rw [sticky_shift]
  by_cases hc : 2 ^ 55 ≤ m
  · rw [if_pos (hcond.mpr hc), if_pos hc]; rfl
  · rw [if_neg (fun h => hc (hcond.mp h)), if_neg hc]

theorem denorm_succ (f m : Nat) (e : Int) :
    hexDenorm (-1022) (f + 1) m e = if 1 < m ∧ e < -1024 then hexDenorm (-1022) f (sticky m) (e + 1) else (m, e) := by
  conv => lhs; unfold hexDenorm
  rw [sticky_shift]
  by_cases hc : 1 < m ∧ e < -1024
  · have : (decide (m > 1) && decide (e < -1022 - 2)) = true := by
      simp only [Bool.and_eq_true, decide_eq_true_eq]; exact ⟨hc.1, by omega⟩
    rw [if_pos this, if_pos hc]; rfl
  · have : ¬ (decide (m > 1) && decide (e < -1022 - 2)) = true := by
      simp only [Bool.and_eq_true, decide_eq_true_eq]; intro h; exact hc ⟨h.1, by omega⟩
    rw [if_neg this, if_neg hc]

theorem normUp_spec (V : ℚ) : ∀ (f m : Nat) (e : Int), scaleAt V e = (m : ℚ) → (m = 0 ∨ 2 ^ 54 ≤ m * 2 ^ f) →
    scaleAt V (hexNormUp f m e).2 = ((hexNormUp f m e).1 : ℚ) ∧
    (m = 0 → (hexNormUp f m e).1 = 0) ∧
    (0 < m → 2 ^ 54 ≤ (hexNormUp f m e).1 ∧ ((hexNormUp f m e).1 < 2 ^ 55 ∨ (hexNormUp f m e).1 = m)) := by
  intro f
  induction f with
  | zero =>
    intro m e hx hf
    have : hexNormUp 0 m e = (m, e) := rfl
    rw [this]
    refine ⟨hx, fun h => h, fun h => ⟨by omega, Or.inr rfl⟩⟩
  | succ f ih =>
    intro m e hx hf
    rw [normUp_succ]
    by_cases hc : m ≠ 0 ∧ m < 2 ^ 54
    · rw [if_pos hc]
      have hx' : scaleAt V (e - 1) = ((2 * m : Nat) : ℚ) := by rw [scaleAt_pred, hx]; push_cast; ring
      have hf' : 2 * m = 0 ∨ 2 ^ 54 ≤ 2 * m * 2 ^ f := by
        right
        rcases hf with h | h
        · exact absurd h hc.1
        · rw [Nat.pow_succ] at h
          calc 2 ^ 54 ≤ m * (2 ^ f * 2) := h
            _ = 2 * m * 2 ^ f := by ring
      obtain ⟨a, b, c⟩ := ih (2 * m) (e - 1) hx' hf'
      refine ⟨a, fun h => absurd h hc.1, fun _ => ?_⟩
      obtain ⟨c1, c2⟩ := c (by omega)
      refine ⟨c1, Or.inl ?_⟩
      rcases c2 with h | h
      · exact h
      · rw [h]; omega
    · rw [if_neg hc]
      refine ⟨hx, fun h => h, fun h => ⟨?_, Or.inr rfl⟩⟩
      by_cases h0 : m = 0
      · omega
      · have : ¬ m < 2 ^ 54 := fun h' => hc ⟨h0, h'⟩
        omega

theorem normDown_spec (V : ℚ) : ∀ (f m : Nat) (e : Int), Stick m (scaleAt V e) → m < 2 ^ (55 + f) →
    Stick (hexNormDown f m e).1 (scaleAt V (hexNormDown f m e).2) ∧ (hexNormDown f m e).1 < 2 ^ 55 ∧
    (2 ^ 54 ≤ m → 2 ^ 54 ≤ (hexNormDown f m e).1) ∧ (0 < m → 0 < (hexNormDown f m e).1) := by
  intro f
  induction f with
  | zero =>
    intro m e hs hb
    have : hexNormDown 0 m e = (m, e) := rfl
    rw [this]; exact ⟨hs, hb, fun h => h, fun h => h⟩
  | succ f ih =>
    intro m e hs hb
    rw [normDown_succ]
    by_cases hc : 2 ^ 55 ≤ m
    · rw [if_pos hc]
      have hs' : Stick (sticky m) (scaleAt V (e + 1)) := by rw [scaleAt_succ]; exact stick_shift m _ hs
      have hb' : sticky m < 2 ^ (55 + f) := by
        have e1 : 2 ^ (55 + (f + 1)) = 4 * 2 ^ (54 + f) := by
          rw [show 55 + (f + 1) = (54 + f) + 2 by omega, Nat.pow_add]; ring
        have e2 : 2 ^ (55 + f) = 2 * 2 ^ (54 + f) := by
          rw [show 55 + f = (54 + f) + 1 by omega, Nat.pow_succ]; ring
        rw [e2]; exact sticky_lt m _ (by rw [← e1]; exact hb)
      obtain ⟨a, b, c, d⟩ := ih (sticky m) (e + 1) hs' hb'
      have hge := sticky_ge m
      exact ⟨a, b, fun _ => c (by omega), fun h => d (sticky_pos m h)⟩
    · rw [if_neg hc]
      exact ⟨hs, by omega, fun h => h, fun h => h⟩

theorem denorm_spec (V : ℚ) : ∀ (f m : Nat) (e : Int), Stick m (scaleAt V e) → m < 2 ^ f →
    Stick (hexDenorm (-1022) f m e).1 (scaleAt V (hexDenorm (-1022) f m e).2) ∧
    (hexDenorm (-1022) f m e).1 ≤ m ∧ (0 < m → 0 < (hexDenorm (-1022) f m e).1) ∧
    ((hexDenorm (-1022) f m e = (m, e) ∧ (-1024 ≤ e ∨ m ≤ 1)) ∨
     (e < -1024 ∧ (hexDenorm (-1022) f m e).2 = -1024) ∨
     (e < -1024 ∧ (hexDenorm (-1022) f m e).1 ≤ 1 ∧ (hexDenorm (-1022) f m e).2 < -1024)) := by
  intro f
  induction f with
  | zero =>
    intro m e hs hb
    have : hexDenorm (-1022) 0 m e = (m, e) := rfl
    rw [this]
    exact ⟨hs, Nat.le_refl _, fun h => h, Or.inl ⟨rfl, Or.inr (by omega)⟩⟩
  | succ f ih =>
    intro m e hs hb
    rw [denorm_succ]
    by_cases hc : 1 < m ∧ e < -1024
    · rw [if_pos hc]
      have hs' : Stick (sticky m) (scaleAt V (e + 1)) := by rw [scaleAt_succ]; exact stick_shift m _ hs
      have hf1 : 1 ≤ f := by
        rcases Nat.eq_zero_or_pos f with h | h
        · subst h; simp at hb; omega
        · exact h
      have hb' : sticky m < 2 ^ f := by
        have e1 : 2 ^ (f + 1) = 4 * 2 ^ (f - 1) := by
          rw [show f + 1 = (f - 1) + 2 by omega, Nat.pow_add]; ring
        have e2 : 2 ^ f = 2 * 2 ^ (f - 1) := by
          conv => lhs; rw [show f = (f - 1) + 1 by omega, Nat.pow_succ]
          ring
        rw [e2]; exact sticky_lt m _ (by rw [← e1]; exact hb)
      obtain ⟨a, b, b', c⟩ := ih (sticky m) (e + 1) hs' hb'
      have hle := sticky_le m (by omega)
      refine ⟨a, by omega, fun h => b' (sticky_pos m h), ?_⟩
      rcases c with ⟨c1, c2⟩ | ⟨c1, c2⟩ | ⟨c1, c2, c3⟩
      · rcases c2 with h | h
        · right; left
          refine ⟨hc.2, ?_⟩
          rw [c1]; show e + 1 = -1024; omega
        · by_cases he : e + 1 = -1024
          · right; left; exact ⟨hc.2, by rw [c1]; exact he⟩
          · right; right
            refine ⟨hc.2, by rw [c1]; exact h, by rw [c1]; show e + 1 < -1024; omega⟩
      · right; left; exact ⟨hc.2, c2⟩
      · right; right; exact ⟨hc.2, c2, c3⟩
    · rw [if_neg hc]
      refine ⟨hs, Nat.le_refl _, fun h => h, Or.inl ⟨rfl, ?_⟩⟩
      by_cases h1 : 1 < m
      · left; have : ¬ e < -1024 := fun h => hc ⟨h1, h⟩; omega
      · right; omega

/-! ### Part D: "round using two bottom bits" is round-half-even of the exact value -/

theorem rne_of_stick (m : Nat) (x : ℚ) (hs : Stick m x) (n d : Nat) (hd : 0 < d)
    (h : (n : ℚ) / d = x / 4) :
    rne n d = m / 4 + (if m % 4 = 3 ∨ (m % 4 = 2 ∧ (m / 4) % 2 = 1) then 1 else 0) := by
  obtain ⟨h0, h1⟩ := hs
  have hdq : (0 : ℚ) < d := by exact_mod_cast hd
  have key : (4 * n : ℚ) = x * d := by
    rw [div_eq_iff hdq.ne'] at h; rw [h]; ring
  have hm : m = 4 * (m / 4) + m % 4 := (Nat.div_add_mod m 4).symm
  generalize hq : m / 4 = q at *
  generalize hb : m % 4 = b at *
  have hmq : (m : ℚ) = 4 * (q : ℚ) + (b : ℚ) := by exact_mod_cast hm
  have hb4 : b < 4 := by rw [← hb]; exact Nat.mod_lt _ (by decide)
  rw [rne_def]
  have hdm := Nat.div_add_mod n d
  -- everything below is linear in n, d, q*d
  have hb' : b = 0 ∨ b = 1 ∨ b = 2 ∨ b = 3 := by omega
  rcases hb' with rfl | rfl | rfl | rfl <;> push_cast at hmq
  · -- exact multiple of 4
    have hx := h0 (by omega)
    have : n = q * d := by
      have : (4 * n : ℚ) = 4 * (q * d) := by rw [key, hx, hmq]; push_cast; ring
      have : (n : ℚ) = q * d := by linarith
      exact_mod_cast this
    subst this
    have hdiv : q * d / d = q := Nat.mul_div_cancel q hd
    have hmod : q * d % d = 0 := Nat.mul_mod_left q d
    rw [hdiv, hmod]
    have : ¬ (2 * 0 > d ∨ 2 * 0 = d ∧ q % 2 = 1) := by omega
    rw [if_neg this]; simp
  · obtain ⟨l, u⟩ := h1 (by omega)
    have l' : (4 * (q * d : Nat) : ℚ) < 4 * n := by
      rw [key]; push_cast
      have := mul_lt_mul_of_pos_right l hdq
      rw [hmq] at this; linarith
    have u' : (4 * n : ℚ) < ((4 * (q * d) + 2 * d : Nat) : ℚ) := by
      rw [key]; push_cast
      have := mul_lt_mul_of_pos_right u hdq
      rw [hmq] at this; linarith
    have l'' : 4 * (q * d) < 4 * n := by exact_mod_cast l'
    have u'' : 4 * n < 4 * (q * d) + 2 * d := by exact_mod_cast u'
    have hdiv : n / d = q := Nat.div_eq_of_lt_le (by omega) (by rw [Nat.succ_mul]; omega)
    rw [hdiv] at hdm ⊢
    rw [Nat.mul_comm d q] at hdm
    generalize q * d = qd at *
    have : ¬ (2 * (n % d) > d ∨ 2 * (n % d) = d ∧ q % 2 = 1) := by omega
    rw [if_neg this]; simp
  · have hx := h0 (by omega)
    have e : (4 * n : ℚ) = ((4 * (q * d) + 2 * d : Nat) : ℚ) := by
      rw [key, hx, hmq]; push_cast; ring
    have e' : 4 * n = 4 * (q * d) + 2 * d := by exact_mod_cast e
    have hdiv : n / d = q := Nat.div_eq_of_lt_le (by omega) (by rw [Nat.succ_mul]; omega)
    rw [hdiv] at hdm ⊢
    rw [Nat.mul_comm d q] at hdm
    generalize q * d = qd at *
    by_cases hq1 : q % 2 = 1
    · have : (2 * (n % d) > d ∨ 2 * (n % d) = d ∧ q % 2 = 1) := Or.inr ⟨by omega, hq1⟩
      rw [if_pos this]; simp [hq1]
    · have : ¬ (2 * (n % d) > d ∨ 2 * (n % d) = d ∧ q % 2 = 1) := by omega
      rw [if_neg this]; simp [hq1]
  · obtain ⟨l, u⟩ := h1 (by omega)
    have l' : ((4 * (q * d) + 2 * d : Nat) : ℚ) < 4 * n := by
      rw [key]; push_cast
      have := mul_lt_mul_of_pos_right l hdq
      rw [hmq] at this; linarith
    have u' : (4 * n : ℚ) < ((4 * (q * d) + 4 * d : Nat) : ℚ) := by
      rw [key]; push_cast
      have := mul_lt_mul_of_pos_right u hdq
      rw [hmq] at this; linarith
    have l'' : 4 * (q * d) + 2 * d < 4 * n := by exact_mod_cast l'
    have u'' : 4 * n < 4 * (q * d) + 4 * d := by exact_mod_cast u'
    have hdiv : n / d = q := Nat.div_eq_of_lt_le (by omega) (by rw [Nat.succ_mul]; omega)
    rw [hdiv] at hdm ⊢
    rw [Nat.mul_comm d q] at hdm
    generalize q * d = qd at *
    have : (2 * (n % d) > d ∨ 2 * (n % d) = d ∧ q % 2 = 1) := Or.inl (by omega)
    rw [if_pos this]; simp

/-! ### Part E: rounding, exponent and assembly -/

/-- `atofHex` from "Round using two bottom bits" on -/
def hexFinish (m : Nat) (exp : Int) (neg : Bool) : FloatRes :=
  let bias : Int := -1023
  let maxExp : Int := 2 ^ 11 + bias - 2
  let round := m &&& 3
  let m := m >>> 2
  let round := round ||| (m &&& 1)
  let exp := exp + 2
  let (m, exp) :=
    if round == 3 then
      let m := m + 1
      if m == 2 ^ 53 then (m >>> 1, exp + 1) else (m, exp)
    else (m, exp)
  let exp := if m >>> 52 == 0 then bias else exp
  let ovf := exp > maxExp
  let (m, exp) := if ovf then ((2 : Nat) ^ 52, maxExp + 1) else (m, exp)
  let bits : Nat := (m &&& (2 ^ 52 - 1)) ||| (((exp - bias) % 2048).toNat <<< 52)
  let bits := if neg then bits ||| 2 ^ 63 else bits
  ⟨UInt64.ofNat bits, if ovf then some .range else none⟩

theorem atofHex_eq (m0 : Nat) (e0 : Int) (neg : Bool) :
    atofHex m0 e0 neg false =
      hexFinish (hexDenorm (-1022) 64 (hexNormDown 64 (hexNormUp 64 m0 (e0 + 52)).1 (hexNormUp 64 m0 (e0 + 52)).2).1
                    (hexNormDown 64 (hexNormUp 64 m0 (e0 + 52)).1 (hexNormUp 64 m0 (e0 + 52)).2).2).1
                (hexDenorm (-1022) 64 (hexNormDown 64 (hexNormUp 64 m0 (e0 + 52)).1 (hexNormUp 64 m0 (e0 + 52)).2).1
                    (hexNormDown 64 (hexNormUp 64 m0 (e0 + 52)).1 (hexNormUp 64 m0 (e0 + 52)).2).2).2 neg := by
  unfold atofHex
  simp only [Bool.false_eq_true, if_false, show ((-1023 : Int) + 1) = -1022 from rfl]
  rfl

theorem signed_ofNat (neg : Bool) (b : Nat) (hb : b < 2 ^ 63) :
    UInt64.ofNat (if neg then b ||| 2 ^ 63 else b) = signed neg (UInt64.ofNat b) := by
  cases neg
  · rfl
  · simp only [if_true]; exact ofNat_or_sign b hb

/-- rounding and carry: "round using two bottom bits" -/
def roundStep (m : Nat) (exp : Int) : Nat × Int :=
  let round := m &&& 3
  let m := m >>> 2
  let round := round ||| (m &&& 1)
  let exp := exp + 2
  if round == 3 then
    let m := m + 1
    if m == 2 ^ 53 then (m >>> 1, exp + 1) else (m, exp)
  else (m, exp)

/-- denormal exponent, overflow, assembly of the bits -/
def hexPack (m : Nat) (exp : Int) (neg : Bool) : FloatRes :=
  let bias : Int := -1023
  let maxExp : Int := 2 ^ 11 + bias - 2
  let exp := if m >>> 52 == 0 then bias else exp
  let ovf := exp > maxExp
  let (m, exp) := if ovf then ((2 : Nat) ^ 52, maxExp + 1) else (m, exp)
  let bits : Nat := (m &&& (2 ^ 52 - 1)) ||| (((exp - bias) % 2048).toNat <<< 52)
  let bits := if neg then bits ||| 2 ^ 63 else bits
  ⟨UInt64.ofNat bits, if ovf then some .range else none⟩

theorem hexFinish_split (m : Nat) (exp : Int) (neg : Bool) :
    hexFinish m exp neg = hexPack (roundStep m exp).1 (roundStep m exp).2 neg := by
  unfold hexFinish hexPack roundStep
  rfl

theorem roundStep_eq (m : Nat) (e : Int) (hm : m < 2 ^ 55) :
    roundStep m e =
      if m / 4 + (if m % 4 = 3 ∨ (m % 4 = 2 ∧ (m / 4) % 2 = 1) then 1 else 0) = 2 ^ 53 then (2 ^ 52, e + 3)
      else (m / 4 + (if m % 4 = 3 ∨ (m % 4 = 2 ∧ (m / 4) % 2 = 1) then 1 else 0), e + 2) := by
  have hq : m / 4 < 2 ^ 53 := by omega
  unfold roundStep
  have r1 : m &&& 3 = m % 4 := by
    have := Nat.and_two_pow_sub_one_eq_mod m 2
    simpa using this
  have r2 : m >>> 2 = m / 4 := by rw [Nat.shiftRight_eq_div_pow]
  have r3 : (m / 4) &&& 1 = (m / 4) % 2 := Nat.and_one_is_mod _
  have r4 : ((m % 4 ||| (m / 4) % 2) == 3) = decide (m % 4 = 3 ∨ (m % 4 = 2 ∧ (m / 4) % 2 = 1)) :=
    round_bits _ _ (Nat.mod_lt _ (by decide)) (Nat.mod_lt _ (by decide))
  simp only [r1, r2, r3, r4]
  generalize m / 4 = q at *
  by_cases hP : (m % 4 = 3 ∨ (m % 4 = 2 ∧ q % 2 = 1))
  · simp only [hP, decide_true, if_true]
    by_cases h53 : q + 1 = 2 ^ 53
    · have hs : (q + 1) >>> 1 = 2 ^ 52 := by rw [Nat.shiftRight_eq_div_pow, h53]; rfl
      have e1 : ((q + 1 == 2 ^ 53) = true) := by simpa using h53
      rw [if_pos e1, if_pos h53, hs]
      congr 1; omega
    · have e1 : ¬ ((q + 1 == 2 ^ 53) = true) := by simpa using h53
      rw [if_neg e1, if_neg h53]
  · have h53 : ¬ q + 0 = 2 ^ 53 := by omega
    simp only [hP, decide_false, Bool.false_eq_true, if_false]
    rw [if_neg h53]
    rfl

/-- `hexPack` as arithmetic -/
theorem hexPack_eq (mf : Nat) (ef : Int) (neg : Bool) (hmf : mf < 2 ^ 53) (hef : 2 ^ 52 ≤ mf → -1022 ≤ ef) :
    hexPack mf ef neg =
      if (if mf < 2 ^ 52 then (-1023 : Int) else ef) > 1023 then ⟨signed neg posInf, some .range⟩
      else ⟨signed neg (UInt64.ofNat (mf % 2 ^ 52 + ((if mf < 2 ^ 52 then (-1023 : Int) else ef) + 1023).toNat * 2 ^ 52)), none⟩ := by
  unfold hexPack
  have hcond : ((mf >>> 52 == 0) = true) ↔ mf < 2 ^ 52 := by rw [beq_iff_eq, shr_eq_zero]
  have hinf : UInt64.ofNat (if neg = true then ((2 : Nat) ^ 52 &&& (2 ^ 52 - 1) ||| ((((2 : Int) ^ 11 + -1023 - 2 + 1 - -1023) % 2048).toNat <<< 52)) ||| 2 ^ 63
      else ((2 : Nat) ^ 52 &&& (2 ^ 52 - 1) ||| ((((2 : Int) ^ 11 + -1023 - 2 + 1 - -1023) % 2048).toNat <<< 52))) = signed neg posInf := by
    rw [signed_ofNat neg _ (by decide)]; rfl
  by_cases hlt : mf < 2 ^ 52
  · have hc := hcond.mpr hlt
    simp only [hc, hlt, if_true]
    have h1 : ¬ ((-1023 : Int) > 2 ^ 11 + -1023 - 2) := by decide
    have h2 : ¬ ((-1023 : Int) > 1023) := by decide
    simp only [h1, decide_false, Bool.false_eq_true, if_false, h2]
    rw [assemble]
    have z1 : (((-1023 : Int) - -1023) % 2048).toNat = 0 := rfl
    have z2 : ((-1023 : Int) + 1023).toNat = 0 := rfl
    rw [z1, z2]
    have hml := Nat.mod_lt mf (show 0 < 2 ^ 52 by decide)
    have hb : mf % 2 ^ 52 + 0 * 2 ^ 52 < 2 ^ 63 := by omega
    rw [signed_ofNat neg _ hb]
  · have hc : (mf >>> 52 == 0) = false := by
      cases h : (mf >>> 52 == 0)
      · rfl
      · exact absurd (hcond.mp h) hlt
    simp only [hc, Bool.false_eq_true, hlt, if_false]
    by_cases hov : ef > 2 ^ 11 + -1023 - 2
    · have hov' : ef > 1023 := by omega
      simp only [hov, decide_true, if_true, hov']
      rw [hinf]
    · have hov' : ¬ ef > 1023 := by omega
      have hlo := hef (by omega)
      simp only [hov, decide_false, Bool.false_eq_true, if_false, hov']
      rw [assemble]
      have hE : ((ef - -1023) % 2048).toNat = (ef + 1023).toNat := by omega
      rw [hE]
      have hb : mf % 2 ^ 52 + (ef + 1023).toNat * 2 ^ 52 < 2 ^ 63 := by omega
      rw [signed_ofNat neg _ hb]

/-! ### Part F: `atofHex` = one correct rounding -/

/-- the rounded mantissa -/
def qOf (m : Nat) : Nat := m / 4 + (if m % 4 = 3 ∨ (m % 4 = 2 ∧ (m / 4) % 2 = 1) then 1 else 0)

theorem stick_bounds (m : Nat) (x : ℚ) (hs : Stick m x) :
    (m < 2 ^ 55 → x < 2 ^ 55) ∧ (2 ^ 54 ≤ m → (2 : ℚ) ^ 54 ≤ x) ∧ (m ≤ 1 → x < 2) ∧ (0 < m → 0 < x) := by
  obtain ⟨h0, h1⟩ := hs
  rcases Nat.mod_two_eq_zero_or_one m with h | h
  · have hx := h0 h
    refine ⟨fun hm => ?_, fun hm => ?_, fun hm => ?_, fun hm => ?_⟩
    · rw [hx]; exact_mod_cast hm
    · rw [hx]; exact_mod_cast hm
    · rw [hx]; have : m = 0 := by omega
      subst this; norm_num
    · rw [hx]; exact_mod_cast hm
  · obtain ⟨l, u⟩ := h1 h
    refine ⟨fun hm => ?_, fun hm => ?_, fun hm => ?_, fun hm => ?_⟩
    · have : (m : ℚ) + 1 ≤ 2 ^ 55 := by exact_mod_cast (show m + 1 ≤ 2 ^ 55 by omega)
      linarith
    · have : (2 : ℚ) ^ 54 + 1 ≤ m := by exact_mod_cast (show 2 ^ 54 + 1 ≤ m by omega)
      linarith
    · have : (m : ℚ) ≤ 1 := by exact_mod_cast hm
      linarith
    · have : (1 : ℚ) ≤ m := by exact_mod_cast (show 1 ≤ m by omega)
      linarith

/-- the main case: the state (m, e) after the three loops, e ≥ −1024, normalised or at the
denormal exponent -/
theorem finish_main (V : ℚ) (n d : Nat) (hn : 0 < n) (hd : 0 < d) (hV : (n : ℚ) / d = V)
    (m : Nat) (e : Int) (neg : Bool) (hs : Stick m (scaleAt V e)) (hm : m < 2 ^ 55)
    (he : -1024 ≤ e) (hnorm : 2 ^ 54 ≤ m ∨ e = -1024) :
    hexFinish m e neg =
      ⟨signed neg (roundMag n d), if roundMag n d = posInf then some .range else none⟩ := by
  obtain ⟨b1, b2, _, _⟩ := stick_bounds m _ hs
  have hx55 := b1 hm
  -- x / 4 = (n/d) · 2^(50 − e)
  have hx4 : (n : ℚ) / d * (2 : ℚ) ^ (50 - e) = scaleAt V e / 4 := by
    rw [hV]; unfold scaleAt
    have : (52 : Int) - e = (50 - e) + 2 := by omega
    rw [this, zpow_add₀ (by norm_num : (2 : ℚ) ≠ 0)]
    norm_num
    ring
  have hshift : shiftOf n d = 50 - e := by
    apply shiftOf_uniqueQ n d hn hd (50 - e) (by omega)
    · rw [hx4]; linarith
    · intro hlt
      have : 2 ^ 54 ≤ m := by
        rcases hnorm with h | h
        · exact h
        · omega
      have := b2 this
      rw [hx4]; linarith
  have hrne : rne (scaled n d (50 - e)).1 (scaled n d (50 - e)).2 = qOf m := by
    unfold qOf
    apply rne_of_stick m _ hs _ _ (scaled_snd_pos n _ hd)
    rw [scaled_ratio, hx4]
  have hmag : magBits n d = (e + 1024).toNat * 2 ^ 52 + qOf m := by
    unfold magBits
    rw [hshift, hrne]
    congr 2; omega
  rw [roundMag_eq n d hn hd, hmag, hexFinish_split, roundStep_eq m e hm]
  have hq : m / 4 < 2 ^ 53 := by omega
  have hq' : qOf m ≤ 2 ^ 53 := by unfold qOf; split <;> omega
  have hqlo : 2 ^ 52 ≤ qOf m ∨ e = -1024 := by
    rcases hnorm with h | h
    · left; unfold qOf; omega
    · right; exact h
  show hexPack (if qOf m = 2 ^ 53 then (2 ^ 52, e + 3) else (qOf m, e + 2)).1
      (if qOf m = 2 ^ 53 then (2 ^ 52, e + 3) else (qOf m, e + 2)).2 neg = _
  generalize qOf m = q at *
  have hinf : posInf = UInt64.ofNat 0x7FF0000000000000 := by decide
  by_cases h53 : q = 2 ^ 53
  · simp only [h53, if_true]
    rw [hexPack_eq _ _ neg (by decide) (fun _ => by omega)]
    have e1 : ¬ ((2 : Nat) ^ 52 < 2 ^ 52) := by decide
    simp only [e1, if_false]
    by_cases hov : e + 3 > 1023
    · have : (e + 1024).toNat * 2 ^ 52 + 2 ^ 53 ≥ 0x7FF0000000000000 := by omega
      simp only [hov, if_true, this]
    · have hlt : ¬ (e + 1024).toNat * 2 ^ 52 + 2 ^ 53 ≥ 0x7FF0000000000000 := by omega
      simp only [hov, if_false, hlt]
      have hb : (2 : Nat) ^ 52 % 2 ^ 52 + (e + 3 + 1023).toNat * 2 ^ 52 = (e + 1024).toNat * 2 ^ 52 + 2 ^ 53 := by omega
      rw [hb]
      have hne : UInt64.ofNat ((e + 1024).toNat * 2 ^ 52 + 2 ^ 53) ≠ posInf := by
        rw [hinf]; intro h
        have := congrArg UInt64.toNat h
        rw [UInt64.toNat_ofNat', UInt64.toNat_ofNat', Nat.mod_eq_of_lt (by omega), Nat.mod_eq_of_lt (by decide)] at this
        omega
      simp only [hne, if_false]
  · simp only [h53, if_false]
    rw [hexPack_eq _ _ neg (by omega) (fun _ => by omega)]
    by_cases h52 : q < 2 ^ 52
    · have he' : e = -1024 := by rcases hqlo with h | h <;> omega
      subst he'
      have h2 : ¬ ((-1023 : Int) > 1023) := by decide
      have z1 : ((-1024 : Int) + 1024).toNat = 0 := rfl
      have z2 : ((-1023 : Int) + 1023).toNat = 0 := rfl
      simp only [h52, if_true, h2, if_false, z1, z2, Nat.zero_mul, Nat.zero_add, Nat.add_zero]
      have hlt : ¬ q ≥ 0x7FF0000000000000 := by omega
      simp only [hlt, if_false]
      rw [Nat.mod_eq_of_lt h52]
      have hne : UInt64.ofNat q ≠ posInf := by
        rw [hinf]; intro h
        have := congrArg UInt64.toNat h
        rw [UInt64.toNat_ofNat', UInt64.toNat_ofNat', Nat.mod_eq_of_lt (by omega), Nat.mod_eq_of_lt (by decide)] at this
        omega
      simp only [hne, if_false]
    · simp only [h52, if_false]
      by_cases hov : e + 2 > 1023
      · have : (e + 1024).toNat * 2 ^ 52 + q ≥ 0x7FF0000000000000 := by omega
        simp only [hov, if_true, this]
      · have hlt : ¬ (e + 1024).toNat * 2 ^ 52 + q ≥ 0x7FF0000000000000 := by omega
        simp only [hov, if_false, hlt]
        have hb : q % 2 ^ 52 + (e + 2 + 1023).toNat * 2 ^ 52 = (e + 1024).toNat * 2 ^ 52 + q := by omega
        rw [hb]
        have hne : UInt64.ofNat ((e + 1024).toNat * 2 ^ 52 + q) ≠ posInf := by
          rw [hinf]; intro h
          have := congrArg UInt64.toNat h
          rw [UInt64.toNat_ofNat', UInt64.toNat_ofNat', Nat.mod_eq_of_lt (by omega), Nat.mod_eq_of_lt (by decide)] at this
          omega
        simp only [hne, if_false]

/-- the vanishing case: one sticky bit left far below the denormal range -/
theorem finish_tiny (V : ℚ) (n d : Nat) (hn : 0 < n) (hd : 0 < d) (hV : (n : ℚ) / d = V)
    (e : Int) (neg : Bool) (hs : Stick 1 (scaleAt V e)) (he : e < -1024) :
    hexFinish 1 e neg =
      ⟨signed neg (roundMag n d), if roundMag n d = posInf then some .range else none⟩ := by
  obtain ⟨_, _, b3, b4⟩ := stick_bounds 1 _ hs
  have hx2 := b3 (Nat.le_refl 1)
  have hx0 := b4 (by decide)
  -- (n/d)·2^1074 = x · 2^(e+1022) < 1/4
  have hval : (n : ℚ) / d * (2 : ℚ) ^ (1074 : Int) = scaleAt V e * (2 : ℚ) ^ (e + 1022) := by
    rw [hV]; unfold scaleAt
    rw [mul_assoc, ← zpow_add₀ (by norm_num : (2 : ℚ) ≠ 0)]
    congr 2; omega
  have hsmall : (2 : ℚ) ^ (e + 1022) ≤ 2 ^ (-3 : Int) := zpow_le_zpow_right₀ (by norm_num) (by omega)
  have hlt : (n : ℚ) / d * (2 : ℚ) ^ (1074 : Int) < 1 / 4 := by
    rw [hval]
    have h8 : (2 : ℚ) ^ (-3 : Int) = 1 / 8 := by norm_num
    have hp : (0 : ℚ) < (2 : ℚ) ^ (e + 1022) := two_zpow_pos _
    calc scaleAt V e * (2 : ℚ) ^ (e + 1022) < 2 * (2 : ℚ) ^ (e + 1022) := mul_lt_mul_of_pos_right hx2 hp
      _ ≤ 2 * (1 / 8) := by rw [← h8]; linarith
      _ = 1 / 4 := by norm_num
  have hshift : shiftOf n d = 1074 := by
    apply shiftOf_uniqueQ n d hn hd 1074 (by omega)
    · linarith [show (1 : ℚ) / 4 < 2 ^ 53 by norm_num]
    · intro h; omega
  have hsc : 4 * (scaled n d 1074).1 < (scaled n d 1074).2 := by
    have hp : (0 : ℚ) < ((scaled n d 1074).2 : ℚ) := by exact_mod_cast scaled_snd_pos n _ hd
    have := scaled_ratio n d 1074
    rw [← this, div_lt_iff₀ hp] at hlt
    have : (4 * (scaled n d 1074).1 : ℚ) < (scaled n d 1074).2 := by linarith
    exact_mod_cast this
  have hrne : rne (scaled n d 1074).1 (scaled n d 1074).2 = 0 := by
    rw [rne_def]
    have hdiv : (scaled n d 1074).1 / (scaled n d 1074).2 = 0 := Nat.div_eq_of_lt (by omega)
    have hmod : (scaled n d 1074).1 % (scaled n d 1074).2 = (scaled n d 1074).1 := Nat.mod_eq_of_lt (by omega)
    rw [hdiv, hmod]
    have : ¬ (2 * (scaled n d 1074).1 > (scaled n d 1074).2 ∨ 2 * (scaled n d 1074).1 = (scaled n d 1074).2 ∧ 0 % 2 = 1) := by omega
    rw [if_neg this]
  have hmag : magBits n d = 0 := by
    unfold magBits; rw [hshift, hrne]; rfl
  rw [roundMag_eq n d hn hd, hmag, hexFinish_split, roundStep_eq 1 e (by decide)]
  have hq : (1 / 4 + (if 1 % 4 = 3 ∨ (1 % 4 = 2 ∧ (1 / 4) % 2 = 1) then 1 else 0) : Nat) = 0 := by decide
  rw [hq]
  have h53 : ¬ ((0 : Nat) = 2 ^ 53) := by decide
  rw [if_neg h53]
  show hexPack 0 (e + 2) neg = _
  rw [hexPack_eq 0 (e + 2) neg (by decide) (fun h => by simp at h)]
  have h1 : (0 : Nat) < 2 ^ 52 := by decide
  have h2 : ¬ ((-1023 : Int) > 1023) := by decide
  have h3 : ¬ ((0 : Nat) ≥ 0x7FF0000000000000) := by decide
  have z2 : ((-1023 : Int) + 1023).toNat = 0 := rfl
  have hne : UInt64.ofNat 0 ≠ posInf := by decide
  simp only [h1, if_true, h2, if_false, h3, z2, Nat.zero_mod, Nat.zero_mul, Nat.add_zero, hne]

theorem hexLoops_zero (e : Int) :
    hexNormUp 64 0 e = (0, e) ∧ hexNormDown 64 0 e = (0, e) ∧ hexDenorm (-1022) 64 0 e = (0, e) := by
  refine ⟨?_, ?_, ?_⟩
  · rw [show (64 : Nat) = 63 + 1 from rfl, normUp_succ]; simp
  · rw [show (64 : Nat) = 63 + 1 from rfl, normDown_succ]; simp
  · rw [show (64 : Nat) = 63 + 1 from rfl, denorm_succ]; simp

/-- from a sticky representation with at least 55 significant bits on: right shift with sticky
bit, denormalisation, rounding, assembly -/
theorem hex_core (V : ℚ) (n d : Nat) (hn : 0 < n) (hd : 0 < d) (hV : (n : ℚ) / d = V)
    (m1 : Nat) (e1 : Int) (neg : Bool) (hs1 : Stick m1 (scaleAt V e1)) (u4 : 2 ^ 54 ≤ m1) (h64 : m1 < 2 ^ 64) :
    hexFinish (hexDenorm (-1022) 64 (hexNormDown 64 m1 e1).1 (hexNormDown 64 m1 e1).2).1
              (hexDenorm (-1022) 64 (hexNormDown 64 m1 e1).1 (hexNormDown 64 m1 e1).2).2 neg =
      ⟨signed neg (roundMag n d), if roundMag n d = posInf then some .range else none⟩ := by
  have hb1 : m1 < 2 ^ (55 + 64) := by
    have : (2 : Nat) ^ 64 ≤ 2 ^ (55 + 64) := Nat.pow_le_pow_right (by decide) (by decide)
    omega
  obtain ⟨d1, d2, d3, d4⟩ := normDown_spec V 64 m1 e1 hs1 hb1
  have d3' := d3 u4
  have d4' := d4 (by omega)
  generalize hexNormDown 64 m1 e1 = p2 at *
  obtain ⟨f1, f2, f3, f4⟩ := denorm_spec V 64 p2.1 p2.2 d1 (by
    have : (2 : Nat) ^ 55 ≤ 2 ^ 64 := by decide
    omega)
  have f3' := f3 d4'
  rcases f4 with ⟨g1, g2⟩ | ⟨g1, g2⟩ | ⟨g1, g2, g3⟩
  · rw [g1]
    have : -1024 ≤ p2.2 := by rcases g2 with h | h <;> omega
    exact finish_main V _ _ hn hd hV p2.1 p2.2 neg d1 d2 this (Or.inl d3')
  · generalize hexDenorm (-1022) 64 p2.1 p2.2 = p3 at *
    exact finish_main V _ _ hn hd hV p3.1 p3.2 neg f1 (by omega) (by omega) (Or.inr g2)
  · generalize hexDenorm (-1022) 64 p2.1 p2.2 = p3 at *
    have : p3.1 = 1 := by omega
    rw [this] at f1 ⊢
    exact finish_tiny V _ _ hn hd hV p3.2 neg f1 (by omega)

/-- **`atofHex` is one correct rounding** of mantissa·2^exp (no truncated digits): the value is
`roundMag` of the exact fraction with the sign attached, and the range error is reported
exactly when that rounding saturates to infinity. -/
theorem atofHex_correct (m0 : Nat) (e0 : Int) (neg : Bool) (hm0 : m0 < 2 ^ 64) :
    atofHex m0 e0 neg false =
      if m0 = 0 then ⟨F64.zero neg, none⟩
      else ⟨signed neg (roundMag (toFrac m0 e0).1 (toFrac m0 e0).2),
            if roundMag (toFrac m0 e0).1 (toFrac m0 e0).2 = posInf then some .range else none⟩ := by
  rw [atofHex_eq]
  by_cases h0 : m0 = 0
  · subst h0
    obtain ⟨a, b, c⟩ := hexLoops_zero (e0 + 52)
    rw [a]; simp only []
    rw [(hexLoops_zero (e0 + 52)).2.1, (hexLoops_zero (e0 + 52)).2.2]
    simp only [if_true]
    rw [hexFinish_split, roundStep_eq 0 _ (by decide)]
    have hq : (0 / 4 + (if 0 % 4 = 3 ∨ (0 % 4 = 2 ∧ (0 / 4) % 2 = 1) then 1 else 0) : Nat) = 0 := by decide
    rw [hq]
    have h53 : ¬ ((0 : Nat) = 2 ^ 53) := by decide
    rw [if_neg h53]
    show hexPack 0 (e0 + 52 + 2) neg = _
    rw [hexPack_eq 0 _ neg (by decide) (fun h => by simp at h)]
    have h1 : (0 : Nat) < 2 ^ 52 := by decide
    have h2 : ¬ ((-1023 : Int) > 1023) := by decide
    have z2 : ((-1023 : Int) + 1023).toNat = 0 := rfl
    simp only [h1, if_true, h2, if_false, z2, Nat.zero_mod, Nat.zero_mul, Nat.add_zero]
    cases neg <;> rfl
  · rw [if_neg h0]
    have hpos : 0 < m0 := Nat.pos_of_ne_zero h0
    let V : ℚ := (m0 : ℚ) * (2 : ℚ) ^ e0
    have hV : (((toFrac m0 e0).1 : Nat) : ℚ) / ((toFrac m0 e0).2 : Nat) = V := toFrac_ratio m0 e0
    have hd : 0 < (toFrac m0 e0).2 := toFrac_snd_pos _ _
    have hVpos : 0 < V := mul_pos (by exact_mod_cast hpos) (two_zpow_pos _)
    have hn : 0 < (toFrac m0 e0).1 := by
      rcases Nat.eq_zero_or_pos (toFrac m0 e0).1 with h | h
      · rw [h] at hV; simp at hV; linarith
      · exact h
    -- start: exact
    have hstart : scaleAt V (e0 + 52) = (m0 : ℚ) := by
      show (m0 : ℚ) * (2 : ℚ) ^ e0 * (2 : ℚ) ^ (52 - (e0 + 52)) = m0
      rw [mul_assoc, ← zpow_add₀ (by norm_num : (2 : ℚ) ≠ 0)]
      have : e0 + (52 - (e0 + 52)) = 0 := by omega
      rw [this]; simp
    obtain ⟨u1, _, u3⟩ := normUp_spec V 64 m0 (e0 + 52) hstart (Or.inr (by
      have : (2 : Nat) ^ 54 ≤ 1 * 2 ^ 64 := by decide
      exact Nat.le_trans this (Nat.mul_le_mul_right _ hpos)))
    obtain ⟨u4, u5⟩ := u3 hpos
    generalize hexNormUp 64 m0 (e0 + 52) = p1 at *
    have hs1 : Stick p1.1 (scaleAt V p1.2) := by rw [u1]; exact stick_exact _
    have hb1 : p1.1 < 2 ^ 64 := by
      have : (2 : Nat) ^ 55 ≤ 2 ^ 64 := by decide
      rcases u5 with h | h <;> omega
    exact hex_core V _ _ hn hd hV p1.1 p1.2 neg hs1 u4 hb1

/-! ### Part G: truncated hex mantissas (`trunc = true`) -/

theorem atofHex_eq_trunc (m0 : Nat) (e0 : Int) (neg : Bool) :
    atofHex m0 e0 neg true =
      hexFinish (hexDenorm (-1022) 64 (hexNormDown 64 ((hexNormUp 64 m0 (e0 + 52)).1 ||| 1) (hexNormUp 64 m0 (e0 + 52)).2).1
                    (hexNormDown 64 ((hexNormUp 64 m0 (e0 + 52)).1 ||| 1) (hexNormUp 64 m0 (e0 + 52)).2).2).1
                (hexDenorm (-1022) 64 (hexNormDown 64 ((hexNormUp 64 m0 (e0 + 52)).1 ||| 1) (hexNormUp 64 m0 (e0 + 52)).2).1
                    (hexNormDown 64 ((hexNormUp 64 m0 (e0 + 52)).1 ||| 1) (hexNormUp 64 m0 (e0 + 52)).2).2).2 neg := by
  unfold atofHex
  simp only [if_true, show ((-1023 : Int) + 1) = -1022 from rfl]
  rfl

/-- `mantissa |= 1` turns "strictly between m and m+1" into the sticky representation -/
theorem stick_or_one (m : Nat) (x : ℚ) (l : (m : ℚ) < x) (u : x < m + 1) : Stick (m ||| 1) x := by
  rw [or_one]
  rcases Nat.mod_two_eq_zero_or_one m with h | h
  · rw [h]
    have : m + 1 - 0 = m + 1 := by omega
    rw [this]
    refine ⟨fun h' => by omega, fun _ => ?_⟩
    push_cast; constructor <;> linarith
  · rw [h]
    have : m + 1 - 1 = m := by omega
    rw [this]
    refine ⟨fun h' => by omega, fun _ => ?_⟩
    constructor <;> linarith

/-- **`atofHex` with `trunc = true`**: when the true value V lies strictly between the kept
64-bit mantissa m0 and m0 + 1 (in units of 2^exp) and m0 has at least 55 bits, the result is
the correct rounding of V. -/
theorem atofHex_trunc_correct (V : ℚ) (n d : Nat) (hn : 0 < n) (hd : 0 < d) (hV : (n : ℚ) / d = V)
    (m0 : Nat) (e0 : Int) (neg : Bool) (h54 : 2 ^ 54 ≤ m0) (h64 : m0 < 2 ^ 64)
    (l : (m0 : ℚ) < scaleAt V (e0 + 52)) (u : scaleAt V (e0 + 52) < m0 + 1) :
    atofHex m0 e0 neg true =
      ⟨signed neg (roundMag n d), if roundMag n d = posInf then some .range else none⟩ := by
  rw [atofHex_eq_trunc]
  have hup : hexNormUp 64 m0 (e0 + 52) = (m0, e0 + 52) := by
    rw [show (64 : Nat) = 63 + 1 from rfl, normUp_succ]
    have : ¬ (m0 ≠ 0 ∧ m0 < 2 ^ 54) := by omega
    rw [if_neg this]
  rw [hup]
  simp only []
  have hs := stick_or_one m0 _ l u
  have hor : m0 ||| 1 = m0 + 1 - m0 % 2 := or_one m0
  exact hex_core V n d hn hd hV (m0 ||| 1) (e0 + 52) neg hs (by omega) (by omega)

end C03
