/-
Specification of the shortest decimal that reads back (`strconv.FormatFloat(x, 'g'/'e', -1, 64)`,
i.e. `%v`): the least digit count n for which some n-digit decimal lies in the rounding interval
of x, and among those the closest to x. Every such decimal parses back to x.
-/
import Proofs.Lemmas.F64Dec
import Mathlib.Algebra.Order.Archimedean.Basic
import Mathlib.Data.Finset.Max
import Mathlib.Data.Finset.Prod
import Mathlib.Data.Int.Interval
import Mathlib.Algebra.Order.Round
import Mathlib.Data.Rat.Floor

namespace F64

/-- some decimal with at most n significant digits lies in the rounding interval of |x| -/
def HasDecimal (x : Bits) (n : Nat) : Prop :=
  ∃ (m : Nat) (e : Int), m < 10 ^ n ∧ InRound (abs x) ((m : ℚ) * (10 : ℚ) ^ e)

/-- every dyadic rational is a finite decimal: `M·2^e = (M·5^k)·10^-k` for e = −k -/
theorem val_is_decimal (x : Bits) : ∃ (m : Nat) (e : Int), val x = (m : ℚ) * (10 : ℚ) ^ e := by
  rcases Int.le_total 0 (expo x) with h | h
  · obtain ⟨k, hk⟩ := Int.eq_ofNat_of_zero_le h
    refine ⟨mant x * 2 ^ k, 0, ?_⟩
    unfold val; rw [hk, zpow_natCast]; simp
  · obtain ⟨k, hk⟩ := Int.eq_ofNat_of_zero_le (by omega : 0 ≤ -expo x)
    have he : expo x = -(k : Int) := by omega
    refine ⟨mant x * 5 ^ k, -(k : Int), ?_⟩
    unfold val; rw [he, zpow_neg, zpow_neg, zpow_natCast, zpow_natCast]
    have h10 : (10 : ℚ) ^ k = 2 ^ k * 5 ^ k := by rw [← mul_pow]; norm_num
    have h2 : (2 : ℚ) ^ k ≠ 0 := pow_ne_zero _ (by norm_num)
    have h5 : (5 : ℚ) ^ k ≠ 0 := pow_ne_zero _ (by norm_num)
    rw [h10]; push_cast; field_simp

theorem exists_hasDecimal (x : Bits) (hx : isFinite x = true) (zx : isZero x = false) :
    ∃ n, HasDecimal x n := by
  have hp := posFin_abs x hx zx
  obtain ⟨m, e, h⟩ := val_is_decimal (abs x)
  refine ⟨m + 1, m, e, ?_, ?_⟩
  · exact lt_of_lt_of_le (Nat.lt_succ_self m) (Nat.lt_pow_self (by decide)).le
  · rw [← h]; exact inRound_self (abs x) hp

open Classical in
/-- **shortestLen** — the number of significant digits of the shortest decimal representation that
reads back (0 for patterns that have none: zeros, infinities, NaN) -/
noncomputable def shortestLen (x : Bits) : Nat :=
  if h : ∃ n, HasDecimal x n then Nat.find h else 0

/-- **IsShortestDecimal x m e** — `m·10^e` is a shortest decimal for |x|: it has at most
`shortestLen x` digits, lies in the rounding interval, and no decimal of that length in the interval
is closer to |x|. (`F64.shortestDigits` as a relation: ties between equally close candidates are
left to the implementation.) -/
def IsShortestDecimal (x : Bits) (m : Nat) (e : Int) : Prop :=
  m < 10 ^ shortestLen x ∧ InRound (abs x) ((m : ℚ) * (10 : ℚ) ^ e) ∧
  ∀ (m' : Nat) (e' : Int), m' < 10 ^ shortestLen x → InRound (abs x) ((m' : ℚ) * (10 : ℚ) ^ e') →
    |(m : ℚ) * (10 : ℚ) ^ e - val x| ≤ |(m' : ℚ) * (10 : ℚ) ^ e' - val x|

theorem shortestLen_spec (x : Bits) (hx : isFinite x = true) (zx : isZero x = false) :
    HasDecimal x (shortestLen x) ∧ ∀ n, n < shortestLen x → ¬ HasDecimal x n := by
  classical
  have h := exists_hasDecimal x hx zx
  unfold shortestLen
  rw [dif_pos h]
  exact ⟨Nat.find_spec h, fun n hn => Nat.find_min h hn⟩

theorem shortestLen_pos (x : Bits) (hx : isFinite x = true) (zx : isZero x = false) :
    0 < shortestLen x := by
  obtain ⟨⟨m, e, hm, hin⟩, _⟩ := shortestLen_spec x hx zx
  rcases Nat.eq_zero_or_pos (shortestLen x) with h0 | h0
  · rw [h0] at hm
    have : m = 0 := by omega
    subst this
    have := inRound_pos (abs x) (posFin_abs x hx zx) _ hin
    simp at this
  · exact h0

/-- **shortest_reads_back** — any numeral denoting a shortest decimal of x (with the sign of x)
parses back to x. Only membership in the rounding interval is used, so the same holds for every
longer decimal in the interval (e.g. the 17-digit `%.17g`). -/
theorem shortest_reads_back (x : Bits) (hx : isFinite x = true) (zx : isZero x = false)
    (m : Nat) (e : Int) (h : IsShortestDecimal x m e) : ofDecimal (signBit x) m e = x :=
  parse_of_inRound x hx zx m e h.2.1

/-- a shortest decimal is unique up to its distance from x: two shortest decimals are equally close -/
theorem shortest_dist_unique (x : Bits) (m1 : Nat) (e1 : Int) (m2 : Nat) (e2 : Int)
    (h1 : IsShortestDecimal x m1 e1) (h2 : IsShortestDecimal x m2 e2) :
    |(m1 : ℚ) * (10 : ℚ) ^ e1 - val x| = |(m2 : ℚ) * (10 : ℚ) ^ e2 - val x| :=
  le_antisymm (h1.2.2 m2 e2 h2.1 h2.2.1) (h2.2.2 m1 e1 h1.1 h1.2.1)

/-- different floats have different shortest decimals (injectivity of the `%v` rendering) -/
theorem shortest_injective (x y : Bits) (hx : isFinite x = true) (zx : isZero x = false)
    (hy : isFinite y = true) (zy : isZero y = false) (hs : signBit x = signBit y)
    (m : Nat) (e : Int) (h1 : IsShortestDecimal x m e) (h2 : IsShortestDecimal y m e) : x = y := by
  rw [← shortest_reads_back x hx zx m e h1, ← shortest_reads_back y hy zy m e h2, hs]

/-! ### a shortest decimal exists (the specification is not vacuous) -/

/-- crude bounds of the rounding interval: `2^expo/2 ≤ q ≤ (mant+1)·2^expo` -/
theorem inRound_bounds (x : Bits) (hx : PosFin x) (q : ℚ) (h : InRound x q) :
    (2 : ℚ) ^ (expo x) / 2 ≤ q ∧ q ≤ ((mant x : ℚ) + 1) * (2 : ℚ) ^ (expo x) := by
  obtain ⟨hlo, hhi⟩ := h
  have two_ne : (2 : ℚ) ≠ 0 := by norm_num
  have hp := two_zpow_pos (expo x)
  have hM1 : (1 : ℚ) ≤ mant x := by exact_mod_cast hx.mant_pos
  have hgap : lowGap x ≤ 1 / 2 := by unfold lowGap; split <;> norm_num
  have e1 : (2 : ℚ) ^ (-expo x) * (2 : ℚ) ^ (expo x) = 1 := by
    rw [← zpow_add₀ two_ne, neg_add_cancel, zpow_zero]
  have hq : q = q * (2 : ℚ) ^ (-expo x) * (2 : ℚ) ^ (expo x) := by
    rw [mul_assoc, e1, _root_.mul_one]
  generalize q * (2 : ℚ) ^ (-expo x) = r at hlo hhi hq
  have h1 : (1 : ℚ) / 2 ≤ r := by
    rcases hlo with h | h
    · linarith
    · linarith [h.1]
  have h2 : r ≤ (mant x : ℚ) + 1 := by
    rcases hhi with h | h
    · linarith
    · linarith [h.1]
  rw [hq]
  constructor
  · have := mul_le_mul_of_nonneg_right h1 hp.le; linarith
  · exact mul_le_mul_of_nonneg_right h2 hp.le

/-- **exists_isShortest** — every finite non-zero float has a shortest decimal. -/
theorem exists_isShortest (x : Bits) (hx : isFinite x = true) (zx : isZero x = false) :
    ∃ (m : Nat) (e : Int), IsShortestDecimal x m e := by
  classical
  have hp := posFin_abs x hx zx
  obtain ⟨⟨m0, e0, hm0, hin0⟩, _⟩ := shortestLen_spec x hx zx
  set L := shortestLen x with hL
  have hlo : (0 : ℚ) < (2 : ℚ) ^ (expo (abs x)) / 2 := by have := two_zpow_pos (expo (abs x)); linarith
  obtain ⟨N1, hN1⟩ := pow_unbounded_of_one_lt (((mant (abs x) : ℚ) + 1) * (2 : ℚ) ^ (expo (abs x)))
    (by norm_num : (1 : ℚ) < 10)
  obtain ⟨N0, hN0⟩ := exists_pow_lt_of_lt_one hlo (by norm_num : (1 / 10 : ℚ) < 1)
  -- every candidate has its exponent in a fixed finite window
  have window : ∀ (m : Nat) (e : Int), m < 10 ^ L → InRound (abs x) ((m : ℚ) * (10 : ℚ) ^ e) →
      -(N0 : Int) - L < e ∧ e < N1 := by
    intro m e hm hin
    obtain ⟨b1, b2⟩ := inRound_bounds (abs x) hp _ hin
    have hqpos := inRound_pos (abs x) hp _ hin
    have h10 := ten_zpow_pos e
    have hmpos : 0 < m := by
      rcases Nat.eq_zero_or_pos m with h0 | h0
      · subst h0; simp at hqpos
      · exact h0
    have hm1 : (1 : ℚ) ≤ m := by exact_mod_cast hmpos
    have hmL : (m : ℚ) < (10 : ℚ) ^ (L : Int) := by
      rw [zpow_natCast]; exact_mod_cast hm
    constructor
    · -- 10^-N0 < lo ≤ q < 10^(L+e)
      have h1 : (10 : ℚ) ^ (-(N0 : Int)) < (10 : ℚ) ^ ((L : Int) + e) := by
        have e1 : (10 : ℚ) ^ (-(N0 : Int)) = (1 / 10 : ℚ) ^ N0 := by
          rw [zpow_neg, zpow_natCast, one_div, inv_pow]
        rw [e1, zpow_add₀ (by norm_num : (10 : ℚ) ≠ 0)]
        have := mul_lt_mul_of_pos_right hmL h10
        linarith
      have := (zpow_lt_zpow_iff_right₀ (by norm_num : (1 : ℚ) < 10)).mp h1
      omega
    · have h1 : (10 : ℚ) ^ e < (10 : ℚ) ^ (N1 : Int) := by
        rw [zpow_natCast]
        have := mul_le_mul_of_nonneg_right hm1 h10.le
        linarith
      exact (zpow_lt_zpow_iff_right₀ (by norm_num : (1 : ℚ) < 10)).mp h1
  let F : Finset (Nat × Int) :=
    ((Finset.range (10 ^ L)) ×ˢ (Finset.Ioo (-(N0 : Int) - L) (N1 : Int))).filter
      (fun p => InRound (abs x) ((p.1 : ℚ) * (10 : ℚ) ^ p.2))
  have memF : ∀ (m : Nat) (e : Int), (m, e) ∈ F ↔
      (m < 10 ^ L ∧ InRound (abs x) ((m : ℚ) * (10 : ℚ) ^ e)) := by
    intro m e
    simp only [F, Finset.mem_filter, Finset.mem_product, Finset.mem_range, Finset.mem_Ioo]
    constructor
    · rintro ⟨⟨h1, _⟩, h2⟩; exact ⟨h1, h2⟩
    · rintro ⟨h1, h2⟩; exact ⟨⟨h1, window m e h1 h2⟩, h2⟩
  have hne : F.Nonempty := ⟨(m0, e0), (memF m0 e0).mpr ⟨hm0, hin0⟩⟩
  obtain ⟨⟨m, e⟩, hmem, hmin⟩ := Finset.exists_min_image F
    (fun p => |(p.1 : ℚ) * (10 : ℚ) ^ p.2 - val x|) hne
  obtain ⟨h1, h2⟩ := (memF m e).mp hmem
  exact ⟨m, e, h1, h2, fun m' e' hm' hin' => hmin (m', e') ((memF m' e').mpr ⟨hm', hin'⟩)⟩

/-! ### seventeen significant digits always suffice -/

/-- **hasDecimal_17** — some decimal with at most 17 significant digits lies in the rounding interval
(the classical bound for binary64, from 10^16 > 2^53). -/
theorem hasDecimal_17 (x : Bits) (hx : isFinite x = true) (zx : isZero x = false) : HasDecimal x 17 := by
  have hp := posFin_abs x hx zx
  unfold HasDecimal
  generalize abs x = y at hp ⊢
  have two_ne : (2 : ℚ) ≠ 0 := by norm_num
  have ten_ne : (10 : ℚ) ≠ 0 := by norm_num
  have hv : 0 < val y := val_pos_of_nonzero hp.isZero
  obtain ⟨n, hn1, hn2⟩ := exists_mem_Ico_zpow hv (by norm_num : (1 : ℚ) < 10)
  -- t = n − 16: 10^(t+16) ≤ v < 10^(t+17)
  have ht : (0 : ℚ) < (10 : ℚ) ^ (n - 16) := ten_zpow_pos _
  have e16 : (10 : ℚ) ^ n = (10 : ℚ) ^ (n - 16) * 10 ^ 16 := by
    rw [← zpow_natCast (10 : ℚ) 16, ← zpow_add₀ ten_ne]; congr 1; omega
  have e17 : (10 : ℚ) ^ (n + 1) = (10 : ℚ) ^ (n - 16) * 10 ^ 17 := by
    rw [← zpow_natCast (10 : ℚ) 17, ← zpow_add₀ ten_ne]; congr 1; omega
  rw [e16] at hn1; rw [e17] at hn2
  generalize hT : (10 : ℚ) ^ (n - 16) = T at ht hn1 hn2 e16 e17
  -- w = v / T ∈ [10^16, 10^17), r = round w
  have hw1 : (10 : ℚ) ^ 16 ≤ val y / T := by rw [le_div_iff₀ ht]; linarith
  have hw2 : val y / T < (10 : ℚ) ^ 17 := by rw [div_lt_iff₀ ht]; linarith
  have hr := abs_sub_round (val y / T)
  rw [abs_le] at hr
  have hr1 : (10 : ℤ) ^ 16 ≤ round (val y / T) := by
    have : ((10 : ℤ) ^ 16 - 1 : ℤ) < round (val y / T) := by
      have : (((10 : ℤ) ^ 16 - 1 : ℤ) : ℚ) < ((round (val y / T) : ℤ) : ℚ) := by
        push_cast; linarith [hr.2]
      exact_mod_cast this
    omega
  have hr2 : round (val y / T) ≤ (10 : ℤ) ^ 17 := by
    have : round (val y / T) < (10 : ℤ) ^ 17 + 1 := by
      have : ((round (val y / T) : ℤ) : ℚ) < (((10 : ℤ) ^ 17 + 1 : ℤ) : ℚ) := by
        push_cast; linarith [hr.1]
      exact_mod_cast this
    omega
  obtain ⟨m, hm⟩ := Int.eq_ofNat_of_zero_le (by omega : 0 ≤ round (val y / T))
  have hmq : ((round (val y / T) : ℤ) : ℚ) = (m : ℚ) := by rw [hm]; simp
  rw [hmq] at hr
  have hm1 : 10 ^ 16 ≤ m := by rw [hm] at hr1; exact_mod_cast hr1
  have hm2 : m ≤ 10 ^ 17 := by rw [hm] at hr2; exact_mod_cast hr2
  -- distance of m·T from v
  have hdist : |(m : ℚ) * T - val y| ≤ T / 2 := by
    have e : (m : ℚ) * T - val y = -((val y / T - m) * T) := by field_simp; ring
    rw [e, _root_.abs_neg, abs_mul, abs_of_pos ht]
    have : |val y / T - (m : ℚ)| ≤ 1 / 2 := abs_le.mpr hr
    have := mul_le_mul_of_nonneg_right this ht.le
    linarith
  -- T/2 is below half the lower gap
  have hM := mant_lt y
  have hMq : (mant y : ℚ) < 2 ^ 53 := by exact_mod_cast hM
  have hpe := two_zpow_pos (expo y)
  have hbig : (2 : ℚ) ^ 53 < 10 ^ 16 := by norm_num
  have hgap : T / 2 < lowGap y * (2 : ℚ) ^ (expo y) := by
    unfold lowGap
    split
    · rename_i hc
      have hMe : (mant y : ℚ) = 2 ^ 52 := by rw [hc.1]; norm_num
      have hvy : val y = 2 ^ 52 * (2 : ℚ) ^ (expo y) := by unfold val; rw [hMe]
      rw [hvy] at hn1
      nlinarith
    · have hvy : val y < 2 ^ 53 * (2 : ℚ) ^ (expo y) := by
        unfold val; exact mul_lt_mul_of_pos_right hMq hpe
      nlinarith
  have hin : InRound y ((m : ℚ) * T) := inRound_of_abs_lt y _ (lt_of_le_of_lt hdist hgap)
  rcases Nat.lt_or_eq_of_le hm2 with hlt | heq
  · exact ⟨m, n - 16, hlt, by rw [hT]; exact hin⟩
  · refine ⟨10 ^ 16, n - 16 + 1, by norm_num, ?_⟩
    have : ((10 ^ 16 : Nat) : ℚ) * (10 : ℚ) ^ (n - 16 + 1) = (m : ℚ) * T := by
      rw [heq, zpow_add_one₀ ten_ne, hT]; push_cast; ring
    rw [this]; exact hin

open Classical in
/-- **shortestLen_le_17** -/
theorem shortestLen_le_17 (x : Bits) (hx : isFinite x = true) (zx : isZero x = false) :
    shortestLen x ≤ 17 := by
  have h := exists_hasDecimal x hx zx
  unfold shortestLen
  rw [dif_pos h]
  exact Nat.find_min' h (hasDecimal_17 x hx zx)

end F64
