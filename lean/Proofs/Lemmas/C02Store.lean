/-
C02 helper lemmas: the configuration slot store (`Fmt.Store`) against its invariant.
-/
import Model.Fmt.Result

namespace Fmt

/-! ### The index map -/

theorem Index.get_erase (m : Index) (k k' : Bytes) :
    (Index.erase m k).get k' = if k' = k then none else m.get k' := by
  induction m with
  | nil => simp [Index.erase, Index.get]
  | cons e es ih =>
    obtain ⟨a, b⟩ := e
    simp only [Index.erase, Index.get] at ih ⊢
    by_cases hak : a = k
    · subst hak
      simp only [List.filter_cons, beq_self_eq_true, Bool.not_true, Bool.false_eq_true, ↓reduceIte]
      rw [ih]
      by_cases hk : k' = a
      · simp [hk]
      · have hb : (k' == a) = false := by simpa using hk
        simp [hk, List.lookup_cons, hb]
    · have : (a == k) = false := by simpa using hak
      simp only [List.filter_cons, this, Bool.not_false, ↓reduceIte, List.lookup_cons]
      by_cases hk : k' = a
      · subst hk; simp [hak]
      · have hb : (k' == a) = false := by simpa using hk
        simp only [hb]; exact ih

theorem Index.get_set (m : Index) (k k' : Bytes) (v : Nat) :
    (Index.set m k v).get k' = if k' = k then some v else m.get k' := by
  have h := Index.get_erase m k k'
  simp only [Index.set, Index.get, List.lookup_cons] at h ⊢
  by_cases hk : k' = k
  · subst hk; simp
  · have : (k' == k) = false := by simpa using hk
    simp only [this, hk, ↓reduceIte] at h ⊢
    exact h

/-! ### Invariant -/

/-- `configPos` is exactly the inverse of the live slots `arr[0..len)`, which lie inside the
backing array. (Distinctness of the live keys follows, see `Inv.keys_inj`.) -/
structure Store.Inv (s : Store) : Prop where
  len_le : s.len ≤ s.arr.length
  idx : ∀ k i, s.index.get k = some i ↔ (i < s.len ∧ (s.arr[i]?).map Cfg.key = some k)

theorem Store.Inv.keys_inj {s : Store} (h : s.Inv) {i j : Nat} {k : Bytes}
    (hi : i < s.len) (hj : j < s.len)
    (hik : (s.arr[i]?).map Cfg.key = some k) (hjk : (s.arr[j]?).map Cfg.key = some k) : i = j := by
  have a := (h.idx k i).2 ⟨hi, hik⟩
  have b := (h.idx k j).2 ⟨hj, hjk⟩
  rw [a] at b; exact Option.some.inj b

theorem Store.inv_empty : Store.empty.Inv := by
  refine ⟨Nat.le_refl _, ?_⟩
  intro k i
  simp [Store.empty, Store.index, Store.live, buildIndex, buildIndexFrom, Index.get]

theorem Store.index_reset (s : Store) : s.reset.index = [] := by
  unfold Store.reset Store.index
  cases s.pos <;> simp [Store.live, buildIndex, buildIndexFrom]

theorem Store.inv_reset (s : Store) : s.reset.Inv := by
  refine ⟨Nat.zero_le _, ?_⟩
  intro k i
  rw [Store.index_reset]
  simp [Store.reset, Index.get]

/-- `get` through the index, positionally. -/
theorem Store.get_eq_some {s : Store} (h : s.Inv) (k : Bytes) (c : Cfg) :
    s.get k = some c ↔ ∃ i, i < s.len ∧ s.arr[i]? = some c ∧ c.key = k := by
  unfold Store.get Store.configIndex
  constructor
  · intro hg
    cases hp : s.index.get k with
    | none => simp [hp] at hg
    | some p =>
      simp only [hp] at hg
      have := (h.idx k p).1 hp
      refine ⟨p, this.1, hg, ?_⟩
      have h2 := this.2; rw [hg] at h2; simpa using h2
  · rintro ⟨i, hi, hc, hk⟩
    have := (h.idx k i).2 ⟨hi, by simp [hc, hk]⟩
    simp [this, hc]

theorem Store.get_eq_none {s : Store} (h : s.Inv) (k : Bytes) :
    s.get k = none ↔ ∀ i, i < s.len → (s.arr[i]?).map Cfg.key ≠ some k := by
  constructor
  · intro hg i hi hk
    have hp := (h.idx k i).2 ⟨hi, hk⟩
    unfold Store.get Store.configIndex at hg
    simp only [hp] at hg
    have : i < s.arr.length := Nat.lt_of_lt_of_le hi h.len_le
    simp [List.getElem?_eq_getElem this] at hg
  · intro hn
    unfold Store.get Store.configIndex
    cases hp : s.index.get k with
    | none => rfl
    | some p =>
      have := (h.idx k p).1 hp
      exact absurd this.2 (hn p this.1)

/-! ### ensureConfig / setValue -/

/-- A store `s'` that extends `s` by the live slot `len ↦ ⟨key, value, file⟩`. -/
theorem Store.add_core {s s' : Store} (h : s.Inv) (key value : Bytes) (file : Bool)
    (habs : ∀ i, i < s.len → (s.arr[i]?).map Cfg.key ≠ some key)
    (hlen : s'.len = s.len + 1) (hidx : s'.index = s.index.set key s.len)
    (hle' : s'.len ≤ s'.arr.length)
    (hold : ∀ j : Nat, j < s.len → s'.arr[j]? = s.arr[j]?)
    (hnew : s'.arr[s.len]? = some ⟨key, value, file⟩) :
    s'.Inv ∧ ∀ k, s'.get k = if k = key then some ⟨key, value, file⟩ else s.get k := by
  have hinv : s'.Inv := by
    refine ⟨hle', ?_⟩
    intro k i
    rw [hidx, Index.get_set, hlen]
    by_cases hk : k = key
    · subst hk
      simp only [↓reduceIte]
      constructor
      · intro e; have e := Option.some.inj e; subst e
        exact ⟨Nat.lt_succ_self _, by rw [hnew]; rfl⟩
      · rintro ⟨hi, hk⟩
        by_cases hil : i < s.len
        · rw [hold i hil] at hk; exact absurd hk (habs i hil)
        · have : i = s.len := by omega
          rw [this]
    · simp only [hk, ↓reduceIte]
      rw [h.idx k i]
      constructor
      · rintro ⟨hi, hk'⟩; exact ⟨by omega, by rw [hold i hi]; exact hk'⟩
      · rintro ⟨hi, hk'⟩
        by_cases hil : i < s.len
        · exact ⟨hil, by rw [← hold i hil]; exact hk'⟩
        · have : i = s.len := by omega
          rw [this, hnew] at hk'
          simp at hk'; exact absurd hk'.symm hk
  refine ⟨hinv, ?_⟩
  intro k
  by_cases hk : k = key
  · subst hk
    simp only [↓reduceIte]
    rw [Store.get_eq_some hinv]
    exact ⟨s.len, by omega, hnew, rfl⟩
  · simp only [hk, ↓reduceIte]
    cases hg : s.get k with
    | none =>
      rw [Store.get_eq_none hinv]; rw [Store.get_eq_none h] at hg
      intro i hi
      by_cases hil : i < s.len
      · rw [hold i hil]; exact hg i hil
      · have : i = s.len := by omega
        rw [this, hnew]; simp; exact fun e => hk e.symm
    | some c =>
      rw [Store.get_eq_some hinv]; rw [Store.get_eq_some h] at hg
      obtain ⟨i, hi, hc, hck⟩ := hg
      exact ⟨i, by omega, by rw [hold i hi]; exact hc, hck⟩

theorem Store.ensureConfig_some {s : Store} {key : Bytes} {file : Bool} {p : Nat}
    (hp : s.index.get key = some p) :
    s.ensureConfig key file =
      ({ arr := s.arr.modify p (fun c => { c with file := file }), len := s.len, pos := some s.index }, p) := by
  simp [Store.ensureConfig, hp]

theorem Store.ensureConfig_none_lt {s : Store} {key : Bytes} {file : Bool}
    (hp : s.index.get key = none) (hlt : s.len < s.arr.length) :
    s.ensureConfig key file =
      ({ arr := s.arr.modify s.len (fun c => { c with key := key, file := file }),
         len := s.len + 1, pos := some (s.index.set key s.len) }, s.len) := by
  simp [Store.ensureConfig, hp, hlt]

theorem Store.ensureConfig_none_ge {s : Store} {key : Bytes} {file : Bool}
    (hp : s.index.get key = none) (hlt : ¬ s.len < s.arr.length) :
    s.ensureConfig key file =
      ({ arr := s.arr ++ [{ key := key, value := [], file := file }],
         len := s.len + 1, pos := some (s.index.set key s.len) }, s.len) := by
  simp [Store.ensureConfig, hp, hlt]

theorem Store.set_nonempty_spec {s : Store} (h : s.Inv) (key value : Bytes) (file : Bool)
    (hv : value ≠ []) :
    (s.set key value file).Inv ∧
    ∀ k, (s.set key value file).get k =
      if k = key then some ⟨key, value, file⟩ else s.get k := by
  have hve : value.isEmpty = false := by cases value <;> simp_all
  unfold Store.set
  simp only [hve, Bool.false_eq_true, ↓reduceIte]
  cases hp : s.index.get key with
  | some p =>
    -- key present at slot p
    rw [Store.ensureConfig_some hp]
    have hpl := (h.idx key p).1 hp
    have hplt : p < s.arr.length := Nat.lt_of_lt_of_le hpl.1 h.len_le
    simp only [Store.setValue]
    -- the new store
    generalize hs' : ({ arr := (s.arr.modify p fun c => { c with file := file }).modify p
                          fun c => { c with value := value },
                        len := s.len, pos := some s.index } : Store) = s'
    have harr : ∀ j : Nat, (s'.arr[j]?).map Cfg.key = (s.arr[j]?).map Cfg.key := by
      intro j; subst hs'
      simp only [List.getElem?_modify]
      cases s.arr[j]? <;> simp
      split <;> simp
    have hidx : s'.index = s.index := by subst hs'; rfl
    have hlen : s'.len = s.len := by subst hs'; rfl
    have hinv : s'.Inv := by
      refine ⟨?_, ?_⟩
      · subst hs'; simp [List.length_modify]; exact h.len_le
      · intro k i; rw [hidx, hlen, harr]; exact h.idx k i
    refine ⟨hinv, ?_⟩
    intro k
    by_cases hk : k = key
    · subst hk
      simp only [↓reduceIte]
      rw [Store.get_eq_some hinv]
      refine ⟨p, by rw [hlen]; exact hpl.1, ?_, rfl⟩
      subst hs'
      simp only [List.getElem?_modify, ↓reduceIte]
      have hkey := hpl.2
      rw [List.getElem?_eq_getElem hplt] at hkey ⊢
      simp at hkey
      simp [hkey]
    · simp only [hk, ↓reduceIte]
      -- other keys: same slot contents
      have hslot : ∀ j : Nat, j ≠ p → s'.arr[j]? = s.arr[j]? := by
        intro j hj; subst hs'
        simp only [List.getElem?_modify]
        have : ¬ p = j := fun e => hj e.symm
        simp [this]
      cases hg : s.get k with
      | none =>
        rw [Store.get_eq_none hinv]; rw [Store.get_eq_none h] at hg
        intro i hi; rw [harr]; exact hg i (by rw [← hlen]; exact hi)
      | some c =>
        rw [Store.get_eq_some hinv]; rw [Store.get_eq_some h] at hg
        obtain ⟨i, hi, hc, hck⟩ := hg
        have hip : i ≠ p := by
          intro e; subst e
          have := hpl.2; rw [hc] at this; simp at this
          exact hk (hck.symm.trans this)
        exact ⟨i, by rw [hlen]; exact hi, by rw [hslot i hip]; exact hc, hck⟩
  | none =>
    -- key absent: a slot is (re)used at position len
    have habs : ∀ i, i < s.len → (s.arr[i]?).map Cfg.key ≠ some key := by
      intro i hi hk
      have := (h.idx key i).2 ⟨hi, hk⟩
      rw [hp] at this; simp at this
    by_cases hlt : s.len < s.arr.length
    · rw [Store.ensureConfig_none_lt hp hlt]
      simp only [Store.setValue]
      apply Store.add_core h key value file habs rfl rfl
      · simp [List.length_modify]; omega
      · intro j hj
        simp only [List.getElem?_modify]
        have : ¬ s.len = j := by omega
        simp [this]
      · simp only [List.getElem?_modify, ↓reduceIte, List.getElem?_eq_getElem hlt]
        rfl
    · have hle := h.len_le
      have heq : s.len = s.arr.length := by omega
      rw [Store.ensureConfig_none_ge hp hlt]
      simp only [Store.setValue]
      apply Store.add_core h key value file habs rfl rfl
      · simp [List.length_modify]; omega
      · intro j hj
        simp only [List.getElem?_modify, List.getElem?_append]
        have h1 : ¬ s.len = j := by omega
        have h2 : j < s.arr.length := by omega
        simp [h1, h2]
      · simp only [List.getElem?_modify, ↓reduceIte, List.getElem?_append, heq]
        simp

/-! ### deleteConfig -/

theorem Store.deleteConfig_none {s : Store} {key : Bytes} (hp : s.index.get key = none) :
    s.deleteConfig key = { s with pos := some s.index } := by
  simp [Store.deleteConfig, hp]

theorem Store.deleteConfig_some {s : Store} {key : Bytes} {p : Nat} (hp : s.index.get key = some p) :
    s.deleteConfig key =
      { arr := (s.arr.set p (s.arr.getD (s.len - 1) default)).set (s.len - 1) (s.arr.getD p default),
        len := s.len - 1,
        pos := some ((s.index.set (s.arr.getD (s.len - 1) default).key p).erase key) } := by
  simp [Store.deleteConfig, hp]

theorem Store.delete_spec {s : Store} (h : s.Inv) (key : Bytes) :
    (s.deleteConfig key).Inv ∧
    ∀ k, (s.deleteConfig key).get k = if k = key then none else s.get k := by
  cases hp : s.index.get key with
  | none =>
    rw [Store.deleteConfig_none hp]
    have hinv : ({ s with pos := some s.index } : Store).Inv := ⟨h.len_le, h.idx⟩
    refine ⟨hinv, ?_⟩
    intro k
    have hsame : ({ s with pos := some s.index } : Store).get k = s.get k := rfl
    rw [hsame]
    by_cases hk : k = key
    · subst hk
      simp only [↓reduceIte]
      unfold Store.get Store.configIndex; simp [hp]
    · simp [hk]
  | some p =>
    rw [Store.deleteConfig_some hp]
    have hpl := (h.idx key p).1 hp
    have hlen_pos : 0 < s.len := by omega
    have hlast_lt : s.len - 1 < s.arr.length := by have := h.len_le; omega
    have hp_lt : p < s.arr.length := by have := h.len_le; omega
    -- the two swapped slots
    have ha : s.arr.getD p default = s.arr[p] := by simp [List.getD_eq_getElem?_getD, List.getElem?_eq_getElem hp_lt]
    have hb : s.arr.getD (s.len - 1) default = s.arr[s.len - 1] := by
      simp [List.getD_eq_getElem?_getD, List.getElem?_eq_getElem hlast_lt]
    rw [ha, hb]
    have hakey : s.arr[p].key = key := by
      have := hpl.2; rw [List.getElem?_eq_getElem hp_lt] at this; simpa using this
    generalize hbdef : s.arr[s.len - 1] = b
    generalize hs' : ({ arr := (s.arr.set p b).set (s.len - 1) s.arr[p], len := s.len - 1,
                        pos := some ((s.index.set b.key p).erase key) } : Store) = s'
    have hlen : s'.len = s.len - 1 := by subst hs'; rfl
    have hidx : s'.index = (s.index.set b.key p).erase key := by subst hs'; rfl
    have hbslot : (s.arr[s.len - 1]?).map Cfg.key = some b.key := by
      rw [List.getElem?_eq_getElem hlast_lt, hbdef]; rfl
    -- live slots of the new store
    have hslot : ∀ i : Nat, i < s.len - 1 → s'.arr[i]? = if i = p then some b else s.arr[i]? := by
      intro i hi; subst hs'
      simp only [List.getElem?_set, List.length_set]
      have h1 : ¬ s.len - 1 = i := by omega
      simp only [h1, ↓reduceIte]
      by_cases hip : i = p
      · subst hip; simp [hp_lt]
      · have : ¬ p = i := fun e => hip e.symm
        simp [this, hip]
    have hinv : s'.Inv := by
      refine ⟨?_, ?_⟩
      · subst hs'; simp [List.length_set]; have := h.len_le; omega
      · intro k i
        rw [hidx, Index.get_erase, Index.get_set, hlen]
        by_cases hk : k = key
        · subst hk
          simp only [↓reduceIte]
          constructor
          · intro e; simp at e
          · rintro ⟨hi, hk⟩
            exfalso
            rw [hslot i hi] at hk
            by_cases hip : i = p
            · subst hip
              simp only [↓reduceIte, Option.map_some] at hk
              have hbk : b.key = k := by simpa using hk
              have : s.len - 1 = i := h.keys_inj (by omega) (by omega) (by rw [hbslot, hbk]) hpl.2
              omega
            · simp only [hip, ↓reduceIte] at hk
              exact hip (h.keys_inj (by omega) hpl.1 hk hpl.2)
        · simp only [hk, ↓reduceIte]
          by_cases hkb : k = b.key
          · subst hkb
            simp only [↓reduceIte]
            have hp_ne : p ≠ s.len - 1 := by
              intro e
              have : s.arr[p] = b := by rw [← hbdef]; congr
              rw [this] at hakey; exact hk hakey
            constructor
            · intro e; have e := Option.some.inj e; subst e
              have hi : p < s.len - 1 := by omega
              exact ⟨hi, by rw [hslot p hi]; simp⟩
            · rintro ⟨hi, hk'⟩
              rw [hslot i hi] at hk'
              by_cases hip : i = p
              · rw [hip]
              · simp only [hip, ↓reduceIte] at hk'
                have : i = s.len - 1 := h.keys_inj (by omega) (by omega) hk' hbslot
                omega
          · simp only [hkb, ↓reduceIte]
            rw [h.idx k i]
            constructor
            · rintro ⟨hi, hk'⟩
              have hil : i ≠ s.len - 1 := by
                intro e; rw [e, hbslot] at hk'; simp at hk'; exact hkb hk'.symm
              have hip : i ≠ p := by
                intro e; rw [e, hpl.2] at hk'; simp at hk'; exact hk hk'.symm
              have hi' : i < s.len - 1 := by omega
              exact ⟨hi', by rw [hslot i hi']; simp only [hip, ↓reduceIte]; exact hk'⟩
            · rintro ⟨hi, hk'⟩
              rw [hslot i hi] at hk'
              by_cases hip : i = p
              · simp only [hip, ↓reduceIte, Option.map_some] at hk'
                simp at hk'; exact absurd hk'.symm hkb
              · simp only [hip, ↓reduceIte] at hk'
                exact ⟨by omega, hk'⟩
    refine ⟨hinv, ?_⟩
    intro k
    by_cases hk : k = key
    · subst hk
      simp only [↓reduceIte]
      rw [Store.get_eq_none hinv]
      intro i hi hki
      have := (hinv.idx k i).2 ⟨hi, hki⟩
      rw [hidx, Index.get_erase] at this
      simp at this
    · simp only [hk, ↓reduceIte]
      cases hg : s.get k with
      | none =>
        rw [Store.get_eq_none hinv]; rw [Store.get_eq_none h] at hg
        intro i hi; rw [hlen] at hi
        rw [hslot i hi]
        by_cases hip : i = p
        · simp only [hip, ↓reduceIte]
          have := hg (s.len - 1) (by omega)
          rw [hbslot] at this; simpa using this
        · simp only [hip, ↓reduceIte]; exact hg i (by omega)
      | some c =>
        rw [Store.get_eq_some hinv]; rw [Store.get_eq_some h] at hg
        obtain ⟨i, hi, hc, hck⟩ := hg
        have hip : i ≠ p := by
          intro e; subst e
          have := hpl.2; rw [hc] at this; simp at this
          exact hk (hck.symm.trans this)
        by_cases hil : i = s.len - 1
        · -- c was the last slot: it moved to p
          have hcb : c = b := by
            rw [hil, List.getElem?_eq_getElem hlast_lt, hbdef] at hc; exact (Option.some.inj hc).symm
          have hp' : p < s.len - 1 := by omega
          exact ⟨p, by rw [hlen]; exact hp', by rw [hslot p hp']; simp [hcb], hck⟩
        · have hi' : i < s.len - 1 := by omega
          exact ⟨i, by rw [hlen]; exact hi', by rw [hslot i hi']; simp [hip]; exact hc, hck⟩

/-! ### Every operation -/

theorem Store.set_spec {s : Store} (h : s.Inv) (key value : Bytes) (file : Bool) :
    (s.set key value file).Inv ∧
    ∀ k, (s.set key value file).get k =
      if k = key then (if value = [] then none else some ⟨key, value, file⟩) else s.get k := by
  by_cases hv : value = []
  · subst hv
    have := Store.delete_spec h key
    simpa [Store.set] using this
  · have := Store.set_nonempty_spec h key value file hv
    simpa [hv] using this

end Fmt

namespace Fmt

/-! ### The live list as a map -/

/-- A configuration list read as a map (first entry for a key wins; under the invariant
there is only one). -/
def cfgGet (l : List Cfg) (k : Bytes) : Option (Bytes × Bool) :=
  (l.find? (fun c => c.key == k)).map (fun c => (c.value, c.file))

/-- The map a store denotes (through its index, as `GetConfig` does). -/
def Store.toMap (s : Store) (k : Bytes) : Option (Bytes × Bool) :=
  (s.get k).map (fun c => (c.value, c.file))

theorem Store.live_getElem? (s : Store) (i : Nat) :
    s.live[i]? = if i < s.len then s.arr[i]? else none := by
  simp [Store.live, List.getElem?_take]

theorem Store.mem_live_iff {s : Store} (h : s.Inv) (c : Cfg) :
    c ∈ s.live ↔ s.get c.key = some c := by
  rw [List.mem_iff_getElem?, Store.get_eq_some h]
  constructor
  · rintro ⟨i, hi⟩
    rw [Store.live_getElem?] at hi
    by_cases hl : i < s.len
    · simp only [hl, ↓reduceIte] at hi; exact ⟨i, hl, hi, rfl⟩
    · simp [hl] at hi
  · rintro ⟨i, hl, hi, _⟩
    exact ⟨i, by rw [Store.live_getElem?]; simp [hl, hi]⟩

theorem Store.live_keys_nodup {s : Store} (h : s.Inv) : (s.live.map Cfg.key).Nodup := by
  rw [List.Nodup, List.pairwise_iff_getElem]
  intro i j hi hj hij heq
  simp only [List.length_map] at hi hj
  have hli : i < s.len := by have := hi; simp [Store.live] at this; omega
  have hlj : j < s.len := by have := hj; simp [Store.live] at this; omega
  have e1 : (s.arr[i]?).map Cfg.key = some ((s.live.map Cfg.key)[i]) := by
    have := Store.live_getElem? s i
    simp only [hli, ↓reduceIte] at this
    rw [← this, List.getElem?_eq_getElem hi]; simp
  have e2 : (s.arr[j]?).map Cfg.key = some ((s.live.map Cfg.key)[i]) := by
    have := Store.live_getElem? s j
    simp only [hlj, ↓reduceIte] at this
    rw [← this, List.getElem?_eq_getElem hj, heq]; simp
  have := h.keys_inj hli hlj e1 e2
  omega

theorem Store.cfgGet_live {s : Store} (h : s.Inv) (k : Bytes) : cfgGet s.live k = s.toMap k := by
  unfold cfgGet Store.toMap
  cases hf : s.live.find? (fun c => c.key == k) with
  | some c =>
    have hm := List.mem_of_find?_eq_some hf
    have hk : c.key = k := by simpa using List.find?_some hf
    have := (Store.mem_live_iff h c).1 hm
    rw [hk] at this; rw [this]
  | none =>
    rw [List.find?_eq_none] at hf
    have : s.get k = none := by
      rw [Store.get_eq_none h]
      intro i hi hk
      have hlt : i < s.arr.length := Nat.lt_of_lt_of_le hi h.len_le
      rw [List.getElem?_eq_getElem hlt] at hk
      have hmem : s.arr[i] ∈ s.live := by
        rw [List.mem_iff_getElem?]; exact ⟨i, by rw [Store.live_getElem?]; simp [hi, hlt]⟩
      have := hf _ hmem
      simp at hk; simp [hk] at this
    rw [this]

end Fmt
