/-
C17 helper lemmas: fence loop = filter, percentile = R8 at the quartile arguments,
bounds picks elements, bounds are extremal for any order embedding.
-/
import Model.Legacy.Collection
import Model.Spec.Legacy
import Mathlib.Tactic.Linarith
import Mathlib.Algebra.Order.Field.Rat

namespace C17
open Legacy F64

theorem fenceLoop_eq (lo hi : Bits) (vs acc : List Bits) :
    fenceLoop lo hi vs acc = acc ++ vs.filter (inFence lo hi) := by
  unfold fenceLoop
  induction vs generalizing acc with
  | nil => simp
  | cons v vs ih =>
    simp only [List.foldl_cons, List.filter_cons]
    by_cases h : inFence lo hi v = true
    · simp [h, ih]
    · simp [h, ih]

theorem le_quarter_zero : le c0_25 posZero = false := by decide
theorem le_one_quarter : le one c0_25 = false := by decide
theorem le_three_quarter_zero : le c0_75 posZero = false := by decide
theorem le_one_three_quarter : le one c0_75 = false := by decide

/-- at the two arguments computeStats uses, Sample.Percentile is the R8 formula of the spec
(its clamping branches `pctile <= 0`, `pctile >= 1` are not taken) -/
theorem percentile_quarter (xs : List Bits) : percentile xs c0_25 = Spec.Legacy.r8 xs c0_25 := by
  unfold percentile Spec.Legacy.r8
  by_cases hx : xs.isEmpty = true
  · rw [if_pos hx, if_pos hx]
  · rw [if_neg hx, if_neg hx, le_quarter_zero, le_one_quarter, if_neg Bool.false_ne_true, if_neg Bool.false_ne_true]

theorem percentile_three_quarter (xs : List Bits) : percentile xs c0_75 = Spec.Legacy.r8 xs c0_75 := by
  unfold percentile Spec.Legacy.r8
  by_cases hx : xs.isEmpty = true
  · rw [if_pos hx, if_pos hx]
  · rw [if_neg hx, if_neg hx, le_three_quarter_zero, le_one_three_quarter, if_neg Bool.false_ne_true, if_neg Bool.false_ne_true]

theorem fenceOf_eq (xs : List Bits) : fenceOf xs = Spec.Legacy.fence xs := by
  unfold fenceOf Spec.Legacy.fence
  rw [percentile_quarter, percentile_three_quarter]

/-! ### bounds -/

def boundsStep (p : Bits × Bits) (x : Bits) : Bits × Bits :=
  (if lt x p.1 then x else p.1, if lt p.2 x then x else p.2)

theorem bounds_cons (x0 : Bits) (xs : List Bits) :
    bounds (x0 :: xs) = (x0 :: xs).foldl boundsStep (x0, x0) := by
  unfold bounds boundsStep
  rfl

theorem foldl_bounds_mem (xs : List Bits) (p : Bits × Bits) (S : List Bits)
    (h1 : p.1 ∈ S) (h2 : p.2 ∈ S) (hs : ∀ x ∈ xs, x ∈ S) :
    (xs.foldl boundsStep p).1 ∈ S ∧ (xs.foldl boundsStep p).2 ∈ S := by
  induction xs generalizing p with
  | nil => exact ⟨h1, h2⟩
  | cons x xs ih =>
    simp only [List.foldl_cons]
    apply ih
    · unfold boundsStep; dsimp only; split
      · exact hs x (List.mem_cons_self ..)
      · exact h1
    · unfold boundsStep; dsimp only; split
      · exact hs x (List.mem_cons_self ..)
      · exact h2
    · intro y hy; exact hs y (List.mem_cons_of_mem _ hy)

/-- with an order embedding `val` of `lt` on the values involved, the fold keeps a lower and an
upper bound of everything seen -/
theorem foldl_bounds_extremal {K : Type} [LinearOrder K] (val : Bits → K) (xs : List Bits) (p : Bits × Bits)
    (hemb : ∀ a b, lt a b = true ↔ val a < val b) :
    (val (xs.foldl boundsStep p).1 ≤ val p.1 ∧ val p.2 ≤ val (xs.foldl boundsStep p).2) ∧
    ∀ x ∈ xs, val (xs.foldl boundsStep p).1 ≤ val x ∧ val x ≤ val (xs.foldl boundsStep p).2 := by
  induction xs generalizing p with
  | nil => simp
  | cons x xs ih =>
    simp only [List.foldl_cons]
    have hstep1 : val (boundsStep p x).1 ≤ val p.1 ∧ val (boundsStep p x).1 ≤ val x := by
      unfold boundsStep; dsimp only
      by_cases h : lt x p.1 = true
      · rw [if_pos h]; exact ⟨le_of_lt ((hemb _ _).mp h), le_refl _⟩
      · rw [if_neg h]; exact ⟨le_refl _, not_lt.mp (fun hh => h ((hemb _ _).mpr hh))⟩
    have hstep2 : val p.2 ≤ val (boundsStep p x).2 ∧ val x ≤ val (boundsStep p x).2 := by
      unfold boundsStep; dsimp only
      by_cases h : lt p.2 x = true
      · rw [if_pos h]; exact ⟨le_of_lt ((hemb _ _).mp h), le_refl _⟩
      · rw [if_neg h]; exact ⟨le_refl _, not_lt.mp (fun hh => h ((hemb _ _).mpr hh))⟩
    obtain ⟨⟨a1, a2⟩, a3⟩ := ih (boundsStep p x)
    refine ⟨⟨le_trans a1 hstep1.1, le_trans hstep2.1 a2⟩, ?_⟩
    intro y hy
    rcases List.mem_cons.mp hy with rfl | hy
    · exact ⟨le_trans a1 hstep1.2, le_trans hstep2.2 a2⟩
    · exact a3 y hy

/-- the same with the embedding required only on a set `S` that contains everything involved -/
theorem foldl_bounds_extremal_on {K : Type} [LinearOrder K] (val : Bits → K) (S : List Bits)
    (hemb : ∀ a ∈ S, ∀ b ∈ S, (lt a b = true ↔ val a < val b)) (xs : List Bits) (p : Bits × Bits)
    (h1 : p.1 ∈ S) (h2 : p.2 ∈ S) (hs : ∀ x ∈ xs, x ∈ S) :
    (val (xs.foldl boundsStep p).1 ≤ val p.1 ∧ val p.2 ≤ val (xs.foldl boundsStep p).2) ∧
    ∀ x ∈ xs, val (xs.foldl boundsStep p).1 ≤ val x ∧ val x ≤ val (xs.foldl boundsStep p).2 := by
  induction xs generalizing p with
  | nil => simp
  | cons x xs ih =>
    simp only [List.foldl_cons]
    have hx : x ∈ S := hs x (List.mem_cons_self ..)
    have hstep1 : val (boundsStep p x).1 ≤ val p.1 ∧ val (boundsStep p x).1 ≤ val x ∧ (boundsStep p x).1 ∈ S := by
      unfold boundsStep; dsimp only
      by_cases h : lt x p.1 = true
      · rw [if_pos h]; exact ⟨le_of_lt ((hemb _ hx _ h1).mp h), le_refl _, hx⟩
      · rw [if_neg h]; exact ⟨le_refl _, not_lt.mp (fun hh => h ((hemb _ hx _ h1).mpr hh)), h1⟩
    have hstep2 : val p.2 ≤ val (boundsStep p x).2 ∧ val x ≤ val (boundsStep p x).2 ∧ (boundsStep p x).2 ∈ S := by
      unfold boundsStep; dsimp only
      by_cases h : lt p.2 x = true
      · rw [if_pos h]; exact ⟨le_of_lt ((hemb _ h2 _ hx).mp h), le_refl _, hx⟩
      · rw [if_neg h]; exact ⟨le_refl _, not_lt.mp (fun hh => h ((hemb _ h2 _ hx).mpr hh)), h2⟩
    obtain ⟨⟨a1, a2⟩, a3⟩ := ih (boundsStep p x) hstep1.2.2 hstep2.2.2 (fun y hy => hs y (List.mem_cons_of_mem _ hy))
    refine ⟨⟨le_trans a1 hstep1.1, le_trans hstep2.1 a2⟩, ?_⟩
    intro y hy
    rcases List.mem_cons.mp hy with rfl | hy
    · exact ⟨le_trans a1 hstep1.2.1, le_trans hstep2.2.1 a2⟩
    · exact a3 y hy

/-- sum bounds -/
theorem sum_bounds {K : Type} [Field K] [LinearOrder K] [IsStrictOrderedRing K]
    (l : List K) (a b : K) (h : ∀ x ∈ l, a ≤ x ∧ x ≤ b) :
    a * (l.length : K) ≤ l.sum ∧ l.sum ≤ b * (l.length : K) := by
  induction l with
  | nil => simp
  | cons x l ih =>
    have hx := h x (List.mem_cons_self ..)
    have := ih (fun y hy => h y (List.mem_cons_of_mem _ hy))
    simp only [List.sum_cons, List.length_cons, Nat.cast_succ]
    constructor <;> nlinarith [hx.1, hx.2, this.1, this.2]

end C17
