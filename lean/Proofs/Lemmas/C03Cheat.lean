/-
C03 — the mirrored decimal slow path, part 2: Ken's cheat table. `leftShift` knows in advance how
many digits a multiplication by 2^k adds: `leftcheats[k].delta`, one fewer when the digits are
lexicographically below `leftcheats[k].cutoff` (= the digits of 5^k).
-/
import Proofs.Lemmas.C03DecR

namespace C03
open Num Spec.NumText

/-- what the table must say for shift count k ≥ 1: delta = number of digits of 2^k, cutoff = the
decimal digits of 5^k (which end in 5), and the two lengths add up to k + 1 -/
def cheatOK (k : Nat) : Bool :=
  let e := leftcheats.getD k (0, [])
  decide (10 ^ (e.1 - 1) ≤ 2 ^ k) && decide (2 ^ k < 10 ^ e.1) && decide (1 ≤ e.1) &&
  decide (valOf 10 e.2 = 5 ^ k) && decide (e.2.length + e.1 = k + 1) && e.2.all isDec &&
  decide (e.2.getLast? ≠ some 48) && decide (e.2 ≠ [])

theorem cheats_ok : ∀ k, k < 61 → 1 ≤ k → cheatOK k = true := by decide +kernel

theorem dec_lt_iff (x y : UInt8) (hx : isDec x = true) (hy : isDec y = true) :
    (x < y ↔ digVal x < digVal y) ∧ (x = y ↔ digVal x = digVal y) := by
  revert x y
  have : ∀ x : UInt8, ∀ y : UInt8, isDec x = true → isDec y = true →
      (x < y ↔ digVal x < digVal y) ∧ (x = y ↔ digVal x = digVal y) := by
    apply byte_forall; intro n
    apply byte_forall; revert n
    decide +kernel
  intro x y hx hy; exact this x y hx hy

/-- **lexicographic prefix comparison = comparison of the decimal fractions 0.b and 0.s**, for
digit strings, when `s` does not end in `0` -/
theorem prefixIsLessThan_iff (s : Bytes) : ∀ (b : Bytes), b.all isDec = true → s.all isDec = true →
    s.getLast? ≠ some 48 →
    (prefixIsLessThan b s = true ↔ valOf 10 b * 10 ^ s.length < valOf 10 s * 10 ^ b.length) := by
  induction s with
  | nil =>
    intro b _ _ _
    cases b <;> simp [prefixIsLessThan, valOf]
  | cons x ss ih =>
    intro b hb hs hl
    rw [List.all_cons, Bool.and_eq_true] at hs
    have hspos : 0 < valOf 10 (x :: ss) := valOf_pos_of_last _ (by rw [List.all_cons, hs.1, hs.2]; rfl) (by simp) hl
    cases b with
    | nil =>
      simp only [prefixIsLessThan, List.length_nil, Nat.pow_zero, Nat.mul_one, true_iff]
      have : valOf 10 ([] : Bytes) = 0 := rfl
      rw [this, Nat.zero_mul]; exact hspos
    | cons y bs =>
      rw [List.all_cons, Bool.and_eq_true] at hb
      obtain ⟨lt_iff, eq_iff⟩ := dec_lt_iff y x hb.1 hs.1
      have hvb := valOf_lt bs hb.2
      have hvs := valOf_lt ss hs.2
      have hl' : ss.getLast? ≠ some 48 := by
        cases ss with
        | nil => simp
        | cons a t => simpa using hl
      have hih := ih bs hb.2 hs.2 hl'
      clear ih
      rw [valOf_cons10, valOf_cons10, List.length_cons, List.length_cons]
      generalize hA : 10 ^ bs.length = A at *
      generalize hB : 10 ^ ss.length = B at *
      have hApos : 0 < A := by rw [← hA]; exact Nat.pow_pos (by decide)
      have hBpos : 0 < B := by rw [← hB]; exact Nat.pow_pos (by decide)
      have eA : 10 ^ (bs.length + 1) = 10 * A := by rw [Nat.pow_succ, hA]; ring
      have eB : 10 ^ (ss.length + 1) = 10 * B := by rw [Nat.pow_succ, hB]; ring
      rw [eA, eB]
      generalize valOf 10 bs = vb at *
      generalize valOf 10 ss = vs at *
      generalize digVal y = dy at *
      generalize digVal x = dx at *
      unfold prefixIsLessThan
      by_cases hxy : y = x
      · have hd : dy = dx := eq_iff.mp hxy
        have hne : (y != x) = false := by simp [hxy]
        simp only [hne, Bool.false_eq_true, if_false]
        rw [hih, hd]
        constructor
        · intro h
          calc (dx * A + vb) * (10 * B) = 10 * (dx * (A * B)) + 10 * (vb * B) := by ring
            _ < 10 * (dx * (A * B)) + 10 * (vs * A) := by omega
            _ = (dx * B + vs) * (10 * A) := by ring
        · intro h
          have e1 : (dx * A + vb) * (10 * B) = 10 * (dx * (A * B)) + 10 * (vb * B) := by ring
          have e2 : (dx * B + vs) * (10 * A) = 10 * (dx * (A * B)) + 10 * (vs * A) := by ring
          rw [e1, e2] at h; omega
      · have hne : (y != x) = true := by simp [hxy]
        have hdne : dy ≠ dx := fun h => hxy (eq_iff.mpr h)
        simp only [hne, if_true, decide_eq_true_eq]
        rw [lt_iff]
        have e1 : (dy * A + vb) * (10 * B) = 10 * (dy * (A * B)) + 10 * (vb * B) := by ring
        have e2 : (dx * B + vs) * (10 * A) = 10 * (dx * (A * B)) + 10 * (vs * A) := by ring
        rw [e1, e2]
        have hAB : 0 < A * B := Nat.mul_pos hApos hBpos
        have hvbB : vb * B < A * B := Nat.mul_lt_mul_of_pos_right hvb hBpos
        have hvsA : vs * A < A * B := by rw [Nat.mul_comm A B]; exact Nat.mul_lt_mul_of_pos_right hvs hApos
        constructor
        · intro h
          have : (dy + 1) * (A * B) ≤ dx * (A * B) := Nat.mul_le_mul_right _ h
          rw [Nat.add_mul, Nat.one_mul] at this
          omega
        · intro h
          apply Classical.byContradiction
          intro hnl
          have hgt : dx + 1 ≤ dy := by omega
          have : (dx + 1) * (A * B) ≤ dy * (A * B) := Nat.mul_le_mul_right _ hgt
          rw [Nat.add_mul, Nat.one_mul] at this
          omega

/-- the number of digits `leftShift` plans for -/
def cheatDelta (k : Nat) (ds : Bytes) : Nat :=
  if prefixIsLessThan ds (leftcheats.getD k (0, [])).2 then (leftcheats.getD k (0, [])).1 - 1
  else (leftcheats.getD k (0, [])).1

/-- **the cheat table is right**: for an n-digit number N (no leading zero) and 1 ≤ k ≤ 60, N·2^k
has exactly n + cheatDelta digits. -/
theorem cheat_digits (k : Nat) (hk1 : 1 ≤ k) (hk : k ≤ 60) (ds : Bytes) (hd : ds.all isDec = true)
    (hlo : 10 ^ (ds.length - 1) ≤ valOf 10 ds) (hne : ds ≠ []) :
    10 ^ (ds.length + cheatDelta k ds - 1) ≤ valOf 10 ds * 2 ^ k ∧
    valOf 10 ds * 2 ^ k < 10 ^ (ds.length + cheatDelta k ds) ∧ 1 ≤ ds.length + cheatDelta k ds := by
  have hok := cheats_ok k (by omega) hk1
  unfold cheatOK at hok
  simp only [Bool.and_eq_true, decide_eq_true_eq] at hok
  obtain ⟨⟨⟨⟨⟨⟨⟨f1, f2⟩, f0⟩, f3⟩, f4⟩, f5⟩, f6⟩, f7⟩ := hok
  unfold cheatDelta
  generalize (leftcheats.getD k (0, [])).1 = δ at *
  generalize (leftcheats.getD k (0, [])).2 = cut at *
  have hhi := valOf_lt ds hd
  have hnd : 1 ≤ ds.length := List.length_pos_iff.mpr hne
  generalize hN : valOf 10 ds = N at *
  generalize hn : ds.length = nd at *
  have h25 : 2 ^ k * 5 ^ k = 10 ^ k := by rw [← Nat.mul_pow]
  have hlex := prefixIsLessThan_iff cut ds hd f5 f6
  rw [f3, hN, hn] at hlex
  generalize hm : cut.length = m at *
  have hmk : m + δ = k + 1 := f4
  by_cases hp : prefixIsLessThan ds cut = true
  · rw [if_pos hp]
    have hlt := hlex.mp hp
    -- N·10^m < 5^k·10^nd  ⇒  N·2^k < 10^(nd+δ-1)
    have h1 : N * 2 ^ k * 10 ^ m < 10 ^ (nd + δ - 1) * 10 ^ m := by
      calc N * 2 ^ k * 10 ^ m = N * 10 ^ m * 2 ^ k := by ring
        _ < 5 ^ k * 10 ^ nd * 2 ^ k := Nat.mul_lt_mul_of_pos_right hlt (Nat.pow_pos (by decide))
        _ = 10 ^ k * 10 ^ nd := by rw [← h25]; ring
        _ = 10 ^ (nd + δ - 1) * 10 ^ m := by rw [← Nat.pow_add, ← Nat.pow_add]; congr 1; omega
    have hup : N * 2 ^ k < 10 ^ (nd + δ - 1) := Nat.lt_of_mul_lt_mul_right h1
    have hlow : 10 ^ (nd + (δ - 1) - 1) ≤ N * 2 ^ k := by
      calc 10 ^ (nd + (δ - 1) - 1) = 10 ^ (nd - 1) * 10 ^ (δ - 1) := by rw [← Nat.pow_add]; congr 1; omega
        _ ≤ N * 2 ^ k := Nat.mul_le_mul hlo f1
    refine ⟨hlow, ?_, by omega⟩
    have : nd + (δ - 1) = nd + δ - 1 := by omega
    rw [this]; exact hup
  · rw [if_neg hp]
    have hge : 5 ^ k * 10 ^ nd ≤ N * 10 ^ m := by
      apply Nat.le_of_not_lt
      intro h; exact hp (hlex.mpr h)
    have h1 : 10 ^ (nd + δ - 1) * 10 ^ m ≤ N * 2 ^ k * 10 ^ m := by
      calc 10 ^ (nd + δ - 1) * 10 ^ m = 10 ^ k * 10 ^ nd := by rw [← Nat.pow_add, ← Nat.pow_add]; congr 1; omega
        _ = 5 ^ k * 10 ^ nd * 2 ^ k := by rw [← h25]; ring
        _ ≤ N * 10 ^ m * 2 ^ k := Nat.mul_le_mul_right _ hge
        _ = N * 2 ^ k * 10 ^ m := by ring
    have hlow : 10 ^ (nd + δ - 1) ≤ N * 2 ^ k := Nat.le_of_mul_le_mul_right h1 (Nat.pow_pos (by decide))
    refine ⟨hlow, ?_, by omega⟩
    calc N * 2 ^ k < 10 ^ nd * 10 ^ δ := Nat.mul_lt_mul'' hhi f2
      _ = 10 ^ (nd + δ) := by rw [Nat.pow_add]

end C03
