/-
C20 helper lemmas: the decimal rendering of upload ids (`renderId`) — digits only, value recovered,
injective, length of an 8-digit day.
-/
import Model.Storage.Upload

namespace C20
open Storage.Upload

def isDigitB (c : UInt8) : Prop := 48 ≤ c.toNat ∧ c.toNat ≤ 57

theorem toNat_digit (d : Nat) (h : d < 10) : (UInt8.ofNat (48 + d)).toNat = 48 + d := by
  simp [UInt8.toNat_ofNat']
  omega

theorem digitsAux_digits (fuel n : Nat) (acc : Bytes) :
    ∀ c ∈ digitsAux fuel n acc, c ∈ acc ∨ isDigitB c := by
  induction fuel generalizing n acc with
  | zero => intro c hc; exact Or.inl hc
  | succ f ih =>
    intro c hc
    simp only [digitsAux] at hc
    split at hc
    · rename_i hn
      rcases List.mem_cons.mp hc with rfl | h
      · right; unfold isDigitB; rw [toNat_digit n hn]; omega
      · exact Or.inl h
    · rcases ih _ _ c hc with h | h
      · rcases List.mem_cons.mp h with rfl | h
        · right; unfold isDigitB; rw [toNat_digit _ (Nat.mod_lt _ (by omega))]; omega
        · exact Or.inl h
      · exact Or.inr h

theorem natBytes_digits (n : Nat) : ∀ c ∈ natBytes n, isDigitB c := by
  intro c hc
  rcases digitsAux_digits _ _ _ c hc with h | h
  · simp at h
  · exact h

/-- value of a digit string read after the number `s` -/
def decVal (s : Nat) (l : Bytes) : Nat := l.foldl (fun a c => a * 10 + (c.toNat - 48)) s

theorem decVal_digitsAux (fuel n : Nat) (acc : Bytes) (h : n < fuel) :
    decVal 0 (digitsAux fuel n acc) = decVal n acc := by
  induction fuel generalizing n acc with
  | zero => omega
  | succ f ih =>
    simp only [digitsAux]
    split
    · rename_i hn
      simp only [decVal, List.foldl_cons]
      rw [toNat_digit n hn]
      congr 1
      omega
    · rename_i hn
      rw [ih (n / 10) _ (by omega)]
      simp only [decVal, List.foldl_cons]
      rw [toNat_digit _ (Nat.mod_lt _ (by omega))]
      congr 1
      omega

theorem decVal_natBytes (n : Nat) : decVal 0 (natBytes n) = n := by
  unfold natBytes
  rw [decVal_digitsAux _ _ _ (by omega)]
  rfl

theorem natBytes_injective {m n : Nat} (h : natBytes m = natBytes n) : m = n := by
  rw [← decVal_natBytes m, ← decVal_natBytes n, h]

theorem digitsAux_ne_nil (fuel n : Nat) (acc : Bytes) (h : n < fuel) : digitsAux fuel n acc ≠ [] := by
  induction fuel generalizing n acc with
  | zero => omega
  | succ f ih =>
    simp only [digitsAux]
    split
    · simp
    · exact ih _ _ (by omega)

theorem natBytes_ne_nil (n : Nat) : natBytes n ≠ [] := digitsAux_ne_nil _ _ _ (by omega)

/-- a number with k+1 decimal digits is rendered with k+1 bytes -/
theorem digitsAux_length (k : Nat) : ∀ (fuel n : Nat) (acc : Bytes), n < fuel → 10 ^ k ≤ n ∨ k = 0 → n < 10 ^ (k + 1) →
    (digitsAux fuel n acc).length = acc.length + k + 1 := by
  induction k with
  | zero =>
    intro fuel n acc hf _ h2
    cases fuel with
    | zero => omega
    | succ f =>
      simp only [digitsAux]
      rw [if_pos (by simpa using h2)]
      simp
  | succ k ih =>
    intro fuel n acc hf h1 h2
    have h1 : 10 ^ (k + 1) ≤ n := by rcases h1 with h | h; exact h; omega
    have h10 : 10 ≤ n := by
      have : 10 ^ 1 ≤ 10 ^ (k + 1) := Nat.pow_le_pow_right (by omega) (by omega)
      omega
    cases fuel with
    | zero => omega
    | succ f =>
      simp only [digitsAux]
      rw [if_neg (by omega)]
      rw [ih f (n / 10) _ (by omega) ?_ ?_]
      · simp; omega
      · left
        rw [Nat.le_div_iff_mul_le (by omega)]
        rw [Nat.pow_succ] at h1; exact h1
      · rw [Nat.div_lt_iff_lt_mul (by omega)]
        rw [Nat.pow_succ] at h2; exact h2

/-- a day YYYYMMDD with a four-digit year is rendered with exactly eight digits -/
theorem natBytes_day_length (d : Nat) (h1 : 10000000 ≤ d) (h2 : d < 100000000) : (natBytes d).length = 8 := by
  have := digitsAux_length 7 (d + 1) d [] (by omega) (Or.inl (by simpa using h1)) (by simpa using h2)
  simpa [natBytes] using this

theorem split_at_sep {x : UInt8} : ∀ (l1 l2 r1 r2 : Bytes), x ∉ l1 → x ∉ l2 →
    l1 ++ x :: r1 = l2 ++ x :: r2 → l1 = l2 ∧ r1 = r2 := by
  intro l1
  induction l1 with
  | nil =>
    intro l2 r1 r2 _ h2 h
    cases l2 with
    | nil => simp at h; exact ⟨rfl, h⟩
    | cons b bs => simp at h; exact absurd h.1 (by intro e; exact h2 (by simp [e]))
  | cons a as ih =>
    intro l2 r1 r2 h1 h2 h
    cases l2 with
    | nil => simp at h; exact absurd h.1 (by intro e; exact h1 (by simp [e]))
    | cons b bs =>
      simp at h
      obtain ⟨rfl, h⟩ := h
      have := ih bs r1 r2 (fun hx => h1 (List.mem_cons_of_mem _ hx)) (fun hx => h2 (List.mem_cons_of_mem _ hx)) h
      exact ⟨by rw [this.1], this.2⟩

theorem dot_not_digit (n : Nat) : (46 : UInt8) ∉ natBytes n := by
  intro h
  have := natBytes_digits n 46 h
  unfold isDigitB at this
  simp at this

/-- the id string determines the Uploads row -/
theorem renderId_injective {a b : UKey} (h : renderId a = renderId b) : a = b := by
  unfold renderId at h
  simp only [List.append_assoc, List.singleton_append] at h
  have := split_at_sep _ _ _ _ (dot_not_digit a.day) (dot_not_digit b.day) h
  have hd := natBytes_injective this.1
  have hs := natBytes_injective this.2
  cases a; cases b; simp_all

end C20
