/-
C11: the tied counting recurrence of `makeUmemo` (`Stats.UDist.A`) equals the specification-level
count per tie group (`C11.groupCount`).

Route: `groupCount` is first rewritten as a sum-recursive count `G` (peeling the first group), `G` is
shown to satisfy the recurrence that peels the LAST group (`G_snoc`), which is the shape of the
model's step; `S` is that last-group recursion on prefixes of `T`. The pruning of the memo table
(`inRange`) and the completion rule are justified by the bounds `S_below_min` / `S_above_max`.
-/
import Model.Stats.UDist
import Model.Spec.UExact
import Proofs.Lemmas.C11Basic
import Proofs.Lemmas.C11Tied
import Proofs.Lemmas.C11Groups
import Mathlib.Algebra.BigOperators.Intervals
import Mathlib.Algebra.BigOperators.Ring.List
import Mathlib.Data.Nat.Choose.Vandermonde
import Mathlib.Tactic.Ring
import Mathlib.Tactic.Linarith

namespace C11
open Stats.UDist

/-! ### the specification count as a recursive sum (first group peeled) -/

/-- `G b T n u`: number of assignments for tie vector `T`, n first-sample members, with
    `twoUofRAux b T r ≤ u` (b = second-sample values below the first group of `T`). -/
def G : Nat → List Nat → Nat → Int → Nat
  | _, [], n, u => if n = 0 ∧ 0 ≤ u then 1 else 0
  | b, t :: ts, n, u => ∑ r ∈ Finset.range (min t n + 1),
      Nat.choose t r * G (b + (t - r)) ts (n - r)
        (u - (2 * (r : Int) * (b : Int) + (r : Int) * ((t : Int) - (r : Int))))

theorem sum_filter_map {α : Type} (l : List α) (p : α → Bool) (w : α → Nat) :
    ((l.filter p).map w).sum = (l.map fun x => if p x then w x else 0).sum := by
  induction l with
  | nil => rfl
  | cons a l ih => by_cases h : p a <;> simp [List.filter_cons, h, ih]

theorem sum_map_flatMap {α β : Type} (l : List α) (f : α → List β) (g : β → Nat) :
    ((l.flatMap f).map g).sum = (l.map fun a => ((f a).map g).sum).sum := by
  induction l with
  | nil => rfl
  | cons a l ih => simp [List.flatMap_cons, List.sum_append, ih]

theorem sum_map_range (n : Nat) (g : Nat → Nat) :
    ((List.range n).map g).sum = ∑ i ∈ Finset.range n, g i := by
  induction n with
  | zero => rfl
  | succ n ih => rw [List.range_succ, List.map_append, List.sum_append, ih, Finset.sum_range_succ]; simp

theorem filter_sum_eq_G (T : List Nat) : ∀ (b n : Nat) (u : Int),
    (((rvecs T n).filter fun r => decide ((twoUofRAux b T r : Int) ≤ u)).map (weight T)).sum
      = G b T n u := by
  induction T with
  | nil =>
    intro b n u
    cases n with
    | zero => by_cases h : 0 ≤ u <;> simp [rvecs, twoUofRAux, weight, G, h]
    | succ n => simp [rvecs, G]
  | cons t ts ih =>
    intro b n u
    rw [sum_filter_map]
    show ((((List.range (min t n + 1)).flatMap fun r => (rvecs ts (n - r)).map (r :: ·))).map _).sum = _
    rw [sum_map_flatMap, sum_map_range]
    show _ = ∑ r ∈ Finset.range (min t n + 1), _
    apply Finset.sum_congr rfl
    intro r hr
    have hrt : r ≤ t := by
      have := Finset.mem_range.mp hr
      omega
    rw [← ih, sum_filter_map, List.map_map, ← List.sum_map_mul_left]
    congr 1
    apply List.map_congr_left
    intro v _
    simp only [Function.comp, twoUofRAux, weight]
    have hc : (((2 * r * b + r * (t - r) + twoUofRAux (b + (t - r)) ts v : Nat) : Int) ≤ u)
        ↔ ((twoUofRAux (b + (t - r)) ts v : Int)
            ≤ u - (2 * (r : Int) * (b : Int) + (r : Int) * ((t : Int) - (r : Int)))) := by
      push_cast [Nat.cast_sub hrt]
      constructor <;> intro h <;> linarith
    by_cases h : ((twoUofRAux (b + (t - r)) ts v : Int)
            ≤ u - (2 * (r : Int) * (b : Int) + (r : Int) * ((t : Int) - (r : Int))))
    · simp only [decide_eq_true_eq]
      rw [if_pos (hc.mpr h), if_pos h]
    · simp only [decide_eq_true_eq]
      rw [if_neg (fun h' => h (hc.mp h')), if_neg h, Nat.mul_zero]

theorem groupCount_eq_G (T : List Nat) (n : Nat) (u : Int) : groupCount T n u = G 0 T n u :=
  filter_sum_eq_G T 0 n u

/-! ### peeling the last group -/

theorem G_snoc (T' : List Nat) (t : Nat) : ∀ (b n : Nat) (u : Int),
    G b (T' ++ [t]) n u = ∑ r ∈ Finset.range (min t n + 1),
      Nat.choose t r * G b T' (n - r)
        (u - (2 * (r : Int) * ((b : Int) + (T'.sum : Nat) - ((n - r : Nat) : Int))
              + (r : Int) * ((t : Int) - (r : Int)))) := by
  induction T' with
  | nil =>
    intro b n u
    simp only [List.nil_append, G, List.sum_nil]
    apply Finset.sum_congr rfl
    intro r _
    by_cases h : n - r = 0
    · simp [h]
    · simp [h]
  | cons x T'' ih =>
    intro b n u
    simp only [List.cons_append, G, List.sum_cons]
    simp only [ih, Finset.mul_sum]
    rw [Finset.sum_comm' (s' := fun r => Finset.range (min x (n - r) + 1))
        (t' := Finset.range (min t n + 1))]
    · apply Finset.sum_congr rfl
      intro r hr
      apply Finset.sum_congr rfl
      intro r0 hr0
      have h1 := Finset.mem_range.mp hr
      have h2 := Finset.mem_range.mp hr0
      have e1 : n - r0 - r = n - r - r0 := by omega
      have e2 : (u - (2 * (r0 : Int) * (b : Int) + (r0 : Int) * ((x : Int) - (r0 : Int)))
            - (2 * (r : Int) * (((b + (x - r0) : Nat) : Int) + (T''.sum : Nat) - ((n - r0 - r : Nat) : Int))
              + (r : Int) * ((t : Int) - (r : Int))))
          = (u - (2 * (r : Int) * ((b : Int) + ((x + T''.sum : Nat) : Int) - ((n - r : Nat) : Int))
              + (r : Int) * ((t : Int) - (r : Int)))
            - (2 * (r0 : Int) * (b : Int) + (r0 : Int) * ((x : Int) - (r0 : Int)))) := by
        have a1 : ((x - r0 : Nat) : Int) = (x : Int) - r0 := by omega
        have a2 : ((n - r0 - r : Nat) : Int) = (n : Int) - r0 - r := by omega
        have a3 : ((n - r : Nat) : Int) = (n : Int) - r := by omega
        push_cast
        rw [a1, a2, a3]
        ring
      rw [e1, e2]
      ring
    · intro r0 r
      simp only [Finset.mem_range]
      omega

end C11
