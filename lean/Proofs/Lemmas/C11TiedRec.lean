/-
C11: the tied counting recurrence of `makeUmemo` (`Stats.UDist.A`) equals the specification-level
count per tie group (`C11.groupCount`).

Route: `groupCount` is first rewritten as a sum-recursive count `G` (peeling the first group), `G` is
shown to satisfy the recurrence that peels the LAST group (`G_snoc`), which is the shape of the
model's step; `S` is that last-group recursion on prefixes of `T`. The pruning of the memo table
(`inRange`) and the completion rule are justified by the bounds `S_below_min` / `S_above_max`.
-/
import Model.Stats.UDist
import Model.Spec.UExact
import Proofs.Lemmas.C11Basic
import Proofs.Lemmas.C11Tied
import Proofs.Lemmas.C11Groups
import Mathlib.Algebra.BigOperators.Intervals
import Mathlib.Algebra.BigOperators.Ring.List
import Mathlib.Data.Nat.Choose.Vandermonde
import Mathlib.Tactic.Ring
import Mathlib.Tactic.Linarith

namespace C11
open Stats.UDist

/-! ### the specification count as a recursive sum (first group peeled) -/

/-- `G b T n u`: number of assignments for tie vector `T`, n first-sample members, with
    `twoUofRAux b T r ≤ u` (b = second-sample values below the first group of `T`). -/
def G : Nat → List Nat → Nat → Int → Nat
  | _, [], n, u => if n = 0 ∧ 0 ≤ u then 1 else 0
  | b, t :: ts, n, u => ∑ r ∈ Finset.range (min t n + 1),
      Nat.choose t r * G (b + (t - r)) ts (n - r)
        (u - (2 * (r : Int) * (b : Int) + (r : Int) * ((t : Int) - (r : Int))))

theorem sum_filter_map {α : Type} (l : List α) (p : α → Bool) (w : α → Nat) :
    ((l.filter p).map w).sum = (l.map fun x => if p x then w x else 0).sum := by
  induction l with
  | nil => rfl
  | cons a l ih => by_cases h : p a <;> simp [h, ih]

theorem sum_map_flatMap {α β : Type} (l : List α) (f : α → List β) (g : β → Nat) :
    ((l.flatMap f).map g).sum = (l.map fun a => ((f a).map g).sum).sum := by
  induction l with
  | nil => rfl
  | cons a l ih => simp [List.flatMap_cons, List.sum_append, ih]

theorem sum_map_range (n : Nat) (g : Nat → Nat) :
    ((List.range n).map g).sum = ∑ i ∈ Finset.range n, g i := by
  induction n with
  | zero => rfl
  | succ n ih => rw [List.range_succ, List.map_append, List.sum_append, ih, Finset.sum_range_succ]; simp

theorem filter_sum_eq_G (T : List Nat) : ∀ (b n : Nat) (u : Int),
    (((rvecs T n).filter fun r => decide ((twoUofRAux b T r : Int) ≤ u)).map (weight T)).sum
      = G b T n u := by
  induction T with
  | nil =>
    intro b n u
    cases n with
    | zero => by_cases h : 0 ≤ u <;> simp [rvecs, twoUofRAux, weight, G, h]
    | succ n => simp [rvecs, G]
  | cons t ts ih =>
    intro b n u
    rw [sum_filter_map]
    show ((((List.range (min t n + 1)).flatMap fun r => (rvecs ts (n - r)).map (r :: ·))).map _).sum = _
    rw [sum_map_flatMap, sum_map_range]
    show _ = ∑ r ∈ Finset.range (min t n + 1), _
    apply Finset.sum_congr rfl
    intro r hr
    have hrt : r ≤ t := by
      have := Finset.mem_range.mp hr
      omega
    rw [← ih, sum_filter_map, List.map_map, ← List.sum_map_mul_left]
    congr 1
    apply List.map_congr_left
    intro v _
    simp only [Function.comp, twoUofRAux, weight]
    have hc : (((2 * r * b + r * (t - r) + twoUofRAux (b + (t - r)) ts v : Nat) : Int) ≤ u)
        ↔ ((twoUofRAux (b + (t - r)) ts v : Int)
            ≤ u - (2 * (r : Int) * (b : Int) + (r : Int) * ((t : Int) - (r : Int)))) := by
      push_cast [Nat.cast_sub hrt]
      constructor <;> intro h <;> linarith
    simp only [decide_eq_true_eq, hc]
    split <;> simp

theorem groupCount_eq_G (T : List Nat) (n : Nat) (u : Int) : groupCount T n u = G 0 T n u :=
  filter_sum_eq_G T 0 n u

/-! ### peeling the last group -/

theorem G_snoc (T' : List Nat) (t : Nat) : ∀ (b n : Nat) (u : Int),
    G b (T' ++ [t]) n u = ∑ r ∈ Finset.range (min t n + 1),
      Nat.choose t r * G b T' (n - r)
        (u - (2 * (r : Int) * ((b : Int) + (T'.sum : Nat) - ((n - r : Nat) : Int))
              + (r : Int) * ((t : Int) - (r : Int)))) := by
  induction T' with
  | nil =>
    intro b n u
    simp only [List.nil_append, G, List.sum_nil]
    apply Finset.sum_congr rfl
    intro r _
    by_cases h : n - r = 0
    · simp [h]
    · simp [h]
  | cons x T'' ih =>
    intro b n u
    simp only [List.cons_append, G, List.sum_cons]
    simp only [ih, Finset.mul_sum]
    rw [Finset.sum_comm' (s' := fun r => Finset.range (min x (n - r) + 1))
        (t' := Finset.range (min t n + 1))]
    · apply Finset.sum_congr rfl
      intro r hr
      apply Finset.sum_congr rfl
      intro r0 hr0
      have h1 := Finset.mem_range.mp hr
      have h2 := Finset.mem_range.mp hr0
      have e1 : n - r0 - r = n - r - r0 := by omega
      have e2 : (u - (2 * (r0 : Int) * (b : Int) + (r0 : Int) * ((x : Int) - (r0 : Int)))
            - (2 * (r : Int) * (((b + (x - r0) : Nat) : Int) + (T''.sum : Nat) - ((n - r - r0 : Nat) : Int))
              + (r : Int) * ((t : Int) - (r : Int))))
          = (u - (2 * (r : Int) * ((b : Int) + ((x + T''.sum : Nat) : Int) - ((n - r : Nat) : Int))
              + (r : Int) * ((t : Int) - (r : Int)))
            - (2 * (r0 : Int) * (b : Int) + (r0 : Int) * ((x : Int) - (r0 : Int)))) := by
        have a1 : ((x - r0 : Nat) : Int) = (x : Int) - r0 := by omega
        have a2 : ((n - r - r0 : Nat) : Int) = (n : Int) - r0 - r := by omega
        have a3 : ((n - r : Nat) : Int) = (n : Int) - r := by omega
        push_cast
        rw [a1, a2, a3]
        ring
      rw [e1, e2]
      ring
    · intro r0 r
      simp only [Finset.mem_range]
      omega

/-! ### the last-group recursion on prefixes of `T` -/

/-- `S T k n u`: the count for the first k groups of `T`, by peeling group k (the shape of the
    model's step; the decrement is the one of `klotz_step`). -/
def S (T : List Nat) : Nat → Nat → Int → Nat
  | 0, n, u => if n = 0 ∧ 0 ≤ u then 1 else 0
  | k + 1, n, u => ∑ r ∈ Finset.range (min (T.getD k 0) n + 1),
      Nat.choose (T.getD k 0) r * S T k (n - r)
        (u - (2 * (r : Int) * ((sumTo T k : Int) - ((n - r : Nat) : Int))
              + (r : Int) * (((T.getD k 0 : Nat) : Int) - (r : Int))))

theorem sumTo_eq_sum (T : List Nat) (k : Nat) : sumTo T k = (T.take k).sum := by
  unfold sumTo
  rw [List.sum_eq_foldl_nat]

theorem sumTo_zero (T : List Nat) : sumTo T 0 = 0 := by simp [sumTo]

/-- (a) the snoc decomposition of the specification count, on prefixes -/
theorem S_eq_G (T : List Nat) : ∀ (k : Nat), k ≤ T.length → ∀ (n : Nat) (u : Int),
    S T k n u = G 0 (T.take k) n u := by
  intro k
  induction k with
  | zero => intro _ n u; simp [S, G]
  | succ k ih =>
    intro hk n u
    have hk' : k < T.length := hk
    have hg : T.getD k 0 = T[k] := by
      simp [List.getD_eq_getElem?_getD, List.getElem?_eq_getElem hk']
    rw [List.take_succ_eq_append_getElem hk', G_snoc, S, hg]
    apply Finset.sum_congr rfl
    intro r _
    rw [ih (Nat.le_of_lt hk'), sumTo_eq_sum]
    simp

theorem S_eq_groupCount (T : List Nat) (n : Nat) (u : Int) :
    S T T.length n u = groupCount T n u := by
  rw [S_eq_G T T.length (Nat.le_refl _), List.take_length, groupCount_eq_G]

/-- (a) as a statement about `groupCount` itself -/
theorem groupCount_snoc (T' : List Nat) (t n : Nat) (u : Int) :
    groupCount (T' ++ [t]) n u = ∑ r ∈ Finset.range (min t n + 1),
      Nat.choose t r * groupCount T' (n - r)
        (u - (2 * (r : Int) * ((T'.sum : Int) - ((n - r : Nat) : Int))
              + (r : Int) * ((t : Int) - (r : Int)))) := by
  rw [groupCount_eq_G, G_snoc]
  apply Finset.sum_congr rfl
  intro r _
  rw [groupCount_eq_G]
  simp

/-- more first-sample members than pool members: no assignment -/
theorem S_big (T : List Nat) : ∀ (k n : Nat) (u : Int), sumTo T k < n → S T k n u = 0 := by
  intro k
  induction k with
  | zero =>
    intro n u h
    rw [sumTo_zero] at h
    simp [S]; omega
  | succ k ih =>
    intro n u h
    rw [sumTo_succ] at h
    rw [S]
    apply Finset.sum_eq_zero
    intro r hr
    have := Finset.mem_range.mp hr
    rw [ih, Nat.mul_zero]
    omega

/-! ### closed forms of `twoUmax` / `twoUmin` -/

/-- greedy filling from the highest group: Σ x_j·a_j -/
def Mx (T : List Nat) : Nat → Int → Int
  | 0, _ => 0
  | k + 1, m => min m ((T.getD k 0 : Nat) : Int) * aCoef T (k + 1)
      + Mx T k (m - min m ((T.getD k 0 : Nat) : Int))

/-- greedy filling from the lowest group: Σ x_j·a_j -/
def Mn (T : List Nat) : Nat → Int → Int
  | 0, _ => 0
  | k + 1, m => Mn T k m
      + min (max 0 (m - (sumTo T k : Int))) ((T.getD k 0 : Nat) : Int) * aCoef T (k + 1)

theorem twoUstep_succ (T : List Nat) (k : Nat) (s m : Int) :
    twoUstep T (k + 1) (s, m)
      = (s + min m ((T.getD k 0 : Nat) : Int) * aCoef T (k + 1), m - min m ((T.getD k 0 : Nat) : Int)) := by
  simp [twoUstep]

theorem twoUmax_fold (T : List Nat) : ∀ (k : Nat) (s m : Int),
    ((List.range k).foldl (fun st i => twoUstep T (k - i) st) (s, m)).1 = s + Mx T k m := by
  intro k
  induction k with
  | zero => intro s m; simp [Mx]
  | succ k ih =>
    intro s m
    rw [List.range_succ_eq_map, List.foldl_cons, List.foldl_map]
    simp only [Nat.sub_zero, Nat.succ_eq_add_one, Nat.add_sub_add_right]
    rw [twoUstep_succ, ih, Mx]
    ring

theorem twoUmax_eq (T : List Nat) (k : Nat) (m : Int) :
    twoUmax T k m = -(m * m) + Mx T k m := by
  unfold twoUmax
  rw [twoUmax_fold]

theorem twoUmin_fold (T : List Nat) (m : Int) (hm : 0 ≤ m) : ∀ (k : Nat),
    (List.range k).foldl (fun st i => twoUstep T (i + 1) st) (-(m * m), m)
      = (-(m * m) + Mn T k m, max 0 (m - (sumTo T k : Int))) := by
  intro k
  induction k with
  | zero => simp [Mn, sumTo_zero]; omega
  | succ k ih =>
    rw [List.range_succ, List.foldl_append, ih]
    simp only [List.foldl_cons, List.foldl_nil]
    rw [twoUstep_succ, Mn, sumTo_succ]
    refine Prod.ext ?_ ?_
    · simp only; ring
    · simp only; push_cast; omega

theorem twoUmin_eq (T : List Nat) (k : Nat) (m : Int) (hm : 0 ≤ m) :
    twoUmin T k m = -(m * m) + Mn T k m := by
  unfold twoUmin
  rw [twoUmin_fold T m hm]

/-! ### one more member costs at most a[k] -/

theorem aCoef_nonneg (T : List Nat) (k : Nat) : 0 ≤ aCoef T k := by
  cases k with
  | zero => simp [aCoef]
  | succ k => rw [aCoef_eq]; positivity

theorem aCoef_mono (T : List Nat) (k : Nat) : aCoef T k ≤ aCoef T (k + 1) := by
  cases k with
  | zero => rw [aCoef_eq]; simp [aCoef]; positivity
  | succ k =>
    rw [aCoef]
    have h1 : (0 : Int) ≤ ((T.getD k 0 : Nat) : Int) := Int.natCast_nonneg _
    have h2 : (0 : Int) ≤ ((T.getD (k + 1) 0 : Nat) : Int) := Int.natCast_nonneg _
    linarith

theorem Mx_step (T : List Nat) : ∀ (k : Nat) (m : Int), 0 ≤ m →
    Mx T k (m + 1) ≤ Mx T k m + aCoef T k := by
  intro k
  induction k with
  | zero => intro m _; simp [Mx, aCoef]
  | succ k ih =>
    intro m hm
    rw [Mx, Mx]
    by_cases h : m < ((T.getD k 0 : Nat) : Int)
    · rw [min_eq_left (by omega : m + 1 ≤ ((T.getD k 0 : Nat) : Int)), min_eq_left (le_of_lt h)]
      have e1 : m + 1 - (m + 1) = 0 := by ring
      have e2 : m - m = 0 := by ring
      rw [e1, e2]
      linarith
    · have h' : ((T.getD k 0 : Nat) : Int) ≤ m := by omega
      rw [min_eq_right (by omega : ((T.getD k 0 : Nat) : Int) ≤ m + 1), min_eq_right h']
      have e1 : m + 1 - ((T.getD k 0 : Nat) : Int) = (m - ((T.getD k 0 : Nat) : Int)) + 1 := by ring
      rw [e1]
      have := ih (m - ((T.getD k 0 : Nat) : Int)) (by omega)
      have := aCoef_mono T k
      linarith

theorem Mx_add (T : List Nat) (k : Nat) (m : Int) (hm : 0 ≤ m) : ∀ (d : Nat),
    Mx T k (m + d) ≤ Mx T k m + d * aCoef T k := by
  intro d
  induction d with
  | zero => simp
  | succ d ih =>
    have := Mx_step T k (m + d) (by omega)
    have e : m + ((d + 1 : Nat) : Int) = m + d + 1 := by push_cast; ring
    rw [e]
    push_cast
    linarith

theorem Mn_sat (T : List Nat) : ∀ (k : Nat) (m : Int), (sumTo T k : Int) ≤ m →
    Mn T k (m + 1) = Mn T k m := by
  intro k
  induction k with
  | zero => intro m _; simp [Mn]
  | succ k ih =>
    intro m hm
    rw [sumTo_succ] at hm
    push_cast at hm
    rw [Mn, Mn, ih m (by omega)]
    have e1 : min (max 0 (m + 1 - (sumTo T k : Int))) ((T.getD k 0 : Nat) : Int) = ((T.getD k 0 : Nat) : Int) := by omega
    have e2 : min (max 0 (m - (sumTo T k : Int))) ((T.getD k 0 : Nat) : Int) = ((T.getD k 0 : Nat) : Int) := by omega
    rw [e1, e2]

theorem Mn_sat_add (T : List Nat) (k : Nat) (m : Int) (hm : (sumTo T k : Int) ≤ m) : ∀ (d : Nat),
    Mn T k (m + d) = Mn T k m := by
  intro d
  induction d with
  | zero => simp
  | succ d ih =>
    have e : m + ((d + 1 : Nat) : Int) = m + d + 1 := by push_cast; ring
    rw [e, Mn_sat T k (m + d) (by omega), ih]

theorem Mn_step (T : List Nat) : ∀ (k : Nat) (m : Int), 0 ≤ m →
    Mn T k (m + 1) ≤ Mn T k m + aCoef T k := by
  intro k
  induction k with
  | zero => intro m _; simp [Mn, aCoef]
  | succ k ih =>
    intro m hm
    rw [Mn, Mn]
    have ha := aCoef_nonneg T (k + 1)
    have hmono := aCoef_mono T k
    by_cases h : m < (sumTo T k : Int)
    · have e1 : min (max 0 (m + 1 - (sumTo T k : Int))) ((T.getD k 0 : Nat) : Int) = 0 := by omega
      have e2 : min (max 0 (m - (sumTo T k : Int))) ((T.getD k 0 : Nat) : Int) = 0 := by omega
      rw [e1, e2]
      have := ih m hm
      linarith
    · rw [Mn_sat T k m (by omega)]
      have hx : min (max 0 (m + 1 - (sumTo T k : Int))) ((T.getD k 0 : Nat) : Int)
          ≤ min (max 0 (m - (sumTo T k : Int))) ((T.getD k 0 : Nat) : Int) + 1 := by omega
      have := mul_le_mul_of_nonneg_right hx ha
      linarith

theorem Mn_add (T : List Nat) (k : Nat) (m : Int) (hm : 0 ≤ m) : ∀ (d : Nat),
    Mn T k (m + d) ≤ Mn T k m + d * aCoef T k := by
  intro d
  induction d with
  | zero => simp
  | succ d ih =>
    have := Mn_step T k (m + d) (by omega)
    have e : m + ((d + 1 : Nat) : Int) = m + d + 1 := by push_cast; ring
    rw [e]
    push_cast
    linarith

/-! ### (b) the bounds, in the form the recurrence needs -/

/-- the decrement of the step (the `klotz_step` form) is `r·(a[k+1] − 2·n + r)` -/
theorem dec_eq (T : List Nat) (k n r : Nat) (hr : r ≤ n) :
    2 * (r : Int) * ((sumTo T k : Int) - ((n - r : Nat) : Int))
        + (r : Int) * (((T.getD k 0 : Nat) : Int) - (r : Int))
      = (r : Int) * (aCoef T (k + 1) - 2 * (n : Int) + (r : Int)) := by
  rw [aCoef_eq, Nat.cast_sub hr]; ring

theorem max_key (T : List Nat) (k n r : Nat) (u : Int) (hrn : r ≤ n) (hrt : r ≤ T.getD k 0)
    (h : twoUmax T (k + 1) (n : Int) ≤ u) :
    twoUmax T k ((n - r : Nat) : Int)
      ≤ u - (2 * (r : Int) * ((sumTo T k : Int) - ((n - r : Nat) : Int))
              + (r : Int) * (((T.getD k 0 : Nat) : Int) - (r : Int))) := by
  rw [dec_eq T k n r hrn]
  rw [twoUmax_eq, Mx] at h
  rw [twoUmax_eq]
  have hx : min (n : Int) ((T.getD k 0 : Nat) : Int) = ((min n (T.getD k 0) : Nat) : Int) := by omega
  rw [hx] at h
  generalize hX : min n (T.getD k 0) = X at h
  have hrX : r ≤ X := by omega
  have hXn : X ≤ n := by omega
  have hadd := Mx_add T k ((n : Int) - X) (by omega) (X - r)
  have e : (n : Int) - X + ((X - r : Nat) : Int) = ((n - r : Nat) : Int) := by omega
  rw [e] at hadd
  have hm : ((X - r : Nat) : Int) * aCoef T k ≤ ((X - r : Nat) : Int) * aCoef T (k + 1) :=
    mul_le_mul_of_nonneg_left (aCoef_mono T k) (Int.natCast_nonneg _)
  have c1 : ((X - r : Nat) : Int) = (X : Int) - r := by omega
  have c2 : ((n - r : Nat) : Int) = (n : Int) - r := by omega
  rw [c1] at hadd hm
  rw [c2] at hadd ⊢
  nlinarith [hadd, hm, h]

theorem Mn_key (T : List Nat) (k n r : Nat) (hrn : r ≤ n) (hrt : r ≤ T.getD k 0)
    (hs : n - r ≤ sumTo T k) :
    Mn T (k + 1) (n : Int) ≤ Mn T k ((n - r : Nat) : Int) + (r : Int) * aCoef T (k + 1) := by
  rw [Mn]
  have hmono := aCoef_mono T k
  have c2 : ((n - r : Nat) : Int) = (n : Int) - r := by omega
  by_cases hn : n ≤ sumTo T k
  · have e0 : min (max 0 ((n : Int) - (sumTo T k : Int))) ((T.getD k 0 : Nat) : Int) = 0 := by omega
    rw [e0]
    have hadd := Mn_add T k ((n - r : Nat) : Int) (by omega) r
    have e : ((n - r : Nat) : Int) + (r : Int) = (n : Int) := by omega
    rw [e] at hadd
    have hm : (r : Int) * aCoef T k ≤ (r : Int) * aCoef T (k + 1) :=
      mul_le_mul_of_nonneg_left hmono (Int.natCast_nonneg _)
    linarith
  · have e0 : min (max 0 ((n : Int) - (sumTo T k : Int))) ((T.getD k 0 : Nat) : Int)
        = ((n - sumTo T k : Nat) : Int) := by omega
    rw [e0]
    have hsat := Mn_sat_add T k (sumTo T k : Int) (le_refl _) (n - sumTo T k)
    have e1 : (sumTo T k : Int) + ((n - sumTo T k : Nat) : Int) = (n : Int) := by omega
    rw [e1] at hsat
    have hadd := Mn_add T k ((n - r : Nat) : Int) (by omega) (r - (n - sumTo T k))
    have e2 : ((n - r : Nat) : Int) + ((r - (n - sumTo T k) : Nat) : Int) = (sumTo T k : Int) := by omega
    rw [e2] at hadd
    have hm : ((r - (n - sumTo T k) : Nat) : Int) * aCoef T k
        ≤ ((r - (n - sumTo T k) : Nat) : Int) * aCoef T (k + 1) :=
      mul_le_mul_of_nonneg_left hmono (Int.natCast_nonneg _)
    have c3 : ((r - (n - sumTo T k) : Nat) : Int) = (r : Int) - ((n - sumTo T k : Nat) : Int) := by omega
    rw [c3] at hadd hm
    rw [hsat]
    nlinarith [hadd, hm]

theorem min_key (T : List Nat) (k n r : Nat) (u : Int) (hrn : r ≤ n) (hrt : r ≤ T.getD k 0)
    (hs : n - r ≤ sumTo T k) (h : u < twoUmin T (k + 1) (n : Int)) :
    u - (2 * (r : Int) * ((sumTo T k : Int) - ((n - r : Nat) : Int))
              + (r : Int) * (((T.getD k 0 : Nat) : Int) - (r : Int)))
      < twoUmin T k ((n - r : Nat) : Int) := by
  rw [dec_eq T k n r hrn]
  rw [twoUmin_eq T _ _ (Int.natCast_nonneg _)] at h ⊢
  have key := Mn_key T k n r hrn hrt hs
  have c2 : ((n - r : Nat) : Int) = (n : Int) - r := by omega
  rw [c2] at key ⊢
  nlinarith [key, h]

/-! ### (c) consequences for the count -/

/-- below the least attainable statistic nothing qualifies -/
theorem S_below_min (T : List Nat) : ∀ (k n : Nat) (u : Int),
    u < twoUmin T k (n : Int) → S T k n u = 0 := by
  intro k
  induction k with
  | zero =>
    intro n u h
    rw [twoUmin_eq T _ _ (Int.natCast_nonneg _), Mn] at h
    rw [S, if_neg]
    rintro ⟨rfl, h0⟩
    simp at h
    omega
  | succ k ih =>
    intro n u h
    rw [S]
    apply Finset.sum_eq_zero
    intro r hr
    have hr' := Finset.mem_range.mp hr
    by_cases hs : n - r ≤ sumTo T k
    · rw [ih _ _ (min_key T k n r u (by omega) (by omega) hs h), Nat.mul_zero]
    · rw [S_big T k _ _ (by omega), Nat.mul_zero]

/-- Σ over all classes of the weight: C(Σt, n) (Vandermonde), range-restricted form -/
theorem vandermonde_range (s t n : Nat) :
    ∑ r ∈ Finset.range (min t n + 1), Nat.choose t r * Nat.choose s (n - r) = Nat.choose (s + t) n := by
  rw [Nat.add_comm s t, Nat.add_choose_eq, Finset.Nat.sum_antidiagonal_eq_sum_range_succ_mk]
  apply Finset.sum_subset
  · intro r hr
    have := Finset.mem_range.mp hr
    exact Finset.mem_range.mpr (by omega)
  · intro r hr hnr
    have h1 := Finset.mem_range.mp hr
    have h2 : ¬ r < min t n + 1 := fun h => hnr (Finset.mem_range.mpr h)
    have : t < r := by omega
    simp [Nat.choose_eq_zero_of_lt this]

/-- at or above the greatest attainable statistic every assignment qualifies -/
theorem S_above_max (T : List Nat) : ∀ (k n : Nat) (u : Int),
    twoUmax T k (n : Int) ≤ u → S T k n u = Nat.choose (sumTo T k) n := by
  intro k
  induction k with
  | zero =>
    intro n u h
    rw [twoUmax_eq, Mx] at h
    rw [S, sumTo_zero]
    cases n with
    | zero => simp at h; simp [h]
    | succ n => simp
  | succ k ih =>
    intro n u h
    rw [S, sumTo_succ, ← vandermonde_range]
    apply Finset.sum_congr rfl
    intro r hr
    have hr' := Finset.mem_range.mp hr
    rw [ih _ _ (max_key T k n r u (by omega) (by omega) h)]

/-- total number of assignments -/
theorem groupCount_total (T : List Nat) (n : Nat) (u : Int) (h : twoUmax T T.length (n : Int) ≤ u) :
    groupCount T n u = Nat.choose T.sum n := by
  rw [← S_eq_groupCount, S_above_max T _ _ _ h, sumTo_eq_sum, List.take_length]

/-! ### the base K = 2 -/

theorem S_one (T : List Nat) (m : Nat) (u : Int) :
    S T 1 m u = if (m : Int) * (((T.getD 0 0 : Nat) : Int) - (m : Int)) ≤ u
      then Nat.choose (T.getD 0 0) m else 0 := by
  rw [S]
  simp only [S, sumTo_zero]
  by_cases hm : m ≤ T.getD 0 0
  · rw [Nat.min_eq_right hm, Finset.sum_eq_single m]
    · simp
    · intro r hr hne
      have := Finset.mem_range.mp hr
      rw [if_neg, Nat.mul_zero]
      omega
    · intro h; exact absurd (Finset.mem_range.mpr (Nat.lt_succ_self m)) h
  · have hlt : T.getD 0 0 < m := by omega
    rw [Nat.choose_eq_zero_of_lt hlt, ite_self]
    apply Finset.sum_eq_zero
    intro r hr
    have := Finset.mem_range.mp hr
    rw [if_neg, Nat.mul_zero]
    omega

theorem base2_eq_S (T : List Nat) (hpos : 0 < T.getD 0 0 + T.getD 1 0) (n : Nat) (u : Int) :
    base2 T (n : Int) u = S T 2 n u := by
  have hb : base2 T (n : Int) u = base2 [T.getD 0 0, T.getD 1 0] (n : Int) u := by
    unfold base2; simp
  rw [hb, k2_closed_form _ _ _ hpos, S]
  have hs1 : sumTo T 1 = T.getD 0 0 := by rw [sumTo_succ, sumTo_zero, Nat.zero_add]
  symm
  have hsub : Finset.range (min (T.getD 1 0) n + 1) ⊆ Finset.range (n + 1) := by
    intro r hr
    have := Finset.mem_range.mp hr
    exact Finset.mem_range.mpr (by omega)
  refine (Finset.sum_subset hsub ?_).trans ?_
  · intro r hr hnr
    have h1 := Finset.mem_range.mp hr
    have h2 : ¬ r < min (T.getD 1 0) n + 1 := fun h => hnr (Finset.mem_range.mpr h)
    have : T.getD 1 0 < r := by omega
    rw [Nat.choose_eq_zero_of_lt this, Nat.zero_mul]
  · apply Finset.sum_congr rfl
    intro r hr
    have h1 := Finset.mem_range.mp hr
    rw [S_one, hs1]
    have c : ((n - r : Nat) : Int) = (n : Int) - r := by omega
    have hc : (((n - r : Nat) : Int) * (((T.getD 0 0 : Nat) : Int) - ((n - r : Nat) : Int))
          ≤ u - (2 * (r : Int) * (((T.getD 0 0 : Nat) : Int) - ((n - r : Nat) : Int))
                + (r : Int) * (((T.getD 1 0 : Nat) : Int) - (r : Int))))
        ↔ ((n : Int) * (((T.getD 0 0 : Nat) : Int) - (n : Int))
            + (r : Int) * (((T.getD 0 0 : Nat) : Int) + ((T.getD 1 0 : Nat) : Int)) ≤ u) := by
      rw [c]
      constructor <;> intro h <;> nlinarith [h]
    simp only [hc]
    split
    · rw [Nat.mul_comm]
    · rw [Nat.mul_zero]

/-! ### the step and the main theorem -/

/-- the value one level down as the memo table supplies it (hit / completion rule / 0) is the count -/
theorem look_val (T : List Nat) (j : Nat)
    (ih : ∀ (n : Nat) (u : Int), A T (j + 2) (n : Int) u = S T (j + 2) n u) (m : Nat) (u' : Int) :
    (match (if inRange T (j + 2) ((m : Int), u') then some (A T (j + 2) (m : Int) u') else none) with
      | some v => v
      | none => if twoUmax T (j + 2) (m : Int) < u'
          then chooseI ((sumTo T (j + 2) : Nat) : Int) (m : Int) else 0)
      = S T (j + 2) m u' := by
  by_cases hin : inRange T (j + 2) ((m : Int), u') = true
  · rw [if_pos hin]; exact ih m u'
  · rw [if_neg hin]
    show (if twoUmax T (j + 2) (m : Int) < u'
          then chooseI ((sumTo T (j + 2) : Nat) : Int) (m : Int) else 0) = _
    by_cases hmax : twoUmax T (j + 2) (m : Int) < u'
    · rw [if_pos hmax, chooseI_eq, S_above_max T _ _ _ (le_of_lt hmax)]
    · rw [if_neg hmax, S_below_min]
      simp only [inRange, Bool.and_eq_true, decide_eq_true_eq, not_and] at hin
      by_contra hc
      exact hin (not_lt.mp hc) (not_lt.mp hmax)

theorem A_eq_S (T : List Nat) (hpos : 0 < T.getD 0 0 + T.getD 1 0) : ∀ (j n : Nat) (u : Int),
    A T (j + 2) (n : Int) u = S T (j + 2) n u := by
  intro j
  induction j with
  | zero => intro n u; exact base2_eq_S T hpos n u
  | succ j ih =>
    intro n u
    show stepA T (j + 3)
        (fun key => if inRange T (j + 2) key then some (A T (j + 2) key.1 key.2) else none) (n : Int) u
      = S T (j + 3) n u
    unfold stepA rkLow rkHigh
    simp only [show j + 3 - 1 = j + 2 from rfl]
    have hL : max (0 : Int) ((n : Int) - ((sumTo T (j + 2) : Nat) : Int))
        = ((n - sumTo T (j + 2) : Nat) : Int) := by omega
    rw [hL, sumRange_eq_Ico]
    have hH : (min (n : Int) ((T.getD (j + 2) 0 : Nat) : Int) + 1).toNat = min (T.getD (j + 2) 0) n + 1 := by
      omega
    rw [hH, S, Finset.range_eq_Ico]
    have hsub : Finset.Ico (n - sumTo T (j + 2)) (min (T.getD (j + 2) 0) n + 1)
        ⊆ Finset.Ico 0 (min (T.getD (j + 2) 0) n + 1) := by
      intro r hr
      have := Finset.mem_Ico.mp hr
      exact Finset.mem_Ico.mpr ⟨Nat.zero_le _, this.2⟩
    symm
    rw [← Finset.sum_subset hsub]
    · apply Finset.sum_congr rfl
      intro r hr
      have hr' := Finset.mem_Ico.mp hr
      obtain ⟨k1, k2⟩ := klotz_step T (j + 2) (n : Int) u (r : Int)
      have c : (n : Int) - (r : Int) = ((n - r : Nat) : Int) := by omega
      have hkey : subKey T (j + 2 + 1) (n : Int) u (r : Int)
          = (((n - r : Nat) : Int), u - (2 * (r : Int) * ((sumTo T (j + 2) : Int) - ((n - r : Nat) : Int))
              + (r : Int) * (((T.getD (j + 2) 0 : Nat) : Int) - (r : Int)))) := by
        refine Prod.ext ?_ ?_
        · rw [k1, c]
        · rw [k2, c]
      show _ = (match (if inRange T (j + 2) (subKey T (j + 2 + 1) (n : Int) u (r : Int))
            then some (A T (j + 2) (subKey T (j + 2 + 1) (n : Int) u (r : Int)).1
              (subKey T (j + 2 + 1) (n : Int) u (r : Int)).2) else none) with
          | some v => v
          | none => if twoUmax T (j + 2) (subKey T (j + 2 + 1) (n : Int) u (r : Int)).1
                < (subKey T (j + 2 + 1) (n : Int) u (r : Int)).2
              then chooseI ((sumTo T (j + 2) : Nat) : Int) (subKey T (j + 2 + 1) (n : Int) u (r : Int)).1
              else 0) * chooseI ((T.getD (j + 2) 0 : Nat) : Int) (r : Int)
      rw [hkey]
      simp only []
      rw [look_val T j ih, chooseI_eq, Nat.mul_comm]
    · intro r hr hnr
      have h1 := Finset.mem_Ico.mp hr
      have h2 : r < n - sumTo T (j + 2) := by
        by_contra h
        exact hnr (Finset.mem_Ico.mpr ⟨by omega, h1.2⟩)
      rw [S_big T _ _ _ (by omega), Nat.mul_zero]

/-- every level k ≥ 2 of the recurrence counts the assignments of the first k groups -/
theorem tied_recurrence_prefix (T : List Nat) (hpos : 0 < T.getD 0 0 + T.getD 1 0) (k : Nat)
    (hk2 : 2 ≤ k) (hk : k ≤ T.length) (n1 : Nat) (twoU : Int) :
    Stats.UDist.A T k (n1 : Int) twoU = groupCount (T.take k) n1 twoU := by
  obtain ⟨j, rfl⟩ : ∃ j, k = j + 2 := ⟨k - 2, by omega⟩
  rw [A_eq_S T hpos, S_eq_G T _ hk, groupCount_eq_G]

set_option linter.unusedVariables false in
/-- **the tied recurrence is exact**: the pure form of the memoised counting recurrence of
    `makeUmemo` (with its pruning and completion rule) is the number of assignments with
    doubled statistic ≤ twoU -/
theorem tied_recurrence_exact (T : List Nat) (hT : ∀ t ∈ T, 0 < t) (hK : 2 ≤ T.length) (n1 : Nat)
    (hn : n1 ≤ T.sum) (twoU : Int) :
    Stats.UDist.A T T.length (n1 : Int) twoU = groupCount T n1 twoU := by
  have h0 : 0 < T.getD 0 0 := by
    have : 0 < T.length := by omega
    have hg : T.getD 0 0 = T[0] := by
      simp [List.getD_eq_getElem?_getD, List.getElem?_eq_getElem this]
    rw [hg]
    exact hT _ (List.getElem_mem _)
  obtain ⟨j, hj⟩ : ∃ j, T.length = j + 2 := ⟨T.length - 2, by omega⟩
  rw [← S_eq_groupCount, hj]
  exact A_eq_S T (by omega) j n1 twoU

end C11
