/-
The arithmetic operations as `roundQ ∘ exact`: `mul_eq`, `div_eq_roundQ`, `add_eq`, `sub`, `ofInt_eq`,
with commutativity, monotonicity and exactness consequences.
-/
import Proofs.Lemmas.F64RoundQ

namespace F64

theorem isNaN_of_finite {b : Bits} (h : isFinite b = true) : isNaN b = false := by
  rw [isNaN_false_iff]; rw [isFinite_iff] at h; omega
theorem isInf_of_finite {b : Bits} (h : isFinite b = true) : isInf b = false := by
  rw [isInf_false_iff]; rw [isFinite_iff] at h; omega

theorem toFrac_fst_pos {m : Nat} (e : Int) (h : 0 < m) : 0 < (toFrac m e).1 := by
  rw [toFrac_eq_scaled]; exact scaled_fst_pos 1 e h

theorem mant_pos_of_nonzero {b : Bits} (hz : isZero b = false) : 0 < mant b := by
  have := (isZero_false_iff b).mp hz
  have hF := fracField_lt b
  unfold magOf at this
  rw [mant_eq]; split
  · rename_i h; rw [h] at this; omega
  · omega

theorem val_pos_of_nonzero {b : Bits} (hz : isZero b = false) : 0 < val b :=
  mul_pos (by exact_mod_cast mant_pos_of_nonzero hz) (two_zpow_pos _)

theorem sval_eq_zero_of_isZero {b : Bits} (hz : isZero b = true) : sval b = 0 :=
  (sval_eq_zero_iff b).mpr hz

theorem sval_zero (s : Bool) : sval (zero s) = 0 := by
  apply sval_eq_zero_of_isZero; cases s <;> decide

theorem sval_mul_sign (a b : Bits) :
    sval a * sval b = if (signBit a != signBit b) then -(val a * val b) else val a * val b := by
  unfold sval; cases signBit a <;> cases signBit b <;> simp

theorem sval_div_sign (a b : Bits) :
    sval a / sval b = if (signBit a != signBit b) then -(val a / val b) else val a / val b := by
  unfold sval; cases signBit a <;> cases signBit b <;> simp [neg_div, div_neg]

/-! ### multiplication -/

/-- **mul_eq** — the product of finite non-zero floats is the rounded exact product. -/
theorem mul_eq (a b : Bits) (ha : isFinite a = true) (hb : isFinite b = true)
    (za : isZero a = false) (zb : isZero b = false) : mul a b = roundQ (sval a * sval b) := by
  unfold mul
  simp only [isNaN_of_finite ha, isNaN_of_finite hb, isInf_of_finite ha, isInf_of_finite hb, za, zb,
    Bool.or_self, Bool.false_eq_true, if_false]
  have hn : 0 < (toFrac (mant a * mant b) (expo a + expo b)).1 :=
    toFrac_fst_pos _ (Nat.mul_pos (mant_pos_of_nonzero za) (mant_pos_of_nonzero zb))
  show roundRat (signBit a != signBit b) (toFrac (mant a * mant b) (expo a + expo b)).1
    (toFrac (mant a * mant b) (expo a + expo b)).2 = _
  rw [roundRat_eq_roundQ _ _ _ hn (toFrac_snd_pos _ _), toFrac_ratio, sval_mul_sign]
  have : ((mant a * mant b : Nat) : ℚ) * (2 : ℚ) ^ (expo a + expo b) = val a * val b := by
    unfold val; rw [zpow_add₀ (by norm_num : (2 : ℚ) ≠ 0)]; push_cast; ring
  rw [this]

/-- for all finite operands (zeros included) the value of the product is the value of the rounded
exact product -/
theorem sval_mul (a b : Bits) (ha : isFinite a = true) (hb : isFinite b = true) :
    sval (mul a b) = sval (roundQ (sval a * sval b)) := by
  by_cases za : isZero a = true
  · have : mul a b = zero (signBit a != signBit b) := by
      unfold mul
      simp [isNaN_of_finite ha, isNaN_of_finite hb, isInf_of_finite ha, isInf_of_finite hb, za]
    rw [this, sval_zero, sval_eq_zero_of_isZero za, zero_mul, roundQ_zero]; decide +kernel
  by_cases zb : isZero b = true
  · have : mul a b = zero (signBit a != signBit b) := by
      unfold mul
      simp [isNaN_of_finite ha, isNaN_of_finite hb, isInf_of_finite ha, isInf_of_finite hb, zb]
    rw [this, sval_zero, sval_eq_zero_of_isZero zb, mul_zero, roundQ_zero]; decide +kernel
  rw [mul_eq a b ha hb (by simpa using za) (by simpa using zb)]

/-- **mul_comm** — for all patterns, NaN/Inf/zero cases included. -/
theorem mul_comm (a b : Bits) : mul a b = mul b a := by
  unfold mul
  rw [Bool.or_comm (isNaN a), Bool.or_comm (isInf a), Bool.or_comm (isZero a),
    Nat.mul_comm (mant a), Int.add_comm (expo a)]
  have : (signBit a != signBit b) = (signBit b != signBit a) := by
    cases signBit a <;> cases signBit b <;> rfl
  rw [this]

/-- **mul_mono** — multiplication by a positive finite float is monotone (all finite operands). -/
theorem mul_mono (a b c : Bits) (ha : isFinite a = true) (hb : isFinite b = true)
    (hc : isFinite c = true) (hpos : 0 ≤ sval c) (h : sval a ≤ sval b) :
    sval (mul a c) ≤ sval (mul b c) := by
  rw [sval_mul a c ha hc, sval_mul b c hb hc]
  exact roundQ_mono _ _ (mul_le_mul_of_nonneg_right h hpos)

/-! ### division -/

/-- **div_eq_roundQ** — the quotient of finite non-zero floats is the rounded exact quotient. -/
theorem div_eq_roundQ (a b : Bits) (ha : isFinite a = true) (hb : isFinite b = true)
    (za : isZero a = false) (zb : isZero b = false) : div a b = roundQ (sval a / sval b) := by
  have hma := mant_pos_of_nonzero za
  have hmb := mant_pos_of_nonzero zb
  have key : div a b = roundRat (signBit a != signBit b)
      (scaled (mant a) (mant b) (expo a - expo b)).1 (scaled (mant a) (mant b) (expo a - expo b)).2 := by
    unfold div
    simp only [isNaN_of_finite ha, isNaN_of_finite hb, isInf_of_finite ha, isInf_of_finite hb, za, zb,
      Bool.or_self, Bool.false_eq_true, if_false]
    simp only [scaled_fst, scaled_snd]
    split
    · rename_i h
      have : (-(expo a - expo b)).toNat = 0 := by omega
      rw [this]; simp
    · rename_i h
      have : (expo a - expo b).toNat = 0 := by omega
      rw [this]; simp
  rw [key, roundRat_eq_roundQ _ _ _ (scaled_fst_pos _ _ hma) (scaled_snd_pos _ _ hmb), scaled_ratio,
    sval_div_sign]
  have two_ne : (2 : ℚ) ≠ 0 := by norm_num
  have : (mant a : ℚ) / (mant b : ℚ) * (2 : ℚ) ^ (expo a - expo b) = val a / val b := by
    unfold val; rw [zpow_sub₀ two_ne, div_mul_div_comm]
  rw [this]

theorem sval_div (a b : Bits) (ha : isFinite a = true) (hb : isFinite b = true)
    (zb : isZero b = false) : sval (div a b) = sval (roundQ (sval a / sval b)) := by
  by_cases za : isZero a = true
  · have : div a b = zero (signBit a != signBit b) := by
      unfold div
      simp [isNaN_of_finite ha, isNaN_of_finite hb, isInf_of_finite ha, isInf_of_finite hb, za, zb]
    rw [this, sval_zero, sval_eq_zero_of_isZero za, zero_div, roundQ_zero]; decide +kernel
  rw [div_eq_roundQ a b ha hb (by simpa using za) zb]

/-- **div_mono_signed** — division by a positive finite float is monotone in the dividend, for
dividends of either sign (and zeros). -/
theorem div_mono_signed (a b f : Bits) (ha : isFinite a = true) (hb : isFinite b = true)
    (hf : isFinite f = true) (zf : isZero f = false) (hpos : 0 ≤ sval f) (h : sval a ≤ sval b) :
    sval (div a f) ≤ sval (div b f) := by
  rw [sval_div a f ha hf zf, sval_div b f hb hf zf]
  exact roundQ_mono _ _ (div_le_div_of_nonneg_right h hpos)

/-- a negative finite dividend gives the negated quotient of its absolute value -/
theorem div_neg_dividend (a f : Bits) (ha : isFinite a = true) (za : isZero a = false)
    (hf : isFinite f = true) (zf : isZero f = false) : div (neg a) f = neg (div a f) := by
  have hv : sval a / sval f ≠ 0 := by
    apply div_ne_zero
    · rw [Ne, sval_eq_zero_iff, za]; simp
    · rw [Ne, sval_eq_zero_iff, zf]; simp
  rw [div_eq_roundQ (neg a) f (by rw [isFinite_neg]; exact ha) hf (by rw [isZero_neg]; exact za) zf,
    div_eq_roundQ a f ha hf za zf, sval_neg, neg_div, roundQ_neg _ hv]

/-! ### addition -/

/-- **add_eq** — for finite operands the sum is the rounded exact sum; an exact zero sum gives +0
except for (−x) + (−y) with both negative (only −0 + −0), which gives −0. -/
theorem add_eq (a b : Bits) (ha : isFinite a = true) (hb : isFinite b = true) :
    add a b = if sval a + sval b = 0 then (if signBit a && signBit b then negZero else posZero)
              else roundQ (sval a + sval b) := by
  have two_ne : (2 : ℚ) ≠ 0 := by norm_num
  unfold add
  simp only [isNaN_of_finite ha, isNaN_of_finite hb, isInf_of_finite ha, isInf_of_finite hb,
    Bool.or_self, Bool.false_eq_true, if_false]
  generalize he : (if expo a ≤ expo b then expo a else expo b) = e
  have hea : e ≤ expo a := by rw [← he]; split <;> omega
  have heb : e ≤ expo b := by rw [← he]; split <;> omega
  have cast_shift : ∀ (m : Nat) (x : Int), e ≤ x →
      (((m * 2 ^ (x - e).toNat : Nat) : Int) : ℚ) * (2 : ℚ) ^ e = (m : ℚ) * (2 : ℚ) ^ x := by
    intro m x hx
    obtain ⟨k, hk⟩ := Int.eq_ofNat_of_zero_le (by omega : 0 ≤ x - e)
    have hx' : x = e + k := by omega
    rw [hk, Int.toNat_natCast, hx', zpow_add₀ two_ne, zpow_natCast]; push_cast; ring
  have hsa : (((if signBit a then -((mant a * 2 ^ (expo a - e).toNat : Nat) : Int)
      else ((mant a * 2 ^ (expo a - e).toNat : Nat) : Int)) : Int) : ℚ) * (2 : ℚ) ^ e = sval a := by
    unfold sval val
    cases signBit a
    · simp only [Bool.false_eq_true, if_false]; exact cast_shift _ _ hea
    · simp only [if_true]; rw [Int.cast_neg, neg_mul, cast_shift _ _ hea]
  have hsb : (((if signBit b then -((mant b * 2 ^ (expo b - e).toNat : Nat) : Int)
      else ((mant b * 2 ^ (expo b - e).toNat : Nat) : Int)) : Int) : ℚ) * (2 : ℚ) ^ e = sval b := by
    unfold sval val
    cases signBit b
    · simp only [Bool.false_eq_true, if_false]; exact cast_shift _ _ heb
    · simp only [if_true]; rw [Int.cast_neg, neg_mul, cast_shift _ _ heb]
  generalize (if signBit a then -((mant a * 2 ^ (expo a - e).toNat : Nat) : Int)
      else ((mant a * 2 ^ (expo a - e).toNat : Nat) : Int)) = sa at hsa ⊢
  generalize (if signBit b then -((mant b * 2 ^ (expo b - e).toNat : Nat) : Int)
      else ((mant b * 2 ^ (expo b - e).toNat : Nat) : Int)) = sb at hsb ⊢
  have hsum : ((sa + sb : Int) : ℚ) * (2 : ℚ) ^ e = sval a + sval b := by
    rw [← hsa, ← hsb]; push_cast; ring
  have hp := two_zpow_pos e
  by_cases h0 : sa + sb = 0
  · have : sval a + sval b = 0 := by rw [← hsum, h0]; simp
    simp only [h0, this, beq_self_eq_true, if_true]
  · have hne : sval a + sval b ≠ 0 := by
      rw [← hsum]
      exact mul_ne_zero (by exact_mod_cast h0) hp.ne'
    have hb0 : ((sa + sb == 0) = false) := by simpa using h0
    simp only [hb0, hne, Bool.false_eq_true, if_false]
    show roundRat (decide (sa + sb < 0)) (toFrac (sa + sb).natAbs e).1 (toFrac (sa + sb).natAbs e).2 = _
    have hn : 0 < (toFrac (sa + sb).natAbs e).1 := toFrac_fst_pos _ (Int.natAbs_pos.mpr h0)
    rw [roundRat_eq_roundQ _ _ _ hn (toFrac_snd_pos _ _), toFrac_ratio]
    congr 1
    rw [← hsum, Nat.cast_natAbs, Int.cast_abs]
    by_cases hneg : sa + sb < 0
    · have : (((sa + sb : Int)) : ℚ) < 0 := by exact_mod_cast hneg
      simp only [hneg, decide_true, if_true]
      rw [abs_of_neg this]; ring
    · have : (0 : ℚ) ≤ ((sa + sb : Int) : ℚ) := by exact_mod_cast (not_lt.mp hneg)
      simp only [hneg, decide_false, Bool.false_eq_true, if_false]
      rw [abs_of_nonneg this]

theorem sval_posZero : sval posZero = 0 := sval_zero false
theorem sval_negZero : sval negZero = 0 := sval_zero true

theorem sval_add (a b : Bits) (ha : isFinite a = true) (hb : isFinite b = true) :
    sval (add a b) = sval (roundQ (sval a + sval b)) := by
  rw [add_eq a b ha hb]
  split
  · rename_i h
    rw [h, roundQ_zero, sval_posZero]
    split
    · exact sval_negZero
    · exact sval_posZero
  · rfl

theorem add_isNaN (a b : Bits) (ha : isFinite a = true) (hb : isFinite b = true) :
    isNaN (add a b) = false := by
  rw [add_eq a b ha hb]
  split
  · split <;> decide
  · exact roundQ_isNaN _

/-- **add_mono** — addition is monotone in the first argument (finite operands). -/
theorem add_mono_left (a a' b : Bits) (ha : isFinite a = true) (ha' : isFinite a' = true)
    (hb : isFinite b = true) (h : sval a ≤ sval a') : sval (add a b) ≤ sval (add a' b) := by
  rw [sval_add a b ha hb, sval_add a' b ha' hb]
  exact roundQ_mono _ _ (by linarith)

/-- … and in the second -/
theorem add_mono_right (a b b' : Bits) (ha : isFinite a = true) (hb : isFinite b = true)
    (hb' : isFinite b' = true) (h : sval b ≤ sval b') : sval (add a b) ≤ sval (add a b') := by
  rw [sval_add a b ha hb, sval_add a b' ha hb']
  exact roundQ_mono _ _ (by linarith)

theorem add_mono_le (a a' b b' : Bits) (ha : isFinite a = true) (ha' : isFinite a' = true)
    (hb : isFinite b = true) (hb' : isFinite b' = true) (h1 : le a a' = true) (h2 : le b b' = true) :
    le (add a b) (add a' b') = true := by
  rw [le_iff_sval _ _ (isNaN_of_finite ha) (isNaN_of_finite ha')] at h1
  rw [le_iff_sval _ _ (isNaN_of_finite hb) (isNaN_of_finite hb')] at h2
  rw [le_iff_sval _ _ (add_isNaN a b ha hb) (add_isNaN a' b' ha' hb')]
  exact _root_.le_trans (add_mono_left a a' b ha ha' hb h1) (add_mono_right a' b b' ha' hb hb' h2)

/-- **add_exact** — if the exact sum of finite a, b is the value of a finite non-zero float x, the
result is x. -/
theorem add_exact (a b x : Bits) (ha : isFinite a = true) (hb : isFinite b = true)
    (hx : isFinite x = true) (zx : isZero x = false) (h : sval x = sval a + sval b) : add a b = x := by
  have hne : sval a + sval b ≠ 0 := by
    rw [← h, Ne, sval_eq_zero_iff, zx]; simp
  rw [add_eq a b ha hb, if_neg hne, ← h, roundQ_exact x hx zx]

/-- **add_comm** — for all patterns (NaN, ±Inf, ±0 included). -/
theorem add_comm (a b : Bits) : add a b = add b a := by
  by_cases na : isNaN a = true
  · unfold add; simp [na]
  by_cases nb : isNaN b = true
  · unfold add; simp [nb]
  have na' : isNaN a = false := by simpa using na
  have nb' : isNaN b = false := by simpa using nb
  by_cases ia : isInf a = true
  · by_cases ib : isInf b = true
    · unfold add
      simp only [na', nb', ia, ib, Bool.or_self, Bool.false_eq_true, if_false, if_true, Bool.true_and]
      cases hsa : signBit a <;> cases hsb : signBit b <;> simp
      · exact eq_of_sign_mag _ _ (by rw [hsa, hsb]) (by rw [(isInf_iff a).mp ia, (isInf_iff b).mp ib])
      · exact eq_of_sign_mag _ _ (by rw [hsa, hsb]) (by rw [(isInf_iff a).mp ia, (isInf_iff b).mp ib])
    · have ib' : isInf b = false := by simpa using ib
      unfold add
      simp [na', nb', ia, ib']
  · have ia' : isInf a = false := by simpa using ia
    by_cases ib : isInf b = true
    · unfold add
      simp [na', nb', ia', ib]
    · have ib' : isInf b = false := by simpa using ib
      have fa : isFinite a = true := by
        rw [isFinite_iff]; rw [isNaN_false_iff] at na'; rw [isInf_false_iff] at ia'; omega
      have fb : isFinite b = true := by
        rw [isFinite_iff]; rw [isNaN_false_iff] at nb'; rw [isInf_false_iff] at ib'; omega
      rw [add_eq a b fa fb, add_eq b a fb fa, _root_.add_comm (sval a), Bool.and_comm]

/-! ### subtraction -/

theorem sub_eq (a b : Bits) (hb : isNaN b = false) : sub a b = add a (neg b) := by
  unfold sub; simp [hb]

theorem sval_sub (a b : Bits) (ha : isFinite a = true) (hb : isFinite b = true) :
    sval (sub a b) = sval (roundQ (sval a - sval b)) := by
  rw [sub_eq a b (isNaN_of_finite hb), sval_add a (neg b) ha (by rw [isFinite_neg]; exact hb), sval_neg,
    sub_eq_add_neg]

/-- **sub_self** — x − x = +0 for every finite x. -/
theorem sub_self (a : Bits) (ha : isFinite a = true) : sub a a = posZero := by
  rw [sub_eq a a (isNaN_of_finite ha), add_eq a (neg a) ha (by rw [isFinite_neg]; exact ha), sval_neg,
    add_neg_cancel, if_pos rfl, signBit_neg]
  cases signBit a <;> rfl

theorem sub_exact (a b x : Bits) (ha : isFinite a = true) (hb : isFinite b = true)
    (hx : isFinite x = true) (zx : isZero x = false) (h : sval x = sval a - sval b) : sub a b = x := by
  rw [sub_eq a b (isNaN_of_finite hb)]
  apply add_exact a (neg b) x ha (by rw [isFinite_neg]; exact hb) hx zx
  rw [sval_neg, h, sub_eq_add_neg]

/-! ### integers -/

/-- **ofInt_eq** — `float64(i)` is the rounded integer (i = 0 gives +0 = `roundQ 0`). -/
theorem ofInt_eq (i : Int) : ofInt i = roundQ (i : ℚ) := by
  unfold ofInt
  by_cases h0 : i = 0
  · subst h0; simp [roundQ_zero]
  · have hb : (i == 0) = false := by simpa using h0
    simp only [hb, Bool.false_eq_true, if_false]
    rw [roundRat_eq_roundQ _ _ _ (Int.natAbs_pos.mpr h0) (by decide)]
    congr 1
    rw [Nat.cast_one, div_one, Nat.cast_natAbs, Int.cast_abs]
    by_cases hneg : i < 0
    · have : ((i : Int) : ℚ) < 0 := by exact_mod_cast hneg
      simp only [hneg, decide_true, if_true]; rw [abs_of_neg this]; ring
    · have : (0 : ℚ) ≤ ((i : Int) : ℚ) := by exact_mod_cast (not_lt.mp hneg)
      simp only [hneg, decide_false, Bool.false_eq_true, if_false]; rw [abs_of_nonneg this]

theorem two_pow_53_lt : ((2 : ℚ) ^ 53) < (2 : ℚ) ^ (1024 : Int) := by
  have : (2 : ℚ) ^ 53 = (2 : ℚ) ^ (53 : Int) := by norm_num
  rw [this]; exact zpow_lt_zpow_right₀ (by norm_num) (by norm_num)

/-- **ofInt_exact** — integers of magnitude below 2^53 convert exactly. -/
theorem ofInt_exact (i : Int) (h : i.natAbs < 2 ^ 53) :
    sval (ofInt i) = (i : ℚ) ∧ isFinite (ofInt i) = true := by
  rw [ofInt_eq]
  apply roundQ_dyadic (i : ℚ) i.natAbs 0 h (by norm_num)
  · rw [zpow_zero, _root_.mul_one, Nat.cast_natAbs, Int.cast_abs]
  · have : |(i : ℚ)| = ((i.natAbs : Nat) : ℚ) := by rw [Nat.cast_natAbs, Int.cast_abs]
    rw [this]
    have : ((i.natAbs : Nat) : ℚ) < ((2 ^ 53 : Nat) : ℚ) := by exact_mod_cast h
    push_cast at this
    exact lt_trans this two_pow_53_lt

theorem ofInt_mono (i j : Int) (h : i ≤ j) : sval (ofInt i) ≤ sval (ofInt j) := by
  rw [ofInt_eq, ofInt_eq]; exact roundQ_mono _ _ (by exact_mod_cast h)

/-! ### scaling by two -/

def two : Bits := 0x4000000000000000

theorem sval_two : sval two = 2 := by
  have h1 : signBit two = false := by decide
  have h2 : mant two = 2 ^ 52 := by decide
  have h3 : expo two = -51 := by decide
  unfold sval val; rw [h1, h2, h3]; norm_num

theorem val_lt_of_expField (x : Bits) (k : Int) (h : (expField x : Int) - 1074 ≤ k) (hk : -1074 ≤ k) :
    val x < (2 : ℚ) ^ (52 + k) := by
  have hb := (val_bounds x).2 (fracField_lt x)
  rw [zpow_add₀ (by norm_num : (2 : ℚ) ≠ 0)]
  refine lt_of_lt_of_le hb (mul_le_mul_of_nonneg_left ?_ (two_zpow_pos _).le)
  apply zpow_le_zpow_right₀ (by norm_num)
  split <;> omega

theorem abs_sval (x : Bits) : |sval x| = val x := by
  rw [← sval_abs]; unfold sval; rw [signBit_abs, val_abs]; simp

/-- **mul_two_exact** — doubling is exact for every finite x whose exponent field is below 2046
(i.e. unless 2x overflows); subnormals included. -/
theorem mul_two_exact (x : Bits) (hx : isFinite x = true) (he : expField x < 2046) :
    sval (mul x two) = 2 * sval x ∧ isFinite (mul x two) = true := by
  have two_ne : (2 : ℚ) ≠ 0 := by norm_num
  have hq : |2 * sval x| = (mant x : ℚ) * (2 : ℚ) ^ (expo x + 1) := by
    rw [abs_mul, abs_sval, abs_of_pos (by norm_num : (0 : ℚ) < 2)]
    unfold val; rw [zpow_add_one₀ two_ne]; ring
  have hov : |2 * sval x| < (2 : ℚ) ^ (1024 : Int) := by
    rw [abs_mul, abs_sval, abs_of_pos (by norm_num : (0 : ℚ) < 2)]
    have := val_lt_of_expField x 971 (by omega) (by norm_num)
    have e : (2 : ℚ) ^ (1024 : Int) = 2 * (2 : ℚ) ^ ((52 : Int) + 971) := by
      rw [show (1024 : Int) = (52 + 971) + 1 by norm_num, zpow_add_one₀ two_ne]; ring
    rw [e]; linarith
  obtain ⟨h1, h2⟩ := roundQ_dyadic (2 * sval x) (mant x) (expo x + 1) (mant_lt x)
    (by have := expo_ge x; omega) hq hov
  by_cases zx : isZero x = true
  · have hm : mul x two = zero (signBit x != signBit two) := by
      unfold mul
      simp [isNaN_of_finite hx, isInf_of_finite hx, zx, show isNaN two = false by decide,
        show isInf two = false by decide]
    rw [hm, sval_zero, sval_eq_zero_of_isZero zx]
    exact ⟨by ring, by cases (signBit x != signBit two) <;> decide⟩
  · rw [mul_eq x two hx (by decide) (by simpa using zx) (by decide), sval_two, _root_.mul_comm]
    exact ⟨h1, h2⟩

/-- **div_two** — halving is exact for every finite x with exponent field ≥ 2 (no underflow). -/
theorem div_two (x : Bits) (hx : isFinite x = true) (he : 2 ≤ expField x) :
    sval (div x two) = sval x / 2 ∧ isFinite (div x two) = true := by
  have two_ne : (2 : ℚ) ≠ 0 := by norm_num
  have hEx : expo x = (expField x : Int) - 1075 := by rw [expo_eq, if_neg (by omega)]
  have hq : |sval x / 2| = (mant x : ℚ) * (2 : ℚ) ^ (expo x - 1) := by
    rw [abs_div, abs_sval, abs_of_pos (by norm_num : (0 : ℚ) < 2)]
    unfold val; rw [zpow_sub_one₀ two_ne]; ring
  have hfin := (isFinite_iff x).mp hx
  have hE : expField x ≤ 2046 := by
    have := fracField_lt x; unfold magOf at hfin; omega
  have hov : |sval x / 2| < (2 : ℚ) ^ (1024 : Int) := by
    rw [abs_div, abs_sval, abs_of_pos (by norm_num : (0 : ℚ) < 2)]
    have hlt := val_lt_of_expField x 972 (by omega) (by norm_num)
    have e : (52 : Int) + 972 = 1024 := by norm_num
    rw [e] at hlt
    have hv := val_nonneg x
    exact lt_of_le_of_lt (half_le_self hv) hlt
  obtain ⟨h1, h2⟩ := roundQ_dyadic (sval x / 2) (mant x) (expo x - 1) (mant_lt x)
    (by omega) hq hov
  have zx : isZero x = false := by
    rw [isZero_false_iff]; unfold magOf
    have := Nat.mul_le_mul_right (2 ^ 52) he; omega
  rw [div_eq_roundQ x two hx (by decide) zx (by decide), sval_two]
  exact ⟨h1, h2⟩

/-- instances -/
example : sub 0x3FF0000000000000 0x3FF0000000000000 = posZero := sub_self _ (by decide)
example : add negZero negZero = negZero := by decide +kernel
example : sval (mul 0x0000000000000003 two) = 2 * sval 0x0000000000000003 :=
  (mul_two_exact _ (by decide) (by decide)).1
example : sval (div 0x4008000000000000 two) = sval 0x4008000000000000 / 2 :=
  (div_two _ (by decide) (by decide)).1
example : sval (ofInt 9007199254740991) = 9007199254740991 := by
  have := (ofInt_exact 9007199254740991 (by decide)).1
  simpa using this

end F64
