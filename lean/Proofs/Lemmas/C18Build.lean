/-
C18 helper: what `Builder.Add` accumulates.  After adding any sequence of measurements, the test
cell of (trial, numerator hash) holds exactly the values of the numerator measurements with that
trial and hash, and the baseline cell of a trial holds exactly the values of its denominator
measurements (with the first one's denominator hash), in insertion order.
-/
import Proofs.Lemmas.C18Order
import Model.Spec.Series
import Mathlib.Data.List.Induction

namespace C18
open Series

theorem build_snoc (o : Opts) (evs : List Ev) (e : Ev) : build o (evs ++ [e]) = add o (build o evs) e := by
  simp [build, List.foldl_append]

/-- is `e` a numerator measurement of the test cell `key`? -/
def hitsTest (o : Opts) (key : TrialKey × Bytes) (e : Ev) : Bool :=
  !e.isDen o && e.isNum o && decide (key = (e.trial, e.nh))

theorem add_tests (o : Opts) (b : Builder) (e : Ev) (key : TrialKey × Bytes) :
    alookup key (add o b e).tests =
      if hitsTest o key e then some ((alookup key b.tests).getD [] ++ [e.val]) else alookup key b.tests := by
  unfold add hitsTest
  by_cases hd : e.isDen o = true
  · simp only [hd, if_true, Bool.not_true, Bool.false_and, Bool.false_eq_true, if_false]
    cases alookup e.trial b.base with
    | none => rfl
    | some p => rfl
  · simp only [hd, Bool.false_eq_true, if_false] at *
    simp only [Bool.not_false, Bool.true_and]
    by_cases hn : e.isNum o = true
    · simp only [hn, if_true, Bool.true_and, decide_eq_true_eq]
      by_cases hk : key = (e.trial, e.nh)
      · subst hk
        simp only [if_true]
        cases hl : alookup (e.trial, e.nh) b.tests with
        | none => simp [alookup_aset_eq]
        | some vs => simp [alookup_aset_eq]
      · simp only [hk, if_false]
        cases hl : alookup (e.trial, e.nh) b.tests with
        | none => simp [alookup_aset_ne hk]
        | some vs => simp [alookup_aset_ne hk]
    · simp [hn]

/-- the numerator cell of `key` holds exactly the matching measurements, in insertion order -/
theorem tests_exact (o : Opts) (evs : List Ev) (key : TrialKey × Bytes) :
    alookup key (build o evs).tests =
      (match evs.filter (hitsTest o key) with
       | [] => none
       | l => some (l.map (·.val))) := by
  induction evs using List.reverseRecOn with
  | nil => simp [build, alookup]
  | append_singleton evs e ih =>
    rw [build_snoc, add_tests, ih, List.filter_append]
    by_cases hh : hitsTest o key e = true
    · simp only [hh, if_true, List.filter_cons_of_pos, List.filter_nil]
      cases hf : evs.filter (hitsTest o key) with
      | nil => simp
      | cons x l => simp
    · have hh' : hitsTest o key e = false := by simpa using hh
      simp [hh']

/-- is `e` a denominator measurement of trial `k`? -/
def hitsBase (o : Opts) (k : TrialKey) (e : Ev) : Bool := e.isDen o && decide (e.trial = k)

theorem add_base (o : Opts) (b : Builder) (e : Ev) (k : TrialKey) :
    alookup k (add o b e).base =
      if hitsBase o k e then
        (match alookup k b.base with
         | none => some (e.dh, [e.val])
         | some (h, vs) => some (h, vs ++ [e.val]))
      else alookup k b.base := by
  unfold add hitsBase
  by_cases hd : e.isDen o = true
  · simp only [hd, if_true, Bool.true_and, decide_eq_true_eq]
    by_cases hk : e.trial = k
    · subst hk
      simp only [if_true]
      cases hl : alookup e.trial b.base with
      | none => simp [alookup_aset_eq]
      | some p => obtain ⟨h, vs⟩ := p; simp [alookup_aset_eq]
    · have hk' : k ≠ e.trial := fun h => hk h.symm
      simp only [hk, if_false]
      cases hl : alookup e.trial b.base with
      | none => simp [alookup_aset_ne hk']
      | some p => obtain ⟨h, vs⟩ := p; simp [alookup_aset_ne hk']
  · have hd' : e.isDen o = false := by simpa using hd
    simp only [hd', Bool.false_eq_true, if_false, Bool.false_and]
    by_cases hn : e.isNum o = true
    · simp only [hn, if_true]
      cases alookup (e.trial, e.nh) b.tests with
      | none => rfl
      | some vs => rfl
    · simp [hn]

/-- the baseline cell of a trial: the first denominator's hash, all denominators' values -/
theorem base_exact (o : Opts) (evs : List Ev) (k : TrialKey) :
    alookup k (build o evs).base =
      (match evs.filter (hitsBase o k) with
       | [] => none
       | e :: es => some (e.dh, (e :: es).map (·.val))) := by
  induction evs using List.reverseRecOn with
  | nil => simp [build, alookup]
  | append_singleton evs e ih =>
    rw [build_snoc, add_base, ih, List.filter_append]
    by_cases hh : hitsBase o k e = true
    · simp only [hh, if_true, List.filter_cons_of_pos, List.filter_nil]
      cases hf : evs.filter (hitsBase o k) with
      | nil => simp
      | cons x l => simp
    · have hh' : hitsBase o k e = false := by simpa using hh
      simp [hh']

/-- the canonical form of a sample depends on the multiset only -/
theorem sortBits_perm {l1 l2 : List Bits} (h : l1.Perm l2) : sortBits l1 = sortBits l2 := by
  unfold sortBits
  have p : (l1.mergeSort fun a b => decide (a.toNat ≤ b.toNat)).Perm (l2.mergeSort fun a b => decide (a.toNat ≤ b.toNat)) :=
    (List.mergeSort_perm _ _).trans (h.trans (List.mergeSort_perm _ _).symm)
  refine List.Perm.eq_of_pairwise ?_ (List.pairwise_mergeSort ?_ ?_ _) (List.pairwise_mergeSort ?_ ?_ _) p
  · intro a b _ _ h1 h2
    have h1 : a.toNat ≤ b.toNat := by simpa using h1
    have h2 : b.toNat ≤ a.toNat := by simpa using h2
    exact UInt64.toNat_inj.mp (Nat.le_antisymm h1 h2)
  · intro a b c h1 h2
    have h1 : a.toNat ≤ b.toNat := by simpa using h1
    have h2 : b.toNat ≤ c.toNat := by simpa using h2
    simpa using Nat.le_trans h1 h2
  · intro a b
    simp only [Bool.or_eq_true, decide_eq_true_eq]
    exact Nat.le_total _ _
  · intro a b c h1 h2
    have h1 : a.toNat ≤ b.toNat := by simpa using h1
    have h2 : b.toNat ≤ c.toNat := by simpa using h2
    simpa using Nat.le_trans h1 h2
  · intro a b
    simp only [Bool.or_eq_true, decide_eq_true_eq]
    exact Nat.le_total _ _

/-- value multisets of all cells are independent of the insertion order -/
theorem cells_perm (o : Opts) (evs1 evs2 : List Ev) (hp : evs1.Perm evs2) :
    (∀ key, (alookup key (build o evs1).tests).map sortBits = (alookup key (build o evs2).tests).map sortBits) ∧
    (∀ k, (alookup k (build o evs1).base).map (fun b => sortBits b.2) =
          (alookup k (build o evs2).base).map (fun b => sortBits b.2)) := by
  constructor
  · intro key
    rw [tests_exact, tests_exact]
    have p := hp.filter (hitsTest o key)
    cases h1 : evs1.filter (hitsTest o key) with
    | nil =>
      rw [h1] at p
      rw [p.symm.eq_nil]
    | cons x l =>
      cases h2 : evs2.filter (hitsTest o key) with
      | nil => rw [h1, h2] at p; exact absurd p.length_eq (by simp)
      | cons y l' =>
        rw [h1, h2] at p
        simp only [Option.map_some]
        rw [sortBits_perm (p.map _)]
  · intro k
    rw [base_exact, base_exact]
    have p := hp.filter (hitsBase o k)
    cases h1 : evs1.filter (hitsBase o k) with
    | nil =>
      rw [h1] at p
      rw [p.symm.eq_nil]
    | cons x l =>
      cases h2 : evs2.filter (hitsBase o k) with
      | nil => rw [h1, h2] at p; exact absurd p.length_eq (by simp)
      | cons y l' =>
        rw [h1, h2] at p
        simp only [Option.map_some]
        rw [sortBits_perm (p.map _)]

end C18
