/-
C03 — truncating runs of the decimal slow path, part 5: the mirrored slow path and the fully
mirrored `ParseFloat` agree with the specification on EVERY run — no "nothing was truncated"
condition.
-/
import Proofs.Lemmas.C03Mirror
import Proofs.Lemmas.C03TrFB
import Proofs.Lemmas.C03TrSet

namespace C03
open Num Spec.NumText F64

/-- a decimal that was not truncated follows its own value -/
theorem follows_self (d : Dc) (ht : d.trunc = false) : Follows d (dval d) 0 :=
  ⟨le_refl _, fun _ => rfl, fun h => (by rw [ht] at h; cases h), fun _ _ h => h⟩

/-- **floatBits_correct, all runs** — `decimal.floatBits` on a well-formed decimal that `set` did
not have to truncate returns the correctly rounded float64 of the decimal's exact value with the
range rule, whether or not the shifts overflow the 800-digit buffer. -/
theorem floatBits_correct_all (d0 : Dc) (hwf : WF d0) (ht0 : d0.trunc = false) :
    (floatBits d0).toExcept =
      if d0.d = [] then .ok (F64.zero d0.neg)
      else evalFrac d0.neg (decFrac (valOf 10 d0.d) (d0.dp - d0.d.length)).1 (decFrac (valOf 10 d0.d) (d0.dp - d0.d.length)).2 := by
  by_cases hemp : d0.d = []
  · have hfin : (floatBits d0).trunc = false := by
      rw [floatBits_eq]
      have : d0.d.isEmpty = true := by rw [hemp]; rfl
      rw [if_pos this]; exact ht0
    exact floatBits_correct d0 hwf ht0 hfin
  · rw [if_neg hemp]
    obtain ⟨_, hi, hpos⟩ := dval_bounds d0 hwf hemp
    have hfr := dval_frac d0
    have hdd := decFrac_snd_pos (valOf 10 d0.d) (d0.dp - d0.d.length)
    generalize (decFrac (valOf 10 d0.d) (d0.dp - d0.d.length)).1 = n0 at *
    generalize (decFrac (valOf 10 d0.d) (d0.dp - d0.d.length)).2 = dd0 at *
    have hn0 : 0 < n0 := by
      rcases Nat.eq_zero_or_pos n0 with h | h
      · rw [h] at hfr; simp at hfr; linarith
      · exact h
    exact floatBits_follows d0 hwf hemp (dval d0) n0 dd0 hn0 hdd hfr (le_refl _) (fun _ => follows_self d0 ht0) hi

/-- **the mirrored slow path = the specification, all runs** -/
theorem slowPathMirror_full (s : Bytes) (hu : underscoreOK s = true)
    (hmant : ∀ p, recognise s = some p → p.mant < 10 ^ 800) :
    (slowPathMirror s).toExcept =
      match recognise s with
      | none => .error .syntax
      | some p => if p.hex then .error .syntax else (clampP p (expGapS s)).eval := by
  obtain ⟨k1, k2, k3⟩ := decSet_spec s hu
  unfold slowPathMirror
  cases hrec : recognise s with
  | none => rw [k1 hrec]; rfl
  | some p =>
    simp only []
    cases hph : p.hex
    · obtain ⟨d, e1, e2, e3, e4, e5, e6⟩ := k3 p hrec hph (hmant p hrec)
      rw [e1]
      simp only [Bool.false_eq_true, if_false]
      have hfb := floatBits_correct_all d e2 e3
      have hte : (⟨(floatBits d).bits, if (floatBits d).ovf then some NumErr.range else none⟩ : FloatRes).toExcept
          = (floatBits d).toExcept := by
        unfold FloatRes.toExcept FbRes.toExcept
        cases (floatBits d).ovf <;> rfl
      rw [hte, hfb]
      by_cases hm0 : p.mant = 0
      · rw [if_pos (e5 hm0), eval_zero (clampP p (expGapS s)) hm0, e4]; rfl
      · obtain ⟨f1, f2⟩ := e6 hm0
        rw [if_neg f1, e4]
        symm
        apply eval_of_value (clampP p (expGapS s)) (Nat.pos_of_ne_zero hm0) _ _ (decFrac_snd_pos _ _)
        rw [dval_frac, f2]
    · rw [k2 p hrec hph]; rfl

/-- **parseFloatMirror_full** — the FULLY MIRRORED model of `bytesconv.ParseFloat(s, 64)` returns
exactly what `parseFloatSpec` says, for every byte string whose exponent literal is below the
clamp and whose mantissa has at most 800 significant digits — including every run on which the
multiprecision shifts overflow the 800-digit buffer and set `trunc`. -/
theorem parseFloatMirror_full (s : Bytes) (hlit : expLit s < 100000)
    (hmant : ∀ p, recognise s = some p → p.mant < 10 ^ 800) :
    (parseFloatMirror s).toExcept = parseFloatSpec s := by
  rw [parseFloatMirror_of_slow s (fun hu => slowPathMirror_full s hu hmant), parseFloatSpecG_small s hlit]

/-- **the mirrored slow path = the specification, every text outside the class of finding N3** —
also when the text has more than 800 significant digits (all the excess after the point), so
that `set` itself truncates -/
theorem slowPathMirror_all (s : Bytes) (hu : underscoreOK s = true)
    (hN3 : inClassN3 s = false) :
    (slowPathMirror s).toExcept =
      match recognise s with
      | none => .error .syntax
      | some p => if p.hex then .error .syntax else (clampP p (expGapS s)).eval := by
  obtain ⟨k1, k2, _⟩ := decSet_spec s hu
  have k3 := decSet_specT s hu
  unfold slowPathMirror
  cases hrec : recognise s with
  | none => rw [k1 hrec]; rfl
  | some p =>
    simp only []
    cases hph : p.hex
    · have hI : (mantDigits s).1.length ≤ 800 := by
        unfold inClassN3 at hN3
        rw [hrec] at hN3
        simp only [hph, Bool.not_false, Bool.true_and, decide_eq_false_iff_not] at hN3
        omega
      obtain ⟨d, e1, e2, e4, e5, e6⟩ := k3 p hrec hph hI
      rw [e1]
      simp only [Bool.false_eq_true, if_false]
      have hte : (⟨(floatBits d).bits, if (floatBits d).ovf then some NumErr.range else none⟩ : FloatRes).toExcept
          = (floatBits d).toExcept := by
        unfold FloatRes.toExcept FbRes.toExcept
        cases (floatBits d).ovf <;> rfl
      rw [hte]
      by_cases hm0 : p.mant = 0
      · obtain ⟨f1, f2⟩ := e5 hm0
        rw [floatBits_correct_all d e2 f2, if_pos f1, eval_zero (clampP p (expGapS s)) hm0, e4]; rfl
      · obtain ⟨f1, f2, f3, f4, f5⟩ := e6 hm0
        have hvpos : (0 : ℚ) < valueOf (clampP p (expGapS s)) := by
          obtain ⟨_, _, hp⟩ := dval_bounds d e2 f1
          linarith
        have hfr : (((decFrac p.mant (p.exp + expGapS s)).1 : Nat) : ℚ) / ((decFrac p.mant (p.exp + expGapS s)).2 : Nat) = valueOf (clampP p (expGapS s)) := by
          rw [decFrac_ratio]; unfold valueOf clampP; simp [hph]
        have hdd := decFrac_snd_pos p.mant (p.exp + expGapS s)
        generalize (decFrac p.mant (p.exp + expGapS s)).1 = n0 at *
        generalize (decFrac p.mant (p.exp + expGapS s)).2 = dd0 at *
        have hn0 : 0 < n0 := by
          rcases Nat.eq_zero_or_pos n0 with h | h
          · rw [h] at hfr; simp at hfr; linarith
          · exact h
        have hfol : d.dp ≤ 310 → Follows d (valueOf (clampP p (expGapS s))) 0 :=
          fun hdp => follows_of_floor d e2 f1 _ f2 f3 f4 f5 (by omega)
        rw [floatBits_follows d e2 f1 (valueOf (clampP p (expGapS s))) n0 dd0 hn0 hdd hfr f2 hfol (floor_hi d e2 f1 _ f3), e4]
        symm
        exact eval_of_value (clampP p (expGapS s)) (Nat.pos_of_ne_zero hm0) n0 dd0 hdd hfr
    · rw [k2 p hrec hph]; rfl

/-- **parseFloatMirror_all** — the FULLY MIRRORED model of `bytesconv.ParseFloat(s, 64)` equals
`parseFloatSpec` for EVERY byte string with an exponent literal below the clamp that is not in
the class of finding N3 — the same two hypotheses as `parseFloat_eq_spec` for the model with
the specified slow path. No condition on the run, none on the number of digits. -/
theorem parseFloatMirror_clamped (s : Bytes) (hN3 : inClassN3 s = false) :
    (parseFloatMirror s).toExcept = parseFloatSpecG (expGapS s) s :=
  parseFloatMirror_of_slow s (fun hu => slowPathMirror_all s hu hN3)

theorem parseFloatMirror_all (s : Bytes) (hlit : expLit s < 100000) (hN3 : inClassN3 s = false) :
    (parseFloatMirror s).toExcept = parseFloatSpec s := by
  rw [parseFloatMirror_clamped s hN3, parseFloatSpecG_small s hlit]

end C03
