/-
C03: assembling the paths — `ParseFloat` as a whole against `parseFloatSpec`.
Part 1: the specification's evaluation depends only on the value of the parsed numeral.
-/
import Proofs.Lemmas.C03HexSpec
import Proofs.Lemmas.C03ExactPath
import Proofs.Lemmas.C03Lang4
import Proofs.Lemmas.C03Special

namespace C03
open Num F64 Spec.NumText

/-- the exact value a parse denotes -/
def valueOf (p : Parsed) : ℚ := (p.mant : ℚ) * (if p.hex then (2 : ℚ) else 10) ^ p.exp

/-- rounding of a positive fraction with the range rule -/
def evalFrac (neg : Bool) (n d : Nat) : Except NumErr Bits :=
  if overflowThreshold * d ≤ n then .error .range else .ok (signed neg (roundMag n d))

theorem evalFrac_congr (neg : Bool) (n d n' d' : Nat) (hd : 0 < d) (hd' : 0 < d')
    (h : (n : ℚ) / d = (n' : ℚ) / d') : evalFrac neg n d = evalFrac neg n' d' := by
  unfold evalFrac
  rw [roundMag_congrQ n d n' d' hd hd' h]
  have hdq : (0 : ℚ) < d := by exact_mod_cast hd
  have hdq' : (0 : ℚ) < d' := by exact_mod_cast hd'
  have e1 : overflowThreshold * d ≤ n ↔ (overflowThreshold : ℚ) ≤ (n : ℚ) / d := by
    rw [le_div_iff₀ hdq]; exact_mod_cast Iff.rfl
  have e2 : overflowThreshold * d' ≤ n' ↔ (overflowThreshold : ℚ) ≤ (n' : ℚ) / d' := by
    rw [le_div_iff₀ hdq']; exact_mod_cast Iff.rfl
  have : (overflowThreshold * d ≤ n) ↔ (overflowThreshold * d' ≤ n') := by rw [e1, e2, h]
  by_cases hc : overflowThreshold * d ≤ n
  · rw [if_pos hc, if_pos (this.mp hc)]
  · rw [if_neg hc, if_neg (fun h' => hc (this.mpr h'))]

/-- the fraction the specification rounds for a decimal numeral -/
def decFrac (m : Nat) (e : Int) : Nat × Nat :=
  if e ≥ 0 then (m * 10 ^ e.toNat, 1) else (m, 10 ^ (-e).toNat)

theorem decFrac_snd_pos (m : Nat) (e : Int) : 0 < (decFrac m e).2 := by
  unfold decFrac; split
  · exact Nat.one_pos
  · exact Nat.pow_pos (by decide)

theorem decFrac_ratio (m : Nat) (e : Int) :
    (((decFrac m e).1 : Nat) : ℚ) / ((decFrac m e).2 : Nat) = (m : ℚ) * (10 : ℚ) ^ e := by
  unfold decFrac
  split
  · rename_i h
    obtain ⟨k, rfl⟩ := Int.eq_ofNat_of_zero_le h
    simp [zpow_natCast]
  · rename_i h
    obtain ⟨k, hk⟩ := Int.eq_ofNat_of_zero_le (show 0 ≤ -e by omega)
    have : e = -(k : Int) := by omega
    subst this
    simp [zpow_neg, zpow_natCast, div_eq_mul_inv]

theorem hT_pos : 0 < overflowThreshold := by decide +kernel

/-- `Parsed.eval` of a non-zero numeral is `evalFrac` of any fraction with the numeral's value -/
theorem eval_of_value (p : Parsed) (hm : 0 < p.mant) (n d : Nat) (hd : 0 < d)
    (h : (n : ℚ) / d = valueOf p) : p.eval = evalFrac p.neg n d := by
  have hmz : (p.mant == 0) = false := by simp; omega
  unfold Parsed.eval
  cases hh : p.hex
  · -- decimal
    simp only [Bool.false_eq_true, if_false]
    have hr := decFrac_ratio p.mant p.exp
    have hv : valueOf p = (p.mant : ℚ) * (10 : ℚ) ^ p.exp := by unfold valueOf; simp [hh]
    rw [evalFrac_congr p.neg n d _ _ hd (decFrac_snd_pos p.mant p.exp) (by rw [h, hv, hr])]
    unfold evalFrac overflows ofDecimal decFrac
    by_cases he : p.exp ≥ 0
    · simp only [he, if_true, hmz, Bool.false_eq_true, if_false, Nat.mul_one, ge_iff_le, decide_eq_true_eq,
        roundRat_eq_signed]
    · simp only [he, if_false, hmz, Bool.false_eq_true, ge_iff_le, decide_eq_true_eq, roundRat_eq_signed]
  · simp only [if_true]
    have hr := toFrac_ratio p.mant p.exp
    have hv : valueOf p = (p.mant : ℚ) * (2 : ℚ) ^ p.exp := by unfold valueOf; simp [hh]
    rw [evalFrac_congr p.neg n d _ _ hd (toFrac_snd_pos p.mant p.exp) (by rw [h, hv, hr])]
    rw [overflows_two]
    unfold evalFrac ofBinary
    simp only [hmz, Bool.false_eq_true, if_false, decide_eq_true_eq, roundRat_eq_signed]

theorem overflows_zero (b : Nat) (hb : 0 < b) (e : Int) : overflows b 0 e = false := by
  unfold overflows
  have hT := hT_pos
  split
  · have : ¬ (0 * b ^ e.toNat ≥ overflowThreshold) := by rw [Nat.zero_mul]; omega
    simpa using this
  · have := Nat.mul_pos hT (Nat.pow_pos (n := (-e).toNat) hb)
    have : ¬ (0 ≥ overflowThreshold * b ^ (-e).toNat) := by omega
    simpa using this

/-- a zero numeral evaluates to a signed zero, whatever its exponent -/
theorem eval_zero (p : Parsed) (hm : p.mant = 0) : p.eval = .ok (F64.zero p.neg) := by
  unfold Parsed.eval
  rw [hm, overflows_zero 2 (by decide), overflows_zero 10 (by decide)]
  cases p.hex <;> simp [ofBinary, ofDecimal]

/-! ### Part 2: the pieces -/

theorem eval_congr (p q : Parsed) (hn : p.neg = q.neg) (hh : p.hex = q.hex)
    (hz : p.mant = 0 ↔ q.mant = 0) (hv : p.mant ≠ 0 → valueOf p = valueOf q) : p.eval = q.eval := by
  by_cases h0 : p.mant = 0
  · rw [eval_zero p h0, eval_zero q (hz.mp h0), hn]
  · have hq0 : q.mant ≠ 0 := fun h => h0 (hz.mpr h)
    have hv' := hv h0
    -- a fraction with p's value
    cases hph : p.hex
    · have hr := decFrac_ratio p.mant p.exp
      have hvp : valueOf p = (p.mant : ℚ) * (10 : ℚ) ^ p.exp := by unfold valueOf; simp [hph]
      rw [eval_of_value p (Nat.pos_of_ne_zero h0) _ _ (decFrac_snd_pos p.mant p.exp) (by rw [hr, hvp]),
        eval_of_value q (Nat.pos_of_ne_zero hq0) _ _ (decFrac_snd_pos p.mant p.exp) (by rw [hr, ← hv', hvp]), hn]
    · have hr := toFrac_ratio p.mant p.exp
      have hvp : valueOf p = (p.mant : ℚ) * (2 : ℚ) ^ p.exp := by unfold valueOf; simp [hph]
      rw [eval_of_value p (Nat.pos_of_ne_zero h0) _ _ (toFrac_snd_pos p.mant p.exp) (by rw [hr, hvp]),
        eval_of_value q (Nat.pos_of_ne_zero hq0) _ _ (toFrac_snd_pos p.mant p.exp) (by rw [hr, ← hv', hvp]), hn]

/-- the numeral as the code reads it: `g` = what the clamp of the exponent digit loop adds to the
exponent (`expGapS`, 0 for every exponent literal below 100000) -/
def clampP (p : Parsed) (g : Int) : Parsed := { p with exp := p.exp + g }

theorem clampP_zero (p : Parsed) : clampP p 0 = p := by
  unfold clampP; simp

theorem agrees_clamp (r : RF) (p : Parsed) (g : Int) (ha : Agrees r p g) : Agrees r (clampP p g) 0 := by
  obtain ⟨a1, a2, a3, a4, a5, a6⟩ := ha
  refine ⟨a1, a2, a3, a4, fun ht => ?_, fun ht => ?_⟩
  · obtain ⟨j, h1, h2⟩ := a5 ht
    refine ⟨j, h1, fun hm => ?_⟩
    have := h2 hm
    show r.exp = (p.exp + g) + (((if p.hex then 4 else 1) * j : Nat) : Int) + 0
    rw [this]; ring
  · obtain ⟨j, h1, h2, h3, h4⟩ := a6 ht
    refine ⟨j, h1, h2, h3, ?_⟩
    show r.exp = (p.exp + g) + (((if p.hex then 4 else 1) * j : Nat) : Int) + 0
    rw [h4]; ring

/-- what `readFloat` returned denotes the same number as the (clamped) specification parse -/
theorem agrees_eval (r : RF) (p : Parsed) (ha : Agrees r p 0) (ht : r.trunc = false) :
    Parsed.eval { neg := r.neg, hex := r.hex, mant := r.mant, exp := r.exp } = p.eval := by
  obtain ⟨_, hneg, hhex, _, hval, _⟩ := ha
  obtain ⟨j, hM, hE⟩ := hval ht
  have hb : 0 < baseOf p.hex := by cases p.hex <;> decide
  apply eval_congr
  · exact hneg
  · exact hhex
  · show r.mant = 0 ↔ p.mant = 0
    rw [hM]
    constructor
    · intro h; rw [h]; simp
    · intro h
      rcases Nat.mul_eq_zero.mp h with h' | h'
      · exact h'
      · exact absurd h' (Nat.pos_iff_ne_zero.mp (Nat.pow_pos hb))
  · intro hm0
    have hE' := hE hm0
    rw [Int.add_zero] at hE'
    show valueOf { neg := r.neg, hex := r.hex, mant := r.mant, exp := r.exp } = valueOf p
    unfold valueOf
    simp only [hhex]
    rw [hM, hE']
    cases hph : p.hex
    · simp only [Bool.false_eq_true, if_false, baseOf, Nat.one_mul]
      rw [zpow_add₀ (by norm_num : (10 : ℚ) ≠ 0), zpow_natCast]
      push_cast; ring
    · simp only [if_true, baseOf]
      rw [zpow_add₀ (by norm_num : (2 : ℚ) ≠ 0), zpow_natCast]
      push_cast
      rw [pow_mul]
      norm_num
      ring

/-! ### Part 3: exact path never overflows; the slow path's shortcuts -/

theorem pow_bounds : (2 : Nat) ^ 52 * 10 ^ 37 < overflowThreshold ∧ (2 : Nat) ^ 52 < overflowThreshold ∧
    overflowThreshold < 10 ^ 309 := by decide +kernel

theorem exact_no_overflow (m : Nat) (e : Int) (neg : Bool) (f : Bits) (h : atof64exact m e neg = some f) :
    overflows 10 m e = false := by
  obtain ⟨b1, b2, _⟩ := pow_bounds
  have hm : m < 2 ^ 52 := by
    apply Classical.byContradiction; intro hc
    have : m >>> 52 ≠ 0 := fun h0 => hc (shr52 m h0)
    unfold atof64exact at h; simp [this] at h
  have he : e ≤ 37 := by
    apply Classical.byContradiction; intro hc
    unfold atof64exact at h
    have e0 : (e == 0) = false := by simp; omega
    have e1 : ¬ (e ≤ 15 + 22) := by omega
    have e2 : ¬ (e < 0) := by omega
    simp [e0, e1, e2] at h
    omega
  unfold overflows
  split
  · rename_i hge
    have h1 : (10 : Nat) ^ e.toNat ≤ 10 ^ 37 := Nat.pow_le_pow_right (by decide) (by omega)
    have h2 : m * 10 ^ e.toNat ≤ 2 ^ 52 * 10 ^ 37 := Nat.mul_le_mul (by omega) h1
    have : ¬ (m * 10 ^ e.toNat ≥ overflowThreshold) := by omega
    simpa using this
  · have h1 : overflowThreshold ≤ overflowThreshold * 10 ^ (-e).toNat :=
      Nat.le_mul_of_pos_right _ (Nat.pow_pos (by decide))
    have : ¬ (m ≥ overflowThreshold * 10 ^ (-e).toNat) := by omega
    simpa using this

/-- number of decimal digits -/
theorem toDigits_len (n : Nat) : n < 10 ^ (Nat.toDigits 10 n).length ∧
    (0 < n → 10 ^ ((Nat.toDigits 10 n).length - 1) ≤ n) := by
  induction n using Nat.strongRecOn with
  | _ n ih =>
    rw [Nat.toDigits_eq_if (by decide : 1 < 10)]
    by_cases h : n < 10
    · simp only [h, if_true, List.length_singleton]
      exact ⟨by omega, fun hp => by simp; omega⟩
    · simp only [h, if_false, List.length_append, List.length_singleton]
      have hlt : n / 10 < n := Nat.div_lt_self (by omega) (by decide)
      obtain ⟨a, b⟩ := ih (n / 10) hlt
      have hpos : 0 < n / 10 := Nat.div_pos (by omega) (by decide)
      have b' := b hpos
      have hL : 0 < (Nat.toDigits 10 (n / 10)).length := Nat.length_toDigits_pos
      generalize (Nat.toDigits 10 (n / 10)).length = L at *
      constructor
      · rw [Nat.pow_succ]; omega
      · intro _
        have : L + 1 - 1 = (L - 1) + 1 := by omega
        rw [this, Nat.pow_succ]; omega

theorem tiny_zero : roundMag 1 (10 ^ 330) = 0 := by decide +kernel

/-- a fraction at most 10^-330 rounds to zero -/
theorem roundMag_tiny (n d : Nat) (hd : 0 < d) (h : n * 10 ^ 330 ≤ d) : roundMag n d = 0 := by
  rcases Nat.eq_zero_or_pos n with h0 | hn
  · subst h0; simp [roundMag]
  · have := roundMag_mono n d 1 (10 ^ 330) hn hd (Nat.pow_pos (by decide)) (by omega)
    rw [tiny_zero] at this
    rw [← UInt64.toNat_inj]
    have : (roundMag n d).toNat = 0 := by
      have h0 : (0 : UInt64).toNat = 0 := rfl
      omega
    rw [this]; rfl

theorem signed_zero (neg : Bool) : signed neg 0 = F64.zero neg := by cases neg <;> decide

theorem eval_dec (p : Parsed) (hh : p.hex = false) (hm : 0 < p.mant) :
    p.eval = evalFrac p.neg (decFrac p.mant p.exp).1 (decFrac p.mant p.exp).2 := by
  apply eval_of_value p hm _ _ (decFrac_snd_pos _ _)
  rw [decFrac_ratio]; unfold valueOf; simp [hh]

/-- the core of the model's slow path on a decimal numeral (mantissa, exponent as the code reads
them): the two "obvious overflow / underflow" exits of `floatBits` agree with the range rule and
with the rounding of a tiny value to zero -/
theorem slowCore_spec (q : Parsed) (hhex : q.hex = false) :
    (if q.mant == 0 then (⟨F64.zero q.neg, none⟩ : FloatRes)
     else
       let dp : Int := ((Nat.toDigits 10 q.mant).length : Int) + q.exp
       if dp > 310 then ⟨F64.inf q.neg, some .range⟩
       else if dp < -330 then ⟨F64.zero q.neg, none⟩
       else match ({ q with mant := q.mant, exp := q.exp } : Parsed).eval with
         | .ok b => ⟨b, none⟩
         | .error _ => ⟨F64.inf q.neg, some .range⟩).toExcept = q.eval := by
  by_cases h0 : q.mant = 0
  · have : (q.mant == 0) = true := by simp [h0]
    simp only [this, if_true, FloatRes.toExcept]
    rw [eval_zero q h0]
  · have hz : (q.mant == 0) = false := by simpa using h0
    have hpos : 0 < q.mant := Nat.pos_of_ne_zero h0
    simp only [hz, Bool.false_eq_true, if_false]
    obtain ⟨L1, L2⟩ := toDigits_len q.mant
    have L2' := L2 hpos
    have hLpos : 0 < (Nat.toDigits 10 q.mant).length := Nat.length_toDigits_pos
    generalize (Nat.toDigits 10 q.mant).length = L at *
    obtain ⟨_, _, b3⟩ := pow_bounds
    rw [eval_dec q hhex hpos]
    by_cases hbig : (L : Int) + q.exp > 310
    · simp only [hbig, if_true, FloatRes.toExcept]
      unfold evalFrac decFrac
      by_cases he : q.exp ≥ 0
      · simp only [he, if_true, Nat.mul_one]
        have h1 : (10 : Nat) ^ (L - 1) * 10 ^ q.exp.toNat ≤ q.mant * 10 ^ q.exp.toNat := Nat.mul_le_mul_right _ L2'
        have h2 : (10 : Nat) ^ 309 ≤ 10 ^ (L - 1) * 10 ^ q.exp.toNat := by
          rw [← Nat.pow_add]; exact Nat.pow_le_pow_right (by decide) (by omega)
        rw [if_pos (by omega)]
      · simp only [he, if_false]
        have hk : (-q.exp).toNat + 310 ≤ L - 1 := by omega
        have h2 : (10 : Nat) ^ 309 * 10 ^ (-q.exp).toNat ≤ 10 ^ (L - 1) := by
          rw [← Nat.pow_add]; exact Nat.pow_le_pow_right (by decide) (by omega)
        have h3 : overflowThreshold * 10 ^ (-q.exp).toNat ≤ 10 ^ 309 * 10 ^ (-q.exp).toNat :=
          Nat.mul_le_mul_right _ (by omega)
        rw [if_pos (by omega)]
    · simp only [hbig, if_false]
      by_cases hsmall : (L : Int) + q.exp < -330
      · simp only [hsmall, if_true, FloatRes.toExcept]
        unfold evalFrac decFrac
        have he : ¬ q.exp ≥ 0 := by omega
        simp only [he, if_false]
        have hk : L + 330 ≤ (-q.exp).toNat := by omega
        have h1 : q.mant * 10 ^ 330 ≤ 10 ^ (-q.exp).toNat := by
          calc q.mant * 10 ^ 330 ≤ 10 ^ L * 10 ^ 330 := Nat.mul_le_mul_right _ (by omega)
            _ = 10 ^ (L + 330) := by rw [Nat.pow_add]
            _ ≤ 10 ^ (-q.exp).toNat := Nat.pow_le_pow_right (by decide) hk
        have hdpos : 0 < (10 : Nat) ^ (-q.exp).toNat := Nat.pow_pos (by decide)
        have h330 : 1 ≤ (10 : Nat) ^ 330 := Nat.pow_pos (by decide)
        have hlt : q.mant < 10 ^ (-q.exp).toNat := by
          have : q.mant * 1 ≤ q.mant * 10 ^ 330 := Nat.mul_le_mul_left _ h330
          have h2 : q.mant < q.mant * 10 ^ 330 ∨ q.mant = q.mant * 10 ^ 330 := by omega
          have : (2 : Nat) ≤ 10 ^ 330 := by decide +kernel
          have : q.mant * 2 ≤ q.mant * 10 ^ 330 := Nat.mul_le_mul_left _ this
          omega
        have hT : 10 ^ (-q.exp).toNat ≤ overflowThreshold * 10 ^ (-q.exp).toNat :=
          Nat.le_mul_of_pos_left _ hT_pos
        rw [if_neg (by omega), roundMag_tiny _ _ hdpos h1, signed_zero]
      · simp only [hsmall, if_false]
        cases hev : evalFrac q.neg (decFrac q.mant q.exp).1 (decFrac q.mant q.exp).2 with
        | ok b => rfl
        | error e =>
          unfold evalFrac at hev
          split at hev
          · injection hev with hev; subst hev; rfl
          · cases hev


/-- **the slow path of the model is the specification of the numeral as the code reads it**
(exponent literal clamped, `clampGap`) outside the class of finding N3. -/
theorem slowPath_spec (s : Bytes) (p : Parsed) (hrec : recognise s = some p) (hhex : p.hex = false)
    (hN3 : inClassN3 s = false) : (slowPath s).toExcept = (clampP p (clampGap s)).eval := by
  have hcap : decimalCap s p = (p.mant, p.exp) := by
    unfold inClassN3 at hN3
    rw [hrec] at hN3
    simp only [hhex, Bool.not_false, Bool.true_and, decide_eq_false_iff_not] at hN3
    unfold decimalCap
    simp only []
    rw [if_neg hN3]
  unfold slowPath
  rw [hrec]
  simp only [hhex, Bool.false_eq_true, if_false, hcap]
  have hq : ({ neg := p.neg, hex := false, mant := p.mant, exp := p.exp + clampGap s } : Parsed) = clampP p (clampGap s) := by
    unfold clampP; cases p; simp only at hhex; subst hhex; rfl
  rw [hq]
  exact slowCore_spec (clampP p (clampGap s)) hhex

theorem hexRes_toExcept (neg : Bool) (n d : Nat) (hd : 0 < d) :
    (⟨signed neg (roundMag n d), if roundMag n d = posInf then some .range else none⟩ : FloatRes).toExcept
      = evalFrac neg n d := by
  have hiff := roundMag_inf_iff n d hd
  unfold evalFrac FloatRes.toExcept
  by_cases hinf : roundMag n d = posInf
  · simp only [hinf, if_true, hiff.mp hinf]
  · have : ¬ overflowThreshold * d ≤ n := fun h => hinf (hiff.mpr h)
    simp only [hinf, if_false, this]

/-- the truncated hex path: `readFloat`'s (mantissa, exp, trunc = true) fed to `atofHex` gives the
specification's value of the full numeral -/
theorem hex_trunc_eval (r : RF) (p : Parsed) (ha : Agrees r p 0) (hph : p.hex = true)
    (ht : r.trunc = true) :
    (atofHex r.mant r.exp r.neg true).toExcept = p.eval := by
  obtain ⟨_, hneg, _, h64, _, hval⟩ := ha
  obtain ⟨j, b1, b2, b3, hE⟩ := hval ht
  have hE' := hE
  rw [Int.add_zero] at hE'
  simp only [hph, if_true] at b1 b2 b3 hE'
  have hbase : baseOf true = 16 := rfl
  have hmaxd : maxDOf true - 1 = 15 := rfl
  rw [hbase] at b1 b2 b3
  rw [hmaxd] at b3
  have hp0 : 0 < p.mant := by omega
  have hd := toFrac_snd_pos p.mant p.exp
  have hV : (((toFrac p.mant p.exp).1 : Nat) : ℚ) / ((toFrac p.mant p.exp).2 : Nat)
      = (p.mant : ℚ) * (2 : ℚ) ^ p.exp := toFrac_ratio _ _
  have hn : 0 < (toFrac p.mant p.exp).1 := by
    rcases Nat.eq_zero_or_pos (toFrac p.mant p.exp).1 with h | h
    · rw [h] at hV
      have : (0 : ℚ) < (p.mant : ℚ) * (2 : ℚ) ^ p.exp := mul_pos (by exact_mod_cast hp0) (two_zpow_pos _)
      rw [← hV] at this
      simp at this
    · exact h
  -- the true value, in units of the kept mantissa's last digit
  have hsc : scaleAt ((p.mant : ℚ) * (2 : ℚ) ^ p.exp) (r.exp + 52) = (p.mant : ℚ) / (16 : ℚ) ^ j := by
    unfold scaleAt
    rw [hE', mul_assoc, ← zpow_add₀ (by norm_num : (2 : ℚ) ≠ 0)]
    have : p.exp + (52 - (p.exp + ((4 * j : Nat) : Int) + 52)) = -((4 * j : Nat) : Int) := by push_cast; omega
    rw [this, zpow_neg, zpow_natCast, pow_mul]
    norm_num
    rfl
  have h16 : (0 : ℚ) < (16 : ℚ) ^ j := by positivity
  have l : (r.mant : ℚ) < scaleAt ((p.mant : ℚ) * (2 : ℚ) ^ p.exp) (r.exp + 52) := by
    rw [hsc, lt_div_iff₀ h16]; exact_mod_cast b1
  have u : scaleAt ((p.mant : ℚ) * (2 : ℚ) ^ p.exp) (r.exp + 52) < (r.mant : ℚ) + 1 := by
    rw [hsc, div_lt_iff₀ h16]; exact_mod_cast b2
  have h54 : 2 ^ 54 ≤ r.mant := by
    have : (2 : Nat) ^ 54 ≤ 16 ^ 15 := by decide
    omega
  rw [atofHex_trunc_correct _ _ _ hn hd hV r.mant r.exp r.neg h54 h64 l u, hexRes_toExcept _ _ _ hd, hneg]
  symm
  apply eval_of_value p hp0 _ _ hd
  rw [hV]; unfold valueOf; simp [hph]

/-! ### Part 4: special spellings pass `underscoreOK`; the theorem -/

theorem uOK_no_us (dig : UInt8 → Bool) (t : Bytes) (h : ∀ c ∈ t, c ≠ 95) : ∀ prev, underscoresOK dig prev t = true := by
  induction t with
  | nil => intro prev; exact uOK_nil _ _
  | cons c cs ih =>
    intro prev
    rw [uOK_other dig prev c cs (h c (by simp))]
    exact ih (fun x hx => h x (by simp [hx])) _

theorem underscoreOK_no_us (s : Bytes) (h : ∀ c ∈ s, c ≠ 95) : underscoreOK s = true := by
  cases s with
  | nil => rfl
  | cons c0 tl =>
    rw [underscoreOK_cons]
    have hb : ∀ c ∈ bodyOf c0 tl, c ≠ 95 := by
      intro c hc
      unfold bodyOf at hc
      split at hc
      · exact h c (by simp [hc])
      · exact h c hc
    generalize bodyOf c0 tl = body at *
    unfold uokBody
    split
    · rename_i x r
      split
      · rw [uloop_digit]; exact uOK_no_us _ r (fun c hc => hb c (by simp [hc])) _
      · rw [uloop_start]; exact uOK_no_us _ _ hb _
    · rw [uloop_start]; exact uOK_no_us _ _ hb _

theorem specials_no_us : ∀ p ∈ specials, ∀ c ∈ p.1, c ≠ 95 := by decide

theorem lowerc_us (c : UInt8) : lowerc c = 95 ↔ c = 95 := by
  revert c; apply byte_forall; decide +kernel

theorem special_underscoreOK (s : Bytes) (b : Bits) (h : specialSpec s = some b) : underscoreOK s = true := by
  apply underscoreOK_no_us
  intro c hc h95
  unfold specialSpec at h
  cases hf : specials.find? (fun p => p.1 == s.map lowerc) with
  | none => rw [hf] at h; cases h
  | some p =>
    have hmem := List.mem_of_find?_eq_some hf
    have heq := List.find?_some hf
    simp only [beq_iff_eq] at heq
    have : (95 : UInt8) ∈ p.1 := by
      rw [heq, List.mem_map]
      exact ⟨c, hc, (lowerc_us c).mpr h95⟩
    exact specials_no_us p hmem 95 this rfl

/-! ### the clamp of the exponent digit loop -/

/-- the specification with every exponent read as the code reads it (literal clamped: `g`) -/
def parseFloatSpecG (g : Int) (s : Bytes) : Except NumErr Bits :=
  match specialSpec s with
  | some b => .ok b
  | none =>
    match recognise s with
    | none => .error .syntax
    | some p => (clampP p g).eval

theorem parseFloatSpecG_zero (s : Bytes) : parseFloatSpecG 0 s = parseFloatSpec s := by
  unfold parseFloatSpecG parseFloatSpec
  cases specialSpec s with
  | some b => rfl
  | none =>
    cases recognise s with
    | none => rfl
    | some p => simp only [clampP_zero]

/-- the underscore-free body of the mantissa-and-exponent part -/
def bodyU (s : Bytes) (hex : Bool) : Bytes :=
  if hex then strip ((splitSign s).2.drop 2) else strip (splitSign s).2

/-- what a successful recognition says about the text -/
theorem recog_facts (s : Bytes) (p : Parsed) (hrec : recognise s = some p) :
    p.hex = isHexPrefix (splitSign s).2 ∧
    ∃ x, spTail p.hex (spR2 (digS p.hex) (bodyU s p.hex)) = some x ∧
      p.mant = valOf (baseOf p.hex) ((bodyU s p.hex).takeWhile (digS p.hex) ++ spFP (digS p.hex) (bodyU s p.hex)) ∧
      p.exp = x + -(((if p.hex then 4 else 1) * (spFP (digS p.hex) (bodyU s p.hex)).length : Nat) : Int) := by
  cases s with
  | nil =>
    have : recognise [] = none := by decide
    rw [this] at hrec; cases hrec
  | cons c0 tl =>
    rw [recognise_cons] at hrec
    rw [splitSign_cons]
    unfold bodyU
    rw [splitSign_cons]
    simp only []
    generalize bodyOf c0 tl = B at *
    by_cases hp : isHexPrefix B = true
    · rw [if_pos hp] at hrec
      split at hrec
      · cases hrec
      · have h2 := parseBody_eq2 true (strip (B.drop 2))
        have ed : digS true = isHexDig := rfl
        have eb : baseOf true = 16 := rfl
        simp only [ed, eb, if_true] at h2
        rw [h2] at hrec
        split at hrec
        · cases hrec
        · cases hsp : spTail true (spR2 isHexDig (strip (B.drop 2))) with
          | none => rw [hsp] at hrec; cases hrec
          | some x =>
            rw [hsp] at hrec
            simp only [Option.map_some, Option.some.injEq] at hrec
            subst hrec
            exact ⟨hp.symm, x, hsp, rfl, rfl⟩
    · simp only [Bool.not_eq_true] at hp
      rw [if_neg (by rw [hp]; simp)] at hrec
      split at hrec
      · cases hrec
      · have h2 := parseBody_eq2 false (strip B)
        have ed : digS false = isDec := rfl
        have eb : baseOf false = 10 := rfl
        simp only [ed, eb, Bool.false_eq_true, if_false] at h2
        rw [h2] at hrec
        split at hrec
        · cases hrec
        · cases hsp : spTail false (spR2 isDec (strip B)) with
          | none => rw [hsp] at hrec; cases hrec
          | some x =>
            rw [hsp] at hrec
            simp only [Option.map_some, Option.some.injEq] at hrec
            subst hrec
            exact ⟨hp.symm, x, hsp, rfl, rfl⟩

theorem expGapS_body (s : Bytes) (p : Parsed) (hrec : recognise s = some p) :
    expGapS s = expGap (digS p.hex) (bodyU s p.hex) ∧
    expLit s = valOf 10 (expLitDigits (digS p.hex) (bodyU s p.hex)) := by
  obtain ⟨hh, _⟩ := recog_facts s p hrec
  unfold expGapS expLit bodyU
  rw [← hh]
  cases p.hex <;> exact ⟨rfl, rfl⟩

/-- **the gap the clamp opens**: none below 100000; above, the code reads a five-digit exponent of
the same sign -/
theorem spTail_gap (hex : Bool) (u : Bytes) (x : Int) (h : spTail hex (spR2 (digS hex) u) = some x) :
    (valOf 10 (expLitDigits (digS hex) u) < 100000 → expGap (digS hex) u = 0) ∧
    (100000 ≤ valOf 10 (expLitDigits (digS hex) u) →
      (x = (valOf 10 (expLitDigits (digS hex) u) : Int) ∧ 10000 ≤ x + expGap (digS hex) u ∧ x + expGap (digS hex) u ≤ 99999) ∨
      (x = -(valOf 10 (expLitDigits (digS hex) u) : Int) ∧ -99999 ≤ x + expGap (digS hex) u ∧ x + expGap (digS hex) u ≤ -10000)) := by
  unfold expLitDigits expGap
  unfold spTail at h
  cases hr : spR2 (digS hex) u with
  | nil => simp [valOf]
  | cons c r3 =>
    rw [hr] at h
    simp only [] at h ⊢
    by_cases hc : (lowerc c == (if hex = true then 112 else 101)) = true
    · rw [if_pos hc] at h
      unfold parseExp at h
      simp only [] at h
      by_cases hbad : ((splitSign r3).2.isEmpty || !(splitSign r3).2.all isDec) = true
      · rw [if_pos hbad] at h; cases h
      · rw [if_neg hbad] at h
        injection h with h
        have hall : (splitSign r3).2.all isDec = true := by
          cases h' : (splitSign r3).2.all isDec
          · exfalso; apply hbad; simp [h']
          · rfl
        obtain ⟨c1, c2⟩ := clampFrom_spec (splitSign r3).2 hall 0 (by decide)
        rw [← valOf_eq] at c1 c2
        unfold gapInt
        generalize valOf 10 (splitSign r3).2 = L at *
        generalize clampFrom 0 (splitSign r3).2 = C at *
        cases hneg : (splitSign r3).1
        · rw [hneg] at h
          simp only [Bool.false_eq_true, if_false] at h ⊢
          refine ⟨fun hl => by rw [c1 hl]; simp, fun hl => Or.inl ?_⟩
          obtain ⟨d1, d2, d3⟩ := c2 hl
          refine ⟨h.symm, ?_, ?_⟩ <;> · rw [← h]; push_cast; omega
        · rw [hneg] at h
          simp only [if_true] at h ⊢
          refine ⟨fun hl => by rw [c1 hl]; simp, fun hl => Or.inr ?_⟩
          obtain ⟨d1, d2, d3⟩ := c2 hl
          refine ⟨h.symm, ?_, ?_⟩ <;> · rw [← h]; push_cast; omega
    · rw [if_neg hc] at h; cases h

theorem expGapS_zero (s : Bytes) (p : Parsed) (hrec : recognise s = some p) (hlit : expLit s < 100000) :
    expGapS s = 0 := by
  obtain ⟨e1, e2⟩ := expGapS_body s p hrec
  obtain ⟨_, x, hx, _, _⟩ := recog_facts s p hrec
  rw [e1]
  exact (spTail_gap p.hex _ x hx).1 (by rw [← e2]; exact hlit)

theorem clampGap_eq (s : Bytes) (h : isHexPrefix (splitSign s).2 = false) : clampGap s = expGapS s := by
  unfold clampGap expGapS expGap spR2 gapInt clampFrom
  simp only [h, Bool.false_eq_true, if_false]
  rfl

/-- **ParseFloat = the specification of the numeral as the code reads it.** For EVERY byte string
outside the class of finding N3: `bytesconv.ParseFloat(s, 64)` (underscore check, special values,
`readFloat`, hex path, exact path, slow path) returns exactly what the specification says for
the same text with its exponent literal clamped the way `readFloat` / `decimal.set` clamp it
(`expGapS s`, which is 0 for every exponent literal below 100000). -/
theorem parseFloat_eq_clamped (s : Bytes) (hN3 : inClassN3 s = false) :
    (parseFloat s).toExcept = parseFloatSpecG (expGapS s) s := by
  unfold parseFloat parseFloatSpecG
  by_cases hu : underscoreOK s = true
  swap
  · simp only [Bool.not_eq_true] at hu
    have hrec := recognise_of_not_uok s hu
    have hsp : specialSpec s = none := by
      cases h : specialSpec s with
      | none => rfl
      | some b => rw [special_underscoreOK s b h] at hu; cases hu
    simp [hu, hsp, hrec, FloatRes.toExcept]
  simp only [hu, Bool.not_true, Bool.false_eq_true, if_false]
  unfold atof64
  rw [special_eq_spec]
  cases hsp : specialSpec s with
  | some b => simp [FloatRes.toExcept]
  | none =>
    simp only []
    obtain ⟨k1, k2⟩ := readFloat_recognise s hu
    cases hrec : recognise s with
    | none =>
      have hok := k1 hrec
      simp only [hok, Bool.and_false, Bool.false_eq_true, if_false, Bool.false_and]
      unfold slowPath
      rw [hrec]; rfl
    | some p =>
      have ha0 := k2 p hrec
      have ha := agrees_clamp _ _ _ ha0
      have hok := ha.1
      have hhx : (readFloat s).hex = p.hex := ha.2.2.1
      cases hph : p.hex
      · -- decimal
        have hrh : (readFloat s).hex = false := by rw [hhx, hph]
        simp only [hrh, Bool.false_and, Bool.false_eq_true, if_false, hok, Bool.true_and]
        have hslow := slowPath_spec s p hrec hph hN3
        rw [clampGap_eq s (by rw [← (recog_facts s p hrec).1]; exact hph)] at hslow
        cases hfast : (if (!(readFloat s).trunc) = true then
            atof64exact (readFloat s).mant (readFloat s).exp (readFloat s).neg else none) with
        | none => simp only []; exact hslow
        | some f =>
          simp only [FloatRes.toExcept]
          have htr : (readFloat s).trunc = false := by
            cases h : (readFloat s).trunc
            · rfl
            · rw [h] at hfast; simp at hfast
          rw [htr] at hfast
          simp only [Bool.not_false, if_true] at hfast
          have hf := atof64exact_correct _ _ _ _ hfast
          have hno := exact_no_overflow _ _ _ _ hfast
          have hev := agrees_eval (readFloat s) (clampP p (expGapS s)) ha htr
          rw [← hev, hrh]
          unfold Parsed.eval
          simp only [Bool.false_eq_true, if_false, hno, hf]
      · -- hex
        have hrh : (readFloat s).hex = true := by rw [hhx, hph]
        simp only [hrh, hok, Bool.and_self, if_true]
        cases htr : (readFloat s).trunc
        · have hm64 := ha.2.2.2.1
          have hev := agrees_eval (readFloat s) (clampP p (expGapS s)) ha htr
          rw [(atofHex_spec _ _ _ hm64).1, ← hev, hrh]
        · exact hex_trunc_eval (readFloat s) (clampP p (expGapS s)) ha hph htr


/-- below 100000 the clamp changes nothing -/
theorem parseFloatSpecG_small (s : Bytes) (hlit : expLit s < 100000) :
    parseFloatSpecG (expGapS s) s = parseFloatSpec s := by
  rw [← parseFloatSpecG_zero s]
  unfold parseFloatSpecG
  cases specialSpec s with
  | some b => rfl
  | none =>
    cases hrec : recognise s with
    | none => rfl
    | some p => simp only [expGapS_zero s p hrec hlit]

/-- **ParseFloat = parseFloatSpec.** For every byte string outside the class of finding N3 whose
exponent literal is below 100000 — where the clamp `e < 10000` of the exponent digit loop has not
dropped a digit yet: the same value bit for bit, or the same error. -/
theorem parseFloat_eq_spec (s : Bytes) (hN3 : inClassN3 s = false) (hlit : expLit s < 100000) :
    (parseFloat s).toExcept = parseFloatSpec s := by
  rw [parseFloat_eq_clamped s hN3, parseFloatSpecG_small s hlit]

end C03
