/-
C03 helper lemmas: what the mantissa loop of `readFloat` knows when it has dropped non-zero
digits (`trunc`), and that the kept mantissa has a non-zero leading digit.
-/
import Proofs.Lemmas.C03ReadFloat

namespace C03
open Num Spec.NumText

/-- additional invariant of the mantissa loop -/
structure InvT (hex : Bool) (st : MS) (M : Nat) : Prop where
  t1 : st.trunc = true → st.ndMant = maxDOf hex
  t2 : st.trunc = true → st.mant * baseOf hex ^ (st.nd - st.ndMant) < M ∧
        M < (st.mant + 1) * baseOf hex ^ (st.nd - st.ndMant)
  t3 : 0 < st.nd → baseOf hex ^ (st.ndMant - 1) ≤ st.mant ∧ 0 < st.ndMant

theorem invT_init (hex : Bool) : InvT hex {} 0 := by
  constructor <;> simp

theorem base_ge (hex : Bool) : 2 ≤ baseOf hex := by cases hex <;> decide
theorem maxD_pos (hex : Bool) : 0 < maxDOf hex := by cases hex <;> decide

theorem invT_push (hex : Bool) (st : MS) (M F : Nat) (d : Nat) (hd : d < baseOf hex)
    (inv : Inv hex st M F st.sawdot) (invT : InvT hex st M) (hroom : st.ndMant < maxDOf hex)
    (hd0 : st.nd = 0 → 0 < d) :
    InvT hex { st with sawdigits := true, nd := st.nd + 1,
                       mant := ((st.mant * baseOf hex) % 2 ^ 64 + d) % 2 ^ 64, ndMant := st.ndMant + 1 }
      (M * baseOf hex + d) := by
  have hB := base_ge hex
  have htr : st.trunc = false := by
    cases h : st.trunc
    · rfl
    · have := invT.t1 h; omega
  have hlt : st.mant * baseOf hex + d < baseOf hex ^ (st.ndMant + 1) := by
    have := inv.i5
    rw [Nat.pow_succ]
    calc st.mant * baseOf hex + d < st.mant * baseOf hex + baseOf hex := by omega
      _ = (st.mant + 1) * baseOf hex := by rw [Nat.add_mul]; omega
      _ ≤ baseOf hex ^ st.ndMant * baseOf hex := Nat.mul_le_mul_right _ this
  have hle : baseOf hex ^ (st.ndMant + 1) ≤ 2 ^ 64 :=
    Nat.le_trans (Nat.pow_le_pow_right (by omega) (by omega)) (base_pow_le hex)
  have e1 : (st.mant * baseOf hex) % 2 ^ 64 = st.mant * baseOf hex := Nat.mod_eq_of_lt (by omega)
  have e2 : (st.mant * baseOf hex + d) % 2 ^ 64 = st.mant * baseOf hex + d := Nat.mod_eq_of_lt (by omega)
  constructor
  · intro h; simp only at h; rw [htr] at h; cases h
  · intro h; simp only at h; rw [htr] at h; cases h
  · intro _
    simp only [e1, e2, Nat.add_sub_cancel]
    refine ⟨?_, by omega⟩
    by_cases hnd : st.nd = 0
    · have : st.ndMant = 0 := by have := inv.i2.1; omega
      rw [this, Nat.pow_zero]; have := hd0 hnd; omega
    · obtain ⟨a, b⟩ := invT.t3 (by omega)
      calc baseOf hex ^ st.ndMant = baseOf hex ^ (st.ndMant - 1) * baseOf hex := by
            rw [← Nat.pow_succ]; congr 1; omega
        _ ≤ st.mant * baseOf hex := Nat.mul_le_mul_right _ a
        _ ≤ st.mant * baseOf hex + d := Nat.le_add_right _ _

theorem invT_extra (hex : Bool) (st : MS) (M F : Nat) (d : Nat) (hd : d < baseOf hex)
    (inv : Inv hex st M F st.sawdot) (invT : InvT hex st M) (hfull : ¬ st.ndMant < maxDOf hex) (tr : Bool)
    (htr : tr = false → st.trunc = false ∧ d = 0) (htr2 : tr = true → st.trunc = true ∨ 0 < d) :
    InvT hex { st with sawdigits := true, nd := st.nd + 1, trunc := tr } (M * baseOf hex + d) := by
  have hB := base_ge hex
  have hi2 := inv.i2
  have hj : st.nd + 1 - st.ndMant = (st.nd - st.ndMant) + 1 := by omega
  constructor
  · intro _; simp only; omega
  · intro h
    simp only at h
    simp only [hj, Nat.pow_succ]
    generalize hP : baseOf hex ^ (st.nd - st.ndMant) = P
    have hPpos : 0 < P := by rw [← hP]; exact Nat.pow_pos (by omega)
    rcases htr2 h with hold | hdpos
    · obtain ⟨l, u⟩ := invT.t2 hold
      rw [hP] at l u
      constructor
      · calc st.mant * (P * baseOf hex) = st.mant * P * baseOf hex := by rw [Nat.mul_assoc]
          _ < M * baseOf hex := Nat.mul_lt_mul_of_pos_right l (by omega)
          _ ≤ M * baseOf hex + d := Nat.le_add_right _ _
      · have hu : M + 1 ≤ (st.mant + 1) * P := u
        calc M * baseOf hex + d < M * baseOf hex + baseOf hex := by omega
          _ = (M + 1) * baseOf hex := by rw [Nat.add_mul]; omega
          _ ≤ (st.mant + 1) * P * baseOf hex := Nat.mul_le_mul_right _ hu
          _ = (st.mant + 1) * (P * baseOf hex) := by rw [Nat.mul_assoc]
    · by_cases hold : st.trunc = true
      · obtain ⟨l, u⟩ := invT.t2 hold
        rw [hP] at l u
        constructor
        · calc st.mant * (P * baseOf hex) = st.mant * P * baseOf hex := by rw [Nat.mul_assoc]
            _ < M * baseOf hex := Nat.mul_lt_mul_of_pos_right l (by omega)
            _ ≤ M * baseOf hex + d := Nat.le_add_right _ _
        · have hu : M + 1 ≤ (st.mant + 1) * P := u
          calc M * baseOf hex + d < M * baseOf hex + baseOf hex := by omega
            _ = (M + 1) * baseOf hex := by rw [Nat.add_mul]; omega
            _ ≤ (st.mant + 1) * P * baseOf hex := Nat.mul_le_mul_right _ hu
            _ = (st.mant + 1) * (P * baseOf hex) := by rw [Nat.mul_assoc]
      · simp only [Bool.not_eq_true] at hold
        have hM := inv.i1 hold
        rw [hP] at hM
        constructor
        · calc st.mant * (P * baseOf hex) = M * baseOf hex := by rw [hM, Nat.mul_assoc]
            _ < M * baseOf hex + d := by omega
        · have hPB : baseOf hex ≤ P * baseOf hex := Nat.le_mul_of_pos_left _ hPpos
          calc M * baseOf hex + d < M * baseOf hex + baseOf hex := by omega
            _ ≤ st.mant * P * baseOf hex + P * baseOf hex := by rw [hM]; omega
            _ = (st.mant + 1) * (P * baseOf hex) := by rw [Nat.add_mul, Nat.one_mul, Nat.mul_assoc]
  · intro _
    simp only
    by_cases hnd : st.nd = 0
    · have := maxD_pos hex; omega
    · exact invT.t3 (by omega)

theorem invT_leading_zero (hex : Bool) (st : MS) (M F : Nat)
    (inv : Inv hex st M F st.sawdot) (invT : InvT hex st M) (hnd : st.nd = 0) :
    InvT hex { st with sawdigits := true, dp := st.dp - 1 } (M * baseOf hex + 0) := by
  have htr : st.trunc = false := by
    cases h : st.trunc
    · rfl
    · have := invT.t1 h; have := inv.i2.1; have := maxD_pos hex; omega
  constructor
  · intro h; simp only at h; rw [htr] at h; cases h
  · intro h; simp only at h; rw [htr] at h; cases h
  · intro h; simp only at h; omega

theorem invT_dot (hex : Bool) (st : MS) (M : Nat) (invT : InvT hex st M) :
    InvT hex { st with sawdot := true, dp := st.nd } M :=
  ⟨invT.t1, invT.t2, invT.t3⟩

theorem trunc_byte_facts (c : UInt8) :
    (isDec c = true → c ≠ 48 → 0 < digVal c) ∧
    (isDec c = false → isHexDig c = true → 0 < digVal c ∧ digVal c < 16) := by
  revert c; apply byte_forall; decide +kernel

/-- both invariants along the mantissa loop -/
theorem mantLoop_invT (hex : Bool) (s : Bytes) : ∀ (st : MS) (M F : Nat),
    Inv hex st M F st.sawdot → InvT hex st M →
    ∀ st' rest, mantLoop hex s st = some (st', rest) →
    InvT hex st' (refMant hex s M F st.sawdot).1 := by
  induction s with
  | nil =>
    intro st M F inv invT st' rest h
    simp only [mantLoop, Option.some.injEq, Prod.mk.injEq] at h
    obtain ⟨rfl, _⟩ := h
    simpa [refMant] using invT
  | cons c cs ih =>
    intro st M F inv invT st' rest h
    obtain ⟨hb1, hb2, hb3⟩ := mant_byte_facts c
    obtain ⟨tb1, tb2⟩ := trunc_byte_facts c
    unfold mantLoop at h
    unfold refMant
    simp only [] at h ⊢
    by_cases h95 : c = 95
    · subst h95
      simp only [beq_self_eq_true, if_true] at h ⊢
      exact ih st M F inv invT st' rest h
    · have e95 : (c == 95) = false := by simpa using h95
      simp only [e95, Bool.false_eq_true, if_false] at h ⊢
      by_cases h46 : c = 46
      · subst h46
        simp only [beq_self_eq_true, if_true] at h ⊢
        by_cases hs : st.sawdot = true
        · simp [hs] at h
        · simp only [Bool.not_eq_true] at hs
          simp only [hs, Bool.false_eq_true, if_false] at h
          exact ih _ M F (inv_dot hex st M F inv hs) (invT_dot hex st M invT) st' rest h
      · have e46 : (c == 46) = false := by simpa using h46
        simp only [e46, Bool.false_eq_true, if_false] at h ⊢
        rw [hb1] at h
        by_cases hdec : isDec c = true
        · obtain ⟨hv, h9, _, _, h0⟩ := hb2 hdec
          have hd : digVal c < baseOf hex := by cases hex <;> simp [baseOf] <;> omega
          simp only [hdec, if_true, Bool.true_or] at h ⊢
          by_cases hz : (c == 48 && st.nd == 0) = true
          · simp only [hz, if_true] at h
            simp only [Bool.and_eq_true, beq_iff_eq] at hz
            have hd0 : digVal c = 0 := h0.mp (by simp [hz.1])
            rw [hd0]
            exact ih _ _ _ (inv_leading_zero hex st M F inv hz.2) (invT_leading_zero hex st M F inv invT hz.2) st' rest h
          · simp only [hz, Bool.false_eq_true, if_false] at h
            by_cases hroom : st.ndMant < (if hex = true then 16 else 19)
            · simp only [hroom, if_true] at h
              have hpos : st.nd = 0 → 0 < digVal c := by
                intro hnd
                apply tb1 hdec
                intro h48
                apply hz
                simp [h48, hnd]
              have i1 := inv_push hex st M F (digVal c) hd inv hroom
              have i2 := invT_push hex st M F (digVal c) hd inv invT hroom hpos
              rw [hv] at h
              exact ih _ _ _ i1 i2 st' rest h
            · simp only [hroom, if_false] at h
              by_cases h48 : c = 48
              · subst h48
                simp only [bne_self_eq_false, Bool.false_eq_true, if_false] at h
                have hd0 : digVal 48 = 0 := by decide
                rw [hd0]
                have i1 := inv_extra hex st M F 0 inv hroom st.trunc (fun h => ⟨h, rfl⟩)
                have i2 := invT_extra hex st M F 0 (by have := base_ge hex; omega) inv invT hroom st.trunc
                  (fun h => ⟨h, rfl⟩) (fun h => Or.inl h)
                exact ih _ _ _ i1 i2 st' rest h
              · have e48 : (c != 48) = true := by simpa using h48
                simp only [e48, if_true] at h
                have i1 := inv_extra hex st M F (digVal c) inv hroom true (fun h => by cases h)
                have i2 := invT_extra hex st M F (digVal c) hd inv invT hroom true (fun h => by cases h)
                  (fun _ => Or.inr (tb1 hdec h48))
                exact ih _ _ _ i1 i2 st' rest h
        · simp only [Bool.not_eq_true] at hdec
          obtain ⟨hl, hh⟩ := hb3 hdec
          simp only [hdec, Bool.false_eq_true, if_false, Bool.false_or] at h ⊢
          cases hex with
          | false =>
            simp only [Bool.false_and, Bool.false_eq_true, if_false, Option.some.injEq, Prod.mk.injEq] at h ⊢
            obtain ⟨rfl, _⟩ := h
            exact invT
          | true =>
            simp only [Bool.true_and] at h ⊢
            rw [hl] at h
            by_cases hx : isHexDig c = true
            · obtain ⟨hv, h15, _, _⟩ := hh hx
              obtain ⟨hp, h16⟩ := tb2 hdec hx
              simp only [hx, if_true] at h ⊢
              by_cases hroom : st.ndMant < 16
              · simp only [hroom, if_true] at h
                have i1 := inv_push true st M F (digVal c) (by simp [baseOf]; omega) inv hroom
                have i2 := invT_push true st M F (digVal c) (by simp [baseOf]; omega) inv invT hroom (fun _ => hp)
                rw [hv] at h
                exact ih _ _ _ i1 i2 st' rest h
              · simp only [hroom, if_false] at h
                have i1 := inv_extra true st M F (digVal c) inv hroom true (fun h => by cases h)
                have i2 := invT_extra true st M F (digVal c) (by simp [baseOf]; omega) inv invT hroom true
                  (fun h => by cases h) (fun _ => Or.inr hp)
                exact ih _ _ _ i1 i2 st' rest h
            · simp only [hx, Bool.false_eq_true, if_false, Option.some.injEq, Prod.mk.injEq] at h ⊢
              obtain ⟨rfl, _⟩ := h
              exact invT

end C03
