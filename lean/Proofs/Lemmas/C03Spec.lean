/-
C03 helper lemmas: what the specification says about plain digit strings.
-/
import Proofs.Lemmas.C03Fast

namespace C03
open Num Spec.NumText

theorem dec_byte_facts (c : UInt8) : isDec c = true →
    lowerc c = c ∧ c ≠ 95 ∧ c ≠ 43 ∧ c ≠ 45 ∧ c ≠ 105 ∧ c ≠ 110 ∧ c ≠ 120 ∧ c ≠ 46 := by
  revert c; apply byte_forall; decide +kernel

theorem specialSpec_digit_head (c : UInt8) (x : Bytes) (h : isDec c = true) :
    specialSpec (c :: x) = none := by
  obtain ⟨hl, _, h43, h45, h105, h110, _, _⟩ := dec_byte_facts c h
  have e1 : ((105 : UInt8) == c) = false := by simpa using Ne.symm h105
  have e2 : ((43 : UInt8) == c) = false := by simpa using Ne.symm h43
  have e3 : ((45 : UInt8) == c) = false := by simpa using Ne.symm h45
  have e4 : ((110 : UInt8) == c) = false := by simpa using Ne.symm h110
  simp [specialSpec, specials, List.find?, hl, List.cons_beq_cons, e1, e2, e3, e4]

theorem underscoresOK_digits (x : Bytes) (h : x.all isDec = true) : ∀ prev, underscoresOK isDec prev x = true := by
  induction x with
  | nil => intro _; rfl
  | cons c x ih =>
    intro prev
    rw [List.all_cons, Bool.and_eq_true] at h
    have := (dec_byte_facts c h.1).2.1
    unfold underscoresOK
    simp [this, ih h.2]

theorem strip_digits (x : Bytes) (h : x.all isDec = true) : strip x = x := by
  unfold strip
  rw [List.filter_eq_self]
  intro c hc
  have := (dec_byte_facts c (List.all_eq_true.mp h c hc)).2.1
  simpa using this

theorem takeWhile_digits (x : Bytes) (h : x.all isDec = true) : x.takeWhile isDec = x := by
  induction x with
  | nil => rfl
  | cons c x ih =>
    rw [List.all_cons, Bool.and_eq_true] at h
    simp [h.1, ih h.2]

theorem dropWhile_digits (x : Bytes) (h : x.all isDec = true) : x.dropWhile isDec = [] := by
  induction x with
  | nil => rfl
  | cons c x ih =>
    rw [List.all_cons, Bool.and_eq_true] at h
    simp [h.1, ih h.2]

theorem parseBody_digits (x : Bytes) (hne : x ≠ []) (h : x.all isDec = true) :
    parseBody isDec 10 101 1 false x = some (valOf 10 x, 0) := by
  unfold parseBody
  simp only [takeWhile_digits x h, dropWhile_digits x h]
  cases x with
  | nil => exact absurd rfl hne
  | cons c x => simp

theorem isHexPrefix_digits (x : Bytes) (h : x.all isDec = true) : isHexPrefix x = false := by
  unfold isHexPrefix
  split
  · rename_i y _
    simp only [List.all_cons, Bool.and_eq_true] at h
    obtain ⟨hl, _, _, _, _, _, h120, _⟩ := dec_byte_facts y h.2.1
    rw [hl]; simpa using h120
  · rfl

theorem splitSign_digits (c : UInt8) (x : Bytes) (h : isDec c = true) : splitSign (c :: x) = (false, c :: x) := by
  obtain ⟨_, _, h43, h45, _⟩ := dec_byte_facts c h
  unfold splitSign
  split
  · rename_i heq; injection heq with h1 _; exact absurd h1 h43
  · rename_i heq; injection heq with h1 _; exact absurd h1 h45
  · rfl

theorem recognise_digits (x : Bytes) (hne : x ≠ []) (h : x.all isDec = true) :
    recognise x = some { neg := false, hex := false, mant := valOf 10 x, exp := 0 } := by
  cases x with
  | nil => exact absurd rfl hne
  | cons c x =>
    have hc : isDec c = true := by simp only [List.all_cons, Bool.and_eq_true] at h; exact h.1
    unfold recognise
    rw [splitSign_digits c x hc]
    simp only [isHexPrefix_digits _ h, underscoresOK_digits _ h, strip_digits _ h,
      parseBody_digits _ hne h]
    simp

/-- A non-empty digit string whose value is below the overflow threshold denotes, by the
specification, the correctly rounded value of that integer. -/
theorem parseFloatSpec_digits (x : Bytes) (hne : x ≠ []) (h : x.all isDec = true)
    (hlt : valOf 10 x < overflowThreshold) :
    parseFloatSpec x = .ok (F64.ofDecimal false (valOf 10 x) 0) := by
  unfold parseFloatSpec
  cases x with
  | nil => exact absurd rfl hne
  | cons c x =>
    have hc : isDec c = true := by simp only [List.all_cons, Bool.and_eq_true] at h; exact h.1
    rw [specialSpec_digit_head c x hc]
    simp only [recognise_digits _ hne h, Parsed.eval]
    have : overflows 10 (valOf 10 (c :: x)) 0 = false := by
      unfold overflows; simp; exact hlt
    simp [this]

/-- `float64(int64)` of a non-negative integer is ONE rounding of that integer: the same
`roundRat` call the specification makes. -/
theorem ofInt_eq_ofDecimal (n : Nat) : F64.ofInt (n : Int) = F64.ofDecimal false n 0 := by
  unfold F64.ofInt F64.ofDecimal F64.zero
  by_cases h : n = 0
  · subst h; simp
  · have h1 : ((n : Int) == 0) = false := by simp [h]
    have h2 : (n == 0) = false := by simp [h]
    have h3 : decide ((n : Int) < 0) = false := by simp
    simp [h1, h2, h3]

end C03
