/-
Helper lemmas for C08 `lossless`: when do two results get the same key from one projection?
-/
import Proofs.Lemmas.C08Val
import Proofs.Lemmas.C08Perm

namespace C08
open Proc.Sort Proc.Projection Proc.Extract

/-- Two results agree on a projection: projecting one and then the other gives the same key. -/
def agree (h : List Bytes → UInt64) (env : Env) (p : Proj) (r r' : Res) : Prop :=
  (p.project h env r).2 = ((p.project h env r).1.project h env r').2

theorem vals_getElem (p : Proj) (k : Nat) (hk : k < p.nodes.length) : p.vals k = p.nodes[k].vals := by
  simp [Proj.vals, List.getElem?_eq_getElem hk]

/-- Agreement is equality of the two populated rows, index by index (missing = ""). -/
theorem agree_iff_rows (h : List Bytes → UInt64) (env : Env) (p : Proj) (r r' : Res) (hi : Inv h p) :
    agree h env p r r' ↔
      ∀ i, getVal (p.populateRow env r).row i =
           getVal ((p.project h env r).1.populateRow env r').row i := by
  unfold agree
  have hi1 : Inv h (p.project h env r).1 := project_inv h env p r hi
  have hi2 : Inv h ((p.project h env r).1.project h env r').1 := project_inv h env _ r' hi1
  obtain ⟨_, _, _, _, _, hn1, hk1, hv1⟩ := internRow_spec h (p.populateRow env r)
  obtain ⟨_, _, _, _, _, hn2, hk2, hv2⟩ := internRow_spec h ((p.project h env r).1.populateRow env r')
  -- nodes of the second state extend those of the first
  obtain ⟨_, e1⟩ := populateRow_good env (p.project h env r).1 r' hi1.f
  have hext : ∃ extra, ((p.project h env r).1.project h env r').1.nodes = (p.project h env r).1.nodes ++ extra := by
    rcases hn2 with hn | ⟨hn, _⟩
    · exact ⟨[], by show ((((p.project h env r).1.populateRow env r').internRow h).1).nodes = _; rw [hn, e1.nodes]; simp⟩
    · exact ⟨_, by show ((((p.project h env r).1.populateRow env r').internRow h).1).nodes = _; rw [hn, e1.nodes]⟩
  obtain ⟨extra, hext⟩ := hext
  have hk1' : (p.project h env r).2 < (p.project h env r).1.nodes.length := hk1
  have hk1'' : (p.project h env r).2 < ((p.project h env r).1.project h env r').1.nodes.length := by
    rw [hext]; simp; omega
  have hk2' : ((p.project h env r).1.project h env r').2 <
      ((p.project h env r).1.project h env r').1.nodes.length := hk2
  have hvals1 : ((p.project h env r).1.project h env r').1.vals (p.project h env r).2 =
      trim (p.populateRow env r).row := by
    rw [vals_getElem _ _ hk1'']
    have : ((p.project h env r).1.project h env r').1.nodes[(p.project h env r).2]'hk1'' =
        (p.project h env r).1.nodes[(p.project h env r).2]'hk1' := by
      simp [hext, List.getElem_append_left hk1']
    rw [this, ← vals_getElem _ _ hk1']
    exact hv1
  have hvals2 : ((p.project h env r).1.project h env r').1.vals ((p.project h env r).1.project h env r').2 =
      trim ((p.project h env r).1.populateRow env r').row := hv2
  constructor
  · intro he i
    have : trim (p.populateRow env r).row = trim ((p.project h env r).1.populateRow env r').row := by
      rw [← hvals1, ← hvals2, he]
    rw [← getVal_trim (p.populateRow env r).row, this, getVal_trim]
  · intro hall
    have ht := trim_eq_of_getVal_eq _ _ hall
    have hd := List.pairwise_iff_getElem.mp hi2.n.distinct
    apply Classical.byContradiction
    intro hne
    have hveq : ((p.project h env r).1.project h env r').1.vals (p.project h env r).2 =
        ((p.project h env r).1.project h env r').1.vals ((p.project h env r).1.project h env r').2 := by
      rw [hvals1, hvals2, ht]
    rw [vals_getElem _ _ hk1'', vals_getElem _ _ hk2'] at hveq
    rcases Nat.lt_or_gt_of_ne hne with hlt | hgt
    · exact hd _ _ hk1'' hk2' hlt hveq
    · exact hd _ _ hk2' hk1'' hgt hveq.symm

theorem fileValOf_none (k : Bytes) (cfgs : List (Bytes × Bytes × Bool)) (d : Bytes)
    (hn : ∀ c ∈ cfgs, ¬ (c.2.2 = true ∧ c.1 = k)) : fileValOf k cfgs d = d := by
  unfold fileValOf
  have : cfgs.reverse.find? (fun c => c.2.2 && c.1 == k) = none := by
    apply List.find?_eq_none.mpr
    intro c hc
    have := hn c (List.mem_reverse.mp hc)
    simpa using this
  rw [this]

/-- The two rows at the sub-fields of a `.config` group (as it is after both projections). -/
theorem cfgRows (h : List Bytes → UInt64) (env : Env) (p : Proj) (r r' : Res) (hi : Inv h p) (ho : OInv p)
    (pos : Nat) (o : Order) (hk : Part.config pos o ∈ p.parts) :
    ∀ fld ∈ groupSubs ((p.project h env r).1.populateRow env r').top pos,
      getVal (p.populateRow env r).row fld.idx = fileValOf fld.name r.config [] ∧
      getVal ((p.project h env r).1.populateRow env r').row fld.idx = fileValOf fld.name r'.config [] := by
  intro fld hsub
  obtain ⟨fpr, epr⟩ := populateRow_good env p r hi.f
  obtain ⟨_, v2, _⟩ := populateRow_values env p r hi.f ho
  have hi1 : Inv h (p.project h env r).1 := project_inv h env p r hi
  have ho1 : OInv (p.project h env r).1 := project_OInv h env p r hi.f ho
  obtain ⟨_, hnf1, hparts1, _, ⟨g, hg, _, htop1⟩, _, _, _⟩ := internRow_spec h (p.populateRow env r)
  have hparts1' : (p.project h env r).1.parts = p.parts := by
    show ((p.populateRow env r).internRow h).1.parts = _; rw [hparts1, epr.parts]
  have hnf1' : (p.project h env r).1.nFields = (p.populateRow env r).nFields := hnf1
  have htop1' : (p.project h env r).1.top = (p.populateRow env r).top.map (Top.mapFields g) := htop1
  obtain ⟨o2, g2⟩ := populateRow_own env (p.project h env r).1 r' hi1.f ho1
  obtain ⟨_, w2, _⟩ := populateRow_values env (p.project h env r).1 r' hi1.f ho1
  have hk1 : Part.config pos o ∈ (p.project h env r).1.parts := by rw [hparts1']; exact hk
  refine ⟨?_, w2 pos o hk1 fld hsub⟩
  rcases g2.fresh pos fld hsub with hold | hnew
  · rw [htop1', groupSubs_mapFields] at hold
    obtain ⟨f0, hf0, rfl⟩ := List.mem_map.mp hold
    rw [(hg f0).1, (hg f0).2.1]
    exact v2 pos o hk f0 hf0
  · have hrow : getVal (p.populateRow env r).row fld.idx = [] := by
      apply getVal_of_le
      rw [fpr.rowLen, ← hnf1']; exact hnew
    rw [hrow]
    symm
    apply fileValOf_none
    rintro c hc ⟨hfile, hkey⟩
    obtain ⟨_, hgrp2⟩ := populateRow_group env (p.project h env r).1 r' hi1.f ho1 pos o hk1
    have hnotold : fld ∉ groupSubs (p.project h env r).1.top pos := by
      intro hin
      have := subs_bound _ hi1.f pos fld hin
      omega
    rcases hgrp2 fld hsub with hin | ⟨hex, _⟩
    · exact hnotold hin
    · obtain ⟨hcov, _⟩ := populateRow_group env p r hi.f ho pos o hk
      obtain ⟨f0, hf0, hn0⟩ := hcov c hc hfile (by rw [hkey]; exact hex)
      have hin1 : g f0 ∈ groupSubs (p.project h env r).1.top pos := by
        rw [htop1', groupSubs_mapFields]; exact List.mem_map_of_mem hf0
      have hin2 := g2.mono pos _ hin1
      have : g f0 = fld := o2.subsNames pos _ _ hin2 hsub (by rw [(hg f0).2.1, hn0, hkey])
      exact hnotold (this ▸ hin1)

/-- Index by index: what the rows populated from `r` (in the state before) and from `r'` (in the
state after projecting `r`) contain, classified by the closure owning the index. -/
theorem twoRows (h : List Bytes → UInt64) (env : Env) (p : Proj) (r r' : Res) (hi : Inv h p) (ho : OInv p) :
    ∀ i, i < ((p.project h env r).1.populateRow env r').nFields →
      (∃ k, Part.key k i ∈ p.parts ∧ getVal (p.populateRow env r).row i = extractD k r ∧
        getVal ((p.project h env r).1.populateRow env r').row i = extractD k r') ∨
      (Part.fullname i ∈ p.parts ∧
        getVal (p.populateRow env r).row i = fullNameExcluding env.exclude r.name ∧
        getVal ((p.project h env r).1.populateRow env r').row i = fullNameExcluding env.exclude r'.name) ∨
      (∃ pos o f, Part.config pos o ∈ p.parts ∧
        f ∈ groupSubs ((p.project h env r).1.populateRow env r').top pos ∧ f.idx = i ∧
        getVal (p.populateRow env r).row i = fileValOf f.name r.config [] ∧
        getVal ((p.project h env r).1.populateRow env r').row i = fileValOf f.name r'.config []) ∨
      (getVal (p.populateRow env r).row i = [] ∧
        getVal ((p.project h env r).1.populateRow env r').row i = []) := by
  intro i hlt
  -- state after populating r
  obtain ⟨fpr, epr⟩ := populateRow_good env p r hi.f
  obtain ⟨opr, gpr⟩ := populateRow_own env p r hi.f ho
  obtain ⟨v1, v2, v3⟩ := populateRow_values env p r hi.f ho
  -- state q1 after interning
  have hi1 : Inv h (p.project h env r).1 := project_inv h env p r hi
  have ho1 : OInv (p.project h env r).1 := project_OInv h env p r hi.f ho
  obtain ⟨_, hnf1, hparts1, hu1, ⟨g, hg, hflat1, htop1⟩, _, _, _⟩ := internRow_spec h (p.populateRow env r)
  have hparts1' : (p.project h env r).1.parts = p.parts := by
    show ((p.populateRow env r).internRow h).1.parts = _; rw [hparts1, epr.parts]
  have hu1' : (p.project h env r).1.unitIdx = p.unitIdx := by
    show ((p.populateRow env r).internRow h).1.unitIdx = _; rw [hu1, epr.unitIdx]
  have hnf1' : (p.project h env r).1.nFields = (p.populateRow env r).nFields := hnf1
  have htop1' : (p.project h env r).1.top = (p.populateRow env r).top.map (Top.mapFields g) := htop1
  -- state after populating r' there
  obtain ⟨f2, e2⟩ := populateRow_good env (p.project h env r).1 r' hi1.f
  obtain ⟨o2, g2⟩ := populateRow_own env (p.project h env r).1 r' hi1.f ho1
  obtain ⟨w1, w2, w3⟩ := populateRow_values env (p.project h env r).1 r' hi1.f ho1
  obtain ⟨fld, hfld, hidx⟩ := f2.cover i hlt
  cases o2.owner fld hfld with
  | key hk =>
    rw [e2.parts, hparts1', hidx] at hk
    refine Or.inl ⟨fld.name, hk, ?_, ?_⟩
    · exact v1 _ hk i rfl
    · exact w1 _ (by rw [hparts1']; exact hk) i rfl
  | fullname hk _ =>
    rw [e2.parts, hparts1', hidx] at hk
    refine Or.inr (Or.inl ⟨hk, ?_, ?_⟩)
    · exact v1 _ hk i rfl
    · exact w1 _ (by rw [hparts1']; exact hk) i rfl
  | unit hk _ =>
    rw [e2.unitIdx, hu1', hidx] at hk
    exact Or.inr (Or.inr (Or.inr ⟨v3 i hk, w3 i (by rw [hu1']; exact hk)⟩))
  | config pos o hk hsub =>
    rw [e2.parts, hparts1'] at hk
    have hk1 : Part.config pos o ∈ (p.project h env r).1.parts := by rw [hparts1']; exact hk
    obtain ⟨c1, c2⟩ := cfgRows h env p r r' hi ho pos o hk fld hsub
    rw [hidx] at c1 c2
    exact Or.inr (Or.inr (Or.inl ⟨pos, o, fld, hk, hsub, hidx, c1, c2⟩))

/-- No sub-field of a `.config` group is a specific (excluded) key of the parser state `env`. -/
def NoExcl (env : Env) (p : Proj) : Prop :=
  ∀ pos o, Part.config pos o ∈ p.parts → ∀ f ∈ groupSubs p.top pos, env.configKeys.contains f.name = false

theorem NoExcl_populate (h : List Bytes → UInt64) (env : Env) (p : Proj) (r : Res) (hi : Inv h p) (ho : OInv p)
    (hn : NoExcl env p) : NoExcl env (p.populateRow env r) := by
  intro pos o hk f hf
  obtain ⟨_, e1⟩ := populateRow_good env p r hi.f
  rw [e1.parts] at hk
  rcases (populateRow_group env p r hi.f ho pos o hk).2 f hf with a | ⟨a, _⟩
  · exact hn pos o hk f a
  · exact a

theorem NoExcl_project (h : List Bytes → UInt64) (env : Env) (p : Proj) (r : Res) (hi : Inv h p) (ho : OInv p)
    (hn : NoExcl env p) : NoExcl env (p.project h env r).1 := by
  intro pos o hk f hf
  obtain ⟨_, _, hparts, _, ⟨g, hg, _, htop⟩, _, _, _⟩ := internRow_spec h (p.populateRow env r)
  change Part.config pos o ∈ ((p.populateRow env r).internRow h).1.parts at hk
  change f ∈ groupSubs ((p.populateRow env r).internRow h).1.top pos at hf
  rw [hparts] at hk
  rw [htop, groupSubs_mapFields] at hf
  obtain ⟨f0, hf0, rfl⟩ := List.mem_map.mp hf
  rw [(hg f0).2.1]
  exact NoExcl_populate h env p r hi ho hn pos o hk f0 hf0

/-- **Agreement on one projection**, for a projection none of whose `.config` sub-fields is an
excluded key (true when every projection of results happened after all parsing): two results get
the same key iff every specific key of the projection extracts the same value, the remaining
names are equal if it has `.fullname`, and the remaining file configurations are equal (as maps,
missing = "") if it has `.config`. -/
theorem agree_iff (h : List Bytes → UInt64) (env : Env) (p : Proj) (r r' : Res) (hi : Inv h p) (ho : OInv p)
    (hn : NoExcl env p) :
    agree h env p r r' ↔
      (∀ k i, Part.key k i ∈ p.parts → extractD k r = extractD k r') ∧
      (∀ i, Part.fullname i ∈ p.parts →
        fullNameExcluding env.exclude r.name = fullNameExcluding env.exclude r'.name) ∧
      (∀ pos o, Part.config pos o ∈ p.parts → ∀ c, env.configKeys.contains c = false →
        fileValOf c r.config [] = fileValOf c r'.config []) := by
  rw [agree_iff_rows h env p r r' hi]
  obtain ⟨fpr, epr⟩ := populateRow_good env p r hi.f
  obtain ⟨v1, _, _⟩ := populateRow_values env p r hi.f ho
  have hi1 : Inv h (p.project h env r).1 := project_inv h env p r hi
  have ho1 : OInv (p.project h env r).1 := project_OInv h env p r hi.f ho
  obtain ⟨_, hnf1, hparts1, _, ⟨g, hg, _, htop1⟩, _, _, _⟩ := internRow_spec h (p.populateRow env r)
  have hparts1' : (p.project h env r).1.parts = p.parts := by
    show ((p.populateRow env r).internRow h).1.parts = _; rw [hparts1, epr.parts]
  have hnf1' : (p.project h env r).1.nFields = (p.populateRow env r).nFields := hnf1
  have htop1' : (p.project h env r).1.top = (p.populateRow env r).top.map (Top.mapFields g) := htop1
  obtain ⟨f2, e2⟩ := populateRow_good env (p.project h env r).1 r' hi1.f
  obtain ⟨_, g2⟩ := populateRow_own env (p.project h env r).1 r' hi1.f ho1
  obtain ⟨w1, _, _⟩ := populateRow_values env (p.project h env r).1 r' hi1.f ho1
  constructor
  · intro hall
    refine ⟨?_, ?_, ?_⟩
    · intro k i hk
      have a := v1 _ hk i rfl
      have b := w1 _ (by rw [hparts1']; exact hk) i rfl
      simp only [leafValue] at a b
      rw [← a, ← b]; exact hall i
    · intro i hk
      have a := v1 _ hk i rfl
      have b := w1 _ (by rw [hparts1']; exact hk) i rfl
      simp only [leafValue] at a b
      rw [← a, ← b]; exact hall i
    · intro pos o hk c hex
      have hk1 : Part.config pos o ∈ (p.project h env r).1.parts := by rw [hparts1']; exact hk
      -- is there a sub-field named c after both projections?
      by_cases hsub : ∃ f ∈ groupSubs ((p.project h env r).1.populateRow env r').top pos, f.name = c
      · obtain ⟨f, hf, hname⟩ := hsub
        obtain ⟨c1, c2⟩ := cfgRows h env p r r' hi ho pos o hk f hf
        rw [← hname, ← c1, ← c2]; exact hall f.idx
      · -- neither result has a File entry with key c
        have n1 : ∀ d ∈ r.config, ¬ (d.2.2 = true ∧ d.1 = c) := by
          rintro d hd ⟨hfile, hkey⟩
          obtain ⟨f0, hf0, hn0⟩ := (populateRow_group env p r hi.f ho pos o hk).1 d hd hfile (by rw [hkey]; exact hex)
          have hin1 : g f0 ∈ groupSubs (p.project h env r).1.top pos := by
            rw [htop1', groupSubs_mapFields]; exact List.mem_map_of_mem hf0
          exact hsub ⟨g f0, g2.mono pos _ hin1, by rw [(hg f0).2.1, hn0, hkey]⟩
        have n2 : ∀ d ∈ r'.config, ¬ (d.2.2 = true ∧ d.1 = c) := by
          rintro d hd ⟨hfile, hkey⟩
          obtain ⟨f0, hf0, hn0⟩ := (populateRow_group env (p.project h env r).1 r' hi1.f ho1 pos o hk1).1 d hd hfile
            (by rw [hkey]; exact hex)
          exact hsub ⟨f0, hf0, by rw [hn0, hkey]⟩
        rw [fileValOf_none c _ _ n1, fileValOf_none c _ _ n2]
  · rintro ⟨hkey, hfull, hcfg⟩ i
    by_cases hlt : i < ((p.project h env r).1.populateRow env r').nFields
    · rcases twoRows h env p r r' hi ho i hlt with ⟨k, hk, a, b⟩ | ⟨hk, a, b⟩ | ⟨pos, o, f, hk, hf, _, a, b⟩ | ⟨a, b⟩
      · rw [a, b]; exact hkey k i hk
      · rw [a, b]; exact hfull i hk
      · rw [a, b]
        apply hcfg pos o hk
        have hn1 := NoExcl_project h env p r hi ho hn
        have hn2 := NoExcl_populate h env _ r' hi1 ho1 hn1
        exact hn2 pos o (by rw [e2.parts, hparts1']; exact hk) f hf
      · rw [a, b]
    · have hge : ((p.project h env r).1.populateRow env r').nFields ≤ i := Nat.le_of_not_lt hlt
      have l2 : ((p.project h env r).1.populateRow env r').row.length ≤ i := by
        have := f2.rowLen; omega
      have l1 : (p.populateRow env r).row.length ≤ i := by
        have a := fpr.rowLen
        have b := e2.nFields
        omega
      rw [getVal_of_le _ _ l1, getVal_of_le _ _ l2]

/-! ### Projections used only after all parsing -/

theorem mpProj_subs (s s' : Proj) (sp : Spec) (hm : mpProj s sp = .ok s') (pos : Nat) :
    groupSubs s'.top pos = groupSubs s.top pos := by
  unfold mpProj at hm
  split at hm
  · simp at hm
  split at hm
  · split at hm
    · simp at hm
    · simp only [Proj.addGroup, Except.ok.injEq] at hm
      subst hm
      exact groupSubs_append_group _ _ _
  · split at hm
    · simp only [Proj.addRootField, Except.ok.injEq] at hm
      subst hm
      exact groupSubs_append_leaf _ _ _
    · split at hm
      · simp at hm
      · split at hm
        · simp at hm
        · simp only [Proj.addRootField, Except.ok.injEq] at hm
          subst hm
          exact groupSubs_append_leaf _ _ _

theorem parseParts_subs (specs : List Spec) (pa : Parser) (s : Proj) (pa' : Parser) (s' : Proj)
    (hm : parseParts pa s specs = (pa', .ok s')) (pos : Nat) : groupSubs s'.top pos = groupSubs s.top pos := by
  induction specs generalizing pa s with
  | nil => simp [parseParts] at hm; obtain ⟨_, rfl⟩ := hm; rfl
  | cons sp rest ih =>
    unfold parseParts at hm
    rw [makeProjection_eq] at hm
    cases hh : mpProj s sp with
    | ok s1 =>
      simp only [hh] at hm
      rw [ih _ _ hm, mpProj_subs s s1 sp hh]
    | error e => simp [hh] at hm

theorem newProjection_subs (pos : Nat) : groupSubs newProjection.top pos = [] := by
  simp [newProjection, groupSubs]

theorem NoExcl_of_empty (env : Env) (p : Proj) (h : ∀ pos, groupSubs p.top pos = []) : NoExcl env p := by
  intro pos o _ f hf; rw [h pos] at hf; simp at hf

theorem NoExcl_internRow (h : List Bytes → UInt64) (env : Env) (p : Proj) (hn : NoExcl env p) :
    NoExcl env (p.internRow h).1 := by
  intro pos o hk f hf
  obtain ⟨_, _, hparts, _, ⟨g, hg, _, htop⟩, _, _, _⟩ := internRow_spec h p
  rw [hparts] at hk
  rw [htop, groupSubs_mapFields] at hf
  obtain ⟨f0, hf0, rfl⟩ := List.mem_map.mp hf
  rw [(hg f0).2.1]
  exact hn pos o hk f0 hf0

theorem NoExcl_projectUnits (h : List Bytes → UInt64) (env : Env) (ui : Nat) (us : List Bytes) (p : Proj)
    (hn : NoExcl env p) : NoExcl env (projectUnits h ui p us).1 := by
  induction us generalizing p with
  | nil => exact hn
  | cons u rest ih =>
    simp only [projectUnits]
    exact ih _ (NoExcl_internRow h env _ (fun pos o hk f hf => hn pos o hk f hf))

/-- The states of a projection that is only used under ONE parser state `env` — i.e. every
projection of results happens after all parsing. -/
inductive ReachableE (h : List Bytes → UInt64) (env : Env) : Proj → Prop
  | parsed (pa : Parser) (specs : List Spec) (pa' : Parser) (s : Proj) :
      pa.parse specs = (pa', .ok s) → ReachableE h env s
  | parsedWithUnit (pa : Parser) (specs : List Spec) (pa' : Parser) (s : Proj) :
      pa.parseWithUnit specs = (pa', .ok s) → ReachableE h env s
  | residue (pa : Parser) : ReachableE h env (pa.residue).2
  | project (p : Proj) (r : Res) : ReachableE h env p → ReachableE h env (p.project h env r).1
  | projectValues (p : Proj) (r : Res) : ReachableE h env p → ReachableE h env (p.projectValues h env r).1

theorem reachableE_reachable (h : List Bytes → UInt64) (env : Env) (p : Proj) (hr : ReachableE h env p) :
    Reachable h p := by
  induction hr with
  | parsed pa specs pa' s hm => exact Reachable.parsed pa specs pa' s hm
  | parsedWithUnit pa specs pa' s hm => exact Reachable.parsedWithUnit pa specs pa' s hm
  | residue pa => exact Reachable.residue pa
  | project p r _ ih => exact Reachable.project p env r ih
  | projectValues p r _ ih => exact Reachable.projectValues p env r ih

theorem residue_subs (pa : Parser) (pos : Nat) : groupSubs (pa.residue).2.top pos = [] := by
  have hstep : ∀ (st : Parser × Proj) (sp : Spec), groupSubs st.2.top pos = [] →
      groupSubs (residueStep st sp).2.top pos = [] := by
    intro st sp hst
    unfold residueStep
    rw [makeProjection_eq]
    cases hh : mpProj st.2 sp with
    | ok s1 => simp only []; rw [mpProj_subs st.2 s1 sp hh]; exact hst
    | error e => exact hst
  have h1 : ∀ st : Parser × Proj, groupSubs st.2.top pos = [] → ∀ (b : Bool) (sp : Spec),
      groupSubs (if b then residueStep st sp else st).2.top pos = [] := by
    intro st hst b sp
    cases b
    · simpa using hst
    · simpa using hstep st sp hst
  unfold Parser.residue
  have h2 := h1 (pa, newProjection) (newProjection_subs pos) (!pa.haveConfig) { key := dotConfig, order := .first }
  exact h1 _ h2 _ _

theorem reachableE_noExcl (h : List Bytes → UInt64) (env : Env) (p : Proj) (hr : ReachableE h env p) :
    NoExcl env p := by
  induction hr with
  | parsed pa specs pa' s hm =>
    apply NoExcl_of_empty
    intro pos
    rw [parseParts_subs specs pa newProjection pa' s (parse_ok _ _ _ _ hm) pos, newProjection_subs]
  | parsedWithUnit pa specs pa' s hm =>
    apply NoExcl_of_empty
    intro pos
    unfold Parser.parseWithUnit at hm
    split at hm
    · rename_i p1 s1 heq
      simp only [Prod.mk.injEq, Except.ok.injEq] at hm
      obtain ⟨_, rfl⟩ := hm
      simp only [Proj.addRootField, groupSubs_append_leaf]
      rw [parseParts_subs specs pa newProjection p1 s1 (parse_ok _ _ _ _ heq) pos, newProjection_subs]
    · rename_i hne
      cases hp : pa.parse specs with
      | mk p1 e =>
        cases e with
        | ok s1 => exact absurd hp (hne p1 s1)
        | error e => rw [hp] at hm; simp at hm
  | residue pa => exact NoExcl_of_empty env _ (residue_subs pa)
  | project p r hr ih =>
    have hrr := reachableE_reachable h env p hr
    exact NoExcl_project h env p r (reachable_inv h p hrr) (reachable_oinv h p hrr) ih
  | projectValues p r hr ih =>
    have hrr := reachableE_reachable h env p hr
    have hp := NoExcl_populate h env p r (reachable_inv h p hrr) (reachable_oinv h p hrr) ih
    unfold Proj.projectValues
    dsimp only
    split
    · exact NoExcl_internRow h env _ hp
    · exact NoExcl_projectUnits h env _ _ _ hp

/-! ### Which closures a parsed projection has -/

/-- A part names a specific key (and is accepted). -/
def isSpecific (sp : Spec) : Bool :=
  !isErr sp && sp.key != dotConfig && sp.key != dotFullname

/-- The closure a part contributes. -/
def NewPart (sp : Spec) (x : Part) : Prop :=
  (hcOf sp = true ∧ ∃ pos, x = Part.config pos sp.order) ∨
  (hfOf sp = true ∧ ∃ i, x = Part.fullname i) ∨
  (isSpecific sp = true ∧ ∃ i, x = Part.key sp.key i)

theorem mpProj_parts (s s' : Proj) (sp : Spec) (hm : mpProj s sp = .ok s') :
    ∃ x, NewPart sp x ∧ s'.parts = s.parts ++ [x] := by
  unfold mpProj at hm
  unfold NewPart hcOf hfOf isSpecific isErr
  cases h0 : (sp.order == .fixed [])
  case true => simp [h0] at hm
  cases h1 : (sp.key == dotConfig)
  case true =>
    cases h2 : isFixed sp.order
    case true => simp [h0, h1, h2] at hm
    simp only [h0, h1, h2, Bool.false_eq_true, if_false, if_true, Proj.addGroup, Except.ok.injEq] at hm
    subst hm
    exact ⟨_, Or.inl ⟨by simp, _, rfl⟩, rfl⟩
  cases h2 : (sp.key == dotFullname)
  case true =>
    simp only [h0, h1, h2, Bool.false_eq_true, if_false, if_true, Proj.addRootField, Except.ok.injEq] at hm
    subst hm
    exact ⟨_, Or.inr (Or.inl ⟨by simp, _, rfl⟩), rfl⟩
  cases h3 : (sp.key == dotUnit)
  case true => simp [h0, h1, h2, h3] at hm
  cases h4 : sp.key.isEmpty
  case true => simp [h0, h1, h2, h3, h4] at hm
  simp only [h0, h1, h2, h3, h4, Bool.false_eq_true, if_false, Proj.addRootField, Except.ok.injEq] at hm
  subst hm
  exact ⟨_, Or.inr (Or.inr ⟨by simp [bne, h1, h2], _, rfl⟩), rfl⟩

theorem parseParts_parts (specs : List Spec) (pa : Parser) (s : Proj) (pa' : Parser) (s' : Proj)
    (hm : parseParts pa s specs = (pa', .ok s')) :
    (∀ x, x ∈ s'.parts → x ∈ s.parts ∨ ∃ sp ∈ specs, NewPart sp x) ∧
    (∀ x, x ∈ s.parts → x ∈ s'.parts) ∧
    (∀ sp ∈ specs, ∃ x ∈ s'.parts, NewPart sp x) := by
  induction specs generalizing pa s with
  | nil => simp [parseParts] at hm; obtain ⟨_, rfl⟩ := hm; simp
  | cons sp rest ih =>
    unfold parseParts at hm
    rw [makeProjection_eq] at hm
    cases hh : mpProj s sp with
    | ok s1 =>
      simp only [hh] at hm
      obtain ⟨i1, i2, i3⟩ := ih _ _ hm
      obtain ⟨y, hy, hparts⟩ := mpProj_parts s s1 sp hh
      refine ⟨?_, ?_, ?_⟩
      · intro x hx
        rcases i1 x hx with a | ⟨sp', hsp', a⟩
        · rw [hparts] at a
          simp only [List.mem_append, List.mem_singleton] at a
          rcases a with a | a
          · exact Or.inl a
          · exact Or.inr ⟨sp, by simp, a ▸ hy⟩
        · exact Or.inr ⟨sp', by simp [hsp'], a⟩
      · intro x hx
        exact i2 x (by rw [hparts]; simp [hx])
      · intro sp' hsp'
        simp only [List.mem_cons] at hsp'
        rcases hsp' with rfl | hsp'
        · exact ⟨y, i2 y (by rw [hparts]; simp), hy⟩
        · exact i3 sp' hsp'
    | error e => simp [hh] at hm

/-- A successful `Parse` executes every part. -/
theorem parseParts_noErr (specs : List Spec) (pa : Parser) (s : Proj) (pa' : Parser) (s' : Proj)
    (hm : parseParts pa s specs = (pa', .ok s')) : ∀ sp ∈ specs, isErr sp = false := by
  induction specs generalizing pa s with
  | nil => simp
  | cons sp rest ih =>
    unfold parseParts at hm
    rw [makeProjection_eq] at hm
    cases hh : mpProj s sp with
    | ok s1 =>
      simp only [hh] at hm
      intro x hx
      simp only [List.mem_cons] at hx
      rcases hx with rfl | hx
      · cases he : isErr x with
        | false => rfl
        | true => obtain ⟨e, hee⟩ := mpProj_err s x he; rw [hee] at hh; simp at hh
      · exact ih _ _ hm x hx
    | error e => simp [hh] at hm

/-- The closures of a projection parsed (with or without `.unit`) from an expression. -/
theorem parseExpr_parts (pa pa' : Parser) (e : Bool × List Spec) (s : Proj) (hm : parseExpr pa e = (pa', .ok s)) :
    (∀ x, x ∈ s.parts → ∃ sp ∈ e.2, NewPart sp x) ∧
    (∀ sp ∈ e.2, ∃ x ∈ s.parts, NewPart sp x) ∧
    effSpecs e.2 = e.2 := by
  unfold parseExpr at hm
  cases hb : e.1 with
  | false =>
    simp only [hb, Bool.false_eq_true, if_false] at hm
    have hm' := parse_ok _ _ _ _ hm
    obtain ⟨i1, _, i3⟩ := parseParts_parts _ _ _ _ _ hm'
    refine ⟨fun x hx => ?_, i3, effSpecs_noErr _ (parseParts_noErr _ _ _ _ _ hm')⟩
    rcases i1 x hx with a | a
    · simp [newProjection] at a
    · exact a
  | true =>
    simp only [hb, if_true, Parser.parseWithUnit] at hm
    cases hh : pa.parse e.2 with
    | mk p1 r1 =>
      rw [hh] at hm
      cases r1 with
      | error err => simp at hm
      | ok s1 =>
        simp only [Prod.mk.injEq, Except.ok.injEq] at hm
        obtain ⟨_, rfl⟩ := hm
        have hh' := parse_ok _ _ _ _ hh
        obtain ⟨i1, _, i3⟩ := parseParts_parts _ _ _ _ _ hh'
        refine ⟨fun x hx => ?_, i3, effSpecs_noErr _ (parseParts_noErr _ _ _ _ _ hh')⟩
        simp only [Proj.addRootField] at hx
        rcases i1 x hx with a | a
        · simp [newProjection] at a
        · exact a

/-- The closures of the residue projection: `.config` iff no expression had it, `.fullname`
likewise. -/
theorem residue_parts (pa : Parser) :
    (pa.haveConfig = false → ∃ pos o, Part.config pos o ∈ (pa.residue).2.parts) ∧
    (pa.haveFullname = false → ∃ i, Part.fullname i ∈ (pa.residue).2.parts) ∧
    (∀ k i, Part.key k i ∉ (pa.residue).2.parts) := by
  have hstep : ∀ (st : Parser × Proj) (sp : Spec),
      residueStep st sp = (mpParser st.1 sp, match mpProj st.2 sp with | .ok s => s | .error _ => st.2) := by
    intro st sp
    unfold residueStep
    rw [makeProjection_eq]
    cases mpProj st.2 sp <;> rfl
  have hf1 : ∀ p : Parser, (mpParser p { key := dotConfig, order := .first }).haveFullname = p.haveFullname := by
    intro p
    rw [(mpParser_obs p { key := dotConfig, order := .first }).2.2.2.1]
    simp [hfOf]
  have c1 : ∀ s : Proj, ∃ s', mpProj s { key := dotConfig, order := .first } = .ok s' ∧
      ∃ pos, s'.parts = s.parts ++ [Part.config pos .first] := by
    intro s
    obtain ⟨s', hs⟩ := mpProj_ok s { key := dotConfig, order := .first } (by simp [isErr, isFixed])
    obtain ⟨y, hy, hp⟩ := mpProj_parts s s' _ hs
    refine ⟨s', hs, ?_⟩
    rcases hy with ⟨_, pos, rfl⟩ | ⟨hh, _⟩ | ⟨hh, _⟩
    · exact ⟨pos, hp⟩
    · simp [hfOf] at hh
    · simp [isSpecific, isErr, isFixed] at hh
  have c2 : ∀ s : Proj, ∃ s', mpProj s { key := dotFullname, order := .first } = .ok s' ∧
      ∃ i, s'.parts = s.parts ++ [Part.fullname i] := by
    intro s
    obtain ⟨s', hs⟩ := mpProj_ok s { key := dotFullname, order := .first }
      (by simp [isErr, isFixed, dotFullname, dotConfig])
    obtain ⟨y, hy, hp⟩ := mpProj_parts s s' _ hs
    refine ⟨s', hs, ?_⟩
    rcases hy with ⟨hh, _⟩ | ⟨_, i, rfl⟩ | ⟨hh, _⟩
    · simp [hcOf, dotFullname, dotConfig] at hh
    · exact ⟨i, hp⟩
    · simp [isSpecific, isErr, isFixed, dotFullname, dotConfig] at hh
  unfold Parser.residue
  simp only [hstep]
  cases hc : pa.haveConfig <;> cases hf : pa.haveFullname
  · obtain ⟨s1, h1, pos, p1⟩ := c1 newProjection
    obtain ⟨s2, h2, i, p2⟩ := c2 s1
    simp only [Bool.not_false, if_true, h1, hf1, hf, h2]
    rw [p2, p1]
    exact ⟨fun _ => ⟨pos, .first, by simp⟩, fun _ => ⟨i, by simp⟩, by intro k j hk; simp [newProjection] at hk⟩
  · obtain ⟨s1, h1, pos, p1⟩ := c1 newProjection
    simp only [Bool.not_false, if_true, h1, hf1, hf, Bool.not_true, Bool.false_eq_true, if_false]
    rw [p1]
    exact ⟨fun _ => ⟨pos, .first, by simp⟩, fun hh => by simp at hh, by intro k j hk; simp [newProjection] at hk⟩
  · obtain ⟨s2, h2, i, p2⟩ := c2 newProjection
    simp only [Bool.not_true, Bool.false_eq_true, if_false, hf, Bool.not_false, if_true, h2]
    rw [p2]
    exact ⟨fun hh => by simp at hh, fun _ => ⟨i, by simp⟩, by intro k j hk; simp [newProjection] at hk⟩
  · simp only [Bool.not_true, Bool.false_eq_true, if_false, hf]
    exact ⟨fun hh => by simp at hh, fun hh => by simp at hh, by intro k j hk; simp [newProjection] at hk⟩

/-- `q` is `p` after some projections of results under `env` (closures, `.unit` field unchanged). -/
inductive Descends (h : List Bytes → UInt64) (env : Env) : Proj → Proj → Prop
  | refl (p : Proj) : Descends h env p p
  | project (p q : Proj) (r : Res) : Descends h env p q → Descends h env p (q.project h env r).1
  | projectValues (p q : Proj) (r : Res) : Descends h env p q → Descends h env p (q.projectValues h env r).1

theorem projectUnits_parts (h : List Bytes → UInt64) (ui : Nat) (us : List Bytes) (p : Proj) :
    (projectUnits h ui p us).1.parts = p.parts := by
  induction us generalizing p with
  | nil => rfl
  | cons u rest ih =>
    simp only [projectUnits]
    rw [ih]
    obtain ⟨_, _, hp, _⟩ := internRow_spec h { p with row := p.row.set ui u }
    exact hp

theorem descends_parts (h : List Bytes → UInt64) (env : Env) (p q : Proj) (hd : Descends h env p q)
    (hr : ReachableE h env p) : q.parts = p.parts ∧ ReachableE h env q := by
  induction hd with
  | refl => exact ⟨rfl, hr⟩
  | project q r _ ih =>
    obtain ⟨ih1, ih2⟩ := ih
    have hi := reachable_inv h q (reachableE_reachable h env q ih2)
    obtain ⟨_, e1⟩ := populateRow_good env q r hi.f
    obtain ⟨_, _, hp, _⟩ := internRow_spec h (q.populateRow env r)
    exact ⟨by show ((q.populateRow env r).internRow h).1.parts = _; rw [hp, e1.parts, ih1],
      ReachableE.project q r ih2⟩
  | projectValues q r _ ih =>
    obtain ⟨ih1, ih2⟩ := ih
    have hi := reachable_inv h q (reachableE_reachable h env q ih2)
    obtain ⟨_, e1⟩ := populateRow_good env q r hi.f
    refine ⟨?_, ReachableE.projectValues q r ih2⟩
    unfold Proj.projectValues
    dsimp only
    split
    · obtain ⟨_, _, hp, _⟩ := internRow_spec h (q.populateRow env r)
      rw [hp, e1.parts, ih1]
    · rw [projectUnits_parts, e1.parts, ih1]

end C08
