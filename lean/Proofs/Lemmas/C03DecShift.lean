/-
C03 — the mirrored decimal slow path, part 4: `decimal.Shift` (repeated shifts by at most 60 bits).
-/
import Proofs.Lemmas.C03DecL

namespace C03
open Num Spec.NumText

theorem trim_trunc (a : Dc) : a.trim.trunc = a.trunc := rfl
theorem trim_neg (a : Dc) : a.trim.neg = a.neg := rfl

/-- truncation is sticky -/
theorem leftShift_trunc_mono (a : Dc) (k : Nat) (h : a.trunc = true) : (leftShift a k).trunc = true := by
  unfold leftShift
  simp only [trim_trunc, h, Bool.true_or]

theorem rightShift_trunc_mono (a : Dc) (k : Nat) (h : a.trunc = true) : (rightShift a k).trunc = true := by
  unfold rightShift
  split
  · exact h
  · simp only [trim_trunc, h]
    exact rsTail_mono k _ _ _ _

theorem shiftLeftBy_trunc_mono : ∀ (fuel : Nat) (a : Dc) (k : Nat), a.trunc = true → (shiftLeftBy fuel a k).trunc = true := by
  intro fuel
  induction fuel with
  | zero => intro a k h; exact h
  | succ fuel ih =>
    intro a k h
    unfold shiftLeftBy
    split
    · exact ih _ _ (leftShift_trunc_mono a _ h)
    · exact leftShift_trunc_mono a k h

theorem shiftRightBy_trunc_mono : ∀ (fuel : Nat) (a : Dc) (k : Nat), a.trunc = true → (shiftRightBy fuel a k).trunc = true := by
  intro fuel
  induction fuel with
  | zero => intro a k h; exact h
  | succ fuel ih =>
    intro a k h
    unfold shiftRightBy
    split
    · exact ih _ _ (rightShift_trunc_mono a _ h)
    · exact rightShift_trunc_mono a k h

theorem bool_false_of_mono {b b' : Bool} (mono : b = true → b' = true) (h : b' = false) : b = false := by
  cases b
  · rfl
  · rw [mono rfl] at h; cases h

theorem shiftLeftBy_exact : ∀ (fuel : Nat) (a : Dc) (k : Nat), 1 ≤ k → k ≤ 60 * fuel → WF a → a.d ≠ [] →
    a.trunc = false → (shiftLeftBy fuel a k).trunc = false →
    dval (shiftLeftBy fuel a k) = dval a * (2 : ℚ) ^ k ∧ WF (shiftLeftBy fuel a k) ∧ (shiftLeftBy fuel a k).d ≠ [] ∧
    Trimmed (shiftLeftBy fuel a k) ∧ (shiftLeftBy fuel a k).neg = a.neg := by
  intro fuel
  induction fuel with
  | zero => intro a k h1 h2; omega
  | succ fuel ih =>
    intro a k hk1 hk hwf hne ht ht'
    unfold shiftLeftBy at ht' ⊢
    by_cases hbig : k > maxShift
    · rw [if_pos hbig] at ht' ⊢
      have hm : maxShift = 60 := rfl
      have ht1 : (leftShift a maxShift).trunc = false :=
        bool_false_of_mono (shiftLeftBy_trunc_mono fuel _ (k - maxShift)) ht'
      obtain ⟨a1, a2, a3, _, a5⟩ := leftShift_exact a maxShift (by decide) (by decide) hwf hne ht ht1
      obtain ⟨b1, b2, b3, b4, b5⟩ := ih (leftShift a maxShift) (k - maxShift) (by omega) (by omega) a2 a3 ht1 ht'
      refine ⟨?_, b2, b3, b4, by rw [b5, a5]⟩
      rw [b1, a1, mul_assoc, ← pow_add]
      congr 2; omega
    · rw [if_neg hbig] at ht' ⊢
      have hm : maxShift = 60 := rfl
      exact leftShift_exact a k hk1 (by omega) hwf hne ht ht'

theorem shiftRightBy_exact : ∀ (fuel : Nat) (a : Dc) (k : Nat), 1 ≤ k → k ≤ 60 * fuel → WF a → a.d ≠ [] →
    a.trunc = false → (shiftRightBy fuel a k).trunc = false →
    dval (shiftRightBy fuel a k) = dval a / (2 : ℚ) ^ k ∧ WF (shiftRightBy fuel a k) ∧ (shiftRightBy fuel a k).d ≠ [] ∧
    Trimmed (shiftRightBy fuel a k) ∧ (shiftRightBy fuel a k).neg = a.neg := by
  intro fuel
  induction fuel with
  | zero => intro a k h1 h2; omega
  | succ fuel ih =>
    intro a k hk1 hk hwf hne ht ht'
    unfold shiftRightBy at ht' ⊢
    by_cases hbig : k > maxShift
    · rw [if_pos hbig] at ht' ⊢
      have hm : maxShift = 60 := rfl
      have ht1 : (rightShift a maxShift).trunc = false :=
        bool_false_of_mono (shiftRightBy_trunc_mono fuel _ (k - maxShift)) ht'
      obtain ⟨a1, a2, a3, _, a5⟩ := rightShift_exact a maxShift (by decide) (by decide) hwf hne ht ht1
      obtain ⟨b1, b2, b3, b4, b5⟩ := ih (rightShift a maxShift) (k - maxShift) (by omega) (by omega) a2 a3 ht1 ht'
      refine ⟨?_, b2, b3, b4, by rw [b5, a5]⟩
      rw [b1, a1, div_div, ← pow_add]
      congr 2; omega
    · rw [if_neg hbig] at ht' ⊢
      have hm : maxShift = 60 := rfl
      exact rightShift_exact a k hk1 (by omega) hwf hne ht ht'

/-- **`a.Shift(k)` multiplies the value by 2^k exactly** (k of either sign, |k| ≤ 6000) whenever no
truncation flag is set; the result is well-formed, non-zero, trimmed, with the same sign. -/
theorem shift_exact (a : Dc) (k : Int) (hk : k ≠ 0) (hk1 : -6000 ≤ k) (hk2 : k ≤ 6000) (hwf : WF a) (hne : a.d ≠ [])
    (ht : a.trunc = false) (ht' : (a.shift k).trunc = false) :
    dval (a.shift k) = dval a * (2 : ℚ) ^ k ∧ WF (a.shift k) ∧ (a.shift k).d ≠ [] ∧ Trimmed (a.shift k) ∧
    (a.shift k).neg = a.neg := by
  have hemp : a.d.isEmpty = false := by
    cases h : a.d with
    | nil => exact absurd h hne
    | cons _ _ => rfl
  unfold Dc.shift at ht' ⊢
  simp only [hemp, Bool.false_eq_true, if_false] at ht' ⊢
  by_cases hpos : k > 0
  · rw [if_pos hpos] at ht' ⊢
    obtain ⟨b1, b2⟩ := shiftLeftBy_exact 100 a k.toNat (by omega) (by omega) hwf hne ht ht'
    refine ⟨?_, b2⟩
    rw [b1]
    congr 1
    have : k = (k.toNat : Int) := by omega
    conv => rhs; rw [this]
    rw [zpow_natCast]
  · have hneg : k < 0 := by omega
    rw [if_neg hpos, if_pos hneg] at ht' ⊢
    obtain ⟨b1, b2⟩ := shiftRightBy_exact 100 a (-k).toNat (by omega) (by omega) hwf hne ht ht'
    refine ⟨?_, b2⟩
    rw [b1, div_eq_mul_inv]
    congr 1
    have : k = -((-k).toNat : Int) := by omega
    conv => rhs; rw [this]
    rw [zpow_neg, zpow_natCast]

end C03
