/-
C02 helper: the specification's stream functions re-expressed with the MODEL's single-line
parsers (`Spec.FormatM`). This is a stepping stone only: `Proofs/Lemmas/C02Grammar.lean` proves
that the model's parsers compute the declarative line grammar of `Model/Spec/Format.lean`, hence
`Spec.Format.lineRecs = Spec.FormatM.lineRecs` (and likewise `readFrom`, `read`, `readFiles`),
and `Proofs/Lemmas/C02Reader.lean` proves the reader model against `Spec.FormatM`.
-/
import Model.Spec.Format

namespace Spec.FormatM
open Fmt Spec.Format

def classify (O : Oracles) (line : Bytes) : Kind :=
  if Bytes.hasPrefix line benchmarkPrefix then
    (if parseBenchmarkLine O line = .skip then .ignored else .bench)
  else if (isUnitLine O.uc line).isSome then .unit
  else if (parseKeyValueLine O.uc line).isSome then .kv
  else .ignored

def lineRecs (O : Oracles) (fileName : Bytes) (cfg : CMap) (units : UnitMap) (n : Nat)
    (line : Bytes) : CMap × UnitMap × List SRec :=
  match classify O line with
  | .ignored => (cfg, units, [])
  | .kv =>
    match parseKeyValueLine O.uc line with
    | some (k, v) => (cfg.assign k v true, units, [])
    | none => (cfg, units, [])
  | .bench =>
    match parseBenchmarkLine O line with
    | .ok name iters vals => (cfg, units, [.result ⟨cfg, name, iters, vals, fileName, n⟩])
    | .err m => (cfg, units, [.err ⟨fileName, n, m⟩])
    | .skip => (cfg, units, [])
  | .unit =>
    match isUnitLine O.uc line with
    | some rest =>
      let (units', q) := parseUnitLine O fileName n units rest
      (cfg, units', q.map ofRecNoResult)
    | none => (cfg, units, [])

def readFrom (O : Oracles) (fileName : Bytes) : CMap → UnitMap → Nat → List Bytes → List SRec × UnitMap
  | _, units, _, [] => ([], units)
  | cfg, units, n, l :: ls =>
    let (cfg', units', q) := lineRecs O fileName cfg units n l
    let (qs, u) := readFrom O fileName cfg' units' (n + 1) ls
    (q ++ qs, u)

def read (O : Oracles) (fileName : Bytes) (labels : CMap) (units : UnitMap) (text : Bytes) :
    List SRec × UnitMap :=
  readFrom O (displayName fileName) labels units 1 (lines text)

def readFiles (O : Oracles) (fs : FS) : UnitMap → Bytes → List (Bytes × Bytes × Bool) → FilesSpec
  | units, _, [] => ⟨[], none, units, []⟩
  | units, stdin, (label, path, isStdin) :: rest =>
    match (if isStdin then some stdin else fs.open path) with
    | none => ⟨[], some path, units, []⟩
    | some text =>
      let (q, units') := read O path (CMap.assign [] dotFile label false) units text
      let out := readFiles O fs units' (if isStdin then [] else stdin) rest
      { out with recs := q ++ out.recs, results := (q.filter SRec.isResult).length :: out.results }

end Spec.FormatM
