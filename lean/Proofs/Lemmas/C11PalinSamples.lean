/-
C11: samples whose tie vector is palindromic — the code's two-sided p-value is the specification's.
-/
import Proofs.Lemmas.C11EndToEnd
import Proofs.Lemmas.C11Palindromic
import Proofs.Lemmas.C11ErrIff

namespace C11
open Stats Stats.UStat Spec.UExact

/-- the null distribution of samples with a palindromic tie vector is symmetric about n1·n2 -/
theorem nullDist_symmetric_of_palindromic {α : Type} [LinearOrder α] (x1 x2 : List α)
    (hpal : (tieVector x1 x2).reverse = tieVector x1 x2) (v : Nat) :
    ((nullDist x1 x2).filter (· ≤ v)).length
      = ((nullDist x1 x2).filter (fun d => decide (d + v ≥ 2 * (x1.length * x2.length)))).length := by
  have hc := E2E.countEq_nullDist_poolOf x1 x2
  rw [hc.filter_length (fun d => decide (d ≤ v)),
      hc.filter_length (fun d => decide (d + v ≥ 2 * (x1.length * x2.length)))]
  have hs := palindromic_symmetric (tieVector x1 x2) hpal x1.length v
  rw [ErrIff.tieVector_sum] at hs
  have e : x1.length + x2.length - x1.length = x2.length := by omega
  rw [e] at hs
  exact hs

/-- **two_sided_spec for palindromic tie patterns, end to end**: on the exact branch, for samples
    whose tie vector reads the same in both directions, `MannWhitneyUTest(…, LocationDiffers)` returns
    U by pair counting and p = min(1, 2·min(P(U ≤ u), P(U ≥ u))) over all assignments. -/
theorem two_sided_exact_of_palindromic {α : Type} [LinearOrder α] (x1 x2 : List α) (lim limT : Nat)
    (h1 : x1 ≠ []) (h2 : x2 ≠ []) (hne : allEqual x1 x2 = false)
    (hb : exactBranch (ranks (labeledMerge (sortF x1) (sortF x2))).hasTies x1.length x2.length lim limT = true)
    (hpal : (tieVector x1 x2).reverse = tieVector x1 x2) :
    mannWhitney Stats.UDist.cdfPure lim limT x1 x2 .differs
      = .exact ((twoUPairs x1 x2 : Nat) : Int) (pTwoSided (nullDist x1 x2) (twoUPairs x1 x2)) :=
  two_sided_exact_of_symmetric x1 x2 lim limT h1 h2 hne hb
    (nullDist_symmetric_of_palindromic x1 x2 hpal)

end C11
