/-
C14 helper lemmas: invariants of `Tab.add` / `Tab.build` (Builder.Add).
-/
import Proofs.Lemmas.C14AL
import Model.Spec.Cells

namespace C14L
open Tab

section
variable {α β : Type} [DecidableEq α]

theorem mem_upsert {k : α} {f : Option β → β} {l : List (α × β)} {k' : α} {v' : β}
    (h : (k', v') ∈ AL.upsert k f l) : (k', v') ∈ l ∨ (k' = k ∧ v' = f (AL.lookup k l)) := by
  induction l with
  | nil => simp [AL.upsert, AL.lookup] at h ⊢; exact h
  | cons kv rest ih =>
    obtain ⟨k0, v0⟩ := kv
    by_cases hk : k0 = k
    · subst hk
      simp only [AL.upsert, if_true, List.mem_cons] at h
      rcases h with e | hm
      · cases e; right; simp [AL.lookup]
      · left; exact List.mem_cons_of_mem _ hm
    · simp only [AL.upsert, hk, if_false, List.mem_cons] at h
      rcases h with e | hm
      · left; rw [e]; exact List.mem_cons_self ..
      · rcases ih hm with h1 | ⟨h1, h2⟩
        · left; exact List.mem_cons_of_mem _ h1
        · right; refine ⟨h1, ?_⟩; simp [AL.lookup, hk, h2]

/-- weight of a map after an upsert that adds one unit to the touched entry -/
theorem sum_upsert (w : β → Nat) (k : α) (f : Option β → β) (l : List (α × β))
    (hf : ∀ o, w (f o) = (o.map w).getD 0 + 1) :
    ((AL.upsert k f l).map (fun kv => w kv.2)).sum = (l.map (fun kv => w kv.2)).sum + 1 := by
  induction l with
  | nil => simp [AL.upsert, hf]
  | cons kv rest ih =>
    obtain ⟨k0, v0⟩ := kv
    by_cases hk : k0 = k
    · simp [AL.upsert, hk, hf]; omega
    · simp [AL.upsert, hk, ih]; omega
end

variable {κ ζ ν : Type} [DecidableEq κ] [DecidableEq ζ]

theorem addCell_cells (rk ck : κ) (z : ζ) (v : ν) (t : BTable κ ζ ν) :
    (addCell rk ck z v t).cells = AL.upsert (rk, ck) (BCell.add z v) t.cells := by
  unfold addCell; split <;> rfl

theorem BCell_add_values (z : ζ) (v : ν) (o : Option (BCell ζ ν)) :
    (BCell.add z v o).values = ((o.map (·.values)).getD []) ++ [v] := by
  cases o <;> simp [BCell.add]

theorem mem_BCell_add_residue (z z' : ζ) (v : ν) (o : Option (BCell ζ ν)) :
    z' ∈ (BCell.add z v o).residue ↔ z' = z ∨ z' ∈ (o.map (·.residue)).getD [] := by
  cases o with
  | none => simp [BCell.add]
  | some c => simp [BCell.add, mem_insertSet]

/-- the cells of table `t` (none if the table does not exist) -/
def cellsAt (b : Builder κ ζ ν) (t : κ) : List ((κ × κ) × BCell ζ ν) :=
  ((AL.lookup t b).map (·.cells)).getD []

theorem cellsAt_addValue (rk ck : κ) (z : ζ) (b : Builder κ ζ ν) (tv : κ × ν) (t : κ) :
    cellsAt (addValue rk ck z b tv) t =
      if t = tv.1 then AL.upsert (rk, ck) (BCell.add z tv.2) (cellsAt b t) else cellsAt b t := by
  unfold cellsAt addValue
  rw [lookup_upsert]
  by_cases h : t = tv.1
  · subst h
    simp only [if_true, Option.map_some, Option.getD_some, addCell_cells]
    cases AL.lookup tv.1 b <;> simp [newTable]
  · simp [h]

theorem cellValues_eq (b : Builder κ ζ ν) (t r c : κ) :
    cellValues b t r c = (((AL.lookup (r, c) (cellsAt b t)).map (·.values)).getD []) := by
  unfold cellValues cellsAt
  cases AL.lookup t b with
  | none => simp [AL.lookup]
  | some bt => simp; cases AL.lookup (r, c) bt.cells <;> simp

theorem hasCell_eq (b : Builder κ ζ ν) (t r c : κ) :
    hasCell b t r c = (AL.lookup (r, c) (cellsAt b t)).isSome := by
  unfold hasCell cellsAt
  cases AL.lookup t b with
  | none => simp [AL.lookup]
  | some bt => simp

theorem cellResidue_eq (b : Builder κ ζ ν) (t r c : κ) :
    cellResidue b t r c = (((AL.lookup (r, c) (cellsAt b t)).map (·.residue)).getD []) := by
  unfold cellResidue cellsAt
  cases AL.lookup t b with
  | none => simp [AL.lookup]
  | some bt => simp; cases AL.lookup (r, c) bt.cells <;> simp

theorem cellValues_addValue (rk ck : κ) (z : ζ) (b : Builder κ ζ ν) (tv : κ × ν) (t r c : κ) :
    cellValues (addValue rk ck z b tv) t r c =
      cellValues b t r c ++ (if tv.1 = t ∧ rk = r ∧ ck = c then [tv.2] else []) := by
  rw [cellValues_eq, cellValues_eq, cellsAt_addValue]
  by_cases ht : t = tv.1
  · subst ht
    simp only [if_true, true_and]
    rw [lookup_upsert]
    by_cases hk : (r, c) = (rk, ck)
    · cases hk
      simp [BCell_add_values]
    · have : ¬ (rk = r ∧ ck = c) := by
        rintro ⟨rfl, rfl⟩; exact hk rfl
      simp [hk, this]
  · have : ¬ tv.1 = t := fun e => ht e.symm
    simp [ht, this]

theorem hasCell_addValue (rk ck : κ) (z : ζ) (b : Builder κ ζ ν) (tv : κ × ν) (t r c : κ) :
    hasCell (addValue rk ck z b tv) t r c =
      (hasCell b t r c || decide (tv.1 = t ∧ rk = r ∧ ck = c)) := by
  rw [hasCell_eq, hasCell_eq, cellsAt_addValue]
  by_cases ht : t = tv.1
  · subst ht
    simp only [if_true, true_and]
    rw [lookup_upsert]
    by_cases hk : (r, c) = (rk, ck)
    · cases hk; simp
    · have : ¬ (rk = r ∧ ck = c) := by
        rintro ⟨rfl, rfl⟩; exact hk rfl
      simp [hk, this]
  · have : ¬ tv.1 = t := fun e => ht e.symm
    simp [ht, this]

theorem mem_cellResidue_addValue (rk ck : κ) (z z' : ζ) (b : Builder κ ζ ν) (tv : κ × ν) (t r c : κ) :
    z' ∈ cellResidue (addValue rk ck z b tv) t r c ↔
      z' ∈ cellResidue b t r c ∨ ((tv.1 = t ∧ rk = r ∧ ck = c) ∧ z' = z) := by
  rw [cellResidue_eq, cellResidue_eq, cellsAt_addValue]
  by_cases ht : t = tv.1
  · subst ht
    simp only [if_true, true_and]
    rw [lookup_upsert]
    by_cases hk : (r, c) = (rk, ck)
    · cases hk
      simp only [if_true, Option.map_some, Option.getD_some, mem_BCell_add_residue, and_self, true_and]
      exact or_comm
    · have : ¬ (rk = r ∧ ck = c) := by
        rintro ⟨rfl, rfl⟩; exact hk rfl
      simp [hk, this]
  · have : ¬ tv.1 = t := fun e => ht e.symm
    simp [ht, this]

/-! ### folding over the values of a result and over the stream -/

open Spec.Cells

theorem inCell_mkMeas (r0 : Res κ ζ ν) (tv : κ × ν) (t r c : κ) :
    inCell t r c (mkMeas r0 tv) = decide (tv.1 = t ∧ r0.row = r ∧ r0.col = c) := by
  simp only [inCell, mkMeas]
  by_cases h1 : tv.1 = t <;> by_cases h2 : r0.row = r <;> by_cases h3 : r0.col = c <;> simp [h1, h2, h3]

@[simp] theorem mkMeas_value (r0 : Res κ ζ ν) (tv : κ × ν) : (mkMeas r0 tv).value = tv.2 := rfl
@[simp] theorem mkMeas_residue (r0 : Res κ ζ ν) (tv : κ × ν) : (mkMeas r0 tv).residue = r0.residue := rfl

theorem cellValues_add (b : Builder κ ζ ν) (r0 : Res κ ζ ν) (t r c : κ) :
    cellValues (add b r0) t r c =
      cellValues b t r c ++ ((measOf [r0]).filter (inCell t r c)).map (·.value) := by
  unfold add
  have : ∀ (vals : List (κ × ν)) (b : Builder κ ζ ν),
      cellValues (vals.foldl (addValue r0.row r0.col r0.residue) b) t r c =
        cellValues b t r c ++ ((vals.map (mkMeas r0)).filter (inCell t r c)).map (·.value) := by
    intro vals
    induction vals with
    | nil => intro b; simp
    | cons tv rest ih =>
      intro b
      rw [List.foldl_cons, ih, cellValues_addValue]
      simp only [List.map_cons, List.filter_cons, inCell_mkMeas]
      by_cases h : tv.1 = t ∧ r0.row = r ∧ r0.col = c <;> simp [h]
  simpa [measOf] using this r0.vals b

theorem cellValues_foldl (rs : List (Res κ ζ ν)) (b : Builder κ ζ ν) (t r c : κ) :
    cellValues (rs.foldl add b) t r c =
      cellValues b t r c ++ ((measOf rs).filter (inCell t r c)).map (·.value) := by
  induction rs generalizing b with
  | nil => simp [measOf]
  | cons r0 rest ih =>
    rw [List.foldl_cons, ih, cellValues_add]
    simp [measOf, List.append_assoc]

theorem hasCell_add (b : Builder κ ζ ν) (r0 : Res κ ζ ν) (t r c : κ) :
    hasCell (add b r0) t r c = (hasCell b t r c || (measOf [r0]).any (inCell t r c)) := by
  unfold add
  have : ∀ (vals : List (κ × ν)) (b : Builder κ ζ ν),
      hasCell (vals.foldl (addValue r0.row r0.col r0.residue) b) t r c =
        (hasCell b t r c || (vals.map (mkMeas r0)).any (inCell t r c)) := by
    intro vals
    induction vals with
    | nil => intro b; simp
    | cons tv rest ih =>
      intro b
      rw [List.foldl_cons, ih, hasCell_addValue]
      simp only [List.map_cons, List.any_cons, inCell_mkMeas, Bool.or_assoc]
  simpa [measOf] using this r0.vals b

theorem hasCell_foldl (rs : List (Res κ ζ ν)) (b : Builder κ ζ ν) (t r c : κ) :
    hasCell (rs.foldl add b) t r c = (hasCell b t r c || (measOf rs).any (inCell t r c)) := by
  induction rs generalizing b with
  | nil => simp [measOf]
  | cons r0 rest ih =>
    rw [List.foldl_cons, ih, hasCell_add]
    simp [measOf, Bool.or_assoc]

theorem mem_cellResidue_add (b : Builder κ ζ ν) (r0 : Res κ ζ ν) (t r c : κ) (z' : ζ) :
    z' ∈ cellResidue (add b r0) t r c ↔
      z' ∈ cellResidue b t r c ∨ z' ∈ ((measOf [r0]).filter (inCell t r c)).map (·.residue) := by
  unfold add
  have : ∀ (vals : List (κ × ν)) (b : Builder κ ζ ν),
      z' ∈ cellResidue (vals.foldl (addValue r0.row r0.col r0.residue) b) t r c ↔
        z' ∈ cellResidue b t r c ∨ z' ∈ ((vals.map (mkMeas r0)).filter (inCell t r c)).map (·.residue) := by
    intro vals
    induction vals with
    | nil => intro b; simp
    | cons tv rest ih =>
      intro b
      rw [List.foldl_cons, ih, mem_cellResidue_addValue]
      simp only [List.map_cons, List.filter_cons, inCell_mkMeas]
      by_cases h : tv.1 = t ∧ r0.row = r ∧ r0.col = c <;> simp [h, or_assoc]
  simpa [measOf] using this r0.vals b

theorem mem_cellResidue_foldl (rs : List (Res κ ζ ν)) (b : Builder κ ζ ν) (t r c : κ) (z' : ζ) :
    z' ∈ cellResidue (rs.foldl add b) t r c ↔
      z' ∈ cellResidue b t r c ∨ z' ∈ ((measOf rs).filter (inCell t r c)).map (·.residue) := by
  induction rs generalizing b with
  | nil => simp [measOf]
  | cons r0 rest ih =>
    rw [List.foldl_cons, ih, mem_cellResidue_add]
    simp [measOf, or_assoc]

/-! ### total number of stored values -/

def cellsTotal (cells : List ((κ × κ) × BCell ζ ν)) : Nat := (cells.map fun kc => kc.2.values.length).sum

def totalValues (b : Builder κ ζ ν) : Nat := (b.map fun kt => cellsTotal kt.2.cells).sum

theorem totalValues_addValue (rk ck : κ) (z : ζ) (b : Builder κ ζ ν) (tv : κ × ν) :
    totalValues (addValue rk ck z b tv) = totalValues b + 1 := by
  unfold totalValues addValue
  apply sum_upsert (fun bt : BTable κ ζ ν => cellsTotal bt.cells)
  intro o
  rw [addCell_cells]
  unfold cellsTotal
  rw [sum_upsert (fun c : BCell ζ ν => c.values.length)]
  · cases o <;> simp [newTable]
  · intro oc; cases oc <;> simp [BCell.add]

theorem totalValues_add (b : Builder κ ζ ν) (r0 : Res κ ζ ν) :
    totalValues (add b r0) = totalValues b + r0.vals.length := by
  unfold add
  generalize r0.vals = vals
  induction vals generalizing b with
  | nil => simp
  | cons tv rest ih => rw [List.foldl_cons, ih, totalValues_addValue]; simp; omega

theorem totalValues_foldl (rs : List (Res κ ζ ν)) (b : Builder κ ζ ν) :
    totalValues (rs.foldl add b) = totalValues b + (measOf rs).length := by
  induction rs generalizing b with
  | nil => simp [measOf]
  | cons r0 rest ih =>
    rw [List.foldl_cons, ih, totalValues_add]
    simp [measOf]; omega

/-! ### well-formedness: unique keys, rows/cols are exactly the keys of the cells -/

structure TableWF (bt : BTable κ ζ ν) : Prop where
  cellsNodup : (AL.keys bt.cells).Nodup
  rowsNodup : bt.rows.Nodup
  colsNodup : bt.cols.Nodup
  rows_iff : ∀ r, r ∈ bt.rows ↔ ∃ c, (r, c) ∈ AL.keys bt.cells
  cols_iff : ∀ c, c ∈ bt.cols ↔ ∃ r, (r, c) ∈ AL.keys bt.cells
  residueNodup : ∀ k cell, (k, cell) ∈ bt.cells → cell.residue.Nodup

def WF (b : Builder κ ζ ν) : Prop := (AL.keys b).Nodup ∧ ∀ t bt, (t, bt) ∈ b → TableWF bt

theorem TableWF_new : TableWF (newTable : BTable κ ζ ν) := by
  constructor <;> simp [newTable, AL.keys]

theorem BCell_add_residue_nodup (z : ζ) (v : ν) (o : Option (BCell ζ ν))
    (h : ∀ c, o = some c → c.residue.Nodup) : (BCell.add z v o).residue.Nodup := by
  cases o with
  | none => simp [BCell.add]
  | some c => simp only [BCell.add]; exact nodup_insertSet _ _ (h c rfl)

theorem TableWF_addCell (rk ck : κ) (z : ζ) (v : ν) (bt : BTable κ ζ ν) (h : TableWF bt) :
    TableWF (addCell rk ck z v bt) := by
  have hres : ∀ k cell, (k, cell) ∈ AL.upsert (rk, ck) (BCell.add z v) bt.cells → cell.residue.Nodup := by
    intro k cell hm
    rcases mem_upsert hm with h1 | ⟨_, h2⟩
    · exact h.residueNodup k cell h1
    · rw [h2]
      apply BCell_add_residue_nodup
      intro c hc
      exact h.residueNodup _ c (lookup_mem hc)
  unfold addCell
  cases hl : AL.lookup (rk, ck) bt.cells with
  | none =>
    have hnk : (rk, ck) ∉ AL.keys bt.cells := (lookup_none_iff _ _).mp hl
    have hkeys : AL.keys (AL.upsert (rk, ck) (BCell.add z v) bt.cells) = AL.keys bt.cells ++ [(rk, ck)] := by
      rw [keys_upsert]; simp [hnk]
    refine ⟨nodup_keys_upsert _ _ _ h.cellsNodup, nodup_insertSet _ _ h.rowsNodup,
      nodup_insertSet _ _ h.colsNodup, ?_, ?_, hres⟩
    · intro r
      simp only [mem_insertSet, hkeys, List.mem_append, List.mem_singleton, Prod.mk.injEq, h.rows_iff]
      constructor
      · rintro (rfl | ⟨c, hc⟩)
        · exact ⟨ck, Or.inr ⟨rfl, rfl⟩⟩
        · exact ⟨c, Or.inl hc⟩
      · rintro ⟨c, hc | ⟨rfl, _⟩⟩
        · exact Or.inr ⟨c, hc⟩
        · exact Or.inl rfl
    · intro c
      simp only [mem_insertSet, hkeys, List.mem_append, List.mem_singleton, Prod.mk.injEq, h.cols_iff]
      constructor
      · rintro (rfl | ⟨r, hr⟩)
        · exact ⟨rk, Or.inr ⟨rfl, rfl⟩⟩
        · exact ⟨r, Or.inl hr⟩
      · rintro ⟨r, hr | ⟨_, rfl⟩⟩
        · exact Or.inr ⟨r, hr⟩
        · exact Or.inl rfl
  | some c0 =>
    have hk : (rk, ck) ∈ AL.keys bt.cells := by
      rw [← lookup_isSome_iff_mem_keys]; simp [hl]
    have hkeys : AL.keys (AL.upsert (rk, ck) (BCell.add z v) bt.cells) = AL.keys bt.cells := by
      rw [keys_upsert]; simp [hk]
    refine ⟨by simpa [hkeys] using h.cellsNodup, h.rowsNodup, h.colsNodup, ?_, ?_, hres⟩
    · intro r; simpa [hkeys] using h.rows_iff r
    · intro c; simpa [hkeys] using h.cols_iff c

theorem WF_addValue (rk ck : κ) (z : ζ) (b : Builder κ ζ ν) (tv : κ × ν) (h : WF b) :
    WF (addValue rk ck z b tv) := by
  refine ⟨nodup_keys_upsert _ _ _ h.1, ?_⟩
  intro t bt hm
  rcases mem_upsert hm with h1 | ⟨_, h2⟩
  · exact h.2 t bt h1
  · rw [h2]
    apply TableWF_addCell
    cases hl : AL.lookup tv.1 b with
    | none => exact TableWF_new
    | some bt0 => exact h.2 _ _ (lookup_mem hl)

theorem WF_add (b : Builder κ ζ ν) (r0 : Res κ ζ ν) (h : WF b) : WF (add b r0) := by
  unfold add
  generalize r0.vals = vals
  induction vals generalizing b with
  | nil => exact h
  | cons tv rest ih => rw [List.foldl_cons]; exact ih _ (WF_addValue _ _ _ _ _ h)

theorem WF_build (rs : List (Res κ ζ ν)) : WF (build rs) := by
  unfold build
  have : ∀ (b : Builder κ ζ ν), WF b → WF (rs.foldl add b) := by
    induction rs with
    | nil => intro b h; exact h
    | cons r0 rest ih => intro b h; rw [List.foldl_cons]; exact ih _ (WF_add _ _ h)
  exact this [] ⟨by simp [AL.keys], by simp⟩

end C14L
