/-
C16 — the unit (column labels) row of ToText, shrink marks, and the whole call sequence.
-/
import Proofs.Lemmas.C16HeaderOps

namespace C16
open Tab.TextTab Tab.Render Tab.KeyHeader

/-! ### shrink marks -/

theorem growShrink_getD (l : List Bool) (n j : Nat) : (growShrink l n).getD j false = l.getD j false := by
  unfold growShrink
  simp only [List.getD_eq_getElem?_getD, List.getElem?_append, List.getElem?_replicate]
  split
  · rfl
  · rename_i h
    rw [List.getElem?_eq_none (by omega)]
    split <;> rfl

theorem growShrink_length (l : List Bool) (n : Nat) : n ≤ (growShrink l n).length := by
  unfold growShrink; simp; omega

theorem isShrink_setShrink (t : Table) (c : Nat) (b : Bool) (j : Nat) :
    (t.setShrink c b).isShrink j = if j = c then b else t.isShrink j := by
  unfold Table.setShrink Table.isShrink
  simp only
  have hlen := growShrink_length t.shrink (c + 1)
  rw [List.getD_eq_getElem?_getD, List.getElem?_set]
  by_cases hj : j = c
  · subst hj
    have : j < (growShrink t.shrink (j + 1)).length := by omega
    simp [this]
  · have : ¬ c = j := fun h => hj h.symm
    simp only [this, if_false, hj]
    rw [← List.getD_eq_getElem?_getD, growShrink_getD]

theorem run_setShrinks (a : Nat) : ∀ (n : Nat) (t : Table),
    ∃ t', runOps t ((List.range n).map fun k => Op.setShrink (a + k) true) = some t' ∧
      t'.cells = t.cells ∧ t'.curRow = t.curRow ∧ t'.curCol = t.curCol ∧
      ∀ j, t'.isShrink j = if a ≤ j ∧ j < a + n then true else t.isShrink j := by
  intro n
  induction n with
  | zero =>
    intro t
    refine ⟨t, rfl, rfl, rfl, rfl, fun j => ?_⟩
    have : ¬ (a ≤ j ∧ j < a + 0) := by omega
    rw [if_neg this]
  | succ n ih =>
    intro t
    obtain ⟨t1, h1, h2, h3, h4, h5⟩ := ih t
    refine ⟨t1.setShrink (a + n) true, ?_, ?_, ?_, ?_, ?_⟩
    · rw [List.range_succ, List.map_append, runOps_append, h1]
      simp [runOps_cons, runOps_nil, Table.step]
    · simpa [Table.setShrink] using h2
    · simpa [Table.setShrink] using h3
    · simpa [Table.setShrink] using h4
    · intro j
      rw [isShrink_setShrink, h5]
      by_cases hj : j = a + n
      · subst hj; simp
      · simp only [hj, if_false]
        by_cases h : a ≤ j ∧ j < a + n
        · have : a ≤ j ∧ j < a + (n + 1) := ⟨h.1, by omega⟩
          simp [h, this]
        · have : ¬ (a ≤ j ∧ j < a + (n + 1)) := by omega
          simp [h, this]

/-! ### the unit row -/

def unitCell (r i : Nat) (unit : Bytes) : Cell :=
  { row := r, col := textStartCol i, span := 3, value := unit, margin := barMargin, align := .center }

def vsCell (r i : Nat) : Cell :=
  { row := r, col := textStartCol i + 3, span := 3, value := vsBase, margin := [0x20, 0x20], align := .left }

def unitCellsOf (r : Nat) (unit : Bytes) (i : Nat) : List Cell :=
  unitCell r i unit :: (if i > 0 then [vsCell r i] else [])

/-- the calls of the unit row for logical column `i` -/
def unitBlock (unit : Bytes) (i : Nat) : List Op :=
  [Op.col (textStartCol i), Op.span 3 unit [.center, .margin barMargin]] ++
  (if i > 0 then [Op.span 3 vsBase [.left, .margin [0x20, 0x20]]] else []) ++
  shrinkOps (textStartCol i + 1) (if i > 0 then textStartCol i + 6 else textStartCol i + 3)

theorem unitRowOps_eq (rEdge ncols : Nat) (unit : Bytes) :
    unitRowOps rEdge ncols unit =
      Op.row :: ((List.range ncols).flatMap (unitBlock unit) ++ [Op.col rEdge, Op.span 1 [] [.margin edgeMargin]]) := by
  have h : unitRowOps rEdge ncols unit =
      [Op.row] ++ (List.range ncols).flatMap (unitBlock unit) ++ [Op.col rEdge, Op.span 1 [] [.margin edgeMargin]] := rfl
  rw [h]; simp

theorem unit_block (unit : Bytes) (i : Nat) (t : Table) (h : t.curCol ≤ textStartCol i) :
    ∃ t', runOps t (unitBlock unit i) = some t' ∧ t'.cells = t.cells ++ unitCellsOf t.curRow unit i ∧
      t'.curRow = t.curRow ∧ t'.curCol = textStartCol (i + 1) ∧
      ∀ j, t'.isShrink j = if textStartCol i + 1 ≤ j ∧ j < textStartCol (i + 1) then true else t.isShrink j := by
  have hcol : t.col (textStartCol i) = some { t with curCol := textStartCol i } := by
    unfold Table.col
    have : ¬ textStartCol i < t.curCol := by omega
    simp [this]
  have hsucc := textStartCol_succ i
  by_cases hi : i > 0
  · have hgw : textGroupWidth i = 6 := by
      unfold textGroupWidth
      have : (i == 0) = false := by simp; omega
      simp [this]
    let t2 := (({ t with curCol := textStartCol i } : Table).span 3 unit [.center, .margin barMargin]).span 3 vsBase
      [.left, .margin [0x20, 0x20]]
    obtain ⟨t3, s1, s2, s3, s4, s5⟩ := run_setShrinks (textStartCol i + 1) 5 t2
    refine ⟨t3, ?_, ?_, ?_, ?_, ?_⟩
    · unfold unitBlock shrinkOps
      simp only [hi, if_true]
      rw [show textStartCol i + 6 - (textStartCol i + 1) = 5 by omega]
      rw [List.append_assoc, show [Op.col (textStartCol i), Op.span 3 unit [Opt.center, Opt.margin barMargin]] ++
          ([Op.span 3 vsBase [Opt.left, Opt.margin [0x20, 0x20]]] ++ List.map (fun k => Op.setShrink (textStartCol i + 1 + k) true) (List.range 5))
          = Op.col (textStartCol i) :: Op.span 3 unit [Opt.center, Opt.margin barMargin] ::
            Op.span 3 vsBase [Opt.left, Opt.margin [0x20, 0x20]] :: List.map (fun k => Op.setShrink (textStartCol i + 1 + k) true) (List.range 5) from rfl,
        runOps_cons, Table.step, hcol, Option.bind_some, runOps_cons, Table.step, Option.bind_some,
        runOps_cons, Table.step, Option.bind_some]
      exact s1
    · rw [s2]; simp [t2, Table.span, unitCellsOf, unitCell, vsCell, hi, Opt.apply]
    · rw [s3]; rfl
    · rw [s4, hsucc, hgw]; simp [t2, Table.span]
    · intro j
      rw [s5, hsucc, hgw]
      have : t2.isShrink j = t.isShrink j := rfl
      rw [this]
  · have hi0 : i = 0 := by omega
    subst hi0
    let t2 := ({ t with curCol := textStartCol 0 } : Table).span 3 unit [.center, .margin barMargin]
    obtain ⟨t3, s1, s2, s3, s4, s5⟩ := run_setShrinks (textStartCol 0 + 1) 2 t2
    refine ⟨t3, ?_, ?_, ?_, ?_, ?_⟩
    · unfold unitBlock shrinkOps
      simp only [Nat.lt_irrefl, if_false, List.append_nil]
      rw [show textStartCol 0 + 3 - (textStartCol 0 + 1) = 2 by omega]
      rw [show [Op.col (textStartCol 0), Op.span 3 unit [Opt.center, Opt.margin barMargin]] ++
            List.map (fun k => Op.setShrink (textStartCol 0 + 1 + k) true) (List.range 2)
          = Op.col (textStartCol 0) :: Op.span 3 unit [Opt.center, Opt.margin barMargin] ::
            List.map (fun k => Op.setShrink (textStartCol 0 + 1 + k) true) (List.range 2) from rfl,
        runOps_cons, Table.step, hcol, Option.bind_some, runOps_cons, Table.step, Option.bind_some]
      exact s1
    · rw [s2]; simp [t2, Table.span, unitCellsOf, unitCell, Opt.apply]
    · rw [s3]; rfl
    · rw [s4]; simp [t2, Table.span, textStartCol]
    · intro j
      rw [s5]
      have : t2.isShrink j = t.isShrink j := rfl
      rw [this]
      simp [textStartCol]

/-- the unit cells of logical columns 0..n-1 -/
def unitCells (r : Nat) (unit : Bytes) (n : Nat) : List Cell := (List.range n).flatMap (unitCellsOf r unit)

/-- is physical column `j` an interior/rightmost column of one of the groups 0..n-1? -/
def InGroupTail (n j : Nat) : Prop := ∃ i, i < n ∧ textStartCol i + 1 ≤ j ∧ j < textStartCol (i + 1)

theorem unit_blocks (unit : Bytes) : ∀ (n : Nat) (t : Table), t.curCol ≤ textStartCol 0 →
    ∃ t', runOps t ((List.range n).flatMap (unitBlock unit)) = some t' ∧
      t'.cells = t.cells ++ unitCells t.curRow unit n ∧ t'.curRow = t.curRow ∧
      t'.curCol ≤ textStartCol n ∧
      (∀ j, InGroupTail n j → t'.isShrink j = true) ∧
      (∀ j, ¬ InGroupTail n j → t'.isShrink j = t.isShrink j) := by
  intro n
  induction n with
  | zero =>
    intro t h
    exact ⟨t, rfl, by simp [unitCells], rfl, h, fun j ⟨i, hi, _⟩ => by omega, fun _ _ => rfl⟩
  | succ n ih =>
    intro t h
    obtain ⟨t1, a1, a2, a3, a4, a5, a6⟩ := ih t h
    obtain ⟨t2, b1, b2, b3, b4, b5⟩ := unit_block unit n t1 a4
    refine ⟨t2, ?_, ?_, ?_, ?_, ?_, ?_⟩
    · rw [List.range_succ, List.flatMap_append, runOps_append, a1]
      simpa using b1
    · rw [b2, a2, a3]
      simp [unitCells, List.range_succ, List.flatMap_append]
    · rw [b3, a3]
    · rw [b4]; exact Nat.le_refl _
    · intro j ⟨i, hi, h1, h2⟩
      rw [b5 j]
      split
      · rfl
      · apply a5
        have : i ≠ n := by intro hh; subst hh; rename_i hn; exact hn ⟨h1, h2⟩
        exact ⟨i, by omega, h1, h2⟩
    · intro j hj
      rw [b5 j]
      have hn : ¬ (textStartCol n + 1 ≤ j ∧ j < textStartCol (n + 1)) := fun hh => hj ⟨n, by omega, hh.1, hh.2⟩
      rw [if_neg hn]
      apply a6
      intro ⟨i, hi, h1, h2⟩
      exact hj ⟨i, by omega, h1, h2⟩

/-- **the unit row**: never panics; one centred cell with the unit over the three centre columns of
every group, "vs base" over the three delta columns of every non-baseline group, the right edge;
and shrink marks exactly on all columns of a group but its leftmost -/
theorem unit_row_run (rEdge ncols : Nat) (hre : textStartCol ncols ≤ rEdge) (unit : Bytes) (t : Table) :
    ∃ t', runOps t (unitRowOps rEdge ncols unit) = some t' ∧
      t'.cells = t.cells ++ unitCells t.row.curRow unit ncols ++ [edgeCell t.row.curRow rEdge] ∧
      t'.curRow = t.row.curRow ∧
      (∀ j, InGroupTail ncols j → t'.isShrink j = true) ∧
      (∀ j, ¬ InGroupTail ncols j → t'.isShrink j = t.isShrink j) := by
  obtain ⟨t1, h1, h2, h3, h4, h5, h6⟩ := unit_blocks unit ncols t.row (by simp [Table.row])
  have hcol : t1.col rEdge = some { t1 with curCol := rEdge } := by
    unfold Table.col
    have : ¬ rEdge < t1.curCol := by omega
    simp [this]
  refine ⟨({ t1 with curCol := rEdge } : Table).span 1 [] [.margin edgeMargin], ?_, ?_, ?_, ?_, ?_⟩
  · rw [unitRowOps_eq, runOps_cons, Table.step, Option.bind_some, runOps_append, h1, Option.bind_some,
      runOps_cons, Table.step, hcol, Option.bind_some, runOps_cons, Table.step, Option.bind_some, runOps_nil]
  · simp only [Table.span]
    rw [h2, h3]
    simp [edgeCell, Opt.apply, Table.row]
  · simp only [Table.span]; exact h3
  · intro j hj; exact h5 j hj
  · intro j hj
    have := h6 j hj
    exact this

/-! ### measurement rows and the summary row -/

def rowsPlaced : Nat → List Bytes → List (Bytes × List (Option DataCell)) → List Cell
  | _, _, [] => []
  | r, wl, row :: rest =>
    (mkCell r 0 row.1 [] :: placedRow r wl 0 row.2) ++ rowsPlaced (r + 1) (dataRowOps wl row).1 rest

theorem row_curRow_succ (t : Table) (h : t.cells ≠ []) : t.row.curRow = t.curRow + 1 := by
  have : t.cells.isEmpty = false := by
    cases hc : t.cells with
    | nil => exact absurd hc h
    | cons _ _ => rfl
  simp [Table.row, this]

theorem data_row_run (wl : List Bytes) (row : Bytes × List (Option DataCell)) (t : Table) :
    ∃ t', runOps t (dataRowOps wl row).2 = some t' ∧
      t'.cells = t.cells ++ (mkCell t.row.curRow 0 row.1 [] :: placedRow t.row.curRow wl 0 row.2) ∧
      t'.curRow = t.row.curRow := by
  let t2 := (t.row).span 1 row.1 []
  have hcur : t2.curCol ≤ textStartCol 0 := by simp [t2, Table.span, Table.row, textStartCol]
  obtain ⟨t', h1, h2, h3⟩ := dataCols_cells row.2 wl 0 t2 hcur
  refine ⟨t', ?_, ?_, ?_⟩
  · simp only [dataRowOps]
    rw [show [Op.row, Op.span 1 row.1 []] ++ (dataColsOps wl 0 row.2).2
          = Op.row :: Op.span 1 row.1 [] :: (dataColsOps wl 0 row.2).2 from rfl,
      runOps_cons, Table.step, Option.bind_some, runOps_cons, Table.step, Option.bind_some]
    exact h1
  · rw [h2]; simp [t2, Table.span, Table.row, mkCell]
  · rw [h3]; rfl

theorem data_rows_run : ∀ (rows : List (Bytes × List (Option DataCell))) (wl : List Bytes) (t : Table),
    t.cells ≠ [] →
    ∃ t', runOps t (dataRowsOps wl rows).2 = some t' ∧
      t'.cells = t.cells ++ rowsPlaced (t.curRow + 1) wl rows ∧
      t'.curRow = t.curRow + rows.length ∧ t'.cells ≠ [] := by
  intro rows
  induction rows with
  | nil => intro wl t h; exact ⟨t, rfl, by simp [rowsPlaced], rfl, h⟩
  | cons row rest ih =>
    intro wl t h
    obtain ⟨t1, a1, a2, a3⟩ := data_row_run wl row t
    have hr := row_curRow_succ t h
    have hne1 : t1.cells ≠ [] := by rw [a2]; simp
    obtain ⟨t2, b1, b2, b3, b4⟩ := ih (dataRowOps wl row).1 t1 hne1
    refine ⟨t2, ?_, ?_, ?_, b4⟩
    · simp only [dataRowsOps]; rw [runOps_append, a1]; exact b1
    · rw [b2, a2, a3, hr]; simp [rowsPlaced]
    · rw [b3, a3, hr]; simp only [List.length_cons]; omega

theorem sum_row_run (wl : List Bytes) (label : Bytes) (sums : List (Option SumCell)) (t : Table) :
    ∃ t', runOps t ([Op.row, Op.span 1 label []] ++ (sumColsOps wl 0 sums).2) = some t' ∧
      t'.cells = t.cells ++ (mkCell t.row.curRow 0 label [] :: sumPlacedRow t.row.curRow wl 0 sums) := by
  let t2 := (t.row).span 1 label []
  have hcur : t2.curCol ≤ textStartCol 0 := by simp [t2, Table.span, Table.row, textStartCol]
  obtain ⟨t', h1, h2, _⟩ := sumCols_cells sums wl 0 t2 hcur
  refine ⟨t', ?_, ?_⟩
  · rw [show [Op.row, Op.span 1 label []] ++ (sumColsOps wl 0 sums).2
          = Op.row :: Op.span 1 label [] :: (sumColsOps wl 0 sums).2 from rfl,
      runOps_cons, Table.step, Option.bind_some, runOps_cons, Table.step, Option.bind_some]
    exact h1
  · rw [h2]; simp [t2, Table.span, Table.row, mkCell]

/-! ### the whole call sequence -/

theorem dataRowsOps_fst_snd (wl : List Bytes) (rows : List (Bytes × List (Option DataCell))) :
    dataRowsOps wl rows = ((dataRowsOps wl rows).1, (dataRowsOps wl rows).2) := rfl

theorem toTextOps_fst (v : View) :
    (toTextOps v).1 =
      headerOps (textStartCol (v.ncols + 1)) (v.nfields + 1) (newKeyHeader v.colKeys v.nfields) ++
      unitRowOps (textStartCol (v.ncols + 1)) v.ncols v.unit ++
      (dataRowsOps [] v.rows).2 ++
      (if v.rows.length > 1 then
        [Op.row, Op.span 1 v.summaryLabel []] ++ (sumColsOps (dataRowsOps [] v.rows).1 0 v.summary).2
       else []) := by
  unfold toTextOps
  simp only
  split <;> simp

/-- all texttab cells of ToText, in the order they are added; `R` = number of header rows -/
def textCells (v : View) : List Cell :=
  let rEdge := textStartCol (v.ncols + 1)
  let top := newKeyHeader v.colKeys v.nfields
  let R := levelCount (v.nfields + 1) top
  hdrCells rEdge (v.nfields + 1) 0 top ++
  (unitCells R v.unit v.ncols ++ [edgeCell R rEdge]) ++
  rowsPlaced (R + 1) [] v.rows ++
  (if v.rows.length > 1 then
    mkCell (R + 1 + v.rows.length) 0 v.summaryLabel [] ::
      sumPlacedRow (R + 1 + v.rows.length) (dataRowsOps [] v.rows).1 0 v.summary
   else [])

end C16
