/-
C19 helper lemmas: the `Lex`-parameterised copy of the storage model (used by the correspondence
driver with Go's Unicode tables) coincides at `Lex.ascii` with the model the theorems talk about.
-/
import Model.Storage.Lex

namespace C19
open Storage.Query Storage.Fmt Storage.Lex

theorem ascii_kv : Lex.ascii.kv = parseKeyValueLine := rfl
theorem ascii_bench : Lex.ascii.bench = parseBenchmarkLine := rfl
theorem ascii_word : Lex.ascii.word = parseWord := rfl

theorem nextGoL_ascii (hp : Bool) (r : Reader) (lines : List Bytes) :
    nextGoL Lex.ascii hp r lines = Reader.nextGo hp r lines := by
  induction lines generalizing r with
  | nil => rfl
  | cons line rest ih =>
    rw [nextGoL, Reader.nextGo]
    simp only [ascii_kv, ascii_bench, ih]
    rfl

theorem allGoL_ascii (fuel : Nat) (r : Reader) (lines : List Bytes) :
    allGoL Lex.ascii fuel r lines = Reader.allGo fuel r lines := by
  induction fuel generalizing r lines with
  | zero => rfl
  | succ n ih =>
    rw [allGoL, Reader.allGo]
    simp only [nextL, Reader.next, nextGoL_ascii, ih]
    rfl

theorem allL_ascii (r : Reader) (data : Bytes) : allL Lex.ascii r data = Reader.all r data := by
  simp only [allL, Reader.all, allGoL_ascii]

theorem readAllL_ascii (data : Bytes) : readAllL Lex.ascii data = readAll data := allL_ascii {} data

theorem indexFileL_ascii (u : Upload) (i : Nat) (user : Bytes) (f : FileIn) :
    indexFileL Lex.ascii u i user f = indexFile u i user f := by
  simp only [indexFileL, indexFile, allL_ascii]

theorem indexFilesL_ascii (u : Upload) (user : Bytes) (i : Nat) (fs : List FileIn) :
    indexFilesL Lex.ascii u user i fs = indexFiles u user i fs := by
  induction fs generalizing u i with
  | nil => rfl
  | cons f fs ih =>
    rw [indexFilesL, indexFiles, indexFileL_ascii]
    cases indexFile u i user f <;> simp [ih]

theorem processUploadL_ascii (db : DB) (day user : Bytes) (files : List FileIn) :
    processUploadL Lex.ascii db day user files = processUpload db day user files := by
  simp only [processUploadL, processUpload, indexFilesL_ascii]
  rfl

theorem collectL_ascii (tbl : List Part) (ws : List Bytes) :
    collectL Lex.ascii tbl ws = collect tbl ws := by
  induction ws generalizing tbl with
  | nil => rfl
  | cons w ws ih =>
    rw [collectL, collect]
    simp only [ascii_word, ih]

theorem parseQueryL_ascii (q : Bytes) : parseQueryL Lex.ascii q = parseQuery q := by
  simp only [parseQueryL, parseQuery, mergedParts, collectL_ascii]
  cases collect [] (splitWords q) <;> rfl

theorem queryRecordsL_ascii (db : DB) (q : Bytes) : queryRecordsL Lex.ascii db q = queryRecords db q := by
  simp only [queryRecordsL, queryRecords, parseQueryL_ascii]

theorem listUploadsL_ascii (db : DB) (q : Bytes) (limit : Int) :
    listUploadsL Lex.ascii db q limit = listUploads db q limit := by
  simp only [listUploadsL, listUploads, parseQueryL_ascii]
  rfl

theorem dbQueryL_ascii (db : DB) (q : Bytes) : dbQueryL Lex.ascii db q = dbQuery db q := by
  simp only [dbQueryL, dbQuery, queryRecordsL_ascii]
  cases queryRecords db q with
  | error e => rfl
  | ok recs =>
    simp only [bind, Except.bind, pure, Except.pure]
    have : (fun r : RecordRow => readAllL Lex.ascii r.content) = fun r => readAll r.content :=
      funext fun r => readAllL_ascii r.content
    rw [this]

theorem clientQueryL_ascii (db : DB) (q : Bytes) : clientQueryL Lex.ascii db q = clientQuery db q := by
  simp only [clientQueryL, clientQuery, dbQueryL_ascii]
  cases dbQuery db q with
  | error e => rfl
  | ok rs => simp only [bind, Except.bind, pure, Except.pure, readAllL_ascii]

end C19
