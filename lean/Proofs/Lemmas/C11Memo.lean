/-
C11: the memo-table evaluator `makeUmemo` (downward key generation with pruning, upward fill
through `Std.HashMap`) computes the pure counting recurrence `A`, unconditionally; and the
wrappers `cdf`/`pmf` over the table evaluators agree with `cdfPure`/`pmfPure` given the untied
table agreement (proved elsewhere).

Core Lean + Std.Data.HashMap only.
-/
import Std.Data.HashMap
import Std.Data.HashMap.Lemmas
import Model.Stats.UDist

open Std

namespace C11.Memo

open Stats.UDist

abbrev Key := Int × Int

/-! ### generic HashMap fold facts -/

/-- filling a table from a key list: lookup afterwards -/
theorem get?_fill (f : Key → Nat) (ks : List Key) (init : Memo) (x : Key) :
    (ks.foldl (fun (m : Memo) key => m.insert key (f key)) init).get? x
      = if x ∈ ks then some (f x) else init.get? x := by
  induction ks generalizing init with
  | nil => simp
  | cons a ks ih =>
    rw [List.foldl_cons, ih, HashMap.get?_insert]
    by_cases hx : x ∈ ks
    · simp [hx]
    · by_cases hax : a = x
      · subst hax; simp
      · have hxa : ¬ x = a := fun h => hax h.symm
        simp [hx, hax, hxa]

/-- filling the empty table -/
theorem get?_fill_empty (f : Key → Nat) (ks : List Key) (x : Key) :
    (ks.foldl (fun (m : Memo) key => m.insert key (f key)) ({} : Memo)).get? x
      = if x ∈ ks then some (f x) else none := by
  rw [get?_fill]
  have : ({} : Memo).get? x = none := HashMap.getElem?_empty
  rw [this]

/-- membership after a fold whose step adds exactly the elements described by `Q` -/
theorem mem_foldl_of_step {α : Type} (step : Memo → α → Memo) (Q : α → Key → Prop)
    (hstep : ∀ m a x, x ∈ step m a ↔ x ∈ m ∨ Q a x)
    (l : List α) (m0 : Memo) (x : Key) :
    x ∈ l.foldl step m0 ↔ x ∈ m0 ∨ ∃ a, a ∈ l ∧ Q a x := by
  induction l generalizing m0 with
  | nil => simp
  | cons a l ih =>
    rw [List.foldl_cons, ih, hstep]
    constructor
    · rintro ((h | h) | ⟨b, hb, hq⟩)
      · exact Or.inl h
      · exact Or.inr ⟨a, List.mem_cons_self, h⟩
      · exact Or.inr ⟨b, List.mem_cons_of_mem _ hb, hq⟩
    · rintro (h | ⟨b, hb, hq⟩)
      · exact Or.inl (Or.inl h)
      · rcases List.mem_cons.mp hb with rfl | hb
        · exact Or.inl (Or.inr hq)
        · exact Or.inr ⟨b, hb, hq⟩

/-- one conditional insert -/
theorem mem_condInsert (p : Key → Bool) (g : Nat → Key) (m : Memo) (i : Nat) (x : Key) :
    x ∈ (if p (g i) then m.insert (g i) 0 else m) ↔ x ∈ m ∨ (g i = x ∧ p (g i) = true) := by
  by_cases hp : p (g i) = true
  · rw [if_pos hp, HashMap.mem_insert]
    constructor
    · rintro (h | h)
      · exact Or.inr ⟨by simpa using h, hp⟩
      · exact Or.inl h
    · rintro (h | ⟨h, _⟩)
      · exact Or.inr h
      · exact Or.inl (by simpa using h)
  · rw [if_neg hp]
    constructor
    · exact Or.inl
    · rintro (h | ⟨_, h⟩)
      · exact h
      · exact absurd h hp

/-! ### the downward pass -/

/-- `x` is an in-range sub-key (one level down, at level `k`) of some key of `above` -/
def IsSub (T : List Nat) (k : Nat) (above : List Key) (x : Key) : Prop :=
  ∃ key, key ∈ above ∧ ∃ i : Nat,
    i < (rkHigh T (k + 1) key.1 - rkLow T (k + 1) key.1 + 1).toNat ∧
    subKey T (k + 1) key.1 key.2 (rkLow T (k + 1) key.1 + (i : Nat)) = x ∧
    inRange T k (subKey T (k + 1) key.1 key.2 (rkLow T (k + 1) key.1 + (i : Nat))) = true

theorem mem_keysBelow (T : List Nat) (k : Nat) (above : List Key) (x : Key) :
    x ∈ keysBelow T k above ↔ IsSub T k above x := by
  unfold keysBelow
  rw [mem_foldl_of_step
    (Q := fun key x => ∃ i : Nat,
      i < (rkHigh T (k + 1) key.1 - rkLow T (k + 1) key.1 + 1).toNat ∧
      subKey T (k + 1) key.1 key.2 (rkLow T (k + 1) key.1 + (i : Nat)) = x ∧
      inRange T k (subKey T (k + 1) key.1 key.2 (rkLow T (k + 1) key.1 + (i : Nat))) = true)]
  · constructor
    · rintro (h | h)
      · exact absurd h HashMap.not_mem_empty
      · exact h
    · exact Or.inr
  · intro m key y
    show y ∈ (List.range (rkHigh T (k + 1) key.1 - rkLow T (k + 1) key.1 + 1).toNat).foldl
        (fun (m : Memo) i =>
          if inRange T k (subKey T (k + 1) key.1 key.2 (rkLow T (k + 1) key.1 + (i : Nat)))
          then m.insert (subKey T (k + 1) key.1 key.2 (rkLow T (k + 1) key.1 + (i : Nat))) 0
          else m) m ↔ _
    rw [mem_foldl_of_step
      (Q := fun (i : Nat) y =>
        subKey T (k + 1) key.1 key.2 (rkLow T (k + 1) key.1 + (i : Nat)) = y ∧
        inRange T k (subKey T (k + 1) key.1 key.2 (rkLow T (k + 1) key.1 + (i : Nat))) = true)]
    · constructor
      · rintro (h | ⟨i, hi, h⟩)
        · exact Or.inl h
        · exact Or.inr ⟨i, List.mem_range.mp hi, h⟩
      · rintro (h | ⟨i, hi, h⟩)
        · exact Or.inl h
        · exact Or.inr ⟨i, List.mem_range.mpr hi, h⟩
    · intro m' i z
      exact mem_condInsert (inRange T k)
        (fun i => subKey T (k + 1) key.1 key.2 (rkLow T (k + 1) key.1 + (i : Nat))) m' i z

theorem mem_keysBelow_keys (T : List Nat) (k : Nat) (above : List Key) (x : Key) :
    x ∈ (keysBelow T k above).keys ↔ IsSub T k above x := by
  rw [HashMap.mem_keys, mem_keysBelow]

/-- relation between the key list `ks` of level `k` and the key list `ks'` of level `k+1`:
    every key of `ks` is in range, and every in-range sub-key of a key of `ks'` is in `ks`. -/
def Link (T : List Nat) (k : Nat) (ks ks' : List Key) : Prop :=
  (∀ x, x ∈ ks → inRange T k x = true) ∧
  (∀ key, key ∈ ks' → ∀ i : Nat,
    i < (rkHigh T (k + 1) key.1 - rkLow T (k + 1) key.1 + 1).toNat →
    inRange T k (subKey T (k + 1) key.1 key.2 (rkLow T (k + 1) key.1 + (i : Nat))) = true →
    subKey T (k + 1) key.1 key.2 (rkLow T (k + 1) key.1 + (i : Nat)) ∈ ks)

theorem link_keysBelow (T : List Nat) (k : Nat) (above : List Key) :
    Link T k (keysBelow T k above).keys above := by
  constructor
  · intro x hx
    obtain ⟨key, _, i, _, hxe, hin⟩ := (mem_keysBelow_keys T k above x).mp hx
    rw [← hxe]; exact hin
  · intro key hkey i hi hin
    exact (mem_keysBelow_keys T k above _).mpr ⟨key, hkey, i, hi, rfl, hin⟩

/-- consecutive levels, each linked to the next -/
def Chain (T : List Nat) : List (Nat × List Key) → Prop
  | [] => True
  | [_] => True
  | (k, ks) :: (k', ks') :: rest => k' = k + 1 ∧ Link T k ks ks' ∧ Chain T ((k', ks') :: rest)

theorem chain_keyLevelsAux (T : List Nat) (fuel : Nat) :
    ∀ (k : Nat) (above : List Key) (rest : List (Nat × List Key)),
      Chain T ((k + 1, above) :: rest) →
      Chain T (keyLevelsAux T fuel k above ((k + 1, above) :: rest)) := by
  induction fuel with
  | zero => intro k above rest h; exact h
  | succ fuel ih =>
    intro k above rest h
    rw [keyLevelsAux]
    by_cases hk : k < 2
    · rw [if_pos hk]; exact h
    · rw [if_neg hk]
      obtain ⟨j, rfl⟩ : ∃ j, k = j + 1 := ⟨k - 1, by omega⟩
      show Chain T (keyLevelsAux T fuel j (keysBelow T (j + 1) above).keys
        ((j + 1, (keysBelow T (j + 1) above).keys) :: (j + 1 + 1, above) :: rest))
      apply ih
      exact ⟨rfl, link_keysBelow T (j + 1) above, h⟩

theorem getLast?_keyLevelsAux (T : List Nat) (fuel : Nat) :
    ∀ (k : Nat) (above : List Key) (a : Nat × List Key) (rest : List (Nat × List Key)),
      (keyLevelsAux T fuel k above (a :: rest)).getLast? = (a :: rest).getLast? := by
  induction fuel with
  | zero => intro k above a rest; rfl
  | succ fuel ih =>
    intro k above a rest
    rw [keyLevelsAux]
    by_cases hk : k < 2
    · rw [if_pos hk]
    · rw [if_neg hk]
      show (keyLevelsAux T fuel (k - 1) (keysBelow T k above).keys
        ((k, (keysBelow T k above).keys) :: a :: rest)).getLast? = _
      rw [ih, List.getLast?_cons_cons]

/-- with enough fuel the lowest generated level is level 2 -/
theorem head_le_keyLevelsAux (T : List Nat) (fuel : Nat) :
    ∀ (k : Nat) (above : List Key) (rest : List (Nat × List Key)),
      k ≤ fuel + 1 → 1 ≤ k →
      ∃ ks0 rest', keyLevelsAux T fuel k above ((k + 1, above) :: rest) = (2, ks0) :: rest' := by
  induction fuel with
  | zero =>
    intro k above rest h1 h2
    have : k = 1 := by omega
    subst this
    exact ⟨above, rest, rfl⟩
  | succ fuel ih =>
    intro k above rest h1 h2
    rw [keyLevelsAux]
    by_cases hk : k < 2
    · rw [if_pos hk]
      have : k = 1 := by omega
      subst this
      exact ⟨above, rest, rfl⟩
    · rw [if_neg hk]
      obtain ⟨j, rfl⟩ : ∃ j, k = j + 1 := ⟨k - 1, by omega⟩
      show ∃ ks0 rest', keyLevelsAux T fuel j (keysBelow T (j + 1) above).keys
        ((j + 1, (keysBelow T (j + 1) above).keys) :: (j + 1 + 1, above) :: rest)
          = (2, ks0) :: rest'
      exact ih j _ _ (by omega) (by omega)

/-! ### congruence of `stepA` in the lookup function -/

theorem foldl_add_congr (F G : Nat → Nat) (l : List Nat) (acc : Nat)
    (h : ∀ i, i ∈ l → F i = G i) :
    l.foldl (fun acc i => acc + F i) acc = l.foldl (fun acc i => acc + G i) acc := by
  induction l generalizing acc with
  | nil => rfl
  | cons a l ih =>
    rw [List.foldl_cons, List.foldl_cons, h a List.mem_cons_self]
    exact ih _ (fun i hi => h i (List.mem_cons_of_mem _ hi))

theorem sumRange_congr (lo hi : Int) (f g : Int → Nat)
    (h : ∀ i : Nat, i < (hi - lo + 1).toNat → f (lo + (i : Nat)) = g (lo + (i : Nat))) :
    sumRange lo hi f = sumRange lo hi g := by
  unfold sumRange
  exact foldl_add_congr (fun i => f (lo + (i : Nat))) (fun i => g (lo + (i : Nat))) _ _
    (fun i hi => h i (List.mem_range.mp hi))

theorem stepA_congr (T : List Nat) (k : Nat) (look look' : Key → Option Nat) (n1 twoU : Int)
    (h : ∀ i : Nat, i < (rkHigh T k n1 - rkLow T k n1 + 1).toNat →
      look (subKey T k n1 twoU (rkLow T k n1 + (i : Nat)))
        = look' (subKey T k n1 twoU (rkLow T k n1 + (i : Nat)))) :
    stepA T k look n1 twoU = stepA T k look' n1 twoU := by
  unfold stepA
  apply sumRange_congr
  intro i hi
  simp only [h i hi]

/-! ### the upward pass -/

/-- table `m` holds exactly the keys `ks`, each with its `A T k` value -/
def InvTab (T : List Nat) (k : Nat) (m : Memo) (ks : List Key) : Prop :=
  ∀ x : Key, m.get? x = if x ∈ ks then some (A T k x.1 x.2) else none

/-- one step of the upward fold in `makeUmemo` -/
def upStep (T : List Nat) (prev : Memo) (lv : Nat × List Key) : Memo :=
  if lv.1 ≤ 2 then
    lv.2.foldl (fun (m : Memo) key => m.insert key (base2 T key.1 key.2)) {}
  else
    lv.2.foldl (fun (m : Memo) key =>
      m.insert key (stepA T lv.1 (fun sk => prev.get? sk) key.1 key.2)) {}

theorem A_le_two (T : List Nat) (k : Nat) (hk : k ≤ 2) (n1 twoU : Int) :
    A T k n1 twoU = base2 T n1 twoU := by
  match k, hk with
  | 0, _ => rfl
  | 1, _ => rfl
  | 2, _ => rfl

theorem invTab_upStep (T : List Nat) (prev : Memo) (k : Nat) (ks : List Key)
    (h : k ≤ 2 ∨ ∃ j ksp, k = j + 1 ∧ InvTab T j prev ksp ∧ Link T j ksp ks) :
    InvTab T k (upStep T prev (k, ks)) ks := by
  intro x
  unfold upStep
  by_cases hk : k ≤ 2
  · rw [if_pos hk, get?_fill_empty]
    by_cases hx : x ∈ ks
    · rw [if_pos hx, if_pos hx, A_le_two T k hk]
    · rw [if_neg hx, if_neg hx]
  · rw [if_neg hk, get?_fill_empty]
    by_cases hx : x ∈ ks
    · rw [if_pos hx, if_pos hx]
      rcases h with h | ⟨j, ksp, hj, hinv, hlink⟩
      · exact absurd h hk
      · subst hj
        obtain ⟨j', rfl⟩ : ∃ j', j = j' + 2 := ⟨j - 2, by omega⟩
        congr 1
        rw [A]
        apply stepA_congr
        intro i hi
        show prev.get? _ = _
        rw [hinv]
        show (if _ ∈ ksp then some (A T (j' + 2) _ _) else none)
          = if inRange T (j' + 2) _ = true then some (A T (j' + 2) _ _) else none
        by_cases hin : inRange T (j' + 2)
            (subKey T (j' + 2 + 1) x.1 x.2 (rkLow T (j' + 2 + 1) x.1 + (i : Nat))) = true
        · rw [if_pos hin, if_pos (hlink.2 x hx i hi hin)]
        · rw [if_neg hin, if_neg (fun hmem => hin (hlink.1 _ hmem))]
    · rw [if_neg hx, if_neg hx]

theorem invTab_foldl (T : List Nat) :
    ∀ (levels : List (Nat × List Key)) (prev : Memo) (k : Nat) (ks : List Key),
      Chain T ((k, ks) :: levels) →
      (k ≤ 2 ∨ ∃ j ksp, k = j + 1 ∧ InvTab T j prev ksp ∧ Link T j ksp ks) →
      ∀ K ksK, ((k, ks) :: levels).getLast? = some (K, ksK) →
      InvTab T K (((k, ks) :: levels).foldl (upStep T) prev) ksK := by
  intro levels
  induction levels with
  | nil =>
    intro prev k ks _ h K ksK hlast
    simp only [List.getLast?_singleton, Option.some.injEq, Prod.mk.injEq] at hlast
    obtain ⟨rfl, rfl⟩ := hlast
    exact invTab_upStep T prev k ks h
  | cons lv levels ih =>
    intro prev k ks hchain h K ksK hlast
    obtain ⟨k', ks'⟩ := lv
    obtain ⟨hk', hlink, hchain'⟩ := hchain
    rw [List.getLast?_cons_cons] at hlast
    rw [List.foldl_cons]
    apply ih (upStep T prev (k, ks)) k' ks' hchain' _ K ksK hlast
    exact Or.inr ⟨k, ks, hk', invTab_upStep T prev k ks h, hlink⟩

theorem makeUmemo_unfold (T : List Nat) (n1 twoU : Int) (hK : ¬ T.length ≤ 2) :
    makeUmemo T n1 twoU
      = (((keyLevels T T.length n1 twoU).foldl (upStep T) {}).get? (n1, twoU)).getD 0 := by
  unfold makeUmemo
  simp only [if_neg hK]
  rfl

end C11.Memo

namespace C11

open Stats.UDist C11.Memo

/-- the memo-table evaluator computes the pure recurrence -/
theorem makeUmemo_eq_A (T : List Nat) (n1 twoU : Int) :
    Stats.UDist.makeUmemo T n1 twoU = Stats.UDist.A T T.length n1 twoU := by
  by_cases hK : T.length ≤ 2
  · rw [A_le_two T T.length hK]
    unfold makeUmemo
    simp only [if_pos hK]
  · rw [makeUmemo_unfold T n1 twoU hK]
    obtain ⟨j, hj⟩ : ∃ j, T.length = j + 1 + 1 := ⟨T.length - 2, by omega⟩
    have hjpos : 1 ≤ j := by omega
    unfold keyLevels
    rw [hj]
    show (((keyLevelsAux T (j + 1 + 1) (j + 1) [(n1, twoU)]
      [(j + 1 + 1, [(n1, twoU)])]).foldl (upStep T) {}).get? (n1, twoU)).getD 0 = _
    have hchain := chain_keyLevelsAux T (j + 1 + 1) (j + 1) [(n1, twoU)] [] trivial
    have hlast := getLast?_keyLevelsAux T (j + 1 + 1) (j + 1) [(n1, twoU)]
      (j + 1 + 1, [(n1, twoU)]) []
    obtain ⟨ks0, rest', hhead⟩ := head_le_keyLevelsAux T (j + 1 + 1) (j + 1) [(n1, twoU)] []
      (by omega) (by omega)
    rw [hhead] at hchain hlast ⊢
    have hinv := invTab_foldl T rest' {} 2 ks0 hchain (Or.inl (Nat.le_refl 2))
      (j + 1 + 1) [(n1, twoU)] (by rw [hlast]; rfl)
    rw [hinv (n1, twoU)]
    simp

/-- `cdf` (memo table + count table) agrees with `cdfPure` (pure recurrences), given the
    agreement of the untied tables -/
theorem cdf_eq_cdfPure_of
    (hU : ∀ n1 n2 u, (Stats.UDist.pUntied n1 n2).getD u 0
      = (Stats.UDist.pUntiedRec n1 n2).getD u 0)
    (n1 n2 : Nat) (T : List Nat) (twoU : Int) :
    Stats.UDist.cdf n1 n2 T twoU = Stats.UDist.cdfPure n1 n2 T twoU := by
  unfold Stats.UDist.cdf Stats.UDist.cdfPure Stats.UDist.cdfWith
  simp only [makeUmemo_eq_A, hU]

/-- `pmf` agrees with `pmfPure`, given the agreement of the untied tables -/
theorem pmf_eq_pmfPure_of
    (hU : ∀ n1 n2 u, (Stats.UDist.pUntied n1 n2).getD u 0
      = (Stats.UDist.pUntiedRec n1 n2).getD u 0)
    (n1 n2 : Nat) (T : List Nat) (twoU : Int) :
    Stats.UDist.pmf n1 n2 T twoU = Stats.UDist.pmfPure n1 n2 T twoU := by
  unfold Stats.UDist.pmf Stats.UDist.pmfPure Stats.UDist.pmfWith
  simp only [makeUmemo_eq_A, hU]

end C11

