/-
Helper lemmas for C08 `get_is_extracted`, part 2: what each closure writes and that nobody else
overwrites it (frame lemmas), assembled into the content of the row after `populateRow`.
-/
import Proofs.Lemmas.C08Own

namespace C08
open Proc.Sort Proc.Projection Proc.Extract

theorem getVal_set_ne (row : List Bytes) (i j : Nat) (v : Bytes) (h : j ≠ i) :
    getVal (row.set j v) i = getVal row i := by
  simp [getVal, List.getD_eq_getElem?_getD, List.getElem?_set, h]

theorem getVal_set_eq (row : List Bytes) (i : Nat) (v : Bytes) (h : i < row.length) :
    getVal (row.set i v) i = v := by
  simp [getVal, List.getD_eq_getElem?_getD, List.getElem?_set, h]

theorem getVal_append_nil (row : List Bytes) (i : Nat) : getVal (row ++ [[]]) i = getVal row i := by
  unfold getVal
  simp only [List.getD_eq_getElem?_getD]
  rcases Nat.lt_or_ge i row.length with h | h
  · rw [List.getElem?_append_left h]
  · rw [List.getElem?_append_right h, List.getElem?_eq_none h]
    cases hp : i - row.length <;> simp

theorem getVal_cleared (row : List Bytes) (i : Nat) : getVal (row.map fun _ => []) i = [] := by
  unfold getVal
  simp only [List.getD_eq_getElem?_getD, List.getElem?_map]
  cases row[i]? <;> rfl

/-- Value of the last File entry with key `k` (default `d`). -/
def fileValOf (k : Bytes) (cfgs : List (Bytes × Bytes × Bool)) (d : Bytes) : Bytes :=
  match cfgs.reverse.find? (fun c => c.2.2 && c.1 == k) with
  | some c => c.2.1
  | none => d

theorem fileValOf_snoc (k : Bytes) (init : List (Bytes × Bytes × Bool)) (c : Bytes × Bytes × Bool) (d : Bytes) :
    fileValOf k (init ++ [c]) d = if (c.2.2 && c.1 == k) = true then c.2.1 else fileValOf k init d := by
  unfold fileValOf
  rw [List.reverse_append]
  simp only [List.reverse_cons, List.reverse_nil, List.nil_append, List.singleton_append, List.find?_cons]
  cases h : (c.2.2 && c.1 == k) <;> simp

/-! ### One `.config` closure -/

/-- One step of a `.config` closure: the value at every sub-field of its group, and where new
sub-fields come from. -/
theorem configStep_value (env : Env) (pos : Nat) (o : Order) (q : Proj) (c : Bytes × Bytes × Bool)
    (hf : FInv q) (ho : OInv q) (hg : isGroupAt q.top pos) :
    ∀ f ∈ groupSubs (configStep env pos o q c).top pos,
      (getVal (configStep env pos o q c).row f.idx =
        if (c.2.2 && c.1 == f.name) = true then c.2.1 else getVal q.row f.idx) ∧
      (f ∈ groupSubs q.top pos ∨ (c.2.2 && c.1 == f.name) = true) := by
  intro f hfm
  unfold configStep at hfm ⊢
  by_cases hfile : c.2.2 = true
  · simp only [hfile, Bool.not_true, Bool.false_eq_true, if_false, Bool.true_and] at hfm ⊢
    cases hfind : (groupSubs q.top pos).find? (·.name == c.1) with
    | some g =>
      simp only [hfind] at hfm ⊢
      have hgm : g ∈ groupSubs q.top pos := List.mem_of_find?_eq_some hfind
      have hgn : g.name = c.1 := by simpa using List.find?_some hfind
      refine ⟨?_, Or.inl hfm⟩
      by_cases hn : c.1 = f.name
      · have : f = g := ho.subsNames pos f g hfm hgm (by rw [hgn, hn])
        subst this
        have hb : (c.1 == f.name) = true := by simpa using hn
        rw [hb, if_pos rfl]
        exact getVal_set_eq _ _ _ (by rw [hf.rowLen]; exact subs_bound q hf pos f hfm)
      · have hb : (c.1 == f.name) = false := by simpa using hn
        rw [hb]
        simp only [Bool.false_eq_true, if_false]
        apply getVal_set_ne
        intro he
        have := (ho.subsInj pos pos g f hgm hfm he).2
        exact hn (by rw [← this, hgn])
    | none =>
      simp only [hfind] at hfm ⊢
      have hnone : ∀ g ∈ groupSubs q.top pos, ¬ c.1 = g.name := by
        intro g hgm he
        have := List.find?_eq_none.mp hfind g hgm
        simp [he] at this
      by_cases hex : env.configKeys.contains c.1 = true
      · simp only [hex, if_true] at hfm ⊢
        have hb : (c.1 == f.name) = false := by simpa using hnone f hfm
        rw [hb]
        exact ⟨by simp, Or.inl hfm⟩
      · simp only [hex, Bool.false_eq_true, if_false] at hfm ⊢
        simp only [Proj.addSubField] at hfm ⊢
        rcases (mem_groupSubs_addSubAt q.top pos _ hg pos f).mp hfm with hold | ⟨_, hnew⟩
        · have hb : (c.1 == f.name) = false := by simpa using hnone f hold
          rw [hb]
          refine ⟨?_, Or.inl hold⟩
          simp only [Bool.false_eq_true, if_false]
          have hlt := subs_bound q hf pos f hold
          rw [getVal_set_ne _ _ _ _ (by omega), getVal_append_nil]
        · have hname : f.name = c.1 := by rw [hnew, mkSubField_name]
          have hidx : f.idx = q.nFields := by rw [hnew, mkSubField_idx]
          have hb : (c.1 == f.name) = true := by simp [hname]
          rw [hb]
          refine ⟨?_, Or.inr rfl⟩
          rw [if_pos rfl, hidx]
          exact getVal_set_eq _ _ _ (by simp [hf.rowLen])
  · have hfile' : c.2.2 = false := by simpa using hfile
    simp only [hfile', Bool.not_false, if_true, Bool.false_and] at hfm ⊢
    exact ⟨by simp, Or.inl hfm⟩

theorem snoc_induction {α : Type} {P : List α → Prop} (hnil : P [])
    (hsnoc : ∀ l a, P l → P (l ++ [a])) : ∀ l, P l := by
  intro l
  have : ∀ r : List α, P r.reverse := by
    intro r
    induction r with
    | nil => exact hnil
    | cons a r ih => rw [List.reverse_cons]; exact hsnoc _ _ ih
  have h := this l.reverse
  rwa [List.reverse_reverse] at h

/-- A whole `.config` closure: every sub-field of its group ends with the value of the last File
entry carrying its key (or keeps what it had when there is none). -/
theorem configFold_value (env : Env) (pos : Nat) (o : Order) (cfgs : List (Bytes × Bytes × Bool)) :
    ∀ (q : Proj), FInv q → OInv q → isGroupAt q.top pos → Part.config pos o ∈ q.parts →
    ∀ f ∈ groupSubs (cfgs.foldl (configStep env pos o) q).top pos,
      getVal (cfgs.foldl (configStep env pos o) q).row f.idx = fileValOf f.name cfgs (getVal q.row f.idx) := by
  refine snoc_induction (P := fun cfgs => ∀ (q : Proj), FInv q → OInv q → isGroupAt q.top pos →
    Part.config pos o ∈ q.parts → ∀ f ∈ groupSubs (cfgs.foldl (configStep env pos o) q).top pos,
      getVal (cfgs.foldl (configStep env pos o) q).row f.idx = fileValOf f.name cfgs (getVal q.row f.idx))
    ?_ ?_ cfgs
  · intro q _ _ _ _ f _
    simp [fileValOf]
  · intro init c ih q hf ho hg hpart f hfm
    rw [List.foldl_append] at hfm ⊢
    simp only [List.foldl_cons, List.foldl_nil] at hfm ⊢
    obtain ⟨f1, e1⟩ := configFold_good env pos o init q hf hg
    obtain ⟨o1, _⟩ := configFold_own env pos o init q hf ho hg hpart
    have hg1 := (e1.grp pos).mpr hg
    obtain ⟨hv, hsrc⟩ := configStep_value env pos o _ c f1 o1 hg1 f hfm
    rw [hv, fileValOf_snoc]
    by_cases hc : (c.2.2 && c.1 == f.name) = true
    · rw [if_pos hc, if_pos hc]
    · rw [if_neg hc, if_neg hc]
      rcases hsrc with hold | hnew
      · exact ih q hf ho hg hpart f hold
      · exact absurd hnew hc

/-! ### Frame lemmas -/

theorem configStep_frame (env : Env) (pos : Nat) (o : Order) (q : Proj) (c : Bytes × Bytes × Bool)
    (hf : FInv q) (i : Nat) (hi : i < q.nFields) (hni : ¬ groupIdxAt q.top pos i) :
    getVal (configStep env pos o q c).row i = getVal q.row i := by
  unfold configStep
  split
  · rfl
  · split
    · rename_i g hfind
      apply getVal_set_ne
      intro he
      exact hni ⟨g, List.mem_of_find?_eq_some hfind, he⟩
    · split
      · rfl
      · simp only [Proj.addSubField]
        rw [getVal_set_ne _ _ _ _ (by omega), getVal_append_nil]

theorem configFold_frame (env : Env) (pos : Nat) (o : Order) (cfgs : List (Bytes × Bytes × Bool)) (q : Proj)
    (hf : FInv q) (ho : OInv q) (hg : isGroupAt q.top pos) (hpart : Part.config pos o ∈ q.parts)
    (i : Nat) (hi : i < q.nFields) (hni : ¬ groupIdxAt q.top pos i) :
    getVal (cfgs.foldl (configStep env pos o) q).row i = getVal q.row i := by
  induction cfgs generalizing q with
  | nil => rfl
  | cons c rest ih =>
    simp only [List.foldl_cons]
    obtain ⟨f1, e1⟩ := configStep_good env pos o q c hf hg
    obtain ⟨o1, g1⟩ := configStep_own env pos o q c hf ho hg hpart
    rw [ih _ f1 o1 ((e1.grp pos).mpr hg) (by rw [e1.parts]; exact hpart) (Nat.lt_of_lt_of_le hi e1.nFields)]
    · exact configStep_frame env pos o q c hf i hi hni
    · rintro ⟨f, hfm, he⟩
      rcases g1.fresh pos f hfm with a | a
      · exact hni ⟨f, a, he⟩
      · omega

/-- A closure that does not own index `i` leaves `row[i]` alone. -/
theorem runPart_frame (env : Env) (r : Res) (q : Proj) (part : Part) (hf : FInv q) (ho : OInv q)
    (hp : part ∈ q.parts) (i : Nat) (hi : i < q.nFields) (hleaf : leafIdx part ≠ some i)
    (hcfg : ∀ pos, cfgPos part = some pos → ¬ groupIdxAt q.top pos i) :
    getVal (runPart env r q part).row i = getVal q.row i := by
  cases part with
  | config pos o =>
    exact configFold_frame env pos o r.config q hf ho (hf.groups pos o hp) hp i hi (hcfg pos rfl)
  | fullname idx =>
    simp only [runPart]
    exact getVal_set_ne _ _ _ _ (fun e => hleaf (by simp [leafIdx, e]))
  | key k idx =>
    simp only [runPart]
    exact getVal_set_ne _ _ _ _ (fun e => hleaf (by simp [leafIdx, e]))

theorem partsFold_frame (env : Env) (r : Res) (parts : List Part) (q : Proj) (hf : FInv q) (ho : OInv q)
    (hsub : ∀ x ∈ parts, x ∈ q.parts) (i : Nat) (hi : i < q.nFields)
    (hleaf : ∀ x ∈ parts, leafIdx x ≠ some i)
    (hcfg : ∀ x ∈ parts, ∀ pos, cfgPos x = some pos → ¬ groupIdxAt q.top pos i) :
    getVal (parts.foldl (runPart env r) q).row i = getVal q.row i := by
  induction parts generalizing q with
  | nil => rfl
  | cons x rest ih =>
    simp only [List.foldl_cons]
    obtain ⟨f1, e1⟩ := runPart_good env r q x hf (hsub x (by simp))
    obtain ⟨o1, g1⟩ := runPart_own env r q x hf ho (hsub x (by simp))
    rw [ih _ f1 o1 (fun y hy => by rw [e1.parts]; exact hsub y (by simp [hy]))
      (Nat.lt_of_lt_of_le hi e1.nFields) (fun y hy => hleaf y (by simp [hy]))]
    · exact runPart_frame env r q x hf ho (hsub x (by simp)) i hi (hleaf x (by simp)) (hcfg x (by simp))
    · intro y hy pos hpos ⟨f, hfm, he⟩
      rcases g1.fresh pos f hfm with a | a
      · exact hcfg y (by simp [hy]) pos hpos ⟨f, a, he⟩
      · omega

/-! ### Groups are only touched by their own closure -/

theorem configStep_subs_other (env : Env) (pos : Nat) (o : Order) (q : Proj) (c : Bytes × Bytes × Bool)
    (pos' : Nat) (hne : pos' ≠ pos) :
    groupSubs (configStep env pos o q c).top pos' = groupSubs q.top pos' := by
  unfold configStep
  split
  · rfl
  · split
    · rfl
    · split
      · rfl
      · simp only [Proj.addSubField]
        exact groupSubs_addSubAt_ne _ _ _ _ hne

theorem runPart_subs_other (env : Env) (r : Res) (q : Proj) (part : Part) (pos' : Nat)
    (hne : cfgPos part ≠ some pos') : groupSubs (runPart env r q part).top pos' = groupSubs q.top pos' := by
  cases part with
  | config pos o =>
    have hp : pos' ≠ pos := fun e => hne (by simp [cfgPos, e])
    simp only [runPart]
    generalize r.config = cfgs
    induction cfgs generalizing q with
    | nil => rfl
    | cons c rest ih =>
      simp only [List.foldl_cons]
      rw [ih, configStep_subs_other env pos o q c pos' hp]
  | fullname idx => rfl
  | key k idx => rfl

theorem partsFold_subs_other (env : Env) (r : Res) (parts : List Part) (q : Proj) (pos' : Nat)
    (hne : ∀ x ∈ parts, cfgPos x ≠ some pos') :
    groupSubs (parts.foldl (runPart env r) q).top pos' = groupSubs q.top pos' := by
  induction parts generalizing q with
  | nil => rfl
  | cons x rest ih =>
    simp only [List.foldl_cons]
    rw [ih _ (fun y hy => hne y (by simp [hy])), runPart_subs_other env r q x pos' (hne x (by simp))]

/-! ### The row after `populateRow` -/

/-- `newExtractor(key)(result)` as a total function. -/
def extractD (k : Bytes) (r : Res) : Bytes :=
  match extract k r.view with
  | .ok v => v
  | .error _ => []

/-- What a leaf closure writes. -/
def leafValue (env : Env) (r : Res) : Part → Bytes
  | .key k _ => extractD k r
  | .fullname _ => fullNameExcluding env.exclude r.name
  | .config _ _ => []

theorem gext_of_parts (env : Env) (r : Res) (parts : List Part) (q : Proj) (hf : FInv q) (ho : OInv q)
    (hsub : ∀ x ∈ parts, x ∈ q.parts) :
    FInv (parts.foldl (runPart env r) q) ∧ OInv (parts.foldl (runPart env r) q) ∧
    Ext q (parts.foldl (runPart env r) q) ∧ GExt q (parts.foldl (runPart env r) q) := by
  obtain ⟨f1, e1⟩ := partsFold_good env r parts q hf hsub
  obtain ⟨o1, g1⟩ := partsFold_own env r parts q hf ho hsub
  exact ⟨f1, o1, e1, g1⟩

theorem partsFold_leaf (env : Env) (r : Res) (pre post : List Part) (part : Part) (q : Proj)
    (hf : FInv q) (ho : OInv q) (hsub : ∀ x ∈ pre ++ part :: post, x ∈ q.parts)
    (i : Nat) (hl : leafIdx part = some i) (hnd : ((pre ++ part :: post).filterMap leafIdx).Nodup) :
    getVal ((pre ++ part :: post).foldl (runPart env r) q).row i = leafValue env r part := by
  rw [List.foldl_append, List.foldl_cons]
  obtain ⟨hi, hng⟩ := ho.leafBound part (hsub part (by simp)) i hl
  obtain ⟨f1, o1, e1, g1⟩ := gext_of_parts env r pre q hf ho (fun x hx => hsub x (by simp [hx]))
  have hp1 : part ∈ (pre.foldl (runPart env r) q).parts := by rw [e1.parts]; exact hsub part (by simp)
  obtain ⟨f2, e2⟩ := runPart_good env r _ part f1 hp1
  obtain ⟨o2, g2⟩ := runPart_own env r _ part f1 o1 hp1
  have hi1 : i < (pre.foldl (runPart env r) q).nFields := Nat.lt_of_lt_of_le hi e1.nFields
  have hval : getVal (runPart env r (pre.foldl (runPart env r) q) part).row i = leafValue env r part := by
    cases part with
    | config pos o => simp [leafIdx] at hl
    | fullname idx =>
      simp only [leafIdx, Option.some.injEq] at hl; subst hl
      simp only [runPart, leafValue]
      exact getVal_set_eq _ _ _ (by rw [f1.rowLen]; exact hi1)
    | key k idx =>
      simp only [leafIdx, Option.some.injEq] at hl; subst hl
      simp only [runPart, leafValue, extractD]
      exact getVal_set_eq _ _ _ (by rw [f1.rowLen]; exact hi1)
  rw [← hval]
  have hnd' : i ∉ post.filterMap leafIdx := by
    rw [List.filterMap_append, List.filterMap_cons, hl, List.nodup_append] at hnd
    have := (List.nodup_cons.mp hnd.2.1).1
    exact this
  apply partsFold_frame env r post _ f2 o2
  · intro y hy; rw [e2.parts, e1.parts]; exact hsub y (by simp [hy])
  · exact Nat.lt_of_lt_of_le hi1 e2.nFields
  · intro y hy he
    exact hnd' (List.mem_filterMap.mpr ⟨y, hy, he⟩)
  · intro y _ pos _ ⟨f, hfm, he⟩
    rcases g2.fresh pos f hfm with a | a
    · rcases g1.fresh pos f a with b | b
      · exact hng ⟨pos, f, b, he⟩
      · omega
    · omega

theorem partsFold_config (env : Env) (r : Res) (pre post : List Part) (pos : Nat) (o : Order) (q : Proj)
    (hf : FInv q) (ho : OInv q) (hsub : ∀ x ∈ pre ++ Part.config pos o :: post, x ∈ q.parts)
    (hnd : ((pre ++ Part.config pos o :: post).filterMap cfgPos).Nodup) :
    ∀ f ∈ groupSubs ((pre ++ Part.config pos o :: post).foldl (runPart env r) q).top pos,
      getVal ((pre ++ Part.config pos o :: post).foldl (runPart env r) q).row f.idx =
        fileValOf f.name r.config (getVal q.row f.idx) := by
  intro f hfm
  rw [List.foldl_append, List.foldl_cons] at hfm ⊢
  have hpart : Part.config pos o ∈ q.parts := hsub _ (by simp)
  rw [List.filterMap_append, List.filterMap_cons] at hnd
  simp only [cfgPos] at hnd
  rw [List.nodup_append] at hnd
  have hpre : ∀ x ∈ pre, cfgPos x ≠ some pos := by
    intro x hx he
    exact hnd.2.2 pos (List.mem_filterMap.mpr ⟨x, hx, he⟩) pos (by simp) rfl
  have hpost : ∀ x ∈ post, cfgPos x ≠ some pos := by
    intro x hx he
    exact (List.nodup_cons.mp hnd.2.1).1 (List.mem_filterMap.mpr ⟨x, hx, he⟩)
  obtain ⟨f1, o1, e1, g1⟩ := gext_of_parts env r pre q hf ho (fun x hx => hsub x (by simp [hx]))
  have hp1 : Part.config pos o ∈ (pre.foldl (runPart env r) q).parts := by rw [e1.parts]; exact hpart
  obtain ⟨f2, e2⟩ := runPart_good env r _ (Part.config pos o) f1 hp1
  obtain ⟨o2, g2⟩ := runPart_own env r _ (Part.config pos o) f1 o1 hp1
  have hsub2 : ∀ y ∈ post, y ∈ (runPart env r (pre.foldl (runPart env r) q) (Part.config pos o)).parts := by
    intro y hy; rw [e2.parts, e1.parts]; exact hsub y (by simp [hy])
  -- the group is untouched by `post`
  rw [partsFold_subs_other env r post _ pos hpost] at hfm
  have hlt2 := subs_bound _ f2 pos f hfm
  -- value after `post` = value after the closure
  rw [partsFold_frame env r post _ f2 o2 hsub2 f.idx hlt2]
  · -- value after the closure
    have hg1 : isGroupAt (pre.foldl (runPart env r) q).top pos := f1.groups pos o hp1
    have hv := configFold_value env pos o r.config _ f1 o1 hg1 hp1 f hfm
    simp only [runPart] at hv ⊢
    rw [hv]
    congr 1
    -- value before the closure = value at the start
    rcases g2.fresh pos f hfm with a | a
    · -- an old sub-field: nobody in `pre` owns its index
      rw [partsFold_subs_other env r pre q pos hpre] at a
      apply partsFold_frame env r pre q hf ho (fun x hx => hsub x (by simp [hx])) f.idx
        (subs_bound q hf pos f a)
      · intro x hx he
        exact (ho.leafBound x (hsub x (by simp [hx])) f.idx he).2 ⟨pos, f, a, rfl⟩
      · intro x hx pos' hpos' ⟨g, hgm, he⟩
        have := (ho.subsInj pos' pos g f hgm a he).1
        exact hpre x hx (by rw [hpos', this])
    · -- a sub-field created by this closure: beyond both rows
      rw [getVal_of_le _ _ (by rw [f1.rowLen]; exact a),
        getVal_of_le _ _ (by rw [hf.rowLen]; exact Nat.le_trans e1.nFields a)]
  · intro y hy he
    obtain ⟨hj, hng⟩ := ho.leafBound y (hsub y (by simp [hy])) f.idx he
    rcases g2.fresh pos f hfm with a | a
    · rcases g1.fresh pos f a with b | b
      · exact hng ⟨pos, f, b, rfl⟩
      · omega
    · have := e1.nFields; omega
  · intro y hy pos' hpos' ⟨g, hgm, he⟩
    have := (o2.subsInj pos' pos g f hgm hfm he).1
    exact hpost y hy (by rw [hpos', this])

/-- **The row after `populateRow`**, index by index, by owner. -/
theorem populateRow_values (env : Env) (p : Proj) (r : Res) (hf : FInv p) (ho : OInv p) :
    (∀ part ∈ p.parts, ∀ i, leafIdx part = some i →
      getVal (p.populateRow env r).row i = leafValue env r part) ∧
    (∀ pos o, Part.config pos o ∈ p.parts → ∀ f ∈ groupSubs (p.populateRow env r).top pos,
      getVal (p.populateRow env r).row f.idx = fileValOf f.name r.config []) ∧
    (∀ ui, p.unitIdx = some ui → getVal (p.populateRow env r).row ui = []) := by
  have h0 : FInv { p with row := p.row.map fun _ => [] } :=
    ⟨by simpa using hf.rowLen, hf.cover, hf.bound, hf.groups⟩
  have o0 : OInv { p with row := p.row.map fun _ => [] } := setRow_OInv p _ ho
  refine ⟨?_, ?_, ?_⟩
  · intro part hp i hl
    obtain ⟨pre, post, hsplit⟩ := List.append_of_mem hp
    have := partsFold_leaf env r pre post part { p with row := p.row.map fun _ => [] } h0 o0
      (by intro x hx; show x ∈ p.parts; rw [hsplit]; exact hx) i hl (by rw [← hsplit]; exact ho.leafNodup)
    unfold Proj.populateRow
    simp only [hsplit] at this ⊢
    exact this
  · intro pos o hp f hfm
    obtain ⟨pre, post, hsplit⟩ := List.append_of_mem hp
    have := partsFold_config env r pre post pos o { p with row := p.row.map fun _ => [] } h0 o0
      (by intro x hx; show x ∈ p.parts; rw [hsplit]; exact hx) (by rw [← hsplit]; exact ho.cfgNodup)
    unfold Proj.populateRow at hfm ⊢
    simp only [hsplit] at this hfm ⊢
    rw [this f hfm, getVal_cleared]
  · intro ui hu
    obtain ⟨h1, h2, h3⟩ := ho.unitOK ui hu
    unfold Proj.populateRow
    show getVal (p.parts.foldl (runPart env r) { p with row := p.row.map fun _ => [] }).row ui = []
    rw [partsFold_frame env r p.parts _ h0 o0 (fun x hx => hx) ui h1]
    · exact getVal_cleared _ _
    · intro x hx he
      exact h3 (List.mem_filterMap.mpr ⟨x, hx, he⟩)
    · intro x _ pos _ hgi
      exact h2 ⟨pos, hgi⟩

/-! ### Which sub-fields a `.config` group has -/

theorem configStep_cover (env : Env) (pos : Nat) (o : Order) (q : Proj) (c : Bytes × Bytes × Bool)
    (hg : isGroupAt q.top pos) (hfile : c.2.2 = true) (hex : env.configKeys.contains c.1 = false) :
    ∃ f ∈ groupSubs (configStep env pos o q c).top pos, f.name = c.1 := by
  unfold configStep
  simp only [hfile, Bool.not_true, Bool.false_eq_true, if_false]
  cases hfind : (groupSubs q.top pos).find? (·.name == c.1) with
  | some g =>
    exact ⟨g, List.mem_of_find?_eq_some hfind, by simpa using List.find?_some hfind⟩
  | none =>
    simp only [hex, Bool.false_eq_true, if_false, Proj.addSubField]
    exact ⟨_, (mem_groupSubs_addSubAt q.top pos _ hg pos _).mpr (Or.inr ⟨rfl, rfl⟩), mkSubField_name _ _ _ _⟩

theorem configStep_new (env : Env) (pos : Nat) (o : Order) (q : Proj) (c : Bytes × Bytes × Bool)
    (hg : isGroupAt q.top pos) :
    ∀ f ∈ groupSubs (configStep env pos o q c).top pos,
      f ∈ groupSubs q.top pos ∨ (c.2.2 = true ∧ f.name = c.1 ∧ env.configKeys.contains c.1 = false) := by
  intro f hfm
  unfold configStep at hfm
  by_cases hfile : c.2.2 = true
  · simp only [hfile, Bool.not_true, Bool.false_eq_true, if_false] at hfm
    cases hfind : (groupSubs q.top pos).find? (·.name == c.1) with
    | some g => simp only [hfind] at hfm; exact Or.inl hfm
    | none =>
      simp only [hfind] at hfm
      by_cases hex : env.configKeys.contains c.1 = true
      · simp only [hex, if_true] at hfm; exact Or.inl hfm
      · simp only [hex, Bool.false_eq_true, if_false, Proj.addSubField] at hfm
        rcases (mem_groupSubs_addSubAt q.top pos _ hg pos f).mp hfm with a | ⟨_, a⟩
        · exact Or.inl a
        · exact Or.inr ⟨hfile, by rw [a, mkSubField_name], by simpa using hex⟩
  · have hfile' : c.2.2 = false := by simpa using hfile
    simp only [hfile', Bool.not_false, if_true] at hfm
    exact Or.inl hfm

theorem configFold_cover (env : Env) (pos : Nat) (o : Order) (cfgs : List (Bytes × Bytes × Bool)) (q : Proj)
    (hf : FInv q) (ho : OInv q) (hg : isGroupAt q.top pos) (hpart : Part.config pos o ∈ q.parts) :
    (∀ c ∈ cfgs, c.2.2 = true → env.configKeys.contains c.1 = false →
      ∃ f ∈ groupSubs (cfgs.foldl (configStep env pos o) q).top pos, f.name = c.1) ∧
    (∀ f ∈ groupSubs (cfgs.foldl (configStep env pos o) q).top pos,
      f ∈ groupSubs q.top pos ∨
      (env.configKeys.contains f.name = false ∧ ∃ c ∈ cfgs, c.2.2 = true ∧ c.1 = f.name)) := by
  induction cfgs generalizing q with
  | nil => exact ⟨by simp, fun f hfm => Or.inl hfm⟩
  | cons c rest ih =>
    simp only [List.foldl_cons]
    obtain ⟨f1, e1⟩ := configStep_good env pos o q c hf hg
    obtain ⟨o1, g1⟩ := configStep_own env pos o q c hf ho hg hpart
    have hg1 := (e1.grp pos).mpr hg
    have hp1 : Part.config pos o ∈ (configStep env pos o q c).parts := by rw [e1.parts]; exact hpart
    obtain ⟨ih1, ih2⟩ := ih _ f1 o1 hg1 hp1
    obtain ⟨_, g2⟩ := configFold_own env pos o rest _ f1 o1 hg1 hp1
    constructor
    · intro d hd hfile hex
      simp only [List.mem_cons] at hd
      rcases hd with rfl | hd
      · obtain ⟨f, hfm, hn⟩ := configStep_cover env pos o q d hg hfile hex
        exact ⟨f, g2.mono pos f hfm, hn⟩
      · exact ih1 d hd hfile hex
    · intro f hfm
      rcases ih2 f hfm with a | ⟨a1, d, hd, a2⟩
      · rcases configStep_new env pos o q c hg f a with b | ⟨b1, b2, b3⟩
        · exact Or.inl b
        · exact Or.inr ⟨by rw [b2]; exact b3, c, by simp, b1, b2.symm⟩
      · exact Or.inr ⟨a1, d, by simp [hd], a2⟩

/-- After `populateRow`, the group of a `.config` closure has a sub-field for every File key of the
result that is not excluded, and its new sub-fields are exactly such keys. -/
theorem populateRow_group (env : Env) (p : Proj) (r : Res) (hf : FInv p) (ho : OInv p) (pos : Nat) (o : Order)
    (hp : Part.config pos o ∈ p.parts) :
    (∀ c ∈ r.config, c.2.2 = true → env.configKeys.contains c.1 = false →
      ∃ f ∈ groupSubs (p.populateRow env r).top pos, f.name = c.1) ∧
    (∀ f ∈ groupSubs (p.populateRow env r).top pos,
      f ∈ groupSubs p.top pos ∨
      (env.configKeys.contains f.name = false ∧ ∃ c ∈ r.config, c.2.2 = true ∧ c.1 = f.name)) := by
  have h0 : FInv { p with row := p.row.map fun _ => [] } :=
    ⟨by simpa using hf.rowLen, hf.cover, hf.bound, hf.groups⟩
  have o0 : OInv { p with row := p.row.map fun _ => [] } := setRow_OInv p _ ho
  obtain ⟨pre, post, hsplit⟩ := List.append_of_mem hp
  have hnd := ho.cfgNodup
  rw [hsplit, List.filterMap_append, List.filterMap_cons] at hnd
  simp only [cfgPos] at hnd
  rw [List.nodup_append] at hnd
  have hpre : ∀ x ∈ pre, cfgPos x ≠ some pos := by
    intro x hx he
    exact hnd.2.2 pos (List.mem_filterMap.mpr ⟨x, hx, he⟩) pos (by simp) rfl
  have hpost : ∀ x ∈ post, cfgPos x ≠ some pos := by
    intro x hx he
    exact (List.nodup_cons.mp hnd.2.1).1 (List.mem_filterMap.mpr ⟨x, hx, he⟩)
  have hsub : ∀ x ∈ pre, x ∈ ({ p with row := p.row.map fun _ => [] } : Proj).parts := by
    intro x hx; show x ∈ p.parts; rw [hsplit]; simp [hx]
  obtain ⟨f1, o1, e1, _⟩ := gext_of_parts env r pre _ h0 o0 hsub
  have hp1 : Part.config pos o ∈ (pre.foldl (runPart env r) { p with row := p.row.map fun _ => [] }).parts := by
    rw [e1.parts]; exact hp
  have hg1 := f1.groups pos o hp1
  obtain ⟨c1, c2⟩ := configFold_cover env pos o r.config _ f1 o1 hg1 hp1
  have hsubs : groupSubs (p.populateRow env r).top pos =
      groupSubs (r.config.foldl (configStep env pos o)
        (pre.foldl (runPart env r) { p with row := p.row.map fun _ => [] })).top pos := by
    unfold Proj.populateRow
    simp only [hsplit, List.foldl_append, List.foldl_cons]
    rw [partsFold_subs_other env r post _ pos hpost]
    rfl
  have hsubs0 : groupSubs (pre.foldl (runPart env r) { p with row := p.row.map fun _ => [] }).top pos =
      groupSubs p.top pos := partsFold_subs_other env r pre _ pos hpre
  rw [hsubs]
  refine ⟨c1, fun f hfm => ?_⟩
  rcases c2 f hfm with a | a
  · exact Or.inl (by rw [← hsubs0]; exact a)
  · exact Or.inr a

end C08
