/-
C15 helper lemmas: `sort.Float64s` (model `Tab.sortFloats`) sorts by an integer key; two
permutations of a list whose elements are separated by that key sort to the same list.
-/
import Proofs.Lemmas.C04F64
import Proofs.Lemmas.C14Tables

namespace C15L
open F64 Tab C14L

theorem signBit_iff (b : Bits) : signBit b = true ↔ 2 ^ 63 ≤ b.toNat := by
  unfold signBit
  have h0 : (0 : UInt64).toNat = 0 := rfl
  have hl := b.toNat_lt
  rw [bne_iff_ne, ne_eq, ← UInt64.toNat_inj, UInt64.toNat_shiftRight, h0, Nat.shiftRight_eq_div_pow]
  have : (63 : UInt64).toNat % 64 = 63 := by decide
  rw [this]
  omega

theorem isZero_iff (b : Bits) : isZero b = true ↔ b.toNat % 2 ^ 63 = 0 := by
  unfold isZero
  rw [expField_toNat, fracField_toNat]
  simp only [Bool.and_eq_true, beq_iff_eq]
  omega

/-- the order key of `NewSample`'s sort: NaNs first (negative sign first), then by value, and
for equal magnitude the negative one first — so −0 comes before +0 -/
def fkey (x : Bits) : Int :=
  if isNaN x then (if signBit x then -(2 ^ 66 : Int) - 1 else -(2 ^ 66 : Int))
  else if signBit x then -(2 * ((x.toNat % 2 ^ 63 : Nat) : Int)) - 1 else 2 * ((x.toNat % 2 ^ 63 : Nat) : Int)

theorem f64Less_iff (a b : Bits) : f64Less a b = true ↔ fkey a < fkey b := by
  have hla := a.toNat_lt
  have hlb := b.toNat_lt
  have sa : signBit a = decide (2 ^ 63 ≤ a.toNat) := by
    rw [Bool.eq_iff_iff]; simp [signBit_iff]
  have sb : signBit b = decide (2 ^ 63 ≤ b.toNat) := by
    rw [Bool.eq_iff_iff]; simp [signBit_iff]
  unfold f64Less F64.lt F64.eq fkey
  cases hna : isNaN a <;> cases hnb : isNaN b
  · -- neither is NaN
    have za : isZero a = decide (a.toNat % 2 ^ 63 = 0) := by
      rw [Bool.eq_iff_iff]; simp [isZero_iff]
    have zb : isZero b = decide (b.toNat % 2 ^ 63 = 0) := by
      rw [Bool.eq_iff_iff]; simp [isZero_iff]
    simp only [Bool.or_false, Bool.false_or, Bool.false_eq_true, if_false, Bool.and_false, Bool.not_false,
      Bool.and_true, Bool.false_and]
    rw [za, zb, sa, sb]
    have heq : (a == b) = decide (a.toNat = b.toNat) := by
      rw [Bool.eq_iff_iff]; simp [← UInt64.toNat_inj]
    rw [heq]
    by_cases h1 : a.toNat % 2 ^ 63 = 0 <;> by_cases h2 : b.toNat % 2 ^ 63 = 0 <;>
      by_cases h3 : 2 ^ 63 ≤ a.toNat <;> by_cases h4 : 2 ^ 63 ≤ b.toNat <;>
      by_cases h5 : a.toNat = b.toNat <;>
      simp [h1, h2, h3, h4, h5, UInt64.lt_iff_toNat_lt] <;> omega
  · simp only [hna, hnb, Bool.or_true, Bool.true_or, Bool.false_or, Bool.or_false, Bool.false_and, Bool.and_false,
      Bool.true_and, Bool.not_true, Bool.false_eq_true, if_true, if_false, false_iff, Int.not_lt]
    rw [sa, sb]
    by_cases h3 : 2 ^ 63 ≤ a.toNat <;> by_cases h4 : 2 ^ 63 ≤ b.toNat <;> simp [h3, h4] <;> omega
  · simp only [hna, hnb, Bool.or_true, Bool.true_or, Bool.false_or, Bool.or_false, Bool.false_and, Bool.and_false,
      Bool.true_and, Bool.not_false, Bool.and_true, if_true, if_false, true_iff]
    rw [sa, sb]
    by_cases h3 : 2 ^ 63 ≤ a.toNat <;> by_cases h4 : 2 ^ 63 ≤ b.toNat <;> simp [h3, h4] <;> omega
  · simp only [hna, hnb, Bool.or_true, Bool.true_or, Bool.false_or, Bool.or_false, Bool.and_true, Bool.true_and,
      Bool.not_true, Bool.and_false, if_true]
    rw [sa, sb]
    by_cases h3 : 2 ^ 63 ≤ a.toNat <;> by_cases h4 : 2 ^ 63 ≤ b.toNat <;> simp [h3, h4]

theorem insertF_perm' (x : Bits) (l : List Bits) : (insertF x l).Perm (x :: l) := insertF_perm x l

theorem insertF_sorted (x : Bits) (l : List Bits) (h : l.Pairwise fun a b => fkey a ≤ fkey b) :
    (insertF x l).Pairwise fun a b => fkey a ≤ fkey b := by
  induction l with
  | nil => simp [insertF]
  | cons y ys ih =>
    unfold insertF
    split
    · rename_i hyx
      have hlt := (f64Less_iff y x).mp hyx
      refine List.Pairwise.cons ?_ (ih h.tail)
      intro b hb
      rcases List.mem_cons.mp ((insertF_perm x ys).mem_iff.mp hb) with rfl | hb
      · omega
      · exact List.rel_of_pairwise_cons h hb
    · rename_i hyx
      have hge : fkey x ≤ fkey y := by
        have := (not_congr (f64Less_iff y x)).mp hyx; omega
      refine List.Pairwise.cons ?_ h
      intro b hb
      rcases List.mem_cons.mp hb with rfl | hb
      · exact hge
      · exact Int.le_trans hge (List.rel_of_pairwise_cons h hb)

theorem sortFloats_sorted (l : List Bits) : (sortFloats l).Pairwise fun a b => fkey a ≤ fkey b := by
  induction l with
  | nil => simp [sortFloats]
  | cons x xs ih => exact insertF_sorted x _ ih

/-- a sample is CLEAN when the sort key separates its bit patterns. After commit 803247b the key
separates ALL non-NaN patterns (−0 and +0 included); only two NaNs of the same sign with
different payloads are not separated -/
def Clean (l : List Bits) : Prop := ∀ a ∈ l, ∀ b ∈ l, fkey a = fkey b → a = b

/-- sorted samples of two arrangements of a clean multiset are equal -/
theorem sortFloats_eq_of_perm {l l' : List Bits} (hp : l.Perm l') (hc : Clean l) :
    sortFloats l = sortFloats l' := by
  apply List.Perm.eq_of_pairwise (le := fun a b => fkey a ≤ fkey b)
  · intro a b ha hb h1 h2
    exact hc a ((sortFloats_perm l).mem_iff.mp ha) b (hp.mem_iff.mpr ((sortFloats_perm l').mem_iff.mp hb))
      (Int.le_antisymm h1 h2)
  · exact sortFloats_sorted l
  · exact sortFloats_sorted l'
  · exact (sortFloats_perm l).trans (hp.trans (sortFloats_perm l').symm)

/-- the key separates any two non-NaN patterns -/
theorem fkey_inj_of_not_nan (a b : Bits) (ha : isNaN a = false) (hb : isNaN b = false) (hk : fkey a = fkey b) :
    a = b := by
  have hla := a.toNat_lt
  have hlb := b.toNat_lt
  unfold fkey at hk
  rw [ha, hb] at hk
  simp only [Bool.false_eq_true, if_false] at hk
  have sa := signBit_iff a
  have sb := signBit_iff b
  apply UInt64.toNat_inj.mp
  cases hsa : signBit a <;> cases hsb : signBit b <;>
    simp only [hsa, hsb, Bool.false_eq_true, if_false, if_true, false_iff, true_iff, Nat.not_le] at hk sa sb <;> omega

/-- sufficient: at most one NaN bit pattern (in particular: no NaN, or only the NaN the reader
produces for "NaN"); zeros of both signs are allowed -/
theorem clean_of_one_nan_pattern (l : List Bits) (hn : ∀ a ∈ l, ∀ b ∈ l, isNaN a = true → isNaN b = true → a = b) :
    Clean l := by
  intro a ha b hb hk
  cases hna : isNaN a <;> cases hnb : isNaN b
  · exact fkey_inj_of_not_nan a b hna hnb hk
  · exfalso
    have hlb := b.toNat_lt
    unfold fkey at hk; rw [hna, hnb] at hk
    simp only [Bool.false_eq_true, if_false, if_true] at hk
    cases signBit a <;> cases signBit b <;> (try simp only [Bool.false_eq_true, if_false, if_true] at hk) <;> omega
  · exfalso
    have hla := a.toNat_lt
    unfold fkey at hk; rw [hna, hnb] at hk
    simp only [Bool.false_eq_true, if_false, if_true] at hk
    cases signBit a <;> cases signBit b <;> (try simp only [Bool.false_eq_true, if_false, if_true] at hk) <;> omega
  · exact hn a ha b hb hna hnb

theorem clean_of_no_nan (l : List Bits) (hn : ∀ a ∈ l, isNaN a = false) : Clean l :=
  clean_of_one_nan_pattern l (fun a ha _ _ h _ => by rw [hn a ha] at h; cases h)

end C15L

namespace C15L
open F64 Tab C14L

section NE
variable {κ ζ ν : Type} [DecidableEq κ] [DecidableEq ζ]

theorem upsert_ne_nil {α β : Type} [DecidableEq α] (k : α) (f : Option β → β) (l : List (α × β)) :
    AL.upsert k f l ≠ [] := by
  cases l with
  | nil => simp [AL.upsert]
  | cons kv rest => obtain ⟨k', v⟩ := kv; unfold AL.upsert; split <;> simp

/-- every table of a Builder made by `Add` has at least one cell -/
def NE (b : Builder κ ζ ν) : Prop := ∀ t bt, (t, bt) ∈ b → bt.cells ≠ []

theorem NE_addValue (rk ck : κ) (z : ζ) (b : Builder κ ζ ν) (tv : κ × ν) (h : NE b) :
    NE (addValue rk ck z b tv) := by
  intro t bt hm
  rcases mem_upsert hm with h1 | ⟨_, h2⟩
  · exact h t bt h1
  · rw [h2, addCell_cells]; exact upsert_ne_nil _ _ _

theorem NE_build (rs : List (Res κ ζ ν)) : NE (build rs) := by
  unfold build
  have hadd : ∀ (r0 : Res κ ζ ν) (b : Builder κ ζ ν), NE b → NE (Tab.add b r0) := by
    intro r0 b h
    unfold Tab.add
    generalize r0.vals = vals
    induction vals generalizing b with
    | nil => exact h
    | cons tv rest ih => rw [List.foldl_cons]; exact ih _ (NE_addValue _ _ _ _ _ h)
  have : ∀ (b : Builder κ ζ ν), NE b → NE (rs.foldl Tab.add b) := by
    induction rs with
    | nil => intro b h; exact h
    | cons r0 rest ih => intro b h; rw [List.foldl_cons]; exact ih _ (hadd r0 b h)
  exact this [] (by intro t bt hm; simp at hm)

theorem cellValues_of_lookup (b : Builder κ ζ ν) (t : κ) (bt : BTable κ ζ ν) (hl : AL.lookup t b = some bt)
    (r c : κ) : cellValues b t r c = ((AL.lookup (r, c) bt.cells).map (·.values)).getD [] := by
  unfold cellValues; rw [hl]; simp only; cases h : AL.lookup (r, c) bt.cells <;> simp [h]

theorem hasCell_of_lookup (b : Builder κ ζ ν) (t : κ) (bt : BTable κ ζ ν) (hl : AL.lookup t b = some bt)
    (r c : κ) : hasCell b t r c = (AL.lookup (r, c) bt.cells).isSome := by
  unfold hasCell; rw [hl]

theorem cellResidue_of_lookup (b : Builder κ ζ ν) (t : κ) (bt : BTable κ ζ ν) (hl : AL.lookup t b = some bt)
    (r c : κ) : cellResidue b t r c = ((AL.lookup (r, c) bt.cells).map (·.residue)).getD [] := by
  unfold cellResidue; rw [hl]; simp only; cases h : AL.lookup (r, c) bt.cells <;> simp [h]

end NE
end C15L
