/-
C03 helper lemmas: bytesconv.Atoi fast path, ParseUint, ParseInt against `parseIntSpec`.
-/
import Proofs.Lemmas.C03Spec

namespace C03
open Num Spec.NumText

theorem pow10_18 : (10 : Nat) ^ 18 = 1000000000000000000 := by decide +kernel

/-- `Atoi` fast-path loop: while the digits read so far number at most 18, the `int`
accumulator never wraps and the loop returns exactly the value of a digit string, and the
syntax-error exit on anything else. -/
theorem atoiLoop_spec (x : Bytes) : ∀ (n k : Nat), n < 10 ^ k → k + x.length ≤ 18 →
    atoiLoop x n = if x.all isDec then some ((valFrom n x : Nat) : Int) else none := by
  induction x with
  | nil => intro n k _ _; simp [atoiLoop, valFrom]
  | cons c x ih =>
    intro n k hn hk
    have hb := byte_digit c
    unfold atoiLoop
    simp only []
    by_cases hdec : isDec c = true
    · have hgt : ¬ (c - 48 > 9) := by
        have := hb.2.2.1; simp [hdec] at this; simpa using this
      have hv := hb.2.1 hdec
      have h9 := hb.2.2.2 hdec
      simp only [hgt, if_false]
      simp only [List.length_cons] at hk
      have hlt : n * 10 + (c - 48).toNat < 10 ^ (k + 1) := by rw [Nat.pow_succ]; omega
      have hle : 10 ^ (k + 1) ≤ 10 ^ 18 := Nat.pow_le_pow_right (by decide) (by omega)
      rw [pow10_18] at hle
      rw [wrap64_id _ (by omega) (by omega)]
      have := ih (n * 10 + (c - 48).toNat) (k + 1) hlt (by omega)
      rw [show ((n : Int) * 10 + ((c - 48).toNat : Int)) = ((n * 10 + (c - 48).toNat : Nat) : Int) by push_cast; rfl]
      rw [this, List.all_cons, hdec, valFrom_cons, hv]
      simp
    · have hgt : (c - 48 > 9) := by
        have := hb.2.2.1; simp [hdec] at this; simpa using this
      simp [hgt, hdec]

theorem splitSign_other (c : UInt8) (x : Bytes) (h1 : c ≠ 43) (h2 : c ≠ 45) :
    splitSign (c :: x) = (false, c :: x) := by
  unfold splitSign
  split
  · rename_i heq; injection heq with h _; exact absurd h h1
  · rename_i heq; injection heq with h _; exact absurd h h2
  · rfl

theorem valFrom_zero_lt (x : Bytes) (h : x.all isDec = true) (hl : x.length ≤ 18) :
    valFrom 0 x < 1000000000000000000 := by
  have := valFrom_lt_pow x h 0 0 (by decide)
  have hle : 10 ^ (0 + x.length) ≤ 10 ^ 18 := Nat.pow_le_pow_right (by decide) (by omega)
  rw [pow10_18] at hle; omega

theorem atoiLoop_zero (x : Bytes) (hl : x.length ≤ 18) :
    atoiLoop x 0 = if x.all isDec then some ((valOf 10 x : Nat) : Int) else none := by
  have := atoiLoop_spec x 0 0 (by decide) (by omega)
  rw [valOf_eq]; exact this

/-- **Atoi fast path = specification** for every input that takes it (1 ≤ length ≤ 18). -/
theorem atoiFast_eq_spec (s : Bytes) (h : atoiFastApplies s = true) :
    (atoiFast s).toExcept = parseIntSpec s := by
  unfold atoiFastApplies at h
  simp only [Bool.and_eq_true, decide_eq_true_eq] at h
  cases s with
  | nil => simp at h
  | cons c0 tl =>
    simp only [List.length_cons] at h
    unfold atoiFast parseIntSpec
    by_cases hm : c0 = 45
    · subst hm
      simp only [splitSign]
      cases tl with
      | nil => simp [IntRes.toExcept]
      | cons d tl' =>
        have hl : (d :: tl').length ≤ 18 := by simp only [List.length_cons] at h ⊢; omega
        have := atoiLoop_zero (d :: tl') hl
        by_cases hall : (d :: tl').all isDec = true
        · have hlt := valFrom_zero_lt (d :: tl') hall hl
          rw [← valOf_eq] at hlt
          rw [hall] at this
          simp only [if_true] at this
          have hw : wrap64 (-((valOf 10 (d :: tl') : Nat) : Int)) = -((valOf 10 (d :: tl') : Nat) : Int) :=
            wrap64_id _ (by omega) (by omega)
          simp [this, hall, IntRes.toExcept, hw]
          omega
        · simp only [Bool.not_eq_true] at hall
          rw [hall] at this
          simp only [Bool.false_eq_true, if_false] at this
          simp [this, hall, IntRes.toExcept]
    · by_cases hp : c0 = 43
      · subst hp
        simp only [splitSign]
        cases tl with
        | nil => simp [IntRes.toExcept]
        | cons d tl' =>
          have hl : (d :: tl').length ≤ 18 := by simp only [List.length_cons] at h ⊢; omega
          have := atoiLoop_zero (d :: tl') hl
          by_cases hall : (d :: tl').all isDec = true
          · have hlt := valFrom_zero_lt (d :: tl') hall hl
            rw [← valOf_eq] at hlt
            rw [hall] at this
            simp only [if_true] at this
            simp [this, hall, IntRes.toExcept]
            omega
          · simp only [Bool.not_eq_true] at hall
            rw [hall] at this
            simp only [Bool.false_eq_true, if_false] at this
            simp [this, hall, IntRes.toExcept]
      · rw [splitSign_other c0 tl hp hm]
        have hl : (c0 :: tl).length ≤ 18 := by simp only [List.length_cons]; omega
        have := atoiLoop_zero (c0 :: tl) hl
        have e1 : (c0 == 45) = false := by simpa using hm
        have e2 : (c0 == 43) = false := by simpa using hp
        by_cases hall : (c0 :: tl).all isDec = true
        · have hlt := valFrom_zero_lt (c0 :: tl) hall hl
          rw [← valOf_eq] at hlt
          rw [hall] at this
          simp only [if_true] at this
          simp [e1, e2, this, hall, IntRes.toExcept]
          omega
        · simp only [Bool.not_eq_true] at hall
          rw [hall] at this
          simp only [Bool.false_eq_true, if_false] at this
          simp [e1, e2, this, hall, IntRes.toExcept]

end C03
