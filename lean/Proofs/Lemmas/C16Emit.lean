/-
C16 — row emission: under the fit of the widths every cell is written at its column offset,
whole, and ends before the next cell's column.
-/
import Model.Tab.TextTab

namespace C16
open Tab.TextTab

/-! ### rune counts of padded strings -/

theorem runeCount_nil : runeCount [] = 0 := rfl

theorem runeCount_space_cons (s : Bytes) : runeCount (0x20 :: s) = 1 + runeCount s := by
  unfold runeCount
  simp [runeCountAux, Utf8.decodeRune]

theorem runeCount_spaces_append (n : Nat) (s : Bytes) : runeCount (spaces n ++ s) = n + runeCount s := by
  induction n with
  | zero => simp [spaces]
  | succ n ih =>
    have : spaces (n + 1) ++ s = 0x20 :: (spaces n ++ s) := by simp [spaces, List.replicate_succ]
    rw [this, runeCount_space_cons, ih]; omega

theorem runeCount_spaces (n : Nat) : runeCount (spaces n) = n := by
  have := runeCount_spaces_append n []
  simpa [runeCount_nil] using this

theorem padStar_nonneg (w : Int) (s : Bytes) (h : 0 ≤ w) :
    padStar w s = spaces (w.toNat - runeCount s) ++ s := by
  unfold padStar; simp [h]

/-! ### one cell -/

/-- geometry of the pieces written for one cell when the writer stands at `off`:
the pad brings it exactly to the column's offset, the margin is right-justified and whole in the
column's margin width, the value is whole, preceded by `k` blanks chosen by the alignment, and
ends inside the cell's columns (exactly at their end when right-aligned). -/
def CellOK (offs : List Int) (lm : List Nat) (off : Int) (c : Cell) : Prop :=
  off ≤ offs.getD c.col 0 ∧
  ∃ k : Nat,
    (cellPieces offs lm off c).1 =
      [spaces (offs.getD c.col 0 - off).toNat,
       spaces (lm.getD c.col 0 - runeCount c.margin) ++ c.margin,
       spaces k ++ c.value] ∧
    (c.align = .left → k = 0) ∧
    (c.value = [] → k = 0) ∧
    (c.align = .right → c.value ≠ [] →
      offs.getD c.col 0 + (lm.getD c.col 0 : Nat) + (k : Nat) + (runeCount c.value : Nat) = offs.getD (c.col + c.span) 0) ∧
    (c.align = .center → c.value ≠ [] →
      (k : Int) = (offs.getD (c.col + c.span) 0 - offs.getD c.col 0 - (lm.getD c.col 0 : Nat) - (runeCount c.value : Nat)) / 2) ∧
    (cellPieces offs lm off c).2 =
      offs.getD c.col 0 + (lm.getD c.col 0 : Nat) + (k : Nat) + (runeCount c.value : Nat) ∧
    (cellPieces offs lm off c).2 ≤ offs.getD (c.col + c.span) 0

theorem cellOK_of_fit (offs : List Int) (lm : List Nat) (off : Int) (c : Cell)
    (hoff : off ≤ offs.getD c.col 0)
    (hm : runeCount c.margin ≤ lm.getD c.col 0)
    (hfit : (lm.getD c.col 0 : Nat) + (runeCount c.value : Int)
      ≤ offs.getD (c.col + c.span) 0 - offs.getD c.col 0) :
    CellOK offs lm off c := by
  refine ⟨hoff, ?_⟩
  have hsp : 0 ≤ offs.getD c.col 0 - off := by omega
  have hmm : (0 : Int) ≤ ((lm.getD c.col 0 : Nat) : Int) := Int.natCast_nonneg _
  have htw : (runeCount c.value : Int) ≤ offs.getD (c.col + c.span) 0 - offs.getD c.col 0 - (lm.getD c.col 0 : Nat) := by omega
  have hp0 : padStar (offs.getD c.col 0 - off) [] = spaces (offs.getD c.col 0 - off).toNat := by
    rw [padStar_nonneg _ _ hsp]; simp [runeCount_nil]
  have hp1 : padStar ((lm.getD c.col 0 : Nat) : Int) c.margin
      = spaces (lm.getD c.col 0 - runeCount c.margin) ++ c.margin := by
    rw [padStar_nonneg _ _ hmm]; simp
  have hrc1 : runeCount (spaces (lm.getD c.col 0 - runeCount c.margin) ++ c.margin) = lm.getD c.col 0 := by
    rw [runeCount_spaces_append]; omega
  -- the value piece
  generalize htwd : offs.getD (c.col + c.span) 0 - offs.getD c.col 0 - ((lm.getD c.col 0 : Nat) : Int) = tw at htw
  have key : ∃ k : Nat, lpad c.align c.value tw = spaces k ++ c.value ∧
      (c.align = .left → k = 0) ∧ (c.value = [] → k = 0) ∧
      (c.align = .right → c.value ≠ [] → (k : Int) + (runeCount c.value : Nat) = tw) ∧
      (c.align = .center → c.value ≠ [] → (k : Int) = (tw - (runeCount c.value : Nat)) / 2) ∧
      (k : Int) + (runeCount c.value : Nat) ≤ tw := by
    by_cases hv : c.value = []
    · refine ⟨0, ?_, fun _ => rfl, fun _ => rfl, fun _ h => absurd hv h, fun _ h => absurd hv h, ?_⟩
      · simp [lpad, hv, spaces]
      · simpa using htw
    · have hve : c.value.isEmpty = false := by simpa using hv
      cases ha : c.align with
      | left =>
        refine ⟨0, ?_, fun _ => rfl, fun h => absurd h hv, ?_, ?_, ?_⟩
        · simp [lpad, hve, spaces]
        · intro h; cases h
        · intro h; cases h
        · simpa using htw
      | right =>
        have htw0 : 0 ≤ tw := by omega
        refine ⟨tw.toNat - runeCount c.value, ?_, ?_, fun h => absurd h hv, ?_, ?_, ?_⟩
        · simp [lpad, hve, padStar_nonneg _ _ htw0]
        · intro h; cases h
        · intro _ _; omega
        · intro h; cases h
        · omega
      | center =>
        have hx : 0 ≤ tw - (runeCount c.value : Nat) := by omega
        have hdiv : Int.tdiv (tw - (runeCount c.value : Nat)) 2 = (tw - (runeCount c.value : Nat)) / 2 :=
          Int.tdiv_eq_ediv_of_nonneg hx
        have hd0 : 0 ≤ (tw - (runeCount c.value : Nat)) / 2 := by omega
        refine ⟨((tw - (runeCount c.value : Nat)) / 2).toNat, ?_, ?_, fun h => absurd h hv, ?_, ?_, ?_⟩
        · simp only [lpad, hve, Bool.false_and, Bool.false_eq_true, if_false, hdiv]
          rw [padStar_nonneg _ _ hd0]
          simp [runeCount_nil]
        · intro h; cases h
        · intro h; cases h
        · intro _ _; omega
        · omega
  obtain ⟨k, hk, hl, he, hr, hc, hle⟩ := key
  refine ⟨k, ?_, hl, he, ?_, ?_, ?_, ?_⟩
  · simp only [cellPieces, htwd, hp0, hp1, hk]
  · intro h1 h2; have := hr h1 h2; omega
  · intro h1 h2; have := hc h1 h2; omega
  · simp only [cellPieces, htwd, hk, runeCount_spaces_append]
    push_cast
    omega
  · simp only [cellPieces, htwd, hk, runeCount_spaces_append]
    push_cast
    omega

/-! ### the whole emission loop -/

/-- every cell the loop writes is written with the geometry `CellOK` (the loop restarts at offset
0 on a new row) -/
def EmitOK (offs : List Int) (lm : List Nat) : EmitSt → List Cell → Prop
  | _, [] => True
  | st, c :: rest =>
    (skipped c = false → CellOK offs lm (if c.row > st.row then 0 else st.off) c) ∧
    EmitOK offs lm (emitCell offs lm st c) rest

/-- `a` is written before `b`: an earlier row, or the same row and wholly to the left -/
def Before (a b : Cell) : Prop := a.row < b.row ∨ (a.row = b.row ∧ a.col + a.span ≤ b.col)

theorem emitOK_of (offs : List Int) (lm : List Nat)
    (hmono : ∀ i j, i ≤ j → j < offs.length → offs.getD i 0 ≤ offs.getD j 0)
    (h0 : ∀ i, 0 ≤ offs.getD i 0) :
    ∀ (cells : List Cell) (st : EmitSt),
      cells.Pairwise Before →
      (∀ c ∈ cells, c.col + c.span < offs.length ∧ runeCount c.margin ≤ lm.getD c.col 0 ∧
        (lm.getD c.col 0 : Nat) + (runeCount c.value : Int)
          ≤ offs.getD (c.col + c.span) 0 - offs.getD c.col 0) →
      (∀ c ∈ cells, st.row ≤ c.row ∧ (c.row = st.row → st.off ≤ offs.getD c.col 0)) →
      EmitOK offs lm st cells := by
  intro cells
  induction cells with
  | nil => intro st _ _ _; trivial
  | cons c rest ih =>
    intro st hpw hcells hst
    have hc := hcells c (List.mem_cons_self ..)
    have hsc := hst c (List.mem_cons_self ..)
    rw [List.pairwise_cons] at hpw
    have hoff0 : (if c.row > st.row then 0 else st.off) ≤ offs.getD c.col 0 := by
      split
      · exact h0 _
      · exact hsc.2 (by omega)
    have hok := cellOK_of_fit offs lm _ c hoff0 hc.2.1 hc.2.2
    refine ⟨fun _ => hok, ?_⟩
    apply ih _ hpw.2 (fun d hd => hcells d (List.mem_cons_of_mem _ hd))
    intro d hd
    have hsd := hst d (List.mem_cons_of_mem _ hd)
    unfold emitCell
    split
    · exact hsd
    · simp only
      have hb := hpw.1 d hd
      have hrow : (if c.row > st.row then c.row else st.row) = c.row := by
        split
        · rfl
        · omega
      rw [hrow]
      rcases hb with hb | hb
      · exact ⟨by omega, fun h => by omega⟩
      · refine ⟨by omega, fun _ => ?_⟩
        obtain ⟨_, k, _, _, _, _, _, _, hle⟩ := hok
        refine Int.le_trans hle (hmono _ _ hb.2 ?_)
        have := (hcells d (List.mem_cons_of_mem _ hd)).1
        omega

end C16
