/-
C16 — ToText's header assembly: the level loop over the KeyHeader nodes never moves the cursor
backwards and places one centred cell per node over exactly the node's key columns.
-/
import Proofs.Lemmas.C16Render
import Proofs.Lemmas.C16Header

namespace C16
open Tab.TextTab Tab.Render Tab.KeyHeader

/-- the texttab cell ToText adds for a header node on row `row` -/
def hdrCell (row : Nat) (n : Node) : Cell :=
  { row := row, col := textStartCol n.start,
    span := textStartCol (n.start + n.len) - textStartCol n.start,
    value := n.value, margin := barMargin, align := .center }

def nodeOps (n : Node) : List Op :=
  [Op.col (textStartCol n.start),
   Op.span (textStartCol (n.start + n.len) - textStartCol n.start) n.value [.center, .margin barMargin]]

theorem nodes_run : ∀ (nodes : List Node) (s e : Nat) (t : Table),
    Tiles s e (nodeSpans nodes) → t.curCol ≤ textStartCol s →
    ∃ t', runOps t (nodes.flatMap nodeOps) = some t' ∧ t'.curRow = t.curRow ∧
      t'.curCol ≤ textStartCol e ∧ t'.cells = t.cells ++ nodes.map (hdrCell t.curRow) ∧
      (∀ j, t'.isShrink j = t.isShrink j) := by
  intro nodes
  induction nodes with
  | nil =>
    intro s e t h hc
    simp only [nodeSpans, List.map_nil, Tiles] at h
    subst h
    exact ⟨t, rfl, rfl, hc, by simp, fun _ => rfl⟩
  | cons n rest ih =>
    intro s e t h hc
    simp only [nodeSpans, List.map_cons, Tiles] at h
    obtain ⟨hs, hlen, hrest⟩ := h
    have hcol : t.col (textStartCol n.start) = some { t with curCol := textStartCol n.start } := by
      unfold Table.col
      have : ¬ textStartCol n.start < t.curCol := by rw [hs]; omega
      simp [this]
    have hmono : textStartCol n.start ≤ textStartCol (n.start + n.len) := textStartCol_mono (by omega)
    let t1 := ({ t with curCol := textStartCol n.start } : Table).span
      (textStartCol (n.start + n.len) - textStartCol n.start) n.value [.center, .margin barMargin]
    have ht1c : t1.curCol = textStartCol (s + n.len) := by
      simp only [t1, Table.span]; rw [← hs]; omega
    obtain ⟨t', h1, h2, h3, h4, h5⟩ := ih (s + n.len) e t1 hrest (by rw [ht1c]; exact Nat.le_refl _)
    refine ⟨t', ?_, ?_, h3, ?_, fun j => by rw [h5]; rfl⟩
    · simp only [List.flatMap_cons, nodeOps]
      rw [show [Op.col (textStartCol n.start), Op.span (textStartCol (n.start + n.len) - textStartCol n.start)
              n.value [.center, .margin barMargin]] ++ List.flatMap nodeOps rest
            = Op.col (textStartCol n.start) :: Op.span (textStartCol (n.start + n.len) - textStartCol n.start)
              n.value [.center, .margin barMargin] :: List.flatMap nodeOps rest from rfl,
        runOps_cons, Table.step, hcol, Option.bind_some, runOps_cons, Table.step, Option.bind_some]
      exact h1
    · rw [h2]; rfl
    · rw [h4]
      simp [t1, Table.span, hdrCell, Opt.apply]

theorem levelOps_eq (rEdge : Nat) (nodes : List Node) :
    levelOps rEdge nodes = Op.row :: (nodes.flatMap nodeOps ++ [Op.col rEdge, Op.span 1 [] [.margin edgeMargin]]) := by
  have : (fun n : Node => [Op.col (textStartCol n.start),
      Op.span (textStartCol (n.start + n.len) - textStartCol n.start) n.value [Opt.center, Opt.margin barMargin]])
      = nodeOps := rfl
  simp [levelOps, this]

/-- the right-edge cell of a header row -/
def edgeCell (row rEdge : Nat) : Cell :=
  { row := row, col := rEdge, span := 1, value := [], margin := edgeMargin, align := .left }

/-- one header level: never panics; one cell per node over the node's key columns, then the edge -/
theorem level_run (rEdge ncols : Nat) (hre : textStartCol ncols ≤ rEdge) (nodes : List Node) (t : Table)
    (h : Tiles 0 ncols (nodeSpans nodes)) :
    ∃ t', runOps t (levelOps rEdge nodes) = some t' ∧ t'.curRow = t.row.curRow ∧
      t'.cells = t.cells ++ nodes.map (hdrCell t.row.curRow) ++ [edgeCell t.row.curRow rEdge] ∧
      (∀ j, t'.isShrink j = t.isShrink j) := by
  obtain ⟨t1, h1, h2, h3, h4, h5⟩ := nodes_run nodes 0 ncols t.row h (by simp [Table.row])
  have hcol : t1.col rEdge = some { t1 with curCol := rEdge } := by
    unfold Table.col
    have : ¬ rEdge < t1.curCol := by omega
    simp [this]
  refine ⟨({ t1 with curCol := rEdge } : Table).span 1 [] [.margin edgeMargin], ?_, ?_, ?_, ?_⟩
  · rw [levelOps_eq, runOps_cons, Table.step, Option.bind_some, runOps_append, h1, Option.bind_some,
      runOps_cons, Table.step, hcol, Option.bind_some, runOps_cons, Table.step, Option.bind_some, runOps_nil]
  · simp only [Table.span]; exact h2
  · simp only [Table.span]
    rw [h4, h2]
    simp [edgeCell, Opt.apply, Table.row]
  · intro j
    have : (({ t1 with curCol := rEdge } : Table).span 1 [] [.margin edgeMargin]).isShrink j = t1.isShrink j := rfl
    rw [this, h5]; rfl

/-! ### all levels -/

theorem level_nil : ∀ k, level [] k = [] := by
  intro k; induction k with
  | zero => rfl
  | succ k ih => simpa [level] using ih

theorem level_flatMap (ns : List Node) (k : Nat) : level (ns.flatMap Node.children) k = level ns (k + 1) := rfl

/-- the cells of all header rows, starting at row `row` -/
def hdrCells (rEdge : Nat) : Nat → Nat → List Node → List Cell
  | 0, _, _ => []
  | fuel + 1, row, nodes =>
    if nodes.isEmpty then [] else
      nodes.map (hdrCell row) ++ [edgeCell row rEdge] ++ hdrCells rEdge fuel (row + 1) (nodes.flatMap Node.children)

/-- number of header rows the loop writes -/
def levelCount : Nat → List Node → Nat
  | 0, _ => 0
  | fuel + 1, nodes => if nodes.isEmpty then 0 else 1 + levelCount fuel (nodes.flatMap Node.children)

/-- the whole header loop: if every non-empty level tiles the columns, it never panics and adds
exactly `hdrCells`, one row per level; `t.row.curRow` is the index of the next row to be started -/
theorem header_run (rEdge ncols : Nat) (hre : textStartCol ncols ≤ rEdge) : ∀ (fuel : Nat) (nodes : List Node) (t : Table),
    (∀ k, level nodes k ≠ [] → Tiles 0 ncols (nodeSpans (level nodes k))) →
    ∃ t', runOps t (headerOps rEdge fuel nodes) = some t' ∧
      t'.cells = t.cells ++ hdrCells rEdge fuel t.row.curRow nodes ∧
      t'.row.curRow = t.row.curRow + levelCount fuel nodes ∧
      (∀ j, t'.isShrink j = t.isShrink j) := by
  intro fuel
  induction fuel with
  | zero => intro nodes t _; exact ⟨t, rfl, by simp [hdrCells], by simp [levelCount], fun _ => rfl⟩
  | succ fuel ih =>
    intro nodes t htile
    unfold headerOps hdrCells levelCount
    by_cases hn : nodes.isEmpty = true
    · simp only [hn, if_true]; exact ⟨t, rfl, by simp, by simp, fun _ => rfl⟩
    · have hn' : nodes.isEmpty = false := by simpa using hn
      simp only [hn', Bool.false_eq_true, if_false]
      have hnn : nodes ≠ [] := by intro h; rw [h] at hn'; simp at hn'
      have ht0 := htile 0 (by simpa [level] using hnn)
      simp only [level] at ht0
      obtain ⟨t1, h1, h2, h3, h4⟩ := level_run rEdge ncols hre nodes t ht0
      have hrow : t1.row.curRow = t.row.curRow + 1 := by
        have : t1.cells.isEmpty = false := by rw [h3]; simp
        simp [Table.row, this, h2]
      obtain ⟨t2, g1, g2, g3, g4⟩ := ih (nodes.flatMap Node.children) t1
        (fun k hk => by rw [level_flatMap] at hk ⊢; exact htile (k + 1) hk)
      refine ⟨t2, ?_, ?_, ?_, ?_⟩
      · rw [runOps_append, h1]; exact g1
      · rw [g2, h3, hrow]; simp
      · rw [g3, hrow]; omega
      · intro j; rw [g4, h4]

/-! ### depth of a good forest -/

theorem level_add (ns : List Node) : ∀ (a b : Nat), level ns (a + b) = level (level ns a) b := by
  intro a
  induction a generalizing ns with
  | zero => intro b; simp [level]
  | succ a ih => intro b; rw [show a + 1 + b = (a + b) + 1 by omega]; simp only [level]; exact ih _ b

theorem level_depth (keys : List (List Bytes)) : ∀ (fuel : Nat) (ns : List Node),
    (∀ x ∈ ns, ∃ lvl, Good keys fuel lvl x.start x.len x.children) → level ns (fuel + 1) = [] := by
  intro fuel
  induction fuel with
  | zero =>
    intro ns h
    simp only [level]
    have : ns.flatMap Node.children = [] := by
      rw [List.flatMap_eq_nil_iff]
      intro x hx
      obtain ⟨lvl, hg⟩ := h x hx
      simpa [Good] using hg
    exact this
  | succ fuel ih =>
    intro ns h
    rw [show fuel + 1 + 1 = (fuel + 1) + 1 from rfl]
    simp only [level]
    apply ih
    intro y hy
    simp only [List.mem_flatMap] at hy
    obtain ⟨x, hx, hyx⟩ := hy
    obtain ⟨lvl, hg⟩ := h x hx
    simp only [Good] at hg
    exact ⟨lvl + 1, (hg.2.2 y hyx).2.2⟩

end C16
