/-
C03 helper lemmas, final part: `underscoreOK` + `readFloat` on a whole text against
`Spec.NumText.recognise`.
-/
import Proofs.Lemmas.C03Lang3

namespace C03
open Num Spec.NumText

/-- `underscoreOK` after the optional sign -/
def uokBody (s : Bytes) : Bool :=
  match s with
  | 48 :: x :: r =>
    if lower x == 98 || lower x == 111 || lower x == 120 then
      underscoreLoop (lower x == 120) r .digit
    else underscoreLoop false s .start
  | _ => underscoreLoop false s .start

/-- the text after the optional sign -/
def bodyOf (c0 : UInt8) (tl : Bytes) : Bytes := if c0 == 43 || c0 == 45 then tl else c0 :: tl

theorem underscoreOK_cons (c0 : UInt8) (tl : Bytes) : underscoreOK (c0 :: tl) = uokBody (bodyOf c0 tl) := by
  unfold underscoreOK uokBody bodyOf
  simp only [Bool.or_comm (c0 == 45)]
  rfl

theorem splitSign_cons (c0 : UInt8) (tl : Bytes) : splitSign (c0 :: tl) = (c0 == 45, bodyOf c0 tl) := by
  unfold bodyOf
  by_cases hp : c0 = 43
  · subst hp; rfl
  · by_cases hm : c0 = 45
    · subst hm; rfl
    · rw [splitSign_other c0 tl hp hm]
      have e1 : (c0 == 43) = false := by simpa using hp
      have e2 : (c0 == 45) = false := by simpa using hm
      simp [e1, e2]

theorem readFloat_body (c0 : UInt8) (tl : Bytes) :
    readFloat (c0 :: tl) =
      rfTail (isHexStart (bodyOf c0 tl)) (c0 == 45)
        (if isHexStart (bodyOf c0 tl) then (bodyOf c0 tl).drop 2 else bodyOf c0 tl) := readFloat_cons c0 tl

theorem uloop_digit (hex : Bool) (s : Bytes) :
    underscoreLoop hex s .digit = underscoresOK (digS hex) true s := by
  rw [underscoreLoop_eq]; simp [saw_facts.2.2.2.1, saw_facts.2.2.2.2.2.2.2]

theorem uloop_start (hex : Bool) (s : Bytes) :
    underscoreLoop hex s .start = underscoresOK (digS hex) false s := by
  rw [underscoreLoop_eq]; simp [saw_facts.2.2.1, saw_facts.2.2.2.2.2.2.1]

theorem prefix_byte_facts (x : UInt8) :
    ((lower x == 120) = (lowerc x == 120)) ∧
    (lower x = 98 ∨ lower x = 111 → x ≠ 95 ∧ x ≠ 46 ∧ isDec x = false ∧ lower x ≠ 120 ∧ lowerc x ≠ 120 ∧
        (lower x == 101) = false ∧ lowerc x ≠ 101) ∧
    (lower x = 120 → x ≠ 95 ∧ x ≠ 46 ∧ isDec x = false ∧ (lower x == 101) = false) := by
  revert x; apply byte_forall; decide +kernel

/-- the four shapes of a text after its sign -/
theorem body_cases (body : Bytes) :
    (∃ x y b, body = 48 :: x :: y :: b ∧ lower x = 120) ∨
    (∃ x, body = [48, x] ∧ lower x = 120) ∨
    (∃ x r, body = 48 :: x :: r ∧ (lower x = 98 ∨ lower x = 111)) ∨
    (isHexPrefix body = false ∧ isHexStart body = false ∧ uokBody body = underscoreLoop false body .start) := by
  cases body with
  | nil => exact Or.inr (Or.inr (Or.inr ⟨rfl, rfl, rfl⟩))
  | cons a r =>
    by_cases ha : a = 48
    · subst ha
      cases r with
      | nil => exact Or.inr (Or.inr (Or.inr ⟨rfl, rfl, rfl⟩))
      | cons x r2 =>
        by_cases hx : lower x = 120
        · cases r2 with
          | nil => exact Or.inr (Or.inl ⟨x, rfl, hx⟩)
          | cons y b => exact Or.inl ⟨x, y, b, rfl, hx⟩
        · by_cases hb : lower x = 98 ∨ lower x = 111
          · exact Or.inr (Or.inr (Or.inl ⟨x, r2, rfl, hb⟩))
          · right; right; right
            have e1 : (lower x == 120) = false := by simpa using hx
            have e2 : (lowerc x == 120) = false := by rw [← (prefix_byte_facts x).1]; exact e1
            simp only [not_or] at hb
            have e3 : (lower x == 98) = false := by simpa using hb.1
            have e4 : (lower x == 111) = false := by simpa using hb.2
            refine ⟨by simp [isHexPrefix, e2], ?_, by simp [uokBody, e1, e3, e4]⟩
            cases r2 <;> simp [isHexStart, e1]
    · right; right; right
      refine ⟨?_, ?_, ?_⟩
      · unfold isHexPrefix; split
        · rename_i heq; injection heq with h1 _; exact absurd h1 ha
        · rfl
      · unfold isHexStart; split
        · rename_i heq; injection heq with h1 _; exact absurd h1 ha
        · rfl
      · unfold uokBody; split
        · rename_i heq; injection heq with h1 _; exact absurd h1 ha
        · rfl

theorem recognise_cons (c0 : UInt8) (tl : Bytes) :
    recognise (c0 :: tl) =
      if isHexPrefix (bodyOf c0 tl) then
        if !underscoresOK isHexDig true ((bodyOf c0 tl).drop 2) then none
        else (parseBody isHexDig 16 112 4 true (strip ((bodyOf c0 tl).drop 2))).map
          fun (m, e) => { neg := c0 == 45, hex := true, mant := m, exp := e }
      else
        if !underscoresOK isDec false (bodyOf c0 tl) then none
        else (parseBody isDec 10 101 1 false (strip (bodyOf c0 tl))).map
          fun (m, e) => { neg := c0 == 45, hex := false, mant := m, exp := e } := by
  unfold recognise
  rw [splitSign_cons]

/-- agreement of `readFloat`'s results with a specification parse (see `rfTail_spec`) -/
def Agrees (r : RF) (p : Parsed) (gap : Int) : Prop :=
  r.ok = true ∧ r.neg = p.neg ∧ r.hex = p.hex ∧ r.mant < 2 ^ 64 ∧
  (r.trunc = false → ∃ j : Nat, p.mant = r.mant * baseOf p.hex ^ j ∧
    (r.mant ≠ 0 → r.exp = p.exp + (((if p.hex then 4 else 1) * j : Nat) : Int) + gap)) ∧
  (r.trunc = true → ∃ j : Nat, r.mant * baseOf p.hex ^ j < p.mant ∧ p.mant < (r.mant + 1) * baseOf p.hex ^ j ∧
    baseOf p.hex ^ (maxDOf p.hex - 1) ≤ r.mant ∧
    r.exp = p.exp + (((if p.hex then 4 else 1) * j : Nat) : Int) + gap)

/-- value of the exponent literal of a text (0 if it has none) -/
def expLit (s : Bytes) : Nat :=
  if isHexPrefix (splitSign s).2 then valOf 10 (expLitDigits isHexDig (strip ((splitSign s).2.drop 2)))
  else valOf 10 (expLitDigits isDec (strip (splitSign s).2))

/-- `0b…`, `0o…` and a bare `0x`: `readFloat` reads the `0`, stops at the letter and fails -/
theorem rfTail_zero_letter (neg : Bool) (x : UInt8) (r : Bytes)
    (h95 : x ≠ 95) (h46 : x ≠ 46) (hd : isDec x = false) (he : (lower x == 101) = false) :
    (rfTail false neg (48 :: x :: r)).ok = false := by
  rw [rfTail_eq]
  obtain ⟨st2, _, g2, g3⟩ := mantLoop_block false [48] (by decide) {}
  have hm : mantLoop false (48 :: x :: r) {} = some (st2, x :: r) := by
    have := g3 (x :: r)
    rw [List.singleton_append] at this
    rw [this]
    exact mantLoop_stop false (x :: r) st2 (Or.inr ⟨x, r, rfl, h95, h46, hd⟩)
  have hsd : st2.sawdigits = true := by rw [g2]; rfl
  rw [rfTail'_of false neg _ st2 (x :: r) hm hsd]
  have : tailAdj false (x :: r) = none := by
    unfold tailAdj; simp [he]
  rw [this]

/-- … and the specification rejects them too -/
theorem parseBody_zero_letter (x : UInt8) (r : Bytes)
    (h46 : x ≠ 46) (hd : isDec x = false) (he : lowerc x ≠ 101) :
    parseBody isDec 10 101 1 false (48 :: x :: r) = none := by
  have := parseBody_eq2 false (48 :: x :: r)
  have e0 : digS false = isDec := rfl
  simp only [e0, Bool.false_eq_true, if_false] at this
  have hb : baseOf false = 10 := rfl
  rw [hb] at this
  rw [this]
  have hdw : (48 :: x :: r : Bytes).dropWhile isDec = x :: r := by
    rw [List.dropWhile_cons]; simp only [show isDec 48 = true by decide, if_true]
    rw [List.dropWhile_cons]; simp [hd]
  obtain ⟨_, e2⟩ := sp_nodot isDec (48 :: x :: r) (fun r' h => by rw [hdw] at h; injection h with h1 _; exact h46 h1)
  rw [e2, hdw]
  have : spTail false (x :: r) = none := by
    unfold spTail
    have : (lowerc x == 101) = false := by simpa using he
    simp [this]
  rw [this]
  split <;> rfl

theorem strip_zero_letter (x : UInt8) (r : Bytes) (h95 : x ≠ 95) : strip (48 :: x :: r) = 48 :: x :: strip r := by
  rw [strip_cons 48 _ (by decide), strip_cons x r h95]

/-- what the clamp of the exponent digit loop adds to the exponent the specification reads
(0 for every exponent literal below 100000, see `expGapS_zero`) -/
def expGapS (s : Bytes) : Int :=
  if isHexPrefix (splitSign s).2 then expGap isHexDig (strip ((splitSign s).2.drop 2))
  else expGap isDec (strip (splitSign s).2)

/-- **`readFloat` against the specification's recogniser**, for every text on which
`underscoreOK` holds (otherwise `ParseFloat` never calls `readFloat`). -/
theorem readFloat_recognise (s : Bytes) (hu : underscoreOK s = true) :
    (recognise s = none → (readFloat s).ok = false) ∧
    (∀ p, recognise s = some p → Agrees (readFloat s) p (expGapS s)) := by
  cases s with
  | nil =>
    refine ⟨fun _ => rfl, fun p h => ?_⟩
    have : recognise [] = none := by decide
    rw [this] at h; cases h
  | cons c0 tl =>
    rw [underscoreOK_cons] at hu
    rw [recognise_cons, readFloat_body]
    unfold expGapS
    rw [splitSign_cons]
    simp only []
    generalize bodyOf c0 tl = body at *
    rcases body_cases body with ⟨x, y, b, hb, hx⟩ | ⟨x, hb, hx⟩ | ⟨x, r, hb, hx⟩ | ⟨h1, h2, h3⟩
    · -- hex literal
      subst hb
      have e1 : (lower x == 120) = true := by simp [hx]
      have e2 : (lowerc x == 120) = true := by rw [← (prefix_byte_facts x).1]; exact e1
      have hs : isHexStart (48 :: x :: y :: b) = true := by simp [isHexStart, e1]
      have hp : isHexPrefix (48 :: x :: y :: b) = true := by simp [isHexPrefix, e2]
      have huk : underscoresOK isHexDig true (y :: b) = true := by
        simp only [uokBody, e1, Bool.or_true, if_true] at hu
        rw [uloop_digit] at hu; exact hu
      simp only [hs, hp, if_true, List.drop_succ_cons, List.drop_zero, huk, Bool.not_true, Bool.false_eq_true, if_false]
      obtain ⟨k1, k2⟩ := rfTail_spec true (c0 == 45) (y :: b) true huk
      have eb : baseOf true = 16 := rfl
      have ed : digS true = isHexDig := rfl
      simp only [eb, ed, if_true] at k1 k2
      constructor
      · intro h
        cases hpb : parseBody isHexDig 16 112 4 true (strip (y :: b)) with
        | none => exact (k1 hpb).1
        | some q => rw [hpb] at h; cases h
      · intro p h
        cases hpb : parseBody isHexDig 16 112 4 true (strip (y :: b)) with
        | none => rw [hpb] at h; cases h
        | some q =>
          obtain ⟨M, E⟩ := q
          rw [hpb] at h
          simp only [Option.map_some, Option.some.injEq] at h
          subst h
          exact k2 M E hpb
    · -- bare "0x"
      subst hb
      have e1 : (lower x == 120) = true := by simp [hx]
      have e2 : (lowerc x == 120) = true := by rw [← (prefix_byte_facts x).1]; exact e1
      have hs : isHexStart [48, x] = false := by simp [isHexStart]
      have hp : isHexPrefix [48, x] = true := by simp [isHexPrefix, e2]
      obtain ⟨a1, a2, a3, a4⟩ := (prefix_byte_facts x).2.2 hx
      simp only [hs, hp, if_true, Bool.false_eq_true, if_false]
      have hpb : parseBody isHexDig 16 112 4 true (strip (List.drop 2 [48, x])) = none := by
        show parseBody isHexDig 16 112 4 true (strip []) = none
        decide
      rw [hpb]
      refine ⟨fun _ => rfTail_zero_letter _ x [] a1 a2 a3 a4, fun p h => ?_⟩
      split at h <;> cases h
    · -- "0b…", "0o…"
      subst hb
      obtain ⟨a1, a2, a3, a4, a5, a6, a7⟩ := (prefix_byte_facts x).2.1 hx
      have e2 : (lowerc x == 120) = false := by simpa using a5
      have e1 : (lower x == 120) = false := by simpa using a4
      have hs : isHexStart (48 :: x :: r) = false := by cases r <;> simp [isHexStart, e1]
      have hp : isHexPrefix (48 :: x :: r) = false := by simp [isHexPrefix, e2]
      simp only [hs, hp, Bool.false_eq_true, if_false]
      rw [strip_zero_letter x r a1, parseBody_zero_letter x (strip r) a2 a3 a7]
      refine ⟨fun _ => rfTail_zero_letter _ x r a1 a2 a3 a6, fun p h => ?_⟩
      split at h <;> cases h
    · -- decimal
      rw [h3, uloop_start] at hu
      have ed : digS false = isDec := rfl
      rw [ed] at hu
      simp only [h1, h2, Bool.false_eq_true, if_false, hu, Bool.not_true]
      obtain ⟨k1, k2⟩ := rfTail_spec false (c0 == 45) body false hu
      have eb : baseOf false = 10 := rfl
      simp only [eb, ed, Bool.false_eq_true, if_false] at k1 k2
      constructor
      · intro h
        cases hpb : parseBody isDec 10 101 1 false (strip body) with
        | none => exact (k1 hpb).1
        | some q => rw [hpb] at h; cases h
      · intro p h
        cases hpb : parseBody isDec 10 101 1 false (strip body) with
        | none => rw [hpb] at h; cases h
        | some q =>
          obtain ⟨M, E⟩ := q
          rw [hpb] at h
          simp only [Option.map_some, Option.some.injEq] at h
          subst h
          exact k2 M E hpb

/-- **a text that fails `underscoreOK` is not in the specification's language** -/
theorem recognise_of_not_uok (s : Bytes) (hu : underscoreOK s = false) : recognise s = none := by
  cases s with
  | nil => simp [underscoreOK, underscoreLoop] at hu
  | cons c0 tl =>
    rw [underscoreOK_cons] at hu
    rw [recognise_cons]
    generalize bodyOf c0 tl = body at *
    rcases body_cases body with ⟨x, y, b, hb, hx⟩ | ⟨x, hb, hx⟩ | ⟨x, r, hb, hx⟩ | ⟨h1, h2, h3⟩
    · subst hb
      have e1 : (lower x == 120) = true := by simp [hx]
      have e2 : (lowerc x == 120) = true := by rw [← (prefix_byte_facts x).1]; exact e1
      have hp : isHexPrefix (48 :: x :: y :: b) = true := by simp [isHexPrefix, e2]
      simp only [uokBody, e1, Bool.or_true, if_true] at hu
      rw [uloop_digit] at hu
      have ed : digS true = isHexDig := rfl
      rw [ed] at hu
      simp [hp, hu]
    · subst hb
      have e1 : (lower x == 120) = true := by simp [hx]
      have e2 : (lowerc x == 120) = true := by rw [← (prefix_byte_facts x).1]; exact e1
      have hp : isHexPrefix [48, x] = true := by simp [isHexPrefix, e2]
      have hpb : parseBody isHexDig 16 112 4 true (strip (List.drop 2 [48, x])) = none := by
        show parseBody isHexDig 16 112 4 true (strip []) = none
        decide
      simp only [hp, if_true, hpb]
      split <;> rfl
    · subst hb
      obtain ⟨a1, a2, a3, a4, a5, a6, a7⟩ := (prefix_byte_facts x).2.1 hx
      have e2 : (lowerc x == 120) = false := by simpa using a5
      have hp : isHexPrefix (48 :: x :: r) = false := by simp [isHexPrefix, e2]
      simp only [hp, Bool.false_eq_true, if_false]
      rw [strip_zero_letter x r a1, parseBody_zero_letter x (strip r) a2 a3 a7]
      split <;> rfl
    · rw [h3, uloop_start] at hu
      have ed : digS false = isDec := rfl
      rw [ed] at hu
      simp [h1, hu]

end C03
