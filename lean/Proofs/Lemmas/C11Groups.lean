/-
C11: the null distribution counted per tie group (specification-level definitions used by the
theorems about the tied recurrence). An assignment class is an r-vector: r_k of the t_k members of
tie group k go to the first sample; it stands for ∏ C(t_k, r_k) assignments, all with the same
doubled statistic `twoUofR`.
-/
import Model.Stats.UDist
import Model.Spec.UExact
import Mathlib.Data.Nat.Choose.Basic

namespace C11

/-- all r-vectors for tie vector `T` with Σ r = n1 and r_k ≤ t_k -/
def rvecs : List Nat → Nat → List (List Nat)
  | [], 0 => [[]]
  | [], _ + 1 => []
  | t :: ts, n1 => (List.range (min t n1 + 1)).flatMap fun r => (rvecs ts (n1 - r)).map (r :: ·)

/-- number of assignments in the class: ∏ C(t_k, r_k) -/
def weight : List Nat → List Nat → Nat
  | t :: ts, r :: rs => Nat.choose t r * weight ts rs
  | _, _ => 1

/-- doubled statistic of the class; `below` = second-sample values in lower groups:
    group k contributes 2·r_k·below + r_k·(t_k − r_k) -/
def twoUofRAux : Nat → List Nat → List Nat → Nat
  | below, t :: ts, r :: rs => 2 * r * below + r * (t - r) + twoUofRAux (below + (t - r)) ts rs
  | _, _, _ => 0

def twoUofR (T r : List Nat) : Nat := twoUofRAux 0 T r

/-- number of assignments of the pooled sample with tie vector `T` whose first sample has n1
    members and whose doubled statistic is ≤ twoU -/
def groupCount (T : List Nat) (n1 : Nat) (twoU : Int) : Nat :=
  (((rvecs T n1).filter fun r => decide ((twoUofR T r : Int) ≤ twoU)).map (weight T)).sum

/-- the pooled sample with tie vector `T`: value k repeated T[k] times, ascending -/
def poolOf (T : List Nat) : List Nat :=
  ((List.range T.length).map fun k => List.replicate (T.getD k 0) k).flatten

end C11
