/-
C11 helper lemmas for the tied U distribution (`makeUmemo`): the K = 2 base case and the
per-rank step of the Klotz recurrence.
-/
import Model.Stats.UDist
import Proofs.Lemmas.C11Basic
import Mathlib.Algebra.BigOperators.Intervals
import Mathlib.Tactic.Ring
import Mathlib.Tactic.Linarith

namespace C11
open Stats.UDist

theorem foldl_add_eq_sum (g : Nat → Nat) (n : Nat) :
    (List.range n).foldl (fun acc i => acc + g i) 0 = ∑ i ∈ Finset.range n, g i := by
  induction n with
  | zero => simp
  | succ n ih => rw [List.range_succ, List.foldl_append, ih, Finset.sum_range_succ]; simp

/-- the Go loop `for r := lo; r <= hi; r++ { sum += f(r) }` with lo ≥ 0 is a sum over an interval -/
theorem sumRange_eq_Ico (L : Nat) (hi : Int) (f : Int → Nat) :
    sumRange (L : Int) hi f = ∑ r ∈ Finset.Ico L (hi + 1).toNat, f (r : Int) := by
  unfold sumRange
  rw [foldl_add_eq_sum (fun i => f ((L : Int) + ((i : Nat) : Int)))]
  rw [Finset.sum_Ico_eq_sum_range]
  have : (hi - (L : Int) + 1).toNat = (hi + 1).toNat - L := by omega
  rw [this]
  apply Finset.sum_congr rfl
  intro i _
  push_cast
  rfl

/-- algebra of the K = 2 case: with r1 + r2 = n1 the doubled statistic is n1(t0−n1) + r2(t0+t1) -/
theorem k2_twoU (t0 t1 r1 r2 : Int) :
    2 * r2 * (t0 - r1) + r1 * (t0 - r1) + r2 * (t1 - r2)
      = (r1 + r2) * (t0 - (r1 + r2)) + r2 * (t0 + t1) := by ring

/-- **K = 2 base case** as written today (guard `num ≥ 0`, then Go's truncating division):
    it is the sum of C(t0, n1−r2)·C(t1, r2) over exactly those r2 ∈ [0, n1] whose doubled
    statistic n1(t0−n1) + r2(t0+t1) is ≤ twoU — no division, no rounding. -/
theorem k2_closed_form (t0 t1 n1 : Nat) (hpos : 0 < t0 + t1) (twoU : Int) :
    base2 [t0, t1] (n1 : Int) twoU
      = ∑ r2 ∈ Finset.range (n1 + 1),
          if (n1 : Int) * ((t0 : Int) - n1) + (r2 : Int) * ((t0 : Int) + t1) ≤ twoU
          then Nat.choose t0 (n1 - r2) * Nat.choose t1 r2 else 0 := by
  unfold base2
  simp only [List.getD_cons_zero, List.getD_cons_succ]
  have hL : max (0 : Int) ((n1 : Int) - (t0 : Int)) = ((n1 - t0 : Nat) : Int) := by omega
  rw [hL, sumRange_eq_Ico]
  set num : Int := twoU - (n1 : Int) * ((t0 : Int) - n1) with hnum
  set hi : Int := (if num ≥ 0 then Int.tdiv num ((t0 : Int) + t1) else -1) with hhi
  set H : Nat := (hi + 1).toNat with hH
  set M : Nat := max H (n1 + 1) with hM
  -- the condition of the right-hand side is `r2 < H`
  have hP : ∀ r : Nat, ((n1 : Int) * ((t0 : Int) - n1) + (r : Int) * ((t0 : Int) + t1) ≤ twoU) ↔ r < H := by
    intro r
    have hN : (0 : Int) < (t0 : Int) + t1 := by exact_mod_cast hpos
    by_cases hn : num ≥ 0
    · have hdiv : hi = num / ((t0 : Int) + t1) := by
        rw [hhi, if_pos hn, Int.tdiv_eq_ediv_of_nonneg hn]
      have h1 : (r : Int) ≤ num / ((t0 : Int) + t1) ↔ (r : Int) * ((t0 : Int) + t1) ≤ num :=
        Int.le_ediv_iff_mul_le hN
      have h0 : 0 ≤ num / ((t0 : Int) + t1) := Int.ediv_nonneg hn (le_of_lt hN)
      constructor
      · intro h
        have : (r : Int) * ((t0 : Int) + t1) ≤ num := by rw [hnum]; linarith
        have := h1.mpr this
        omega
      · intro h
        have : (r : Int) ≤ num / ((t0 : Int) + t1) := by omega
        have := h1.mp this
        rw [hnum] at this; linarith
    · have hhi' : hi = -1 := by rw [hhi, if_neg hn]
      have hH0 : H = 0 := by rw [hH, hhi']; rfl
      constructor
      · intro h
        have hr : (0 : Int) ≤ (r : Int) * ((t0 : Int) + t1) := by positivity
        exfalso; apply hn; rw [hnum]; linarith
      · intro h; omega
  -- both sides as indicator sums over the common range M
  have hl : ∑ r ∈ Finset.Ico (n1 - t0) H, chooseI (t0 : Int) ((n1 : Int) - (r : Int)) * chooseI (t1 : Int) (r : Int)
      = ∑ r ∈ Finset.range M, if (n1 - t0 ≤ r ∧ r < H)
          then chooseI (t0 : Int) ((n1 : Int) - (r : Int)) * chooseI (t1 : Int) (r : Int) else 0 := by
    have e : (Finset.range M).filter (fun r => n1 - t0 ≤ r ∧ r < H) = Finset.Ico (n1 - t0) H := by
      ext r; simp only [Finset.mem_Ico, Finset.mem_filter, Finset.mem_range]; omega
    rw [← e, Finset.sum_filter]
  have hr : (∑ r2 ∈ Finset.range (n1 + 1),
          if (n1 : Int) * ((t0 : Int) - n1) + (r2 : Int) * ((t0 : Int) + t1) ≤ twoU
          then Nat.choose t0 (n1 - r2) * Nat.choose t1 r2 else 0)
      = ∑ r ∈ Finset.range M, if r < n1 + 1 then
          (if (n1 : Int) * ((t0 : Int) - n1) + (r : Int) * ((t0 : Int) + t1) ≤ twoU
           then Nat.choose t0 (n1 - r) * Nat.choose t1 r else 0) else 0 := by
    have e : (Finset.range M).filter (fun r => r < n1 + 1) = Finset.range (n1 + 1) := by
      ext r; simp only [Finset.mem_filter, Finset.mem_range]; omega
    rw [← e, Finset.sum_filter]
  rw [hl, hr]
  apply Finset.sum_congr rfl
  intro r _
  by_cases hrn : r < n1 + 1
  · have hF : chooseI (t0 : Int) ((n1 : Int) - (r : Int)) * chooseI (t1 : Int) (r : Int)
        = Nat.choose t0 (n1 - r) * Nat.choose t1 r := by
      have : (n1 : Int) - (r : Int) = ((n1 - r : Nat) : Int) := by omega
      rw [this, chooseI_eq, chooseI_eq]
    rw [if_pos hrn, hF]
    by_cases hp : r < H
    · rw [if_pos ((hP r).mpr hp)]
      by_cases hlo : n1 - t0 ≤ r
      · rw [if_pos ⟨hlo, hp⟩]
      · rw [if_neg (fun h => hlo h.1)]
        have : t0 < n1 - r := by omega
        rw [Nat.choose_eq_zero_of_lt this]; simp
    · rw [if_neg (fun h => hp ((hP r).mp h)), if_neg (fun h => hp h.2)]
  · rw [if_neg hrn]
    have hz : chooseI (t0 : Int) ((n1 : Int) - (r : Int)) = 0 := by
      unfold chooseI; rw [if_pos]; left; omega
    rw [hz]; simp

/-- the code before f31837d: the numerator is divided even when negative -/
def base2Old (t : List Nat) (n1 : Int) (twoU : Int) : Nat :=
  let t0 : Int := (t.getD 0 0 : Nat)
  let t1 : Int := (t.getD 1 0 : Nat)
  let r2Low : Int := max 0 (n1 - t0)
  let num : Int := twoU - n1 * (t0 - n1)
  let r2High : Int := Int.tdiv num (t0 + t1)
  sumRange r2Low r2High fun r2 => chooseI t0 (n1 - r2) * chooseI t1 r2

/-- regression witness for F5 (`UDist{2,2,[3,1]}.CDF(0)` was 3/6): truncation toward zero admits r2 = 0 -/
theorem k2_old_code_wrong : base2Old [3, 1] 2 0 = 3 ∧ base2 [3, 1] 2 0 = 0 := by decide +kernel

/-! ### the per-rank step -/

theorem sumTo_succ (t : List Nat) (k : Nat) : sumTo t (k + 1) = sumTo t k + t.getD k 0 := by
  unfold sumTo
  have h : ∀ (l : List Nat) (a : Nat), l.foldl (· + ·) a = a + l.sum := by
    intro l; induction l with
    | nil => intro a; simp
    | cons x xs ih => intro a; simp [List.foldl_cons, ih]; omega
  rw [h, h]
  simp only [Nat.zero_add]
  by_cases hk : k < t.length
  · rw [List.take_succ_eq_append_getElem hk, List.sum_append]
    simp [List.getD_eq_getElem?_getD, List.getElem?_eq_getElem hk]
  · have hk' : t.length ≤ k := Nat.le_of_not_gt hk
    rw [List.take_of_length_le (by omega), List.take_of_length_le hk']
    simp [List.getD_eq_getElem?_getD, List.getElem?_eq_none hk']

/-- a[k] = 2·(t[0]+…+t[k−2]) + t[k−1] -/
theorem aCoef_eq (t : List Nat) (k : Nat) :
    aCoef t (k + 1) = 2 * (sumTo t k : Int) + (t.getD k 0 : Nat) := by
  induction k with
  | zero => simp [aCoef, sumTo]
  | succ k ih =>
    rw [aCoef, ih, sumTo_succ]
    push_cast; ring

/-- **Klotz step**: taking `r` members of rank k (size t[k−1]) into the first sample, which then
    has n1 members among the first k ranks, lowers n1 by r and the doubled statistic by the pairs
    this rank wins against second-sample members below it (2 each) plus its internal ties:
    2·r·(S − (n1 − r)) + r·(t[k−1] − r), S = t[0]+…+t[k−2]. This is `r·(a[k] − 2·n1 + r)`. -/
theorem klotz_step (t : List Nat) (k : Nat) (n1 twoU r : Int) :
    (subKey t (k + 1) n1 twoU r).1 = n1 - r ∧
    (subKey t (k + 1) n1 twoU r).2
      = twoU - (2 * r * ((sumTo t k : Int) - (n1 - r)) + r * (((t.getD k 0 : Nat) : Int) - r)) := by
  constructor
  · rfl
  · show twoU - r * (aCoef t (k + 1) - 2 * n1 + r) = _
    rw [aCoef_eq]; ring

end C11
