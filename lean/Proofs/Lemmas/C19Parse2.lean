/-
C19 helper lemmas: parseQueryString and SplitWords cut at the same places. The parts
parseQueryString ends at a blank are "closed" for SplitWords (quotes balanced, no pending escape),
so the words of a storage query are the words of its parts, one after the other.
-/
import Proofs.Lemmas.C19Parse

namespace C19
open Storage.Query Analysis.Quote Analysis.Parse

/-- `t`, met at a word boundary and followed by a blank, contributes exactly its own words -/
def Closed (t : Bytes) : Prop :=
  ∀ ws rest, swGo false [] ws (t ++ cSpace :: rest) = swGo false [] (ws ++ splitWords t) rest

/-- scanning `cur` from a word boundary leaves SplitWords in state (`b`, word so far `w`) -/
def SwReach (b : Bool) (cur w : Bytes) : Prop :=
  ∀ ws X, swGo false [] ws (cur ++ X) = swGo b w ws X

theorem swreach_nil : SwReach false [] [] := fun _ _ => rfl

theorem closed_of_swreach (cur w : Bytes) (h : SwReach false cur w) : Closed cur := by
  intro ws rest
  have h1 := h ws (cSpace :: rest)
  have h2 := h [] []
  rw [List.append_nil, swGo_nil] at h2
  rw [h1, swGo_false_cons]
  simp only [show (cSpace == cQuote) = false from by decide, Bool.false_eq_true, if_false,
    beq_self_eq_true, Bool.true_or, if_true]
  unfold splitWords
  rw [h2, ← flush_acc]

theorem tokens_closed (n : Nat) : ∀ (q : Bytes), q.length = n → ∀ (b : Bool) (cur w : Bytes),
    SwReach b cur w → ∀ t ∈ (tokGo b cur q).1, Closed t := by
  induction n using Nat.strongRecOn with
  | _ n ih =>
    intro q hn b cur w hr
    cases q with
    | nil => rw [tokGo_nil]; simp
    | cons c r =>
      simp only [List.length_cons] at hn
      have ih1 := fun b cur w hr => ih r.length (by omega) r rfl b cur w hr
      -- one more byte scanned
      have ext1 : ∀ (b' : Bool) (w' : Bytes),
          (∀ ws X, swGo b w ws (c :: X) = swGo b' w' ws X) → SwReach b' (cur ++ [c]) w' := by
        intro b' w' hstep ws X
        rw [List.append_assoc, List.singleton_append, hr ws (c :: X), hstep]
      have hskip : ∀ (b' : Bool), (∀ d ws X, swGo b w ws (c :: d :: X) = swGo b' (w ++ [d]) ws X) →
          ∀ t ∈ (match r with
            | [] => (([] : List Bytes), cur ++ [c])
            | d :: rest' => tokGo b' (cur ++ [c, d]) rest').1, Closed t := by
        intro b' hstep
        cases r with
        | nil => simp
        | cons d r' =>
          apply ih r'.length (by simp only [List.length_cons] at hn; omega) r' rfl b' (cur ++ [c, d]) (w ++ [d])
          intro ws X
          have : cur ++ [c, d] ++ X = cur ++ (c :: d :: X) := by simp
          rw [this, hr ws (c :: d :: X), hstep]
      cases b with
      | true =>
        rw [tokGo_true_cons]
        split
        · rename_i hc
          exact ih1 false _ w (ext1 false w (fun ws X => by rw [swGo_true_cons]; simp [hc]))
        · rename_i hc
          split
          · rename_i hb
            exact hskip true (fun d ws X => by rw [swGo_true_cons]; simp [hc, hb])
          · rename_i hb
            exact ih1 true _ (w ++ [c]) (ext1 true _ (fun ws X => by rw [swGo_true_cons]; simp [hc, hb]))
      | false =>
        rw [tokGo_false_cons]
        split
        · rename_i hc
          exact ih1 true _ w (ext1 true w (fun ws X => by rw [swGo_false_cons]; simp [hc]))
        · rename_i hc
          split
          · intro t ht
            rcases List.mem_cons.mp ht with rfl | ht
            · exact closed_of_swreach _ w hr
            · exact ih1 false [] [] swreach_nil t ht
          · rename_i hbl
            split
            · rename_i hb
              exact hskip false (fun d ws X => by rw [swGo_false_cons]; simp [hc, hbl, hb])
            · rename_i hb
              exact ih1 false _ (w ++ [c]) (ext1 false _ (fun ws X => by
                rw [swGo_false_cons]; simp [hc, hbl, hb]))

/-- every part parseQueryString ends at a blank is closed -/
theorem parts_closed (q : Bytes) : ∀ t ∈ (tokGo false [] q).1, Closed t :=
  tokens_closed q.length q rfl false [] [] swreach_nil

theorem closed_quote (add : Bytes) (ha : add ≠ []) : Closed (quote add) := by
  intro ws rest
  rw [swGo_quote, swGo_false_cons]
  simp only [show (cSpace == cQuote) = false from by decide, Bool.false_eq_true, if_false,
    beq_self_eq_true, Bool.true_or, if_true, List.nil_append]
  rw [splitWords_quote_end add ha]
  unfold flush; simp [ha]

theorem closed_bar : Closed wBar := by
  intro ws rest
  have := swGo_plain wBar [] ws (cSpace :: rest) (by decide)
  rw [this, swGo_false_cons]
  simp only [show (cSpace == cQuote) = false from by decide, Bool.false_eq_true, if_false,
    beq_self_eq_true, Bool.true_or, if_true, List.nil_append]
  have : splitWords wBar = [wBar] := by decide
  rw [this]; unfold flush; simp [wBar]

/-- the words of blank-joined parts (all closed, except possibly the last) are the words of the parts -/
theorem words_joinSp (ps : List Bytes) (hc : ∀ t ∈ ps.dropLast, Closed t) :
    splitWords (joinSp ps) = ps.flatMap splitWords := by
  induction ps with
  | nil => rfl
  | cons p rest ih =>
    cases rest with
    | nil => simp [joinSp]
    | cons p2 rest2 =>
      have hp : Closed p := hc p (by simp [List.dropLast])
      have : joinSp (p :: p2 :: rest2) = p ++ cSpace :: joinSp (p2 :: rest2) := rfl
      rw [this]
      unfold splitWords
      rw [hp [] (joinSp (p2 :: rest2)), swGo_acc, List.nil_append]
      have := ih (fun t ht => hc t (by simp [List.dropLast]; exact Or.inr (by simpa [List.dropLast] using ht)))
      unfold splitWords at this
      rw [this]
      simp [splitWords]

/-- a prefix of closed parts in front of a query: its words, then the query's -/
theorem words_pref (ps : List Bytes) (hc : ∀ t ∈ ps, Closed t) (x : Bytes) :
    splitWords (joinSp ps ++ cSpace :: x) = ps.flatMap splitWords ++ splitWords x := by
  induction ps with
  | nil =>
    unfold splitWords
    simp only [joinSp, List.nil_append, List.flatMap_nil]
    rw [swGo_false_cons]
    simp [show (cSpace == cQuote) = false from by decide, flush]
  | cons p rest ih =>
    cases rest with
    | nil =>
      simp only [joinSp, List.flatMap_cons, List.flatMap_nil, List.append_nil]
      unfold splitWords
      rw [hc p (by simp) [] x, swGo_acc, List.nil_append]
      rfl
    | cons p2 rest2 =>
      have : joinSp (p :: p2 :: rest2) ++ cSpace :: x = p ++ cSpace :: (joinSp (p2 :: rest2) ++ cSpace :: x) := by
        simp [joinSp]
      rw [this]
      unfold splitWords
      rw [hc p (by simp) [] _, swGo_acc, List.nil_append]
      have := ih (fun t ht => hc t (by simp [ht]))
      unfold splitWords at this
      rw [this]
      simp [splitWords, List.append_assoc]

end C19
