/-
C07 helper lemmas: bare words followed by a delimiter.
-/
import Proofs.Lemmas.C07Quote

namespace C07
open Proc.Tok

/-- Appending bytes that do not start with a UTF-8 continuation byte never changes how the first
rune of a non-empty string decodes (an incomplete sequence stays incomplete). -/
theorem notCont_nat {d : UInt8} (h : isCont d = false) : d.toNat < 128 ∨ 191 < d.toNat := by
  simp [isCont, UInt8.le_iff_toNat_le] at h
  by_cases h1 : 128 ≤ d.toNat
  · exact Or.inr (h h1)
  · exact Or.inl (by omega)

theorem lo3_ge (b : UInt8) : 0x80 ≤ (lo3 b).toNat := by unfold lo3; split <;> decide
theorem hi3_le (b : UInt8) : (hi3 b).toNat ≤ 0xBF := by unfold hi3; split <;> decide
theorem lo4_ge (b : UInt8) : 0x80 ≤ (lo4 b).toNat := by unfold lo4; split <;> decide
theorem hi4_le (b : UInt8) : (hi4 b).toNat ≤ 0xBF := by unfold hi4; split <;> decide

theorem decodeRune_append (b0 : UInt8) (u rest : Bytes)
    (h : ∀ d r, rest = d :: r → isCont d = false) :
    decodeRune (b0 :: u ++ rest) = decodeRune (b0 :: u) := by
  have g1 := lo3_ge b0; have g2 := hi3_le b0; have g3 := lo4_ge b0; have g4 := hi4_le b0
  rcases u with _ | ⟨b1, _ | ⟨b2, _ | ⟨b3, t⟩⟩⟩
  · rcases rest with _ | ⟨d, _ | ⟨e, _ | ⟨f, r⟩⟩⟩
    · rfl
    all_goals
      have hd := notCont_nat (h _ _ rfl)
      clear h
      simp only [List.cons_append, List.nil_append, decodeRune]
      (repeat' split) <;>
        simp_all [isCont, UInt8.le_iff_toNat_le, UInt8.lt_iff_toNat_lt, ← UInt8.toNat_inj] <;> omega
  · rcases rest with _ | ⟨d, _ | ⟨e, r⟩⟩
    · rfl
    all_goals
      have hd := notCont_nat (h _ _ rfl)
      clear h
      simp only [List.cons_append, List.nil_append, decodeRune]
      (repeat' split) <;>
        simp_all [isCont, UInt8.le_iff_toNat_le, UInt8.lt_iff_toNat_lt, ← UInt8.toNat_inj] <;> omega
  · rcases rest with _ | ⟨d, r⟩
    · rfl
    · have hd := notCont_nat (h _ _ rfl)
      clear h
      simp only [List.cons_append, List.nil_append, decodeRune]
      (repeat' split) <;>
        simp_all [isCont, UInt8.le_iff_toNat_le, UInt8.lt_iff_toNat_lt, ← UInt8.toNat_inj] <;> omega
  · simp only [List.cons_append, decodeRune]

theorem decodeRune_cont (d : UInt8) (r : Bytes) (h : isCont d = true) : decodeRune (d :: r) = (runeError, 1) := by
  simp [isCont, UInt8.le_iff_toNat_le] at h
  have h1 : ¬ d < 0x80 := by simp [UInt8.lt_iff_toNat_lt]; omega
  have h2 : (decide (0xC2 ≤ d) && decide (d ≤ 0xDF)) = false := by
    simp [UInt8.le_iff_toNat_le]; intro; omega
  have h3 : (decide (0xE0 ≤ d) && decide (d ≤ 0xEF)) = false := by
    simp [UInt8.le_iff_toNat_le]; intro; omega
  have h4 : (decide (0xF0 ≤ d) && decide (d ≤ 0xF4)) = false := by
    simp [UInt8.le_iff_toNat_le]; intro; omega
  simp [decodeRune, h1, h2, h3, h4]

/-- the stop test of `bareWord`: `unicode.IsSpace(r) || isOp(r)` -/
def stopRune (cx : Ctx) (r : Nat) : Bool := isSpaceRune cx r || isOpR r

/-- what may follow a bare word: nothing, or a rune on which `bareWord` stops -/
def Delim (cx : Ctx) (rest : Bytes) : Prop := rest = [] ∨ stopRune cx (decodeRune rest).1 = true

/-- a delimiter never starts with a UTF-8 continuation byte, because U+FFFD is not white space -/
theorem delim_notCont (cx : Ctx) (hFFFD : cx.isSpaceHi runeError = false) {rest : Bytes} (hd : Delim cx rest) :
    ∀ d r, rest = d :: r → isCont d = false := by
  intro d r hr
  cases hc : isCont d with
  | false => rfl
  | true =>
    rcases hd with hd | hd
    · rw [hr] at hd; simp at hd
    · rw [hr, decodeRune_cont d r hc] at hd
      simp [stopRune, isSpaceRune, runeError, isOpR] at hd
      simp [runeError] at hFFFD
      rw [hFFFD] at hd; simp at hd

theorem bareSplit_delim (cx : Ctx) (rest : Bytes) (hd : Delim cx rest)
    (hc : ∀ d r, rest = d :: r → isCont d = false) :
    ∀ (f : Nat) (u : Bytes), u.length ≤ f → allRunes (fun r => !stopRune cx r) f u = true →
      ∀ g, f ≤ g → bareSplit cx g (u ++ rest) = (u, rest) := by
  have hend : ∀ g, bareSplit cx g rest = ([], rest) := by
    intro g
    match g with
    | 0 => rfl
    | g + 1 =>
      match rest, hd with
      | [], _ => rfl
      | d :: r, hd =>
        rcases hd with hd | hd
        · simp at hd
        · simp only [bareSplit]
          simp only [stopRune] at hd
          simp [hd]
  intro f
  induction f with
  | zero =>
    intro u hu _ g _
    have : u = [] := List.length_eq_zero_iff.mp (by omega)
    subst this; simpa using hend g
  | succ f ih =>
    intro u hu ha g hg
    match u with
    | [] => simpa using hend g
    | b0 :: u' =>
      match g, hg with
      | g + 1, hg =>
        have hsz := decodeRune_size b0 u'
        have hdec : decodeRune (b0 :: (u' ++ rest)) = decodeRune (b0 :: u') := by
          simpa using decodeRune_append b0 u' rest hc
        simp only [allRunes, Bool.and_eq_true, Bool.not_eq_true'] at ha
        have hns : (isSpaceRune cx (decodeRune (b0 :: u')).1 || isOpR (decodeRune (b0 :: u')).1) = false := by
          simpa [stopRune] using ha.1
        simp only [List.cons_append, bareSplit, hdec, hns]
        have hdrop : (b0 :: (u' ++ rest)).drop (decodeRune (b0 :: u')).2 =
            (b0 :: u').drop (decodeRune (b0 :: u')).2 ++ rest := by
          have : b0 :: (u' ++ rest) = (b0 :: u') ++ rest := rfl
          rw [this, List.drop_append_of_le_length hsz.2]
        have htake : (b0 :: (u' ++ rest)).take (decodeRune (b0 :: u')).2 =
            (b0 :: u').take (decodeRune (b0 :: u')).2 := by
          have : b0 :: (u' ++ rest) = (b0 :: u') ++ rest := rfl
          rw [this, List.take_append_of_le_length hsz.2]
        rw [hdrop, htake]
        have hl : ((b0 :: u').drop (decodeRune (b0 :: u')).2).length ≤ f := by
          rw [List.length_drop]; simp at hu ⊢; omega
        rw [ih _ hl ha.2 g (by omega)]
        simp

end C07
