/-
C07 helper lemmas: bare words followed by a delimiter.
-/
import Proofs.Lemmas.C07Quote

namespace C07
open Proc.Tok

/-- Appending bytes that do not start with a UTF-8 continuation byte never changes how the first
rune of a non-empty string decodes (an incomplete sequence stays incomplete). -/
theorem decodeRune_append (b0 : UInt8) (u rest : Bytes)
    (h : ∀ d r, rest = d :: r → isCont d = false) :
    decodeRune (b0 :: u ++ rest) = decodeRune (b0 :: u) := by
  rcases u with _ | ⟨b1, _ | ⟨b2, _ | ⟨b3, t⟩⟩⟩
  · rcases rest with _ | ⟨d, _ | ⟨e, _ | ⟨f, r⟩⟩⟩
    · rfl
    all_goals
      have hd := h _ _ rfl
      simp only [List.cons_append, List.nil_append, decodeRune]
      (repeat' split) <;>
        simp_all [isCont, UInt8.le_iff_toNat_le, UInt8.lt_iff_toNat_lt, ← UInt8.toNat_inj] <;> omega
  · rcases rest with _ | ⟨d, _ | ⟨e, r⟩⟩
    · rfl
    all_goals
      have hd := h _ _ rfl
      simp only [List.cons_append, List.nil_append, decodeRune]
      (repeat' split) <;>
        simp_all [isCont, UInt8.le_iff_toNat_le, UInt8.lt_iff_toNat_lt, ← UInt8.toNat_inj] <;> omega
  · rcases rest with _ | ⟨d, r⟩
    · rfl
    · have hd := h _ _ rfl
      simp only [List.cons_append, List.nil_append, decodeRune]
      (repeat' split) <;>
        simp_all [isCont, UInt8.le_iff_toNat_le, UInt8.lt_iff_toNat_lt, ← UInt8.toNat_inj] <;> omega
  · simp only [List.cons_append, decodeRune]

end C07
